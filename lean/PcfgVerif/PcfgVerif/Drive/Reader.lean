import PcfgVerif.Model.Reader
import PcfgVerif.Drive.Loader
/-! Driver commands for the reader model (`read_password`). -/
namespace Drive.Reader
open Pcfg Drive.Loader

structure St where
  ints : List (CPs × Option Int) := []
  hexes : List (CPs × Option CPs) := []
  unenc : List CPs := []

def St.params (st : St) : RParams :=
  { parseInt := fun t => ((st.ints.find? (·.1 == t)).map (·.2)).getD none
    hexDecode := fun t => ((st.hexes.find? (·.1 == t)).map (·.2)).getD none
    encodable := fun t => !(st.unenc.contains t) && !(t.any isSurrogate) }

def step (st : St) : List String → St × String
  | ["rd.new"] => ({}, "ok")
  | ["rd.int", t, v] =>
    match parseCps t with
    | some t => ({ st with ints := (t, if v == "x" then none else v.toInt?) :: st.ints }, "ok")
    | none => (st, "bad-op")
  | ["rd.hex", t, v] =>
    match parseCps t with
    | some t => ({ st with hexes := (t, if v == "x" then none else parseCps v) :: st.hexes }, "ok")
    | none => (st, "bad-op")
  | ["rd.unenc", t] =>
    match parseCps t with
    | some t => ({ st with unenc := t :: st.unenc }, "ok")
    | none => (st, "bad-op")
  | ["rd.read", pc, text] =>
    match parseCps text with
    | some text =>
      let r := readPasswords st.params (pc == "1") text
      (st, " ".intercalate (s!"n={r.numPasswords}" :: s!"e={r.numErrors}" :: r.out.map showCps))
    | none => (st, "bad-op")
  | _ => (st, "bad-op")

end Drive.Reader
