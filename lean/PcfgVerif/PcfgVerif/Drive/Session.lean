import PcfgVerif.Model.Session
import PcfgVerif.Drive.Loader
/-! Driver commands for the session state machine (C12, C15). -/
namespace Drive.Session
open Pcfg.Sess Drive.Loader

structure St where
  us : List Unit' := []

def parseLines (toks : List String) : Option (List Line) := toks.mapM parseCps

def parseEv (t : String) : Option Ev :=
  match t.splitOn ":" with
  | ["E"] => some .eof
  | ["X"] => some .err
  | ["L", txt, f] => (parseCps txt).map fun c => .line (String.ofList (c.map Char.ofNat)) (f == "1")
  | _ => none

def parseOmn (t : String) : Option (Option (List Line)) :=
  if t == "none" then some none
  else if t == "some" then some (some [])
  else if t.startsWith "some;" then
    (((t.drop 5).toString.splitOn ";").mapM parseCps).map some
  else none

def showMain : Main → String
  | .loopHead i => s!"loopHead:{i}"
  | .plain i r => s!"plain:{i}:{r.length}"
  | .omen i r b => s!"omen:{i}:{r.length}:{if b then 1 else 0}"
  | .finished => "finished"
  | .exited => "exited"

def showOmn : Option (List Line) → String
  | none => "none"
  | some [] => "some"
  | some ls => "some;" ++ ";".intercalate (ls.map showCps)

def step (st : St) : List String → St × String
  | ["ss.new"] => ({}, "ok")
  | "ss.unit" :: kind :: lines =>
    match parseLines lines with
    | some ls => ({ us := st.us ++ [if kind == "m" then .markov ls else .plain ls] }, "ok")
    | none => (st, "bad-op")
  | ["ss.run", pos, opt, omn, evs, sched] =>
    match pos.toNat?, parseOmn omn, (if evs == "-" then some [] else (evs.splitOn ",").mapM parseEv) with
    | some pos, some omn, some evs =>
      let f : Files := { savPos := some pos, omenOpt := opt == "1", omn := omn }
      let sc := sched.toList.filterMap fun c => if c == 'm' then some Actor.main else if c == 'k' then some Actor.kbd else none
      let r := run st.us (initLoad f evs) sc
      (st, s!"main={showMain r.main} exit={if r.shouldExit then 1 else 0} sav={r.files.savPos.getD 0} opt={if r.files.omenOpt then 1 else 0} omn={showOmn r.files.omn} out={";".intercalate (r.out.map showCps)}")
    | _, _, _ => (st, "bad-op")
  | _ => (st, "bad-op")

end Drive.Session
