import PcfgVerif.Model.Loader
import PcfgVerif.Model.LoadMulti
import PcfgVerif.Drive.Basic
/-! Driver commands for the loader model (`_load_from_file`, `_load_base_structures`). -/
namespace Drive.Loader
open Pcfg

structure St where
  floats : List (CPs × Option Float) := []
  alpha : List Nat := []

def parseCps (s : String) : Option CPs :=
  if s == "-" then some [] else (s.splitOn ".").mapM String.toNat?

def showCps (s : CPs) : String :=
  if s.isEmpty then "-" else ".".intercalate (s.map toString)

def St.parseP (st : St) (t : CPs) : Option Float :=
  match st.floats.find? (·.1 == t) with
  | some (_, r) => r
  | none => none

def St.isAlpha (st : St) (c : Nat) : Bool :=
  (65 ≤ c && c ≤ 90) || (97 ≤ c && c ≤ 122) || st.alpha.contains c

def floatArith : PArith Float :=
  { one := 1.0, sub := fun a b => a - b, div := fun a b => if b == 0.0 then none else some (a / b) }

def showGroups (gs : List (LGroup Float)) : String :=
  " ".intercalate ("ok" :: gs.map fun g =>
    " ".intercalate ("|" :: showFloat g.prob :: g.values.map showCps))

def showBase (bs : List (BaseS Float)) : String :=
  " ".intercalate ("ok" :: bs.map fun b =>
    " ".intercalate ("|" :: showFloat b.prob :: b.replacements.map showCps))

def step (st : St) : List String → St × String
  | ["ld.new"] => ({}, "ok")
  | ["ld.float", t, v] =>
    match parseCps t with
    | some t =>
      if v == "x" then ({ st with floats := (t, none) :: st.floats }, "ok")
      else match parseFloat v with
        | some f => ({ st with floats := (t, some f) :: st.floats }, "ok")
        | none => (st, "bad-op")
    | none => (st, "bad-op")
  | ["ld.alpha", c] =>
    match c.toNat? with
    | some c => ({ st with alpha := c :: st.alpha }, "ok")
    | none => (st, "bad-op")
  | ["ld.terminals", t] =>
    match parseCps t with
    | some t =>
      match loadFromFile st.parseP (fun a b => a == b) (-1.0) t with
      | some gs => (st, showGroups gs)
      | none => (st, "fail")
    | none => (st, "bad-op")
  | ["ld.base", sk, t] =>
    match parseCps t with
    | some t =>
      match loadBase st.parseP floatArith st.isAlpha (sk == "1") t with
      | some bs => (st, showBase bs)
      | none => (st, "fail")
    | none => (st, "bad-op")
  | ["ld.lines", t] =>
    match parseCps t with
    | some t => (st, " ".intercalate ("lines" :: (codecLines t).map showCps))
    | none => (st, "bad-op")
  | "ld.multi" :: cat :: k :: rest =>
    -- `_load_from_multiple_files`: k listed file names, then (file name on disk, decoded text) pairs; names as code points
    match k.toNat?, rest.mapM parseCps with
    | some k, some args =>
      let listed := (args.take k).map fun n => String.ofList (n.map Char.ofNat)
      let rec pairs : List CPs → List (String × CPs)
        | n :: t :: more => (String.ofList (n.map Char.ofNat), t) :: pairs more
        | _ => []
      let disk := pairs (args.drop k)
      let read : String → Option (List (LGroup Float)) := fun f =>
        match disk.find? (·.1 == f) with
        | some (_, t) => loadFromFile st.parseP (fun a b => a == b) (-1.0) t
        | none => none
      match LoadMulti.loadMultiple read cat listed [] with
      | none => (st, "fail")
      | some g =>
        let names := (g.map (·.1)).mergeSort (fun a b => decide (a ≤ b))
        (st, " ".intercalate ("vars" :: names.map fun nm =>
          nm ++ "=" ++ (match LoadMulti.lookup g nm with | some gs => showGroups gs | none => "?")))
    | _, _ => (st, "bad-op")
  | ["txt.tables"] =>
    (st, s!"seps {showCps pyLineSeps} spaces {showCps pySpaces}")
  | _ => (st, "bad-op")

end Drive.Loader
