import PcfgVerif.Model.Sampler
import PcfgVerif.Drive.Expand
/-! Driver commands for the sampler model (`random_walk`, `_honeyword_recursive_guess`). -/
namespace Drive.Sampler
open Pcfg

def fops : SOps Float := ⟨0.0, fun a b => a + b, fun a b => a ≥ b⟩

structure St where
  base : List (SBase Float) := []
  weights : SWeights Float := []

def parsePairs : List String → Option (List Float)
  | [] => some []
  | [_] => none
  | p :: n :: rest => do
    let p ← parseFloat p
    let n ← n.toNat?
    let more ← parsePairs rest
    pure ((p * Float.ofNat n) :: more)

def step (st : St) (exp : Drive.Expand.St) : List String → St × String
  | ["hw.new"] => ({}, "ok")
  | "hw.base" :: p :: reps =>
    match parseFloat p with
    | some p => ({ st with base := st.base ++ [⟨p, reps⟩] }, "ok")
    | none => (st, "bad-op")
  | "hw.type" :: t :: pairs =>
    match parsePairs pairs with
    | some ws => ({ st with weights := st.weights ++ [(t, ws)] }, "ok")
    | none => (st, "bad-op")
  | "hw.walk" :: us =>
    match us.mapM parseFloat with
    | some us =>
      match randomWalk fops st.base st.weights us with
      | some pt => (st, " ".intercalate ("pt" :: pt.map fun (t, i) => s!"{t}:{i}"))
      | none => (st, "none")
    | none => (st, "bad-op")
  | "hw.word" :: ks :: pt =>
    match parseNats ks, Drive.Expand.parsePt pt with
    | some ks, some pt =>
      match honeyWord exp.upperFn exp.g [] pt ks with
      | some w => (st, "word " ++ Drive.Omen.showStr w)
      | none => (st, "noword")
    | _, _ => (st, "bad-op")
  | _ => (st, "bad-op")

end Drive.Sampler
