import PcfgVerif.Drive.Basic
import PcfgVerif.Model.SoftFloat
/-! `fp.` operations: the binary64 model (`SF.mul`, the function the `sfAlg` theorems are about) next to Lean's
hardware `Float`, so that the harness can compare both with CPython's `*` bit for bit. -/
namespace Drive.SoftFloat

def bitsOf (s : String) : Option Nat := parseHex s

/-- `fp.mul a b` → `<SF.mul as bits> <Float product as bits>`; `fp.fold bp p1 … pn` → the left fold `_find_prob`
computes, same two columns; `fp.le a b` → `SF` comparison and `Float` comparison -/
def step (toks : List String) : String :=
  match toks with
  | ["fp.mul", a, b] =>
    match bitsOf a, bitsOf b with
    | some x, some y =>
      match Pcfg.SF.ofBits x, Pcfg.SF.ofBits y with
      | some u, some v =>
        let f := Float.ofBits (UInt64.ofNat x) * Float.ofBits (UInt64.ofNat y)
        s!"{toHexFixed 16 (Pcfg.SF.toBits (Pcfg.SF.mul u v))} {showFloat f}"
      | _, _ => "not-finite-nonneg"
    | _, _ => "bad-op"
  | "fp.fold" :: a :: rest =>
    match bitsOf a, rest.mapM bitsOf with
    | some x, some ys =>
      match Pcfg.SF.ofBits x, ys.mapM Pcfg.SF.ofBits with
      | some u, some vs =>
        let r := vs.foldl Pcfg.SF.mul u
        let f := ys.foldl (fun acc y => acc * Float.ofBits (UInt64.ofNat y)) (Float.ofBits (UInt64.ofNat x))
        s!"{toHexFixed 16 (Pcfg.SF.toBits r)} {showFloat f}"
      | _, _ => "not-finite-nonneg"
    | _, _ => "bad-op"
  | ["fp.le", a, b] =>
    match bitsOf a, bitsOf b with
    | some x, some y =>
      match Pcfg.SF.ofBits x, Pcfg.SF.ofBits y with
      | some u, some v =>
        let f := decide (Float.ofBits (UInt64.ofNat x) ≤ Float.ofBits (UInt64.ofNat y))
        s!"{decide (u ≤ v)} {f}"
      | _, _ => "not-finite-nonneg"
    | _, _ => "bad-op"
  | ["fp.ratio", c, t] =>
    -- Python `int / int` (decimal arguments, t > 0)
    match c.toNat?, t.toNat? with
    | some x, some y =>
      if y = 0 then "raise:ZeroDivisionError"
      else s!"{toHexFixed 16 (Pcfg.SF.toBits (Pcfg.SF.ratio x y))} {showFloat (Float.ofNat x / Float.ofNat y)}"
    | _, _ => "bad-op"
  | ["fp.div", a, b] =>
    match bitsOf a, bitsOf b with
    | some x, some y =>
      match Pcfg.SF.ofBits x, Pcfg.SF.ofBits y with
      | some u, some v =>
        if v = 0 then "raise:ZeroDivisionError"
        else
          let f := Float.ofBits (UInt64.ofNat x) / Float.ofBits (UInt64.ofNat y)
          s!"{toHexFixed 16 (Pcfg.SF.toBits (Pcfg.SF.ratio u v))} {showFloat f}"
      | _, _ => "not-finite-nonneg"
    | _, _ => "bad-op"
  | _ => "bad-op"

end Drive.SoftFloat
