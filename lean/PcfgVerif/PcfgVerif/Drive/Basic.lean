/-! Parsing / printing helpers for the line protocol of the correspondence driver. -/
namespace Drive

def hexVal (c : Char) : Option Nat :=
  if '0' ≤ c ∧ c ≤ '9' then some (c.toNat - '0'.toNat)
  else if 'a' ≤ c ∧ c ≤ 'f' then some (c.toNat - 'a'.toNat + 10)
  else if 'A' ≤ c ∧ c ≤ 'F' then some (c.toNat - 'A'.toNat + 10)
  else none

def parseHex (s : String) : Option Nat :=
  if s.isEmpty then none else
  s.toList.foldl (fun acc c => match acc, hexVal c with
    | some a, some v => some (a * 16 + v)
    | _, _ => none) (some 0)

def hexDigit (n : Nat) : Char :=
  if n < 10 then Char.ofNat ('0'.toNat + n) else Char.ofNat ('a'.toNat + (n - 10))

def toHexFixed (width : Nat) (n : Nat) : String :=
  let rec go : Nat → Nat → List Char → List Char
    | 0, _, acc => acc
    | w + 1, n, acc => go w (n / 16) (hexDigit (n % 16) :: acc)
  String.ofList (go width n [])

def parseFloat (s : String) : Option Float :=
  (parseHex s).map fun n => Float.ofBits (UInt64.ofNat n)

def showFloat (f : Float) : String := toHexFixed 16 f.toBits.toNat

def showNats (l : List Nat) : String :=
  if l.isEmpty then "-" else ",".intercalate (l.map toString)

def parseNats (s : String) : Option (List Nat) :=
  if s == "-" then some [] else (s.splitOn ",").mapM String.toNat?

def sortStrings (l : List String) : List String := l.mergeSort (fun a b => decide (a ≤ b))

/-- take `n` parsed items from the token list -/
def takeMap {α : Type} (f : String → Option α) : Nat → List String → Option (List α × List String)
  | 0, ts => some ([], ts)
  | _ + 1, [] => none
  | n + 1, t :: ts => do
    let a ← f t
    let (as, rest) ← takeMap f n ts
    pure (a :: as, rest)

end Drive
