import PcfgVerif.Model.Expand
import PcfgVerif.Drive.Omen
/-! Driver commands for the expansion model (`create_guesses`). -/
namespace Drive.Expand
open Pcfg

structure St where
  g : EGrammar := []
  upper : List (Nat × List Char) := []

def St.upperFn (st : St) (c : Char) : List Char :=
  match st.upper.find? (·.1 == c.toNat) with
  | some (_, r) => r
  | none => [c]

def addGroup (g : EGrammar) (t : String) (vals : List Str) : EGrammar :=
  if g.any (·.1 == t) then g.map (fun p => if p.1 == t then (p.1, p.2 ++ [vals]) else p)
  else g ++ [(t, [vals])]

def parsePt : List String → Option PT
  | [] => some []
  | tok :: rest =>
    match tok.splitOn ":" with
    | [t, i] => do
      let i ← i.toNat?
      let r ← parsePt rest
      pure ((t, i) :: r)
    | _ => none

def showRes (r : ERes) : String :=
  " ".intercalate ((if r.err then "n=E" else s!"n={r.count}") :: s!"err={if r.err then 1 else 0}" ::
    r.out.map Drive.Omen.showStr)

def step (st : St) (omen : Drive.Omen.St) : List String → St × String
  | ["exp.new"] => ({}, "ok")
  | "exp.section" :: t :: [] => ({ st with g := if st.g.any (·.1 == t) then st.g else st.g ++ [(t, [])] }, "ok")
  | "exp.group" :: t :: vals =>
    match vals.mapM Drive.Omen.parseStr with
    | some vs => ({ st with g := addGroup st.g t vs }, "ok")
    | none => (st, "bad-op")
  | ["exp.upper", cp, r] =>
    match cp.toNat?, Drive.Omen.parseStr r with
    | some cp, some r => ({ st with upper := (cp, r) :: st.upper }, "ok")
    | _, _ => (st, "bad-op")
  | "exp.run" :: lim :: pt =>
    let limit : Option (Option Int) :=
      if lim == "none" then some none else (lim.toInt?).map some
    match limit, parsePt pt with
    | some limit, some pt =>
      let om := fun level => omen.tables.enumLevel level 1000000
      (st, showRes (createGuesses st.upperFn st.g om pt limit))
    | _, _ => (st, "bad-op")
  | _ => (st, "bad-op")

end Drive.Expand
