import PcfgVerif.Model.OmenTrainer
import PcfgVerif.Model.OmenProb
import PcfgVerif.Model.OmenFiles
import PcfgVerif.Model.OmenCount
import PcfgVerif.Model.OmenScorerFiles
import PcfgVerif.Model.OmenText
import PcfgVerif.Drive.Omen
/-! Driver commands for the trainer / scorer side of OMEN (C11, C18). -/
namespace Drive.OmenTrainer
open _root_.Omen Drive.Omen

structure St where
  t : TTables := { ngram := 2, entries := [], lns := [] }
  /-- `omen_levels_count` after the third pass, and the number of passwords read -/
  cnt : LCtr := []
  npw : Nat := 0
  /-- the scorer's dictionaries loaded from the records of the last `of.load` -/
  sc : Option STabs := none

def parseNext : List String → Option (List (Char × Nat))
  | [] => some []
  | [_] => none
  | c :: l :: rest => do
    let c ← c.toNat?
    let l ← l.toNat?
    let more ← parseNext rest
    pure ((Char.ofNat c, l) :: more)

/-- `level:codepoints` records of one OMEN file -/
def parseNLines (toks : List String) : Option (List NLine) :=
  toks.mapM fun tok =>
    match tok.splitOn ":" with
    | [l, k] => do
      let l ← l.toNat?
      let k ← parseStr k
      pure (l, k)
    | _ => none

/-- sections of a token list separated by `|` -/
def splitOnBar : List String → List (List String)
  | [] => [[]]
  | t :: r =>
    if t == "|" then [] :: splitOnBar r
    else match splitOnBar r with
      | [] => [[t]]
      | s :: ss => (t :: s) :: ss

def showRows {α : Type} (f : α → String) (rows : List (List α)) : String :=
  "/".intercalate (rows.map fun r => ",".intercalate (r.map f))

/-- the loaded `cp` dict, canonically: every (prefix, level) with its letters, sorted by the harness -/
def showCp (cp : List (Str × List (Nat × List Char))) : String :=
  ";".intercalate (cp.flatMap fun e => e.2.map fun g => s!"{showStr e.1}@{g.1}={showStr g.2}")

/-- `_calc_level` on hardware doubles (the same formula: `floor(-log(count / total * factor + 1e-11))`, clamped) -/
def floatLvl (maxLevel : Nat) (base total factor : Nat) : Nat :=
  let probi := Float.ofNat base / Float.ofNat total * Float.ofNat factor + 0.00000000001
  let level := Float.floor (-1.0 * Float.log probi)
  if level > Float.ofNat maxLevel then maxLevel else if level < 0.0 then 0 else level.toUInt64.toNat

def showCounts (t : CTables) : String :=
  let es := t.entries.map fun e =>
    s!"{showStr e.key}:{e.ip}:{e.ep}:{e.cp}:" ++ ",".intercalate (e.next.map fun p => s!"{p.1.toNat}={p.2}")
  s!"e={";".intercalate es} ln={",".intercalate (t.lnCounts.map toString)} tot={t.ipTotal},{t.epTotal},{t.lnTotal}"

def showLevels (t : TTables) : String :=
  let es := t.entries.map fun e =>
    s!"{showStr e.key}:{e.ipLevel}:" ++ ",".intercalate (e.next.map fun p => s!"{p.1.toNat}={p.2}")
  s!"lv={";".intercalate es} lns={",".intercalate (t.lns.map toString)}"

def showLvl : Option Nat → String
  | some n => toString n
  | none => "-1"

def step (st : St) : List String → St × String
  | ["ot.new", n] =>
    match n.toNat? with
    | some n => ({ t := { ngram := n, entries := [], lns := [] } }, "ok")
    | none => (st, "bad-op")
  | "ot.entry" :: k :: ipl :: rest =>
    match parseStr k, ipl.toNat?, parseNext rest with
    | some k, some ipl, some nx =>
      ({ t := { st.t with entries := st.t.entries ++ [⟨k, ipl, nx⟩] } }, "ok")
    | _, _, _ => (st, "bad-op")
  | ["ot.ln", l] =>
    match l.toNat? with
    | some l => ({ t := { st.t with lns := st.t.lns ++ [l] } }, "ok")
    | none => (st, "bad-op")
  | ["ot.level", s] =>
    match parseStr s with
    | some s =>
      let f := match st.sc with
        | some sc => showLvl (sc.parse s)
        | none => "na"
      (st, s!"t={showLvl (st.t.trainerLevel s)} s={showLvl (st.t.scorerLevel s)} g={showLvl (st.t.toTables.levelOf (st.t.ngram - 1) s)} f={f}")
    | none => (st, "bad-op")
  | ["ot.keyspace", mk, ml] =>
    match mk.toNat?, ml.toNat? with
    | some mk, some ml =>
      let rows := st.t.ksRows ml st.t.lns.length
      (st, " ".intercalate ("k" :: (st.t.calcKeyspaceFast rows mk ml 1).map fun (l, k) => s!"{l}:{k}"))
    | _, _ => (st, "bad-op")
  | ["ot.enumcount", lvl, lim] =>
    match lvl.toNat?, lim.toNat? with
    | some lvl, some lim =>
      match st.t.toTables.enumLevel lvl lim with
      | some gs => (st, s!"n={gs.length}")
      | none => (st, "raise")
    | _, _ => (st, "bad-op")
  | "oc.train" :: size :: ng :: maxLen :: pws =>
    -- the OMEN half of the trainer on the whole list: alphabet, counts, levels; the tables become the current ones
    match size.toNat?, ng.toNat?, maxLen.toNat?, pws.mapM parseStr with
    | some size, some ng, some maxLen, some ps =>
      let alphabet := alphabetOf size ng ps
      let ct := countTables alphabet ng 1 maxLen ps
      let tt := ct.toTTables (floatLvl 10) ng 10
      ({ t := tt }, s!"a={showStr alphabet} {showCounts ct} {showLevels tt}")
    | _, _, _, _ => (st, "bad-op")
  | ["of.alpha", t] =>
    -- `_load_alphabet` on the decoded text of Omen/alphabet.txt
    match parseStr t with
    | some ts => (st, "a=" ++ ",".intercalate ((loadAlphabet (ts.map Char.toNat)).map fun l => showStr (l.map Char.ofNat)))
    | none => (st, "bad-op")
  | ["of.text", ml, ng, ipT, cpT, lnT] =>
    -- the same from the decoded text of the three files (`loadOmenText`: line iteration, rstrip, split at TAB, int)
    match ml.toNat?, ng.toNat?, parseStr ipT, parseStr cpT, parseStr lnT with
    | some ml, some ng, some ipS, some cpS, some lnS =>
      let cps (s : Str) : Pcfg.CPs := s.map Char.toNat
      let toLines (rs : List (Nat × Pcfg.CPs)) : List NLine := rs.map fun r => (r.1, r.2.map Char.ofNat)
      let lnL := (Pcfg.codecLines (cps lnS)).mapM fun l => Pcfg.parseDigits (Pcfg.rstripChars [10, 13] l)
      match Pcfg.loadOmenText (cps ipS), Pcfg.loadOmenText (cps cpS), lnL with
      | some ipR, some cpR, some lnL =>
        match loadIp ml (toLines ipR), loadCp ml (toLines cpR), loadLn ml ng lnL with
        | some ip, some cp, some ln => (st, s!"ip={showRows showStr ip} ln={showRows toString ln} cp={showCp cp}")
        | _, _, _ => (st, "raise")
      | _, _, _ => (st, "raise")
    | _, _, _, _, _ => (st, "bad-op")
  | "of.load" :: ml :: ng :: rest =>
    -- the guesser's `load_rules` on the records of IP.level | CP.level | LN.level (sections separated by `|`)
    match ml.toNat?, ng.toNat? with
    | some ml, some ng =>
      let secs := splitOnBar rest
      match secs with
      | [ipT, cpT, lnT] =>
        match parseNLines ipT, parseNLines cpT, lnT.mapM (·.toNat?) with
        | some ipL, some cpL, some lnL =>
          match loadIp ml ipL, loadCp ml cpL, loadLn ml ng lnL with
          | some ip, some cp, some ln =>
            ({ st with sc := some (loadScorer ipL cpL lnL) }, s!"ip={showRows showStr ip} ln={showRows toString ln} cp={showCp cp}")
          | _, _, _ => (st, "raise")
        | _, _, _ => (st, "bad-op")
      | _ => (st, "bad-op")
    | _, _ => (st, "bad-op")
  | "ot.third" :: pws =>
    -- the third pass over the whole list; answer: `omen_pws_per_level.txt` (most_common order of the tally)
    match pws.mapM parseStr with
    | some ps =>
      let c := st.t.levelsCount ps
      let shown := (c.mergeSort fun a b => decide (a.2 ≥ b.2)).map fun (l, n) => s!"{showLvl l}:{n}"
      ({ st with cnt := c, npw := ps.length }, " ".intercalate ("c" :: shown))
    | none => (st, "bad-op")
  | ["ot.probs", mk, ml] =>
    -- `pcfg_omen_prob.txt` line by line: level and the bits of the double
    match mk.toNat?, ml.toNat? with
    | some mk, some ml =>
      let rows := st.t.ksRows ml st.t.lns.length
      let ks := st.t.calcKeyspaceFast rows mk ml 1
      let file := omenProbFile sfNOps (fun a b => decide (a ≥ b)) ks st.cnt st.npw
      (st, " ".intercalate ("p" :: file.map fun (l, q) => s!"{l}:{toHexFixed 16 (Pcfg.SF.toBits q)}"))
    | _, _ => (st, "bad-op")
  | _ => (st, "bad-op")

end Drive.OmenTrainer
