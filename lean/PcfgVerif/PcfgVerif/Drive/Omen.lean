import PcfgVerif.Model.Omen
import PcfgVerif.Model.OmenCache
import PcfgVerif.Drive.Basic
/-! Driver commands for the OMEN enumerator model. Strings travel as dot-separated code points. -/
namespace Drive.Omen
open _root_.Omen

def parseStr (s : String) : Option Str :=
  if s == "-" then some [] else (s.splitOn ".").mapM fun t => t.toNat?.map Char.ofNat

def showStr (s : Str) : String :=
  if s.isEmpty then "-" else ".".intercalate (s.map fun c => toString c.toNat)

structure St where
  ngram : Nat := 2
  maxLevel : Nat := 10
  cp : List (Str × List (Nat × List Char)) := []
  ip : List (List Str) := []
  ln : List (List Nat) := []

def setAt {α : Type} (l : List (List α)) (i : Nat) (x : α) : List (List α) :=
  let l := if l.length ≤ i then l ++ List.replicate (i + 1 - l.length) [] else l
  l.modify i (· ++ [x])

/-- dict semantics of `grammar['cp'][prefix][level].append(char)` -/
def insertCp (cp : List (Str × List (Nat × List Char))) (pre : Str) (lvl : Nat) (c : Char) :
    List (Str × List (Nat × List Char)) :=
  let insLvl (e : List (Nat × List Char)) : List (Nat × List Char) :=
    if e.any (·.1 == lvl) then e.map (fun p => if p.1 == lvl then (p.1, p.2 ++ [c]) else p)
    else e ++ [(lvl, [c])]
  if cp.any (·.1 == pre) then cp.map (fun p => if p.1 == pre then (p.1, insLvl p.2) else p)
  else cp ++ [(pre, insLvl [])]

def St.tables (st : St) : Tables :=
  { m := { maxLevel := st.maxLevel, cp := st.cp }
    ipTbl := st.ip ++ List.replicate (st.maxLevel + 1 - st.ip.length) []
    lnTbl := st.ln ++ List.replicate (st.maxLevel + 1 - st.ln.length) [] }

def showTree : Option (List Item) → String
  | none => "none"
  | some t => if t.isEmpty then "[]" else ";".intercalate (t.map fun it => s!"{showStr it.ip}/{it.lvl}/{it.idx}")

/-- `len,ip,target` -/
def parseCall (s : String) : Option (Nat × Str × Nat) :=
  match s.splitOn "," with
  | [l, ip, t] =>
    match l.toNat?, parseStr ip, t.toNat? with
    | some l, some ip, some t => some (l, ip, t)
    | _, _, _ => none
  | _ => none

def step (st : St) : List String → St × String
  | ["omen.new", n, ml] =>
    match n.toNat?, ml.toNat? with
    | some n, some ml => ({ ngram := n, maxLevel := ml }, "ok")
    | _, _ => (st, "bad-op")
  | ["omen.ip", l, s] =>
    match l.toNat?, parseStr s with
    | some l, some s => ({ st with ip := setAt st.ip l s }, "ok")
    | _, _ => (st, "bad-op")
  | ["omen.ln", l, n] =>
    match l.toNat?, n.toNat? with
    | some l, some n => ({ st with ln := setAt st.ln l n }, "ok")
    | _, _ => (st, "bad-op")
  | ["omen.cp", l, s] =>
    match l.toNat?, parseStr s with
    | some l, some s =>
      match s.reverse with
      | [] => (st, "bad-op")
      | c :: preRev => ({ st with cp := insertCp st.cp preRev.reverse l c }, "ok")
    | _, _ => (st, "bad-op")
  | ["omen.enum", t, lim] =>
    match t.toNat?, lim.toNat? with
    | some t, some lim =>
      match st.tables.enumLevel t lim with
      | none => (st, "raise")
      | some gs => (st, " ".intercalate (s!"n={gs.length}" :: gs.map showStr))
    | _, _ => (st, "bad-op")
  | "omen.fillc" :: ml :: calls =>
    -- a sequence of memoised `_fill_out_parse_tree` calls sharing one table: results, then the table
    match ml.toNat?, calls.mapM parseCall with
    | some ml, some cs =>
      let m : Model := { maxLevel := st.maxLevel, cp := st.cp }
      let (rs, cache) := cs.foldl (fun (acc : List String × Cache) k =>
          let r := m.fillC ml k.1 acc.2 k.2.1 k.2.2
          (acc.1 ++ [showTree r.1], r.2)) ([], [])
      -- dictionary view of the table: newest entry per key, sorted
      let keys := (cache.map (·.1)).eraseDups
      let entries := keys.map fun k => s!"{showStr k.1},{k.2.1},{k.2.2}={showTree ((cache.lookup k).getD none)}"
      (st, " ".intercalate rs ++ " | " ++ " ".intercalate (entries.toArray.qsort (· < ·)).toList)
    | _, _ => (st, "bad-op")
  | _ => (st, "bad-op")

end Drive.Omen
