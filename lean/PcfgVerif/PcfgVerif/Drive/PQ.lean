import PcfgVerif.Model.Grid
import PcfgVerif.Drive.Basic
/-! Driver commands for the priority-queue model (trace validation of `PcfgQueue`). -/
namespace Drive.PQ
open Pcfg

instance : Inhabited Float := ⟨0.0⟩

structure St where
  grid : Grid Float := []
  sigs : List Nat := []
  pq : PQState := ⟨[], []⟩

def O := floatOps

def showNode (st : St) (v : Node) : String :=
  s!"{st.sigs.getD v.b 0}:{showNats v.idx}:{showFloat (nodeProb O st.grid v)}"

def showQueue (st : St) : String :=
  " ".intercalate ("q" :: sortStrings (st.pq.queue.map (showNode st)))

/-- parse `k {n hex*n}*k` -/
def parseCols : Nat → List String → Option (List (List Float) × List String)
  | 0, ts => some ([], ts)
  | _ + 1, [] => none
  | k + 1, t :: ts => do
    let n ← t.toNat?
    let (c, rest) ← takeMap parseFloat n ts
    let (cs, rest') ← parseCols k rest
    pure (c :: cs, rest')

def step (st : St) : List String → St × String
  | ["pq.new"] => ({}, "ok")
  | "pq.struct" :: sig :: bp :: k :: rest =>
    match sig.toNat?, parseFloat bp, k.toNat? with
    | some sig, some bp, some k =>
      match parseCols k rest with
      | some (cols, []) => ({ st with grid := st.grid ++ [⟨bp, cols⟩], sigs := st.sigs ++ [sig] }, "ok")
      | _ => (st, "bad-op")
    | _, _, _ => (st, "bad-op")
  | ["pq.init"] =>
    let st := { st with pq := ⟨initNodes st.grid, []⟩ }
    (st, showQueue st)
  | ["pq.restore", mx, mn] =>
    match parseFloat mx, parseFloat mn with
    | some mx, some mn =>
      let st := { st with pq := ⟨restoreNodes O st.grid mx mn, []⟩ }
      (st, showQueue st)
    | _, _ => (st, "bad-op")
  | ["pq.pop", sig, idx, prob] =>
    match sig.toNat?, parseNats idx, parseFloat prob with
    | some sig, some idx, some prob =>
      -- any queued node of a structure with this signature and this index vector
      match st.pq.queue.find? (fun v => st.sigs.getD v.b 0 == sig && v.idx == idx) with
      | none => (st, "bad:not-in-model-queue")
      | some x =>
        if !(isTop O st.grid st.pq.queue x) then (st, "bad:not-maximal")
        else if (nodeProb O st.grid x).toBits != prob.toBits then
          (st, s!"bad:prob model={showFloat (nodeProb O st.grid x)}")
        else
          let st := { st with pq := pqStep O st.grid st.pq x }
          (st, "ok " ++ showQueue st)
    | _, _, _ => (st, "bad-op")
  | ["pq.empty"] => (st, if Generated.PQ.queueEmpty st.pq.queue.length then "empty" else "nonempty")
  | _ => (st, "bad-op")

end Drive.PQ
