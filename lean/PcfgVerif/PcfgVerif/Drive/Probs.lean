import PcfgVerif.Model.Probs
import PcfgVerif.Drive.Loader
/-! Driver commands for `calculate_probabilities`. -/
namespace Drive.Probs
open Pcfg Drive.Loader

def fq : QOps Float := ⟨0.0, fun a b => a + b, fun a b => a / b, fun a b => a ≥ b⟩

def parseItems : List String → Option (List (CPs × Float))
  | [] => some []
  | t :: rest =>
    match t.splitOn ":" with
    | [v, c] => do
      let v ← parseCps v
      let c ← parseFloat c
      let more ← parseItems rest
      pure ((v, c) :: more)
    | _ => none

def step : List String → String
  | "cp.calc" :: items =>
    match parseItems items with
    | some its => " ".intercalate ("p" :: (calcProbs fq its).map fun it => s!"{showCps it.1}:{showFloat it.2}")
    | none => "bad-op"
  | ["cp.markov", cov, n] =>
    match parseFloat cov, parseFloat n with
    | some cov, some n => "m " ++ showFloat (fq.div n cov - n)
    | _, _ => "bad-op"
  | _ => "bad-op"

end Drive.Probs
