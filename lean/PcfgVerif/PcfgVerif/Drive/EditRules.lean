import PcfgVerif.Model.EditRules
import PcfgVerif.Drive.Loader
/-! Driver commands for the edit_rules model. -/
namespace Drive.EditRules
open Pcfg Drive.Loader

structure St where
  reOk : List CPs := []

def step (st : St) : List String → St × String
  | ["er.new"] => ({}, "ok")
  | ["er.reok", s] =>
    match parseCps s with
    | some s => ({ st with reOk := s :: st.reOk }, "ok")
    | none => (st, "bad-op")
  | ["er.edit", clo, chi, mn, mx, terms, useRe, text] =>
    match clo.toNat?, chi.toNat?, mn.toNat?, mx.toNat?, parseCps text with
    | some clo, some chi, some mn, some mx, some text =>
      let ts : Option (Option (List Nat)) := if terms == "none" then some none else (parseCps terms).map some
      match ts with
      | none => (st, "bad-op")
      | some ts =>
        let cfg : EditCfg := { ctx := (clo, chi), minLen := mn, maxLen := mx, terminalSet := ts,
                               regexOk := if useRe == "1" then some (fun s => st.reOk.contains s) else none }
        match editRules cfg text with
        | some t => (st, "text " ++ showCps t)
        | none => (st, "raise")
    | _, _, _, _, _ => (st, "bad-op")
  | ["er.tokens", text] =>
    match parseCps text with
    | some t => (st, " ".intercalate ("tok" :: (tokenize t).map showCps))
    | none => (st, "bad-op")
  | _ => (st, "bad-op")

end Drive.EditRules
