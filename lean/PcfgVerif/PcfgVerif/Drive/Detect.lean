import PcfgVerif.Model.Detect
import PcfgVerif.Model.Scorer
import PcfgVerif.Model.Counters
import PcfgVerif.Model.Trainer
import PcfgVerif.Drive.Loader
/-! Driver commands for the detectors / parsing pipeline (C05, C13, C03). -/
namespace Drive.Detect
open Pcfg Pcfg.Detect Drive.Loader

structure St where
  flags : List (Nat × Nat) := []
  lowers : List (CPs × CPs) := []
  lowersPy : List (CPs × CPs) := []
  mw : MWTable := []
  cfg : MWCfg := {}
  sg : ScoreG Float := []

def St.flag (st : St) (c bit : Nat) : Bool :=
  match st.flags.find? (·.1 == c) with
  | some (_, f) => (f / bit) % 2 == 1
  | none => false

def St.uenv (st : St) : UEnv :=
  { isAlpha := fun c => st.flag c 1, isDigit := fun c => st.flag c 2, isUpper := fun c => st.flag c 4,
    lowerS := fun s => match st.lowers.find? (·.1 == s) with | some (_, l) => l | none => s
    lowerPy := fun s => match st.lowersPy.find? (·.1 == s) with | some (_, l) => l | none => s }

def showSec (s : Sec) : String := s!"{showCps s.1}:{s.2.getD "None"}"

def showList (tag : String) (l : List CPs) : String := " ".intercalate (tag :: l.map showCps)

def showParsed (p : Parsed) : String :=
  " | ".intercalate [
    " ".intercalate ("sec" :: p.sections.map showSec),
    showList "walks" p.walks, showList "years" p.years, showList "ctx" p.contexts,
    showList "alpha" p.alphas, showList "masks" p.masks, showList "digits" p.digits, showList "other" p.others,
    " ".intercalate ("emails" :: p.emails.map fun e => s!"{showCps e.1},{showCps e.2}"),
    " ".intercalate ("webs" :: p.websites.map fun w => s!"{showCps w.1},{showCps w.2.1},{match w.2.2 with | some x => showCps x | none => "None"}"),
    s!"struct {p.structure'} {if p.supported then 1 else 0}"]

def step (st : St) : List String → St × String
  | ["dt.new"] => ({}, "ok")
  | ["dt.cfg", th, mn, mx] =>
    match th.toNat?, mn.toNat?, mx.toNat? with
    | some th, some mn, some mx => ({ st with cfg := ⟨th, mn, mx⟩ }, "ok")
    | _, _, _ => (st, "bad-op")
  | ["dt.cp", c, f] =>
    match c.toNat?, f.toNat? with
    | some c, some f => ({ st with flags := (c, f) :: st.flags }, "ok")
    | _, _ => (st, "bad-op")
  | ["dt.lower", a, b] =>
    match parseCps a, parseCps b with
    | some a, some b => ({ st with lowers := (a, b) :: st.lowers }, "ok")
    | _, _ => (st, "bad-op")
  | ["dt.lowerpy", a, b] =>
    match parseCps a, parseCps b with
    | some a, some b => ({ st with lowersPy := (a, b) :: st.lowersPy }, "ok")
    | _, _ => (st, "bad-op")
  | ["dt.mw", w, n] =>
    match parseCps w, n.toNat? with
    | some w, some n => ({ st with mw := st.mw ++ [(w, n)] }, "ok")
    | _, _ => (st, "bad-op")
  | ["dt.mwclear"] => ({ st with mw := [] }, "ok")
  | ["dt.train", pw, thr] =>
    match parseCps pw with
    | some pw => ({ st with mw := mwTrain st.uenv st.cfg st.mw pw (thr == "1") }, "ok")
    | none => (st, "bad-op")
  | ["dt.mwdump"] =>
    (st, " ".intercalate ("mw" :: sortStrings (st.mw.map fun p => s!"{showCps p.1}={p.2}")))
  | ["dt.parse", pw] =>
    match parseCps pw with
    | some pw => (st, showParsed (parse st.uenv st.cfg st.mw pw))
    | none => (st, "bad-op")
  | "tr.train" :: toks =>
    -- the PCFG half of the trainer on a whole list (pass 1 + pass 2): every counter, insertion order included
    let pws := toks.filterMap parseCps
    let c := Pcfg.Trainer.train st.uenv st.cfg pws
    let showT (t : MWTable) : String := "[" ++ ",".intercalate (t.map fun p => s!"{showCps p.1}={p.2}") ++ "]"
    let showL (d : LenCtr) : String := " ".intercalate (d.map fun e => s!"{e.1}:{showT e.2}")
    let showS (t : Pcfg.Trainer.SCtr) : String := "[" ++ ",".intercalate (t.map fun p => s!"{p.1}={p.2}") ++ "]"
    (st, " | ".intercalate [s!"kb {showL c.keyboard}", s!"emails {showT c.emails}", s!"providers {showT c.providers}",
      s!"urls {showT c.urls}", s!"hosts {showT c.hosts}", s!"prefixes [{",".intercalate (c.prefixes.map fun p => s!"{match p.1 with | some x => showCps x | none => "None"}={p.2}")}]", s!"years {showT c.years}",
      s!"ctx {showT c.context}", s!"alpha {showL c.alpha}", s!"masks {showL c.masks}", s!"digits {showL c.digits}",
      s!"other {showL c.other}", s!"prince {showS c.prince}", s!"base {showS c.base}", s!"raw {showS c.rawBase}"])
  | "dt.lenctr" :: toks =>
    -- successive `_update_counter_len_indexed` calls on one fresh counter dict; calls are separated by `|`
    let calls := ((" ".intercalate toks).splitOn " | ").map fun c => ((c.splitOn " ").filter (· ≠ "")).filterMap parseCps
    let d : LenCtr := calls.foldl updateLenIndexed []
    (st, " ".intercalate ("lenctr" :: d.map fun e =>
      s!"{e.1}:[" ++ ",".intercalate (e.2.map fun p => s!"{showCps p.1}={p.2}") ++ "]"))
  | ["sc.clear"] => ({ st with sg := [] }, "ok")
  | ["sc.tbl", name, v, p] =>
    match parseCps v, parseFloat p with
    | some v, some p =>
      let sg := if st.sg.any (·.1 == name) then st.sg.map (fun e => if e.1 == name then (e.1, e.2 ++ [(v, p)]) else e)
                else st.sg ++ [(name, [(v, p)])]
      ({ st with sg := sg }, "ok")
    | _, _ => (st, "bad-op")
  | ["sc.score", pw, omenOk, limit] =>
    match parseCps pw, parseFloat limit with
    | some pw, some limit =>
      let r := score (fun a b => a * b) (fun a b => a > b) 1.0 0.0 limit st.sg (parse st.uenv st.cfg st.mw pw) (omenOk == "1")
      (st, s!"{r.category} {showFloat r.prob}")
    | _, _ => (st, "bad-op")
  | _ => (st, "bad-op")

end Drive.Detect
