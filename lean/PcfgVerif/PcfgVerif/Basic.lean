def hello := "world"
