import PcfgVerif.Model.ScorerSpec
import PcfgVerif.Properties.C05
import PcfgVerif.Properties.ReproCore
import PcfgVerif.Properties.LoaderCore
import PcfgVerif.Lemmas.ScoreB4
import PcfgVerif.Lemmas.ScoreB5
import PcfgVerif.Lemmas.ScoreB6
import PcfgVerif.Lemmas.ScoreB7
/-! C13, part B: the promise, given coherence (proved) -/
namespace Pcfg.Detect
open Pcfg

/-- commutative monoid with an absorbing zero: what exact arithmetic gives the two products -/
structure CMon (P : Type) where
  mul : P → P → P
  one : P
  zero : P
  mul_comm : ∀ a b, mul a b = mul b a
  mul_assoc : ∀ a b c, mul (mul a b) c = mul a (mul b c)
  one_mul : ∀ a, mul one a = a
  zero_mul : ∀ a, mul zero a = zero

/-- **the promise**: if the scorer gives a password a non-zero probability, the guesser's grammar has a
base structure and one group per position such that (1) the pre-terminal's probability — the
guesser's own `_find_prob` product — equals the score, and (2) the password is one of the guesses of
that pre-terminal. -/
theorem score_promise {P : Type} (M : CMon P) (le : P → P → Bool) (gt : P → P → Bool) (limit : P)
    (U : UEnv) (upper : Char → List Char) (cfg : MWCfg) (t : MWTable) (pw : CPs) (hne : pw ≠ [])
    (hl : LenPres U pw) (hsc : ScalarCPs pw) (hcase : CaseInvAll U upper pw)
    (g : ScoreG P) (V : GView P) (hag : Agree M.zero g V) (omenOk : Bool)
    (hcoh : Coherent U pw (parse U cfg t pw))
    (hnz : (score M.mul gt M.one M.zero limit g (parse U cfg t pw) omenOk).prob ≠ M.zero) :
    ∃ (reps : List String) (bp : P) (idx : List Nat), (reps, bp) ∈ V.bases ∧ idx.length = reps.length ∧
      toStr pw ∈ productSpec upper V.E [] (mkPT reps idx) ∧
      probFold ⟨le, M.mul⟩ bp (reps.map V.colP) idx =
        (score M.mul gt M.one M.zero limit g (parse U cfg t pw) omenOk).prob := by
  have L : ScoreB.Laws M.mul M.one M.zero := ⟨M.mul_comm, M.mul_assoc, M.one_mul, M.zero_mul⟩
  exact ScoreB.promise_core L le gt limit U upper pw hsc hcase g V
    (ScoreB.AgreeW.of_agree hag) omenOk (parse U cfg t pw)
    (ScoreB.parse_tiles U cfg t pw hne hl) rfl rfl hcoh hnz

set_option linter.unusedVariables false in -- `hd` (distinct values) is part of the interface; the proof does not need it
/-- the `Agree.term` link from the loader models: a list file written by the trainer (distinct clean
values) is read by the scorer's loader as the (value, probability) pairs and by the guesser's loader
as groups such that every value lies in a group carrying its probability -/
theorem agree_of_file {P : Type} [DecidableEq P] (parseP : CPs → Option P) (neg1 : P)
    (items : List (CPs × CPs))
    (hc : ∀ it ∈ items, CleanValue it.1 ∧ CleanProb it.2)
    (hp : ∀ it ∈ items, ∃ p, parseP it.2 = some p ∧ p ≠ neg1)
    (hd : (items.map (·.1)).Nodup) :
    ∃ gs tbl, loadFromFile parseP (fun a b => decide (a = b)) neg1 (writeFile items) = some gs ∧
      scorerLoad parseP (writeFile items) = some tbl ∧
      ∀ v p, (tbl.find? (·.1 == v)).map (·.2) = some p →
        ∃ (j : Nat) (grp : LGroup P), gs[j]? = some grp ∧ v ∈ grp.values ∧ grp.prob = p :=
  ScoreB.agree_core parseP neg1 items hc hp

/-! ## Non-vacuity

A concrete instance (`Lemmas/ScoreB7.lean`): the ASCII environment `asciiU`, the password `Ab1`
(sections `A2` "Ab", `D1` "1"; alpha record "Ab" / "ab" / mask "UL"), natural-number "probabilities"
`A2`: ab ↦ 2, `C2`: UL ↦ 3, `D1`: 1 ↦ 5, base structure `A2D1` ↦ 7.  All hypotheses of `score_promise`
hold, the score is 2·3·5·7 = 210 ≠ 0, and the theorem produces the pre-terminal. -/

/-- natural numbers with multiplication: a `CMon` -/
def natCMon : CMon Nat where
  mul := (· * ·)
  one := 1
  zero := 0
  mul_comm := Nat.mul_comm
  mul_assoc := Nat.mul_assoc
  one_mul := Nat.one_mul
  zero_mul := Nat.zero_mul

open ScoreB.Ex in
/-- every hypothesis of `score_promise` is satisfiable at once, with a non-zero score -/
example : ScoreB.Ex.pwEx ≠ [] ∧ LenPres asciiU pwEx ∧ ScalarCPs pwEx ∧ CaseInvAll asciiU upEx pwEx ∧
    Agree natCMon.zero gEx VEx ∧ Coherent asciiU pwEx (parse asciiU {} [] pwEx) ∧
    (score natCMon.mul (fun a b => decide (b < a)) natCMon.one natCMon.zero 0 gEx
      (parse asciiU {} [] pwEx) false).prob = 210 :=
  ⟨by decide, asciiU_lenPres _, scalar_ex, caseInv_ex, agree_ex, coherent_ex, score_ex _ _ _⟩

open ScoreB.Ex in
/-- the theorem applied to the instance: `Ab1` is a guess of a pre-terminal of probability 210 -/
example : ∃ (reps : List String) (bp : Nat) (idx : List Nat), (reps, bp) ∈ VEx.bases ∧
    idx.length = reps.length ∧ toStr pwEx ∈ productSpec upEx VEx.E [] (mkPT reps idx) ∧
    probFold ⟨fun a b => decide (a ≤ b), natCMon.mul⟩ bp (reps.map VEx.colP) idx = 210 := by
  have h := score_promise natCMon (fun a b => decide (a ≤ b)) (fun a b => decide (b < a)) 0 asciiU upEx
    {} [] pwEx (by decide) (asciiU_lenPres _) scalar_ex caseInv_ex gEx VEx agree_ex false coherent_ex
    (by rw [show (score natCMon.mul _ natCMon.one natCMon.zero 0 gEx _ false).prob = 210 from score_ex _ _ _]
        decide)
  rw [show (score natCMon.mul _ natCMon.one natCMon.zero 0 gEx _ false).prob = 210 from score_ex _ _ _] at h
  exact h

/-- the same by evaluation: the pre-terminal is `A2[0] C2[0] D1[0]` -/
example : toStr ScoreB.Ex.pwEx ∈
    productSpec ScoreB.Ex.upEx ScoreB.Ex.VEx.E [] (mkPT ["A2", "C2", "D1"] [0, 0, 0]) ∧
    probFold ⟨fun a b => decide (a ≤ b), natCMon.mul⟩ 7 (["A2", "C2", "D1"].map ScoreB.Ex.VEx.colP) [0, 0, 0]
      = 210 := by decide

end Pcfg.Detect
