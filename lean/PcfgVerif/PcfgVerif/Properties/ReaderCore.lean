import PcfgVerif.Model.Reader
import PcfgVerif.Lemmas.ReaderLemmas
/-! Statements to be proved (work file for the reader, C19). -/
namespace Pcfg

/-- `$HEX[` ++ hex digits ++ `]` -/
def hexLine (h : CPs) : CPs := hexPrefix ++ h ++ [0x5d]

/-- the line does not end in CR / LF (so `rstrip('\r\n')` removes only the line end) -/
def NoTrailEol (p : CPs) : Prop := ∀ c, p.getLast? = some c → c ≠ 0x0d ∧ c ≠ 0x0a

/-- the password is not itself of the form `$HEX[...]` -/
def NotHexForm (p : CPs) : Prop := (startsWith p hexPrefix && endsWith p [0x5d]) = false

/-- result of a line that denotes password `p` with multiplicity `n` -/
def lineResult (R : RParams) (n : Int) (p : CPs) : List CPs × Int × Int :=
  if !(R.encodable p) then ([], 0, n)
  else if !(checkValid p) then ([], 0, 0)
  else (List.replicate n.toNat p, n, 0)

open Generated.Reader in
/-- a line read without `--prefixcount` whose cleaned text `q` is not of hex form -/
theorem readLine_false_of_clean (R : RParams) (line q : CPs)
    (hc : rstripChars [0x0d, 0x0a] line = q) (hnf : NotHexForm q) :
    readLine R false line = lineResult R 1 q := by
  unfold NotHexForm at hnf
  unfold readLine lineResult
  simp only [hc, prefixOn_eq, defaultCount_eq, yieldFrom_eq, Bool.false_eq_true, if_false,
    Int.sub_zero]
  rw [hnf]
  simp only [Bool.false_eq_true, if_false]

theorem NoTrailEol.contains {p : CPs} (ht : NoTrailEol p) :
    ∀ c, p.getLast? = some c → [0x0d, 0x0a].contains c = false := by
  intro c hc
  have := ht c hc
  simp [this.1, this.2]

theorem rstrip_lf (p : CPs) (ht : NoTrailEol p) : rstripChars [0x0d, 0x0a] (p ++ [0x0a]) = p :=
  rstripChars_append _ _ _ (by simp) ht.contains

theorem rstrip_crlf (p : CPs) (ht : NoTrailEol p) :
    rstripChars [0x0d, 0x0a] (p ++ [0x0d, 0x0a]) = p :=
  rstripChars_append _ _ _ (by simp) ht.contains

theorem NoTrailEol.sp_append (s p : CPs) (ht : NoTrailEol p) : NoTrailEol (s ++ [0x20] ++ p) := by
  intro c hc
  cases p with
  | nil =>
    simp at hc
    subst hc; decide
  | cons a r =>
    apply ht c
    rw [List.getLast?_append] at hc
    cases h : (a :: r).getLast? with
    | none => simp at h
    | some x => rw [h] at hc; simpa using hc

theorem hexLine_noTrailEol (h : CPs) : NoTrailEol (hexLine h) := by
  intro c hc
  simp [hexLine] at hc
  subst hc; decide

open Generated.Reader in
/-- a line read without `--prefixcount` whose cleaned text is `$HEX[h]` -/
theorem readLine_false_of_hex (R : RParams) (line h : CPs)
    (hc : rstripChars [0x0d, 0x0a] line = hexLine h) :
    readLine R false line =
      match R.hexDecode h with
      | none => ([], 0, 1)
      | some p => lineResult R 1 p := by
  have h1 : startsWith (hexLine h) hexPrefix = true := by
    unfold hexLine; rw [List.append_assoc]; exact startsWith_append _ _
  have h2 : endsWith (hexLine h) [0x5d] = true := endsWith_append _ _
  have h3 : ((hexLine h).drop 5).take ((hexLine h).length - 5 - 1) = h := hex_slice h
  unfold readLine lineResult
  simp only [hc, prefixOn_eq, defaultCount_eq, yieldFrom_eq, hexDropFront_eq, hexDropBack_eq,
    Bool.false_eq_true, if_false, Int.sub_zero, h1, h2, h3, Bool.and_self, if_true]
  cases R.hexDecode h <;> rfl

open Generated.Reader in
/-- a line read with `--prefixcount` whose first token is not a number -/
theorem readLine_true_of_clean_none (R : RParams) (line q tok rest : CPs)
    (hc : rstripChars [0x0d, 0x0a] line = q) (hl : lstripWs q = tok ++ 0x20 :: rest)
    (htok : ∀ c ∈ tok, c ≠ 0x20) (hp : R.parseInt tok = none) :
    readLine R true line = ([], 0, 0) := by
  unfold readLine
  simp only [hc, hl, pySplit_tok _ _ _ htok, prefixOn_eq, countTok_eq, if_true,
    List.getElem?_cons_zero, hp]

open Generated.Reader in
/-- a line read with `--prefixcount` whose first token is a number -/
theorem readLine_true_of_clean_some (R : RParams) (line q tok rest : CPs) (n : Int)
    (hc : rstripChars [0x0d, 0x0a] line = q) (hl : lstripWs q = tok ++ 0x20 :: rest)
    (htok : ∀ c ∈ tok, c ≠ 0x20) (hp : R.parseInt tok = some n) (hnf : NotHexForm rest) :
    readLine R true line = lineResult R n rest := by
  unfold NotHexForm at hnf
  unfold readLine lineResult
  simp only [hc, hl, pySplit_tok _ _ _ htok, prefixOn_eq, countTok_eq, restTok_eq, yieldFrom_eq,
    if_true, Int.sub_zero, List.getElem?_cons_zero, List.drop_succ_cons, List.drop_zero, hp]
  rw [joinSp_pySplit']
  rw [hnf]
  simp only [Bool.false_eq_true, if_false]

theorem tok_head (tok p : CPs) (htok : tok ≠ [] ∧ ∀ c ∈ tok, isPySpace c = false ∧ c ≠ 0x20) :
    ∀ c, (tok ++ 0x20 :: p).head? = some c → isPySpace c = false := by
  intro c hc
  cases tok with
  | nil => exact absurd rfl htok.1
  | cons a r =>
    simp at hc
    subst hc
    exact (htok.2 a (by simp)).1

theorem readLines_singleton (R : RParams) (pc : Bool) (l : CPs) :
    readLines R pc [l] = ⟨(readLine R pc l).1, (readLine R pc l).2.1, (readLine R pc l).2.2⟩ := by
  simp [readLines]

theorem readLines_replicate_nil (R : RParams) (pc : Bool) (l : CPs) (e : Int) (n : Nat)
    (h : readLine R pc l = ([], 0, e)) :
    (readLines R pc (List.replicate n l)).out = [] ∧
      (readLines R pc (List.replicate n l)).numPasswords = 0 := by
  induction n with
  | zero => simp [readLines]
  | succ k ih => simp [List.replicate_succ, readLines, h, ih.1, ih.2]

theorem readLines_replicate_one (R : RParams) (pc : Bool) (l p : CPs) (n : Nat)
    (h : readLine R pc l = ([p], 1, 0)) :
    (readLines R pc (List.replicate n l)).out = List.replicate n p ∧
      (readLines R pc (List.replicate n l)).numPasswords = n := by
  induction n with
  | zero => simp [readLines]
  | succ k ih =>
    simp [List.replicate_succ, readLines, h, ih.1, ih.2]
    omega

/-- a plain line denotes its content once -/
theorem readLine_plain (R : RParams) (p : CPs) (ht : NoTrailEol p) (hh : NotHexForm p) :
    readLine R false (p ++ [0x0a]) = lineResult R 1 p := by
  exact readLine_false_of_clean R _ p (rstrip_lf p ht) hh

/-- also with a CRLF line end -/
theorem readLine_plain_crlf (R : RParams) (p : CPs) (ht : NoTrailEol p) (hh : NotHexForm p) :
    readLine R false (p ++ [0x0d, 0x0a]) = lineResult R 1 p := by
  exact readLine_false_of_clean R _ p (rstrip_crlf p ht) hh

set_option linter.unusedVariables false in
/-- C19 (hex): a `$HEX[...]` line whose bytes decode to `p` is read exactly like the plain line `p` -/
theorem readLine_hex (R : RParams) (h p : CPs) (hd : R.hexDecode h = some p)
    (hh : ∀ c ∈ h, c ≠ 0x0d ∧ c ≠ 0x0a) (ht : NoTrailEol p) (hnf : NotHexForm p) :
    readLine R false (hexLine h ++ [0x0a]) = readLine R false (p ++ [0x0a]) := by
  rw [readLine_false_of_hex R _ h (rstrip_lf _ (hexLine_noTrailEol h)), hd,
    readLine_plain R p ht hnf]

set_option linter.unusedVariables false in
/-- an undecodable `$HEX[...]` line is skipped and counted as an encoding error -/
theorem readLine_badhex (R : RParams) (h : CPs) (hd : R.hexDecode h = none)
    (hh : ∀ c ∈ h, c ≠ 0x0d ∧ c ≠ 0x0a) :
    readLine R false (hexLine h ++ [0x0a]) = ([], 0, 1) := by
  rw [readLine_false_of_hex R _ h (rstrip_lf _ (hexLine_noTrailEol h)), hd]

/-- splitting on single spaces and joining with single spaces is the identity -/
theorem joinSp_pySplit (p : CPs) : joinSp (pySplit 0x20 p) = p := by
  exact joinSp_pySplit' p

/-- C19 (count prefix): with `--prefixcount`, the line `<ws> count ' ' p` denotes `p` with the parsed
multiplicity — inner, leading and trailing spaces of `p` are kept -/
theorem readLine_count (R : RParams) (lead tok p : CPs) (n : Int)
    (hlead : ∀ c ∈ lead, isPySpace c = true)
    (htok : tok ≠ [] ∧ ∀ c ∈ tok, isPySpace c = false ∧ c ≠ 0x20)
    (hn : R.parseInt tok = some n) (ht : NoTrailEol p) (hnf : NotHexForm p) :
    readLine R true (lead ++ tok ++ [0x20] ++ p ++ [0x0a]) = lineResult R n p := by
  have hq : lead ++ tok ++ [0x20] ++ p = lead ++ (tok ++ 0x20 :: p) := by simp
  refine readLine_true_of_clean_some R _ (lead ++ tok ++ [0x20] ++ p) tok p n
    (rstrip_lf _ (NoTrailEol.sp_append _ p ht)) ?_ (fun c hc => (htok.2 c hc).2) hn hnf
  rw [hq]
  exact lstripWs_append lead _ hlead (tok_head tok p htok)

/-- a line whose first token is not a number is skipped under `--prefixcount` -/
theorem readLine_count_bad (R : RParams) (tok p : CPs)
    (htok : tok ≠ [] ∧ ∀ c ∈ tok, isPySpace c = false ∧ c ≠ 0x20)
    (hn : R.parseInt tok = none) (ht : NoTrailEol p) :
    readLine R true (tok ++ [0x20] ++ p ++ [0x0a]) = ([], 0, 0) := by
  have hq : tok ++ [0x20] ++ p = [] ++ (tok ++ 0x20 :: p) := by simp
  refine readLine_true_of_clean_none R _ (tok ++ [0x20] ++ p) tok p
    (rstrip_lf _ (NoTrailEol.sp_append _ p ht)) ?_ (fun c hc => (htok.2 c hc).2) hn
  rw [hq]
  exact lstripWs_append [] _ (by simp) (tok_head tok p htok)

/-- the reader is a fold over the lines -/
theorem readLines_append (R : RParams) (pc : Bool) (l1 l2 : List CPs) :
    readLines R pc (l1 ++ l2) =
      ⟨(readLines R pc l1).out ++ (readLines R pc l2).out,
       (readLines R pc l1).numPasswords + (readLines R pc l2).numPasswords,
       (readLines R pc l1).numErrors + (readLines R pc l2).numErrors⟩ := by
  induction l1 with
  | nil => simp [readLines]
  | cons a l ih =>
    simp only [List.cons_append, readLines, ih, List.append_assoc, Int.add_assoc]

/-- C19: one count-prefixed line yields what the plain line repeated `n` times yields -/
theorem count_eq_repeats (R : RParams) (lead tok p : CPs) (n : Nat)
    (hlead : ∀ c ∈ lead, isPySpace c = true)
    (htok : tok ≠ [] ∧ ∀ c ∈ tok, isPySpace c = false ∧ c ≠ 0x20)
    (hn : R.parseInt tok = some (n : Int)) (ht : NoTrailEol p) (hnf : NotHexForm p) :
    (readLines R true [lead ++ tok ++ [0x20] ++ p ++ [0x0a]]).out =
      (readLines R false (List.replicate n (p ++ [0x0a]))).out ∧
    (readLines R true [lead ++ tok ++ [0x20] ++ p ++ [0x0a]]).numPasswords =
      (readLines R false (List.replicate n (p ++ [0x0a]))).numPasswords := by
  have h1 := readLine_count R lead tok p n hlead htok hn ht hnf
  have h2 := readLine_plain R p ht hnf
  rw [readLines_singleton, h1]
  unfold lineResult at h1 h2 ⊢
  by_cases he : R.encodable p = true
  · by_cases hv : checkValid p = true
    · simp only [he, hv, Bool.not_true, Bool.false_eq_true, if_false] at h2 ⊢
      have := readLines_replicate_one R false _ p n (by simpa using h2)
      simp [this.1, this.2]
    · simp only [he, hv, Bool.not_true, Bool.not_false, Bool.false_eq_true, if_false, if_true]
        at h2 ⊢
      have := readLines_replicate_nil R false _ 0 n h2
      simp [this.1, this.2]
  · simp only [he, Bool.not_false, if_true] at h2 ⊢
    have := readLines_replicate_nil R false _ 1 n (by simpa using h2)
    simp [this.1, this.2]

/-- blank lines, lines with a TAB or a control character contribute nothing -/
theorem readLine_invalid (R : RParams) (p : CPs) (ht : NoTrailEol p) (hh : NotHexForm p)
    (hinv : checkValid p = false) (henc : R.encodable p = true) :
    readLine R false (p ++ [0x0a]) = ([], 0, 0) := by
  rw [readLine_plain R p ht hh]
  simp [lineResult, hinv, henc]

/-- whatever is yielded passed `check_valid` and is encodable: nothing skipped leaks -/
theorem readLine_out_valid (R : RParams) (pc : Bool) (line : CPs) (q : CPs)
    (hq : q ∈ (readLine R pc line).1) : checkValid q = true ∧ R.encodable q = true := by
  unfold readLine at hq
  simp only [] at hq
  split at hq
  · simp at hq
  · split at hq
    · simp at hq
    · split at hq
      · simp at hq
      · split at hq
        · simp at hq
        · rename_i he hv
          have := List.eq_of_mem_replicate hq
          subst this
          simp at he hv
          exact ⟨hv, he⟩

/-! ### Non-vacuity: concrete instances -/
section NonVacuity

/-- `int()` knows `"3"`, `fromhex().decode()` knows `"61"`, everything is encodable -/
def exR : RParams :=
  { parseInt := fun t => if t = [0x33] then some 3 else none,
    hexDecode := fun h => if h = [0x36, 0x31] then some [0x61] else none,
    encodable := fun _ => true }

/-- `$HEX[61]\n` is read as `a` -/
example : readLine exR false (hexLine [0x36, 0x31] ++ [0x0a]) = ([[0x61]], 1, 0) := by decide
example : hexLine [0x36, 0x31] = cpsOfString "$HEX[61]" := by decide
/-- the hypotheses of `readLine_hex` are satisfiable -/
example : readLine exR false (hexLine [0x36, 0x31] ++ [0x0a]) = readLine exR false ([0x61] ++ [0x0a]) :=
  readLine_hex exR [0x36, 0x31] [0x61] rfl (by decide) (by simp [NoTrailEol]) (by unfold NotHexForm; decide)
/-- an undecodable hex line: one encoding error -/
example : readLine exR false (hexLine [0x36] ++ [0x0a]) = ([], 0, 1) :=
  readLine_badhex exR [0x36] rfl (by decide)

/-- `"  3  a b \n"` under `--prefixcount`: three copies of `" a b "` (leading and trailing space kept) -/
example : readLine exR true ([0x20, 0x20, 0x33, 0x20, 0x20, 0x61, 0x20, 0x62, 0x20, 0x0a]) =
    ([[0x20, 0x61, 0x20, 0x62, 0x20], [0x20, 0x61, 0x20, 0x62, 0x20], [0x20, 0x61, 0x20, 0x62, 0x20]],
      3, 0) := by decide
/-- the hypotheses of `readLine_count` / `count_eq_repeats` are satisfiable (same line) -/
example : readLine exR true ([0x20, 0x20] ++ [0x33] ++ [0x20] ++ [0x20, 0x61, 0x20, 0x62, 0x20] ++ [0x0a]) =
    lineResult exR 3 [0x20, 0x61, 0x20, 0x62, 0x20] :=
  readLine_count exR [0x20, 0x20] [0x33] [0x20, 0x61, 0x20, 0x62, 0x20] 3 (by decide)
    ⟨by decide, by decide⟩ rfl (by simp [NoTrailEol]) (by unfold NotHexForm; decide)
example :
    (readLines exR true [[0x20, 0x20] ++ [0x33] ++ [0x20] ++ [0x20, 0x61, 0x20, 0x62, 0x20] ++ [0x0a]]).out =
      (readLines exR false (List.replicate 3 ([0x20, 0x61, 0x20, 0x62, 0x20] ++ [0x0a]))).out :=
  (count_eq_repeats exR [0x20, 0x20] [0x33] [0x20, 0x61, 0x20, 0x62, 0x20] 3 (by decide)
    ⟨by decide, by decide⟩ rfl (by simp [NoTrailEol]) (by unfold NotHexForm; decide)).1
/-- first token not a number: skipped -/
example : readLine exR true ([0x78] ++ [0x20] ++ [0x61] ++ [0x0a]) = ([], 0, 0) :=
  readLine_count_bad exR [0x78] [0x61] ⟨by decide, by decide⟩ rfl (by simp [NoTrailEol])

/-- a line with a TAB (`"a\tb\n"`) is skipped, and a blank line too -/
example : readLine exR false [0x61, 0x09, 0x62, 0x0a] = ([], 0, 0) := by decide
example : readLine exR false [0x0a] = ([], 0, 0) := by decide
example : readLine exR false ([0x61, 0x09, 0x62] ++ [0x0a]) = ([], 0, 0) :=
  readLine_invalid exR [0x61, 0x09, 0x62] (by simp [NoTrailEol]) (by unfold NotHexForm; decide) (by decide) rfl
/-- a plain line with CRLF is read once -/
example : readLine exR false [0x61, 0x62, 0x0d, 0x0a] = ([[0x61, 0x62]], 1, 0) := by decide

end NonVacuity

end Pcfg
