import PcfgVerif.Model.EditRules
import PcfgVerif.Lemmas.EditLemmas
/-! edit_rules (C20): statements and proofs. -/
namespace Pcfg

/-- a length label as the trainer writes it: one upper-case letter followed by decimal digits -/
def IsLabel (t : CPs) : Prop := ∃ c ds, t = c :: ds ∧ isUpperAZ c = true ∧ ∀ d ∈ ds, isDigit09 d = true

/-- a probability field as it stands in grammar.txt: no upper-case letter, no TAB, no newline, no
surrounding whitespace -/
def IsProbText (p : CPs) : Prop :=
  (∀ c ∈ p, isUpperAZ c = false ∧ c ≠ 0x09 ∧ c ≠ 0x0a) ∧ lstripWs (rstripWs p) = p

/-- one well-formed line `labels<TAB>prob` (without the newline) -/
def gLine (labels : List CPs) (prob : CPs) : CPs := labels.flatten ++ [0x09] ++ prob

/-- the tokenizer returns exactly the labels of a well-formed line: rewriting the line from its
tokens changes nothing (no label is truncated, whatever its number of digits) -/
theorem tokenize_gLine (labels : List CPs) (prob : CPs) (hl : ∀ t ∈ labels, IsLabel t)
    (hp : IsProbText prob) : tokenize (gLine labels prob) = labels :=
  tokenize_lineRaw labels prob hl hp

theorem probField_gLine (labels : List CPs) (prob : CPs) (hl : ∀ t ∈ labels, IsLabel t)
    (hp : IsProbText prob) : probField (gLine labels prob) = some prob :=
  probField_lineRaw labels prob hl hp

theorem structField_gLine (labels : List CPs) (prob : CPs) (hl : ∀ t ∈ labels, IsLabel t)
    (hp : IsProbText prob) : structField (gLine labels prob) = labels.flatten :=
  structField_lineRaw labels prob hl hp

/-- the text of a grammar file made of well-formed lines -/
def gText (rows : List (List CPs × CPs)) : CPs :=
  (rows.map fun r => gLine r.1 r.2 ++ [0x0a]).flatten

theorem textLines_gText (rows : List (List CPs × CPs))
    (h : ∀ r ∈ rows, (∀ t ∈ r.1, IsLabel t) ∧ IsProbText r.2) :
    textLines (gText rows) = (rows.map fun r => gLine r.1 r.2) ++ [[]] :=
  textLines_textRaw rows h

/-- C20 (length filter): on a well-formed file whose labels all carry a number where one is read,
`edit_length` keeps exactly the rows whose (shortest, longest) guess length passes `keepLen`, in order,
each line byte-identical (structure and probability text unchanged) -/
theorem editLength_filter (ctx : Nat × Nat) (mn mx : Nat) (rows : List (List CPs × CPs))
    (h : ∀ r ∈ rows, r.1 ≠ [] ∧ (∀ t ∈ r.1, IsLabel t) ∧ IsProbText r.2 ∧ (totalLen ctx r.1).isSome) :
    (editLengthLines ctx mn mx (textLines (gText rows))).map List.flatten =
      some (gText (rows.filter fun r =>
        Generated.EditRules.keepLen ((totalLen ctx r.1).getD (0, 0)).1 ((totalLen ctx r.1).getD (0, 0)).2 mn mx)) := by
  rw [textLines_gText rows (fun r hr => ⟨(h r hr).2.1, (h r hr).2.2.1⟩)]
  exact editLength_filter_raw ctx mn mx rows h

/-- C20 (terminal-set filter) -/
theorem editTerminal_filter (allowed : List Nat) (rows : List (List CPs × CPs))
    (h : ∀ r ∈ rows, r.1 ≠ [] ∧ (∀ t ∈ r.1, IsLabel t) ∧ IsProbText r.2) :
    (editTerminalLines allowed (textLines (gText rows))).map List.flatten =
      some (gText (rows.filter fun r => r.1.all fun t => allowed.contains (t.headD 0))) := by
  rw [textLines_gText rows (fun r hr => ⟨(h r hr).2.1, (h r hr).2.2⟩)]
  exact editTerminal_filter_raw allowed rows h

/-- C20 (regex filter) -/
theorem checkRegex_filter (ok : CPs → Bool) (rows : List (List CPs × CPs))
    (h : ∀ r ∈ rows, r.1 ≠ [] ∧ (∀ t ∈ r.1, IsLabel t) ∧ IsProbText r.2) :
    (checkRegexLines ok (textLines (gText rows))).map List.flatten =
      some (gText (rows.filter fun r => ok r.1.flatten)) := by
  rw [textLines_gText rows (fun r hr => ⟨(h r hr).2.1, (h r hr).2.2⟩)]
  exact checkRegex_filter_raw ok rows h

/-- what passing the length test means: the Markov structure (longest 0) is always kept; otherwise
the shortest guess is at least the minimum and, when a maximum was given, the longest at most the maximum -/
theorem keepLen_spec (lo hi mn mx : Nat) :
    Generated.EditRules.keepLen lo hi mn mx = true ↔
      (hi = 0 ∨ (mn ≤ lo ∧ (mx = 0 ∨ hi ≤ mx))) := by
  exact gen_keepLen_iff lo hi mn mx

set_option linter.unusedVariables false in
/-- the lengths `edit_length` attributes to a label: its number for A, D, O, K; 4 for Y; for X the number
times the shortest / longest context-sensitive value of the ruleset; 0 for anything else (M) -/
theorem tokenLen_spec (ctx : Nat × Nat) (c : Nat) (ds : CPs) (hc : isUpperAZ c = true) (hds : ds ≠ []) :
    tokenLen ctx (c :: ds) =
      if c = 0x59 then some (4, 4)
      else if c = 0x41 ∨ c = 0x44 ∨ c = 0x4f ∨ c = 0x4b then (digitsVal ds).map fun n => (n, n)
      else if c = 0x58 then (digitsVal ds).map fun n => (n * ctx.1, n * ctx.2)
      else some (0, 0) := by
  exact tokenLen_cons ctx c ds (upper_lt hc)

/-- `l` is a length a value behind the label `tok` can have, according to what the ruleset holds: the
label's number for A, D, O, K, 4 for Y, between the shortest and the longest context value for X -/
def LabelLenOK (ctx : Nat × Nat) (tok : CPs) (l : Nat) : Prop :=
  ∃ a b, tokenLen ctx tok = some (a, b) ∧ a ≤ l ∧ l ≤ b

/-- a guess of a structure is one value per label: its length lies between the two totals -/
theorem totalLen_bounds (ctx : Nat × Nat) (toks : List CPs) (ls : List Nat) (hlen : ls.length = toks.length)
    (h : ∀ i (hi : i < toks.length), LabelLenOK ctx toks[i] (ls[i]'(by omega))) :
    ∃ lo hi, totalLen ctx toks = some (lo, hi) ∧ lo ≤ ls.sum ∧ ls.sum ≤ hi := by
  induction toks generalizing ls with
  | nil =>
    cases ls with
    | nil => exact ⟨0, 0, rfl, by simp, by simp⟩
    | cons l ls => simp at hlen
  | cons t ts ih =>
    cases ls with
    | nil => simp at hlen
    | cons l ls =>
      have hlen' : ls.length = ts.length := by simpa using hlen
      obtain ⟨a, b, hab, hal, hlb⟩ := h 0 (by simp)
      simp only [List.getElem_cons_zero] at hab hal hlb
      obtain ⟨lo, hi, hts, hlo, hhi⟩ := ih ls hlen' (fun i hi => by
        have := h (i + 1) (by simp; omega)
        simpa using this)
      refine ⟨a + lo, b + hi, totalLen_cons_some ctx t ts (a, b) (lo, hi) hab hts, ?_, ?_⟩
      · simp only [List.sum_cons]; omega
      · simp only [List.sum_cons]; omega

/-- **the length promise**: every guess of a kept non-Markov structure is within the requested bounds -/
theorem kept_guess_in_bounds (ctx : Nat × Nat) (toks : List CPs) (ls : List Nat) (mn mx lo hi : Nat)
    (hlen : ls.length = toks.length)
    (h : ∀ i (hi : i < toks.length), LabelLenOK ctx toks[i] (ls[i]'(by omega)))
    (ht : totalLen ctx toks = some (lo, hi)) (hnm : hi ≠ 0)
    (hk : Generated.EditRules.keepLen lo hi mn mx = true) :
    mn ≤ ls.sum ∧ (mx = 0 ∨ ls.sum ≤ mx) := by
  obtain ⟨lo', hi', ht', hlo, hhi⟩ := totalLen_bounds ctx toks ls hlen h
  rw [ht] at ht'
  simp only [Option.some.injEq, Prod.mk.injEq] at ht'
  obtain ⟨rfl, rfl⟩ := ht'
  rcases (keepLen_spec lo hi mn mx).mp hk with h0 | ⟨h1, h2⟩
  · exact absurd h0 hnm
  · exact ⟨by omega, by omega⟩

/-- and only failing structures are removed: a removed structure has a guess (all context values
shortest, or all longest) outside the bounds -/
theorem removed_has_failing_guess (lo hi mn mx : Nat) (hk : Generated.EditRules.keepLen lo hi mn mx = false) :
    hi ≠ 0 ∧ (lo < mn ∨ (mx ≠ 0 ∧ mx < hi)) := by
  have hn : ¬ (hi = 0 ∨ (mn ≤ lo ∧ (mx = 0 ∨ hi ≤ mx))) := by
    intro hc
    rw [(keepLen_spec lo hi mn mx).mpr hc] at hk
    exact Bool.noConfusion hk
  omega

/-! ## Non-vacuity: a concrete four-line grammar file

`A3D1\t0.5`, `M\t0.25`, `A1000D2\t0.125`, `Y1X1\t0.0625`; context values of 2 to 5 characters
(totals (4,4), (0,0), (1002,1002), (6,9)). -/

/-- Boolean form of `IsLabel`, to discharge the hypotheses by evaluation -/
def isLabelB : CPs → Bool
  | [] => false
  | c :: ds => isUpperAZ c && ds.all isDigit09

theorem isLabel_of_isLabelB (t : CPs) (h : isLabelB t = true) : IsLabel t := by
  cases t with
  | nil => simp [isLabelB] at h
  | cons c ds =>
    simp only [isLabelB, Bool.and_eq_true, List.all_eq_true] at h
    exact ⟨c, ds, rfl, h.1, h.2⟩

def exA3D1 : List CPs × CPs := ([[0x41, 0x33], [0x44, 0x31]], [0x30, 0x2e, 0x35])
def exM : List CPs × CPs := ([[0x4d]], [0x30, 0x2e, 0x32, 0x35])
def exA1000D2 : List CPs × CPs :=
  ([[0x41, 0x31, 0x30, 0x30, 0x30], [0x44, 0x32]], [0x30, 0x2e, 0x31, 0x32, 0x35])
def exY1X1 : List CPs × CPs :=
  ([[0x59, 0x31], [0x58, 0x31]], [0x30, 0x2e, 0x30, 0x36, 0x32, 0x35])
def exRows : List (List CPs × CPs) := [exA3D1, exM, exA1000D2, exY1X1]

/-- the text really is the file `A3D1\t0.5\nM\t0.25\nA1000D2\t0.125\nY1X1\t0.0625\n` -/
example : gText exRows =
    [0x41, 0x33, 0x44, 0x31, 0x09, 0x30, 0x2e, 0x35, 0x0a,
     0x4d, 0x09, 0x30, 0x2e, 0x32, 0x35, 0x0a,
     0x41, 0x31, 0x30, 0x30, 0x30, 0x44, 0x32, 0x09, 0x30, 0x2e, 0x31, 0x32, 0x35, 0x0a,
     0x59, 0x31, 0x58, 0x31, 0x09, 0x30, 0x2e, 0x30, 0x36, 0x32, 0x35, 0x0a] := by decide

/-- the hypotheses of the three filter theorems hold for the example -/
theorem exRows_ok : ∀ r ∈ exRows,
    r.1 ≠ [] ∧ (∀ t ∈ r.1, IsLabel t) ∧ IsProbText r.2 ∧ (totalLen (2, 5) r.1).isSome := by
  have hb : ∀ r ∈ exRows, r.1 ≠ [] ∧ (∀ t ∈ r.1, isLabelB t = true) ∧
      ((∀ c ∈ r.2, isUpperAZ c = false ∧ c ≠ 0x09 ∧ c ≠ 0x0a) ∧ lstripWs (rstripWs r.2) = r.2) ∧
      (totalLen (2, 5) r.1).isSome = true := by decide
  intro r hr
  obtain ⟨h1, h2, h3, h4⟩ := hb r hr
  exact ⟨h1, fun t ht => isLabel_of_isLabelB t (h2 t ht), h3, h4⟩

example : exRows.map (fun r => totalLen (2, 5) r.1) = [some (4, 4), some (0, 0), some (1002, 1002), some (6, 9)] := by decide

/-- min 4, max 4: `A3D1` (4) and the Markov line `M` (0) stay -/
example : (editLengthLines (2, 5) 4 4 (textLines (gText exRows))).map List.flatten =
    some (gText [exA3D1, exM]) := by decide

/-- min 5, no max: `A3D1` goes; `A1000D2` is written back with all its digits; `Y1X1` (6..9) stays -/
example : (editLengthLines (2, 5) 5 0 (textLines (gText exRows))).map List.flatten =
    some (gText [exM, exA1000D2, exY1X1]) := by decide

/-- min 1000, no max: only `M` and `A1000D2` stay, byte for byte -/
example : (editLengthLines (2, 5) 1000 0 (textLines (gText exRows))).map List.flatten =
    some [0x4d, 0x09, 0x30, 0x2e, 0x32, 0x35, 0x0a,
      0x41, 0x31, 0x30, 0x30, 0x30, 0x44, 0x32, 0x09, 0x30, 0x2e, 0x31, 0x32, 0x35, 0x0a] := by
  decide

/-- the same through the theorem -/
example : (editLengthLines (2, 5) 1000 0 (textLines (gText exRows))).map List.flatten =
    some (gText (exRows.filter fun r =>
      Generated.EditRules.keepLen ((totalLen (2, 5) r.1).getD (0, 0)).1 ((totalLen (2, 5) r.1).getD (0, 0)).2 1000 0)) :=
  editLength_filter (2, 5) 1000 0 exRows exRows_ok

example : (exRows.filter fun r => Generated.EditRules.keepLen ((totalLen (2, 5) r.1).getD (0, 0)).1 ((totalLen (2, 5) r.1).getD (0, 0)).2 1000 0) =
    [exM, exA1000D2] := by decide

/-- the tokenizer does not truncate the four-digit label -/
example : tokenize (gLine exA1000D2.1 exA1000D2.2) = exA1000D2.1 := by decide

/-- terminal-set filter with `{A, D, M}` and regex filter on the example -/
example : (editTerminalLines [0x41, 0x44, 0x4d] (textLines (gText exRows))).map List.flatten =
    some (gText [exA3D1, exM, exA1000D2]) := by decide

example : (checkRegexLines (fun s => s.headD 0 == 0x41) (textLines (gText exRows))).map
    List.flatten = some (gText [exA3D1, exA1000D2]) := by decide

/-- a line without TAB makes `edit_length` raise (the hypothesis `IsProbText`/TAB is needed) -/
example : editLengthLines (1, 1) 0 3 [[0x41, 0x33]] = none := by decide

/-- a letter without digits where `int()` is applied raises (hypothesis `(totalLen _).isSome`) -/
example : editLengthLines (1, 1) 0 3 [[0x41, 0x09, 0x31]] = none := by decide

/-- max 8: `Y1X1` goes because its longest guess has 9 characters although its shortest has 6 -/
example : (editLengthLines (2, 5) 0 8 (textLines (gText exRows))).map List.flatten =
    some (gText [exA3D1, exM]) := by decide

end Pcfg

section AxiomCheck
open Pcfg
end AxiomCheck
