import PcfgVerif.Model.ExpandSpec
/-!
# C04 — a pre-terminal expands to exactly the product of its terminal groups
(the refinement theorems `recGuesses_none` / `recGuesses_limit` are added when proved)
-/
namespace Pcfg.C04

/-- dispatch of `_recursive_guesses` on the first letter of the variable name -/
theorem C04_dispatch : Generated.Expand.isMarkov 'M' = true ∧ Generated.Expand.isCase 'C' = true ∧
    (∀ c, c ≠ 'M' → Generated.Expand.isMarkov c = false) ∧ (∀ c, c ≠ 'C' → Generated.Expand.isCase c = false) ∧
    Generated.Expand.maskKeeps 'L' = true ∧ (∀ c, c ≠ 'L' → Generated.Expand.maskKeeps c = false) := by
  simp [Generated.Expand.isMarkov, Generated.Expand.isCase, Generated.Expand.maskKeeps, CmpOp.chr]

end Pcfg.C04
