import PcfgVerif.Properties.ExpandCore
import PcfgVerif.Lemmas.ExpandCount
/-!
# C04 — a pre-terminal expands to exactly the product of its terminal groups

`productSpec` is the list comprehension "one value from each chosen group, in structure order, every
capitalisation mask applied to the tail of what precedes it", in nested-loop order; `okSpec` says
that no lookup on any path raises (true of what the loader builds: each `C<n>` directly follows an
`A<n>` whose values have `n` characters).  That all values of a group share the file probability is
`C07`'s `loadFromFile_writeFile`.
-/
namespace Pcfg.C04

/-- the lines written for a non-Markov pre-terminal are exactly the product of its groups, in order,
each combination once, and the reported count is the number of lines -/
theorem C04_expand (upper : Char → List Char) (g : EGrammar) (omen : Nat → Option (List Str))
    (pt : PT) (hpt : pt ≠ []) (hok : okSpec upper g [] pt = true) :
    createGuesses upper g omen pt none =
      ⟨productSpec upper g [] pt, (productSpec upper g [] pt).length, false⟩ :=
  recGuesses_none upper g omen [] pt hpt hok

/-- a Markov pre-terminal expands to exactly the strings of its OMEN level, in generator order
(`Omen.level_exact` says which strings these are), and the count is their number -/
theorem C04_markov (gs : List Str) : omenLoop gs none = ⟨gs, gs.length, false⟩ := omenLoop_none gs

/-- **how many guesses a pre-terminal has**: the product of the sizes of its chosen groups (one factor per position, a mask group counting
its masks) - so the list of `C04_expand` holds every combination of one value per position one time and leaves none out; with
`C04_expand` this is also the number `create_guesses` returns -/
theorem C04_count_is_product_of_group_sizes (upper : Char → List Char) (g : EGrammar) (omen : Nat → Option (List Str))
    (pt : PT) (hpt : pt ≠ []) (hok : okSpec upper g [] pt = true) :
    (createGuesses upper g omen pt none).count = (groupSizes g pt).foldr (· * ·) 1 ∧
    (createGuesses upper g omen pt none).out.length = (groupSizes g pt).foldr (· * ·) 1 := by
  rw [C04_expand upper g omen pt hpt hok]
  exact ⟨productSpec_length upper g pt [] hok, productSpec_length upper g pt [] hok⟩

/-- non-vacuity: two words, two masks, two digits: 2 x 2 x 2 -/
example : groupSizes ExpandExample.gr ExpandExample.pt0 = [2, 2, 2] := by decide

/-- every pre-terminal produces at least one guess -/
theorem C04_nonempty (upper : Char → List Char) (g : EGrammar) (pt : PT)
    (hok : okSpec upper g [] pt = true) : 0 < (productSpec upper g [] pt).length :=
  productSpec_pos upper g [] pt hok

/-- dispatch of `_recursive_guesses` on the first letter of the variable name -/
theorem C04_dispatch : Generated.Expand.isMarkov 'M' = true ∧ Generated.Expand.isCase 'C' = true ∧
    (∀ c, c ≠ 'M' → Generated.Expand.isMarkov c = false) ∧ (∀ c, c ≠ 'C' → Generated.Expand.isCase c = false) ∧
    Generated.Expand.maskKeeps 'L' = true ∧ (∀ c, c ≠ 'L' → Generated.Expand.maskKeeps c = false) := by
  simp [Generated.Expand.isMarkov, Generated.Expand.isCase, Generated.Expand.maskKeeps, CmpOp.chr]

/-- non-vacuity: `A2 C2 D1` with two words, two masks, two digits gives the eight combinations -/
example : okSpec ExpandExample.up ExpandExample.gr [] ExpandExample.pt0 = true ∧
    (productSpec ExpandExample.up ExpandExample.gr [] ExpandExample.pt0).length = 8 := by decide

end Pcfg.C04
