import PcfgVerif.Generated.ProcessState
import PcfgVerif.Generated.Session
import PcfgVerif.Properties.LoaderCore
import PcfgVerif.Properties.SkipBruteOrder
import PcfgVerif.Generated.CliOptions
/-!
# C14 — skip_brute and all_lower are pure restrictions of the default run

Loader level (this file): under `skip_brute` the base-structure list is the default list without the
structures containing `M`, in the same order, each file probability divided by `1 − P(M)` — with or
without an `M` line.  Because every pre-terminal probability is `base probability × …`, dividing all
base probabilities by one positive constant leaves every comparison the next function makes
unchanged over the rationals; over doubles the division is monotone (correctly rounded), and the
stream comparison is checked exactly on rulesets where `1 − P(M)` is a power of two.
-/
namespace Pcfg.C14
variable {P : Type}

/-- `--skip_brute` = filter out `M`, rescale by `1/(1 − P(M))`, keep the order -/
theorem C14_skip_brute (parseP : CPs → Option P) (A : PArith P) (isAlpha : Nat → Bool) (text : CPs)
    (hone : ∀ p, A.div p A.one = some p)
    (bs : List (BaseS P)) (hdef : loadBase parseP A isAlpha false text = some bs)
    (tot : P) (htot : skipTotal parseP A text = some tot)
    (hdiv : ∀ b ∈ bs, (A.div b.prob tot).isSome) :
    loadBase parseP A isAlpha true text =
      some ((bs.filter fun b => !(b.replacements.contains [0x4d])).filterMap fun b =>
        (A.div b.prob tot).map fun q => { b with prob := q }) :=
  loadBase_skip parseP A isAlpha text hone bs hdef tot htot hdiv

/-- a ruleset without a Markov structure is loaded unchanged under `--skip_brute` -/
theorem C14_skip_brute_no_markov (parseP : CPs → Option P) (A : PArith P) (isAlpha : Nat → Bool) (text : CPs)
    (hone : ∀ p, A.div p A.one = some p)
    (bs : List (BaseS P)) (hdef : loadBase parseP A isAlpha false text = some bs)
    (hnoM : ∀ b ∈ bs, b.replacements.contains [0x4d] = false)
    (hscan : findMarkovProb parseP (textModeLines text) = some none) :
    loadBase parseP A isAlpha true text = some bs :=
  loadBase_skip_noM parseP A isAlpha text hone bs hdef hnoM hscan

/-- the loader puts `C<n>` directly after every `A<n>` and inserts nothing else -/
theorem C14_case_insertion (reps : List CPs) (h : ∀ r ∈ reps, r.head? ≠ some 0x43) :
    (insertCase reps).filter (fun r => r.head? != some 0x43) = reps ∧
    ∀ (i : Nat) r, (insertCase reps)[i]? = some r → r.head? = some 0x41 →
      (insertCase reps)[i + 1]? = some (0x43 :: r.tail) :=
  insertCase_spec reps h

/-- `--all_lower`: the mask list of length `n` is the single mask `L…L` with probability one -/
theorem C14_all_lower_masks (one : P) (n : Nat) :
    (allLowerMasks one n).length = 1 ∧
    ∀ g ∈ allLowerMasks one n, g.values = [List.replicate n 0x4c] ∧ g.prob = one := by
  simp [allLowerMasks]

/-- the stream: dividing every base-structure probability by the same positive constant `1 − P(M)`
divides every pre-terminal probability (`_find_prob`) by it … -/
theorem C14_rescaled_prob (bp total : Rat) (cols : List (List Rat)) (idx : List Nat) :
    probFold SkipBrute.O (bp / total) cols idx = probFold SkipBrute.O bp cols idx / total :=
  SkipBrute.probFold_rescaled bp total cols idx

/-- … and therefore leaves every comparison between two pre-terminals — all the priority queue and the
next function ever look at — unchanged: with C01/C02 (order, each once, for every tie-breaking) the
`--skip_brute` run emits the non-Markov pre-terminals of the default run in the same order (exact
arithmetic; over doubles the division is monotone, ties may be broken differently) -/
theorem C14_order_preserved (total : Rat) (ht : 0 < total) (bp1 bp2 : Rat)
    (cols1 cols2 : List (List Rat)) (idx1 idx2 : List Nat) :
    SkipBrute.O.le (probFold SkipBrute.O (bp1 / total) cols1 idx1) (probFold SkipBrute.O (bp2 / total) cols2 idx2) =
    SkipBrute.O.le (probFold SkipBrute.O bp1 cols1 idx1) (probFold SkipBrute.O bp2 cols2 idx2) :=
  SkipBrute.skip_brute_le total ht bp1 bp2 cols1 cols2 idx1 idx2

/-- **a restored session runs with the flags of its save file** (glue of `pcfg_guesser.py`, regenerated from the source on every run):
after option parsing the only writes to `program_info` are the three in `load_save`, each taken from the save file (`rule_name`,
`skip_brute`, `skip_case`); `main` itself assigns nothing and no write uses a computed key, so whatever `--skip_brute` /
`--all_lower` is typed next to `--load` is overwritten before the grammar is built (`Generated.Session.loadSaveBeforeGrammar`). -/
theorem C14_load_takes_saved_flags :
    Generated.CliOptions.guesserAssign.filter (fun a => a.1 != "parse_command_line") =
      [("load_save", "rule_name", "save_config.get('rule_info', 'rule_name')"),
       ("load_save", "skip_brute", "save_config.getboolean('rule_info', 'skip_brute')"),
       ("load_save", "skip_case", "save_config.getboolean('rule_info', 'skip_case')")] ∧
    Generated.CliOptions.guesserAssign.all (fun a => a.2.1 != "<dynamic>") = true ∧
    Generated.CliOptions.guesserAssign.filter (fun a => a.1 == "parse_command_line" && (a.2.1 == "skip_brute" || a.2.1 == "skip_case")) =
      [("parse_command_line", "skip_brute", "args.skip_brute"), ("parse_command_line", "skip_case", "args.skip_case")] := by
  decide

/-- the save file the flags are read back from is the one of the session named on the command line: the only assignment to
`program_info['session_name']` is `args.session`, unchanged (regenerated from the source), so `--load` of one session never takes
the flags another session saved -/
theorem C14_session_name_is_the_typed_name :
    Generated.CliOptions.guesserAssign.filter (fun a => a.2.1 == "session_name") =
      [("parse_command_line", "session_name", "args.session")] := by
  decide

/-- **the flags of a session travel through its save file unchanged** (regenerated from `pcfg_guesser.py`): the only values ever stored
under `skip_brute` / `skip_case` are those of the run that created the session (`create_save_config`; nothing else - `load_save` in
particular - writes these keys), `load_save` sets the program's flags from exactly these entries whatever was typed beside `--load`, and it
does so before the grammar is built - so every later session of a run applies the same restriction (`C14_skip_brute_is_restriction`,
`C14_all_lower_is_restriction`) to the same grammar -/
theorem C14_saved_flags_round_trip :
    Generated.Session.saveConfigSets.filter (fun t => t.2.1 == "skip_brute" || t.2.1 == "skip_case") =
      [("create_save_config", "skip_brute", "str(program_info['skip_brute'])"),
       ("create_save_config", "skip_case", "str(program_info['skip_case'])")] ∧
    Generated.Session.loadSaveAssigns.filter (fun t => t.1 == "skip_brute" || t.1 == "skip_case") =
      [("skip_brute", "save_config.getboolean('rule_info','skip_brute')"),
       ("skip_case", "save_config.getboolean('rule_info','skip_case')")] ∧
    Generated.Session.loadSaveBeforeGrammar = true := by
  decide

/-- **nothing outlives a call except the objects a caller holds** (regenerated from the four library packages): no module-level or
class-level mutable container, no cache decorator or cache call (`functools.lru_cache`, `cache`), no mutable or computed default
argument and no `global` statement anywhere in `lib_guesser`, `lib_trainer`, `lib_scorer`, `lib_princeling`.  The models of this file are
functions of the objects handed to the code (grammar, detector, tables, memo table); this is the fact that lets them be: an answer cannot
depend on what another object, an earlier ruleset in the same process or the other thread did -/
theorem C14_no_process_wide_state : Generated.ProcessState.processWideState = [] := by
  decide

end Pcfg.C14
