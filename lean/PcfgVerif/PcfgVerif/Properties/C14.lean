import PcfgVerif.Properties.LoaderCore
/-!
# C14 — skip_brute and all_lower are pure restrictions of the default run

Loader level (this file): under `skip_brute` the base-structure list is the default list without the
structures containing `M`, in the same order, each file probability divided by `1 − P(M)` — with or
without an `M` line.  Because every pre-terminal probability is `base probability × …`, dividing all
base probabilities by one positive constant leaves every comparison the next function makes
unchanged over the rationals; over doubles the division is monotone (correctly rounded), and the
stream comparison is checked exactly on rulesets where `1 − P(M)` is a power of two.
-/
namespace Pcfg.C14
variable {P : Type}

/-- `--skip_brute` = filter out `M`, rescale by `1/(1 − P(M))`, keep the order -/
theorem C14_skip_brute (parseP : CPs → Option P) (A : PArith P) (isAlpha : Nat → Bool) (text : CPs)
    (hone : ∀ p, A.div p A.one = some p)
    (bs : List (BaseS P)) (hdef : loadBase parseP A isAlpha false text = some bs)
    (tot : P) (htot : skipTotal parseP A text = some tot)
    (hdiv : ∀ b ∈ bs, (A.div b.prob tot).isSome) :
    loadBase parseP A isAlpha true text =
      some ((bs.filter fun b => !(b.replacements.contains [0x4d])).filterMap fun b =>
        (A.div b.prob tot).map fun q => { b with prob := q }) :=
  loadBase_skip parseP A isAlpha text hone bs hdef tot htot hdiv

/-- a ruleset without a Markov structure is loaded unchanged under `--skip_brute` -/
theorem C14_skip_brute_no_markov (parseP : CPs → Option P) (A : PArith P) (isAlpha : Nat → Bool) (text : CPs)
    (hone : ∀ p, A.div p A.one = some p)
    (bs : List (BaseS P)) (hdef : loadBase parseP A isAlpha false text = some bs)
    (hnoM : ∀ b ∈ bs, b.replacements.contains [0x4d] = false)
    (hscan : findMarkovProb parseP (textModeLines text) = some none) :
    loadBase parseP A isAlpha true text = some bs :=
  loadBase_skip_noM parseP A isAlpha text hone bs hdef hnoM hscan

/-- the loader puts `C<n>` directly after every `A<n>` and inserts nothing else -/
theorem C14_case_insertion (reps : List CPs) (h : ∀ r ∈ reps, r.head? ≠ some 0x43) :
    (insertCase reps).filter (fun r => r.head? != some 0x43) = reps ∧
    ∀ (i : Nat) r, (insertCase reps)[i]? = some r → r.head? = some 0x41 →
      (insertCase reps)[i + 1]? = some (0x43 :: r.tail) :=
  insertCase_spec reps h

/-- `--all_lower`: the mask list of length `n` is the single mask `L…L` with probability one -/
theorem C14_all_lower_masks (one : P) (n : Nat) :
    (allLowerMasks one n).length = 1 ∧
    ∀ g ∈ allLowerMasks one n, g.values = [List.replicate n 0x4c] ∧ g.prob = one := by
  simp [allLowerMasks]

end Pcfg.C14
