import PcfgVerif.Model.Loader
/-!
# C14 — skip_brute and all_lower are pure restrictions of the default run
(loader theorems `loadBase_skip` / `loadBase_skip_noM` are added when proved)
-/
namespace Pcfg.C14

/-- `--all_lower`: the mask list of length `n` is the single mask `L…L` with probability one -/
theorem C14_all_lower_masks {P : Type} (one : P) (n : Nat) :
    (allLowerMasks one n).length = 1 ∧
    ∀ g ∈ allLowerMasks one n, g.values = [List.replicate n 0x4c] := by
  simp [allLowerMasks]

end Pcfg.C14
