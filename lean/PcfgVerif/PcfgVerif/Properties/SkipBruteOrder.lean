import PcfgVerif.Model.Grid
/-!
# `skip_brute`: rescaling the base-structure probabilities keeps the emission order

With `--skip_brute` the loader divides every base-structure probability by `1 - P(Markov)`.  The
pre-terminal probability is the left fold `probFold` of the product starting from the base-structure
probability, so (over exact rationals) every pre-terminal probability is divided by the same
positive constant, and all comparisons between pre-terminals – hence the priority-queue order –
are unchanged.  Core `Rat` only.
-/
namespace Pcfg.SkipBrute

/-- exact rational arithmetic -/
def O : POps Rat := ⟨fun a b => decide (a ≤ b), fun a b => a * b⟩

private theorem div_mul_swap (a t p : Rat) : a / t * p = a * p / t := by
  rw [Rat.div_def, Rat.div_def, Rat.mul_assoc, Rat.mul_comm t⁻¹ p, Rat.mul_assoc]

theorem probFold_rescaled (bp total : Rat) (cols : List (List Rat)) (idx : List Nat) :
    probFold O (bp / total) cols idx = probFold O bp cols idx / total := by
  induction cols generalizing bp idx with
  | nil => simp [probFold]
  | cons c cs ih =>
    cases idx with
    | nil => simp [probFold]
    | cons i is =>
      simp only [probFold]
      cases c[i]? with
      | none => exact ih bp is
      | some p =>
        show probFold O (bp / total * p) cs is = probFold O (bp * p) cs is / total
        rw [div_mul_swap]; exact ih (bp * p) is

private theorem div_le_div_right_iff (a b t : Rat) (ht : 0 < t) : a / t ≤ b / t ↔ a ≤ b := by
  have hi : 0 < t⁻¹ := Rat.inv_pos.mpr ht
  rw [Rat.div_def, Rat.div_def, ← Rat.not_lt, ← Rat.not_lt, Rat.mul_lt_mul_right hi]

theorem skip_brute_order (total : Rat) (ht : 0 < total) (bp1 bp2 : Rat)
    (cols1 cols2 : List (List Rat)) (idx1 idx2 : List Nat) :
    (probFold O (bp1 / total) cols1 idx1 ≤ probFold O (bp2 / total) cols2 idx2) ↔
    (probFold O bp1 cols1 idx1 ≤ probFold O bp2 cols2 idx2) := by
  rw [probFold_rescaled, probFold_rescaled, div_le_div_right_iff _ _ _ ht]

/-- the same statement in the form the guesser evaluates it (`POps.le`, `POps.lt`, `POps.eqv`) -/
theorem skip_brute_le (total : Rat) (ht : 0 < total) (bp1 bp2 : Rat)
    (cols1 cols2 : List (List Rat)) (idx1 idx2 : List Nat) :
    O.le (probFold O (bp1 / total) cols1 idx1) (probFold O (bp2 / total) cols2 idx2) =
    O.le (probFold O bp1 cols1 idx1) (probFold O bp2 cols2 idx2) := by
  show decide _ = decide _
  exact decide_eq_decide.mpr (skip_brute_order total ht bp1 bp2 cols1 cols2 idx1 idx2)

/-- non-vacuity: P(Markov) = 1/5, so everything is divided by 4/5 -/
example : probFold O ((1/2 : Rat) / (4/5)) [[1/2, 1/4], [1/3]] [1, 0] = (1/24 : Rat) / (4/5) := by
  decide +kernel

end Pcfg.SkipBrute
