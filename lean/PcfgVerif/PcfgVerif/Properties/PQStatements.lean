import PcfgVerif.Model.GridSpec
import PcfgVerif.Lemmas.Adopt
import PcfgVerif.Lemmas.AdoptOrder
import PcfgVerif.Lemmas.Best
/-! Statements to be proved (work file for the PQ core). -/
namespace Pcfg
variable {P : Type} [Inhabited P]

/-- C02 (+ the "every intermediate state" clause): in every reachable state no node is in
`popped ++ queue` twice, all are grid nodes, and once the queue is empty the popped list is a
permutation of the whole grid. -/
theorem pq_exactly_once (A : PAlg P) (g : Grid P) (hwf : WF A.toPOps g) (s : PQState)
    (h : Reach A.toPOps g (initNodes g) s) :
    (s.popped ++ s.queue).Nodup ∧ (∀ v ∈ s.popped ++ s.queue, ValidNode g v) ∧
      (s.queue = [] → s.popped.Perm (allNodes g)) := by
  sorry

/-- progress: a non-empty queue always has an element `heappop` may return -/
theorem pq_progress (A : PAlg P) (g : Grid P) (q : List Node) (hq : q ≠ []) :
    ∃ x, isTop A.toPOps g q x = true := by
  sorry

/-- termination: at most one pop per grid node -/
theorem pq_terminates (A : PAlg P) (g : Grid P) (hwf : WF A.toPOps g) (s : PQState)
    (h : Reach A.toPOps g (initNodes g) s) : s.popped.length ≤ (allNodes g).length := by
  sorry

/-- C01: the popped sequence is non-increasing, for every prefix and every tie-breaking -/
theorem pq_order (A : PAlg P) (g : Grid P) (hwf : WF A.toPOps g) (s : PQState)
    (h : Reach A.toPOps g (initNodes g) s) : NonIncreasing A.toPOps g s.popped := by
  sorry

/-- C08: resuming from saved probability `m` (with `min_probability` below everything) emits exactly
the nodes of probability ≤ m, each once, in non-increasing order -/
theorem pq_resume (A : PAlg P) (g : Grid P) (hwf : WF A.toPOps g) (m mn : P)
    (hmin : ∀ v, ValidNode g v → A.lt (nodeProb A.toPOps g v) mn = false)
    (s : PQState) (h : Reach A.toPOps g (restoreNodes A.toPOps g m mn) s) :
    (s.popped ++ s.queue).Nodup ∧
    NonIncreasing A.toPOps g s.popped ∧
    (∀ v ∈ s.popped ++ s.queue, ValidNode g v ∧ A.le (nodeProb A.toPOps g v) m = true) ∧
    (s.queue = [] → s.popped.Perm ((allNodes g).filter fun v => A.le (nodeProb A.toPOps g v) m)) := by
  sorry

end Pcfg
