import PcfgVerif.Model.ExpandSpec
import PcfgVerif.Model.GridSpec
import PcfgVerif.Lemmas.ReproLemmas
/-! Statements to be proved (work file for C03: the links that are specific to the end-to-end claim). -/
namespace Pcfg

/-- `orig` and its stored lower-casing `lw` are related letter by letter the way a one-to-one case
mapping relates them: an upper-case letter is recovered by `upper`, any other character is stored
unchanged -/
def TamePair (upper : Char → List Char) (isUpper : Char → Bool) : Str → Str → Prop
  | [], [] => True
  | c :: cs, l :: ls =>
    (if isUpper c then upper l = [c] else l = c) ∧ TamePair upper isUpper cs ls
  | _, _ => False

/-- the mask the trainer records for a word -/
def maskOf (isUpper : Char → Bool) (w : Str) : Str := w.map fun c => if isUpper c then 'U' else 'L'

theorem maskOf_cons (isUpper : Char → Bool) (c : Char) (cs : Str) :
    maskOf isUpper (c :: cs) = (if isUpper c then 'U' else 'L') :: maskOf isUpper cs := rfl

theorem TamePair.length_eq (upper : Char → List Char) (isUpper : Char → Bool) :
    ∀ (orig lw : Str), TamePair upper isUpper orig lw → orig.length = lw.length
  | [], [], _ => rfl
  | _ :: cs, _ :: ls, h => by
    simp only [List.length_cons]
    rw [TamePair.length_eq upper isUpper cs ls h.2]
  | [], _ :: _, h => h.elim
  | _ :: _, [], h => h.elim

/-- `applyMask_maskOf` with an arbitrary prefix before the word (the loop index starts after it) -/
theorem applyMask_maskOf_aux (upper : Char → List Char) (isUpper : Char → Bool) :
    ∀ (orig lw pre : Str), TamePair upper isUpper orig lw →
      applyMask upper (pre ++ lw) (maskOf isUpper orig) pre.length = some orig
  | [], [], _, _ => by simp [maskOf, applyMask]
  | [], _ :: _, _, h => h.elim
  | _ :: _, [], _, h => h.elim
  | c :: cs, l :: ls, pre, h => by
    obtain ⟨hc, ht⟩ := h
    have ih := applyMask_maskOf_aux upper isUpper cs ls (pre ++ [l]) ht
    have hidx : (pre ++ l :: ls)[pre.length]? = some l := by simp
    have hpre : pre ++ l :: ls = (pre ++ [l]) ++ ls := by simp
    have hlen : pre.length + Generated.Expand.maskStep = (pre ++ [l]).length := by
      simp [Frag.maskStep_eq]
    rw [maskOf_cons, applyMask, hidx]
    simp only
    rw [hlen, hpre, ih]
    simp only
    by_cases hu : isUpper c = true
    · rw [if_pos hu] at hc
      simp [hu, Frag.maskKeeps_U, hc]
    · rw [if_neg hu] at hc
      simp [hu, Frag.maskKeeps_L, hc]

/-- C03 (capitalisation): applying the recorded mask to the stored lower-cased word gives back the
original word -/
theorem applyMask_maskOf (upper : Char → List Char) (isUpper : Char → Bool) (orig lw : Str)
    (h : TamePair upper isUpper orig lw) :
    applyMask upper lw (maskOf isUpper orig) Generated.Expand.maskStart = some orig := by
  have := applyMask_maskOf_aux upper isUpper orig lw [] h
  simpa [Frag.maskStart_eq] using this

/-- a segment of a training password together with what the ruleset stores for it -/
inductive Piece where
  /-- digits, symbols, years, keyboard walks, context strings: stored as they are, variable `t`, group `i` -/
  | plain (t : String) (i : Nat) (v : Str)
  /-- a word: variable `A<n>` group `i` holds the lower-cased word, `C<n>` group `j` holds its mask -/
  | alpha (ta : String) (i : Nat) (tc : String) (j : Nat) (orig lw : Str)
deriving Repr

def Piece.text : Piece → Str
  | .plain _ _ v => v
  | .alpha _ _ _ _ orig _ => orig

def Piece.pt : Piece → PT
  | .plain t i _ => [(t, i)]
  | .alpha ta i tc j _ _ => [(ta, i), (tc, j)]

/-- the ruleset holds what the piece needs -/
def Piece.InGrammar (upper : Char → List Char) (isUpper : Char → Bool) (g : EGrammar) : Piece → Prop
  | .plain t i v =>
    ∃ cat vals, t.toList.head? = some cat ∧ Generated.Expand.isMarkov cat = false ∧
      Generated.Expand.isCase cat = false ∧ g.values t i = some vals ∧ v ∈ vals
  | .alpha ta i tc j orig lw =>
    (∃ cat vals, ta.toList.head? = some cat ∧ Generated.Expand.isMarkov cat = false ∧
      Generated.Expand.isCase cat = false ∧ g.values ta i = some vals ∧ lw ∈ vals) ∧
    (∃ masks, tc.toList.head? = some 'C' ∧ g.values tc j = some masks ∧ maskOf isUpper orig ∈ masks ∧
      (masks.headD []).length = lw.length) ∧
    TamePair upper isUpper orig lw

/-- the stored word of an alpha piece is not the empty string (the trainer never stores an empty
segment).  Needed: for an empty group value `cur_guess[:-0]` is `''`, so the mask step would drop
everything generated so far (see the counterexample at the end of this file). -/
def Piece.WordNonEmpty : Piece → Prop
  | .plain _ _ _ => True
  | .alpha _ _ _ _ _ lw => lw ≠ []

/-- C03 (derivation): if every segment of a password is in the ruleset's lists (the word lower-cased in
its alpha list, its mask in the mask list of the same length), then the password is one of the guesses
of the pre-terminal formed by those groups -/
theorem password_in_productSpec (upper : Char → List Char) (isUpper : Char → Bool) (g : EGrammar)
    (pieces : List Piece) (cur : Str) (h : ∀ p ∈ pieces, p.InGrammar upper isUpper g)
    (hne : ∀ p ∈ pieces, p.WordNonEmpty) :
    cur ++ pieces.flatMap Piece.text ∈ productSpec upper g cur (pieces.flatMap Piece.pt) := by
  induction pieces generalizing cur with
  | nil => simp [productSpec]
  | cons p ps ih =>
    have hp := h p (by simp)
    have hpne := hne p (by simp)
    have ih' := fun cur' => ih cur' (fun q hq => h q (by simp [hq])) (fun q hq => hne q (by simp [hq]))
    rw [List.flatMap_cons, List.flatMap_cons]
    cases p with
    | plain t i v =>
      obtain ⟨cat, vals, hcat, _, hc, hv, hmem⟩ := hp
      show cur ++ (v ++ _) ∈ productSpec upper g cur ((t, i) :: _)
      refine mem_productSpec_cons upper g cur (cur ++ v) v _ t i _ cat vals hcat hv hmem
        (combine_plain upper cat _ cur v hc) ?_
      rw [← List.append_assoc]
      exact ih' (cur ++ v)
    | alpha ta i tc j orig lw =>
      obtain ⟨⟨cat, vals, hcat, _, hc, hv, hmem⟩, ⟨masks, hcatC, hvC, hmemC, hlen⟩, htame⟩ := hp
      show cur ++ (orig ++ _) ∈ productSpec upper g cur ((ta, i) :: (tc, j) :: _)
      refine mem_productSpec_cons upper g cur (cur ++ lw) lw _ ta i _ cat vals hcat hv hmem
        (combine_plain upper cat _ cur lw hc) ?_
      refine mem_productSpec_cons upper g (cur ++ lw) (cur ++ orig) (maskOf isUpper orig) _ tc j _ 'C'
        masks hcatC hvC hmemC
        (combine_case upper _ cur lw _ orig hlen hpne (applyMask_maskOf upper isUpper orig lw htame)) ?_
      rw [← List.append_assoc]
      exact ih' (cur ++ orig)

/-- total probability mass of a column: Σ_j p_j · n_j (group probability × number of values) -/
def colMass (col : List (Rat × Nat)) : Rat := (col.map fun pn => pn.1 * (pn.2 : Rat)).sum

/-- probability × number of guesses of the pre-terminal that picks group `idx_k` in column `k` -/
def nodeMass : List (List (Rat × Nat)) → List Nat → Rat
  | [], _ => 1
  | _ :: _, [] => 0
  | c :: cs, i :: is =>
    match c[i]? with
    | some pn => pn.1 * (pn.2 : Rat) * nodeMass cs is
    | none => 0

/-- C03 (mass): summed over all pre-terminals of a structure, probability × number of guesses is the
product of the column masses; so when every list sums to 1 the structure contributes its own
probability, and the whole language has mass Σ base probabilities = 1 -/
theorem mass_product (cols : List (List (Rat × Nat))) :
    ((allIdx (cols.map fun c => c.map (·.1))).map (nodeMass cols)).sum = (cols.map colMass).prod := by
  induction cols with
  | nil => simp [allIdx, nodeMass, Rat.add_zero]
  | cons c cs ih =>
    have hnode : ∀ (i : Nat) (is : List Nat), nodeMass (c :: cs) (i :: is) =
        (match c[i]? with | some pn => pn.1 * (pn.2 : Rat) | none => 0) * nodeMass cs is := by
      intro i is
      rw [nodeMass]
      cases c[i]? with
      | none => simp [Rat.zero_mul]
      | some pn => rfl
    simp only [List.map_cons, allIdx, List.length_map, List.prod_cons]
    rw [sum_map_flatMap]
    simp only [List.map_map, Function.comp_def, hnode]
    simp only [sum_map_mul_left, ih]
    rw [sum_map_mul_right, sum_range_getElem? c
      (fun o => match o with | some pn => pn.1 * (pn.2 : Rat) | none => 0)]
    rfl

theorem mass_one (bp : Rat) (cols : List (List (Rat × Nat))) (h : ∀ c ∈ cols, colMass c = 1) :
    bp * ((allIdx (cols.map fun c => c.map (·.1))).map (nodeMass cols)).sum = bp := by
  rw [mass_product, prod_ones, Rat.mul_one]
  intro x hx
  obtain ⟨c, hc, rfl⟩ := List.mem_map.mp hx
  exact h c hc

/-! ## Non-vacuity: a concrete ruleset and the password `Pass12` -/
namespace ReproExample

def up (c : Char) : List Char := [c.toUpper]
def isUp (c : Char) : Bool := c.isUpper

def g0 : EGrammar :=
  [("A4", [[['p','a','s','s'], ['w','o','r','d']]]),
   ("C4", [[['L','L','L','L'], ['U','L','L','L']]]),
   ("D2", [[['1','2']]])]

def word : Piece := .alpha "A4" 0 "C4" 0 ['P','a','s','s'] ['p','a','s','s']
def digits : Piece := .plain "D2" 0 ['1','2']

theorem word_inGrammar : word.InGrammar up isUp g0 := by
  refine ⟨⟨'A', [['p','a','s','s'], ['w','o','r','d']], by decide, by decide, by decide, by decide,
    by decide⟩, ⟨[['L','L','L','L'], ['U','L','L','L']], by decide, by decide, by decide, by decide⟩, ?_⟩
  simp only [TamePair]
  decide

theorem digits_inGrammar : digits.InGrammar up isUp g0 :=
  ⟨'D', [['1','2']], by decide, by decide, by decide, by decide, by decide⟩

/-- `Pass12` is a guess of the pre-terminal `A4[0] C4[0] D2[0]`: from the theorem -/
theorem pass12_mem : "Pass12".toList ∈ productSpec up g0 [] [("A4", 0), ("C4", 0), ("D2", 0)] := by
  have h := password_in_productSpec up isUp g0 [word, digits] []
    (by
      intro p hp
      simp only [List.mem_cons, List.not_mem_nil, or_false] at hp
      rcases hp with rfl | rfl
      · exact word_inGrammar
      · exact digits_inGrammar)
    (by
      intro p hp
      simp only [List.mem_cons, List.not_mem_nil, or_false] at hp
      rcases hp with rfl | rfl
      · exact List.cons_ne_nil _ _
      · trivial)
  exact h

/-- the same by evaluation -/
example : "Pass12".toList ∈ productSpec up g0 [] [("A4", 0), ("C4", 0), ("D2", 0)] := by decide

/-- the hypotheses of `applyMask_maskOf` are satisfiable and its conclusion evaluates -/
example : applyMask up ['p','a','s','s'] (maskOf isUp ['P','a','s','s']) Generated.Expand.maskStart
    = some ['P','a','s','s'] := by decide

/-- why `WordNonEmpty` is needed: a ruleset with an empty word.  Every piece is `InGrammar`, but the
mask step for the empty word takes `cur_guess[:-0] = ''` and so drops the `12` generated before it:
the only guess of `D2[0] A0[0] C0[0]` is the empty string. -/
def g1 : EGrammar := [("A0", [[[]]]), ("C0", [[[]]]), ("D2", [[['1','2']]])]
def emptyWord : Piece := .alpha "A0" 0 "C0" 0 [] []

theorem emptyWord_inGrammar : emptyWord.InGrammar up isUp g1 :=
  ⟨⟨'A', [[]], by decide, by decide, by decide, by decide, by decide⟩,
   ⟨[[]], by decide, by decide, by decide, by decide⟩, trivial⟩

theorem digits_inGrammar1 : digits.InGrammar up isUp g1 :=
  ⟨'D', [['1','2']], by decide, by decide, by decide, by decide, by decide⟩

theorem counterexample_empty_word :
    ¬ (([] : Str) ++ [digits, emptyWord].flatMap Piece.text ∈
        productSpec up g1 [] ([digits, emptyWord].flatMap Piece.pt)) := by decide

example : productSpec up g1 [] ([digits, emptyWord].flatMap Piece.pt) = [[]] := by decide

/-- mass: two columns of mass 1 (1/4·2 + 1/2·1 and 1/3·3): three pre-terminals, total mass 1 -/
def cols0 : List (List (Rat × Nat)) := [[(1/4, 2), (1/2, 1)], [(1/3, 3)]]

example : colMass [(1/4, 2), (1/2, 1)] = 1 := by decide +kernel
example : colMass [(1/3, 3)] = 1 := by decide +kernel
example : allIdx (cols0.map fun c => c.map (·.1)) = [[0, 0], [1, 0]] := by decide +kernel
example : ((allIdx (cols0.map fun c => c.map (·.1))).map (nodeMass cols0)).sum = 1 := by decide +kernel
example : ((allIdx (cols0.map fun c => c.map (·.1))).map (nodeMass cols0)).sum
    = (cols0.map colMass).prod := mass_product cols0
example : (1/5 : Rat) * ((allIdx (cols0.map fun c => c.map (·.1))).map (nodeMass cols0)).sum = 1/5 :=
  mass_one (1/5) cols0 (by
    intro c hc
    simp only [cols0, List.mem_cons, List.not_mem_nil, or_false] at hc
    rcases hc with rfl | rfl <;> decide +kernel)
/-- a column list whose masses are not 1 (3/4 and 2/3): the sum is the product 1/2 -/
example : ((allIdx ([[((1:Rat)/4, 1), (1/2, 1)], [(1/3, 2)]].map fun c => c.map (·.1))).map
    (nodeMass [[(1/4, 1), (1/2, 1)], [(1/3, 2)]])).sum = 1/2 := by decide +kernel

end ReproExample

end Pcfg

