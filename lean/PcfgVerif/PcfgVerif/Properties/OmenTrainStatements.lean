import PcfgVerif.Model.OmenTrainer
import PcfgVerif.Properties.OmenCore
/-! Statements to be proved (work file for C11 and C18). -/
namespace Omen

/-- what the trainer's tables satisfy: every (n−1)-gram key once, every next letter once per key,
keys of length n−1, all levels within 0..maxLevel -/
structure TTables.WF (t : TTables) : Prop where
  ngram_ge : 2 ≤ t.ngram
  keys_nodup : (t.entries.map (·.key)).Nodup
  key_len : ∀ e ∈ t.entries, e.key.length = t.ngram - 1
  letters_nodup : ∀ e ∈ t.entries, (e.next.map (·.1)).Nodup
  ip_levels : ∀ e ∈ t.entries, e.ipLevel ≤ t.maxLevel
  cp_levels : ∀ e ∈ t.entries, ∀ p ∈ e.next, p.2 ≤ t.maxLevel
  ln_levels : ∀ l ∈ t.lns, l ≤ t.maxLevel

/-- C11 (trainer = scorer): the scorer's dictionary walk computes the trainer's level for every string -/
theorem scorerLevel_eq_trainerLevel (t : TTables) (hwf : t.WF) (s : Str) :
    t.scorerLevel s = t.trainerLevel s := by
  sorry

/-- the tables the guesser loads from the trainer's files are well-formed -/
theorem toTables_WF (t : TTables) (hwf : t.WF) : t.toTables.WF (t.ngram - 1) := by
  sorry

/-- C11 (trainer = guesser's specification): the level the trainer assigns is the level `levelOf`
assigns over the loaded tables — for every string: unknown letters, too short, too long included -/
theorem levelOf_eq_trainerLevel (t : TTables) (hwf : t.WF) (s : Str) :
    t.toTables.levelOf (t.ngram - 1) s = t.trainerLevel s := by
  sorry

/-- hence (with `level_exact`): the guesser's generator emits `s` at level `L` iff the trainer assigns `L` -/
theorem guesser_emits_iff_trainerLevel (t : TTables) (hwf : t.WF) (target : Nat)
    (s0 : CState) (hs : t.toTables.start = some s0) :
    ∃ N, (∀ fuel, N ≤ fuel → t.toTables.enumFrom target fuel s0 = t.toTables.enumFrom target N s0) ∧
      (t.toTables.enumFrom target N s0).Nodup ∧
      ∀ s : Str, s ∈ t.toTables.enumFrom target N s0 ↔ t.trainerLevel s = some target := by
  sorry

/-- C18 (per block): the recursive keyspace count is the number of parse trees of that block -/
theorem recKeyspace_eq_allTrees (t : TTables) (hwf : t.WF) (len : Nat) (ip : Str) (level : Nat) :
    t.recKeyspace len ip level = (t.toTables.m.allTrees len ip level).length := by
  sorry

/-- C18: the keyspace the trainer records for a level is the number of guesses the generator emits at
that level -/
theorem levelKeyspace_eq_emitted (t : TTables) (hwf : t.WF) (level : Nat)
    (s0 : CState) (hs : t.toTables.start = some s0) :
    ∃ N, ∀ fuel, N ≤ fuel → (t.toTables.enumFrom level fuel s0).length = t.levelKeyspace level := by
  sorry

/-- the tabulated (memoised) computation equals the recursive definition -/
theorem lookupRow_ksRow (t : TTables) (hwf : t.WF) (maxL len : Nat) (ip : Str) (level : Nat)
    (hl : level ≤ maxL) (hip : ip ∈ t.entries.map (·.key)) :
    lookupRow (t.ksRow maxL len) ip level = t.recKeyspace len ip level := by
  sorry

/-- `calc_omen_keyspace`: every level it lists carries `levelKeyspace` of that level, levels are
consecutive from the first, and it stops after the first level above the limit -/
theorem calcKeyspace_spec (t : TTables) (maxKeyspace fuel first : Nat) :
    (∀ p ∈ t.calcKeyspace maxKeyspace fuel first, p.2 = t.levelKeyspace p.1) ∧
    (t.calcKeyspace maxKeyspace fuel first).map (·.1) =
      (List.range (t.calcKeyspace maxKeyspace fuel first).length).map (· + first) ∧
    (∀ (i : Nat) p, (t.calcKeyspace maxKeyspace fuel first)[i]? = some p →
      i + 1 < (t.calcKeyspace maxKeyspace fuel first).length → p.2 ≤ maxKeyspace) := by
  sorry

end Omen
