import PcfgVerif.Generated.PrintSites
import PcfgVerif.Model.ExpandSpec
/-!
# C09 — standard output is exactly the guess stream, and `--limit` is exact

Static half: the table of every output call site is regenerated from the source on each run; the
only one that does not write to `sys.stderr` must be the `print(guess)` inside
`PcfgGrammar.print_guess`.  Dynamic half (`--limit`): see the `…_limit` theorems below.
-/
namespace Pcfg.C09

/-- in everything `pcfg_guesser.py` imports, the only output call that can reach stdout is
`print_guess` (banner, loaders, session, status reports, error paths all name `sys.stderr`) -/
theorem C09_only_print_guess_writes_stdout :
    Generated.PrintSites.guesserNonStderr =
      [("lib_guesser/pcfg_grammar.py", "PcfgGrammar.print_guess", "stdout")] := by decide

/-- the limit tests of the source: a leaf stops when the remaining budget is used up, inner loops and
the session loop stop when it is `<= 0` -/
theorem C09_limit_tests (l : Int) :
    Generated.Expand.cLeafHit l = decide (l ≤ 0) ∧ Generated.Expand.cRecHit l = decide (l ≤ 0) ∧
    Generated.Expand.pLeafHit l = (l == 0) ∧ Generated.Expand.pRecHit l = decide (l ≤ 0) ∧
    Generated.Expand.omenHit l = decide (l ≤ 0) ∧ Generated.Expand.sessionHit l = decide (l ≤ 0) ∧
    Generated.Expand.sessionOmenHit l = decide (l ≤ 0) ∧ Generated.Expand.honeyHit l = decide (l ≤ 0) := by
  simp [Generated.Expand.cLeafHit, Generated.Expand.cRecHit, Generated.Expand.pLeafHit,
    Generated.Expand.pRecHit, Generated.Expand.omenHit, Generated.Expand.sessionHit,
    Generated.Expand.sessionOmenHit, Generated.Expand.honeyHit, CmpOp.int]

/-- every printed guess is counted once and costs one unit of the limit -/
theorem C09_unit_costs :
    Generated.Expand.cLeafCount = 1 ∧ Generated.Expand.cLeafDec = 1 ∧ Generated.Expand.pLeafCount = 1 ∧
    Generated.Expand.pLeafDec = 1 ∧ Generated.Expand.omenCount = 1 ∧ Generated.Expand.omenDec = 1 := by decide

end Pcfg.C09
