import PcfgVerif.Generated.Session
import PcfgVerif.Generated.PrintSites
import PcfgVerif.Properties.ExpandCore
/-!
# C09 — standard output is exactly the guess stream, and `--limit` is exact

Static half: the table of every output call site is regenerated from the source on each run; the
only one that does not write to `sys.stderr` must be the `print(guess)` inside
`PcfgGrammar.print_guess`.  Dynamic half (`--limit`): see the `…_limit` theorems below.
-/
namespace Pcfg.C09

/-- in everything `pcfg_guesser.py` imports, the only output call that can reach stdout is
`print_guess` (banner, loaders, session, status reports, error paths all name `sys.stderr`) -/
theorem C09_only_print_guess_writes_stdout :
    Generated.PrintSites.guesserNonStderr =
      [("lib_guesser/pcfg_grammar.py", "PcfgGrammar.print_guess", "stdout")] := by decide

/-- the limit tests of the source: a leaf stops when the remaining budget is used up, inner loops and
the session loop stop when it is `<= 0` -/
theorem C09_limit_tests (l : Int) :
    Generated.Expand.cLeafHit l = decide (l ≤ 0) ∧ Generated.Expand.cRecHit l = decide (l ≤ 0) ∧
    Generated.Expand.pLeafHit l = (l == 0) ∧ Generated.Expand.pRecHit l = decide (l ≤ 0) ∧
    Generated.Expand.omenHit l = decide (l ≤ 0) ∧ Generated.Expand.sessionHit l = decide (l ≤ 0) ∧
    Generated.Expand.sessionOmenHit l = decide (l ≤ 0) ∧ Generated.Expand.honeyHit l = decide (l ≤ 0) := by
  simp [Generated.Expand.cLeafHit, Generated.Expand.cRecHit, Generated.Expand.pLeafHit,
    Generated.Expand.pRecHit, Generated.Expand.omenHit, Generated.Expand.sessionHit,
    Generated.Expand.sessionOmenHit, Generated.Expand.honeyHit, CmpOp.int]

/-- every printed guess is counted once and costs one unit of the limit -/
theorem C09_unit_costs :
    Generated.Expand.cLeafCount = 1 ∧ Generated.Expand.cLeafDec = 1 ∧ Generated.Expand.pLeafCount = 1 ∧
    Generated.Expand.pLeafDec = 1 ∧ Generated.Expand.omenCount = 1 ∧ Generated.Expand.omenDec = 1 := by decide

/-- `--limit n` inside one pre-terminal: exactly the first `n` lines of its unlimited expansion, and
the returned count is `min n total` (also when `n` falls inside a group or inside a mask loop) -/
theorem C09_limit_preterminal (upper : Char → List Char) (g : EGrammar) (omen : Nat → Option (List Str))
    (pt : PT) (hpt : pt ≠ []) (hok : okSpec upper g [] pt = true) (n : Nat) (hn : 1 ≤ n) :
    createGuesses upper g omen pt (some (n : Int)) =
      ⟨(productSpec upper g [] pt).take n, min n (productSpec upper g [] pt).length, false⟩ :=
  recGuesses_limit upper g omen [] pt hpt hok n hn

/-- the same inside a Markov level -/
theorem C09_limit_markov (gs : List Str) (n : Nat) (hn : 1 ≤ n) :
    omenLoop gs (some (n : Int)) = ⟨gs.take n, min n gs.length, false⟩ :=
  omenLoop_limit gs n hn

/-- across the session loop: whatever sequence of pre-terminals the queue pops, `--limit N` writes the
first `N` lines of the unlimited run (all of them when there are fewer) -/
theorem C09_limit_session (gen : PT → Option Int → ERes) (hgen : ExactLimit gen)
    (pts : List PT) (n : Nat) (hn : 1 ≤ n) :
    sessionLoop gen pts (some (n : Int)) = (sessionLoop gen pts none).take n ∧
    (sessionLoop gen pts (some (n : Int))).length = min n (sessionLoop gen pts none).length := by
  have h := sessionLoop_limit gen hgen pts n hn
  exact ⟨h, by rw [h, List.length_take]⟩

/-- non-vacuity: limit 3 falls inside the mask loop of `A2 C2 D1` -/
example : (createGuesses ExpandExample.up ExpandExample.gr (fun _ => none) ExpandExample.pt0 (some 3)).out =
    (productSpec ExpandExample.up ExpandExample.gr [] ExpandExample.pt0).take 3 := by decide

/-- **the guess limit only counts down and ends the run** (regenerated from the source): every statement of `CrackingSession.run` (and of
the methods it calls) whose execution depends on a test that reads `limit` - the `if limit:` blocks with their `elif` / `else` branches and
everything nested in them - is the count-down itself, a message on stderr, or the end of the run.  So a run with `--limit` is the run
without it stopped early: nothing written to the session files (the `omen_guess_number` option in particular) and no choice of the main
loop depends on whether a limit was given - which is what lets the session model, which has no limit, stand for limited sessions too -/
theorem C09_limit_only_counts_down_and_stops :
    ∀ k ∈ Generated.Session.limitDependentStatements, k ∈ ["break", "count-down", "pass", "print-stderr", "return"] := by
  decide

end Pcfg.C09
