import PcfgVerif.Properties.ReproCore
import PcfgVerif.Properties.PQCore
import PcfgVerif.Properties.ReproEndToEnd
import PcfgVerif.Lemmas.TrainedListedE
import PcfgVerif.Lemmas.TrainedAgreeF
import PcfgVerif.Lemmas.ScoreB7
import PcfgVerif.Lemmas.RunsLoader
import PcfgVerif.Lemmas.BaseLoader
import PcfgVerif.Lemmas.TrainedLoads
import PcfgVerif.Properties.DetectCoreC
/-!
# C03 — every supported training password is reproduced by the trained grammar

The end-to-end claim is a chain of links, each proved on its own model:
C05 (`C05_tiling`: the segments tile the password; alpha words are stored lower-cased with a mask of the
same length) → C06 (`C06_each_once`: every segment / mask / structure is an entry of its list) →
C07 (`C07_guesser_roundtrip`: the loader returns those values) → C14 (`C14_case_insertion`: a `C<n>`
directly after every `A<n>`) → the three links below (capitalisation, derivation, probability mass)
→ C04 (`C04_expand`: the pre-terminal prints `productSpec`) → C02 (`C02_exactly_once`: that
pre-terminal is emitted).  The whole chain is exercised on the real pipeline by the harness.
Domain clause of the property: `TamePair` (upper/lower case mapping one-to-one).
-/
namespace Pcfg.C03

/-- capitalisation: applying the recorded mask to the stored lower-cased word gives back the original -/
theorem C03_capitalisation (upper : Char → List Char) (isUpper : Char → Bool) (orig lw : Str)
    (h : TamePair upper isUpper orig lw) :
    applyMask upper lw (maskOf isUpper orig) Generated.Expand.maskStart = some orig :=
  applyMask_maskOf upper isUpper orig lw h

/-- derivation: a password whose segments are all in the ruleset's lists (words lower-cased in the
alpha list, their masks in the mask list of the same length) is one of the guesses of the
pre-terminal formed by those groups — with its original capitalisation, digits, symbols, spaces -/
theorem C03_derivation (upper : Char → List Char) (isUpper : Char → Bool) (g : EGrammar)
    (pieces : List Piece) (h : ∀ p ∈ pieces, p.InGrammar upper isUpper g)
    (hne : ∀ p ∈ pieces, p.WordNonEmpty) :
    pieces.flatMap Piece.text ∈ productSpec upper g [] (pieces.flatMap Piece.pt) := by
  have := password_in_productSpec upper isUpper g pieces [] h hne
  simpa using this

/-- and that pre-terminal is emitted by the exhaustive run (C02), whatever the ties -/
theorem C03_preterminal_emitted {P : Type} [Inhabited P] (A : PAlg P) (g : Grid P) (hwf : WF A.toPOps g)
    (s : PQState) (h : Reach A.toPOps g (initNodes g) s) (hq : s.queue = []) (v : Node)
    (hv : v ∈ allNodes g) : v ∈ s.popped :=
  ((pq_exactly_once A g hwf s h).2.2 hq).symm.subset hv

/-- mass: summed over all pre-terminals of a structure, probability × number of guesses equals the
product of the column masses; when every list sums to 1 the structure contributes its own
probability, so the language has total mass Σ base probabilities = 1 (exact arithmetic) -/
theorem C03_mass (bp : Rat) (cols : List (List (Rat × Nat))) (h : ∀ c ∈ cols, colMass c = 1) :
    bp * ((allIdx (cols.map fun c => c.map (·.1))).map (nodeMass cols)).sum = bp :=
  mass_one bp cols h

theorem C03_mass_product (cols : List (List (Rat × Nat))) :
    ((allIdx (cols.map fun c => c.map (·.1))).map (nodeMass cols)).sum = (cols.map colMass).prod :=
  mass_product cols

/-- **end to end** (the links above composed with C05 and C13's coherence, on the detector model): a
training password without e-mail / website segments, whose segments — words lower-cased, masks, digits,
symbols, years, keyboard walks, context strings — and whose base structure are listed in the ruleset
(`AllListed`: what C06 guarantees for everything the parser tallied), is one of the guesses of a
pre-terminal of the guesser's grammar loaded from the same files — with its original capitalisation and
every non-ASCII letter, for every Unicode environment with length-preserving lower-casing; domain clause
`CaseInvAll` (one-to-one case mapping on the password).  That pre-terminal is emitted by
`C03_preterminal_emitted`. -/
theorem C03_reproduced {P : Type} (M : Detect.CMon P)
    (hnzd : ∀ a b, a ≠ M.zero → b ≠ M.zero → M.mul a b ≠ M.zero) (hone : M.one ≠ M.zero)
    (U : Detect.UEnv) (upper : Char → List Char) (cfg : Detect.MWCfg) (t : Detect.MWTable) (pw : CPs)
    (hne : pw ≠ []) (hl : Detect.LenPres U pw) (hsc : Detect.ScalarCPs pw)
    (hcase : Detect.CaseInvAll U upper pw)
    (g : Detect.ScoreG P) (V : Detect.GView P) (hag : Detect.Agree M.zero g V)
    (he : (Detect.parse U cfg t pw).emails = []) (hw : (Detect.parse U cfg t pw).websites = [])
    (hs : (Detect.parse U cfg t pw).supported = true)
    (hin : Detect.AllListed M.zero g (Detect.parse U cfg t pw)) :
    ∃ (reps : List String) (bp : P) (idx : List Nat), (reps, bp) ∈ V.bases ∧ idx.length = reps.length ∧
      Detect.toStr pw ∈ productSpec upper V.E [] (Detect.mkPT reps idx) :=
  Detect.trained_password_reproduced M hnzd hone U upper cfg t pw hne hl hsc hcase g V hag he hw hs hin

/-- exact rationals as the probability monoid (no zero divisors) -/
def ratCMon : Detect.CMon Rat where
  mul := (· * ·)
  one := 1
  zero := 0
  mul_comm := Rat.mul_comm
  mul_assoc := Rat.mul_assoc
  one_mul := Rat.one_mul
  zero_mul := Rat.zero_mul

/-- **C03 for the trainer's own output, no listing hypothesis** (`Model/Trainer.lean`: the counters of the whole list;
`Lemmas/TrainedListed*.lean`): take any training list `pws`, train on it (pass 1 the multi-word table, pass 2 the counters), write every
counter through `calculate_probabilities` with a coverage in (0, 1] (`scoreGOf`: one list per category and length, `grammar.txt`
with the Markov pseudo-count).  Then every password *of the list* whose parse is supported and has no e-mail / website part is one of
the guesses of a pre-terminal of a guesser grammar that agrees with those lists — the hypothesis `AllListed` of `C03_reproduced` is
discharged from the trainer model: each tally of the password's own parse is at least one, so its written probability
count/total is not zero. -/
theorem C03_trained_reproduced (U : Detect.UEnv) (upper : Char → List Char) (cfg : Detect.MWCfg) (pws : List CPs)
    (pw : CPs) (hmem : pw ∈ pws) (cov : Rat) (h0 : 0 < cov) (h1 : cov ≤ 1)
    (hne : pw ≠ []) (hl : Detect.LenPres U pw) (hsc : Detect.ScalarCPs pw) (hcase : Detect.CaseInvAll U upper pw)
    (V : Detect.GView Rat)
    (hag : Detect.Agree 0 (Trainer.scoreGOf cov pws.length (Trainer.train U cfg pws)) V)
    (he : (Detect.parse U cfg (Trainer.pass1 U cfg pws) pw).emails = [])
    (hw : (Detect.parse U cfg (Trainer.pass1 U cfg pws) pw).websites = [])
    (hs : (Detect.parse U cfg (Trainer.pass1 U cfg pws) pw).supported = true) :
    ∃ (reps : List String) (bp : Rat) (idx : List Nat), (reps, bp) ∈ V.bases ∧ idx.length = reps.length ∧
      Detect.toStr pw ∈ productSpec upper V.E [] (Detect.mkPT reps idx) :=
  Detect.trained_password_reproduced ratCMon
    (fun a b ha hb => by
      show a * b ≠ 0
      intro h
      rcases Rat.mul_eq_zero.mp h with h | h
      · exact ha h
      · exact hb h)
    (by decide) U upper cfg _ pw hne hl hsc hcase _ V hag he hw hs
    (Trainer.trained_all_listed U cfg pws pw hmem cov h0 h1 hs)

/-- non-vacuity of the listing theorem: the ASCII environment, the list `Pass12!`, `abcd`, coverage 1/2 — the parse of `Pass12!`
(`A4D2O1`) is supported and everything in it is listed by the grammar trained on the two passwords -/
example : Detect.AllListed 0
    (Trainer.scoreGOf (1/2) 2 (Trainer.train Detect.asciiC {} [cpsOfString "Pass12!", cpsOfString "abcd"]))
    (Detect.parse Detect.asciiC {} (Trainer.pass1 Detect.asciiC {} [cpsOfString "Pass12!", cpsOfString "abcd"])
      (cpsOfString "Pass12!")) :=
  Trainer.trained_all_listed Detect.asciiC {} [cpsOfString "Pass12!", cpsOfString "abcd"] _ (by decide) (1/2)
    (by decide +kernel) (by decide +kernel) (by decide +kernel)

/-- **C03 inside the model, from the training list to the guess, with no hypothesis about the ruleset** (`Lemmas/TrainedAgreeA…F.lean`).
`Trainer.viewOf` is the guesser's grammar of the trained ruleset: every written list cut into its maximal runs of equal probability
(the groups `_load_from_file` forms, `C07_guesser_roundtrip`), under the guesser's variable names, and every line of `grammar.txt`
tokenised by the guesser's own tokeniser with `C<n>` inserted after `A<n>` (`splitStructure`, `insertCase`: the loader model of C14).
`Agree` between that grammar and the scorer's lists is now a theorem (`Trainer.trained_agree`): a value the scorer finds with a
non-zero probability lies in a run of exactly that probability; tokenising the joined labels gives the labels back; every mask filed
under length n has n letters.  So: every password of the training list whose parse is supported and has no e-mail / website part is a
guess of a pre-terminal of the grammar the guesser loads — for every list, every coverage in (0, 1], every Unicode environment with
length-preserving lower-casing; remaining hypotheses are the domain clause `CaseInvAll` and that the tokeniser's `isalpha` is true
on `A`–`Z` and false on `0`–`9`. -/
theorem C03_trained_end_to_end (U : Detect.UEnv) (upper : Char → List Char) (cfg : Detect.MWCfg) (pws : List CPs)
    (pw : CPs) (hmem : pw ∈ pws) (cov : Rat) (h0 : 0 < cov) (h1 : cov ≤ 1)
    (isAlpha : Nat → Bool) (hcap : ∀ c, 65 ≤ c → c ≤ 90 → isAlpha c = true) (hdig : ∀ c, 48 ≤ c → c ≤ 57 → isAlpha c = false)
    (hne : pw ≠ []) (hl : Detect.LenPres U pw) (hsc : Detect.ScalarCPs pw) (hcase : Detect.CaseInvAll U upper pw)
    (he : (Detect.parse U cfg (Trainer.pass1 U cfg pws) pw).emails = [])
    (hw : (Detect.parse U cfg (Trainer.pass1 U cfg pws) pw).websites = [])
    (hs : (Detect.parse U cfg (Trainer.pass1 U cfg pws) pw).supported = true) :
    ∃ (reps : List String) (bp : Rat) (idx : List Nat),
      (reps, bp) ∈ (Trainer.viewOf isAlpha cov pws.length (Trainer.train U cfg pws)).bases ∧ idx.length = reps.length ∧
      Detect.toStr pw ∈ productSpec upper (Trainer.viewOf isAlpha cov pws.length (Trainer.train U cfg pws)).E [] (Detect.mkPT reps idx) :=
  C03_trained_reproduced U upper cfg pws pw hmem cov h0 h1 hne hl hsc hcase _
    (Trainer.trained_agree isAlpha hcap hdig cov pws.length _
      (Trainer.train_lenok U cfg (·.masks) (·.masks) (fun _ _ => rfl) rfl pws)) he hw hs

/-- non-vacuity of the end-to-end theorem: ASCII environment, the list `Ab1`, `zz9`, coverage 1/2 — every hypothesis is discharged
(by kernel evaluation where it is a computation), so `Ab1` is a guess of the grammar trained on the two passwords -/
example : ∃ (reps : List String) (bp : Rat) (idx : List Nat),
    (reps, bp) ∈ (Trainer.viewOf Detect.asciiU.isAlpha (1/2) 2
      (Trainer.train Detect.asciiU {} [ScoreB.Ex.pwEx, [122, 122, 57]])).bases ∧ idx.length = reps.length ∧
    Detect.toStr ScoreB.Ex.pwEx ∈ productSpec ScoreB.Ex.upEx (Trainer.viewOf Detect.asciiU.isAlpha (1/2) 2
      (Trainer.train Detect.asciiU {} [ScoreB.Ex.pwEx, [122, 122, 57]])).E [] (Detect.mkPT reps idx) :=
  C03_trained_end_to_end Detect.asciiU ScoreB.Ex.upEx {} [ScoreB.Ex.pwEx, [122, 122, 57]] ScoreB.Ex.pwEx (by decide) (1/2)
    (by decide +kernel) (by decide +kernel) Detect.asciiU.isAlpha
    (by intro c a b; simp [Detect.asciiU, a, b]) (by intro c a b; simp [Detect.asciiU]; omega)
    (by decide) (Detect.asciiU_lenPres _) ScoreB.Ex.scalar_ex ScoreB.Ex.caseInv_ex
    (by decide +kernel) (by decide +kernel) (by decide +kernel)

/-- **the columns of `Trainer.viewOf` are what the loader model returns on the trainer's files**: write the list of a counter
(`calculate_probabilities`, exact rationals) with any printing of probabilities that the parser inverts, load the text with the model of
`_load_from_file`; the groups returned are exactly `Trainer.colOf` — the maximal runs of equal probability (uniqueness of that
decomposition, `Trainer.runs_unique`, on top of `C07_guesser_roundtrip`).  Hypotheses: clean values (what `check_valid` admits,
`C07_accepted_is_clean`), clean probability text, no probability equal to the loader's start value −1. -/
theorem C03_view_columns_are_loaded (parseP : CPs → Option Rat) (showP : Rat → CPs) (neg1 : Rat)
    (hround : ∀ p, parseP (showP p) = some p) (t : Detect.MWTable)
    (hclean : ∀ it ∈ t, CleanValue it.1) (hshow : ∀ p, CleanProb (showP p)) (hsent : ∀ it ∈ Trainer.listOf t, it.2 ≠ neg1) :
    ∃ gs, loadFromFile parseP (fun a b => a == b) neg1 (writeFile ((Trainer.listOf t).map fun it => (it.1, showP it.2))) = some gs ∧
      gs.map (fun g => (g.values, g.prob)) = Trainer.colOf t := by
  refine Trainer.loader_returns_runs parseP showP neg1 hround (Trainer.listOf t) ?_ hshow hsent
  intro it hit
  obtain ⟨c, hc, _⟩ := (calcProbs_mem ratOps (Trainer.toQ t) it.1 it.2).mp hit
  obtain ⟨q, hq, he⟩ := List.mem_map.mp hc
  have : q.1 = it.1 := congrArg Prod.fst he
  rw [← this]; exact hclean q hq

/-- **the base structures of `Trainer.viewOf` are what the base-structure loader model returns on the trainer's `grammar.txt`**
(`_load_base_structures`, default flags, text-mode reading with universal newlines): every line tokenises — each key of the trainer's
base-structure counter is a concatenation of section labels (`Trainer.train_baseok`, an invariant over the whole training run),
`M` is one letter — and the loaded list, replacement by replacement, is `viewBases`.  Hypotheses: printing and parsing a probability
round-trip and the written fields are clean; every training password is non-empty with length-preserving lower-casing. -/
theorem C03_view_bases_are_loaded (parseP : CPs → Option Rat) (showP : Rat → CPs) (isAlpha : Nat → Bool)
    (hcap : ∀ c, 65 ≤ c → c ≤ 90 → isAlpha c = true) (hdig : ∀ c, 48 ≤ c → c ≤ 57 → isAlpha c = false)
    (hround : ∀ p, parseP (showP p) = some p) (U : Detect.UEnv) (cfg : Detect.MWCfg) (pws : List CPs)
    (hpw : ∀ pw ∈ pws, pw ≠ [] ∧ Detect.LenPres U pw) (cov : Rat)
    (hclean : ∀ it ∈ Trainer.baseList cov pws.length (Trainer.train U cfg pws).base, CleanItem (it.1, showP it.2)) :
    ∃ bs, loadBase parseP Trainer.ratArith isAlpha false
        (writeFile ((Trainer.baseList cov pws.length (Trainer.train U cfg pws).base).map fun it => (it.1, showP it.2))) = some bs ∧
      bs.map (fun b => (b.replacements.map Trainer.strOf, b.prob)) =
        (Trainer.viewOf isAlpha cov pws.length (Trainer.train U cfg pws)).bases :=
  Trainer.loadBase_returns_viewBases parseP showP isAlpha hround cov pws.length _ hclean
    (Trainer.baseList_keys_split isAlpha hcap hdig cov pws.length _ (Trainer.train_baseok U cfg pws hpw))

/-- the seven terminal sections of the ruleset trained on `pws`, in the order `_load_terminals` reads them, each with an arbitrary
previous content of its folder (`Years/1.txt` and `Context/1.txt` are the variables `Y1`, `X1`) -/
def trainedSections (U : Detect.UEnv) (cfg : Detect.MWCfg) (pws : List CPs) (olds : Char → List (String × CPs)) :
    List (Char × Detect.LenCtr × List (String × CPs)) :=
  let c := Trainer.train U cfg pws
  [('A', c.alpha, olds 'A'), ('C', c.masks, olds 'C'), ('D', c.digits, olds 'D'), ('O', c.other, olds 'O'),
   ('K', c.keyboard, olds 'K'), ('Y', [(1, c.years)], olds 'Y'), ('X', [(1, c.context)], olds 'X')]

/-- **the guesser's terminal grammar of a trained ruleset is `viewCols`, file names and folders included**: `save_indexed_counters`
writes one file `<n>.txt` per length (whatever the folder held), `create_filename_list` lists them, `_load_from_multiple_files` reads
each section into the shared dict (`Model/LoadMulti.lean`, `Lemmas/LoadAll.lean`), `_load_from_file` cuts each list into runs
(`Trainer.loader_returns_runs`).  All seven sections load, and the variable of every (section, length) holds exactly the column
`Trainer.colOf` that `viewOf` assigns to it.  Hypotheses: print/parse round trip, clean values and probability text. -/
theorem C03_trained_ruleset_loads (parseP : CPs → Option Rat) (showP : Rat → CPs) (hround : ∀ p, parseP (showP p) = some p)
    (hshow : ∀ p, CleanProb (showP p)) (U : Detect.UEnv) (cfg : Detect.MWCfg) (pws : List CPs) (olds : Char → List (String × CPs))
    (hclean : ∀ s ∈ trainedSections U cfg pws olds, ∀ e ∈ s.2.1, ∀ it ∈ e.2, CleanValue it.1) :
    ∃ g', Trainer.loadAll ((trainedSections U cfg pws olds).map fun s => Trainer.trainedSect parseP showP s.1 s.2.1 s.2.2) [] = some g' ∧
      ∀ s ∈ trainedSections U cfg pws olds, ∀ e ∈ s.2.1, ∃ gs, LoadMulti.lookup g' (Detect.lbl s.1 e.1) = some gs ∧
        gs.map (fun g => (g.values, g.prob)) = Trainer.colOf e.2 := by
  refine Trainer.trained_terminals_load parseP showP hround hshow _ (by simp [trainedSections]) ?_ hclean
  have key : ∀ (field : Trainer.Counters → Detect.LenCtr) (items : Detect.Parsed → List CPs),
      (∀ c p, field (c.update p) = Detect.updateLenIndexed (field c) (items p)) → field {} = [] →
      ((field (Trainer.train U cfg pws)).map (·.1)).Nodup := by
    intro field items hf h0
    unfold Trainer.train Trainer.pass2
    rw [Trainer.pass2_field U cfg _ field items hf, h0, Trainer.foldl_update_flatten]
    exact Detect.update_keys_nodup [] _ (by simp)
  intro s hs
  simp only [trainedSections, List.mem_cons, List.not_mem_nil, or_false] at hs
  rcases hs with rfl | rfl | rfl | rfl | rfl | rfl | rfl
  · exact key (·.alpha) (·.alphas) (fun _ _ => rfl) rfl
  · exact key (·.masks) (·.masks) (fun _ _ => rfl) rfl
  · exact key (·.digits) (·.digits) (fun _ _ => rfl) rfl
  · exact key (·.other) (·.others) (fun _ _ => rfl) rfl
  · exact key (·.keyboard) (·.walks) (fun _ _ => rfl) rfl
  · simp
  · simp

end Pcfg.C03
