import PcfgVerif.Properties.ReproCore
import PcfgVerif.Properties.PQCore
/-!
# C03 — every supported training password is reproduced by the trained grammar

The end-to-end claim is a chain of links, each proved on its own model:
C05 (`C05_tiling`: the segments tile the password; alpha words are stored lower-cased with a mask of the
same length) → C06 (`C06_each_once`: every segment / mask / structure is an entry of its list) →
C07 (`C07_guesser_roundtrip`: the loader returns those values) → C14 (`C14_case_insertion`: a `C<n>`
directly after every `A<n>`) → the three links below (capitalisation, derivation, probability mass)
→ C04 (`C04_expand`: the pre-terminal prints `productSpec`) → C02 (`C02_exactly_once`: that
pre-terminal is emitted).  The whole chain is exercised on the real pipeline by the harness.
Domain clause of the property: `TamePair` (upper/lower case mapping one-to-one).
-/
namespace Pcfg.C03

/-- capitalisation: applying the recorded mask to the stored lower-cased word gives back the original -/
theorem C03_capitalisation (upper : Char → List Char) (isUpper : Char → Bool) (orig lw : Str)
    (h : TamePair upper isUpper orig lw) :
    applyMask upper lw (maskOf isUpper orig) Generated.Expand.maskStart = some orig :=
  applyMask_maskOf upper isUpper orig lw h

/-- derivation: a password whose segments are all in the ruleset's lists (words lower-cased in the
alpha list, their masks in the mask list of the same length) is one of the guesses of the
pre-terminal formed by those groups — with its original capitalisation, digits, symbols, spaces -/
theorem C03_derivation (upper : Char → List Char) (isUpper : Char → Bool) (g : EGrammar)
    (pieces : List Piece) (h : ∀ p ∈ pieces, p.InGrammar upper isUpper g)
    (hne : ∀ p ∈ pieces, p.WordNonEmpty) :
    pieces.flatMap Piece.text ∈ productSpec upper g [] (pieces.flatMap Piece.pt) := by
  have := password_in_productSpec upper isUpper g pieces [] h hne
  simpa using this

/-- and that pre-terminal is emitted by the exhaustive run (C02), whatever the ties -/
theorem C03_preterminal_emitted {P : Type} [Inhabited P] (A : PAlg P) (g : Grid P) (hwf : WF A.toPOps g)
    (s : PQState) (h : Reach A.toPOps g (initNodes g) s) (hq : s.queue = []) (v : Node)
    (hv : v ∈ allNodes g) : v ∈ s.popped :=
  ((pq_exactly_once A g hwf s h).2.2 hq).symm.subset hv

/-- mass: summed over all pre-terminals of a structure, probability × number of guesses equals the
product of the column masses; when every list sums to 1 the structure contributes its own
probability, so the language has total mass Σ base probabilities = 1 (exact arithmetic) -/
theorem C03_mass (bp : Rat) (cols : List (List (Rat × Nat))) (h : ∀ c ∈ cols, colMass c = 1) :
    bp * ((allIdx (cols.map fun c => c.map (·.1))).map (nodeMass cols)).sum = bp :=
  mass_one bp cols h

theorem C03_mass_product (cols : List (List (Rat × Nat))) :
    ((allIdx (cols.map fun c => c.map (·.1))).map (nodeMass cols)).sum = (cols.map colMass).prod :=
  mass_product cols

end Pcfg.C03
