import PcfgVerif.Model.OmenSpec
/-! Statements to be proved (work file for the OMEN core, property C10). -/
namespace Omen

/-- the first tree `_fill_out_parse_tree` finds is the first tree of the specification list -/
theorem fill_eq_head (m : Model) (len : Nat) (ip : Str) (target : Nat) :
    m.fill len ip target = (m.allTrees len ip target).head? := by
  sorry

/-- `GuessStructure.next_guess` walks the specification list: from the i-th tree it produces the
(i+1)-th, and `none` after the last -/
theorem nextTree_succ (m : Model) (hcp : ∀ e ∈ m.cp, ∀ p ∈ e.2, p.1 ≤ m.maxLevel)
    (len : Nat) (ip : Str) (target : Nat) (i : Nat)
    (t : List Item) (ht : (m.allTrees len ip target)[i]? = some t) :
    m.nextTree t = (m.allTrees len ip target)[i + 1]? := by
  sorry

/-- hence iterating from `fill` enumerates exactly the specification list -/
theorem enumAll_eq_allTrees (m : Model) (hcp : ∀ e ∈ m.cp, ∀ p ∈ e.2, p.1 ≤ m.maxLevel)
    (len : Nat) (ip : Str) (target : Nat) (fuel : Nat)
    (hf : (m.allTrees len ip target).length < fuel) :
    m.enumFrom fuel (m.fill len ip target) = m.allTrees len ip target := by
  sorry

/-- the strings of the specification list are exactly the strings whose transition cost from `ip`
with `len` more characters is `target`, each once -/
theorem allTrees_strings (t : Tables) (ipLen : Nat) (hwf : t.WF ipLen) (len : Nat) (ip : Str)
    (hip : ip.length = ipLen) (target : Nat) :
    ((t.m.allTrees len ip target).map fun tr => tr.filterMap t.m.charAt).Nodup ∧
    ∀ body : List Char, body ∈ ((t.m.allTrees len ip target).map fun tr => tr.filterMap t.m.charAt) ↔
      (body.length = len ∧ 0 < len ∧ t.m.transCost ip body = some target) := by
  sorry

/-- C10: started from the beginning, the generator emits exactly the strings of level `target`,
each once, and then reports exhaustion (the list no longer grows with more fuel) -/
theorem level_exact (t : Tables) (ipLen : Nat) (hpos : 0 < ipLen) (hwf : t.WF ipLen) (target : Nat)
    (s0 : CState) (hs : t.start = some s0) :
    ∃ N, (∀ fuel, N ≤ fuel → t.enumFrom target fuel s0 = t.enumFrom target N s0) ∧
      (t.enumFrom target N s0).Nodup ∧
      ∀ s : Str, s ∈ t.enumFrom target N s0 ↔ t.levelOf ipLen s = some target := by
  sorry

end Omen
