import PcfgVerif.Model.DetectSpec
/-! Statements to be proved, part B: keyboard walks. -/
namespace Pcfg.Detect

/-- the keyboard-walk pass tiles the password (it never lower-cases: all sections are exact slices),
no section is empty, walks are labelled `K<length>` -/
theorem detectKeyboardWalk_tiles (U : UEnv) (pw : CPs) (hne : pw ≠ []) :
    TilesFrom U pw 0 (detectKeyboardWalk U pw).1 ∧
    ∀ s ∈ (detectKeyboardWalk U pw).1, s.2 = none ∨ s.2 = some (lbl 'K' s.1.length) := by
  sorry

/-- the walks reported are exactly the `K` sections, in order -/
theorem detectKeyboardWalk_found (U : UEnv) (pw : CPs) (hne : pw ≠ []) :
    (detectKeyboardWalk U pw).2 =
      ((detectKeyboardWalk U pw).1.filter (fun s => s.2.isSome)).map (·.1) := by
  sorry

/-- two consecutive keys of a walk are neighbours on a common layout -/
def adjacentOn (b : Nat) (c d : Nat) : Prop :=
  ∃ p q, p ∈ findKey c ∧ q ∈ findKey d ∧ p.board = b ∧ q.board = b ∧ b ∈ nextOn [p] [q]

/-- a keyboard segment is a walk: at least `minKeyboardRun` keys, consecutive keys adjacent on one
layout that is common to the whole walk, it passes the `interesting` filter (≥ 2 character classes,
not black-listed) -/
theorem detectKeyboardWalk_sound (U : UEnv) (pw : CPs) (hne : pw ≠ []) (w : CPs)
    (hw : w ∈ (detectKeyboardWalk U pw).2) :
    Generated.Tables.minKeyboardRun ≤ w.length ∧ interesting U w = true ∧
    ∃ b, ∀ i, i + 1 < w.length → adjacentOn b (w.getD i 0) (w.getD (i + 1) 0) := by
  sorry

/-- `interesting` implies at least two of the classes letter / digit / other occur -/
theorem interesting_classes (U : UEnv) (w : CPs) (h : interesting U w = true) :
    (if w.any U.isAlpha then 1 else 0) + (if w.any (fun c => !U.isAlpha c && U.isDigit c) then 1 else 0) +
      (if w.any (fun c => !U.isAlpha c && !U.isDigit c) then 1 else 0) ≥ 2 ∧
    ∀ fp ∈ Generated.Tables.falsePositiveWords, containsSub (U.lowerS w) fp = false := by
  sorry

end Pcfg.Detect
