import PcfgVerif.Model.Loader
import PcfgVerif.Model.CheckValid
import PcfgVerif.Lemmas.LoaderLemmas
/-! Statements to be proved (work file for the loader core: C07, C14, C04's "same probability per group"). -/
namespace Pcfg
variable {P : Type}

/-- a value the line-oriented format can carry: no line boundary, no TAB, no lone surrogate -/
def CleanValue (v : CPs) : Prop := ∀ c ∈ v, isLineSep c = false ∧ c ≠ 0x09 ∧ isSurrogate c = false

/-- a probability text as `str(float)` produces it: non-empty, no whitespace, no line boundary -/
def CleanProb (p : CPs) : Prop :=
  p ≠ [] ∧ ∀ c ∈ p, isLineSep c = false ∧ c ≠ 0x09 ∧ isPySpace c = false ∧ isSurrogate c = false

/-- every accepted password consists of characters the format can carry (the table of rejected code
points is generated from `check_valid`'s source) -/
theorem checkValid_clean (v : CPs) (h : checkValid v = true) (hs : ∀ c ∈ v, isSurrogate c = false) :
    CleanValue v ∧ v ≠ [] := by
  unfold checkValid at h
  simp only [Bool.and_eq_true, Bool.not_eq_true', List.all_eq_true] at h
  obtain ⟨h1, h2⟩ := h
  constructor
  · intro c hc
    have hr : Generated.CheckValid.rejected.contains c = false := h2 c hc
    refine ⟨?_, ?_, hs c hc⟩
    · cases hl : isLineSep c with
      | false => rfl
      | true => rw [isLineSep_imp_rejected c hl] at hr; cases hr
    · intro h9
      subst h9
      revert hr
      decide
  · intro hv
    subst hv
    revert h1
    decide

/-- the codec reader sees the written file as exactly the written lines -/
theorem codecLines_writeFile (items : List (CPs × CPs))
    (hc : ∀ it ∈ items, CleanValue it.1 ∧ CleanProb it.2) :
    codecLines (writeFile items) = items.map fun it => writeLine it.1 it.2 := by
  exact codecLines_writeFile_clean items hc

/-- a written line splits back into its two fields -/
theorem split_writeLine (v p : CPs) (hv : CleanValue v) (hp : CleanProb p) :
    pySplit 0x09 (rstripWs (writeLine v p)) = [v, p] := by
  exact CleanItem.split (it := (v, p)) ⟨hv, hp⟩

/-- C07 (scorer): the scorer's loader returns every (value, probability) pair that was written -/
theorem scorerLoad_writeFile (parseP : CPs → Option P) (items : List (CPs × CPs))
    (hc : ∀ it ∈ items, CleanValue it.1 ∧ CleanProb it.2)
    (hp : ∀ it ∈ items, (parseP it.2).isSome) :
    scorerLoad parseP (writeFile items) =
      some (items.filterMap fun it => (parseP it.2).map fun p => (it.1, p)) := by
  unfold scorerLoad
  rw [codecLines_writeFile items hc]
  exact scorerLoop_writeLines parseP items hc hp

set_option linter.unusedVariables false in -- `heq_symm`/`heq_trans` are part of the interface; the proof needs only reflexivity
/-- C07 (guesser): the guesser's loader returns every written value, in order, in groups; each value
sits in a group whose probability equals the one written next to it; the error-recovery branch
(`error_flag`) is never taken; neighbouring groups have different probabilities (maximal runs) -/
theorem loadFromFile_writeFile (parseP : CPs → Option P) (eqv : P → P → Bool) (neg1 : P)
    (heq_refl : ∀ a, eqv a a = true)
    (heq_symm : ∀ a b, eqv a b = true → eqv b a = true)
    (heq_trans : ∀ a b c, eqv a b = true → eqv b c = true → eqv a c = true)
    (items : List (CPs × CPs))
    (hc : ∀ it ∈ items, CleanValue it.1 ∧ CleanProb it.2)
    (hp : ∀ it ∈ items, ∃ p, parseP it.2 = some p ∧ eqv p neg1 = false) :
    ∃ gs, loadFromFile parseP eqv neg1 (writeFile items) = some gs ∧
      gs.flatMap (·.values) = items.map (·.1) ∧
      (∀ g ∈ gs, g.values ≠ []) ∧
      (∀ (i : Nat) (a : CPs × P) (it : CPs × CPs),
        (gs.flatMap fun g => g.values.map fun v => (v, g.prob))[i]? = some a → items[i]? = some it →
          a.1 = it.1 ∧ ∃ p, parseP it.2 = some p ∧ eqv p a.2 = true) ∧
      (∀ (i : Nat), ∀ g1 g2, gs[i]? = some g1 → gs[i + 1]? = some g2 → eqv g2.prob g1.prob = false) := by
  unfold loadFromFile
  rw [codecLines_writeFile items hc]
  have hp' : ∀ it ∈ items, (parseP it.2).isSome := by
    intro it hit
    obtain ⟨p, hq, _⟩ := hp it hit
    simp [hq]
  have hinv : LoadInv parseP eqv items neg1 [] := by
    refine Or.inl ⟨rfl, ?_⟩
    intro it hit p hq
    have hmem : it ∈ items := List.mem_of_mem_head? hit
    obtain ⟨p', hq', hne⟩ := hp it hmem
    rw [hq] at hq'
    cases hq'
    exact hne
  obtain ⟨gs, ps, hload, hpairs, hrel, hne, hadj⟩ :=
    loadLoop_spec parseP eqv heq_refl items hc hp' neg1 [] hinv
  have hps : pairs gs = ps := by simpa [pairs] using hpairs
  refine ⟨gs, hload, ?_, ?_, ?_, ?_⟩
  · rw [← pairs_map_fst, hps]
    exact RelL_map_fst parseP eqv ps items hrel
  · exact hne (by simp)
  · intro i a it ha hit
    exact RelL_index parseP eqv ps items hrel i a it (by rw [← hps]; exact ha) hit
  · exact AdjDiff_index eqv gs (hadj (by simp [AdjDiff]))

/-- total used for renormalisation under `skip_brute`: 1 − P(first `M` line), or 1 when there is none -/
def skipTotal (parseP : CPs → Option P) (A : PArith P) (text : CPs) : Option P :=
  match findMarkovProb parseP (textModeLines text) with
  | none => none
  | some none => some A.one
  | some (some pm) => some (A.sub A.one pm)

/-- C14 (`skip_brute`): if the default load succeeds with structures `bs`, then the `skip_brute` load
yields exactly the structures of `bs` without an `M` replacement, in the same order, each with its
file probability divided by `1 − P(M)` — whether or not there is an `M` line at all (then the divisor
is 1) -/
theorem loadBase_skip (parseP : CPs → Option P) (A : PArith P) (isAlpha : Nat → Bool) (text : CPs)
    (hone : ∀ p, A.div p A.one = some p)
    (bs : List (BaseS P)) (hdef : loadBase parseP A isAlpha false text = some bs)
    (tot : P) (htot : skipTotal parseP A text = some tot)
    (hdiv : ∀ b ∈ bs, (A.div b.prob tot).isSome) :
    loadBase parseP A isAlpha true text =
      some ((bs.filter fun b => !(b.replacements.contains [0x4d])).filterMap fun b =>
        (A.div b.prob tot).map fun q => { b with prob := q }) := by
  exact loadBase_skip' parseP A isAlpha text hone bs hdef tot htot hdiv

/-- no `M` line ⇒ the divisor is 1 and `skip_brute` changes nothing (the case that used to load zero
structures) -/
theorem loadBase_skip_noM (parseP : CPs → Option P) (A : PArith P) (isAlpha : Nat → Bool) (text : CPs)
    (hone : ∀ p, A.div p A.one = some p)
    (bs : List (BaseS P)) (hdef : loadBase parseP A isAlpha false text = some bs)
    (hnoM : ∀ b ∈ bs, b.replacements.contains [0x4d] = false)
    (hscan : findMarkovProb parseP (textModeLines text) = some none) :
    loadBase parseP A isAlpha true text = some bs := by
  have htot : skipTotal parseP A text = some A.one := by
    simp [skipTotal, hscan]
  have hdiv : ∀ b ∈ bs, (A.div b.prob A.one).isSome := by
    intro b _
    simp [hone]
  rw [loadBase_skip parseP A isAlpha text hone bs hdef A.one htot hdiv]
  have hf : (bs.filter fun b => !(b.replacements.contains [0x4d])) = bs := by
    rw [List.filter_eq_self]
    intro b hb
    rw [hnoM b hb]
    rfl
  rw [hf, filterMap_div_one A hone]

/-- every `A<n>` is directly followed by `C<n>`, and nothing else is inserted -/
theorem insertCase_spec (reps : List CPs) (h : ∀ r ∈ reps, r.head? ≠ some 0x43) :
    (insertCase reps).filter (fun r => r.head? != some 0x43) = reps ∧
    ∀ (i : Nat) r, (insertCase reps)[i]? = some r → r.head? = some 0x41 →
      (insertCase reps)[i + 1]? = some (0x43 :: r.tail) := by
  exact ⟨insertCase_filter reps h, insertCase_next reps⟩

/-! ## Non-vacuity: the hypotheses are satisfiable and the conclusions are the expected concrete data -/
section NonVacuity

/-- `[("ab ", "0.5"), ("c", "0.5"), ("d", "0.25")]` (the first value ends with a space) -/
def exItems : List (CPs × CPs) :=
  [([97, 98, 32], [48, 46, 53]), ([99], [48, 46, 53]), ([100], [48, 46, 50, 53])]

/-- `float()` on the three texts, in percent; `-1` is the loader's sentinel -/
def exParse (t : CPs) : Option Int :=
  if t = [48, 46, 53] then some 50 else if t = [48, 46, 50, 53] then some 25 else none

def exEqv (a b : Int) : Bool := a == b

theorem exItems_clean : ∀ it ∈ exItems, CleanValue it.1 ∧ CleanProb it.2 := by
  unfold exItems CleanValue CleanProb
  decide

theorem exItems_parse : ∀ it ∈ exItems, ∃ p, exParse it.2 = some p ∧ exEqv p (-1) = false := by
  unfold exItems
  intro it hit
  simp only [List.mem_cons, List.not_mem_nil, or_false] at hit
  rcases hit with h | h | h <;> subst h
  · exact ⟨50, by decide⟩
  · exact ⟨50, by decide⟩
  · exact ⟨25, by decide⟩

/-- the file text is `"ab \t0.5\nc\t0.5\nd\t0.25\n"` -/
example : writeFile exItems =
    [97, 98, 32, 9, 48, 46, 53, 10, 99, 9, 48, 46, 53, 10, 100, 9, 48, 46, 50, 53, 10] := by decide

example : codecLines (writeFile exItems) =
    [[97, 98, 32, 9, 48, 46, 53, 10], [99, 9, 48, 46, 53, 10], [100, 9, 48, 46, 50, 53, 10]] := by
  decide

/-- two groups: `{"ab ", "c"}` at 0.5 (the trailing space of the value survives) and `{"d"}` at 0.25 -/
example : loadFromFile exParse exEqv (-1) (writeFile exItems) =
    some [⟨[[97, 98, 32], [99]], 50⟩, ⟨[[100]], 25⟩] := by rfl

example : scorerLoad exParse (writeFile exItems) =
    some [([97, 98, 32], 50), ([99], 50), ([100], 25)] := by decide

/-- the general theorems apply to the example (all hypotheses hold) -/
example := loadFromFile_writeFile exParse exEqv (-1) (by intro a; simp [exEqv])
  (by intro a b; simp [exEqv]; exact Eq.symm) (by intro a b c; simp [exEqv]; exact Eq.trans)
  exItems exItems_clean exItems_parse

example := scorerLoad_writeFile exParse exItems exItems_clean
  (fun it hit => by obtain ⟨p, hp, _⟩ := exItems_parse it hit; simp [hp])

/-- percent arithmetic on `Nat`: `one = 100`, `div p t = p * 100 / t` (`none` for `t = 0`) -/
def exArith : PArith Nat :=
  { one := 100, sub := fun a b => a - b, div := fun p t => if t = 0 then none else some (p * 100 / t) }

def exParseN (t : CPs) : Option Nat :=
  if t = [48, 46, 53] then some 50 else if t = [48, 46, 50, 53] then some 25 else none

def exAlpha (c : Nat) : Bool := (65 ≤ c && c ≤ 90) || (97 ≤ c && c ≤ 122)

/-- `"A1D1\t0.5\nM\t0.25\nA2\t0.25\n"`: an `M` line in the middle -/
def exBase : CPs :=
  [65, 49, 68, 49, 9, 48, 46, 53, 10, 77, 9, 48, 46, 50, 53, 10, 65, 50, 9, 48, 46, 50, 53, 10]

theorem exArith_one : ∀ p, exArith.div p exArith.one = some p := by
  intro p
  simp [exArith]

example : loadBase exParseN exArith exAlpha false exBase =
    some [⟨50, [[65, 49], [67, 49], [68, 49]]⟩, ⟨25, [[77]]⟩, ⟨25, [[65, 50], [67, 50]]⟩] := by rfl

example : skipTotal exParseN exArith exBase = some 75 := by decide

/-- under `skip_brute` the `M` structure is gone and the others are renormalised by `1 - 0.25` -/
example : loadBase exParseN exArith exAlpha true exBase =
    some [⟨66, [[65, 49], [67, 49], [68, 49]]⟩, ⟨33, [[65, 50], [67, 50]]⟩] := by rfl

example := loadBase_skip exParseN exArith exAlpha exBase exArith_one
  [⟨50, [[65, 49], [67, 49], [68, 49]]⟩, ⟨25, [[77]]⟩, ⟨25, [[65, 50], [67, 50]]⟩] (by rfl)
  75 (by decide) (by decide)

example : insertCase [[65, 49], [68, 49], [65, 50]] = [[65, 49], [67, 49], [68, 49], [65, 50], [67, 50]] := by
  decide

example : checkValid [97, 98, 32] = true := by decide
example : checkValid [97, 9] = false := by decide
example : checkValid [] = false := by decide

end NonVacuity

end Pcfg

