import PcfgVerif.Model.DetectSpec
import PcfgVerif.Lemmas.DetectC1
import PcfgVerif.Lemmas.DetectC2
import PcfgVerif.Lemmas.DetectC3
import PcfgVerif.Lemmas.DetectC4
/-! Statements to be proved, part C: alpha (+ multi-word), digits, other. -/
namespace Pcfg.Detect

theorem detectAlpha_ok (U : UEnv) (cfg : MWCfg) (t : MWTable) (hmin : 0 < cfg.minLen) :
    DetectorOK U (detectAlpha U cfg t) :=
  detectAlpha_ok' U cfg t hmin

theorem detectDigits_ok (U : UEnv) : DetectorOK U (detectDigits U) :=
  detectDigits_ok' U

/-- the words `mwParse` returns concatenate to its input and are non-empty when the input is -/
theorem mwParse_concat (cfg : MWCfg) (t : MWTable) (s : CPs) (hs : s ≠ []) (hmin : 0 < cfg.minLen) :
    (mwParse cfg t s).2.flatten = s ∧ ∀ w ∈ (mwParse cfg t s).2, w ≠ [] :=
  mwParse_concat' cfg t s hs hmin

/-- a word is split into several only when every part was seen at least `threshold` times and is at
least `minLen` long, and the whole was seen fewer than `threshold` times -/
theorem mwParse_sound (cfg : MWCfg) (t : MWTable) (s : CPs) (h : 1 < (mwParse cfg t s).2.length) :
    mwCount t s < cfg.threshold ∧
    ∀ w ∈ (mwParse cfg t s).2, cfg.threshold ≤ mwCount t w ∧ cfg.minLen ≤ w.length :=
  mwParse_sound' cfg t s h

/-- the multi-word table after any training history: the count of a word is the number of qualifying
occurrences (lower-cased maximal alpha runs, of passwords of admissible length) in the history -/
theorem mwTrain_count (U : UEnv) (cfg : MWCfg) (history : List CPs) (w : CPs) :
    mwCount (history.foldl (fun t p => mwTrain U cfg t p) []) w =
      (history.flatMap fun p =>
        if p.length < cfg.minLen || p.length > cfg.maxLen then []
        else (alphaRuns U (U.lowerPy p) []).filter fun r => decide (cfg.minLen ≤ r.length)).count w :=
  mwTrain_count' U cfg history w

/-- alpha segments: only letters (of the lower-cased section), label = length, one mask per word of
the same length, `U` exactly at the upper-case letters -/
theorem detectAlpha_sound (U : UEnv) (cfg : MWCfg) (t : MWTable) (text : CPs) (hl : LenPres U text)
    (pieces : List Sec) (words masks : List CPs)
    (h : detectAlpha U cfg t text = some (pieces, (words, masks))) :
    words.length = masks.length ∧
    (∀ w ∈ words, w ≠ [] ∧ ∀ c ∈ w, U.isAlpha c = true) ∧
    (∀ (i : Nat) w m, words[i]? = some w → masks[i]? = some m → m.length = w.length) ∧
    (pieces.filter (fun s => s.2.isSome)).map (fun s => s.2) = words.map (fun w => some (lbl 'A' w.length)) :=
  detectAlpha_sound' U cfg t text hl pieces words masks h

/-- digit segments: all digits, label = length, maximal inside their section: the characters next to
the run (if any) are not digits -/
theorem detectDigits_sound (U : UEnv) (text : CPs) (pieces : List Sec) (d : CPs)
    (h : detectDigits U text = some (pieces, d)) :
    d ≠ [] ∧ (∀ c ∈ d, U.isDigit c = true) ∧ (d, some (lbl 'D' d.length)) ∈ pieces ∧
    ∃ pre post, text = pre ++ d ++ post ∧ (∀ c ∈ pre, U.isDigit c = false) ∧
      (∀ c, post.head? = some c → U.isDigit c = false) :=
  detectDigits_sound' U text pieces d h

/-- `other_detection` labels every remaining section `O<length>` and changes nothing else -/
theorem otherDetection_spec (secs : List Sec) :
    AllLabelled (otherDetection secs).1 ∧
    (otherDetection secs).1.map (·.1) = secs.map (·.1) ∧
    (∀ s ∈ secs, s.2.isSome = true → s ∈ (otherDetection secs).1) ∧
    (∀ s ∈ secs, s.2 = none → (s.1, some (lbl 'O' s.1.length)) ∈ (otherDetection secs).1) ∧
    (otherDetection secs).2 = (secs.filter (fun s => s.2.isNone)).map (·.1) :=
  otherDetection_spec' secs

/-- tiling survives `other_detection` -/
theorem otherDetection_tiles (U : UEnv) (pw : CPs) (secs : List Sec) (h : TilesFrom U pw 0 secs) :
    TilesFrom U pw 0 (otherDetection secs).1 :=
  otherDetection_tiles_gen U pw secs 0 h

/-! ## Non-vacuity: a concrete ASCII environment and worked examples -/

/-- ASCII-only stand-in for CPython's Unicode database -/
def asciiC : UEnv where
  isAlpha c := decide ((65 ≤ c ∧ c ≤ 90) ∨ (97 ≤ c ∧ c ≤ 122))
  isDigit c := decide (48 ≤ c ∧ c ≤ 57)
  isUpper c := decide (65 ≤ c ∧ c ≤ 90)
  lowerS s := s.map fun c => if 65 ≤ c ∧ c ≤ 90 then c + 32 else c
  lowerPy s := s.map fun c => if 65 ≤ c ∧ c ≤ 90 then c + 32 else c

theorem asciiC_lenPres (pw : CPs) : LenPres asciiC pw := by
  intro a b; simp [asciiC]

/-- `pass` and `word` each seen 5 times (= the default threshold) -/
def exTable : MWTable := [(cpsOfString "pass", 5), (cpsOfString "word", 5)]

/-- `12PassWord!` → `12 | Pass:A4 | Word:A4 | !`, words `pass`, `word`, masks `ULLL`, `ULLL` -/
theorem ex_detectAlpha : detectAlpha asciiC {} exTable (cpsOfString "12PassWord!") =
    some ([(cpsOfString "12", none), (cpsOfString "Pass", some "A4"), (cpsOfString "Word", some "A4"),
           (cpsOfString "!", none)],
          ([cpsOfString "pass", cpsOfString "word"], [cpsOfString "ULLL", cpsOfString "ULLL"])) := by
  decide

/-- the hypotheses of `detectAlpha_ok`/`detectAlpha_sound` are satisfiable, and their conclusions
apply to the example -/
example : TilesFrom asciiC (cpsOfString "12PassWord!") 0
    [(cpsOfString "12", none), (cpsOfString "Pass", some "A4"), (cpsOfString "Word", some "A4"),
     (cpsOfString "!", none)] :=
  (detectAlpha_ok asciiC {} exTable (by decide) _ _ _ (by decide) (asciiC_lenPres _) ex_detectAlpha).2

example : [cpsOfString "pass", cpsOfString "word"].length = [cpsOfString "ULLL", cpsOfString "ULLL"].length :=
  (detectAlpha_sound asciiC {} exTable _ (asciiC_lenPres _) _ _ _ ex_detectAlpha).1

/-- without table entries the run stays one word -/
example : detectAlpha asciiC {} [] (cpsOfString "12PassWord!") =
    some ([(cpsOfString "12", none), (cpsOfString "PassWord", some "A8"), (cpsOfString "!", none)],
          ([cpsOfString "password"], [cpsOfString "ULLLULLL"])) := by
  decide

/-- no letters: nothing found -/
example : detectAlpha asciiC {} exTable (cpsOfString "123!") = none := by decide

/-- `ab123cd` → `ab | 123:D3 | cd` -/
theorem ex_detectDigits : detectDigits asciiC (cpsOfString "ab123cd") =
    some ([(cpsOfString "ab", none), (cpsOfString "123", some "D3"), (cpsOfString "cd", none)],
          cpsOfString "123") := by
  decide

example : TilesFrom asciiC (cpsOfString "ab123cd") 0
    [(cpsOfString "ab", none), (cpsOfString "123", some "D3"), (cpsOfString "cd", none)] :=
  (detectDigits_ok asciiC _ _ _ (by decide) (asciiC_lenPres _) ex_detectDigits).2

/-- only the first maximal run is taken -/
example : detectDigits asciiC (cpsOfString "ab123cd45") =
    some ([(cpsOfString "ab", none), (cpsOfString "123", some "D3"), (cpsOfString "cd45", none)],
          cpsOfString "123") := by
  decide

example : detectDigits asciiC (cpsOfString "abc") = none := by decide

/-- `mwParse`: two words, three words (recursive branch), unknown word, known whole word -/
example : mwParse {} exTable (cpsOfString "password") =
    (true, [cpsOfString "pass", cpsOfString "word"]) := by decide
example : mwParse {} exTable (cpsOfString "passwordpass") =
    (true, [cpsOfString "pass", cpsOfString "word", cpsOfString "pass"]) := by decide
example : mwParse {} exTable (cpsOfString "passwords") = (false, [cpsOfString "passwords"]) := by decide
example : mwParse {} exTable (cpsOfString "pass") = (true, [cpsOfString "pass"]) := by decide
example : 1 < (mwParse {} exTable (cpsOfString "passwordpass")).2.length := by decide

/-- `mwTrain` over a short history: `password` once, `pass` twice, `word` once; `abc` is too short -/
example : [cpsOfString "password1", cpsOfString "Pass12word", cpsOfString "abc", cpsOfString "7pass!"].foldl
      (fun t p => mwTrain asciiC {} t p) [] =
    [(cpsOfString "password", 1), (cpsOfString "pass", 2), (cpsOfString "word", 1)] := by decide

/-- `otherDetection` labels what is left -/
example : otherDetection [(cpsOfString "ab", none), (cpsOfString "123", some "D3"), (cpsOfString "!!", none)] =
    ([(cpsOfString "ab", some "O2"), (cpsOfString "123", some "D3"), (cpsOfString "!!", some "O2")],
     [cpsOfString "ab", cpsOfString "!!"]) := by decide

end Pcfg.Detect
