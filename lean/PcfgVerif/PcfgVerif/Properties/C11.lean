import PcfgVerif.Properties.OmenTrainCore
import PcfgVerif.Lemmas.OmenFilesD
/-!
# C11 — trainer, scorer and guesser agree on every string's OMEN level

`TTables` = the trainer's tables after smoothing (levels are inputs: the smoothing function itself is
modelled, not verified); `TTables.WF` = every key / letter once, levels within 0..maxLevel, n-gram ≥ 2
(true of what `AlphabetLookup` builds).  `toTables` = what the guesser's loader builds from the files.
-/
namespace Pcfg.C11
open Omen

/-- scorer = trainer, for every string -/
theorem C11_scorer (t : TTables) (hwf : t.WF) (s : Str) : t.scorerLevel s = t.trainerLevel s :=
  scorerLevel_eq_trainerLevel t hwf s

/-- the level specification over the guesser's loaded tables = the trainer's level, for every string
(unknown letters, shorter than the n-gram, exactly that long, longer than the maximum) -/
theorem C11_spec (t : TTables) (hwf : t.WF) (s : Str) :
    t.toTables.levelOf (t.ngram - 1) s = t.trainerLevel s :=
  levelOf_eq_trainerLevel t hwf s

/-- guesser = trainer: the Markov generator emits `s` at level `L` (once) iff the trainer assigns `L`;
strings without a trainer level are never generated.  Hence the per-level counts of the trainer's
third pass describe what the guesser produces. -/
theorem C11_guesser (t : TTables) (hwf : t.WF) (target : Nat)
    (s0 : CState) (hs : t.toTables.start = some s0) :
    ∃ N, (∀ fuel, N ≤ fuel → t.toTables.enumFrom target fuel s0 = t.toTables.enumFrom target N s0) ∧
      (t.toTables.enumFrom target N s0).Nodup ∧
      ∀ s : Str, s ∈ t.toTables.enumFrom target N s0 ↔ t.trainerLevel s = some target :=
  guesser_emits_iff_trainerLevel t hwf target s0 hs

/-- strings shorter than the n-gram size or longer than the length table have no level anywhere -/
theorem C11_out_of_range (t : TTables) (s : Str) (h : s.length < t.ngram ∨ s.length > t.lns.length) :
    t.trainerLevel s = none ∧ t.scorerLevel s = none := by
  unfold TTables.trainerLevel TTables.scorerLevel
  rcases h with h | h <;> simp [h]

/-- **guesser = trainer, over the files.**  `loadTables` is the guesser's `load_rules` (its `_load_ngrams` / `_load_length`
folds, `Model/OmenFiles.lean`) on the records the trainer writes to `IP.level`, `CP.level`, `LN.level`: the load succeeds, the
generator starts where it starts over `toTables`, and run over the loaded tables it emits `s` at level `L` (once) iff the
trainer assigns `L` to `s` — `toTables` was a closed form, this is the loader. -/
theorem C11_guesser_from_files (t : TTables) (hwf : t.WF) (target : Nat) :
    ∃ tb, t.loadTables = some tb ∧ tb.start = t.toTables.start ∧
      ∀ s0, tb.start = some s0 →
        ∃ N, (∀ fuel, N ≤ fuel → tb.enumFrom target fuel s0 = tb.enumFrom target N s0) ∧
          (tb.enumFrom target N s0).Nodup ∧
          ∀ s : Str, s ∈ tb.enumFrom target N s0 ↔ t.trainerLevel s = some target := by
  obtain ⟨tb, hload, hsim⟩ := loadTables_sim t hwf.good
  refine ⟨tb, hload, hsim.start, fun s0 hs0 => ?_⟩
  have hs : t.toTables.start = some s0 := by rw [← hsim.start]; exact hs0
  obtain ⟨N, h1, h2, h3⟩ := C11_guesser t hwf target s0 hs
  refine ⟨N, fun fuel hf => ?_, ?_, fun s => ?_⟩
  · rw [hsim.enumFrom, hsim.enumFrom]; exact h1 fuel hf
  · rw [hsim.enumFrom]; exact h2
  · rw [hsim.enumFrom]; exact h3 s

/-- non-vacuity: the bigram example loads and starts -/
example : ∃ tb s0, exTT.loadTables = some tb ∧ tb.start = some s0 := by
  obtain ⟨tb, h1, h2, _⟩ := C11_guesser_from_files exTT exTT_wf 0
  exact ⟨tb, _, h1, h2.trans exTT_start⟩

end Pcfg.C11
