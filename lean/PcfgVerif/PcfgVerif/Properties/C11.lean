import PcfgVerif.Generated.ProcessState
import PcfgVerif.Properties.OmenTrainCore
import PcfgVerif.Generated.OmenFacts
import PcfgVerif.Lemmas.OmenFilesD
import PcfgVerif.Lemmas.OmenCountLemmas
import PcfgVerif.Lemmas.OmenScorerFilesLemmas
import PcfgVerif.Lemmas.OmenAlphabetLemmas
/-!
# C11 — trainer, scorer and guesser agree on every string's OMEN level

`TTables` = the trainer's tables after smoothing (levels are inputs: the smoothing function itself is
modelled, not verified); `TTables.WF` = every key / letter once, levels within 0..maxLevel, n-gram ≥ 2
(true of what `AlphabetLookup` builds).  `toTables` = what the guesser's loader builds from the files.
-/
namespace Pcfg.C11
open Omen

/-- scorer = trainer, for every string -/
theorem C11_scorer (t : TTables) (hwf : t.WF) (s : Str) : t.scorerLevel s = t.trainerLevel s :=
  scorerLevel_eq_trainerLevel t hwf s

/-- the level specification over the guesser's loaded tables = the trainer's level, for every string
(unknown letters, shorter than the n-gram, exactly that long, longer than the maximum) -/
theorem C11_spec (t : TTables) (hwf : t.WF) (s : Str) :
    t.toTables.levelOf (t.ngram - 1) s = t.trainerLevel s :=
  levelOf_eq_trainerLevel t hwf s

/-- guesser = trainer: the Markov generator emits `s` at level `L` (once) iff the trainer assigns `L`;
strings without a trainer level are never generated.  Hence the per-level counts of the trainer's
third pass describe what the guesser produces. -/
theorem C11_guesser (t : TTables) (hwf : t.WF) (target : Nat)
    (s0 : CState) (hs : t.toTables.start = some s0) :
    ∃ N, (∀ fuel, N ≤ fuel → t.toTables.enumFrom target fuel s0 = t.toTables.enumFrom target N s0) ∧
      (t.toTables.enumFrom target N s0).Nodup ∧
      ∀ s : Str, s ∈ t.toTables.enumFrom target N s0 ↔ t.trainerLevel s = some target :=
  guesser_emits_iff_trainerLevel t hwf target s0 hs

/-- strings shorter than the n-gram size or longer than the length table have no level anywhere -/
theorem C11_out_of_range (t : TTables) (s : Str) (h : s.length < t.ngram ∨ s.length > t.lns.length) :
    t.trainerLevel s = none ∧ t.scorerLevel s = none := by
  unfold TTables.trainerLevel TTables.scorerLevel
  rcases h with h | h <;> simp [h]

/-- **guesser = trainer, over the files.**  `loadTables` is the guesser's `load_rules` (its `_load_ngrams` / `_load_length`
folds, `Model/OmenFiles.lean`) on the records the trainer writes to `IP.level`, `CP.level`, `LN.level`: the load succeeds, the
generator starts where it starts over `toTables`, and run over the loaded tables it emits `s` at level `L` (once) iff the
trainer assigns `L` to `s` — `toTables` was a closed form, this is the loader. -/
theorem C11_guesser_from_files (t : TTables) (hwf : t.WF) (target : Nat) :
    ∃ tb, t.loadTables = some tb ∧ tb.start = t.toTables.start ∧
      ∀ s0, tb.start = some s0 →
        ∃ N, (∀ fuel, N ≤ fuel → tb.enumFrom target fuel s0 = tb.enumFrom target N s0) ∧
          (tb.enumFrom target N s0).Nodup ∧
          ∀ s : Str, s ∈ tb.enumFrom target N s0 ↔ t.trainerLevel s = some target := by
  obtain ⟨tb, hload, hsim⟩ := loadTables_sim t hwf.good
  refine ⟨tb, hload, hsim.start, fun s0 hs0 => ?_⟩
  have hs : t.toTables.start = some s0 := by rw [← hsim.start]; exact hs0
  obtain ⟨N, h1, h2, h3⟩ := C11_guesser t hwf target s0 hs
  refine ⟨N, fun fuel hf => ?_, ?_, fun s => ?_⟩
  · rw [hsim.enumFrom, hsim.enumFrom]; exact h1 fuel hf
  · rw [hsim.enumFrom]; exact h2
  · rw [hsim.enumFrom]; exact h3 s

/-- non-vacuity: the bigram example loads and starts -/
example : ∃ tb s0, exTT.loadTables = some tb ∧ tb.start = some s0 := by
  obtain ⟨tb, h1, h2, _⟩ := C11_guesser_from_files exTT exTT_wf 0
  exact ⟨tb, _, h1, h2.trans exTT_start⟩

/-- **scorer = trainer, over the files.**  `loadScorer` is `OmenScorer._load_omen` on the records of `IP.level`, `CP.level`,
`LN.level` (dict assignment per line; the n-gram size read off the first `CP.level` line, −1 when there is none), `STabs.parse`
is `OmenScorer.parse` on those dictionaries: for every string it returns the level the trainer assigns. -/
theorem C11_scorer_from_files (t : TTables) (hwf : t.WF) (s : Str) :
    (loadScorer t.ipLines t.cpLines t.lnLines).parse s = t.trainerLevel s := by
  rw [scorer_from_files t hwf.good s]
  exact C11_scorer t hwf s

/-- **the hypothesis `WF` is a theorem for what the trainer builds.**  `trainTTables` is the OMEN half of the trainer as a
function of the password list (`Model/OmenCount.lean`: `AlphabetGenerator`, `AlphabetLookup.parse`, `apply_smoothing`); `lvl` is
`_calc_level`, of which only the clamp to `0..maxLevel` is used (`log` / `floor` are opaque to the kernel).  For every password
list, alphabet size, n-gram size ≥ 2 and length window the smoothed tables have every (n−1)-gram once, every next letter once per
(n−1)-gram, keys of length n−1 and all levels within `0..maxLevel`. -/
theorem C11_trained_tables_wf (lvl : Nat → Nat → Nat → Nat) (alphabetSize ngram minLength maxLength maxLevel : Nat)
    (hn : 2 ≤ ngram) (hl : ∀ a b c, lvl a b c ≤ maxLevel) (pws : List Str) :
    (trainTTables lvl alphabetSize ngram minLength maxLength maxLevel pws).WF :=
  let g := trainTTables_good lvl alphabetSize ngram minLength maxLength maxLevel hn hl pws
  ⟨g.ngram_ge, g.keys_nodup, g.key_len, g.letters_nodup, g.ip_levels, g.cp_levels, g.ln_levels⟩

/-- the alphabet the first pass learns ("for every ... alphabet size"): at most `size` letters, none twice, each one a letter of a
password at least `ngram` long, taken from the front of the stable sort by decreasing count -/
theorem C11_alphabet (size ngram : Nat) (pws : List Str) :
    (alphabetOf size ngram pws).length ≤ size ∧ (alphabetOf size ngram pws).Nodup ∧
    (∀ c ∈ alphabetOf size ngram pws, c ∈ (alphabetCounts ngram pws).map (·.1)) ∧
    alphabetOf size ngram pws =
      (((alphabetCounts ngram pws).mergeSort fun a b => decide (a.2 ≥ b.2)).take size).map (·.1) :=
  alphabetOf_spec size ngram pws

/-- **C11 from the training list to the guess**, no hypothesis about tables or files left: for every training list and every
string, the scorer's `parse` on the dictionaries it loads from the trainer's files returns the trainer's level, the guesser's loader accepts the files, and the generator run over the loaded
tables emits the string at level `L` (once) iff the trainer's third pass assigns `L` to it -/
theorem C11_trained (lvl : Nat → Nat → Nat → Nat) (alphabetSize ngram minLength maxLength maxLevel : Nat)
    (hn : 2 ≤ ngram) (hl : ∀ a b c, lvl a b c ≤ maxLevel) (pws : List Str) (target : Nat) :
    let t := trainTTables lvl alphabetSize ngram minLength maxLength maxLevel pws
    (∀ s, (loadScorer t.ipLines t.cpLines t.lnLines).parse s = t.trainerLevel s) ∧
    ∃ tb, t.loadTables = some tb ∧
      ∀ s0, tb.start = some s0 →
        ∃ N, (∀ fuel, N ≤ fuel → tb.enumFrom target fuel s0 = tb.enumFrom target N s0) ∧
          (tb.enumFrom target N s0).Nodup ∧
          ∀ s : Str, s ∈ tb.enumFrom target N s0 ↔ t.trainerLevel s = some target := by
  intro t
  have hwf := C11_trained_tables_wf lvl alphabetSize ngram minLength maxLength maxLevel hn hl pws
  refine ⟨fun s => C11_scorer_from_files t hwf s, ?_⟩
  obtain ⟨tb, h1, _, h3⟩ := C11_guesser_from_files t hwf target
  exact ⟨tb, h1, h3⟩

/-- **the clamp of `_calc_level`, regenerated from the source**: the statements after the one that takes the floor of the logarithm
are translated, whatever their shape (`if` / `elif` / early `return`s), into `Generated.OmenFacts.calcLevelClamp`; with `max_level` at
its default 10 that function is the model's `clampLevel` - so whatever the logarithm and the floor return (they do not reduce in the
kernel), the level is within `0..10` (`lvlOf raw 10`) -/
theorem C11_calc_level_clamps :
    Generated.OmenFacts.calcLevelMaxDefault = "10" ∧
    (∀ level : Int, Generated.OmenFacts.calcLevelClamp level 10 = (clampLevel level 10 : Int)) ∧
    ∀ (raw : Nat → Nat → Nat → Int) (a b c : Nat), lvlOf raw 10 a b c ≤ 10 := by
  refine ⟨by decide, ?_, fun raw a b c => lvlOf_le raw 10 a b c⟩
  intro level
  simp only [Generated.OmenFacts.calcLevelClamp, clampLevel]
  repeat' split
  all_goals omega

/-- `C11_trained` for **every** value the logarithm could return: no hypothesis at all besides the n-gram size ≥ 2 -/
theorem C11_trained_any_smoothing (raw : Nat → Nat → Nat → Int) (alphabetSize ngram minLength maxLength : Nat)
    (hn : 2 ≤ ngram) (pws : List Str) (target : Nat) :
    let t := trainTTables (lvlOf raw 10) alphabetSize ngram minLength maxLength 10 pws
    (∀ s, (loadScorer t.ipLines t.cpLines t.lnLines).parse s = t.trainerLevel s) ∧
    ∃ tb, t.loadTables = some tb ∧
      ∀ s0, tb.start = some s0 →
        ∃ N, (∀ fuel, N ≤ fuel → tb.enumFrom target fuel s0 = tb.enumFrom target N s0) ∧
          (tb.enumFrom target N s0).Nodup ∧
          ∀ s : Str, s ∈ tb.enumFrom target N s0 ↔ t.trainerLevel s = some target :=
  C11_trained (lvlOf raw 10) alphabetSize ngram minLength maxLength 10 hn (lvlOf_le raw 10) pws target

/-- non-vacuity (kernel-evaluated; the alphabet is given, its sorting does not reduce in the kernel): three passwords over `a`, `b`,
bigrams, a level function that is not constant -/
example :
    let t := (countTables ['a', 'b'] 2 1 4 [['a', 'b', 'a'], ['a', 'b'], ['b', 'b', 'a']]).toTTables
      (fun c tot _ => if 2 * c ≥ tot then 0 else 1) 2 3
    t.entries.map (·.key) = [['a'], ['b']] ∧ t.trainerLevel ['a', 'b', 'a'] = some 0 ∧ t.trainerLevel ['b', 'b', 'a'] = some 2 ∧ t.lns = [1, 1, 0, 1] := by
  decide +kernel

/-- **nothing outlives a call except the objects a caller holds** (regenerated from the four library packages): no module-level or
class-level container that changes, no cache decorator or cache call, no computed default argument and no `global` statement anywhere in
`lib_guesser`, `lib_trainer`, `lib_scorer`, `lib_princeling` - an answer cannot depend on what another object, an earlier ruleset in the
same process or the other thread did -/
theorem C11_no_process_wide_state : Generated.ProcessState.processWideState = [] := by
  decide

end Pcfg.C11
