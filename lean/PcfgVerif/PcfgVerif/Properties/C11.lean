import PcfgVerif.Properties.OmenTrainCore
/-!
# C11 — trainer, scorer and guesser agree on every string's OMEN level

`TTables` = the trainer's tables after smoothing (levels are inputs: the smoothing function itself is
modelled, not verified); `TTables.WF` = every key / letter once, levels within 0..maxLevel, n-gram ≥ 2
(true of what `AlphabetLookup` builds).  `toTables` = what the guesser's loader builds from the files.
-/
namespace Pcfg.C11
open Omen

/-- scorer = trainer, for every string -/
theorem C11_scorer (t : TTables) (hwf : t.WF) (s : Str) : t.scorerLevel s = t.trainerLevel s :=
  scorerLevel_eq_trainerLevel t hwf s

/-- the level specification over the guesser's loaded tables = the trainer's level, for every string
(unknown letters, shorter than the n-gram, exactly that long, longer than the maximum) -/
theorem C11_spec (t : TTables) (hwf : t.WF) (s : Str) :
    t.toTables.levelOf (t.ngram - 1) s = t.trainerLevel s :=
  levelOf_eq_trainerLevel t hwf s

/-- guesser = trainer: the Markov generator emits `s` at level `L` (once) iff the trainer assigns `L`;
strings without a trainer level are never generated.  Hence the per-level counts of the trainer's
third pass describe what the guesser produces. -/
theorem C11_guesser (t : TTables) (hwf : t.WF) (target : Nat)
    (s0 : CState) (hs : t.toTables.start = some s0) :
    ∃ N, (∀ fuel, N ≤ fuel → t.toTables.enumFrom target fuel s0 = t.toTables.enumFrom target N s0) ∧
      (t.toTables.enumFrom target N s0).Nodup ∧
      ∀ s : Str, s ∈ t.toTables.enumFrom target N s0 ↔ t.trainerLevel s = some target :=
  guesser_emits_iff_trainerLevel t hwf target s0 hs

/-- strings shorter than the n-gram size or longer than the length table have no level anywhere -/
theorem C11_out_of_range (t : TTables) (s : Str) (h : s.length < t.ngram ∨ s.length > t.lns.length) :
    t.trainerLevel s = none ∧ t.scorerLevel s = none := by
  unfold TTables.trainerLevel TTables.scorerLevel
  rcases h with h | h <;> simp [h]

end Pcfg.C11
