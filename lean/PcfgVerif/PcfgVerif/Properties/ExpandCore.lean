import PcfgVerif.Model.ExpandSpec
import PcfgVerif.Lemmas.ExpandLemmas
/-! Statements to be proved (work file for the expansion core: C04, C09, C17). -/
namespace Pcfg

/-- the Markov loop prints the level's guesses in order; unlimited -/
theorem omenLoop_none (gs : List Str) :
    omenLoop gs none = ⟨gs, gs.length, false⟩ := by
  exact omenLoop_none' gs

/-- with a limit `n ≥ 1` it prints exactly the first `n` and returns how many it printed -/
theorem omenLoop_limit (gs : List Str) (n : Nat) (hn : 1 ≤ n) :
    omenLoop gs (some (n : Int)) = ⟨gs.take n, min n gs.length, false⟩ := by
  exact omenLoop_limit' gs n hn

/-- C04: an error-free non-Markov pre-terminal expands to exactly the product of its groups, and the
returned count is the number of lines written -/
theorem recGuesses_none (upper : Char → List Char) (g : EGrammar) (omen : Nat → Option (List Str))
    (cur : Str) (pt : PT) (hpt : pt ≠ []) (hok : okSpec upper g cur pt = true) :
    recGuesses upper g omen cur pt none =
      ⟨productSpec upper g cur pt, (productSpec upper g cur pt).length, false⟩ := by
  exact (recGuesses_spec upper g omen pt cur hpt hok).1

/-- C09: with `limit = n ≥ 1` the output is exactly the first `n` lines of the unlimited output, the
count is `min n total` — also when `n` falls inside a group or inside a mask loop -/
theorem recGuesses_limit (upper : Char → List Char) (g : EGrammar) (omen : Nat → Option (List Str))
    (cur : Str) (pt : PT) (hpt : pt ≠ []) (hok : okSpec upper g cur pt = true) (n : Nat) (hn : 1 ≤ n) :
    recGuesses upper g omen cur pt (some (n : Int)) =
      ⟨(productSpec upper g cur pt).take n, min n (productSpec upper g cur pt).length, false⟩ := by
  exact (recGuesses_spec upper g omen pt cur hpt hok).2 n hn

/-- every group of an error-free pre-terminal is non-empty, so it produces at least one guess -/
theorem productSpec_pos (upper : Char → List Char) (g : EGrammar) (cur : Str) (pt : PT)
    (hok : okSpec upper g cur pt = true) : 0 < (productSpec upper g cur pt).length := by
  exact productSpec_pos' upper g pt cur hok

/-- a generator that honours its limit exactly -/
def ExactLimit (gen : PT → Option Int → ERes) : Prop :=
  ∀ pt, (gen pt none).count = (gen pt none).out.length ∧
    ∀ n : Nat, 1 ≤ n → gen pt (some (n : Int)) = ⟨(gen pt none).out.take n, min n (gen pt none).out.length, false⟩

/-- C09 at session level: whatever the sequence of popped pre-terminals, `--limit N` yields the
first `N` lines of the unlimited run (all of them if there are fewer) -/
theorem sessionLoop_limit (gen : PT → Option Int → ERes) (hgen : ExactLimit gen)
    (pts : List PT) (n : Nat) (hn : 1 ≤ n) :
    sessionLoop gen pts (some (n : Int)) = (sessionLoop gen pts none).take n := by
  induction pts generalizing n with
  | nil => simp [sessionLoop]
  | cons pt rest ih =>
    have hpt := (hgen pt).2 n hn
    unfold sessionLoop
    simp only [limTruthy_pos n hn, limTruthy_none, Bool.false_eq_true, if_false, if_true,
      Option.getD_some, hpt, Frag.sessionHit_eq]
    by_cases hk : n ≤ (gen pt none).out.length
    · have h0 : ((n : Int) - ((min n (gen pt none).out.length : Nat) : Int)) = 0 := by omega
      simp only [h0]
      simp [List.take_append, Nat.sub_eq_zero_of_le hk]
    · have hcast : ((n : Int) - ((min n (gen pt none).out.length : Nat) : Int)) =
          ((n - (gen pt none).out.length : Nat) : Int) := by omega
      have hd : ¬ (((n - (gen pt none).out.length : Nat) : Int) ≤ 0) := by omega
      simp only [hcast, decide_eq_false hd, Bool.false_eq_true, if_false]
      rw [ih (n - (gen pt none).out.length) (by omega), List.take_append,
        List.take_of_length_le (by omega)]

/-- the unlimited session output is the concatenation of the pre-terminals' outputs -/
theorem sessionLoop_none (gen : PT → Option Int → ERes) (pts : List PT) :
    sessionLoop gen pts none = pts.flatMap fun pt => (gen pt none).out := by
  induction pts with
  | nil => rfl
  | cons pt rest ih =>
    unfold sessionLoop
    simp [limTruthy_none, ih]

/-! ## Non-vacuity -/
namespace ExpandExample

def up (c : Char) : List Char := [c.toUpper]
def gr : EGrammar :=
  [("A2", [[['a','b'],['c','d']]]), ("C2", [[['L','L'],['U','L']]]), ("D1", [[['1'],['2']]])]
def pt0 : PT := [("A2", 0), ("C2", 0), ("D1", 0)]

example : okSpec up gr [] pt0 = true := by decide

example : productSpec up gr [] pt0 =
    ["ab1".toList, "ab2".toList, "Ab1".toList, "Ab2".toList,
     "cd1".toList, "cd2".toList, "Cd1".toList, "Cd2".toList] := by decide

/-- the limit 3 falls inside the mask loop (second mask of the first word) -/
example : recGuesses up gr (fun _ => none) [] pt0 (some 3) =
    ⟨["ab1".toList, "ab2".toList, "Ab1".toList], 3, false⟩ := by rfl

example : (recGuesses up gr (fun _ => none) [] pt0 (some 3)).out =
    (productSpec up gr [] pt0).take 3 := by decide

/-- the limit falls inside a mask loop that is itself the last position -/
example : recGuesses up gr (fun _ => none) [] [("A2", 0), ("C2", 0)] (some 3) =
    ⟨["ab".toList, "Ab".toList, "cd".toList], 3, false⟩ := by rfl

end ExpandExample

end Pcfg
