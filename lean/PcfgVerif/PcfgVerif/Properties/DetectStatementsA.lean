import PcfgVerif.Model.DetectSpec
/-! Statements to be proved, part A: generic loop + e-mail, website, year, context detectors. -/
namespace Pcfg.Detect

/-- tiling is stable under replacing an unlabelled section by pieces that tile it -/
theorem tiles_replace (U : UEnv) (pw : CPs) (off : Nat) (text : CPs) (pieces rest : List Sec)
    (hl : LenPres U pw)
    (h : TilesFrom U pw off ((text, none) :: rest))
    (hp : TilesFrom U text 0 pieces) :
    TilesFrom U pw off (pieces ++ rest) := by
  sorry

/-- sub-slices of a length-preserving string are length-preserving -/
theorem lenPres_slice (U : UEnv) (pw : CPs) (a b : Nat) (h : LenPres U pw) : LenPres U (slice pw a b) := by
  sorry

/-- the list-level loop preserves tiling (for either advance rule, any fuel) -/
theorem splitLoop_tiles {F : Type} (U : UEnv) (detect : CPs → Option (List Sec × F)) (adv : Advance)
    (hd : DetectorOK U detect) (pw : CPs) (hl : LenPres U pw)
    (fuel : Nat) (done todo : List Sec) (found : List F)
    (h : TilesFrom U pw 0 (done ++ todo)) :
    TilesFrom U pw 0 (splitLoop detect adv fuel done todo found).1 := by
  sorry

/-- labelled sections are never touched by the loop: they all survive, in order -/
theorem splitLoop_keeps_labelled {F : Type} (detect : CPs → Option (List Sec × F)) (adv : Advance)
    (fuel : Nat) (done todo : List Sec) (found : List F) (s : Sec) (hs : s.2.isSome = true)
    (hm : s ∈ done ++ todo) : s ∈ (splitLoop detect adv fuel done todo found).1 := by
  sorry

theorem detectEmail_ok (U : UEnv) : DetectorOK U (detectEmail U) := by
  sorry

theorem detectWebsite_ok (U : UEnv) : DetectorOK U (detectWebsite U) := by
  sorry

theorem detectYear_ok (U : UEnv) : DetectorOK U (detectYear U) := by
  sorry

theorem detectContext_ok (U : UEnv) : DetectorOK U (detectContext U) := by
  sorry

/-- a year segment is four digits starting with one of the prefixes `19` / `20` -/
theorem detectYear_sound (U : UEnv) (text : CPs) (pieces : List Sec) (y : CPs)
    (h : detectYear U text = some (pieces, y)) :
    y.length = 4 ∧ (∃ pre ∈ Generated.Tables.yearPrefixes, y.take 2 = pre) ∧
    U.isDigit (y.getD 2 0) = true ∧ U.isDigit (y.getD 3 0) = true ∧ (y, some "Y1") ∈ pieces := by
  sorry

/-- a context segment is a member of the fixed list -/
theorem detectContext_sound (U : UEnv) (text : CPs) (pieces : List Sec) (c : CPs)
    (h : detectContext U text = some (pieces, c)) :
    c ∈ Generated.Tables.contextList ∧ (c, some "X1") ∈ pieces := by
  sorry

end Pcfg.Detect
