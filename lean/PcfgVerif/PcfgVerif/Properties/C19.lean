import PcfgVerif.Properties.ReaderCore
import PcfgVerif.Generated.ReaderUses
/-!
# C19 — equivalent encodings of a training list train the same grammar

`readLine` is what one line of the training file contributes (yielded passwords, password count,
encoding-error count); the reader is a fold over the lines of the file (`readLines_append`), so all
three training passes see the same sequence, and the ruleset is a function of that sequence (C06).
`int()`, `bytes.fromhex().decode()` and `str.encode()` are parameters.
-/
namespace Pcfg.C19

/-- a `$HEX[...]` line whose bytes decode to `p` is read exactly like the plain line `p`
(`p` itself not of the `$HEX[…]` form and not ending in CR/LF: what a plain line can denote) -/
theorem C19_hex (R : RParams) (h p : CPs) (hd : R.hexDecode h = some p)
    (hh : ∀ c ∈ h, c ≠ 0x0d ∧ c ≠ 0x0a) (ht : NoTrailEol p) (hnf : NotHexForm p) :
    readLine R false (hexLine h ++ [0x0a]) = readLine R false (p ++ [0x0a]) :=
  readLine_hex R h p hd hh ht hnf

/-- with `--prefixcount`, `count password` yields what the plain line repeated `count` times yields;
leading / inner / trailing spaces of the password are kept -/
theorem C19_count (R : RParams) (lead tok p : CPs) (n : Nat)
    (hlead : ∀ c ∈ lead, isPySpace c = true)
    (htok : tok ≠ [] ∧ ∀ c ∈ tok, isPySpace c = false ∧ c ≠ 0x20)
    (hn : R.parseInt tok = some (n : Int)) (ht : NoTrailEol p) (hnf : NotHexForm p) :
    (readLines R true [lead ++ tok ++ [0x20] ++ p ++ [0x0a]]).out =
      (readLines R false (List.replicate n (p ++ [0x0a]))).out ∧
    (readLines R true [lead ++ tok ++ [0x20] ++ p ++ [0x0a]]).numPasswords =
      (readLines R false (List.replicate n (p ++ [0x0a]))).numPasswords :=
  count_eq_repeats R lead tok p n hlead htok hn ht hnf

/-- CRLF line ends are equivalent to LF -/
theorem C19_crlf (R : RParams) (p : CPs) (ht : NoTrailEol p) (hh : NotHexForm p) :
    readLine R false (p ++ [0x0d, 0x0a]) = readLine R false (p ++ [0x0a]) := by
  rw [readLine_plain_crlf R p ht hh, readLine_plain R p ht hh]

/-- blank lines, lines with TABs or control characters are skipped without being counted as errors;
undecodable `$HEX[]` is skipped and counted; a non-numeric count token is skipped -/
theorem C19_skips (R : RParams) :
    (∀ p, NoTrailEol p → NotHexForm p → checkValid p = false → R.encodable p = true →
      readLine R false (p ++ [0x0a]) = ([], 0, 0)) ∧
    (∀ h, R.hexDecode h = none → (∀ c ∈ h, c ≠ 0x0d ∧ c ≠ 0x0a) →
      readLine R false (hexLine h ++ [0x0a]) = ([], 0, 1)) ∧
    (∀ tok p, (tok ≠ [] ∧ ∀ c ∈ tok, isPySpace c = false ∧ c ≠ 0x20) → R.parseInt tok = none →
      NoTrailEol p → readLine R true (tok ++ [0x20] ++ p ++ [0x0a]) = ([], 0, 0)) :=
  ⟨fun p ht hh hi he => readLine_invalid R p ht hh hi he,
   fun h hd hh => readLine_badhex R h hd hh,
   fun tok p htok hn ht => readLine_count_bad R tok p htok hn ht⟩

/-- nothing that was skipped leaks: every yielded password passed `check_valid` and is encodable -/
theorem C19_no_leak (R : RParams) (pc : Bool) (line q : CPs) (hq : q ∈ (readLine R pc line).1) :
    checkValid q = true ∧ R.encodable q = true :=
  readLine_out_valid R pc line q hq

/-- the reader is a function of the file: a fold over its lines -/
theorem C19_fold (R : RParams) (pc : Bool) (l1 l2 : List CPs) :
    (readLines R pc (l1 ++ l2)).out = (readLines R pc l1).out ++ (readLines R pc l2).out := by
  rw [readLines_append]

theorem C19_constants : Generated.Reader.defaultCount = 1 ∧ Generated.Reader.hexDropFront = 5 ∧
    Generated.Reader.hexDropBack = 1 ∧ Generated.Reader.countTok = 0 ∧ Generated.Reader.restTok = 1 ∧
    Generated.Reader.yieldFrom = 0 := by decide

/-- **what a reader notices on the way never reaches the ruleset** (regenerated from `trainer.py` / `lib_trainer` on every run): outside
the reader itself the trainer reads from the reader object only the password stream (`read_password()`), the two totals
`num_passwords` and `num_encoding_errors` — which `readPasswords` returns and the theorems above show to be the same for equivalent
encodings — and, for a message printed to the screen only, the duplicate-detection state (which *does* differ between a count-prefixed
and a repeated list).  Nothing else of the reader's state is written to `config.ini` or used to decide anything. -/
theorem C19_only_totals_reach_the_ruleset :
    (Generated.ReaderUses.uses.all fun u =>
      u.2.2.1 == "read_password" || u.2.2.1 == "num_passwords" || u.2.2.1 == "num_encoding_errors" ||
      u.2.2.2 == "print" || u.2.2.2 == "if-print-only") = true ∧
    (Generated.ReaderUses.uses.filter fun u => u.2.2.2 == "config.set").map (·.2.2.1) = ["num_passwords", "num_encoding_errors"] := by
  decide

end Pcfg.C19
