import PcfgVerif.Generated.ProcessState
import PcfgVerif.Model.Sampler
import PcfgVerif.Generated.CliOptions
import PcfgVerif.Lemmas.ExpandLemmas
/-!
# C16 — honeywords are drawn from the grammar with the grammar's probabilities

The uniform draws are universally quantified inputs of the model, so the statements hold for every
value of the draws (the whole unit interval), not for a sample.
-/
namespace Pcfg.C16
variable {Q : Type}

theorem pickGo_spec (S : SOps Q) (u : Q) (ws : List Q) (cur : Q) (i j : Nat) :
    pickGo S u ws cur i = some j ↔
      ∃ k, j = i + k ∧ k < ws.length ∧ S.ge ((ws.take (k + 1)).foldl S.add cur) u = true ∧
        ∀ m, m < k → S.ge ((ws.take (m + 1)).foldl S.add cur) u = false := by
  induction ws generalizing cur i with
  | nil => simp [pickGo]
  | cons w ws ih =>
    simp only [pickGo]
    by_cases h : S.ge (S.add cur w) u = true
    · simp only [h, if_true, Option.some.injEq]
      constructor
      · intro e
        refine ⟨0, by omega, by simp, by simpa using h, by intro m hm; omega⟩
      · rintro ⟨k, hj, _, hk, hall⟩
        cases k with
        | zero => omega
        | succ k =>
          have := hall 0 (by omega)
          simp at this
          rw [this] at h
          cases h
    · have h' : S.ge (S.add cur w) u = false := by simpa using h
      simp only [h', Bool.false_eq_true, if_false]
      rw [ih]
      constructor
      · rintro ⟨k, hj, hk, hge, hall⟩
        refine ⟨k + 1, by omega, by simp; omega, by simpa using hge, ?_⟩
        intro m hm
        cases m with
        | zero => simpa using h'
        | succ m => simpa using hall m (by omega)
      · rintro ⟨k, hj, hk, hge, hall⟩
        cases k with
        | zero => simp at hge; rw [hge] at h'; cases h'
        | succ k =>
          refine ⟨k, by omega, by simp at hk; omega, by simpa using hge, ?_⟩
          intro m hm
          simpa using hall (m + 1) (by omega)

/-- the selected index is the first whose running sum reaches the draw: for every draw `u`,
index `j` is selected iff `S_j ≥ u` and `S_m < u` for all `m < j` — i.e. iff `u` lies in the interval
`(S_{j-1}, S_j]` (closed at 0 for `j = 0`) -/
theorem C16_pick (S : SOps Q) (ws : List Q) (u : Q) (j : Nat) :
    pick S ws u = some j ↔
      j < ws.length ∧ S.ge (runSum S ws (j + 1)) u = true ∧ ∀ m, m < j → S.ge (runSum S ws (m + 1)) u = false := by
  unfold pick runSum
  rw [pickGo_spec]
  constructor
  · rintro ⟨k, hj, hk, h1, h2⟩
    have : j = k := by omega
    subst this
    exact ⟨hk, h1, h2⟩
  · rintro ⟨hk, h1, h2⟩
    exact ⟨j, by omega, hk, h1, h2⟩

/-- the interval of index `j` has length `w_j` (stated over the integers: probabilities scaled to a
common denominator) -/
theorem C16_interval_length (ws : List Int) (j : Nat) (hj : j < ws.length) :
    runSum ⟨0, (· + ·), fun a b => decide (a ≥ b)⟩ ws (j + 1) -
      runSum ⟨0, (· + ·), fun a b => decide (a ≥ b)⟩ ws j = ws[j] := by
  unfold runSum
  simp only
  rw [List.take_succ_eq_append_getElem hj, List.foldl_append]
  simp only [List.foldl_cons, List.foldl_nil]
  omega

/-- every honeyword is a word of the non-Markov language: it is one of the guesses of the
pre-terminal the walk selected -/
theorem C16_member (upper : Char → List Char) (g : EGrammar) (cur : Str) (pt : PT) (ks : List Nat)
    (w : Str) (h : honeyWord upper g cur pt ks = some w) : w ∈ productSpec upper g cur pt := by
  induction pt generalizing cur ks with
  | nil => simp [honeyWord] at h; simp [productSpec, h]
  | cons hd rest ih =>
    obtain ⟨t, i⟩ := hd
    unfold honeyWord at h
    unfold productSpec
    cases hcat : t.toList.head? with
    | none => simp [hcat] at h
    | some cat =>
      cases hvals : g.values t i with
      | none => simp [hcat, hvals] at h
      | some vals =>
        cases ks with
        | nil => simp [hcat, hvals] at h
        | cons k ks' =>
          simp only [hcat, hvals] at h ⊢
          by_cases hm : Generated.Expand.isMarkov cat = true
          · simp [hm] at h
          · simp only [hm, Bool.false_eq_true, if_false] at h
            cases hv : vals[k]? with
            | none => simp [hv] at h
            | some v =>
              simp only [hv] at h
              cases hc : combine upper cat (vals.headD []) cur v with
              | none => rw [hc] at h; exact absurd h (by simp)
              | some cur' =>
                rw [hc] at h
                rw [List.mem_flatMap]
                exact ⟨v, List.mem_of_getElem? hv, by simp only [hc]; exact ih cur' ks' h⟩

/-- a Markov structure yields no word -/
theorem C16_markov_no_word (upper : Char → List Char) (g : EGrammar) (cur : Str) (i : Nat) (rest : PT)
    (ks : List Nat) : honeyWord upper g cur (("M", i) :: rest) ks = none := by
  unfold honeyWord
  have hM : ("M" : String).toList.head? = some 'M' := rfl
  simp only [hM]
  cases g.values "M" i <;> cases ks <;> simp [Generated.Expand.isMarkov, CmpOp.chr]

/-- words of the first `fuel` walks, in seed order -/
def wordsFrom (word : Nat → Option Str) (seed fuel : Nat) : List Str :=
  (List.range fuel).filterMap fun i => word (seed + i)

theorem wordsFrom_succ (word : Nat → Option Str) (seed fuel : Nat) :
    wordsFrom word seed (fuel + 1) =
      (match word seed with | some w => [w] | none => []) ++ wordsFrom word (seed + 1) fuel := by
  unfold wordsFrom
  rw [List.range_succ_eq_map, List.filterMap_cons]
  simp only [Nat.add_zero, List.filterMap_map]
  cases word seed <;> simp [Function.comp_def, Nat.add_assoc, Nat.add_comm 1]

/-- C16 (count): with `--limit n` the run writes exactly the words of the first non-Markov walks until
`n` words are out — never more than `n`, and exactly `n` as soon as `n` walks produced a word -/
theorem C16_count (word : Nat → Option Str) (fuel seed n : Nat) (hn : 1 ≤ n) :
    honeyLoop word fuel seed (some (n : Int)) = (wordsFrom word seed fuel).take n := by
  induction fuel generalizing seed n with
  | zero => simp [honeyLoop, wordsFrom]
  | succ fuel ih =>
    rw [wordsFrom_succ]
    unfold honeyLoop
    have hs : Generated.Expand.honeySeedStep = 1 := rfl
    have hh : ∀ l : Int, Generated.Expand.honeyHit l = decide (l ≤ 0) := by
      intro l; simp [Generated.Expand.honeyHit, CmpOp.int]
    cases hw : word seed with
    | none =>
      simp only [limTruthy_pos n hn, if_true, Option.getD_some, hh, hs, List.nil_append]
      have : ¬ ((n : Int) ≤ 0) := by omega
      simp only [decide_eq_false this, Bool.false_eq_true, if_false]
      exact ih (seed + 1) n hn
    | some w =>
      simp only [limTruthy_pos n hn, if_true, Option.getD_some, hh, hs]
      by_cases h1 : n = 1
      · subst h1
        simp
      · have hd : ¬ (((n : Int) - 1) ≤ 0) := by omega
        have hc : ((n : Int) - 1) = ((n - 1 : Nat) : Int) := by omega
        simp only [hc] at hd ⊢
        simp only [decide_eq_false hd, Bool.false_eq_true, if_false]
        rw [ih (seed + 1) (n - 1) (by omega)]
        cases n with
        | zero => omega
        | succ m =>
          have : m + 1 - 1 = m := by omega
          rw [this]
          simp

/-- non-vacuity: weights 1,2,1 and draw 3 select index 1 (running sums 1,3,4) -/
example : pick ⟨0, (· + ·), fun a b => decide (a ≥ b)⟩ [1, 2, 1] (3 : Int) = some 1 := by decide


def intOps : SOps Int := ⟨0, (· + ·), fun a b => decide (a ≥ b)⟩

theorem foldl_add_int (l : List Nat) (c : Int) :
    (l.map (fun n : Nat => (n : Int))).foldl (· + ·) c = c + (l.sum : Nat) := by
  induction l generalizing c with
  | nil => simp
  | cons a l ih => simp only [List.map_cons, List.foldl_cons, List.sum_cons]; rw [ih]; omega

theorem runSum_int (ws : List Nat) (k : Nat) :
    runSum intOps (ws.map (fun n : Nat => (n : Int))) k = ((ws.take k).sum : Nat) := by
  unfold runSum intOps
  simp only
  rw [← List.map_take, foldl_add_int]; simp

theorem sum_take_mono (ws : List Nat) {a b : Nat} (h : a ≤ b) : (ws.take a).sum ≤ (ws.take b).sum := by
  induction ws generalizing a b with
  | nil => simp
  | cons w ws ih =>
    cases a with
    | zero => simp
    | succ a =>
      cases b with
      | zero => omega
      | succ b => simp only [List.take_succ_cons, List.sum_cons]; have := ih (a := a) (b := b) (by omega); omega

theorem sum_take_le (ws : List Nat) (a : Nat) : (ws.take a).sum ≤ ws.sum := by
  have h := congrArg List.sum (List.take_append_drop a ws)
  rw [List.sum_append] at h
  omega

/-- number of grid points in a half-open interval -/
theorem count_range (T a b : Nat) (hab : a ≤ b) (hb : b ≤ T) :
    ((List.range T).filter (fun k => decide (a ≤ k ∧ k < b))).length = b - a := by
  induction T generalizing b with
  | zero => simp; omega
  | succ T ih =>
    rw [List.range_succ, List.filter_append, List.length_append]
    by_cases hbT : b ≤ T
    · rw [ih b hab hbT]
      have : ¬ (a ≤ T ∧ T < b) := by omega
      simp [this]
    · have hbe : b = T + 1 := by omega
      subst hbe
      by_cases haT : a ≤ T
      · have h1 : ((List.range T).filter (fun k => decide (a ≤ k ∧ k < T + 1))) =
            ((List.range T).filter (fun k => decide (a ≤ k ∧ k < T))) := by
          apply List.filter_congr
          intro k hk
          have := List.mem_range.mp hk
          simp only [decide_eq_decide]; omega
        rw [h1, ih T haT (Nat.le_refl T)]
        simp [haT]; omega
      · have ha : a = T + 1 := by omega
        subst ha
        have : ∀ k ∈ List.range T, ¬ (T + 1 ≤ k ∧ k < T + 1) := by intro k _; omega
        simp [List.filter_eq_nil_iff]

/-- **the step that was on paper, as a theorem about counting measure.**  Weights are integer counts
`ws` (probabilities over the common denominator `T = Σ ws`, which is how the trainer produces them);
let the draw run over the `T` equally spaced points `1/T, 2/T, …, 1` of the unit interval (scaled by `T`).
Exactly `ws[j]` of these `T` draws select index `j`: under a uniform draw index `j` is chosen with
probability exactly `ws[j] / T`.  Replacing `ws` by `ws.map (M * ·)` gives the same on every finer grid. -/
theorem C16_uniform_count (ws : List Nat) (j : Nat) (hj : j < ws.length) :
    ((List.range ws.sum).filter
        (fun k : Nat => pick intOps (ws.map (fun n : Nat => (n : Int))) ((k : Int) + 1) == some j)).length = ws[j] := by
  have hpred : ∀ k : Nat, (pick intOps (ws.map (fun n : Nat => (n : Int))) ((k : Int) + 1) == some j)
      = decide ((ws.take j).sum ≤ k ∧ k < (ws.take (j + 1)).sum) := by
    intro k
    rw [Bool.eq_iff_iff]
    simp only [beq_iff_eq, decide_eq_true_eq]
    rw [C16_pick]
    simp only [List.length_map, runSum_int]
    simp only [intOps, decide_eq_true_eq, decide_eq_false_iff_not]
    constructor
    · rintro ⟨_, h1, h2⟩
      refine ⟨?_, by omega⟩
      cases j with
      | zero => simp
      | succ j => have := h2 j (by omega); omega
    · rintro ⟨h1, h2⟩
      refine ⟨hj, by omega, ?_⟩
      intro m hm
      have := sum_take_mono ws (a := m + 1) (b := j) (by omega)
      omega
  simp only [hpred]
  rw [count_range _ _ _ (sum_take_mono ws (by omega)) (sum_take_le ws _)]
  rw [List.take_succ_eq_append_getElem hj, List.sum_append]
  simp

/-- non-vacuity / illustration: counts 1, 2, 1 → of the four draws 1/4 … 4/4 exactly two select index 1 -/
example : ((List.range 4).filter (fun k : Nat => pick intOps [1, 2, 1] ((k : Int) + 1) == some 1)).length = 2 := by
  decide

/-- the ruleset the words are drawn from is the one named on the command line: the option parser assigns `args.rule` unchanged
(regenerated from the source; the only other assignment is `load_save` restoring a saved session) -/
theorem C16_rule_name_is_the_typed_name :
    Generated.CliOptions.guesserAssign.filter (fun a => a.2.1 == "rule_name") =
      [("parse_command_line", "rule_name", "args.rule"),
       ("load_save", "rule_name", "save_config.get('rule_info', 'rule_name')")] := by
  decide

/-- **nothing outlives a call except the objects a caller holds** (regenerated from the four library packages): no module-level or
class-level container that changes, no cache decorator or cache call, no computed default argument and no `global` statement anywhere in
`lib_guesser`, `lib_trainer`, `lib_scorer`, `lib_princeling` - an answer cannot depend on what another object, an earlier ruleset in the
same process or the other thread did -/
theorem C16_no_process_wide_state : Generated.ProcessState.processWideState = [] := by
  decide

end Pcfg.C16
