import PcfgVerif.Model.Sampler
import PcfgVerif.Lemmas.ExpandLemmas
/-!
# C16 — honeywords are drawn from the grammar with the grammar's probabilities

The uniform draws are universally quantified inputs of the model, so the statements hold for every
value of the draws (the whole unit interval), not for a sample.
-/
namespace Pcfg.C16
variable {Q : Type}

theorem pickGo_spec (S : SOps Q) (u : Q) (ws : List Q) (cur : Q) (i j : Nat) :
    pickGo S u ws cur i = some j ↔
      ∃ k, j = i + k ∧ k < ws.length ∧ S.ge ((ws.take (k + 1)).foldl S.add cur) u = true ∧
        ∀ m, m < k → S.ge ((ws.take (m + 1)).foldl S.add cur) u = false := by
  induction ws generalizing cur i with
  | nil => simp [pickGo]
  | cons w ws ih =>
    simp only [pickGo]
    by_cases h : S.ge (S.add cur w) u = true
    · simp only [h, if_true, Option.some.injEq]
      constructor
      · intro e
        refine ⟨0, by omega, by simp, by simpa using h, by intro m hm; omega⟩
      · rintro ⟨k, hj, _, hk, hall⟩
        cases k with
        | zero => omega
        | succ k =>
          have := hall 0 (by omega)
          simp at this
          rw [this] at h
          cases h
    · have h' : S.ge (S.add cur w) u = false := by simpa using h
      simp only [h', Bool.false_eq_true, if_false]
      rw [ih]
      constructor
      · rintro ⟨k, hj, hk, hge, hall⟩
        refine ⟨k + 1, by omega, by simp; omega, by simpa using hge, ?_⟩
        intro m hm
        cases m with
        | zero => simpa using h'
        | succ m => simpa using hall m (by omega)
      · rintro ⟨k, hj, hk, hge, hall⟩
        cases k with
        | zero => simp at hge; rw [hge] at h'; cases h'
        | succ k =>
          refine ⟨k, by omega, by simp at hk; omega, by simpa using hge, ?_⟩
          intro m hm
          simpa using hall (m + 1) (by omega)

/-- the selected index is the first whose running sum reaches the draw: for every draw `u`,
index `j` is selected iff `S_j ≥ u` and `S_m < u` for all `m < j` — i.e. iff `u` lies in the interval
`(S_{j-1}, S_j]` (closed at 0 for `j = 0`) -/
theorem C16_pick (S : SOps Q) (ws : List Q) (u : Q) (j : Nat) :
    pick S ws u = some j ↔
      j < ws.length ∧ S.ge (runSum S ws (j + 1)) u = true ∧ ∀ m, m < j → S.ge (runSum S ws (m + 1)) u = false := by
  unfold pick runSum
  rw [pickGo_spec]
  constructor
  · rintro ⟨k, hj, hk, h1, h2⟩
    have : j = k := by omega
    subst this
    exact ⟨hk, h1, h2⟩
  · rintro ⟨hk, h1, h2⟩
    exact ⟨j, by omega, hk, h1, h2⟩

/-- the interval of index `j` has length `w_j` (stated over the integers: probabilities scaled to a
common denominator) -/
theorem C16_interval_length (ws : List Int) (j : Nat) (hj : j < ws.length) :
    runSum ⟨0, (· + ·), fun a b => decide (a ≥ b)⟩ ws (j + 1) -
      runSum ⟨0, (· + ·), fun a b => decide (a ≥ b)⟩ ws j = ws[j] := by
  unfold runSum
  simp only
  rw [List.take_succ_eq_append_getElem hj, List.foldl_append]
  simp only [List.foldl_cons, List.foldl_nil]
  omega

/-- every honeyword is a word of the non-Markov language: it is one of the guesses of the
pre-terminal the walk selected -/
theorem C16_member (upper : Char → List Char) (g : EGrammar) (cur : Str) (pt : PT) (ks : List Nat)
    (w : Str) (h : honeyWord upper g cur pt ks = some w) : w ∈ productSpec upper g cur pt := by
  induction pt generalizing cur ks with
  | nil => simp [honeyWord] at h; simp [productSpec, h]
  | cons hd rest ih =>
    obtain ⟨t, i⟩ := hd
    unfold honeyWord at h
    unfold productSpec
    cases hcat : t.toList.head? with
    | none => simp [hcat] at h
    | some cat =>
      cases hvals : g.values t i with
      | none => simp [hcat, hvals] at h
      | some vals =>
        cases ks with
        | nil => simp [hcat, hvals] at h
        | cons k ks' =>
          simp only [hcat, hvals] at h ⊢
          by_cases hm : Generated.Expand.isMarkov cat = true
          · simp [hm] at h
          · simp only [hm, Bool.false_eq_true, if_false] at h
            cases hv : vals[k]? with
            | none => simp [hv] at h
            | some v =>
              simp only [hv] at h
              cases hc : combine upper cat (vals.headD []) cur v with
              | none => rw [hc] at h; exact absurd h (by simp)
              | some cur' =>
                rw [hc] at h
                rw [List.mem_flatMap]
                exact ⟨v, List.mem_of_getElem? hv, by simp only [hc]; exact ih cur' ks' h⟩

/-- a Markov structure yields no word -/
theorem C16_markov_no_word (upper : Char → List Char) (g : EGrammar) (cur : Str) (i : Nat) (rest : PT)
    (ks : List Nat) : honeyWord upper g cur (("M", i) :: rest) ks = none := by
  unfold honeyWord
  have hM : ("M" : String).toList.head? = some 'M' := rfl
  simp only [hM]
  cases g.values "M" i <;> cases ks <;> simp [Generated.Expand.isMarkov, CmpOp.chr]

/-- words of the first `fuel` walks, in seed order -/
def wordsFrom (word : Nat → Option Str) (seed fuel : Nat) : List Str :=
  (List.range fuel).filterMap fun i => word (seed + i)

theorem wordsFrom_succ (word : Nat → Option Str) (seed fuel : Nat) :
    wordsFrom word seed (fuel + 1) =
      (match word seed with | some w => [w] | none => []) ++ wordsFrom word (seed + 1) fuel := by
  unfold wordsFrom
  rw [List.range_succ_eq_map, List.filterMap_cons]
  simp only [Nat.add_zero, List.filterMap_map]
  cases word seed <;> simp [Function.comp_def, Nat.add_assoc, Nat.add_comm 1]

/-- C16 (count): with `--limit n` the run writes exactly the words of the first non-Markov walks until
`n` words are out — never more than `n`, and exactly `n` as soon as `n` walks produced a word -/
theorem C16_count (word : Nat → Option Str) (fuel seed n : Nat) (hn : 1 ≤ n) :
    honeyLoop word fuel seed (some (n : Int)) = (wordsFrom word seed fuel).take n := by
  induction fuel generalizing seed n with
  | zero => simp [honeyLoop, wordsFrom]
  | succ fuel ih =>
    rw [wordsFrom_succ]
    unfold honeyLoop
    have hs : Generated.Expand.honeySeedStep = 1 := rfl
    have hh : ∀ l : Int, Generated.Expand.honeyHit l = decide (l ≤ 0) := by
      intro l; simp [Generated.Expand.honeyHit, CmpOp.int]
    cases hw : word seed with
    | none =>
      simp only [limTruthy_pos n hn, if_true, Option.getD_some, hh, hs, List.nil_append]
      have : ¬ ((n : Int) ≤ 0) := by omega
      simp only [decide_eq_false this, Bool.false_eq_true, if_false]
      exact ih (seed + 1) n hn
    | some w =>
      simp only [limTruthy_pos n hn, if_true, Option.getD_some, hh, hs]
      by_cases h1 : n = 1
      · subst h1
        simp
      · have hd : ¬ (((n : Int) - 1) ≤ 0) := by omega
        have hc : ((n : Int) - 1) = ((n - 1 : Nat) : Int) := by omega
        simp only [hc] at hd ⊢
        simp only [decide_eq_false hd, Bool.false_eq_true, if_false]
        rw [ih (seed + 1) (n - 1) (by omega)]
        cases n with
        | zero => omega
        | succ m =>
          have : m + 1 - 1 = m := by omega
          rw [this]
          simp

/-- non-vacuity: weights 1,2,1 and draw 3 select index 1 (running sums 1,3,4) -/
example : pick ⟨0, (· + ·), fun a b => decide (a ≥ b)⟩ [1, 2, 1] (3 : Int) = some 1 := by decide

end Pcfg.C16
