import PcfgVerif.Lemmas.OmenCursor
/-!
# OMEN core (property C10): the enumerator walks the specification list

Proofs live in `PcfgVerif/Lemmas/Omen*.lean`.

Correction with respect to the first draft of these statements: `fill_eq_head`, `nextTree_succ` and
`enumAll_eq_allTrees` need the hypothesis `hne` that no (prefix, level) entry has an empty character
list (`Tables.WF.cp_levels` provides it).  Without it they are false: `_fill_out_parse_tree` of length 1
returns index 0 of a level without looking at the character list.  Counterexamples are checked below.
-/
namespace Omen

/-- the first tree `_fill_out_parse_tree` finds is the first tree of the specification list -/
theorem fill_eq_head (m : Model) (hne : ∀ e ∈ m.cp, ∀ p ∈ e.2, p.2 ≠ [])
    (len : Nat) (ip : Str) (target : Nat) :
    m.fill len ip target = (m.allTrees len ip target).head? :=
  fill_head m hne len ip target

/-- `GuessStructure.next_guess` walks the specification list: from the i-th tree it produces the
(i+1)-th, and `none` after the last (`hcp` is not needed by the proof) -/
theorem nextTree_succ (m : Model) (_hcp : ∀ e ∈ m.cp, ∀ p ∈ e.2, p.1 ≤ m.maxLevel)
    (hne : ∀ e ∈ m.cp, ∀ p ∈ e.2, p.2 ≠ [])
    (len : Nat) (ip : Str) (target : Nat) (i : Nat)
    (t : List Item) (ht : (m.allTrees len ip target)[i]? = some t) :
    m.nextTree t = (m.allTrees len ip target)[i + 1]? :=
  nextTree_index m hne len ip target i t ht

/-- hence iterating from `fill` enumerates exactly the specification list -/
theorem enumAll_eq_allTrees (m : Model) (_hcp : ∀ e ∈ m.cp, ∀ p ∈ e.2, p.1 ≤ m.maxLevel)
    (hne : ∀ e ∈ m.cp, ∀ p ∈ e.2, p.2 ≠ [])
    (len : Nat) (ip : Str) (target : Nat) (fuel : Nat)
    (hf : (m.allTrees len ip target).length < fuel) :
    m.enumFrom fuel (m.fill len ip target) = m.allTrees len ip target :=
  enumFrom_fill m hne len ip target fuel hf

/-- the strings of the specification list are exactly the strings whose transition cost from `ip`
with `len` more characters is `target`, each once (`hip` is not needed by the proof) -/
theorem allTrees_strings (t : Tables) (ipLen : Nat) (hwf : t.WF ipLen) (len : Nat) (ip : Str)
    (_hip : ip.length = ipLen) (target : Nat) :
    ((t.m.allTrees len ip target).map fun tr => tr.filterMap t.m.charAt).Nodup ∧
    ∀ body : List Char, body ∈ ((t.m.allTrees len ip target).map fun tr => tr.filterMap t.m.charAt) ↔
      (body.length = len ∧ 0 < len ∧ t.m.transCost ip body = some target) :=
  allTrees_strings_core t ipLen hwf len ip target

/-- C10: started from the beginning, the generator emits exactly the strings of level `target`,
each once, and then reports exhaustion (the list no longer grows with more fuel)
(`hpos` is not needed by the proof) -/
theorem level_exact (t : Tables) (ipLen : Nat) (hpos : 0 < ipLen) (hwf : t.WF ipLen) (target : Nat)
    (s0 : CState) (hs : t.start = some s0) :
    ∃ N, (∀ fuel, N ≤ fuel → t.enumFrom target fuel s0 = t.enumFrom target N s0) ∧
      (t.enumFrom target N s0).Nodup ∧
      ∀ s : Str, s ∈ t.enumFrom target N s0 ↔ t.levelOf ipLen s = some target :=
  level_exact_core t ipLen hpos hwf target s0 hs

/-! ## Why `hne` is needed: counterexamples to the statements without it -/
section Counterexamples

/-- a level with an empty character list -/
def cex1 : Model := { cp := [(['a'], [(0, [])])] }

example : ∀ e ∈ cex1.cp, ∀ p ∈ e.2, p.1 ≤ cex1.maxLevel := by decide

example : cex1.fill 1 ['a'] 0 ≠ (cex1.allTrees 1 ['a'] 0).head? := by decide

example : (cex1.allTrees 1 ['a'] 0).length < 5 ∧
    cex1.enumFrom 5 (cex1.fill 1 ['a'] 0) ≠ cex1.allTrees 1 ['a'] 0 := by decide

def cex2 : Model := { cp := [(['a'], [(1, ['b', 'a']), (0, [])]), (['b'], [(0, ['a'])])] }

example : ∀ e ∈ cex2.cp, ∀ p ∈ e.2, p.1 ≤ cex2.maxLevel := by decide

example : (cex2.allTrees 2 ['a'] 1)[0]? = some [⟨['a'], 1, 0⟩, ⟨['b'], 0, 0⟩] ∧
    cex2.nextTree [⟨['a'], 1, 0⟩, ⟨['b'], 0, 0⟩] ≠ (cex2.allTrees 2 ['a'] 1)[0 + 1]? := by decide

end Counterexamples

/-! ## Non-vacuity: a well-formed rule set on which the hypotheses of `level_exact` hold -/
section NonVacuity

/-- bigram rule set: prefixes `a`, `b`; lengths 1 and 2 -/
def exT : Tables :=
  { m := { maxLevel := 2, cp := [(['a'], [(0, ['a']), (1, ['b'])]), (['b'], [(1, ['a'])])] }
    ipTbl := [[['a']], [['b']], []]
    lnTbl := [[1], [2], []] }

theorem exT_wf : exT.WF 1 := by
  constructor <;> decide

theorem exT_start : exT.start = some ⟨⟨0, 0, 0, 0⟩, []⟩ := rfl

example : exT.enumLevel 1 10 = some [['a', 'b'], ['a', 'a', 'a']] := by decide
example : exT.levelOf 1 ['a', 'b'] = some 1 ∧ exT.levelOf 1 ['a', 'a', 'a'] = some 1 := by decide
example : exT.enumLevel 3 20 = some [['a', 'b', 'a'], ['b', 'a', 'a']] := by decide

/-- `level_exact` instantiated -/
example (target : Nat) :
    ∃ N, (∀ fuel, N ≤ fuel → exT.enumFrom target fuel ⟨⟨0, 0, 0, 0⟩, []⟩ =
        exT.enumFrom target N ⟨⟨0, 0, 0, 0⟩, []⟩) ∧
      (exT.enumFrom target N ⟨⟨0, 0, 0, 0⟩, []⟩).Nodup ∧
      ∀ s : Str, s ∈ exT.enumFrom target N ⟨⟨0, 0, 0, 0⟩, []⟩ ↔ exT.levelOf 1 s = some target :=
  level_exact exT 1 (by decide) exT_wf target _ exT_start

end NonVacuity

end Omen
