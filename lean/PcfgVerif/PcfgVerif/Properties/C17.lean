import PcfgVerif.Properties.ExpandCore
import PcfgVerif.Lemmas.TrainedPrince
import PcfgVerif.Properties.ProbsCore
import PcfgVerif.Generated.CliOptions
import PcfgVerif.Properties.PQCore
import PcfgVerif.Lemmas.SoftFloatLemmas
import PcfgVerif.Generated.PrintSites
/-!
# C17 — PRINCE-LING emits the ruleset's words most-probable-first, up to the size asked

PRINCE-LING runs the same `PcfgQueue` and the same `create_guesses` over the ruleset's `Prince`
grammar (one variable per structure, `C<n>` inserted after `A<n>` by the loader), so order and
exactly-once are C01/C02 applied to that grid, and each word list is `C04`'s product.  What is
specific is the `--size` loop of `create_prince_wordlist`, modelled here.
-/
namespace Pcfg

/-- `create_prince_wordlist(pcfg, max_size)` over the sequence of popped pre-terminals -/
def princeLoop (gen : PT → Option Int → ERes) : List PT → Option Nat → Nat → List Str
  | [], _, _ => []
  | pt :: rest, none, num =>
    let r := gen pt none
    r.out ++ princeLoop gen rest none (num + r.count)
  | pt :: rest, some mx, num =>
    if Generated.Expand.princeGoOn num mx then
      let r := gen pt (some ((mx : Int) - (num : Int)))
      r.out ++ princeLoop gen rest (some mx) (num + r.count)
    else []

namespace C17

theorem princeLoop_none_num (gen : PT → Option Int → ERes) (pts : List PT) (a b : Nat) :
    princeLoop gen pts none a = princeLoop gen pts none b := by
  induction pts generalizing a b with
  | nil => simp [princeLoop]
  | cons pt rest ih =>
    simp only [princeLoop]
    rw [ih (a + (gen pt none).count) (b + (gen pt none).count)]

theorem princeGoOn_eq (a b : Nat) : Generated.Expand.princeGoOn a b = decide (a < b) := by
  simp [Generated.Expand.princeGoOn, CmpOp.nat]

/-- with `--size mx` and `num` words already written, the loop writes the first `mx − num` words of
what the unbounded loop would write from here -/
theorem princeLoop_size (gen : PT → Option Int → ERes) (hgen : ExactLimit gen)
    (pts : List PT) (mx num : Nat) (h : num ≤ mx) :
    princeLoop gen pts (some mx) num = (princeLoop gen pts none num).take (mx - num) := by
  induction pts generalizing num with
  | nil => simp [princeLoop]
  | cons pt rest ih =>
    simp only [princeLoop, princeGoOn_eq]
    by_cases hlt : num < mx
    · have hn : 1 ≤ mx - num := by omega
      have hcast : ((mx : Int) - (num : Int)) = ((mx - num : Nat) : Int) := by omega
      have hpt := (hgen pt).2 (mx - num) hn
      have hcnt := (hgen pt).1
      simp only [hlt, decide_true, if_true, hcast, hpt]
      by_cases hk : mx - num ≤ (gen pt none).out.length
      · have hmin : min (mx - num) (gen pt none).out.length = mx - num := Nat.min_eq_left hk
        rw [hmin]
        have hfull : num + (mx - num) = mx := by omega
        rw [hfull, ih mx (Nat.le_refl _)]
        simp [List.take_append, Nat.sub_eq_zero_of_le hk]
      · have hmin : min (mx - num) (gen pt none).out.length = (gen pt none).out.length :=
          Nat.min_eq_right (by omega)
        rw [hmin, ih (num + (gen pt none).out.length) (by omega)]
        rw [princeLoop_none_num gen rest (num + (gen pt none).out.length) (num + (gen pt none).count)]
        rw [List.take_append, List.take_of_length_le (by omega)]
        congr 2
        omega
    · have : num = mx := by omega
      subst this
      simp
  
/-- C17 (`--size N`): at most `N` words, namely the first `N` of the unbounded list -/
theorem C17_size (gen : PT → Option Int → ERes) (hgen : ExactLimit gen) (pts : List PT) (n : Nat) :
    princeLoop gen pts (some n) 0 = (princeLoop gen pts none 0).take n ∧
    (princeLoop gen pts (some n) 0).length ≤ n := by
  have h := princeLoop_size gen hgen pts n 0 (Nat.zero_le _)
  simp only [Nat.sub_zero] at h
  exact ⟨h, by rw [h, List.length_take]; exact Nat.min_le_left _ _⟩

/-- the unbounded list is the concatenation of the word lists of the popped pre-terminals -/
theorem C17_unbounded (gen : PT → Option Int → ERes) (pts : List PT) (num : Nat) :
    princeLoop gen pts none num = pts.flatMap fun pt => (gen pt none).out := by
  induction pts generalizing num with
  | nil => rfl
  | cons pt rest ih => simp [princeLoop, ih]

variable {P : Type} [Inhabited P]

/-- most-probable-first, for the PRINCE grid like for any other (C01) -/
theorem C17_order (A : PAlg P) (g : Grid P) (hwf : WF A.toPOps g) (s : PQState)
    (h : Reach A.toPOps g (initNodes g) s) : NonIncreasing A.toPOps g s.popped :=
  pq_order A g hwf s h

/-- each (type, group[, mask group]) combination once (C02) -/
theorem C17_each_once (A : PAlg P) (g : Grid P) (hwf : WF A.toPOps g) (s : PQState)
    (h : Reach A.toPOps g (initNodes g) s) (hq : s.queue = []) : s.popped.Perm (allNodes g) :=
  (pq_exactly_once A g hwf s h).2.2 hq

/-- **binary64 instance** of order and exactly-once for the PRINCE grid (see `C01_order_binary64`) -/
theorem C17_binary64 (g : Grid Nat) (hwf : WF sfAlg.toPOps g) (s : PQState)
    (h : Reach sfAlg.toPOps g (initNodes g) s) :
    NonIncreasing sfAlg.toPOps g s.popped ∧ (s.queue = [] → s.popped.Perm (allNodes g)) :=
  ⟨C17_order sfAlg g hwf s h, C17_each_once sfAlg g hwf s h⟩

/-- stdout of `prince_ling.py`: the only call site that can write there is `print_guess` -/
theorem C17_only_print_guess_writes_stdout :
    Generated.PrintSites.princeNonStderr =
      [("lib_guesser/pcfg_grammar.py", "PcfgGrammar.print_guess", "stdout")] := by decide

/-- the option glue of `prince_ling.py` (regenerated from the source): ruleset name, output file, `--size` (an `int`) and
`--all_lower` reach the program as typed -/
theorem C17_cli_passes_options :
    Generated.CliOptions.princeAssign =
      [("parse_command_line", "rule_name", "args.rule"),
       ("parse_command_line", "output_file", "args.output"),
       ("parse_command_line", "max_size", "args.size"),
       ("parse_command_line", "skip_case", "args.skip_case")] ∧
    ("--size", "program_info['max_size']", "int", "'store'", "None", "None") ∈ Generated.CliOptions.princeOptions ∧
    ("--all_lower", "program_info['skip_case']", "None", "'store_const'", "not program_info['skip_case']", "'skip_case'") ∈
      Generated.CliOptions.princeOptions := by
  decide

/-- **the PRINCE grammar of a trained ruleset** (`Prince/grammar.txt` is `calculate_probabilities` of the trainer's PRINCE counter):
the count filed under a label is the number of sections carrying it over the parses of all passwords of the list - one per section -
and every label is written once with count / total, most frequent first.  With `C17_order` / `C17_each_once` on that grid:
PRINCE-LING emits the words of the labels the training list actually produced, weighted by how often it produced them. -/
theorem C17_trained_prince_grammar (U : Detect.UEnv) (cfg : Detect.MWCfg) (pws : List CPs) (l : String) :
    Trainer.sget (Trainer.train U cfg pws).prince l =
      (pws.map fun pw => (Detect.parse U cfg (Trainer.pass1 U cfg pws) pw).labels.countP (· == l)).sum ∧
    ∀ (items : List (String × Rat)) (v : String) (p : Rat),
      (v, p) ∈ calcProbs ratOps items ↔ ∃ c, (v, c) ∈ items ∧ p = ratOps.div c (totalCount ratOps items) :=
  ⟨Trainer.train_prince U cfg pws l, fun items v p => calcProbs_mem ratOps items v p⟩

/-- **every tool works on the same `Rules` folder** (regenerated from the five programs): the trainer, the guesser, `edit_rules.py`,
`prince_ling.py` and the scorer each build the ruleset directory from one and the same expression for their own location - so a ruleset
one tool wrote or edited under a name is the ruleset another tool reads under that name, from whatever directory or through whatever link
either was started -/
theorem C17_tools_share_the_rules_folder :
    (["trainer.py", "pcfg_guesser.py", "edit_rules.py", "prince_ling.py", "password_scorer.py"].all
      fun p => Generated.CliOptions.rulesDirRoots.any (·.1 == p)) = true ∧
    ∀ a ∈ Generated.CliOptions.rulesDirRoots, ∀ b ∈ Generated.CliOptions.rulesDirRoots, a.2 = b.2 := by
  decide

end C17
end Pcfg
