import PcfgVerif.Properties.ScoreCoreB
/-!
# C13 — the point the domain clause excludes (recorded known finding)

`CaseInvAll` is not a technicality: for a letter that is neither upper nor lower case and whose
lower-casing differs from it — the title-case digraph U+01C5 `ǅ`, lower-cased U+01C6 `ǆ` — the trainer
records the mask letter `L`, stores the lower-cased word, and the scorer, which repeats the trainer's
parse, finds every factor in the ruleset.  The score is non-zero, yet the guesser's only pre-terminal of
that probability emits `ǆabc1`, not `ǅabc1`.  The harness replays the same strings on the real trainer,
scorer and guesser.
-/
namespace Pcfg.C13Witness
open Pcfg Pcfg.Detect Pcfg.ScoreB.Ex

attribute [local instance] decParsed

/-- CPython's view of the characters involved: U+01C5 is a letter, not upper case, and lower-cases to U+01C6 -/
def titleU : UEnv where
  isAlpha c := c == 453 || c == 454 || (decide (97 ≤ c) && decide (c ≤ 122)) || (decide (65 ≤ c) && decide (c ≤ 90))
  isDigit c := decide (48 ≤ c) && decide (c ≤ 57)
  isUpper c := decide (65 ≤ c) && decide (c ≤ 90)
  lowerS s := s.map fun c => if c = 453 then 454 else if 65 ≤ c ∧ c ≤ 90 then c + 32 else c
  lowerPy s := s.map fun c => if c = 453 then 454 else if 65 ≤ c ∧ c ≤ 90 then c + 32 else c

/-- `ǅabc1` -/
def pw : CPs := [453, 97, 98, 99, 49]

/-- the ruleset a training on `ǆabc1` / `ǅabc1` leaves: the word is stored lower-cased, the mask is `LLLL` -/
def g : ScoreG Nat :=
  [("A4", [([454, 97, 98, 99], 2)]), ("C4", [([76, 76, 76, 76], 3)]), ("D1", [([49], 5)]),
   ("B", [(cpsOfString "A4D1", 7)])]

def E : EGrammar := [("A4", [[[Char.ofNat 454, 'a', 'b', 'c']]]), ("C4", [[['L', 'L', 'L', 'L']]]), ("D1", [[['1']]])]

def up (c : Char) : List Char := if c = Char.ofNat 454 then [Char.ofNat 452] else [c.toUpper]

theorem parse_pw : parse titleU {} [] pw =
    { sections := [([453, 97, 98, 99], some "A4"), ([49], some "D1")], walks := [], emails := [], websites := [],
      years := [], contexts := [], alphas := [[454, 97, 98, 99]], masks := [[76, 76, 76, 76]], digits := [[49]],
      others := [], supported := true, structure' := "A4D1" } := by decide +kernel

/-- the scorer's answer is not zero … -/
theorem score_nonzero (gt : Nat → Nat → Bool) (limit : Nat) (omenOk : Bool) :
    (score (· * ·) gt 1 0 limit g (parse titleU {} [] pw) omenOk).prob = 210 := by
  rw [parse_pw]
  rfl

/-- … but the pre-terminal those factors belong to emits the lower-cased string only -/
theorem guesser_emits_other :
    productSpec up E [] [("A4", 0), ("C4", 0), ("D1", 0)] = [[Char.ofNat 454, 'a', 'b', 'c', '1']] ∧
    toStr pw ∉ productSpec up E [] [("A4", 0), ("C4", 0), ("D1", 0)] := by
  decide

/-- and the domain clause is exactly what fails -/
theorem not_caseInv : ¬ CaseInvAll titleU up pw := by
  intro h
  have := h 0 5 0 453 454 (by decide) (by decide)
  revert this
  decide

end Pcfg.C13Witness
