import PcfgVerif.Model.Loader
import PcfgVerif.Model.CheckValid
/-!
# C07 — a saved ruleset means the same thing to every tool that loads it
(round-trip theorems `loadFromFile_writeFile` / `scorerLoad_writeFile` are added when proved)
-/
namespace Pcfg.C07

/-- every line boundary of `str.splitlines` and the TAB are rejected by `check_valid`
(the table is generated from its source; the boundary list is validated against the interpreter) -/
theorem C07_separators_rejected :
    (∀ c ∈ pyLineSeps, Generated.CheckValid.rejected.contains c = true) ∧
    Generated.CheckValid.rejected.contains 0x09 = true ∧ Generated.CheckValid.rejectEmpty = true := by
  decide

end Pcfg.C07
