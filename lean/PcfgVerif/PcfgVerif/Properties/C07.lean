import PcfgVerif.Properties.LoaderCore
/-!
# C07 — a saved ruleset means the same thing to every tool that loads it

`writeFile` is the trainer's writer (`value<TAB>str(prob)<NL>` per item); `loadFromFile` the guesser's
loader, `scorerLoad` the scorer's.  The table of code points `check_valid` rejects is generated from
its source; the table of line boundaries (`pyLineSeps`) and of whitespace (`pySpaces`) is compared
with the running interpreter over all code points on every run.  Codec internals are runtime.
-/
namespace Pcfg.C07
variable {P : Type}

/-- every line boundary of `str.splitlines` and the TAB are rejected by `check_valid` -/
theorem C07_separators_rejected :
    (∀ c ∈ pyLineSeps, Generated.CheckValid.rejected.contains c = true) ∧
    Generated.CheckValid.rejected.contains 0x09 = true ∧ Generated.CheckValid.rejectEmpty = true := by
  decide

/-- no password accepted for training can put a value on disk that the line-oriented format cannot
return unchanged: an accepted password is non-empty and free of line boundaries and TABs (and so is
every substring of it) -/
theorem C07_accepted_is_clean (v : CPs) (h : checkValid v = true) (hs : ∀ c ∈ v, isSurrogate c = false) :
    CleanValue v ∧ v ≠ [] :=
  checkValid_clean v h hs

/-- the guesser's loader reads back every written value, in order, each in a group carrying the
probability written next to it; groups are the maximal runs of equal probability; the error-recovery
branch is never taken (leading / trailing spaces of a value survive: `rstrip` only ever removes
characters after the probability field) -/
theorem C07_guesser_roundtrip (parseP : CPs → Option P) (eqv : P → P → Bool) (neg1 : P)
    (heq_refl : ∀ a, eqv a a = true)
    (heq_symm : ∀ a b, eqv a b = true → eqv b a = true)
    (heq_trans : ∀ a b c, eqv a b = true → eqv b c = true → eqv a c = true)
    (items : List (CPs × CPs))
    (hc : ∀ it ∈ items, CleanValue it.1 ∧ CleanProb it.2)
    (hp : ∀ it ∈ items, ∃ p, parseP it.2 = some p ∧ eqv p neg1 = false) :
    ∃ gs, loadFromFile parseP eqv neg1 (writeFile items) = some gs ∧
      gs.flatMap (·.values) = items.map (·.1) ∧
      (∀ g ∈ gs, g.values ≠ []) ∧
      (∀ (i : Nat) (a : CPs × P) (it : CPs × CPs),
        (gs.flatMap fun g => g.values.map fun v => (v, g.prob))[i]? = some a → items[i]? = some it →
          a.1 = it.1 ∧ ∃ p, parseP it.2 = some p ∧ eqv p a.2 = true) ∧
      (∀ (i : Nat), ∀ g1 g2, gs[i]? = some g1 → gs[i + 1]? = some g2 → eqv g2.prob g1.prob = false) :=
  loadFromFile_writeFile parseP eqv neg1 heq_refl heq_symm heq_trans items hc hp

/-- the scorer's loader reads back exactly the written (value, probability) pairs -/
theorem C07_scorer_roundtrip (parseP : CPs → Option P) (items : List (CPs × CPs))
    (hc : ∀ it ∈ items, CleanValue it.1 ∧ CleanProb it.2)
    (hp : ∀ it ∈ items, (parseP it.2).isSome) :
    scorerLoad parseP (writeFile items) =
      some (items.filterMap fun it => (parseP it.2).map fun p => (it.1, p)) :=
  scorerLoad_writeFile parseP items hc hp

/-- the reader's view of a written file is the written lines (no value can split a line) -/
theorem C07_lines (items : List (CPs × CPs)) (hc : ∀ it ∈ items, CleanValue it.1 ∧ CleanProb it.2) :
    codecLines (writeFile items) = items.map fun it => writeLine it.1 it.2 :=
  codecLines_writeFile items hc

/-- non-vacuity: a value with a trailing space, two values sharing a probability -/
example : loadFromFile Pcfg.exParse Pcfg.exEqv (-1) (writeFile Pcfg.exItems) =
    some [⟨[[97, 98, 32], [99]], 50⟩, ⟨[[100]], 25⟩] := by rfl

end Pcfg.C07
