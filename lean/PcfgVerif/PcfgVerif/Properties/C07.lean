import PcfgVerif.Properties.LoaderCore
import PcfgVerif.Generated.WriterLoops
import PcfgVerif.Lemmas.TrainedFolder
import PcfgVerif.Lemmas.LoaderWF
import PcfgVerif.Properties.ProbsCore
import PcfgVerif.Lemmas.SoftFloatLemmas
import PcfgVerif.Lemmas.RuleDirLemmas
import PcfgVerif.Generated.RuleDir
import PcfgVerif.Lemmas.OmenFilesC
import PcfgVerif.Properties.OmenTrainCore
import PcfgVerif.Lemmas.OmenTextLemmas
import PcfgVerif.Lemmas.OmenAlphabetLemmas
/-!
# C07 — a saved ruleset means the same thing to every tool that loads it

`writeFile` is the trainer's writer (`value<TAB>str(prob)<NL>` per item); `loadFromFile` the guesser's
loader, `scorerLoad` the scorer's.  The table of code points `check_valid` rejects is generated from
its source; the table of line boundaries (`pyLineSeps`) and of whitespace (`pySpaces`) is compared
with the running interpreter over all code points on every run.  Codec internals are runtime.
-/
namespace Pcfg.C07
variable {P : Type}

/-- every line boundary of `str.splitlines` and the TAB are rejected by `check_valid` -/
theorem C07_separators_rejected :
    (∀ c ∈ pyLineSeps, Generated.CheckValid.rejected.contains c = true) ∧
    Generated.CheckValid.rejected.contains 0x09 = true ∧ Generated.CheckValid.rejectEmpty = true := by
  decide

/-- no password accepted for training can put a value on disk that the line-oriented format cannot
return unchanged: an accepted password is non-empty and free of line boundaries and TABs (and so is
every substring of it) -/
theorem C07_accepted_is_clean (v : CPs) (h : checkValid v = true) (hs : ∀ c ∈ v, isSurrogate c = false) :
    CleanValue v ∧ v ≠ [] :=
  checkValid_clean v h hs

/-- the guesser's loader reads back every written value, in order, each in a group carrying the
probability written next to it; groups are the maximal runs of equal probability; the error-recovery
branch is never taken (leading / trailing spaces of a value survive: `rstrip` only ever removes
characters after the probability field) -/
theorem C07_guesser_roundtrip (parseP : CPs → Option P) (eqv : P → P → Bool) (neg1 : P)
    (heq_refl : ∀ a, eqv a a = true)
    (heq_symm : ∀ a b, eqv a b = true → eqv b a = true)
    (heq_trans : ∀ a b c, eqv a b = true → eqv b c = true → eqv a c = true)
    (items : List (CPs × CPs))
    (hc : ∀ it ∈ items, CleanValue it.1 ∧ CleanProb it.2)
    (hp : ∀ it ∈ items, ∃ p, parseP it.2 = some p ∧ eqv p neg1 = false) :
    ∃ gs, loadFromFile parseP eqv neg1 (writeFile items) = some gs ∧
      gs.flatMap (·.values) = items.map (·.1) ∧
      (∀ g ∈ gs, g.values ≠ []) ∧
      (∀ (i : Nat) (a : CPs × P) (it : CPs × CPs),
        (gs.flatMap fun g => g.values.map fun v => (v, g.prob))[i]? = some a → items[i]? = some it →
          a.1 = it.1 ∧ ∃ p, parseP it.2 = some p ∧ eqv p a.2 = true) ∧
      (∀ (i : Nat), ∀ g1 g2, gs[i]? = some g1 → gs[i + 1]? = some g2 → eqv g2.prob g1.prob = false) :=
  loadFromFile_writeFile parseP eqv neg1 heq_refl heq_symm heq_trans items hc hp

/-- the scorer's loader reads back exactly the written (value, probability) pairs -/
theorem C07_scorer_roundtrip (parseP : CPs → Option P) (items : List (CPs × CPs))
    (hc : ∀ it ∈ items, CleanValue it.1 ∧ CleanProb it.2)
    (hp : ∀ it ∈ items, (parseP it.2).isSome) :
    scorerLoad parseP (writeFile items) =
      some (items.filterMap fun it => (parseP it.2).map fun p => (it.1, p)) :=
  scorerLoad_writeFile parseP items hc hp

/-- the reader's view of a written file is the written lines (no value can split a line) -/
theorem C07_lines (items : List (CPs × CPs)) (hc : ∀ it ∈ items, CleanValue it.1 ∧ CleanProb it.2) :
    codecLines (writeFile items) = items.map fun it => writeLine it.1 it.2 :=
  codecLines_writeFile items hc

/-- non-vacuity: a value with a trailing space, two values sharing a probability -/
example : loadFromFile Pcfg.exParse Pcfg.exEqv (-1) (writeFile Pcfg.exItems) =
    some [⟨[[97, 98, 32], [99]], 50⟩, ⟨[[100]], 25⟩] := by rfl

/-- a clean list file whose probabilities are non-increasing in file order is loaded into a non-empty list of
non-empty groups with non-increasing probabilities: the loader turns a sorted file into a column that is
well-formed in the sense of C01/C02/C08 (`WFStruct`) -/
theorem C07_sorted_file_loads_wf (parseP : CPs → Option P) (eqv : P → P → Bool) (neg1 : P)
    (heq_refl : ∀ a, eqv a a = true)
    (R : P → P → Prop)
    (hcompat : ∀ p q a b, eqv p a = true → eqv q b = true → R p q → R a b)
    (items : List (CPs × CPs)) (hitems : items ≠ [])
    (hc : ∀ it ∈ items, CleanValue it.1 ∧ CleanProb it.2)
    (hp : ∀ it ∈ items, ∃ p, parseP it.2 = some p ∧ eqv p neg1 = false)
    (hs : (items.filterMap fun it => parseP it.2).Pairwise R) :
    ∃ gs, loadFromFile parseP eqv neg1 (writeFile items) = some gs ∧ gs ≠ [] ∧
      (∀ g ∈ gs, g.values ≠ []) ∧ (gs.map (·.prob)).Pairwise R :=
  loadFromFile_sorted parseP eqv neg1 heq_refl R hcompat items hitems hc hp hs

/-- `calculate_probabilities` over binary64 (the same definition as `C06.sfQOps`) -/
def sfQ : QOps Nat := ⟨0, (· + ·), SF.ratio, fun a b => decide (a ≥ b)⟩

/-- **trainer → file → guesser, over binary64**: take any counter (values with natural counts, any order).
The trainer writes `calculate_probabilities` of it (`count / total` correctly rounded, most frequent first) with
the probability printed by `showP`; the guesser parses the text back with `parseP`.  If printing and parsing
round-trip (`float(repr(x)) == x`, trusted) and the values are clean (what `check_valid` admits), then the loaded
column is non-empty, every group is non-empty and the group probabilities are non-increasing for the binary64
order — i.e. the column satisfies `WFStruct sfAlg`, the hypothesis of C01/C02/C08, for every counter. -/
theorem C07_trained_column_wf (parseP : CPs → Option Nat) (showP : Nat → CPs) (neg1 : Nat)
    (hround : ∀ p, parseP (showP p) = some p)
    (counter : List (CPs × Nat)) (hne : counter ≠ [])
    (hclean : ∀ it ∈ counter, CleanValue it.1) (hshow : ∀ p, CleanProb (showP p))
    (hsent : ∀ it ∈ calcProbs sfQ counter, it.2 ≠ neg1) :
    ∃ gs, loadFromFile parseP (fun a b => a == b) neg1
        (writeFile ((calcProbs sfQ counter).map fun it => (it.1, showP it.2))) = some gs ∧
      gs ≠ [] ∧ (∀ g ∈ gs, g.values ≠ []) ∧
      (gs.map (·.prob)).Pairwise (fun a b => sfAlg.le b a = true) := by
  have hsorted : (calcProbs sfQ counter).Pairwise fun a b => b.2 ≤ a.2 := by
    unfold calcProbs
    simp only
    rw [List.pairwise_map]
    have hs := mostCommon_sorted sfQ (by intro a b; simp [sfQ]; omega)
      (by intro a b c h1 h2; simp [sfQ] at *; omega) counter
    exact hs.imp (fun {a b} h => SF.ratio_mono _ (by simpa [sfQ] using h))
  have hperm := calcProbs_perm sfQ counter
  apply C07_sorted_file_loads_wf parseP (fun a b => a == b) neg1 (by intro a; simp)
    (fun a b => sfAlg.le b a = true)
  · intro p q a b h1 h2 h
    simp at h1 h2; subst h1 h2; exact h
  · intro h
    have := congrArg List.length h
    simp [calcProbs, mostCommon] at this
    exact hne this
  · intro it hit
    obtain ⟨x, hx, rfl⟩ := List.mem_map.mp hit
    refine ⟨?_, hshow _⟩
    have : x.1 ∈ (calcProbs sfQ counter).map (·.1) := List.mem_map.mpr ⟨x, hx, rfl⟩
    obtain ⟨y, hy, hxy⟩ := List.mem_map.mp (hperm.mem_iff.mp this)
    rw [← hxy]; exact hclean y hy
  · intro it hit
    obtain ⟨x, hx, rfl⟩ := List.mem_map.mp hit
    exact ⟨x.2, hround _, by simpa using hsent x hx⟩
  · rw [List.filterMap_map]
    have : (fun it : CPs × Nat => parseP (showP it.2)) = fun it => some it.2 := by
      funext it; exact hround _
    simp only [Function.comp_def, this]
    rw [List.filterMap_eq_map', List.pairwise_map]
    exact hsorted.imp (fun {a b} h => by simpa [sfAlg] using h)

/-- non-vacuity of `C07_trained_column_wf`: its hypotheses are satisfiable (unary probability text `1…1`, a counter with
a tie and a singleton; the sentinel is a value no quotient of these counts takes) -/
example : ∃ gs, loadFromFile (fun s => if s.all (· == 0x31) && !s.isEmpty then some (s.length - 1) else none)
      (fun a b => a == b) 7
      (writeFile ((calcProbs sfQ [([0x61], 2), ([0x62], 1), ([0x63], 2)]).map
        fun it => (it.1, List.replicate (it.2 + 1) 0x31))) = some gs ∧ gs ≠ [] ∧
      (∀ g ∈ gs, g.values ≠ []) ∧ (gs.map (·.prob)).Pairwise (fun a b => sfAlg.le b a = true) := by
  apply C07_trained_column_wf _ (fun p => List.replicate (p + 1) 0x31) 7
  · intro p; simp
  · simp
  · intro it hit
    simp only [List.mem_cons, List.not_mem_nil, or_false] at hit
    rcases hit with rfl | rfl | rfl <;> (intro c hc; simp at hc; subst hc; decide)
  · intro p
    refine ⟨by simp, ?_⟩
    intro c hc
    have : c = 0x31 := by simpa using (List.mem_replicate.mp hc).2
    subst this; decide
  · intro it hit
    have h5 : ∀ c, c ≤ 5 → SF.ratio c 5 ≠ 7 := by
      intro c hc
      have : c = 0 ∨ c = 1 ∨ c = 2 ∨ c = 3 ∨ c = 4 ∨ c = 5 := by omega
      rcases this with rfl | rfl | rfl | rfl | rfl | rfl <;> decide +kernel
    have hm := (calcProbs_mem sfQ [([0x61], 2), ([0x62], 1), ([0x63], 2)] it.1 it.2).mp (by simpa using hit)
    obtain ⟨c, hc, hp⟩ := hm
    have htot : totalCount sfQ [([0x61], 2), ([0x62], 1), ([0x63], 2)] = 5 := by decide
    rw [hp, htot]
    simp only [List.mem_cons, List.not_mem_nil, or_false, Prod.mk.injEq] at hc
    apply h5
    rcases hc with ⟨_, rfl⟩ | ⟨_, rfl⟩ | ⟨_, rfl⟩ <;> omega

/-- **the file lists of `config.ini` name exactly the files that exist** (model half): after
`save_indexed_counters` a folder holds exactly the names `create_filename_list` produces from the same counter, each once —
for every previous content of the folder (training over an existing ruleset), every counter and every way of printing keys -/
theorem C07_folder_is_filename_list {κ γ : Type} (name : κ → String) (suffix : String)
    (old : List (String × γ)) (counters : List (κ × γ)) :
    (∀ f, f ∈ (RuleDir.saveIndexed name suffix old counters).map (·.1) ↔
      f ∈ RuleDir.filenameList name suffix counters) ∧
    ((RuleDir.saveIndexed name suffix old counters).map (·.1)).Nodup :=
  ⟨RuleDir.saveIndexed_names name suffix old counters, RuleDir.saveIndexed_nodup name suffix old counters⟩

/-- (source half, re-proved against the current source on every run): every section of `config.ini` whose file list is
computed takes it from the very counter that `save_pcfg_data` saves into that section's directory, with the same suffix; the
fixed lists (`1.txt` of Years / Context) are the writer's fixed keys; the start section lists `grammar.txt`, which the writer
saves (next to `raw_grammar.txt`, which no tool loads) -/
theorem C07_config_sources :
    Generated.RuleDir.configSuffix = Generated.RuleDir.writerSuffix ∧
    (Generated.RuleDir.configSources.all fun e =>
      e.1 == "Grammar" || Generated.RuleDir.writerSources.contains e) = true ∧
    (Generated.RuleDir.configSources.contains ("Grammar", "names:grammar.txt") &&
      Generated.RuleDir.writerSources.contains ("Grammar", "names:grammar.txt,raw_grammar.txt")) = true := by
  decide

/-- **`_load_from_multiple_files`: the file listed last under a variable is the one that counts** (`Model/LoadMulti.lean`, driven
against the real function on folders with several files per variable): after a successful load every variable named by a listed file
holds the content of the last such file, every other variable keeps what it held -/
theorem C07_last_listed_file_wins {β : Type} (read : String → Option β) (cat : String) (files : List String)
    (g g' : List (String × β)) (h : LoadMulti.loadMultiple read cat files g = some g') (k : String) :
    LoadMulti.lookup g' k = match files.reverse.find? (fun f => cat ++ LoadMulti.stem f == k) with
      | some f => read f
      | none => LoadMulti.lookup g k :=
  LoadMulti.loadMultiple_lookup read cat files g g' h k

/-- **a folder the trainer wrote loads into its variables**: the five length-indexed folders are written one file `<n>.txt` per length
of the counter dict (`save_indexed_counters`: whatever the folder held before is gone), listed in `config.ini` by
`create_filename_list`, and read back by `_load_from_multiple_files`.  For the counter dict of any training run (one Counter per
length, `update_keys_nodup`) the load succeeds when every file parses, the variable `<letter><n>` holds exactly the parsed content
of the file of length n, and no other variable is touched — file names, config list and loader agree for every counter, every previous
content of the folder and every way of writing a Counter to a file. -/
theorem C07_trained_folder_loads {γ β : Type} (U : Detect.UEnv) (cfg : Detect.MWCfg) (pws : List CPs) (ch : Char)
    (field : Trainer.Counters → Detect.LenCtr) (items : Detect.Parsed → List CPs)
    (hf : ∀ c p, field (c.update p) = Detect.updateLenIndexed (field c) (items p)) (h0 : field {} = [])
    (content : Detect.MWTable → γ) (parse : γ → Option β)
    (hparse : ∀ e ∈ field (Trainer.train U cfg pws), (parse (content e.2)).isSome)
    (old : List (String × γ)) (g0 : List (String × β)) :
    ∃ g', LoadMulti.loadMultiple
        (fun fn => (LoadMulti.lookup (RuleDir.saveIndexed (fun n : Nat => toString n) ".txt" old
          ((field (Trainer.train U cfg pws)).map fun e => (e.1, content e.2))) fn).bind parse)
        (String.ofList [ch])
        (RuleDir.filenameList (fun n : Nat => toString n) ".txt" ((field (Trainer.train U cfg pws)).map fun e => (e.1, content e.2)))
        g0 = some g' ∧
      (∀ e ∈ field (Trainer.train U cfg pws), LoadMulti.lookup g' (Detect.lbl ch e.1) = parse (content e.2)) ∧
      (∀ k, (∀ n, Detect.lbl ch n ≠ k) → LoadMulti.lookup g' k = LoadMulti.lookup g0 k) := by
  refine Trainer.trained_folder_loads ch _ ?_ content parse hparse old g0
  unfold Trainer.train Trainer.pass2
  rw [Trainer.pass2_field U cfg _ field items hf, h0, Trainer.foldl_update_flatten]
  exact Detect.update_keys_nodup [] _ (by simp)

/-! ## The OMEN files (`Omen/IP.level`, `CP.level`, `LN.level`)

`Model/OmenFiles.lean`: the records the trainer writes (`ipLines`, `cpLines`, `lnLines`: one `(level, n-gram)` per line in
the iteration order of its dicts) and the guesser's `_load_ngrams` / `_load_length` on them (`loadIp`, `loadCp`, `loadLn`,
`loadTables`; `none` = the loader raises).  `toTables` is the closed form the C10 / C11 / C18 theorems use. -/

/-- **the OMEN files of a trained ruleset load without an error, and the guesser's tables are `toTables`** as far as any
look-up can tell: the same `ip` table, the same `ln` table (lengths below the n-gram size dropped, the others stored as
`length − (ngram − 1)`), the same `max_level`, and the same list of letters for every `cp[prefix][level]` -/
theorem C07_omen_files_load (t : Omen.TTables) (hwf : t.WF) :
    ∃ tb, t.loadTables = some tb ∧ tb.ipTbl = t.toTables.ipTbl ∧ tb.lnTbl = t.toTables.lnTbl ∧
      tb.m.maxLevel = t.toTables.m.maxLevel ∧ ∀ ip l, tb.m.cpChars ip l = t.toTables.m.cpChars ip l :=
  Omen.loadTables_spec t hwf.good

/-- the generator's `_find_cp` reads the `cp` dict only through those look-ups, so it cannot tell the loaded dict from
`toTables` (dict iteration order, the order in which the levels of a prefix were first seen, are invisible to it) -/
theorem C07_find_cp_reads_lookups (m1 m2 : Omen.Model) (hM : m1.maxLevel = m2.maxLevel)
    (h : ∀ ip l, m1.cpChars ip l = m2.cpChars ip l) (ip : Omen.Str) (top bottom : Nat) :
    m1.findCp ip top bottom = m2.findCp ip top bottom :=
  Omen.findCp_congr m1 m2 hM h ip top bottom

/-- a level outside `0..max_level` in any of the three files makes the loader raise (it never stores it) -/
theorem C07_omen_level_out_of_range (maxLevel : Nat) (l : Nat) (k : Omen.Str) (hl : maxLevel < l) :
    Omen.loadIp maxLevel [(l, k)] = none ∧ Omen.loadCp maxLevel [(l, k)] = none ∧ Omen.loadLn maxLevel 2 [l] = none := by
  have : ¬ l ≤ maxLevel := by omega
  simp [Omen.loadIp, Omen.loadIpGo, Omen.loadCp, Omen.loadCpGo, Omen.loadLn, Omen.loadLnGo, this]

/-- the record order the file model assumes is the one of the source (regenerated): `IP.level`, `EP.level` and `CP.level` are written by
loops over `omen_trainer.grammar.items()` (for `CP.level` with an inner loop over `data['next_letter'].items()`), `LN.level` over
`enumerate(omen_trainer.ln_lookup)`, and each of these loops writes one record per iteration - none leaves a record out -/
theorem C07_omen_writer_loops :
    Generated.WriterLoops.omenLoops.take 5 =
      [("IP.level", "omen_trainer.grammar.items()"), ("EP.level", "omen_trainer.grammar.items()"),
       ("CP.level", "omen_trainer.grammar.items()"), ("CP.level", "data['next_letter'].items()"),
       ("LN.level", "enumerate(omen_trainer.ln_lookup)")] ∧
    Generated.WriterLoops.omenLoopBodies.all (·.2 == "every-record") = true := by
  decide

/-- **the text layer of an OMEN level file.**  `omenFileText` is what the trainer writes for `IP.level` / `EP.level` / `CP.level`
(`str(level) + TAB + ngram + LF` per record), `loadOmenText` the front of `_load_ngrams` and of the scorer's `_load_omen` (codec
line iteration, `rstrip('\n\r')`, `split('\t')` into exactly two fields, `int()` of the first): for every list of records whose
n-grams contain neither a line boundary nor a TAB - what `check_valid` guarantees of every accepted password - the text reads back as
exactly the records written.  N-grams that end in a blank, U+00A0, U+3000 are returned whole (only CR / LF are stripped). -/
theorem C07_omen_text_roundtrip (records : List (Nat × CPs))
    (h : ∀ r ∈ records, ∀ c ∈ r.2, isLineSep c = false ∧ c ≠ 9) :
    loadOmenText (omenFileText records) = some records :=
  loadOmenText_omenFileText records h

/-- **`Omen/alphabet.txt`** (`_save_alphabet`: one letter per line; the guesser's `_load_alphabet`: line iteration and
`rstrip('\n\r')`): the file reads back as the alphabet written, letter by letter - a blank, U+00A0 or U+3000 stays the letter it is -/
theorem C07_omen_alphabet_roundtrip (letters : CPs) (h : ∀ c ∈ letters, isLineSep c = false) :
    Omen.loadAlphabet (Omen.alphabetText letters) = letters.map fun c => [c] :=
  Omen.loadAlphabet_alphabetText letters h

/-- non-vacuity (kernel-evaluated): an n-gram ending in a space, one ending in U+3000, level 10 -/
example : loadOmenText (omenFileText [(0, [97, 32]), (10, [98, 0x3000]), (3, [32, 32])]) =
    some [(0, [97, 32]), (10, [98, 0x3000]), (3, [32, 32])] := by decide +kernel

/-- non-vacuity: the bigram tables of `OmenTrainCore` are well-formed and load -/
example : ∃ tb, Omen.exTT.loadTables = some tb ∧ tb.ipTbl = Omen.exTT.toTables.ipTbl :=
  let ⟨tb, h1, h2, _⟩ := C07_omen_files_load Omen.exTT Omen.exTT_wf
  ⟨tb, h1, h2⟩

end Pcfg.C07
