import PcfgVerif.Generated.ProcessState
import PcfgVerif.Properties.ProbsCore
import PcfgVerif.Lemmas.SoftFloatLemmas
import PcfgVerif.Generated.CliOptions
import PcfgVerif.Lemmas.TrainedListedE
/-!
# C06 — the saved grammar is the relative-frequency model of the segmentation

`calcProbs` is `calculate_probabilities` (stable sort by decreasing count, `count / total`), generic in
the number type; `ratOps` is exact arithmetic.  Over doubles each written number is the correctly
rounded quotient (compared bit for bit by the harness) and the sum differs from 1 by rounding only.
Which items reach which counter is C05; that the files hold these lists is checked file by file.
-/
namespace Pcfg.C06
variable {Q α : Type}

/-- every item the segmentation produced is written exactly once -/
theorem C06_each_once (O : QOps Q) (items : List (α × Q)) :
    ((calcProbs O items).map (·.1)).Perm (items.map (·.1)) := calcProbs_perm O items

/-- with probability count / list total -/
theorem C06_prob (O : QOps Q) (items : List (α × Q)) (v : α) (p : Q) :
    (v, p) ∈ calcProbs O items ↔ ∃ c, (v, c) ∈ items ∧ p = O.div c (totalCount O items) :=
  calcProbs_mem O items v p

/-- ordered from most to least frequent, ties in insertion order (training is deterministic) -/
theorem C06_sorted_stable [DecidableEq Q] (O : QOps Q)
    (htot : ∀ a b, O.ge a b = true ∨ O.ge b a = true)
    (htrans : ∀ a b c, O.ge a b = true → O.ge b c = true → O.ge a c = true)
    (items : List (α × Q)) :
    ((mostCommon O items).Pairwise fun a b => O.ge a.2 b.2 = true) ∧
    ∀ c, (mostCommon O items).filter (fun it => decide (it.2 = c)) = items.filter (fun it => decide (it.2 = c)) :=
  ⟨mostCommon_sorted O htot htrans items, fun c => mostCommon_stable O htot htrans items c⟩

/-- each list sums to 1 and is non-increasing (exact arithmetic) -/
theorem C06_sum_one (items : List (α × Rat)) (hpos : 0 < totalCount ratOps items) :
    ((calcProbs ratOps items).map (·.2)).sum = 1 ∧
    (calcProbs ratOps items).Pairwise fun a b => b.2 ≤ a.2 :=
  ⟨calcProbs_sum_one items (by intro h; rw [h] at hpos; exact absurd hpos (by decide)), calcProbs_sorted_rat items hpos⟩

/-- the Markov structure receives the pseudo-count `N/coverage − N`, i.e. the share `1 − coverage`;
it is absent for coverage 1 and the only structure for coverage 0 -/
theorem C06_markov (n cov : Rat) (hn : 0 < n) (hc0 : 0 < cov) (hc1 : cov < 1) :
    (n / cov - n) / (n + (n / cov - n)) = 1 - cov := markov_share n cov hn hc0 hc1

theorem C06_markov_edges (O : QOps Q) (sub : Q → Q → Q) (one : Q) (isOne isZero : Q → Bool) (mKey : α)
    (coverage n : Q) (items : List (α × Q)) :
    (isOne coverage = true → withMarkov O sub one isOne isZero mKey coverage n items = items) ∧
    (isOne coverage = false → isZero coverage = true →
      withMarkov O sub one isOne isZero mKey coverage n items = [(mKey, one)]) :=
  withMarkov_edges O sub one isOne isZero mKey coverage n items

/-- `calculate_probabilities` over binary64: counts are naturals, `count / total` is the correctly rounded
quotient `SF.ratio` (the model of CPython's `/`, compared bit for bit on every run by the `fp.ratio` stream) -/
def sfQOps : QOps Nat := ⟨0, (· + ·), SF.ratio, fun a b => decide (a ≥ b)⟩

/-- **binary64 instance**: the doubles written to a list file are non-increasing in file order — rounding
`count / total` to 53 bits never inverts the order of two counts (`SF.ratio_mono`).  This is the
"group probabilities non-increasing in file order" half of the well-formedness that C01/C02/C08 assume
of a ruleset, established for what the trainer writes.  The divisor is arbitrary (second statement), so the
base-structure list, whose total contains the fractional Markov pseudo-count, is covered as well. -/
theorem C06_sorted_binary64 (items : List (α × Nat)) :
    (calcProbs sfQOps items).Pairwise fun a b => b.2 ≤ a.2 := by
  unfold calcProbs
  simp only
  rw [List.pairwise_map]
  have hs := mostCommon_sorted sfQOps (by intro a b; simp [sfQOps]; omega)
    (by intro a b c h1 h2; simp [sfQOps] at *; omega) items
  exact hs.imp (fun {a b} h => SF.ratio_mono _ (by simpa [sfQOps] using h))

theorem C06_sorted_binary64_any_total (total : Nat) (items : List (α × Nat)) :
    ((mostCommon sfQOps items).map fun it => (it.1, SF.ratio it.2 total)).Pairwise fun a b => b.2 ≤ a.2 := by
  rw [List.pairwise_map]
  have hs := mostCommon_sorted sfQOps (by intro a b; simp [sfQOps]; omega)
    (by intro a b c h1 h2; simp [sfQOps] at *; omega) items
  exact hs.imp (fun {a b} h => SF.ratio_mono _ (by simpa [sfQOps] using h))

/-- three quotients as CPython computes them (tests, labelled as such): `1/3`, `2/3`, `1/10` -/
example : SF.toBits (SF.ratio 1 3) = 0x3FD5555555555555 ∧ SF.toBits (SF.ratio 2 3) = 0x3FE5555555555555 ∧
    SF.toBits (SF.ratio 1 10) = 0x3FB999999999999A := by decide +kernel

/-- **the coverage the user asked for is the coverage `withMarkov` receives** (command-line glue of `trainer.py`, regenerated from
the source on every run): `--coverage`, `--ngram` and `--alphabet` are parsed with their own type, default to the program's
defaults, and reach `program_info` by one plain assignment from the parsed value — no `or`, no second default that would turn an
explicit `--coverage 0` (only the Markov structure) into the default coverage. -/
theorem C06_cli_passes_coverage :
    Generated.CliOptions.trainerAssign.filter (fun a => a.2.1 == "coverage") =
      [("parse_command_line", "coverage", "args.coverage")] ∧
    Generated.CliOptions.trainerAssign.filter (fun a => a.2.1 == "ngram") = [("parse_command_line", "ngram", "args.ngram")] ∧
    Generated.CliOptions.trainerAssign.filter (fun a => a.2.1 == "alphabet_size") =
      [("parse_command_line", "alphabet_size", "args.alphabet")] ∧
    ("--coverage", "program_info['coverage']", "float", "'store'", "None", "None") ∈ Generated.CliOptions.trainerOptions ∧
    ("--ngram", "program_info['ngram']", "int", "'store'", "None", "None") ∈ Generated.CliOptions.trainerOptions ∧
    ("--alphabet", "program_info['alphabet_size']", "int", "'store'", "None", "None") ∈ Generated.CliOptions.trainerOptions ∧
    Generated.CliOptions.trainerAssign.all (fun a => a.2.1 != "<dynamic>") = true := by
  decide

/-- **the Markov structure is always written when the coverage is strictly between 0 and 1 — however small its pseudo-count**: for a
training list of n ≥ 1 valid passwords the line `M` of `grammar.txt` carries `(n/coverage − n) / (Σ counts + n/coverage − n)`,
a positive number (for a high coverage and a short list the pseudo-count is well below 1: it is a weight, not a count, and must
not be filtered like one) -/
theorem C06_markov_always_listed (cov : Rat) (h0 : 0 < cov) (h1 : cov < 1) (n : Nat) (hn : 0 < n) (b : Trainer.SCtr) :
    (cpsOfString "M", ((n : Rat) / cov - n) / (((Trainer.toQ b).map (·.2)).sum + ((n : Rat) / cov - n))) ∈ Trainer.baseList cov n b ∧
    0 < (n : Rat) / cov - n := by
  refine ⟨?_, Trainer.rat_markov_pos _ _ (Trainer.rat_cast_pos n hn) h0 h1⟩
  unfold Trainer.baseList
  have e1 : (cov == 1) = false := beq_eq_false_iff_ne.mpr (by grind)
  have e0 : (cov == 0) = false := beq_eq_false_iff_ne.mpr (by grind)
  have hitems : withMarkov ratOps (· - ·) 1 (· == 1) (· == 0) "M" cov (n : Rat) (Trainer.toQ b) =
      Trainer.toQ b ++ [("M", (n : Rat) / cov - n)] := by
    unfold withMarkov
    simp only [e1, e0, Bool.false_eq_true, if_false]
    rfl
  rw [hitems]
  refine List.mem_map.mpr ⟨("M", _), (calcProbs_mem ratOps _ "M" _).mpr ⟨(n : Rat) / cov - n, by simp, rfl⟩, ?_⟩
  rw [totalCount_rat]
  simp only [List.map_append, List.map_cons, List.map_nil, List.sum_append, List.sum_cons, List.sum_nil]
  congr 2
  show ((n : Rat) / cov - n) / _ = _
  congr 1
  grind

/-- **nothing outlives a call except the objects a caller holds** (regenerated from the four library packages): no module-level or
class-level mutable container, no cache decorator or cache call (`functools.lru_cache`, `cache`), no mutable or computed default
argument and no `global` statement anywhere in `lib_guesser`, `lib_trainer`, `lib_scorer`, `lib_princeling`.  The models of this file are
functions of the objects handed to the code (grammar, detector, tables, memo table); this is the fact that lets them be: an answer cannot
depend on what another object, an earlier ruleset in the same process or the other thread did -/
theorem C06_no_process_wide_state : Generated.ProcessState.processWideState = [] := by
  decide

end Pcfg.C06
