import PcfgVerif.Properties.PQCore
import PcfgVerif.Lemmas.SoftFloatLemmas
import PcfgVerif.Properties.ProbsCore
import PcfgVerif.Generated.WriterLoops
import PcfgVerif.Lemmas.TrainedWF
/-!
# C01 — guesses are emitted in non-increasing probability order

The statements quantify over every `PAlg` (total preorder + monotone product: what IEEE doubles on
finite non-negative values satisfy, including exact ties, underflow to 0 and denormals), every
well-formed grid (any number of base structures, repeated variable types, single-entry variables),
every tie-breaking of the heap (`Reach` pops *any* element `heappop` may return) and every prefix of
the run.  Flags (`skip_brute`, `all_lower`, PRINCE folder) only change which grid the loader
returns.  The decision fragments inside `findChildren` / `areYouMyChild` / `isTop` are generated from
the current Python source, so these proofs are re-checked against what the code says now.
-/
namespace Pcfg.C01
variable {P : Type} [Inhabited P]

/-- every prefix of the emitted sequence is non-increasing in probability -/
theorem C01_order (A : PAlg P) (g : Grid P) (hwf : WF A.toPOps g) (s : PQState)
    (h : Reach A.toPOps g (initNodes g) s) : NonIncreasing A.toPOps g s.popped :=
  pq_order A g hwf s h

/-- the run never gets stuck before the queue is empty, whatever the ties -/
theorem C01_progress (A : PAlg P) (g : Grid P) (q : List Node) (hq : q ≠ []) :
    ∃ x, isTop A.toPOps g q x = true :=
  pq_progress A g q hq

/-- what `heappop` may return is a maximal-probability element of the queue -/
theorem C01_top_is_max (A : PAlg P) (g : Grid P) (q : List Node) (x : Node)
    (h : isTop A.toPOps g q x = true) :
    x ∈ q ∧ ∀ y ∈ q, A.le (nodeProb A.toPOps g y) (nodeProb A.toPOps g x) = true := by
  simp only [isTop, Bool.and_eq_true, List.all_eq_true] at h
  refine ⟨by simpa using h.1, fun y hy => ?_⟩
  have := h.2 y hy
  simp only [Generated.PQ.queueLt, POps.cmp, POps.lt, Bool.not_not] at this
  exact this

/-- the probability attached to an emitted item is the left-to-right product `_find_prob` computes -/
theorem C01_prob_is_product (O : POps P) (g : Grid P) (v : Node) :
    nodeProb O g v = probFold O (g.struct v.b).bp (g.struct v.b).cols v.idx := rfl

/-- index arithmetic of the source: children are `+1`, parents `-1`, roots start at 0 -/
theorem C01_steps : Generated.PQ.fcStep = 1 ∧ Generated.PQ.aymcStep = 1 ∧
    Generated.PQ.rootIndex = 0 ∧ Generated.PQ.aymcDefault = true := by decide

omit [Inhabited P] in
/-- the six rich comparisons of `QueueItem` are mutually consistent (so any correct heap gives the
same notion of "top") -/
theorem C01_queueitem_consistent (A : PAlg P) (a b : P) :
    Generated.PQ.queueLe A.toPOps a b = !(Generated.PQ.queueGt A.toPOps a b) ∧
    Generated.PQ.queueGe A.toPOps a b = !(Generated.PQ.queueLt A.toPOps a b) ∧
    Generated.PQ.queueNe A.toPOps a b = !(Generated.PQ.queueEq A.toPOps a b) := by
  simp [Generated.PQ.queueLe, Generated.PQ.queueGt, Generated.PQ.queueGe, Generated.PQ.queueLt,
    Generated.PQ.queueNe, Generated.PQ.queueEq, POps.cmp, POps.lt]

/-- **binary64 instance.**  The order theorem for IEEE-754 doubles with no floating-point hypothesis left:
`sfAlg` is the model of CPython's `<=` and correctly rounded `*` on finite non-negative doubles
(`Model/SoftFloat.lean`, checked bit-for-bit against the interpreter on every run), and its `PAlg` laws
are proved (`SF.roundTo_mono`). -/
theorem C01_order_binary64 (g : Grid Nat) (hwf : WF sfAlg.toPOps g) (s : PQState)
    (h : Reach sfAlg.toPOps g (initNodes g) s) : NonIncreasing sfAlg.toPOps g s.popped :=
  C01_order sfAlg g hwf s h

/-- what the binary64 model is: correctly rounded (error ≤ half a unit in the last place at the scale
chosen for the exact value), 53-bit significands, monotone, and closed on [0, 1] (so products of
probabilities neither overflow nor leave the format) -/
theorem C01_binary64_rounding (N D : Nat) :
    (∃ m, SF.roundQ N D = m * 2 ^ SF.shiftOf (N / D) ∧ m ≤ 2 ^ 53) ∧
    (∀ T, 0 < T → 2 * (N - SF.roundAt N T * T) ≤ T ∧ 2 * (SF.roundAt N T * T - N) ≤ T) ∧
    (∀ N', N ≤ N' → SF.roundQ N D ≤ SF.roundQ N' D) ∧
    (∀ a b, a ≤ SF.one → b ≤ SF.one → SF.mul a b ≤ SF.one) :=
  ⟨SF.roundQ_significand N D, fun T hT => SF.roundAt_half N T hT, fun _ h => SF.roundQ_mono D h,
    SF.mul_le_one⟩

/-- non-vacuity of the binary64 instance: the 2×2 grid 0.5 · {0.5, 0.25}² is well-formed for `sfAlg`, its
two middle nodes tie exactly (0.0625), and the model reproduces three doubles computed by CPython
(`0.1*0.1 == 0.010000000000000002`, `5e-324*0.5 == 0.0` (ties to even), `1.5*5e-324 == 1e-323`);
these three are tests, labelled as such — the run-time correspondence compares thousands more. -/
def gB : Grid Nat := [⟨2 ^ 1073, [[2 ^ 1073, 2 ^ 1072], [2 ^ 1073, 2 ^ 1072]]⟩]

theorem wfB : WF sfAlg.toPOps gB := by
  intro s hs
  simp only [gB, List.mem_singleton] at hs
  subst hs
  intro c hc
  simp only [List.mem_cons, List.not_mem_nil, or_false, or_self] at hc
  subst hc
  exact ⟨by simp, by simp [sfAlg]; exact Nat.pow_le_pow_right (by decide) (by decide)⟩

example : nodeProb sfAlg.toPOps gB ⟨0, [1, 0]⟩ = 2 ^ 1070 ∧ nodeProb sfAlg.toPOps gB ⟨0, [0, 1]⟩ = 2 ^ 1070 := by
  decide +kernel

example : (SF.ofBits 0x3FB999999999999A).map (fun a => SF.toBits (SF.mul a a)) = some 0x3F847AE147AE147C ∧
    SF.mul 1 (2 ^ 1073) = 0 ∧ SF.mul 3 (2 ^ 1073) = 2 := by decide +kernel

/-- non-vacuity: the concrete tied grid of `PQCore` is well-formed and its full run is ordered -/
example : NonIncreasing natAlg.toPOps Pcfg.Example.g0 Pcfg.Example.final0.popped :=
  C01_order natAlg Pcfg.Example.g0 Pcfg.Example.wf0 _ Pcfg.Example.reach0

/-- **the Markov column of a trained ruleset is well-formed too.**  `Omen/pcfg_omen_prob.txt` becomes the column of the `M` variable;
the trainer writes it by iterating `pcfg_omen_prob.most_common()` over a `Counter` it builds itself (both regenerated from the
current `save_omen_rules_to_disk`), and `most_common` — a stable sort by decreasing value, here on binary64 values in units of
2^-1074 — yields a non-increasing list whatever the level densities are (they do not fall with the level number in general).
The other list files are covered by `C06_sorted_binary64` / `C07_trained_column_wf`. -/
theorem C01_omen_prob_file_sorted :
    ("pcfg_omen_prob.txt", "pcfg_omen_prob.most_common()") ∈ Generated.WriterLoops.omenLoops ∧
    (Generated.WriterLoops.omenLoops.filter (·.1 == "pcfg_omen_prob.txt")).length = 1 ∧
    ("pcfg_omen_prob", "Counter()") ∈ Generated.WriterLoops.mostCommonContainers ∧
    ∀ (levels : List (Nat × Nat)),
      (mostCommon (⟨0, (· + ·), SF.ratio, fun a b => decide (a ≥ b)⟩ : QOps Nat) levels).Pairwise fun a b => b.2 ≤ a.2 := by
  refine ⟨by decide, by decide, by decide, fun levels => ?_⟩
  have hs := mostCommon_sorted (⟨0, (· + ·), SF.ratio, fun a b => decide (a ≥ b)⟩ : QOps Nat)
    (by intro a b; simp; omega) (by intro a b c h1 h2; simp at *; omega) levels
  exact hs.imp (fun {a b} h => by simpa using h)

/-- **C01 for trained rulesets over binary64, without a well-formedness hypothesis**: take any grid each of whose columns is the list of
group probabilities the loader model returns on a list file the trainer wrote for some non-empty counter (`TrainedCols`:
`calculate_probabilities` over binary64, most frequent first; `C07_trained_column_wf`).  Then every prefix of what the queue pops —
under every tie-breaking of the heap — is non-increasing.  Trusted: `float(repr(x)) == x` (`hround`), clean values (`check_valid`). -/
theorem C01_trained_order (parseP : CPs → Option Nat) (showP : Nat → CPs) (neg1 : Nat)
    (hround : ∀ p, parseP (showP p) = some p) (hshow : ∀ p, CleanProb (showP p)) (g : Grid Nat)
    (hcols : TrainedCols parseP showP neg1 g)
    (s : PQState) (h : Reach sfAlg.toPOps g (initNodes g) s) : NonIncreasing sfAlg.toPOps g s.popped :=
  C01_order_binary64 g (trained_grid_wf parseP showP neg1 hround hshow g hcols) s h

end Pcfg.C01
