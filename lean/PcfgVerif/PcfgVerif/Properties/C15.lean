import PcfgVerif.Generated.Session
import PcfgVerif.Properties.SessionCore
import PcfgVerif.Generated.CliOptions
import PcfgVerif.Model.Omen
/-!
# C15 — a Markov level interrupted mid-way resumes at the very next guess

Session level: `remaining us f` is what a session started from the files `f` has to print (the rest of
the interrupted level if the save file asks for it, then everything from the saved position).  The
theorems hold for arbitrary starting files, hence for every later quit/resume cycle.
Enumerator level: the pickled state (target level, cursors, parse tree) is the whole state of the
model's `CState`, so continuing from it yields exactly the not-yet-emitted guesses (`enumFrom_split`).
-/
namespace Pcfg.C15
open Pcfg.Sess

/-- quitting anywhere (in particular between two guesses of a Markov level): what was printed, followed
by what the resumed session prints, is exactly what remained — nothing skipped, nothing repeated -/
theorem C15_continue (us : List Unit') (f : Files) (hf : f.omenOpt = true → f.omn.isSome = true)
    (stdin : List Ev) (sched : List Actor)
    (h : (run us (initLoad f stdin) sched).main = .exited) :
    (run us (initLoad f stdin) sched).out ++ remaining us (run us (initLoad f stdin) sched).files
      = remaining us f :=
  exit_resume_exact us f hf stdin sched h

/-- a resumed session that is not quit again inside a Markov level prints the rest of the interrupted
level first and then the rest of the run -/
theorem C15_then_rest (us : List Unit') (f : Files) (stdin : List Ev) (sched : List Actor)
    (h : (run us (initLoad f stdin) sched).main = .finished)
    (ho : (run us (initLoad f stdin) sched).omenExit = false) :
    (run us (initLoad f stdin) sched).out = remaining us f :=
  finished_complete us f stdin sched h ho

/-- later cycles do not replay the remainder: once the restored level has run to its end the files a
later quit leaves no longer ask for it -/
theorem C15_no_replay (us : List Unit') (f : Files) (hf : f.omenOpt = true → f.omn.isSome = true)
    (stdin : List Ev) (sched : List Actor)
    (h : (run us (initLoad f stdin) sched).main = .exited)
    (ho : (run us (initLoad f stdin) sched).omenExit = false) :
    (run us (initLoad f stdin) sched).files.omenOpt = false :=
  no_replay us f hf stdin sched h ho

/-- the enumerator: running `fuel₁ + fuel₂` steps from a state is running `fuel₁` steps and then, if the
level was not exhausted, `fuel₂` more from the state reached — the saved state determines the remainder -/
theorem C15_enum_split (t : Omen.Tables) (target : Nat) (fuel1 fuel2 : Nat) (s : Omen.CState) :
    ∃ s', t.enumFrom target (fuel1 + fuel2) s =
      t.enumFrom target fuel1 s ++
        (if (t.enumFrom target fuel1 s).length = fuel1 then t.enumFrom target fuel2 s' else []) := by
  induction fuel1 generalizing s with
  | zero => exact ⟨s, by simp [Omen.Tables.enumFrom]⟩
  | succ n ih =>
    have hf : n + 1 + fuel2 = (n + fuel2) + 1 := by omega
    rw [hf]
    cases hn : t.next target s with
    | none => exact ⟨s, by simp [Omen.Tables.enumFrom, hn]⟩
    | some p =>
      obtain ⟨g, s1⟩ := p
      obtain ⟨s', hs'⟩ := ih s1
      refine ⟨s', ?_⟩
      simp only [Omen.Tables.enumFrom, hn, List.cons_append, List.length_cons]
      rw [hs']
      by_cases hl : (t.enumFrom target n s1).length = n <;> simp [hl]

theorem C15_option_removed : Generated.Session.removesOmenOption = true := by decide

/-- the point the hypotheses above exclude (`main = .exited`, resp. `omenExit = false`) is reachable, and
there the statement of the property fails — the recorded known finding, replayed on the real code by the
harness: `q` arrives while the **last** pre-terminal of the run, a Markov level, is being generated.  The
level stops after the current guess, the `.omn` file is written, but the main loop then finds the queue
empty and finishes without saving the session: the output is cut short and the save file does not ask for the
remainder (`omenOpt = false`), so a resumed session cannot emit it. -/
theorem C15_last_unit_loss :
    let us := [Unit'.markov [[1], [2], [3]]]
    let s := run us (initNew [.line "q" false]) [.main, .main, .kbd, .kbd, .main, .main]
    s.main = .finished ∧ s.omenExit = true ∧ s.out = [[1], [2]] ∧ s.out ≠ fullStream us ∧
      s.files.omn = some [[3]] ∧ s.files.omenOpt = false := by
  decide


/-- the `.omn` file a resumed session loads is the one the interrupted session wrote: both sites of `pcfg_grammar.py` name it by
the same expression of the save-file name (re-proved against the current source on every run) — the state machine's single
field `omn` stands for one file -/
theorem C15_omn_name_same_at_save_and_load :
    Generated.Session.omnNameAtSave = Generated.Session.omnNameAtLoad ∧ Generated.Session.omnNameAtSave ≠ "" := by decide


/-! ## session files: one pair of files per session name -/

/-- `program_info['session_name'] + '.sav'` -/
def savName (session : List Char) : List Char := session ++ ".sav".toList
/-- `self.save_file[:-4] + '.omn'` -/
def omnName (saveFile : List Char) : List Char := saveFile.take (saveFile.length - 4) ++ ".omn".toList

/-- the model above is what the source says (regenerated on every run) -/
theorem C15_file_name_expressions :
    Generated.Session.savNameExpr = "program_info['session_name']+'.sav'" ∧
    Generated.Session.omnNameAtSave = "self.save_file[:-4]+'.omn'" ∧
    Generated.Session.omnNameAtLoad = "self.save_file[:-4]+'.omn'" ∧
    -- and these three are the only places of the guesser where a session file is named at all
    Generated.Session.sessionNameExprs =
      [("pcfg_guesser.py", "main", "program_info['session_name']+'.sav'"),
       ("lib_guesser/pcfg_grammar.py", "restore_omen", "self.save_file[:-4]+'.omn'"),
       ("lib_guesser/pcfg_grammar.py", "omen_generate_guesses", "self.save_file[:-4]+'.omn'")] := by decide

/-- **different session names never share a file**: the `.sav` and the `.omn` file are the session name with a fixed suffix, so two
sessions that are quit and resumed in any interleaving keep their own queue position and their own pickled OMEN level — for every
pair of names, also names that contain dots or end in `s`, `a`, `v` -/
theorem C15_session_files_injective (s1 s2 : List Char) (h : s1 ≠ s2) :
    omnName (savName s1) = s1 ++ ".omn".toList ∧
    savName s1 ≠ savName s2 ∧ omnName (savName s1) ≠ omnName (savName s2) := by
  have hom : ∀ s : List Char, omnName (savName s) = s ++ ".omn".toList := by
    intro s
    unfold omnName savName
    have : (s ++ ".sav".toList).length - 4 = s.length := by simp
    rw [this, List.take_left']
    rfl
  refine ⟨hom s1, ?_, ?_⟩
  · intro e
    exact h (List.append_cancel_right e)
  · rw [hom, hom]
    intro e
    exact h (List.append_cancel_right e)

example : omnName (savName "audit.ntlm".toList) = "audit.ntlm.omn".toList ∧
    omnName (savName "canvas".toList) = "canvas.omn".toList := by decide

/-- the session name the file names are built from is the name the user typed: the only assignment to
`program_info['session_name']` in `pcfg_guesser.py` is `args.session`, unchanged (regenerated from the source; with
`C15_session_files_injective` two different `--session` values never share a `.sav` / `.omn` file) -/
theorem C15_session_name_is_the_typed_name :
    Generated.CliOptions.guesserAssign.filter (fun a => a.2.1 == "session_name") =
      [("parse_command_line", "session_name", "args.session")] ∧
    ("--session", "program_info['session_name']", "None", "'store'", "None", "None") ∈ Generated.CliOptions.guesserOptions := by
  decide

/-- **the guess limit only counts down and ends the run** (regenerated from the source): every statement of `CrackingSession.run` (and of
the methods it calls) whose execution depends on a test that reads `limit` - the `if limit:` blocks with their `elif` / `else` branches and
everything nested in them - is the count-down itself, a message on stderr, or the end of the run.  So a run with `--limit` is the run
without it stopped early: nothing written to the session files (the `omen_guess_number` option in particular) and no choice of the main
loop depends on whether a limit was given - which is what lets the session model, which has no limit, stand for limited sessions too -/
theorem C15_limit_only_counts_down_and_stops :
    ∀ k ∈ Generated.Session.limitDependentStatements, k ∈ ["break", "count-down", "pass", "print-stderr", "return"] := by
  decide

/-- **a session resumes on the ruleset it was started on** (regenerated from `pcfg_guesser.py`): the name stored in the save file is the
rule name the first run was given, as given (`-r group/name` included), `load_save` takes the rule name from that entry and from nowhere
else, and a ruleset whose uuid differs from the saved one is refused -/
theorem C15_resumes_on_its_own_ruleset :
    Generated.Session.saveConfigSets.filter (fun t => t.2.1 == "rule_name" || t.2.1 == "uuid") =
      [("main", "uuid", "pcfg.ruleset_info['uuid']"), ("create_save_config", "rule_name", "program_info['rule_name']")] ∧
    Generated.Session.loadSaveAssigns.filter (fun t => t.1 == "rule_name") =
      [("rule_name", "save_config.get('rule_info','rule_name')")] ∧
    Generated.Session.uuidMismatchRefuses = true := by
  decide

end Pcfg.C15
