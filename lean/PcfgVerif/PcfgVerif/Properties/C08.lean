import PcfgVerif.Properties.PQRestore
import PcfgVerif.Generated.CliOptions
import PcfgVerif.Lemmas.TrainedWF
import PcfgVerif.Lemmas.SoftFloatLemmas
import PcfgVerif.Generated.Session
/-!
# C08 — resuming a saved session loses nothing and repeats at most the tied group

The whole saved state of the queue is the pair (`min_probability`, `max_probability`); the session
saves `max_probability` = probability of the pre-terminal that was popped but not generated.  So
every quit/resume history reduces to: restart from `restoreNodes g m mn`.  `mn` is `0.0` in the code
and never changes (`hmin`: nothing is below it).
-/
namespace Pcfg.C08
variable {P : Type} [Inhabited P]

/-- a resumed run emits exactly the nodes whose probability is ≤ the saved value: each once (also in
every intermediate state), nothing above the saved position, in non-increasing order -/
theorem C08_resume (A : PAlg P) (g : Grid P) (hwf : WF A.toPOps g) (m mn : P)
    (hmin : ∀ v, ValidNode g v → A.lt (nodeProb A.toPOps g v) mn = false)
    (s : PQState) (h : Reach A.toPOps g (restoreNodes A.toPOps g m mn) s) :
    (s.popped ++ s.queue).Nodup ∧
    NonIncreasing A.toPOps g s.popped ∧
    (∀ v ∈ s.popped ++ s.queue, ValidNode g v ∧ A.le (nodeProb A.toPOps g v) m = true) ∧
    (s.queue = [] → s.popped.Perm ((allNodes g).filter fun v => A.le (nodeProb A.toPOps g v) m)) :=
  pq_resume A g hwf m mn hmin s h

/-- **binary64 instance** (see `C01_order_binary64`): the resume theorem for IEEE-754 doubles; the saved
minimum is `0.0`, below which no double product of probabilities lies, so `hmin` is discharged too -/
theorem C08_resume_binary64 (g : Grid Nat) (hwf : WF sfAlg.toPOps g) (m : Nat)
    (s : PQState) (h : Reach sfAlg.toPOps g (restoreNodes sfAlg.toPOps g m 0) s) :
    (s.popped ++ s.queue).Nodup ∧
    NonIncreasing sfAlg.toPOps g s.popped ∧
    (∀ v ∈ s.popped ++ s.queue, ValidNode g v ∧ sfAlg.le (nodeProb sfAlg.toPOps g v) m = true) ∧
    (s.queue = [] → s.popped.Perm ((allNodes g).filter fun v => sfAlg.le (nodeProb sfAlg.toPOps g v) m)) :=
  C08_resume sfAlg g hwf m 0 (by intro v _; simp [POps.lt, sfAlg]) s h

/-- nothing is lost: everything the uninterrupted run `u` emits from position `k` on is emitted by
the run resumed from `m = prob (u.popped[k])` -/
theorem C08_nothing_lost (A : PAlg P) (g : Grid P) (hwf : WF A.toPOps g) (mn : P)
    (hmin : ∀ v, ValidNode g v → A.lt (nodeProb A.toPOps g v) mn = false)
    (u : PQState) (hu : Reach A.toPOps g (initNodes g) u)
    (k : Nat) (x : Node) (hx : u.popped[k]? = some x)
    (r : PQState) (hr : Reach A.toPOps g (restoreNodes A.toPOps g (nodeProb A.toPOps g x) mn) r)
    (hdone : r.queue = [])
    (j : Nat) (hj : k ≤ j) (y : Node) (hy : u.popped[j]? = some y) : y ∈ r.popped := by
  have hord := pq_order A g hwf u hu
  have hvalid := (pq_exactly_once A g hwf u hu).2.1
  have hperm := (pq_resume A g hwf _ mn hmin r hr).2.2.2 hdone
  have hymem : y ∈ u.popped := List.mem_of_getElem? hy
  have hle : A.le (nodeProb A.toPOps g y) (nodeProb A.toPOps g x) = true := by
    by_cases hjk : j = k
    · subst hjk
      rw [hx] at hy
      cases hy
      exact A.le_refl _
    · have hlt : k < j := by omega
      have hk' : k < u.popped.length := by
        rcases List.getElem?_eq_some_iff.mp hx with ⟨h, _⟩; exact h
      have hj' : j < u.popped.length := by
        rcases List.getElem?_eq_some_iff.mp hy with ⟨h, _⟩; exact h
      have := List.pairwise_iff_getElem.mp hord k j hk' hj' hlt
      rcases List.getElem?_eq_some_iff.mp hx with ⟨_, ex⟩
      rcases List.getElem?_eq_some_iff.mp hy with ⟨_, ey⟩
      rw [ex, ey] at this
      exact this
  have : y ∈ (allNodes g).filter fun v => A.le (nodeProb A.toPOps g v) (nodeProb A.toPOps g x) := by
    rw [List.mem_filter]
    refine ⟨(mem_allNodes g y).mpr (hvalid y (List.mem_append_left _ hymem)), hle⟩
  exact hperm.symm.subset this

/-- the only repeats are pre-terminals tied with the saved position: a node emitted before position
`k` that the resumed run touches again has probability equal to the saved one -/
theorem C08_repeats_only_tied (A : PAlg P) (g : Grid P) (hwf : WF A.toPOps g) (mn : P)
    (hmin : ∀ v, ValidNode g v → A.lt (nodeProb A.toPOps g v) mn = false)
    (u : PQState) (hu : Reach A.toPOps g (initNodes g) u)
    (k : Nat) (x : Node) (hx : u.popped[k]? = some x)
    (r : PQState) (hr : Reach A.toPOps g (restoreNodes A.toPOps g (nodeProb A.toPOps g x) mn) r)
    (i : Nat) (hi : i < k) (y : Node) (hy : u.popped[i]? = some y) (hyr : y ∈ r.popped ++ r.queue) :
    A.eqv (nodeProb A.toPOps g y) (nodeProb A.toPOps g x) = true := by
  have hord := pq_order A g hwf u hu
  have hle := ((pq_resume A g hwf _ mn hmin r hr).2.2.1 y hyr).2
  have hk' : k < u.popped.length := by
    rcases List.getElem?_eq_some_iff.mp hx with ⟨h, _⟩; exact h
  have hi' : i < u.popped.length := by omega
  have := List.pairwise_iff_getElem.mp hord i k hi' hk' hi
  rcases List.getElem?_eq_some_iff.mp hx with ⟨_, ex⟩
  rcases List.getElem?_eq_some_iff.mp hy with ⟨_, ey⟩
  rw [ex, ey] at this
  simp [POps.eqv, hle, this]

omit [Inhabited P] in
/-- the comparison operators the proof depends on, as they stand in the source today
(`is_parent_around` must use `<=`: with `<` a child of the re-emitted saved node is restored twice) -/
theorem C08_operators (O : POps P) (a b : P) :
    (Generated.PQ.ipaBody O 1 a b = some true ↔ O.le a b = true) ∧
    (Generated.PQ.restoreGuard O a b b false = .save ↔ (O.lt a b = false ∧ O.le a b = true)) := by
  constructor
  · simp only [Generated.PQ.ipaBody, POps.cmp, CmpOp.nat]
    by_cases h : O.le a b = true <;> simp [h]
  · simp only [Generated.PQ.restoreGuard, POps.cmp]
    by_cases h1 : O.lt a b = true <;> by_cases h2 : O.le a b = true <;> simp [h1, h2]

/-- non-vacuity: resuming the tied 2×2 grid at probability 64 re-emits both tied nodes and their child -/
example : Pcfg.Example.finalR.popped.Perm
    ((allNodes Pcfg.Example.g0).filter fun v => natAlg.le (nodeProb natAlg.toPOps Pcfg.Example.g0 v) 64) :=
  (C08_resume natAlg _ Pcfg.Example.wf0 64 0 Pcfg.Example.hmin0 _ Pcfg.Example.reachR).2.2.2 rfl

/-- a session is refused when the ruleset's UUID differs from the saved one, and the save file is read
before the grammar is built (so the saved flags decide what is loaded): facts of `pcfg_guesser.main`
regenerated from the source; the refusal itself is exercised by the harness on the real program -/
theorem C08_uuid_refused :
    Generated.Session.uuidMismatchRefuses = true ∧ Generated.Session.loadSaveBeforeGrammar = true := by
  decide

/-- **C08 for trained rulesets over binary64, without a well-formedness hypothesis** (`TrainedCols`, see `C01_trained_order`): a run
resumed from any saved probability emits exactly the pre-terminals at or below it, once each, in order -/
theorem C08_trained_resume (parseP : CPs → Option Nat) (showP : Nat → CPs) (neg1 : Nat)
    (hround : ∀ p, parseP (showP p) = some p) (hshow : ∀ p, CleanProb (showP p)) (g : Grid Nat)
    (hcols : TrainedCols parseP showP neg1 g) (m : Nat)
    (s : PQState) (h : Reach sfAlg.toPOps g (restoreNodes sfAlg.toPOps g m 0) s) :
    (s.popped ++ s.queue).Nodup ∧
    NonIncreasing sfAlg.toPOps g s.popped ∧
    (∀ v ∈ s.popped ++ s.queue, ValidNode g v ∧ sfAlg.le (nodeProb sfAlg.toPOps g v) m = true) ∧
    (s.queue = [] → s.popped.Perm ((allNodes g).filter fun v => sfAlg.le (nodeProb sfAlg.toPOps g v) m)) :=
  C08_resume_binary64 g (trained_grid_wf parseP showP neg1 hround hshow g hcols) m s h

/-- ... and the file is that name with the suffix `.sav` appended, nothing taken away (the one expression of `main` that names it,
regenerated from the source): names with dots keep their last component -/
theorem C08_save_file_name_expression :
    Generated.Session.savNameExpr = "program_info['session_name']+'.sav'" ∧
    (Generated.Session.sessionNameExprs.filter (fun e => e.1 == "pcfg_guesser.py")) =
      [("pcfg_guesser.py", "main", "program_info['session_name']+'.sav'")] := by decide

/-- the saved position is filed under the session name as typed: the only assignment to `program_info['session_name']`
in `pcfg_guesser.py` is `args.session` (regenerated from the source) - two sessions with different names never resume from each
other's save file -/
theorem C08_session_name_is_the_typed_name :
    Generated.CliOptions.guesserAssign.filter (fun a => a.2.1 == "session_name") =
      [("parse_command_line", "session_name", "args.session")] := by
  decide

/-- **a session resumes on the ruleset it was started on** (regenerated from `pcfg_guesser.py`): the name stored in the save file is the
rule name the first run was given, as given (`-r group/name` included), `load_save` takes the rule name from that entry and from nowhere
else, and a ruleset whose uuid differs from the saved one is refused -/
theorem C08_resumes_on_its_own_ruleset :
    Generated.Session.saveConfigSets.filter (fun t => t.2.1 == "rule_name" || t.2.1 == "uuid") =
      [("main", "uuid", "pcfg.ruleset_info['uuid']"), ("create_save_config", "rule_name", "program_info['rule_name']")] ∧
    Generated.Session.loadSaveAssigns.filter (fun t => t.1 == "rule_name") =
      [("rule_name", "save_config.get('rule_info','rule_name')")] ∧
    Generated.Session.uuidMismatchRefuses = true := by
  decide

end Pcfg.C08
