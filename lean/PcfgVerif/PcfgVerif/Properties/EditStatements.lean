import PcfgVerif.Model.EditRules
/-! Statements to be proved (work file for edit_rules, C20). -/
namespace Pcfg

/-- a length label as the trainer writes it: one upper-case letter followed by decimal digits -/
def IsLabel (t : CPs) : Prop := ∃ c ds, t = c :: ds ∧ isUpperAZ c = true ∧ ∀ d ∈ ds, isDigit09 d = true

/-- a probability field as it stands in grammar.txt: no upper-case letter, no TAB, no newline, no
surrounding whitespace -/
def IsProbText (p : CPs) : Prop :=
  (∀ c ∈ p, isUpperAZ c = false ∧ c ≠ 0x09 ∧ c ≠ 0x0a) ∧ lstripWs (rstripWs p) = p

/-- one well-formed line `labels<TAB>prob` (without the newline) -/
def gLine (labels : List CPs) (prob : CPs) : CPs := labels.flatten ++ [0x09] ++ prob

/-- the tokenizer returns exactly the labels of a well-formed line: rewriting the line from its
tokens changes nothing (no label is truncated, whatever its number of digits) -/
theorem tokenize_gLine (labels : List CPs) (prob : CPs) (hl : ∀ t ∈ labels, IsLabel t)
    (hp : IsProbText prob) : tokenize (gLine labels prob) = labels := by
  sorry

theorem probField_gLine (labels : List CPs) (prob : CPs) (hl : ∀ t ∈ labels, IsLabel t)
    (hp : IsProbText prob) : probField (gLine labels prob) = some prob := by
  sorry

theorem structField_gLine (labels : List CPs) (prob : CPs) (hl : ∀ t ∈ labels, IsLabel t)
    (hp : IsProbText prob) : structField (gLine labels prob) = labels.flatten := by
  sorry

/-- the text of a grammar file made of well-formed lines -/
def gText (rows : List (List CPs × CPs)) : CPs :=
  (rows.map fun r => gLine r.1 r.2 ++ [0x0a]).flatten

theorem textLines_gText (rows : List (List CPs × CPs))
    (h : ∀ r ∈ rows, (∀ t ∈ r.1, IsLabel t) ∧ IsProbText r.2) :
    textLines (gText rows) = (rows.map fun r => gLine r.1 r.2) ++ [[]] := by
  sorry

/-- C20 (length filter): on a well-formed file whose labels all carry a number where one is read,
`edit_length` keeps exactly the rows whose total label length passes `keepLen`, in order, each line
byte-identical (structure and probability text unchanged) -/
theorem editLength_filter (mn mx : Nat) (rows : List (List CPs × CPs))
    (h : ∀ r ∈ rows, r.1 ≠ [] ∧ (∀ t ∈ r.1, IsLabel t) ∧ IsProbText r.2 ∧ (totalLen r.1).isSome) :
    (editLengthLines mn mx (textLines (gText rows))).map List.flatten =
      some (gText (rows.filter fun r => Generated.EditRules.keepLen ((totalLen r.1).getD 0) mn mx)) := by
  sorry

/-- C20 (terminal-set filter) -/
theorem editTerminal_filter (allowed : List Nat) (rows : List (List CPs × CPs))
    (h : ∀ r ∈ rows, r.1 ≠ [] ∧ (∀ t ∈ r.1, IsLabel t) ∧ IsProbText r.2) :
    (editTerminalLines allowed (textLines (gText rows))).map List.flatten =
      some (gText (rows.filter fun r => r.1.all fun t => allowed.contains (t.headD 0))) := by
  sorry

/-- C20 (regex filter) -/
theorem checkRegex_filter (ok : CPs → Bool) (rows : List (List CPs × CPs))
    (h : ∀ r ∈ rows, r.1 ≠ [] ∧ (∀ t ∈ r.1, IsLabel t) ∧ IsProbText r.2) :
    (checkRegexLines ok (textLines (gText rows))).map List.flatten =
      some (gText (rows.filter fun r => ok r.1.flatten)) := by
  sorry

/-- what passing the length test means: the Markov structure (total 0) is always kept; otherwise
the total is at least the minimum and, when a maximum was given, at most the maximum -/
theorem keepLen_spec (total mn mx : Nat) :
    Generated.EditRules.keepLen total mn mx = true ↔
      (total = 0 ∨ (mn ≤ total ∧ (mx = 0 ∨ total ≤ mx))) := by
  sorry

/-- the length `edit_length` attributes to a label: its number for A, D, O, K (and X), 4 for Y,
0 for anything else (M) -/
theorem tokenLen_spec (c : Nat) (ds : CPs) (hc : isUpperAZ c = true) (hds : ds ≠ []) :
    tokenLen (c :: ds) =
      if c = 0x59 then some 4
      else if c = 0x41 ∨ c = 0x44 ∨ c = 0x4f ∨ c = 0x4b ∨ c = 0x58 then digitsVal ds
      else some 0 := by
  sorry

end Pcfg
