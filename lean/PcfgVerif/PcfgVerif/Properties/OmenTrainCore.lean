import PcfgVerif.Model.OmenTrainer
import PcfgVerif.Properties.OmenCore
import PcfgVerif.Lemmas.OmenTrainA
import PcfgVerif.Lemmas.OmenTrainE
/-!
# Trainer = scorer = guesser (C11) and the recorded keyspace (C18)

Proofs live in `PcfgVerif/Lemmas/OmenTrain{A,B,C,D,E}.lean`.  No statement had to be corrected: all
eight hold as first written under `TTables.WF`.  `lookupRow_ksRow` holds without `hwf` and without
`hip` (for a prefix that is not a key both sides are 0); the general form is `lookupRow_ksRow'`.
`scorerLevel_eq_trainerLevel` only uses `ngram_ge`.
-/
namespace Omen

/-- what the trainer's tables satisfy: every (n−1)-gram key once, every next letter once per key,
keys of length n−1, all levels within 0..maxLevel -/
structure TTables.WF (t : TTables) : Prop where
  ngram_ge : 2 ≤ t.ngram
  keys_nodup : (t.entries.map (·.key)).Nodup
  key_len : ∀ e ∈ t.entries, e.key.length = t.ngram - 1
  letters_nodup : ∀ e ∈ t.entries, (e.next.map (·.1)).Nodup
  ip_levels : ∀ e ∈ t.entries, e.ipLevel ≤ t.maxLevel
  cp_levels : ∀ e ∈ t.entries, ∀ p ∈ e.next, p.2 ≤ t.maxLevel
  ln_levels : ∀ l ∈ t.lns, l ≤ t.maxLevel

/-- the same hypotheses in the form the lemma files use -/
theorem TTables.WF.good {t : TTables} (h : t.WF) : t.Good :=
  ⟨h.ngram_ge, h.keys_nodup, h.key_len, h.letters_nodup, h.ip_levels, h.cp_levels, h.ln_levels⟩

/-- C11 (trainer = scorer): the scorer's dictionary walk computes the trainer's level for every string -/
theorem scorerLevel_eq_trainerLevel (t : TTables) (hwf : t.WF) (s : Str) :
    t.scorerLevel s = t.trainerLevel s :=
  scorerLevel_eq_trainerLevel_core t hwf.ngram_ge s

/-- the tables the guesser loads from the trainer's files are well-formed -/
theorem toTables_WF (t : TTables) (hwf : t.WF) : t.toTables.WF (t.ngram - 1) :=
  toTables_WF_core t hwf.good

/-- C11 (trainer = guesser's specification): the level the trainer assigns is the level `levelOf`
assigns over the loaded tables — for every string: unknown letters, too short, too long included -/
theorem levelOf_eq_trainerLevel (t : TTables) (hwf : t.WF) (s : Str) :
    t.toTables.levelOf (t.ngram - 1) s = t.trainerLevel s :=
  levelOf_eq_trainerLevel_core t hwf.good s

/-- hence (with `level_exact`): the guesser's generator emits `s` at level `L` iff the trainer assigns `L` -/
theorem guesser_emits_iff_trainerLevel (t : TTables) (hwf : t.WF) (target : Nat)
    (s0 : CState) (hs : t.toTables.start = some s0) :
    ∃ N, (∀ fuel, N ≤ fuel → t.toTables.enumFrom target fuel s0 = t.toTables.enumFrom target N s0) ∧
      (t.toTables.enumFrom target N s0).Nodup ∧
      ∀ s : Str, s ∈ t.toTables.enumFrom target N s0 ↔ t.trainerLevel s = some target := by
  have hpos : 0 < t.ngram - 1 := by have := hwf.ngram_ge; omega
  obtain ⟨N, h1, h2, h3⟩ := level_exact t.toTables (t.ngram - 1) hpos (toTables_WF t hwf) target s0 hs
  refine ⟨N, h1, h2, fun s => ?_⟩
  rw [h3 s, levelOf_eq_trainerLevel t hwf]

/-- C18 (per block): the recursive keyspace count is the number of parse trees of that block -/
theorem recKeyspace_eq_allTrees (t : TTables) (hwf : t.WF) (len : Nat) (ip : Str) (level : Nat) :
    t.recKeyspace len ip level = (t.toTables.m.allTrees len ip level).length :=
  recKeyspace_eq_allTrees_core t hwf.good len ip level

/-- C18: the keyspace the trainer records for a level is the number of guesses the generator emits at
that level -/
theorem levelKeyspace_eq_emitted (t : TTables) (hwf : t.WF) (level : Nat)
    (s0 : CState) (hs : t.toTables.start = some s0) :
    ∃ N, ∀ fuel, N ≤ fuel → (t.toTables.enumFrom level fuel s0).length = t.levelKeyspace level := by
  obtain ⟨N, h1, h2, h3⟩ := guesser_emits_iff_trainerLevel t hwf level s0 hs
  refine ⟨N, fun fuel hf => ?_⟩
  rw [h1 fuel hf]
  exact levelKeyspace_eq_of_exact t hwf.good level _ h2 h3

/-- the tabulated (memoised) computation equals the recursive definition: for any table and any
prefix (for a prefix that is not a key both sides are 0) -/
theorem lookupRow_ksRow' (t : TTables) (maxL len : Nat) (ip : Str) (level : Nat) (hl : level ≤ maxL) :
    lookupRow (t.ksRow maxL len) ip level = t.recKeyspace len ip level :=
  lookupRow_ksRow_core t maxL len ip level hl

set_option linter.unusedVariables false in
/-- the tabulated (memoised) computation equals the recursive definition (`hwf` and `hip` are not
needed by the proof, see `lookupRow_ksRow'`) -/
theorem lookupRow_ksRow (t : TTables) (hwf : t.WF) (maxL len : Nat) (ip : Str) (level : Nat)
    (hl : level ≤ maxL) (hip : ip ∈ t.entries.map (·.key)) :
    lookupRow (t.ksRow maxL len) ip level = t.recKeyspace len ip level :=
  lookupRow_ksRow' t maxL len ip level hl

/-- `calc_omen_keyspace`: every level it lists carries `levelKeyspace` of that level, levels are
consecutive from the first, and it stops after the first level above the limit -/
theorem calcKeyspace_spec (t : TTables) (maxKeyspace fuel first : Nat) :
    (∀ p ∈ t.calcKeyspace maxKeyspace fuel first, p.2 = t.levelKeyspace p.1) ∧
    (t.calcKeyspace maxKeyspace fuel first).map (·.1) =
      (List.range (t.calcKeyspace maxKeyspace fuel first).length).map (· + first) ∧
    (∀ (i : Nat) p, (t.calcKeyspace maxKeyspace fuel first)[i]? = some p →
      i + 1 < (t.calcKeyspace maxKeyspace fuel first).length → p.2 ≤ maxKeyspace) :=
  calcKeyspace_spec_core t maxKeyspace fuel first

/-! ## Non-vacuity: concrete well-formed trainer tables on which all views agree -/
section NonVacuity

/-- bigram model over `a`, `b`; lengths 1..4 (length 1 is below `ngram`, so never generated) -/
def exTT : TTables :=
  { ngram := 2, maxLevel := 3
    entries := [⟨['a'], 0, [('a', 0), ('b', 1)]⟩, ⟨['b'], 1, [('a', 1)]⟩]
    lns := [3, 0, 1, 3] }

theorem exTT_wf : exTT.WF := by
  constructor <;> decide

/-- trigram model; the key `bb` has no successor (it is dropped from `cp` by the loader) -/
def exTT3 : TTables :=
  { ngram := 3, maxLevel := 3
    entries := [⟨['a', 'a'], 0, [('a', 0), ('b', 1)]⟩, ⟨['a', 'b'], 1, [('a', 1), ('b', 2)]⟩,
      ⟨['b', 'a'], 2, [('a', 1)]⟩, ⟨['b', 'b'], 2, []⟩]
    lns := [3, 0, 1, 3, 2] }

theorem exTT3_wf : exTT3.WF := by
  constructor <;> decide

theorem exTT_start : exTT.toTables.start = some ⟨⟨0, 0, 0, 0⟩, []⟩ := rfl

-- "aba": length 3 (level 1) + ip `a` (0) + a→b (1) + b→a (1) = 3, in all three views
example : exTT.trainerLevel ['a', 'b', 'a'] = some 3 := by decide
example : exTT.scorerLevel ['a', 'b', 'a'] = some 3 := by decide
example : exTT.toTables.levelOf 1 ['a', 'b', 'a'] = some 3 := by decide
-- unknown letter / too short / too long: −1 in all three views
example : exTT.trainerLevel ['a', 'c'] = none ∧ exTT.scorerLevel ['a', 'c'] = none ∧
    exTT.toTables.levelOf 1 ['a', 'c'] = none := by decide
example : exTT.trainerLevel ['a'] = none ∧ exTT.scorerLevel ['a'] = none ∧
    exTT.toTables.levelOf 1 ['a'] = none := by decide
example : exTT.trainerLevel ['a', 'a', 'a', 'a', 'a'] = none ∧
    exTT.scorerLevel ['a', 'a', 'a', 'a', 'a'] = none ∧
    exTT.toTables.levelOf 1 ['a', 'a', 'a', 'a', 'a'] = none := by decide

-- keyspace per level = number of guesses the generator emits at that level
example : (List.range 8).map exTT.levelKeyspace = [1, 2, 2, 3, 2, 3, 2, 1] := by decide
example : (List.range 8).map (fun L => (exTT.toTables.enumLevel L 1000).map List.length) =
    [some 1, some 2, some 2, some 3, some 2, some 3, some 2, some 1] := by decide
example : exTT.toTables.enumLevel 3 1000 =
    some [['a', 'b', 'a'], ['b', 'a', 'a'], ['a', 'a', 'a', 'a']] := by decide
example : (List.range 8).map exTT3.levelKeyspace = [0, 1, 2, 3, 4, 5, 5, 2] := by decide
example : (List.range 8).map (fun L => (exTT3.toTables.enumLevel L 1000).map List.length) =
    [some 0, some 1, some 2, some 3, some 4, some 5, some 5, some 2] := by decide

-- the tabulated keyspace
example : lookupRow (exTT.ksRow 7 3) ['a'] 2 = 2 ∧ exTT.recKeyspace 3 ['a'] 2 = 2 ∧
    (exTT.toTables.m.allTrees 3 ['a'] 2).length = 2 := by decide
example : exTT.calcKeyspace 2 10 1 = [(1, 2), (2, 2), (3, 3)] := by decide

/-- the theorems instantiated -/
example (target : Nat) :
    ∃ N, (∀ fuel, N ≤ fuel → exTT.toTables.enumFrom target fuel ⟨⟨0, 0, 0, 0⟩, []⟩ =
        exTT.toTables.enumFrom target N ⟨⟨0, 0, 0, 0⟩, []⟩) ∧
      (exTT.toTables.enumFrom target N ⟨⟨0, 0, 0, 0⟩, []⟩).Nodup ∧
      ∀ s : Str, s ∈ exTT.toTables.enumFrom target N ⟨⟨0, 0, 0, 0⟩, []⟩ ↔
        exTT.trainerLevel s = some target :=
  guesser_emits_iff_trainerLevel exTT exTT_wf target _ exTT_start

example (level : Nat) :
    ∃ N, ∀ fuel, N ≤ fuel →
      (exTT.toTables.enumFrom level fuel ⟨⟨0, 0, 0, 0⟩, []⟩).length = exTT.levelKeyspace level :=
  levelKeyspace_eq_emitted exTT exTT_wf level _ exTT_start

end NonVacuity

/-! ## The hypotheses are used: the statements fail without `ngram_ge` / `cp_levels` -/
section Necessity

/-- `ngram = 1`: the trainer's state `nextIp [] c = [c]` is no key, the scorer's window is fine -/
def exBad1 : TTables := { ngram := 1, maxLevel := 3, entries := [⟨[], 0, [('a', 0)]⟩], lns := [0, 0] }

example : exBad1.scorerLevel ['a', 'a'] = some 0 ∧ exBad1.trainerLevel ['a', 'a'] = none := by decide

/-- a transition level above `maxLevel` is not loaded by the guesser -/
def exBad2 : TTables := { ngram := 2, maxLevel := 1, entries := [⟨['a'], 0, [('a', 2)]⟩], lns := [0, 0] }

example : exBad2.toTables.levelOf 1 ['a', 'a'] = none ∧ exBad2.trainerLevel ['a', 'a'] = some 2 ∧
    exBad2.recKeyspace 1 ['a'] 2 = 1 ∧ (exBad2.toTables.m.allTrees 1 ['a'] 2).length = 0 := by decide

end Necessity

end Omen

section Axioms
open Omen
end Axioms
