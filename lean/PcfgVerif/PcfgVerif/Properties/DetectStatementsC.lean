import PcfgVerif.Model.DetectSpec
/-! Statements to be proved, part C: alpha (+ multi-word), digits, other. -/
namespace Pcfg.Detect

theorem detectAlpha_ok (U : UEnv) (cfg : MWCfg) (t : MWTable) (hmin : 0 < cfg.minLen) :
    DetectorOK U (detectAlpha U cfg t) := by
  sorry

theorem detectDigits_ok (U : UEnv) : DetectorOK U (detectDigits U) := by
  sorry

/-- the words `mwParse` returns concatenate to its input and are non-empty when the input is -/
theorem mwParse_concat (cfg : MWCfg) (t : MWTable) (s : CPs) (hs : s ≠ []) (hmin : 0 < cfg.minLen) :
    (mwParse cfg t s).2.flatten = s ∧ ∀ w ∈ (mwParse cfg t s).2, w ≠ [] := by
  sorry

/-- a word is split into several only when every part was seen at least `threshold` times and is at
least `minLen` long, and the whole was seen fewer than `threshold` times -/
theorem mwParse_sound (cfg : MWCfg) (t : MWTable) (s : CPs) (h : 1 < (mwParse cfg t s).2.length) :
    mwCount t s < cfg.threshold ∧
    ∀ w ∈ (mwParse cfg t s).2, cfg.threshold ≤ mwCount t w ∧ cfg.minLen ≤ w.length := by
  sorry

/-- the multi-word table after any training history: the count of a word is the number of qualifying
occurrences (lower-cased maximal alpha runs, of passwords of admissible length) in the history -/
theorem mwTrain_count (U : UEnv) (cfg : MWCfg) (history : List CPs) (w : CPs) :
    mwCount (history.foldl (fun t p => mwTrain U cfg t p) []) w =
      (history.flatMap fun p =>
        if p.length < cfg.minLen || p.length > cfg.maxLen then []
        else (alphaRuns U (U.lowerS p) []).filter fun r => decide (cfg.minLen ≤ r.length)).count w := by
  sorry

/-- alpha segments: only letters (of the lower-cased section), label = length, one mask per word of
the same length, `U` exactly at the upper-case letters -/
theorem detectAlpha_sound (U : UEnv) (cfg : MWCfg) (t : MWTable) (text : CPs) (hl : LenPres U text)
    (pieces : List Sec) (words masks : List CPs)
    (h : detectAlpha U cfg t text = some (pieces, (words, masks))) :
    words.length = masks.length ∧
    (∀ w ∈ words, w ≠ [] ∧ ∀ c ∈ w, U.isAlpha c = true) ∧
    (∀ (i : Nat) w m, words[i]? = some w → masks[i]? = some m → m.length = w.length) ∧
    (pieces.filter (fun s => s.2.isSome)).map (fun s => s.2) = words.map (fun w => some (lbl 'A' w.length)) := by
  sorry

/-- digit segments: all digits, label = length, maximal inside their section: the characters next to
the run (if any) are not digits -/
theorem detectDigits_sound (U : UEnv) (text : CPs) (pieces : List Sec) (d : CPs)
    (h : detectDigits U text = some (pieces, d)) :
    d ≠ [] ∧ (∀ c ∈ d, U.isDigit c = true) ∧ (d, some (lbl 'D' d.length)) ∈ pieces ∧
    ∃ pre post, text = pre ++ d ++ post ∧ (∀ c ∈ pre, U.isDigit c = false) ∧
      (∀ c, post.head? = some c → U.isDigit c = false) := by
  sorry

/-- `other_detection` labels every remaining section `O<length>` and changes nothing else -/
theorem otherDetection_spec (secs : List Sec) :
    AllLabelled (otherDetection secs).1 ∧
    (otherDetection secs).1.map (·.1) = secs.map (·.1) ∧
    (∀ s ∈ secs, s.2.isSome = true → s ∈ (otherDetection secs).1) ∧
    (∀ s ∈ secs, s.2 = none → (s.1, some (lbl 'O' s.1.length)) ∈ (otherDetection secs).1) ∧
    (otherDetection secs).2 = (secs.filter (fun s => s.2.isNone)).map (·.1) := by
  sorry

/-- tiling survives `other_detection` -/
theorem otherDetection_tiles (U : UEnv) (pw : CPs) (secs : List Sec) (h : TilesFrom U pw 0 secs) :
    TilesFrom U pw 0 (otherDetection secs).1 := by
  sorry

end Pcfg.Detect
