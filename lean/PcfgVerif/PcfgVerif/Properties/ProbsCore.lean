import PcfgVerif.Model.Probs
import PcfgVerif.Lemmas.ProbsLemmas
/-! Statements to be proved (work file for C06). -/
namespace Pcfg
open ProbsLemmas
variable {Q α : Type}

/-- exact arithmetic instance -/
def ratOps : QOps Rat := ⟨0, (· + ·), (· / ·), fun a b => decide (b ≤ a)⟩

/-- every counted item is written exactly once (the written keys are a permutation of the counted keys) -/
theorem calcProbs_perm (O : QOps Q) (items : List (α × Q)) :
    ((calcProbs O items).map (·.1)).Perm (items.map (·.1)) := by
  unfold calcProbs
  simp only [List.map_map]
  exact (mostCommon_perm O items).map _

/-- each written probability is that item's count divided by the list total -/
theorem calcProbs_mem (O : QOps Q) (items : List (α × Q)) (v : α) (p : Q) :
    (v, p) ∈ calcProbs O items ↔ ∃ c, (v, c) ∈ items ∧ p = O.div c (totalCount O items) := by
  unfold calcProbs
  simp only [List.mem_map, mem_mostCommon, Prod.mk.injEq]
  constructor
  · rintro ⟨⟨w, c⟩, hmem, rfl, rfl⟩
    exact ⟨c, hmem, rfl⟩
  · rintro ⟨c, hmem, rfl⟩
    exact ⟨(v, c), hmem, rfl, rfl⟩

/-- the list is ordered from most to least frequent (for any total, transitive `ge`) -/
theorem mostCommon_sorted (O : QOps Q)
    (htot : ∀ a b, O.ge a b = true ∨ O.ge b a = true)
    (htrans : ∀ a b c, O.ge a b = true → O.ge b c = true → O.ge a c = true)
    (items : List (α × Q)) :
    (mostCommon O items).Pairwise fun a b => O.ge a.2 b.2 = true := by
  exact List.pairwise_mergeSort (cmp_trans O htrans) (cmp_total O htot) items

/-- ties keep their insertion order (the sort is stable): items with the same count appear in the
output in the order they had in the input -/
theorem mostCommon_stable [DecidableEq Q] (O : QOps Q)
    (htot : ∀ a b, O.ge a b = true ∨ O.ge b a = true)
    (htrans : ∀ a b c, O.ge a b = true → O.ge b c = true → O.ge a c = true)
    (items : List (α × Q)) (c : Q) :
    (mostCommon O items).filter (fun it => decide (it.2 = c)) = items.filter (fun it => decide (it.2 = c)) := by
  apply filter_eq_of_sublist_of_perm _ (mostCommon_perm O items)
  apply List.sublist_mergeSort (cmp_trans O htrans) (cmp_total O htot) _ List.filter_sublist
  have hcc : O.ge c c = true := by rcases htot c c with h | h <;> exact h
  rw [List.pairwise_filter]
  apply List.pairwise_of_forall
  intro a b ha hb
  have ha' : a.2 = c := of_decide_eq_true ha
  have hb' : b.2 = c := of_decide_eq_true hb
  show O.ge a.2 b.2 = true
  rw [ha', hb']; exact hcc

/-- over the rationals the written probabilities sum to exactly 1 -/
theorem calcProbs_sum_one (items : List (α × Rat)) (hpos : totalCount ratOps items ≠ 0) :
    ((calcProbs ratOps items).map (·.2)).sum = 1 := by
  have ht : totalCount ratOps items = (items.map (·.2)).sum := by
    unfold totalCount
    exact (foldl_snd_rat items 0).trans (Rat.zero_add _)
  have hdiv : ∀ (a t : Rat), ratOps.div a t = a / t := fun _ _ => rfl
  unfold calcProbs
  simp only [List.map_map, hdiv]
  have h1 := sum_map_div_rat (mostCommon ratOps items) (totalCount ratOps items)
  have h2 : ((mostCommon ratOps items).map (·.2)).sum = (items.map (·.2)).sum :=
    sum_perm_rat ((mostCommon_perm ratOps items).map _)
  show ((mostCommon ratOps items).map fun it => it.2 / totalCount ratOps items).sum = 1
  rw [h1, h2, ← ht]
  grind

/-- and they are non-increasing (non-negative counts, positive total) -/
theorem calcProbs_sorted_rat (items : List (α × Rat)) (hpos : 0 < totalCount ratOps items) :
    (calcProbs ratOps items).Pairwise fun a b => b.2 ≤ a.2 := by
  have hs := mostCommon_sorted ratOps
    (fun a b => by
      rcases @Rat.le_total a b with h | h
      · exact Or.inr (decide_eq_true h)
      · exact Or.inl (decide_eq_true h))
    (fun a b c h1 h2 => decide_eq_true (Rat.le_trans (of_decide_eq_true h2) (of_decide_eq_true h1)))
    items
  unfold calcProbs
  rw [List.pairwise_map]
  exact hs.imp fun {a b} h => div_le_div_right_rat (of_decide_eq_true h) hpos

/-- the total is the sum of the counts -/
theorem totalCount_rat (items : List (α × Rat)) : totalCount ratOps items = (items.map (·.2)).sum := by
  unfold totalCount
  exact (foldl_snd_rat items 0).trans (Rat.zero_add _)

/-- Markov pseudo-count: for coverage strictly between 0 and 1 the structure list gains `M` with count
`N/coverage − N`, whose share of the new total is `1 − coverage` when the other counts add up to `N` -/
theorem markov_share (n cov : Rat) (hn : 0 < n) (hc0 : 0 < cov) (hc1 : cov < 1) :
    (n / cov - n) / (n + (n / cov - n)) = 1 - cov := by
  have _ := hc1
  have h1 : cov ≠ 0 := by grind
  have h2 : n ≠ 0 := by grind
  have h3 : n + (n / cov - n) = n / cov := by grind
  rw [h3]
  grind

/-- coverage 1: list unchanged (no `M`); coverage 0: `M` is the only structure -/
theorem withMarkov_edges (O : QOps Q) (sub : Q → Q → Q) (one : Q) (isOne isZero : Q → Bool) (mKey : α)
    (coverage n : Q) (items : List (α × Q)) :
    (isOne coverage = true → withMarkov O sub one isOne isZero mKey coverage n items = items) ∧
    (isOne coverage = false → isZero coverage = true →
      withMarkov O sub one isOne isZero mKey coverage n items = [(mKey, one)]) := by
  constructor
  · intro h; simp [withMarkov, h]
  · intro h1 h0; simp [withMarkov, h1, h0]

/-! ### non-vacuity: a concrete counter with a tie
(`decide +kernel` only evaluates closed `Rat` arithmetic in the kernel; no extra axioms) -/

/-- `b` first (5), the tie `a`/`c` (3 each) keeps insertion order, `d` last -/
theorem mostCommon_example : mostCommon ratOps [("a", (3 : Rat)), ("b", 5), ("c", 3), ("d", 1)]
    = [("b", 5), ("a", 3), ("c", 3), ("d", 1)] := by
  have h1 : ¬ (5 : Rat) ≤ 3 := by decide +kernel
  have h2 : (1 : Rat) ≤ 3 := by decide +kernel
  have h3 : (3 : Rat) ≤ 5 := by decide +kernel
  simp [mostCommon, List.mergeSort, List.MergeSort.Internal.splitInTwo, ratOps, h1, h2, h3]

theorem totalCount_example : totalCount ratOps [("a", (3 : Rat)), ("b", 5), ("c", 3), ("d", 1)] = 12 := by
  decide +kernel

/-- each probability is count/12, ordered by decreasing count, tie in insertion order -/
theorem calcProbs_example : calcProbs ratOps [("a", (3 : Rat)), ("b", 5), ("c", 3), ("d", 1)]
    = [("b", 5/12), ("a", 3/12), ("c", 3/12), ("d", 1/12)] := by
  simp only [calcProbs, mostCommon_example, totalCount_example]
  rfl

/-- the probabilities of the example sum to 1, by direct evaluation -/
example : ((calcProbs ratOps [("a", (3 : Rat)), ("b", 5), ("c", 3), ("d", 1)]).map (·.2)).sum = 1 := by
  rw [calcProbs_example]; decide +kernel

/-- the same through the theorem (its hypothesis is satisfiable) -/
example : ((calcProbs ratOps [("a", (3 : Rat)), ("b", 5), ("c", 3), ("d", 1)]).map (·.2)).sum = 1 :=
  calcProbs_sum_one _ (by rw [totalCount_example]; decide +kernel)

/-- stability on the example: the items with count 3 come out as `a`, `c` -/
example : (mostCommon ratOps [("a", (3 : Rat)), ("b", 5), ("c", 3), ("d", 1)]).filter (fun it => decide (it.2 = 3))
    = [("a", 3), ("c", 3)] := by
  rw [mostCommon_example]; decide +kernel

/-- Markov share on numbers: N = 12, coverage 3/4 → pseudo-count 4, share 1/4 -/
example : ((12 : Rat) / (3/4) - 12) = 4 ∧
    ((12 : Rat) / (3/4) - 12) / (12 + ((12 : Rat) / (3/4) - 12)) = 1 - 3/4 := by
  decide +kernel

end Pcfg
