import PcfgVerif.Model.OmenCache
import PcfgVerif.Lemmas.OmenCacheLemmas
/-! C10: independence of the shared memo table (proved). -/
namespace Omen

theorem cacheOK_nil (m : Model) : CacheOK m [] := by
  intro ip len target v h
  simp [Cache.lookup] at h

/-- with a table that only holds true results, the memoised function returns what the table-free
function returns and leaves such a table behind — whatever earlier calls (other levels, other
lengths, other guess structures) put there -/
theorem fillC_eq_fill (m : Model) (maxLen len : Nat) (c : Cache) (ip : Str) (target : Nat)
    (h : CacheOK m c) :
    (m.fillC maxLen len c ip target).1 = m.fill len ip target ∧
    CacheOK m (m.fillC maxLen len c ip target).2 := by
  induction len using Nat.strongRecOn generalizing c ip target with
  | _ len ih =>
    match len with
    | 0 => exact ⟨rfl, h⟩
    | 1 =>
      unfold Model.fillC Model.fill
      cases m.findCp ip target target with
      | none => exact ⟨rfl, h⟩
      | some p => exact ⟨rfl, h⟩
    | len+2 =>
      have hL := fillLevelsC_inv m (fun c' ip' t' => m.fillC maxLen (len+1) c' ip' t')
        (m.fill (len+1)) (fun c ip t hc => ih (len+1) (by omega) c ip t hc) ip target (target+1)
        c target h
      have hfill : m.fill (len+2) ip target
          = m.fillLevels (m.fill (len+1)) ip target (target+1) target := by
        rw [Model.fill]
      rw [← hfill] at hL
      unfold Model.fillC
      by_cases hm : len + 2 ≤ maxLen
      · simp only [hm, if_true]
        cases hlk : c.lookup (ip, len+2, target) with
        | some r => exact ⟨h _ _ _ _ hlk, h⟩
        | none =>
          simp only
          exact ⟨hL.1, hL.2.update ip (len+2) target _ hL.1⟩
      · simp only [hm, if_false]
        exact hL

/-- hence any sequence of memoised calls, starting from the empty table, agrees with the table-free
function call by call -/
theorem fillC_run (m : Model) (maxLen : Nat) (calls : List (Nat × Str × Nat)) :
    (calls.foldl (fun (acc : List (Option (List Item)) × Cache) k =>
        let r := m.fillC maxLen k.1 acc.2 k.2.1 k.2.2
        (acc.1 ++ [r.1], r.2)) ([], [])).1 =
    calls.map fun k => m.fill k.1 k.2.1 k.2.2 := by
  suffices H : ∀ (acc : List (Option (List Item)) × Cache), CacheOK m acc.2 →
      (calls.foldl (fun (acc : List (Option (List Item)) × Cache) k =>
        let r := m.fillC maxLen k.1 acc.2 k.2.1 k.2.2
        (acc.1 ++ [r.1], r.2)) acc).1 =
      acc.1 ++ calls.map fun k => m.fill k.1 k.2.1 k.2.2 by
    simpa using H ([], []) (cacheOK_nil m)
  induction calls with
  | nil => intro acc _; simp
  | cons k rest ih =>
    intro acc hacc
    have hk := fillC_eq_fill m maxLen k.1 acc.2 k.2.1 k.2.2 hacc
    rw [List.foldl_cons, ih _ hk.2]
    simp [hk.1]

end Omen

/-! ## Non-vacuity: a concrete model, a call that warms the table and a call that hits it -/
namespace Omen

/-- 2-grams over {a, b}: after `a` come `a`,`b` (level 0) or `b` (level 1); after `b` comes `a` (level 1) -/
def exModel : Model :=
  { maxLevel := 3
    cp := [(['a'], [(0, ['a', 'b']), (1, ['b'])]), (['b'], [(1, ['a'])])] }

/-- table left behind by the first call (length 3, target level 1, table limit 4) -/
def exWarm : Cache := (exModel.fillC 4 3 [] ['a'] 1).2

/-- the first call finds a tree, and agrees with the table-free function -/
example : (exModel.fillC 4 3 [] ['a'] 1).1 = some [⟨['a'], 0, 0⟩, ⟨['a'], 0, 0⟩, ⟨['a'], 1, 0⟩] := by
  decide

example : (exModel.fillC 4 3 [] ['a'] 1).1 = exModel.fill 3 ['a'] 1 := by decide

/-- the warmed table holds the top-level key and the sub-problem keys (a success and a failure) -/
example : exWarm =
    [((['a'], 3, 1), some [⟨['a'], 0, 0⟩, ⟨['a'], 0, 0⟩, ⟨['a'], 1, 0⟩]),
     ((['a'], 2, 1), some [⟨['a'], 0, 0⟩, ⟨['a'], 1, 0⟩]),
     ((['b'], 2, 0), none)] := by decide

example : exWarm.lookup (['a'], 3, 1) = some (exModel.fill 3 ['a'] 1) := by decide

/-- the second call is answered from the table (table unchanged) and equals `fill` -/
example : exModel.fillC 4 3 exWarm ['a'] 1 = (exModel.fill 3 ['a'] 1, exWarm) := by decide

/-- a different top-level call (`b`, length 4, level 2) recurses into the key `(a, 3, 1)`, which is
answered from the warmed table: exactly one entry (its own) is added, and the result equals `fill` -/
example : exModel.fillC 4 4 exWarm ['b'] 2 =
    (exModel.fill 4 ['b'] 2, exWarm.update (['b'], 4, 2) (exModel.fill 4 ['b'] 2)) := by decide

example : exModel.fill 4 ['b'] 2 = some [⟨['b'], 1, 0⟩, ⟨['a'], 0, 0⟩, ⟨['a'], 0, 0⟩, ⟨['a'], 1, 0⟩] := by
  decide

/-- the general theorem instantiated on the warmed table -/
example : (exModel.fillC 4 4 exWarm ['b'] 2).1 = exModel.fill 4 ['b'] 2 :=
  (fillC_eq_fill exModel 4 4 exWarm ['b'] 2
    (fillC_eq_fill exModel 4 3 [] ['a'] 1 (cacheOK_nil _)).2).1

end Omen
