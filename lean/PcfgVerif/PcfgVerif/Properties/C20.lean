import PcfgVerif.Properties.EditCore
/-!
# C20 — edit_rules only removes base structures, and only those that fail the filter

`gText rows` is a grammar.txt whose lines are `labels<TAB>probability`.  The three filters are shown
to be plain `List.filter`s on the rows: survivors keep their order and are byte-identical
(structure and probability text), nothing else is produced.  "No other file touched" and `--copy`
are file-system facts checked by the harness (directory hashes).  The length claim: a kept
non-Markov structure has its label total within the bounds; labels A/D/O/K state the length of
their values and Y is 4, so every guess has that length — except for `X`, whose label number is not
a length (known finding).
-/
namespace Pcfg.C20

/-- min_length and max_length: exactly the rows whose label total passes, in order, unchanged -/
theorem C20_length_filter (mn mx : Nat) (rows : List (List CPs × CPs))
    (h : ∀ r ∈ rows, r.1 ≠ [] ∧ (∀ t ∈ r.1, IsLabel t) ∧ IsProbText r.2 ∧ (totalLen r.1).isSome) :
    (editLengthLines mn mx (textLines (gText rows))).map List.flatten =
      some (gText (rows.filter fun r => Generated.EditRules.keepLen ((totalLen r.1).getD 0) mn mx)) :=
  editLength_filter mn mx rows h

/-- `--terminal_set` -/
theorem C20_terminal_filter (allowed : List Nat) (rows : List (List CPs × CPs))
    (h : ∀ r ∈ rows, r.1 ≠ [] ∧ (∀ t ∈ r.1, IsLabel t) ∧ IsProbText r.2) :
    (editTerminalLines allowed (textLines (gText rows))).map List.flatten =
      some (gText (rows.filter fun r => r.1.all fun t => allowed.contains (t.headD 0))) :=
  editTerminal_filter allowed rows h

/-- `--regex` (the user's regexes as an abstract predicate on the structure string) -/
theorem C20_regex_filter (ok : CPs → Bool) (rows : List (List CPs × CPs))
    (h : ∀ r ∈ rows, r.1 ≠ [] ∧ (∀ t ∈ r.1, IsLabel t) ∧ IsProbText r.2) :
    (checkRegexLines ok (textLines (gText rows))).map List.flatten =
      some (gText (rows.filter fun r => ok r.1.flatten)) :=
  checkRegex_filter ok rows h

/-- a structure is never rewritten: its tokens are its labels, whatever their number of digits -/
theorem C20_labels_intact (labels : List CPs) (prob : CPs) (hl : ∀ t ∈ labels, IsLabel t)
    (hp : IsProbText prob) : tokenize (gLine labels prob) = labels :=
  tokenize_gLine labels prob hl hp

/-- a kept structure: the Markov structure (total 0), or min ≤ total and (no max or total ≤ max) -/
theorem C20_length_bounds (total mn mx : Nat) :
    Generated.EditRules.keepLen total mn mx = true ↔
      (total = 0 ∨ (mn ≤ total ∧ (mx = 0 ∨ total ≤ mx))) :=
  keepLen_spec total mn mx

/-- the length attributed to a label: its number for A, D, O, K (and X), 4 for Y, 0 otherwise (M) -/
theorem C20_label_length (c : Nat) (ds : CPs) (hc : isUpperAZ c = true) (hds : ds ≠ []) :
    tokenLen (c :: ds) =
      if c = 0x59 then some 4
      else if c = 0x41 ∨ c = 0x44 ∨ c = 0x4f ∨ c = 0x4b ∨ c = 0x58 then digitsVal ds
      else some 0 :=
  tokenLen_spec c ds hc hds

end Pcfg.C20
