import PcfgVerif.Model.EditRules
/-!
# C20 — edit_rules only removes base structures, and only those that fail the filter
(filter theorems are added when proved)
-/
namespace Pcfg.C20

/-- a year counts four characters -/
theorem C20_year_length : Generated.EditRules.yearLen = 4 ∧ Generated.EditRules.totalStart = 0 := by decide

end Pcfg.C20
