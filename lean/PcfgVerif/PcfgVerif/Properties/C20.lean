import PcfgVerif.Properties.EditCore
import PcfgVerif.Generated.CliOptions
import PcfgVerif.Generated.EditFs
import PcfgVerif.Model.ExpandSpec
/-!
# C20 — edit_rules only removes base structures, and only those that fail the filter

`gText rows` is a grammar.txt whose lines are `labels<TAB>probability`.  The three filters are shown
to be plain `List.filter`s on the rows: survivors keep their order and are byte-identical
(structure and probability text), nothing else is produced.  "No other file touched" and `--copy`
are file-system facts checked by the harness (directory hashes).  The length claim: every structure
gets a pair (shortest, longest) of guess lengths.  Labels A/D/O/K state the length of their values
and Y is 4, so they add the same number to both; an `X` label contributes between the shortest and
the longest context value of the ruleset (times its number), so a structure is kept only if even its
shortest guess reaches the minimum and even its longest stays within the maximum.  Hence every guess
of a kept non-Markov structure is within the bounds (`C20_guess_lengths`), and a removed structure
has a guess outside them (`C20_only_failing_removed`).
-/
namespace Pcfg.C20

/-- min_length and max_length: exactly the rows whose (shortest, longest) guess length passes, in
order, unchanged; `ctx` = shortest and longest context value of the ruleset -/
theorem C20_length_filter (ctx : Nat × Nat) (mn mx : Nat) (rows : List (List CPs × CPs))
    (h : ∀ r ∈ rows, r.1 ≠ [] ∧ (∀ t ∈ r.1, IsLabel t) ∧ IsProbText r.2 ∧ (totalLen ctx r.1).isSome) :
    (editLengthLines ctx mn mx (textLines (gText rows))).map List.flatten =
      some (gText (rows.filter fun r =>
        Generated.EditRules.keepLen ((totalLen ctx r.1).getD (0, 0)).1 ((totalLen ctx r.1).getD (0, 0)).2 mn mx)) :=
  editLength_filter ctx mn mx rows h

/-- `--terminal_set` -/
theorem C20_terminal_filter (allowed : List Nat) (rows : List (List CPs × CPs))
    (h : ∀ r ∈ rows, r.1 ≠ [] ∧ (∀ t ∈ r.1, IsLabel t) ∧ IsProbText r.2) :
    (editTerminalLines allowed (textLines (gText rows))).map List.flatten =
      some (gText (rows.filter fun r => r.1.all fun t => allowed.contains (t.headD 0))) :=
  editTerminal_filter allowed rows h

/-- `--regex` (the user's regexes as an abstract predicate on the structure string) -/
theorem C20_regex_filter (ok : CPs → Bool) (rows : List (List CPs × CPs))
    (h : ∀ r ∈ rows, r.1 ≠ [] ∧ (∀ t ∈ r.1, IsLabel t) ∧ IsProbText r.2) :
    (checkRegexLines ok (textLines (gText rows))).map List.flatten =
      some (gText (rows.filter fun r => ok r.1.flatten)) :=
  checkRegex_filter ok rows h

/-- a structure is never rewritten: its tokens are its labels, whatever their number of digits -/
theorem C20_labels_intact (labels : List CPs) (prob : CPs) (hl : ∀ t ∈ labels, IsLabel t)
    (hp : IsProbText prob) : tokenize (gLine labels prob) = labels :=
  tokenize_gLine labels prob hl hp

/-- a kept structure: the Markov structure (longest 0), or min ≤ shortest and (no max or longest ≤ max) -/
theorem C20_length_bounds (lo hi mn mx : Nat) :
    Generated.EditRules.keepLen lo hi mn mx = true ↔
      (hi = 0 ∨ (mn ≤ lo ∧ (mx = 0 ∨ hi ≤ mx))) :=
  keepLen_spec lo hi mn mx

set_option linter.unusedVariables false in
/-- the (shortest, longest) length attributed to a label: its number for A, D, O, K; 4 for Y; for X
the number times the shortest / longest context value; 0 otherwise (M) -/
theorem C20_label_length (ctx : Nat × Nat) (c : Nat) (ds : CPs) (hc : isUpperAZ c = true) (hds : ds ≠ []) :
    tokenLen ctx (c :: ds) =
      if c = 0x59 then some (4, 4)
      else if c = 0x41 ∨ c = 0x44 ∨ c = 0x4f ∨ c = 0x4b then (digitsVal ds).map fun n => (n, n)
      else if c = 0x58 then (digitsVal ds).map fun n => (n * ctx.1, n * ctx.2)
      else some (0, 0) :=
  tokenLen_spec ctx c ds hc hds

/-- every guess (one admissible value length per label) of a kept non-Markov structure has a length
within the requested bounds -/
theorem C20_guess_lengths (ctx : Nat × Nat) (toks : List CPs) (ls : List Nat) (mn mx lo hi : Nat)
    (hlen : ls.length = toks.length)
    (h : ∀ i (hi : i < toks.length), LabelLenOK ctx toks[i] (ls[i]'(by omega)))
    (ht : totalLen ctx toks = some (lo, hi)) (hnm : hi ≠ 0)
    (hk : Generated.EditRules.keepLen lo hi mn mx = true) :
    mn ≤ ls.sum ∧ (mx = 0 ∨ ls.sum ≤ mx) :=
  kept_guess_in_bounds ctx toks ls mn mx lo hi hlen h ht hnm hk

/-- a removed structure is not the Markov one and has a guess (all context values shortest, or all
longest) below the minimum or above the given maximum -/
theorem C20_only_failing_removed (lo hi mn mx : Nat)
    (hk : Generated.EditRules.keepLen lo hi mn mx = false) :
    hi ≠ 0 ∧ (lo < mn ∨ (mx ≠ 0 ∧ mx < hi)) :=
  removed_has_failing_guess lo hi mn mx hk

/-- where the label arithmetic and the real length part company (recorded known finding, replayed on the
real guesser by the harness): a letter whose upper-casing is longer than one character under a `U` mask.
The value `aß` stored under `A2` with the mask `LU` is emitted as `aSS` — three characters for a label that
says two; `LabelLenOK` (the premise of `C20_guess_lengths`) is what fails for such a value. -/
theorem C20_case_expansion_witness :
    productSpec (fun c => if c = 'ß' then ['S', 'S'] else [c.toUpper])
      [("A2", [[['a', 'ß']]]), ("C2", [[['L', 'U']]])] [] [("A2", 0), ("C2", 0)] = [['a', 'S', 'S']] := by
  decide


/-- **only `Grammar/grammar.txt` is ever written** (re-proved against the current source of `edit_rules.py` on every run): the
calls that can change the file system are one `shutil.copytree` (the `--copy` duplicate) and one write-open whose file name is
`os.path.join(…, 'Grammar', 'grammar.txt')`; with `--copy` the ruleset being edited is re-bound to the copy before that name is
computed, so the source ruleset is never opened for writing -/
theorem C20_only_grammar_written :
    (Generated.EditFs.writes.all fun w =>
      w == ("shutil.copytree", "") || w == ("open-write", "Grammar/grammar.txt")) = true ∧
    (Generated.EditFs.writes.filter fun w => w.1 == "open-write").length = 1 ∧
    Generated.EditFs.retargetsToCopy = true := by decide

/-- **the filters `edit_rules` applies are the ones typed** (option glue of `edit_rules.py`, regenerated from the source): the
bounds are `int()` of the typed values, the terminal set is the comma-separated list upper-cased, and `--regex` is split at commas
into the list of expressions `check_regex` requires *all* of - each expression passed on as typed -/
theorem C20_cli_passes_filters :
    Generated.CliOptions.editAssign =
      [("parse_command_line", "rule", "args.rule"),
       ("parse_command_line", "copy", "args.copy"),
       ("parse_command_line", "min_length", "int(args.min_length)"),
       ("parse_command_line", "max_length", "int(args.max_length)"),
       ("parse_command_line", "terminal_set", "[x.upper() for x in args.terminal_set.split(',')]"),
       ("parse_command_line", "terminal_set", "False"),
       ("parse_command_line", "regex", "[x for x in args.regex.split(',')]")] ∧
    Generated.CliOptions.editOptions.map (·.1) = ["--rule", "--copy", "--min_length", "--max_length", "--terminal_set", "--regex"] := by
  decide

/-- **every tool works on the same `Rules` folder** (regenerated from the five programs): the trainer, the guesser, `edit_rules.py`,
`prince_ling.py` and the scorer each build the ruleset directory from one and the same expression for their own location - so a ruleset
one tool wrote or edited under a name is the ruleset another tool reads under that name, from whatever directory or through whatever link
either was started -/
theorem C20_tools_share_the_rules_folder :
    (["trainer.py", "pcfg_guesser.py", "edit_rules.py", "prince_ling.py", "password_scorer.py"].all
      fun p => Generated.CliOptions.rulesDirRoots.any (·.1 == p)) = true ∧
    ∀ a ∈ Generated.CliOptions.rulesDirRoots, ∀ b ∈ Generated.CliOptions.rulesDirRoots, a.2 = b.2 := by
  decide

end Pcfg.C20
