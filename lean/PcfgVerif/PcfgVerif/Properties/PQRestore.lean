import PcfgVerif.Properties.PQCore
import PcfgVerif.Lemmas.GridRestore
/-! Core theorem of the next function started from a restored queue (C08). -/
namespace Pcfg
variable {P : Type} [Inhabited P]

/-- C08: resuming from saved probability `m` (with `min_probability` below everything) emits exactly
the nodes of probability ≤ m, each once, in non-increasing order -/
theorem pq_resume (A : PAlg P) (g : Grid P) (hwf : WF A.toPOps g) (m mn : P)
    (hmin : ∀ v, ValidNode g v → A.lt (nodeProb A.toPOps g v) mn = false)
    (s : PQState) (h : Reach A.toPOps g (restoreNodes A.toPOps g m mn) s) :
    (s.popped ++ s.queue).Nodup ∧
    NonIncreasing A.toPOps g s.popped ∧
    (∀ v ∈ s.popped ++ s.queue, ValidNode g v ∧ A.le (nodeProb A.toPOps g v) m = true) ∧
    (s.queue = [] → s.popped.Perm ((allNodes g).filter fun v => A.le (nodeProb A.toPOps g v) m)) := by
  have ⟨h1, h2, h3, h4, _⟩ := reach_summary A g (restoreSys A g m) _
    (restoreNodes_perm A g hwf m mn hmin) (restoreSys_children_ok A g hwf m)
    (restoreSys_le A g hwf m) s h
  exact ⟨h1, h2, fun v hv => (mem_restoreSys_all A g m v).mp (h3 v hv), h4⟩

namespace Example

/-- resume with saved probability 64: the rebuilt queue is the two tied nodes -/
example : restoreNodes natAlg.toPOps g0 64 0 = [⟨0, [1, 0]⟩, ⟨0, [0, 1]⟩] := by decide

theorem hmin0 : ∀ v, ValidNode g0 v → natAlg.lt (nodeProb natAlg.toPOps g0 v) 0 = false := by
  intro v _; simp [POps.lt, natAlg]

def finalR : PQState := ⟨[], [⟨0, [1, 0]⟩, ⟨0, [0, 1]⟩, ⟨0, [1, 1]⟩]⟩

theorem reachR : Reach natAlg.toPOps g0 (restoreNodes natAlg.toPOps g0 64 0) finalR := by
  have h0 : Reach natAlg.toPOps g0 (restoreNodes natAlg.toPOps g0 64 0)
    ⟨restoreNodes natAlg.toPOps g0 64 0, []⟩ := Reach.init
  have h1 := Reach.step (x := ⟨0, [1, 0]⟩) h0 (by decide)
  have h2 := Reach.step (x := ⟨0, [0, 1]⟩) h1 (by decide)
  have h3 := Reach.step (x := ⟨0, [1, 1]⟩) h2 (by decide)
  exact h3

example : finalR.popped.Perm
    ((allNodes g0).filter fun v => natAlg.le (nodeProb natAlg.toPOps g0 v) 64) :=
  (pq_resume natAlg g0 wf0 64 0 hmin0 finalR reachR).2.2.2 rfl

end Example

end Pcfg
