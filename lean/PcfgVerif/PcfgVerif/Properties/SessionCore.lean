import PcfgVerif.Model.Session
import PcfgVerif.Lemmas.SessionLemmas
/-! Statements to be proved (work file for C12 and C15). -/
namespace Pcfg.Sess

/-- what a session started from the files `f` still has to print: the rest of an interrupted Markov
level (if the save file asks for it), then everything from the saved position on -/
def remaining (us : List Unit') (f : Files) : List Line :=
  (if f.omenOpt then f.omn.getD [] else []) ++ fullStream (us.drop (f.savPos.getD 0))

theorem remaining_eq (us : List Unit') (f : Files) : remaining us f = remainingL us f := rfl

def mainSteps (sched : List Actor) : Nat := sched.count .main

/-- no line of the script is the quit command -/
def NoQuit (stdin : List Ev) : Prop := ∀ t f, Ev.line t f ∈ stdin → t ≠ "q"

/-- C12 (a): whatever the schedule and whatever happens on standard input, the output is a prefix of
what the uninterrupted run prints from the saved position — never reordered, altered or extended -/
theorem out_is_prefix (us : List Unit') (f : Files) (stdin : List Ev) (sched : List Actor) :
    ∃ n, (run us (initLoad f stdin) sched).out = (remaining us f).take n := by
  have h := (inv_run us f stdin sched).outp
  refine ⟨(run us (initLoad f stdin) sched).out.length, ?_⟩
  rw [remaining_eq, ← h, List.take_left']
  rfl

/-- C12 (b): without a `q` line the session never stops early and never saves a quit position:
EOF, errors, status / help requests, a dead keyboard thread change nothing -/
theorem no_quit_no_exit (us : List Unit') (f : Files) (stdin : List Ev) (sched : List Actor)
    (hq : NoQuit stdin) :
    (run us (initLoad f stdin) sched).shouldExit = false ∧
    (run us (initLoad f stdin) sched).main ≠ .exited ∧
    (run us (initLoad f stdin) sched).omenExit = false := by
  have h := (NQ.init f stdin hq).run (us := us) sched
  exact ⟨h.se, h.ne, h.oe⟩

/-- C12 (c): progress — once the main actor has been scheduled often enough it has terminated -/
theorem main_terminates (us : List Unit') (f : Files) (stdin : List Ev) (sched : List Actor)
    (hn : (remaining us f).length + 2 * us.length + 3 ≤ mainSteps sched) :
    (run us (initLoad f stdin) sched).main = .finished ∨ (run us (initLoad f stdin) sched).main = .exited := by
  apply terminates_of_steps
  rw [remaining_eq] at hn
  unfold mainSteps at hn
  omega

/-- C12: hence without a `q` line every fair schedule prints the whole remaining stream -/
theorem full_stream_without_quit (us : List Unit') (f : Files) (stdin : List Ev) (sched : List Actor)
    (hq : NoQuit stdin) (hn : (remaining us f).length + 2 * us.length + 3 ≤ mainSteps sched) :
    (run us (initLoad f stdin) sched).main = .finished ∧
    (run us (initLoad f stdin) sched).out = remaining us f := by
  have hnq := no_quit_no_exit us f stdin sched hq
  have hfin : (run us (initLoad f stdin) sched).main = .finished := by
    rcases main_terminates us f stdin sched hn with h | h
    · exact h
    · exact absurd h hnq.2.1
  refine ⟨hfin, ?_⟩
  have hi := (inv_run us f stdin sched).outp
  simp only [pending, hfin, omenRest, hnq.2.2] at hi
  rw [remaining_eq]
  simpa using hi

/-- C12 (d): the session only exits early after a `q` line was read, and then the state has been saved -/
theorem exit_only_after_quit (us : List Unit') (f : Files) (stdin : List Ev) (sched : List Actor)
    (h : (run us (initLoad f stdin) sched).main = .exited) :
    (run us (initLoad f stdin) sched).quitSeen = true ∧
    ((run us (initLoad f stdin) sched).files.savPos).isSome = true := by
  exact (inv_run us f stdin sched).exited h

/-- C15 / C12: an early exit loses nothing and repeats nothing: what was printed, followed by what a
session resumed from the files left behind will print, is exactly what remained at the start.
(Applies to every later quit/resume cycle as well, since it holds for any starting files `f`.) -/
theorem exit_resume_exact (us : List Unit') (f : Files) (hf : f.omenOpt = true → f.omn.isSome = true)
    (stdin : List Ev) (sched : List Actor)
    (h : (run us (initLoad f stdin) sched).main = .exited) :
    (run us (initLoad f stdin) sched).out ++ remaining us (run us (initLoad f stdin) sched).files
      = remaining us f := by
  have _ := hf -- not needed: the equation holds for arbitrary start files
  have hi := (inv_run us f stdin sched).outp
  simp only [pending, h] at hi
  exact hi

/-- a session that runs to the end without a quit inside a Markov level printed everything -/
theorem finished_complete (us : List Unit') (f : Files) (stdin : List Ev) (sched : List Actor)
    (h : (run us (initLoad f stdin) sched).main = .finished)
    (ho : (run us (initLoad f stdin) sched).omenExit = false) :
    (run us (initLoad f stdin) sched).out = remaining us f := by
  have hi := (inv_run us f stdin sched).outp
  simp only [pending, h, omenRest, ho] at hi
  rw [remaining_eq]
  simpa using hi

/-- C15: a resumed session whose interrupted Markov level ran to its end no longer asks for it: the
files it leaves on a later quit do not replay the remainder -/
theorem no_replay (us : List Unit') (f : Files) (hf : f.omenOpt = true → f.omn.isSome = true)
    (stdin : List Ev) (sched : List Actor)
    (h : (run us (initLoad f stdin) sched).main = .exited)
    (ho : (run us (initLoad f stdin) sched).omenExit = false) :
    (run us (initLoad f stdin) sched).files.omenOpt = false := by
  cases hopt : (run us (initLoad f stdin) sched).files.omenOpt with
  | false => rfl
  | true =>
    rcases (inv_run us f stdin sched).opt ho hopt with ⟨i, rest, hm⟩ | ⟨_, h1, h2⟩
    · rw [h] at hm; exact Main.noConfusion hm
    · have := hf h1
      rw [h2] at this
      exact absurd this (by decide)

/-- a new session is a resumed session at position 0 with no Markov remainder -/
theorem initNew_eq (stdin : List Ev) : initNew stdin = initLoad { savPos := some 0 } stdin := by
  rfl

/-- the facts of the source the theorems above rest on -/
theorem source_facts : Generated.Session.quitSrc = .shouldExit ∧ Generated.Session.removesOmenOption = true ∧
    Generated.Session.keepsQuitOnStatusFailure = true := by
  exact srcFacts

/-! ## Sharper forms and necessity of the hypotheses -/

/-- the step count: one main step per line, at most two per unit (the pop; for a Markov level the generator's last
call), one to find the queue empty (`main_terminates` allows one more) -/
theorem main_terminates_tight (us : List Unit') (f : Files) (stdin : List Ev) (sched : List Actor)
    (hn : (remaining us f).length + 2 * us.length + 2 ≤ mainSteps sched) :
    (run us (initLoad f stdin) sched).main = .finished ∨ (run us (initLoad f stdin) sched).main = .exited :=
  terminates_of_steps us f stdin sched hn

/-- `exit_resume_exact` does not need `hf` -/
theorem exit_resume_exact_all (us : List Unit') (f : Files) (stdin : List Ev) (sched : List Actor)
    (h : (run us (initLoad f stdin) sched).main = .exited) :
    (run us (initLoad f stdin) sched).out ++ remaining us (run us (initLoad f stdin) sched).files
      = remaining us f := by
  have hi := (inv_run us f stdin sched).outp
  simp only [pending, h] at hi
  exact hi

section Examples

private def us3 : List Unit' := [.plain [[1], [2]], .markov [[3], [4], [5]], .plain [[6]]]
private def us4 : List Unit' := [.plain [[1], [2]], .markov [[3], [4], [5]], .plain [[6]], .plain [[7]]]
private def mains (n : Nat) : List Actor := List.replicate n .main

/-- the step count: 6 lines + 3 pops + 1 last generator call of the Markov level + 1 = 11 main steps are needed,
10 are not enough (`main_terminates_tight` allows two steps per unit) -/
example : (run us3 (initNew []) (mains 10)).main = .loopHead 3 ∧
    (run us3 (initNew []) (mains 11)).main = .finished := by decide

/-- (1) the keyboard thread dies at once on EOF (stdin closed / not a terminal) and is scheduled
first: the session still prints everything.  (With a quit test reading "keyboard thread not alive"
this schedule stops after 0 guesses.) -/
example : (run us3 (initNew [.eof]) (.kbd :: mains 11)).kbd = .dead ∧
    (run us3 (initNew [.eof]) (.kbd :: mains 11)).main = .finished ∧
    (run us3 (initNew [.eof]) (.kbd :: mains 11)).out = fullStream us3 := by decide

example : NoQuit [.eof] ∧ NoQuit [.line "s" true, .line "h" false, .err] := by
  constructor <;> intro t f h <;> simp at h <;> grind

/-- first session: `q` is typed while the Markov unit is being printed (after guess `[3]`) -/
private def sess1 : St := run us4 (initNew [.line "q" false]) (mains 5 ++ [.kbd, .kbd] ++ mains 3)
/-- second session, resumed from the files of the first; `q` is handled after the last string of the restored level
was printed and before the generator's last call (which finds nothing): the narrowest window -/
private def sess2 : St := run us4 (initLoad sess1.files [.line "q" false]) (mains 1 ++ [.kbd, .kbd] ++ mains 3)
/-- third session, resumed from the files of the second, runs to the end -/
private def sess3 : St := run us4 (initLoad sess2.files []) (mains 10)

/-- (2) the session exits, the `.omn` file holds the unprinted rest of the level, and the resumed
session prints exactly that rest and then everything after it -/
example : sess1.main = .exited ∧ sess1.out = [[1], [2], [3], [4]] ∧
    sess1.files = { savPos := some 2, omenOpt := true, omn := some [[5]] } ∧
    (run us4 (initLoad sess1.files []) (mains 7)).main = .finished ∧
    (run us4 (initLoad sess1.files []) (mains 7)).out = [[5], [6], [7]] ∧
    sess1.out ++ (run us4 (initLoad sess1.files []) (mains 7)).out = fullStream us4 := by decide

/-- (3) third cycle: the second session finishes the restored level, drops the option, is quit
later; the third session prints no line of the Markov level again -/
example : sess2.main = .exited ∧ sess2.out = [[5]] ∧ sess2.omenExit = false ∧
    sess2.files = { savPos := some 2, omenOpt := false, omn := some [[5]] } ∧
    sess3.main = .finished ∧ sess3.out = [[6], [7]] ∧
    sess1.out ++ sess2.out ++ sess3.out = fullStream us4 := by decide

/-- (3') quitting again inside the restored level: the `.omn` file shrinks, nothing is repeated -/
example :
    let a := run us4 (initNew [.line "q" false]) (mains 4 ++ [.kbd, .kbd] ++ mains 3)
    let b := run us4 (initLoad a.files [.line "q" false]) ([.kbd, .kbd] ++ mains 3)
    let c := run us4 (initLoad b.files []) (mains 10)
    a.main = .exited ∧ a.out = [[1], [2], [3]] ∧ a.files.omn = some [[4], [5]] ∧
    b.main = .exited ∧ b.out = [[4]] ∧ b.files = { savPos := some 2, omenOpt := true, omn := some [[5]] } ∧
    c.main = .finished ∧ c.out = [[5], [6], [7]] := by decide

/-- the hypothesis `omenExit = false` of `finished_complete` is needed: a quit request noticed inside
the LAST unit, a Markov level, makes the main loop find the queue empty and finish without saving;
the rest of the level is then neither printed nor asked for by the save file -/
example :
    let us : List Unit' := [.plain [[1]], .markov [[2], [3], [4]]]
    let s := run us (initNew [.line "q" false]) (mains 4 ++ [.kbd, .kbd] ++ mains 3)
    s.main = .finished ∧ s.omenExit = true ∧ s.out = [[1], [2], [3]] ∧
    s.files = { savPos := some 0, omenOpt := false, omn := some [[4]] } ∧
    s.out ≠ remaining us { savPos := some 0 } := by decide

/-- the hypothesis `hf` of `no_replay` is needed: an option without an `.omn` file is never removed -/
example :
    let f : Files := { savPos := some 0, omenOpt := true, omn := none }
    let s := run us3 (initLoad f [.line "q" false]) ([.kbd, .kbd] ++ mains 2)
    s.main = .exited ∧ s.omenExit = false ∧ s.files.omenOpt = true := by decide

/-- `initLoad` with the option set and an empty `.omn` remainder: the first main step (the generator call that finds
nothing) reaches the loop head and drops the option -/
example : (initLoad { savPos := some 1, omenOpt := true, omn := some [] } []).main = .omen 1 [] true ∧
    (run us3 (initLoad { savPos := some 1, omenOpt := true, omn := some [] } []) (mains 1)).main = .loopHead 1 ∧
    (run us3 (initLoad { savPos := some 1, omenOpt := true, omn := some [] } []) (mains 1)).files.omenOpt = false := by
  decide

/-- a status request whose printing fails kills the keyboard thread but does not stop the session;
a `q` whose status printing fails is still honoured -/
example : (run us3 (initNew [.line "s" true]) ([.kbd, .kbd] ++ mains 10)).out = fullStream us3 ∧
    (run us3 (initNew [.line "q" true]) ([.kbd, .kbd] ++ mains 10)).main = .exited := by decide

end Examples


end Pcfg.Sess
