import PcfgVerif.Model.DetectSpec
import PcfgVerif.Lemmas.DetectA1
import PcfgVerif.Lemmas.DetectA2
import PcfgVerif.Lemmas.DetectA3
import PcfgVerif.Lemmas.DetectA4
/-! Statements to be proved, part A: generic loop + e-mail, website, year, context detectors. -/
namespace Pcfg.Detect

set_option linter.unusedVariables false in
/-- tiling is stable under replacing an unlabelled section by pieces that tile it
(`hl` is not needed for the proof; kept as stated) -/
theorem tiles_replace (U : UEnv) (pw : CPs) (off : Nat) (text : CPs) (pieces rest : List Sec)
    (hl : LenPres U pw)
    (h : TilesFrom U pw off ((text, none) :: rest))
    (hp : TilesFrom U text 0 pieces) :
    TilesFrom U pw off (pieces ++ rest) :=
  tiles_replace' U pw off text pieces rest h hp

/-- sub-slices of a length-preserving string are length-preserving -/
theorem lenPres_slice (U : UEnv) (pw : CPs) (a b : Nat) (h : LenPres U pw) : LenPres U (slice pw a b) :=
  lenPres_slice' U pw a b h

/-- the list-level loop preserves tiling (for either advance rule, any fuel) -/
theorem splitLoop_tiles {F : Type} (U : UEnv) (detect : CPs → Option (List Sec × F)) (adv : Advance)
    (hd : DetectorOK U detect) (pw : CPs) (hl : LenPres U pw)
    (fuel : Nat) (done todo : List Sec) (found : List F)
    (h : TilesFrom U pw 0 (done ++ todo)) :
    TilesFrom U pw 0 (splitLoop detect adv fuel done todo found).1 :=
  splitLoop_tiles' U detect adv hd pw hl fuel done todo found h

/-- labelled sections are never touched by the loop: they all survive, in order -/
theorem splitLoop_keeps_labelled {F : Type} (detect : CPs → Option (List Sec × F)) (adv : Advance)
    (fuel : Nat) (done todo : List Sec) (found : List F) (s : Sec) (hs : s.2.isSome = true)
    (hm : s ∈ done ++ todo) : s ∈ (splitLoop detect adv fuel done todo found).1 :=
  splitLoop_keeps_labelled' detect adv s hs fuel done todo found hm

theorem detectEmail_ok (U : UEnv) : DetectorOK U (detectEmail U) := detectEmail_ok' U

theorem detectWebsite_ok (U : UEnv) : DetectorOK U (detectWebsite U) := detectWebsite_ok' U

theorem detectYear_ok (U : UEnv) : DetectorOK U (detectYear U) := detectYear_ok' U

theorem detectContext_ok (U : UEnv) : DetectorOK U (detectContext U) := detectContext_ok' U

/-- a year segment is four digits starting with one of the prefixes `19` / `20` -/
theorem detectYear_sound (U : UEnv) (text : CPs) (pieces : List Sec) (y : CPs)
    (h : detectYear U text = some (pieces, y)) :
    y.length = 4 ∧ (∃ pre ∈ Generated.Tables.yearPrefixes, y.take 2 = pre) ∧
    U.isDigit (y.getD 2 0) = true ∧ U.isDigit (y.getD 3 0) = true ∧ (y, some "Y1") ∈ pieces :=
  detectYear_sound' U text pieces y h

/-- a context segment is a member of the fixed list -/
theorem detectContext_sound (U : UEnv) (text : CPs) (pieces : List Sec) (c : CPs)
    (h : detectContext U text = some (pieces, c)) :
    c ∈ Generated.Tables.contextList ∧ (c, some "X1") ∈ pieces :=
  detectContext_sound' U text pieces c h

/-! ## Non-vacuity: a concrete ASCII environment -/

/-- ASCII-only stand-in for CPython's Unicode database -/
def asciiU : UEnv where
  isAlpha c := (decide (65 ≤ c) && decide (c ≤ 90)) || (decide (97 ≤ c) && decide (c ≤ 122))
  isDigit c := decide (48 ≤ c) && decide (c ≤ 57)
  isUpper c := decide (65 ≤ c) && decide (c ≤ 90)
  lowerS s := s.map fun c => if 65 ≤ c ∧ c ≤ 90 then c + 32 else c
  lowerPy s := s.map fun c => if 65 ≤ c ∧ c ≤ 90 then c + 32 else c

/-- the hypothesis `LenPres` is satisfiable: it holds for every password under `asciiU` -/
theorem asciiU_lenPres (pw : CPs) : LenPres asciiU pw := by
  intro a b
  simp [asciiU]

/-- the starting point of the pipeline: a non-empty password as one unlabelled section -/
theorem tilesFrom_single (U : UEnv) (pw : CPs) (h : pw ≠ []) : TilesFrom U pw 0 [(pw, none)] := by
  refine ⟨⟨h, by simp, fun _ => by simp [slice], fun h => by simp at h⟩, by simp [TilesFrom]⟩

/-- the loop theorem instantiated: the four detector passes of the pipeline keep a tiling of `pw` -/
example (pw : CPs) (h : pw ≠ []) (f1 f2 f3 f4 : Nat) :
    let s1 := (splitLoop (detectEmail asciiU) .skipFirst f1 [] [(pw, none)] []).1
    let s2 := (splitLoop (detectWebsite asciiU) .skipFirst f2 [] s1 []).1
    let s3 := (splitLoop (detectYear asciiU) .recheck f3 [] s2 []).1
    let s4 := (splitLoop (detectContext asciiU) .recheck f4 [] s3 []).1
    TilesFrom asciiU pw 0 s4 := by
  intro s1 s2 s3 s4
  have hl := asciiU_lenPres pw
  have h1 : TilesFrom asciiU pw 0 s1 :=
    splitLoop_tiles asciiU _ _ (detectEmail_ok asciiU) pw hl f1 [] _ [] (tilesFrom_single asciiU pw h)
  have h2 : TilesFrom asciiU pw 0 s2 :=
    splitLoop_tiles asciiU _ _ (detectWebsite_ok asciiU) pw hl f2 [] _ [] h1
  have h3 : TilesFrom asciiU pw 0 s3 :=
    splitLoop_tiles asciiU _ _ (detectYear_ok asciiU) pw hl f3 [] _ [] h2
  exact splitLoop_tiles asciiU _ _ (detectContext_ok asciiU) pw hl f4 [] _ [] h3

-- e-mail: "bob@gmail.com1" ↦ E "bob@gmail.com", then "1"
example : detectEmail asciiU (cpsOfString "bob@gmail.com1") =
    some ([(cpsOfString "bob@gmail.com", some "E"), (cpsOfString "1", none)],
      (cpsOfString "bob@gmail.com", cpsOfString "gmail.com")) := by decide

-- e-mail: lower-casing only affects the reported item, the section keeps its case
example : detectEmail asciiU (cpsOfString "Bob@Gmail.COM") =
    some ([(cpsOfString "Bob@Gmail.COM", some "E")],
      (cpsOfString "bob@gmail.com", cpsOfString "gmail.com")) := by decide

-- website with prefix and path
example : detectWebsite asciiU (cpsOfString "xhttp://www.google.com/abc") =
    some ([(cpsOfString "x", none), (cpsOfString "http://www.google.com/abc", some "W")],
      (cpsOfString "http://www.google.com/abc", cpsOfString "google.com",
        some (cpsOfString "http://www."))) := by decide

-- website: the W section is the lower-cased text; ".com" inside "community" is skipped
example : detectWebsite asciiU (cpsOfString "ABwww.Google.com12") =
    some ([(cpsOfString "AB", none), (cpsOfString "www.google.com", some "W"), (cpsOfString "12", none)],
      (cpsOfString "www.google.com", cpsOfString "google.com", some (cpsOfString "www."))) := by decide

example : detectWebsite asciiU (cpsOfString "a.community.com") =
    some ([(cpsOfString "a.community.com", some "W")],
      (cpsOfString "a.community.com", cpsOfString "community.com", none)) := by decide

example : detectWebsite asciiU (cpsOfString "a.community.comX") = none := by decide

-- years: a fifth digit disqualifies; the first prefix in the table wins
example : detectYear asciiU (cpsOfString "ab19991") = none := by decide

example : detectYear asciiU (cpsOfString "x2012y1999") =
    some ([(cpsOfString "x2012y", none), (cpsOfString "1999", some "Y1")], cpsOfString "1999") := by decide

example : (splitLoop (detectYear asciiU) .recheck 100 [] [(cpsOfString "x2012y1999", none)] []) =
    ([(cpsOfString "x", none), (cpsOfString "2012", some "Y1"), (cpsOfString "y", none),
      (cpsOfString "1999", some "Y1")], [cpsOfString "1999", cpsOfString "2012"]) := by decide

-- context-sensitive strings
example : detectContext asciiU (cpsOfString "i<3you#1") =
    some ([(cpsOfString "i<3you", none), (cpsOfString "#1", some "X1")], cpsOfString "#1") := by decide

example : detectContext asciiU (cpsOfString "#12") =
    some ([(cpsOfString "#1", some "X1"), (cpsOfString "2", none)], cpsOfString "#1") := by decide

example : (splitLoop (detectContext asciiU) .recheck 100 [] [(cpsOfString "i<3you#1", none)] []).1 =
    [(cpsOfString "i<3", some "X1"), (cpsOfString "you", none), (cpsOfString "#1", some "X1")] := by decide

end Pcfg.Detect
