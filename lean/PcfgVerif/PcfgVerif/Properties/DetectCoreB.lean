import PcfgVerif.Model.DetectSpec
import PcfgVerif.Lemmas.DetectB1
import PcfgVerif.Lemmas.DetectB2
/-! Statements to be proved, part B: keyboard walks. -/
namespace Pcfg.Detect

/-- the keyboard-walk pass tiles the password (it never lower-cases: all sections are exact slices),
no section is empty, walks are labelled `K<length>` -/
theorem detectKeyboardWalk_tiles (U : UEnv) (pw : CPs) (hne : pw ≠ []) :
    TilesFrom U pw 0 (detectKeyboardWalk U pw).1 ∧
    ∀ s ∈ (detectKeyboardWalk U pw).1, s.2 = none ∨ s.2 = some (lbl 'K' s.1.length) := by
  have h := kwScan_out U _ one_le_minKeyboardRun (2 * pw.length + 2) pw pw 0 {} [] hne
    (by simp) (by simp)
  exact ⟨h.1, h.2.1⟩

/-- the walks reported are exactly the `K` sections, in order -/
theorem detectKeyboardWalk_found (U : UEnv) (pw : CPs) (hne : pw ≠ []) :
    (detectKeyboardWalk U pw).2 =
      ((detectKeyboardWalk U pw).1.filter (fun s => s.2.isSome)).map (·.1) := by
  have h := kwScan_out U _ one_le_minKeyboardRun (2 * pw.length + 2) pw pw 0 {} [] hne
    (by simp) (by simp)
  exact h.2.2

/-- two consecutive keys of a walk are neighbours on a common layout -/
def adjacentOn (b : Nat) (c d : Nat) : Prop :=
  ∃ p q, p ∈ findKey c ∧ q ∈ findKey d ∧ p.board = b ∧ q.board = b ∧ b ∈ nextOn [p] [q]

set_option linter.unusedVariables false in
/-- a keyboard segment is a walk: at least `minKeyboardRun` keys, consecutive keys adjacent on one
layout that is common to the whole walk, it passes the `interesting` filter (≥ 2 character classes,
not black-listed) -/
theorem detectKeyboardWalk_sound (U : UEnv) (pw : CPs) (hne : pw ≠ []) (w : CPs)
    (hw : w ∈ (detectKeyboardWalk U pw).2) :
    Generated.Tables.minKeyboardRun ≤ w.length ∧ interesting U w = true ∧
    ∃ b, ∀ i, i + 1 < w.length → adjacentOn b (w.getD i 0) (w.getD (i + 1) 0) := by
  obtain ⟨h1, h2, b, h3⟩ := kwScan_sound U _ _ pw pw 0 {} KWInv.init w hw
  exact ⟨h1, h2, b, h3⟩

/-- `interesting` implies at least two of the classes letter / digit / other occur -/
theorem interesting_classes (U : UEnv) (w : CPs) (h : interesting U w = true) :
    (if w.any U.isAlpha then 1 else 0) + (if w.any (fun c => !U.isAlpha c && U.isDigit c) then 1 else 0) +
      (if w.any (fun c => !U.isAlpha c && !U.isDigit c) then 1 else 0) ≥ 2 ∧
    ∀ fp ∈ Generated.Tables.falsePositiveWords, containsSub (U.lowerPy w) fp = false := by
  unfold interesting at h
  simp only [] at h
  iterate 7 (split at h; · exact absurd h (by simp))
  split at h
  · exact absurd h (by simp)
  rename_i hfp
  constructor
  · have := of_decide_eq_true h
    omega
  · intro fp hfp'
    rw [Bool.not_eq_true, List.any_eq_false] at hfp
    simpa using hfp fp hfp'

/-! ## non-vacuity: a concrete ASCII environment and `"pass1qaz"` -/

/-- ASCII-only stand-in for the Unicode database -/
def asciiEnv : UEnv where
  isAlpha c := (65 ≤ c && c ≤ 90) || (97 ≤ c && c ≤ 122)
  isDigit c := 48 ≤ c && c ≤ 57
  isUpper c := 65 ≤ c && c ≤ 90
  lowerS s := s.map fun c => if 65 ≤ c && c ≤ 90 then c + 32 else c
  lowerPy s := s.map fun c => if 65 ≤ c && c ≤ 90 then c + 32 else c

/-- `"pass1qaz"` -/
def pass1qaz : CPs := [112, 97, 115, 115, 49, 113, 97, 122]

example : detectKeyboardWalk asciiEnv pass1qaz =
    ([([112, 97, 115, 115], none), ([49, 113, 97, 122], some "K4")], [[49, 113, 97, 122]]) := by
  decide

example : pass1qaz ≠ [] := by decide

/-- the hypotheses of the theorems are satisfiable and their conclusions say something on this input -/
example : TilesFrom asciiEnv pass1qaz 0
    [([112, 97, 115, 115], none), ([49, 113, 97, 122], some "K4")] :=
  (detectKeyboardWalk_tiles asciiEnv pass1qaz (by decide)).1

example : lbl 'K' 4 = "K4" := by decide

example : [[49, 113, 97, 122]] =
    (([([112, 97, 115, 115], none), ([49, 113, 97, 122], some "K4")] : List Sec).filter
      (fun s => s.2.isSome)).map (·.1) :=
  detectKeyboardWalk_found asciiEnv pass1qaz (by decide)

/-- `1qaz` is a walk on some layout, is long enough and interesting -/
example : 4 ≤ ([49, 113, 97, 122] : CPs).length ∧ interesting asciiEnv [49, 113, 97, 122] = true ∧
    ∃ b, ∀ i, i + 1 < ([49, 113, 97, 122] : CPs).length →
      adjacentOn b (([49, 113, 97, 122] : CPs).getD i 0) (([49, 113, 97, 122] : CPs).getD (i + 1) 0) :=
  detectKeyboardWalk_sound asciiEnv pass1qaz (by decide) [49, 113, 97, 122] (by decide)

/-- the adjacency relation is not trivially true: `1` and `z` are not neighbours on the first layout,
`1`–`q` are -/
example : (findKey 49, findKey 113, findKey 122) =
    ([⟨0, 1, 0⟩, ⟨1, 1, 0⟩], [⟨0, 2, 0⟩], [⟨0, 4, 0⟩]) := by decide
example : nextOn (findKey 49) (findKey 113) = [0] ∧ nextOn (findKey 49) (findKey 122) = [] := by decide
example : adjacentOn 0 49 113 := ⟨⟨0, 1, 0⟩, ⟨0, 2, 0⟩, by decide, by decide, rfl, rfl, by decide⟩
example : ¬ adjacentOn 0 49 122 := by
  rintro ⟨p, q, hp, hq, _, _, h⟩
  have hp' : p = ⟨0, 1, 0⟩ ∨ p = ⟨1, 1, 0⟩ := by
    have : findKey 49 = [⟨0, 1, 0⟩, ⟨1, 1, 0⟩] := by decide
    simpa [this] using hp
  have hq' : q = ⟨0, 4, 0⟩ := by
    have : findKey 122 = [⟨0, 4, 0⟩] := by decide
    simpa [this] using hq
  subst hq'
  rcases hp' with rfl | rfl <;> revert h <;> decide

/-- `interesting` really filters: all-letter `qwerty` is rejected, and the conclusion of
`interesting_classes` on `1qaz` -/
example : interesting asciiEnv [113, 119, 101, 114, 116, 121] = false := by decide
example : detectKeyboardWalk asciiEnv [113, 119, 101, 114, 116, 121] =
    ([([113, 119, 101, 114, 116, 121], none)], []) := by decide
example := interesting_classes asciiEnv [49, 113, 97, 122] (by decide)

end Pcfg.Detect

section
open Pcfg.Detect
end
