import PcfgVerif.Properties.ScoreCoreA
import PcfgVerif.Properties.ScoreCoreB
/-! C03 end to end: a supported training password whose segments are listed in the ruleset
is one of the guesses of a pre-terminal of the guesser's grammar. -/
namespace Pcfg.Detect
open Pcfg

/-- everything the parser tallied for the password has an entry of non-zero probability in the list it
was tallied into (C06: every counted item is written with probability count/total > 0), and so has its
base structure -/
structure AllListed {P : Type} (zero : P) (g : ScoreG P) (p : Parsed) : Prop where
  walks : ∀ v ∈ p.walks, g.look zero (lbl 'K' v.length) v ≠ zero
  years : ∀ v ∈ p.years, g.look zero "Y" v ≠ zero
  contexts : ∀ v ∈ p.contexts, g.look zero "X" v ≠ zero
  alphas : ∀ v ∈ p.alphas, g.look zero (lbl 'A' v.length) v ≠ zero
  masks : ∀ v ∈ p.masks, g.look zero (lbl 'C' v.length) v ≠ zero
  digits : ∀ v ∈ p.digits, g.look zero (lbl 'D' v.length) v ≠ zero
  others : ∀ v ∈ p.others, g.look zero (lbl 'O' v.length) v ≠ zero
  base : g.look zero "B" (cpsOfString p.structure') ≠ zero

/-- a left fold of `mul` over non-zero factors from a non-zero start is non-zero -/
theorem foldl_mul_ne_zero {P : Type} (mul : P → P → P) (zero : P)
    (hnzd : ∀ a b, a ≠ zero → b ≠ zero → mul a b ≠ zero) (f : CPs → P) :
    ∀ (items : List CPs) (acc : P), acc ≠ zero → (∀ v ∈ items, f v ≠ zero) →
      items.foldl (fun a v => mul a (f v)) acc ≠ zero
  | [], acc, ha, _ => ha
  | v :: vs, acc, ha, h => by
    rw [List.foldl_cons]
    exact foldl_mul_ne_zero mul zero hnzd f vs _
      (hnzd _ _ ha (h v (List.mem_cons_self ..))) (fun w hw => h w (List.mem_cons_of_mem _ hw))

/-- with no zero divisors the score of such a password is not zero -/
theorem score_ne_zero_of_listed {P : Type} (M : CMon P)
    (hnzd : ∀ a b, a ≠ M.zero → b ≠ M.zero → M.mul a b ≠ M.zero) (hone : M.one ≠ M.zero)
    (gt : P → P → Bool) (limit : P) (g : ScoreG P) (p : Parsed) (omenOk : Bool)
    (he : p.emails = []) (hw : p.websites = []) (hs : p.supported = true)
    (hin : AllListed M.zero g p) :
    (score M.mul gt M.one M.zero limit g p omenOk).prob ≠ M.zero := by
  unfold score
  rw [he, hw, hs]
  have e2 : (!true) = false := rfl
  simp only [e2, Bool.false_eq_true, if_false, if_true]
  have F := foldl_mul_ne_zero M.mul M.zero hnzd
  refine hnzd _ _ ?_ hin.base
  refine F (fun v => g.look M.zero (lbl 'O' v.length) v) _ _ ?_ hin.others
  refine F (fun v => g.look M.zero (lbl 'D' v.length) v) _ _ ?_ hin.digits
  refine F (fun v => g.look M.zero (lbl 'C' v.length) v) _ _ ?_ hin.masks
  refine F (fun v => g.look M.zero (lbl 'A' v.length) v) _ _ ?_ hin.alphas
  refine F (fun v => g.look M.zero (String.ofList ['X']) v) _ _ ?_ hin.contexts
  refine F (fun v => g.look M.zero (String.ofList ['Y']) v) _ _ ?_ hin.years
  exact F (fun v => g.look M.zero (lbl 'K' v.length) v) _ _ hone hin.walks

/-- **C03 end to end**: a training password without e-mail / website parts, all of whose segments (words
lower-cased, masks, digits, symbols, years, keyboard walks, context strings) and whose base structure
are listed in the ruleset, is a guess of a pre-terminal of the guesser's grammar loaded from the same files -/
theorem trained_password_reproduced {P : Type} (M : CMon P)
    (hnzd : ∀ a b, a ≠ M.zero → b ≠ M.zero → M.mul a b ≠ M.zero) (hone : M.one ≠ M.zero)
    (U : UEnv) (upper : Char → List Char) (cfg : MWCfg) (t : MWTable) (pw : CPs) (hne : pw ≠ [])
    (hl : LenPres U pw) (hsc : ScalarCPs pw) (hcase : CaseInvAll U upper pw)
    (g : ScoreG P) (V : GView P) (hag : Agree M.zero g V)
    (he : (parse U cfg t pw).emails = []) (hw : (parse U cfg t pw).websites = [])
    (hs : (parse U cfg t pw).supported = true)
    (hin : AllListed M.zero g (parse U cfg t pw)) :
    ∃ (reps : List String) (bp : P) (idx : List Nat), (reps, bp) ∈ V.bases ∧ idx.length = reps.length ∧
      toStr pw ∈ productSpec upper V.E [] (mkPT reps idx) := by
  obtain ⟨reps, bp, idx, hb, hlen, hmem, _⟩ :=
    score_promise M (fun _ _ => true) (fun _ _ => true) M.one U upper cfg t pw hne hl hsc hcase g V hag
      false (parse_coherent U cfg t pw hne hl)
      (score_ne_zero_of_listed M hnzd hone _ _ g _ false he hw hs hin)
  exact ⟨reps, bp, idx, hb, hlen, hmem⟩

end Pcfg.Detect
