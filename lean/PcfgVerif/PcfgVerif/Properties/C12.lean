import PcfgVerif.Generated.ProcessState
import PcfgVerif.Properties.SessionCore
import PcfgVerif.Generated.WriterLoops
import PcfgVerif.Lemmas.OmenProbLemmas
import PcfgVerif.Generated.PrintSites
/-!
# C12 — the guess stream does not depend on thread timing or on standard input

`run us s sched` executes the two-actor state machine of `Model/Session.lean` under an arbitrary
schedule (`sched : List Actor`), `stdin` is an arbitrary script of events (lines incl. status / help
requests, EOF, error; an exhausted script = a pipe that stays open and silent).  What the main loop's
quit test reads is generated from the source (`Generated.Session.quitSrc`).
-/
namespace Pcfg.C12
open Pcfg.Sess

/-- the output is always a prefix of the uninterrupted stream: never reordered, altered or extended -/
theorem C12_prefix (us : List Unit') (f : Files) (stdin : List Ev) (sched : List Actor) :
    ∃ n, (run us (initLoad f stdin) sched).out = (remaining us f).take n :=
  out_is_prefix us f stdin sched

/-- without an explicit `q`, nothing on standard input (EOF, errors, status / help requests in any
number and order) and no schedule (keyboard thread finishing before, during or after any iteration)
shortens the stream: every schedule that lets the main loop run to its end prints everything -/
theorem C12_full_without_quit (us : List Unit') (f : Files) (stdin : List Ev) (sched : List Actor)
    (hq : NoQuit stdin) (hn : (remaining us f).length + 2 * us.length + 3 ≤ mainSteps sched) :
    (run us (initLoad f stdin) sched).main = .finished ∧
    (run us (initLoad f stdin) sched).out = remaining us f :=
  full_stream_without_quit us f stdin sched hq hn

/-- and at no point of such a run is a quit flagged or a quit position saved -/
theorem C12_no_spurious_quit (us : List Unit') (f : Files) (stdin : List Ev) (sched : List Actor)
    (hq : NoQuit stdin) :
    (run us (initLoad f stdin) sched).shouldExit = false ∧
    (run us (initLoad f stdin) sched).main ≠ .exited ∧
    (run us (initLoad f stdin) sched).omenExit = false :=
  no_quit_no_exit us f stdin sched hq

/-- an early exit happens only after a `q` line was read, after the session state has been saved, and
at a pre-terminal boundary or between two Markov guesses: printed ++ what the saved files make a
resumed session print = everything -/
theorem C12_quit_boundary_saved (us : List Unit') (f : Files) (hf : f.omenOpt = true → f.omn.isSome = true)
    (stdin : List Ev) (sched : List Actor)
    (h : (run us (initLoad f stdin) sched).main = .exited) :
    (run us (initLoad f stdin) sched).quitSeen = true ∧
    ((run us (initLoad f stdin) sched).files.savPos).isSome = true ∧
    (run us (initLoad f stdin) sched).out ++ remaining us (run us (initLoad f stdin) sched).files = remaining us f :=
  ⟨(exit_only_after_quit us f stdin sched h).1, (exit_only_after_quit us f stdin sched h).2,
   exit_resume_exact us f hf stdin sched h⟩

/-- the main loop's quit test reads the flag the user's `q` sets, not the liveness of the keyboard thread -/
theorem C12_quit_source : Generated.Session.quitSrc = .shouldExit ∧
    Generated.Session.keepsQuitOnStatusFailure = true := by decide

/-- whatever the keyboard / status thread does, it does it to stderr: in the modules the guesser runs, the only call site that is
not bound to stderr is `print_guess`, and nothing is done to `sys.stdout` besides writing and flushing it (no redirection that would
swap the process-wide stream while the main loop prints) - regenerated from the source on every run -/
theorem C12_status_output_never_touches_stdout :
    Generated.PrintSites.guesserNonStderr =
      [("lib_guesser/pcfg_grammar.py", "PcfgGrammar.print_guess", "stdout")] := by decide

/-- **a status request can be answered at every Markov level**: the status report of a Markov pre-terminal looks the level up in the
keyspace table loaded from `omen_keyspace.txt`; that file is written by one unguarded loop over
`reversed(omen_keyspace.most_common())` (regenerated from the source), which lists every level of the keyspace counter
(`keyspaceFile_perm`), and every level that has a line in `pcfg_omen_prob.txt` - every level the guesser can be inside - is a level of
that counter.  (A keyboard thread that dies on a status request never reads the `q` typed after it.) -/
theorem C12_keyspace_file_lists_every_level :
    ("omen_keyspace.txt", "reversed(omen_keyspace.most_common())") ∈ Generated.WriterLoops.omenLoops ∧
    (Generated.WriterLoops.omenLoopBodies.filter (·.1 == "omen_keyspace.txt")) = [("omen_keyspace.txt", "every-record")] ∧
    (∀ ks : List (Nat × Nat), (Omen.keyspaceFile ks).Perm ks) ∧
    ∀ (ks : List (Nat × Nat)) (c : Omen.LCtr) (n level : Nat) (p : Rat),
      (level, p) ∈ Omen.omenProbs Omen.ratNOps ks c n → ∃ k, (level, k) ∈ Omen.keyspaceFile ks :=
  ⟨by decide, by decide, Omen.keyspaceFile_perm, fun ks c n level p h => Omen.prob_level_in_keyspaceFile _ ks c n level p h⟩

/-- **nothing outlives a call except the objects a caller holds** (regenerated from the four library packages): no module-level or
class-level mutable container, no cache decorator or cache call (`functools.lru_cache`, `cache`), no mutable or computed default
argument and no `global` statement anywhere in `lib_guesser`, `lib_trainer`, `lib_scorer`, `lib_princeling`.  The models of this file are
functions of the objects handed to the code (grammar, detector, tables, memo table); this is the fact that lets them be: an answer cannot
depend on what another object, an earlier ruleset in the same process or the other thread did -/
theorem C12_no_process_wide_state : Generated.ProcessState.processWideState = [] := by
  decide

end Pcfg.C12
