import PcfgVerif.Model.DetectSpec
/-! C05 — (detector theorems are added when proved) -/
namespace Pcfg.C05

/-- table facts the detectors rely on: walks need at least four keys, year prefixes have two digits,
no TLD or context string is empty -/
theorem C05_tables : Generated.Tables.minKeyboardRun = 4 ∧
    (∀ p ∈ Generated.Tables.yearPrefixes, p.length = 2) ∧
    (∀ t ∈ Generated.Tables.tldList, t ≠ []) ∧ (∀ c ∈ Generated.Tables.contextList, c ≠ []) := by
  decide

end Pcfg.C05
