import PcfgVerif.Lemmas.DetectYearSpec
import PcfgVerif.Properties.DetectCoreA
import PcfgVerif.Properties.DetectCoreB
import PcfgVerif.Properties.DetectCoreC
import PcfgVerif.Lemmas.DetectD2
import PcfgVerif.Lemmas.CountersLemmas
import PcfgVerif.Lemmas.TrainerLemmas
/-!
# C05 — training segments every password into a lossless, soundly typed tiling

`parse U cfg t pw` is `PCFGPasswordParser.parse` (keyboard walks, e-mails, websites, years, context
strings, alpha (+ multi-word), digits, other).  `U` is CPython's Unicode database as a parameter;
`LenPres U pw`: the detectors' lower-casing keeps the length of every substring of `pw` — what
`case_util.lower_keep_length` guarantees by construction.  `t` is the multi-word table after an
arbitrary training history (`mwTrain_count` says what it holds).
-/
namespace Pcfg.C05
open Pcfg.Detect

/-- one list-level pass preserves the tiling -/
theorem stage_tiles {F : Type} (U : UEnv) (pw : CPs) (hl : LenPres U pw)
    (detect : CPs → Option (List Sec × F)) (adv : Advance) (hd : DetectorOK U detect)
    (s : List Sec) (h : TilesFrom U pw 0 s) :
    TilesFrom U pw 0 (splitLoop detect adv (loopFuel s) [] s []).1 :=
  splitLoop_tiles U detect adv hd pw hl (loopFuel s) [] s [] (by simpa using h)

/-- lossless tiling: the final sections tile the password left to right — every section non-empty,
every section except a website the exact slice at its offset, a website section the lower-cased
slice — and every section carries a label -/
theorem C05_tiling (U : UEnv) (cfg : MWCfg) (t : MWTable) (pw : CPs) (hne : pw ≠ [])
    (hl : LenPres U pw) (hmin : 0 < cfg.minLen) :
    TilesFrom U pw 0 (parse U cfg t pw).sections ∧ AllLabelled (parse U cfg t pw).sections := by
  let s0 := (detectKeyboardWalk U pw).1
  let s1 := (splitLoop (detectEmail U) .skipFirst (loopFuel s0) [] s0 []).1
  let s2 := (splitLoop (detectWebsite U) .skipFirst (loopFuel s1) [] s1 []).1
  let s3 := (splitLoop (detectYear U) .recheck (loopFuel s2) [] s2 []).1
  let s4 := (splitLoop (detectContext U) .recheck (loopFuel s3) [] s3 []).1
  let s5 := (splitLoop (detectAlpha U cfg t) .skipFirst (loopFuel s4) [] s4 []).1
  let s6 := (splitLoop (detectDigits U) .skipFirst (loopFuel s5) [] s5 []).1
  have h0 : TilesFrom U pw 0 s0 := (detectKeyboardWalk_tiles U pw hne).1
  have h1 : TilesFrom U pw 0 s1 := stage_tiles U pw hl _ _ (detectEmail_ok U) s0 h0
  have h2 : TilesFrom U pw 0 s2 := stage_tiles U pw hl _ _ (detectWebsite_ok U) s1 h1
  have h3 : TilesFrom U pw 0 s3 := stage_tiles U pw hl _ _ (detectYear_ok U) s2 h2
  have h4 : TilesFrom U pw 0 s4 := stage_tiles U pw hl _ _ (detectContext_ok U) s3 h3
  have h5 : TilesFrom U pw 0 s5 := stage_tiles U pw hl _ _ (detectAlpha_ok U cfg t hmin) s4 h4
  have h6 : TilesFrom U pw 0 s6 := stage_tiles U pw hl _ _ (detectDigits_ok U) s5 h5
  have hs : (parse U cfg t pw).sections = (otherDetection s6).1 := rfl
  rw [hs]
  exact ⟨otherDetection_tiles U pw s6 h6, (otherDetection_spec s6).1⟩

/-- keyboard segments: at least four keys, consecutive keys adjacent on one layout common to the
whole walk, at least two character classes, not black-listed -/
theorem C05_keyboard (U : UEnv) (pw : CPs) (hne : pw ≠ []) (w : CPs)
    (hw : w ∈ (detectKeyboardWalk U pw).2) :
    4 ≤ w.length ∧ interesting U w = true ∧
    ∃ b, ∀ i, i + 1 < w.length → adjacentOn b (w.getD i 0) (w.getD (i + 1) 0) := by
  have h := detectKeyboardWalk_sound U pw hne w hw
  exact ⟨by have := h.1; simpa [Generated.Tables.minKeyboardRun] using this, h.2.1, h.2.2⟩

/-- years are four digits starting 19 or 20; context segments come from the fixed list -/
theorem C05_year_context (U : UEnv) (text : CPs) :
    (∀ pieces y, detectYear U text = some (pieces, y) →
      y.length = 4 ∧ (∃ pre ∈ Generated.Tables.yearPrefixes, y.take 2 = pre) ∧
      U.isDigit (y.getD 2 0) = true ∧ U.isDigit (y.getD 3 0) = true) ∧
    (∀ pieces c, detectContext U text = some (pieces, c) → c ∈ Generated.Tables.contextList) :=
  ⟨fun pieces y h => let r := detectYear_sound U text pieces y h; ⟨r.1, r.2.1, r.2.2.1, r.2.2.2.1⟩,
   fun pieces c h => (detectContext_sound U text pieces c h).1⟩

/-- alpha segments contain only letters, carry their length, one mask per word of the same length; a
run is split into several words only when every part was seen at least `threshold` times (and is at
least `minLen` long) and the whole was not -/
theorem C05_alpha (U : UEnv) (cfg : MWCfg) (t : MWTable) (text : CPs) (hl : LenPres U text)
    (pieces : List Sec) (words masks : List CPs)
    (h : detectAlpha U cfg t text = some (pieces, (words, masks))) :
    words.length = masks.length ∧ (∀ w ∈ words, w ≠ [] ∧ ∀ c ∈ w, U.isAlpha c = true) ∧
    (∀ (i : Nat) w m, words[i]? = some w → masks[i]? = some m → m.length = w.length) :=
  let r := detectAlpha_sound U cfg t text hl pieces words masks h
  ⟨r.1, r.2.1, r.2.2.1⟩

theorem C05_multiword (cfg : MWCfg) (t : MWTable) (s : CPs) (h : 1 < (mwParse cfg t s).2.length) :
    mwCount t s < cfg.threshold ∧
    ∀ w ∈ (mwParse cfg t s).2, cfg.threshold ≤ mwCount t w ∧ cfg.minLen ≤ w.length :=
  mwParse_sound cfg t s h

/-- for every prior training history the multi-word table is the tally of qualifying alpha runs -/
theorem C05_multiword_history (U : UEnv) (cfg : MWCfg) (history : List CPs) (w : CPs) :
    mwCount (history.foldl (fun t p => mwTrain U cfg t p) []) w =
      (history.flatMap fun p =>
        if p.length < cfg.minLen || p.length > cfg.maxLen then []
        else (alphaRuns U (U.lowerPy p) []).filter fun r => decide (cfg.minLen ≤ r.length)).count w :=
  mwTrain_count U cfg history w

/-- digit segments are all digits, carry their length, and are maximal in the text the earlier
detectors left unlabelled -/
theorem C05_digits (U : UEnv) (text : CPs) (pieces : List Sec) (d : CPs)
    (h : detectDigits U text = some (pieces, d)) :
    d ≠ [] ∧ (∀ c ∈ d, U.isDigit c = true) ∧ (d, some (lbl 'D' d.length)) ∈ pieces ∧
    ∃ pre post, text = pre ++ d ++ post ∧ (∀ c ∈ pre, U.isDigit c = false) ∧
      (∀ c, post.head? = some c → U.isDigit c = false) :=
  detectDigits_sound U text pieces d h

/-- whatever is still unlabelled becomes `O<length>`, nothing else changes; the counters' "other" list
is exactly those sections -/
theorem C05_other (secs : List Sec) :
    AllLabelled (otherDetection secs).1 ∧ (otherDetection secs).1.map (·.1) = secs.map (·.1) ∧
    (otherDetection secs).2 = (secs.filter (fun s => s.2.isNone)).map (·.1) :=
  let r := otherDetection_spec secs
  ⟨r.1, r.2.1, r.2.2.2.2⟩

/-- the walks reported (what the keyboard counter tallies) are exactly the `K` sections -/
theorem C05_keyboard_counter (U : UEnv) (pw : CPs) (hne : pw ≠ []) :
    (detectKeyboardWalk U pw).2 =
      ((detectKeyboardWalk U pw).1.filter (fun s => s.2.isSome)).map (·.1) :=
  detectKeyboardWalk_found U pw hne

/-- **'other' segments contain no letter and no digit**, and the list-level loops really run to their end with the fuel the
pipeline gives them: after `alpha_detection` no unlabelled section contains a letter, after `digit_detection` none contains a
digit (so the `D` sections are maximal digit runs of the final tiling, not only of their section), and the strings reported as
`other` — exactly the sections `other_detection` labels `O<n>` (`C05_other`) — contain neither.  `GoodA U pw`: lower-casing keeps
the length of every substring of `pw` and changes the alpha-ness of no position (both are per-code-point facts of CPython's
Unicode tables, validated over all code points on every run). -/
theorem C05_other_sound (U : UEnv) (cfg : MWCfg) (t : MWTable) (pw : CPs) (hne : pw ≠ [])
    (hg : GoodA U pw) :
    ∀ o ∈ (parse U cfg t pw).others, (∀ c ∈ o, U.isAlpha c = false) ∧ (∀ c ∈ o, U.isDigit c = false) := by
  have hl := hg.1
  let s0 := (detectKeyboardWalk U pw).1
  let s1 := (splitLoop (detectEmail U) .skipFirst (loopFuel s0) [] s0 []).1
  let s2 := (splitLoop (detectWebsite U) .skipFirst (loopFuel s1) [] s1 []).1
  let s3 := (splitLoop (detectYear U) .recheck (loopFuel s2) [] s2 []).1
  let s4 := (splitLoop (detectContext U) .recheck (loopFuel s3) [] s3 []).1
  let s5 := (splitLoop (detectAlpha U cfg t) .skipFirst (loopFuel s4) [] s4 []).1
  let s6 := (splitLoop (detectDigits U) .skipFirst (loopFuel s5) [] s5 []).1
  have h0 : TilesFrom U pw 0 s0 := (detectKeyboardWalk_tiles U pw hne).1
  have h1 : TilesFrom U pw 0 s1 := stage_tiles U pw hl _ _ (detectEmail_ok U) s0 h0
  have h2 : TilesFrom U pw 0 s2 := stage_tiles U pw hl _ _ (detectWebsite_ok U) s1 h1
  have h3 : TilesFrom U pw 0 s3 := stage_tiles U pw hl _ _ (detectYear_ok U) s2 h2
  have h4 : TilesFrom U pw 0 s4 := stage_tiles U pw hl _ _ (detectContext_ok U) s3 h3
  have hgood : ∀ s ∈ s4, s.2 = none → GoodA U s.1 := by
    intro s hs hn
    obtain ⟨a, b, hab⟩ := tilesFrom_unlabelled_slice U pw s4 0 h4 s hs hn
    rw [hab]
    exact goodA_slice U pw a b hg
  have h5 : ∀ s ∈ s5, s.2 = none → NoAlpha U s.1 :=
    splitLoop_exhaustive (detectAlpha U cfg t) (GoodA U) (NoAlpha U) (detectAlpha_exhausts U cfg t) (loopFuel s4) [] s4 []
      (secMeasure_le_loopFuel s4) hgood (by simp)
  have h6a : ∀ s ∈ s6, s.2 = none → NoAlpha U s.1 := by
    apply splitLoop_preserves (detectDigits U) .skipFirst (NoAlpha U) _ (loopFuel s5) [] s5 []
    · simpa using h5
    · intro text pieces d hq hd p hp hn c hc
      exact hq c (detectDigits_pieces_sub U text pieces d hd p hp hn c hc)
  have h6d : ∀ s ∈ s6, s.2 = none → NoDigit U s.1 := digitStage_exhaustive U s5
  intro o ho
  have hoth : (parse U cfg t pw).others = (otherDetection s6).2 := rfl
  rw [hoth] at ho
  unfold otherDetection at ho
  simp only [List.mem_filterMap] at ho
  obtain ⟨s, hs, hso⟩ := ho
  obtain ⟨text, l⟩ := s
  cases l with
  | some _ => simp at hso
  | none =>
    simp at hso
    subst hso
    exact ⟨h6a _ hs rfl, h6d _ hs rfl⟩


/-- non-vacuity: the ASCII environment satisfies `GoodA` for every password (so `C05_other_sound` applies to it), and on
`12PassWord!x9` the reported `other` strings are `!` only -/
theorem goodA_ascii (pw : CPs) : GoodA asciiC pw := by
  refine ⟨asciiC_lenPres pw, ?_⟩
  intro c d i
  simp only [asciiC, List.getElem?_map, Option.map_map]
  cases (slice pw c d)[i]? with
  | none => rfl
  | some x =>
    simp only [Option.map_some, Function.comp_apply, Option.some.injEq]
    by_cases hx : 65 ≤ x ∧ x ≤ 90
    · simp only [hx, and_self, if_true]
      have h1 : (65 ≤ x ∧ x ≤ 90) ∨ (97 ≤ x ∧ x ≤ 122) := Or.inl hx
      have h2 : (65 ≤ x + 32 ∧ x + 32 ≤ 90) ∨ (97 ≤ x + 32 ∧ x + 32 ≤ 122) := Or.inr (by omega)
      rw [decide_eq_true h2]; simp
    · simp only [hx, if_false]

example : (parse asciiC {} exTable (cpsOfString "12PassWord!x9")).others = [cpsOfString "!"] := by decide +kernel

/-- **the length-indexed counters are tallies**: after any sequence of `_update_counter_len_indexed` calls (one per password and
category: alpha words, masks, digits, other, keyboard walks) on an initially empty counter dict, the Counter filed under length
`n` counts exactly the items of length `n` — each as often as it occurred in all calls together — and nothing of another length;
there is one Counter per length.  (`calls.flatten` = all items in the order the parser met them.) -/
theorem C05_len_indexed_counters (calls : List (List CPs)) (n : Nat) (y : CPs) :
    ((calls.foldl updateLenIndexed []).get n).count y = (if y.length = n then calls.flatten.count y else 0) ∧
    ((calls.foldl updateLenIndexed []).map (·.1)).Nodup := by
  have hfold : ∀ (d : LenCtr), calls.foldl updateLenIndexed d = updateLenIndexed d calls.flatten := by
    induction calls with
    | nil => intro d; rfl
    | cons c rest ih =>
      intro d
      rw [List.foldl_cons, ih, List.flatten_cons]
      unfold updateLenIndexed
      rw [List.foldl_append]
  rw [hfold]
  refine ⟨?_, update_keys_nodup [] _ (by simp)⟩
  rw [update_count]
  simp [get_nil, count_nil]

/-- non-vacuity / illustration: `sun12tiger345` first (two new lengths per category in one call), then `sun`, `12` again -/
example : (([[cpsOfString "sun", cpsOfString "tiger"], [cpsOfString "sun"]].foldl updateLenIndexed []).get 3).count (cpsOfString "sun") = 2 ∧
    (([[cpsOfString "sun", cpsOfString "tiger"], [cpsOfString "sun"]].foldl updateLenIndexed []).get 5).count (cpsOfString "sun") = 0 := by
  decide

/-- **the counters of a whole training run are the tallies of the segmentation** (`Trainer.train` = pass 1 + pass 2 of the trainer as
one function of the password list; driven against the real trainer on whole lists, every counter and its insertion order): for each
of the five length-indexed categories the Counter filed under length `n` counts exactly the items of length `n` that the parses of the
list's passwords produced — with the multi-word table of the *whole* list (pass 1 is complete before pass 2 starts) — and nothing else -/
theorem C05_trained_counters (U : UEnv) (cfg : MWCfg) (pws : List CPs) (n : Nat) (y : CPs) :
    let t := Trainer.pass1 U cfg pws
    let tally := fun (items : Parsed → List CPs) => (pws.flatMap fun pw => items (parse U cfg t pw)).count y
    ((Trainer.train U cfg pws).alpha.get n).count y = (if y.length = n then tally (·.alphas) else 0) ∧
    ((Trainer.train U cfg pws).masks.get n).count y = (if y.length = n then tally (·.masks) else 0) ∧
    ((Trainer.train U cfg pws).digits.get n).count y = (if y.length = n then tally (·.digits) else 0) ∧
    ((Trainer.train U cfg pws).other.get n).count y = (if y.length = n then tally (·.others) else 0) ∧
    ((Trainer.train U cfg pws).keyboard.get n).count y = (if y.length = n then tally (·.walks) else 0) :=
  ⟨Trainer.train_len_indexed U cfg (·.alpha) (·.alphas) (fun _ _ => rfl) rfl pws n y,
   Trainer.train_len_indexed U cfg (·.masks) (·.masks) (fun _ _ => rfl) rfl pws n y,
   Trainer.train_len_indexed U cfg (·.digits) (·.digits) (fun _ _ => rfl) rfl pws n y,
   Trainer.train_len_indexed U cfg (·.other) (·.others) (fun _ _ => rfl) rfl pws n y,
   Trainer.train_len_indexed U cfg (·.keyboard) (·.walks) (fun _ _ => rfl) rfl pws n y⟩

/-- table facts the detectors rely on -/
theorem C05_tables : Generated.Tables.minKeyboardRun = 4 ∧
    (∀ p ∈ Generated.Tables.yearPrefixes, p.length = 2) ∧
    (∀ t ∈ Generated.Tables.tldList, t ≠ []) ∧ (∀ c ∈ Generated.Tables.contextList, c ≠ []) := by
  decide

/-- **which occurrence of a top-level domain makes a string a website** (the search loop of `detect_website`, for every string, every
character classification and every domain of the source's table): the position the search returns is an occurrence of the domain that
ends a host name - it ends the string, or what follows is neither a letter nor a dot - and no occurrence further left does.  It is the
*first* such occurrence from the left: letters that merely look like the domain earlier in the string (`www.community.com`) are passed
over, and the same letters turning up again later as the start of a longer word (`site.com-my.company`) change nothing -/
theorem C05_website_first_host_end (U : Detect.UEnv) (w tld : CPs) (hm : tld ∈ Generated.Tables.tldList) (total : Nat)
    (h : Detect.tldOccurrence U w tld (w.length + 1) (Detect.findSub w tld) = some total) :
    Detect.OccursAt w tld total ∧ Detect.endsHost U w tld total = true ∧
      ∀ k, k < total → Detect.OccursAt w tld k → Detect.endsHost U w tld k = false :=
  Detect.tldSearch_first_host_end U w tld hm total h

/-- the two shapes named above, run through the model with ASCII letters: `.com` of `www.community.com` is found at 13 (not at 3),
`.com` of `site.com-my.company` at 4 (not at 11) -/
example :
    let U : Detect.UEnv := ⟨fun c => (97 ≤ c && c ≤ 122) || (65 ≤ c && c ≤ 90), fun c => 48 ≤ c && c ≤ 57, fun c => 65 ≤ c && c ≤ 90, id, id⟩
    let tld := ".com".toList.map Char.toNat
    let w1 := "www.community.com".toList.map Char.toNat
    let w2 := "site.com-my.company".toList.map Char.toNat
    Detect.tldOccurrence U w1 tld (w1.length + 1) (Detect.findSub w1 tld) = some 13 ∧
    Detect.tldOccurrence U w2 tld (w2.length + 1) (Detect.findSub w2 tld) = some 4 := by
  decide

/-- ... and it finds one **exactly when** there is one: for a domain of the table, the search comes back with a position if and only if
some occurrence of the domain in the string ends a host name (the loop runs out of neither candidates nor steps before it has seen them
all) -/
theorem C05_website_found_iff (U : Detect.UEnv) (w tld : CPs) (hm : tld ∈ Generated.Tables.tldList) :
    (Detect.tldOccurrence U w tld (w.length + 1) (Detect.findSub w tld)).isSome = true ↔
      ∃ k, Detect.OccursAt w tld k ∧ Detect.endsHost U w tld k = true :=
  Detect.tldSearch_finds_iff U w tld hm

/-- **`detect_website` as a whole**: a section is taken for a website exactly when, in its lower-cased working copy, some top-level domain
of the table has an occurrence that ends a host name - for every string and every character classification -/
theorem C05_website_detected_iff (U : Detect.UEnv) (text : CPs) :
    (Detect.detectWebsite U text).isSome = true ↔
      ∃ tld ∈ Generated.Tables.tldList, ∃ k, Detect.OccursAt (U.lowerS text) tld k ∧ Detect.endsHost U (U.lowerS text) tld k = true :=
  Detect.detectWebsite_isSome_iff U text

/-- **`detect_email` as a whole**: a section is taken for an e-mail address exactly when, in its lower-cased working copy, the *first*
occurrence of some top-level domain of the table has an `@` somewhere in front of its end (later occurrences of the domain are not
looked at - `bob@x.com` is one, `x.com@bob` is one as well, `a.com/b@c.com` is judged by the first `.com`) -/
theorem C05_email_detected_iff (U : Detect.UEnv) (text : CPs) :
    (Detect.detectEmail U text).isSome = true ↔
      ∃ tld ∈ Generated.Tables.tldList, ∃ e0, Detect.findSub (U.lowerS text) tld = some e0 ∧
        ∃ m, Detect.OccursAt ((U.lowerS text).take (e0 + tld.length)) [Detect.cpOf '@'] m :=
  Detect.detectEmail_isSome_iff U text

/-- **which four characters are taken for a year** (the search loop of `detect_year`, for every string, every digit classification and
both prefixes of the source's table): the position returned is an occurrence of `19` / `20` whose four characters are a year - they are
all there, no digit stands in front of them or behind them, the last two are digits - and no occurrence of the prefix further left is.
(That the loop gives up as soon as a candidate has fewer than four characters left loses nothing: every later candidate has fewer.) -/
theorem C05_year_first_year (U : Detect.UEnv) (w pre : CPs) (hm : pre ∈ Generated.Tables.yearPrefixes) (si : Nat)
    (h : Detect.yearScan U w pre (w.length + 1) 0 = some si) :
    Detect.OccursAt w pre si ∧ Detect.yearOk U w si = true ∧
      ∀ k, k < si → Detect.OccursAt w pre k → Detect.yearOk U w k = false :=
  Detect.yearSearch_first_year U w pre hm si h

/-- `x1987a19999y2012`: `1987` at 1 is a year; in `119999y2012` the first `19` (at 1) has a digit in front, `1999` at 2 has digits on
both sides... the search for `20` finds `2012` at 7 -/
example :
    let U : Detect.UEnv := ⟨fun c => (97 ≤ c && c ≤ 122) || (65 ≤ c && c ≤ 90), fun c => 48 ≤ c && c ≤ 57, fun c => 65 ≤ c && c ≤ 90, id, id⟩
    let w1 := "x1987a".toList.map Char.toNat
    let w2 := "119999y2012".toList.map Char.toNat
    Detect.yearScan U w1 [49, 57] (w1.length + 1) 0 = some 1 ∧
    Detect.yearScan U w2 [49, 57] (w2.length + 1) 0 = none ∧
    Detect.yearScan U w2 [50, 48] (w2.length + 1) 0 = some 7 := by
  decide

/-- **`detect_context_sensitive` as a whole**: a context-sensitive string (`#1`, `<3`, `No.1`, ...) is detected in a section exactly
when some string of the source's table occurs in it - `#1` only when its first occurrence is not followed, one character further on,
by a digit (the source's guard against `#1` inside `#123`-like numbers, at the offset the source uses) -/
theorem C05_context_detected_iff (U : Detect.UEnv) (text : CPs) :
    (Detect.detectContext U text).isSome = true ↔
      ∃ rep ∈ Generated.Tables.contextList, ∃ si, Detect.findSub text rep = some si ∧
        (rep == cpsOfString "#1" && decide (si + 3 < text.length) && U.isDigit (text.getD (si + 3) 0)) = false :=
  Detect.detectContext_isSome_iff U text

end Pcfg.C05
