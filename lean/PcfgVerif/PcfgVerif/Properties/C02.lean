import PcfgVerif.Properties.PQCore
import PcfgVerif.Lemmas.TrainedWF
import PcfgVerif.Lemmas.SoftFloatLemmas
/-!
# C02 — every pre-terminal of the grammar is emitted exactly once

`Reach` covers every intermediate state of the queue under every tie-breaking of the heap; the
invariant is order-independent (it does not lean on C01).  Duplicate base structures are distinct
nodes (different `b`).
-/
namespace Pcfg.C02
variable {P : Type} [Inhabited P]

/-- in every reachable state nothing is in `popped ++ queue` twice and everything is a grid node;
when the queue is empty the emitted list is a permutation of all (structure, one group per variable)
combinations: none skipped, none repeated -/
theorem C02_exactly_once (A : PAlg P) (g : Grid P) (hwf : WF A.toPOps g) (s : PQState)
    (h : Reach A.toPOps g (initNodes g) s) :
    (s.popped ++ s.queue).Nodup ∧ (∀ v ∈ s.popped ++ s.queue, ValidNode g v) ∧
      (s.queue = [] → s.popped.Perm (allNodes g)) :=
  pq_exactly_once A g hwf s h

/-- the run ends: at most one pop per grid node -/
theorem C02_terminates (A : PAlg P) (g : Grid P) (hwf : WF A.toPOps g) (s : PQState)
    (h : Reach A.toPOps g (initNodes g) s) : s.popped.length ≤ (allNodes g).length :=
  pq_terminates A g hwf s h

/-- and it cannot stop early: a non-empty queue always has a poppable element, so the only final
states are those with an empty queue, where `C02_exactly_once` gives the whole grid -/
theorem C02_no_early_stop (A : PAlg P) (g : Grid P) (q : List Node) (hq : q ≠ []) :
    ∃ x, isTop A.toPOps g q x = true :=
  pq_progress A g q hq

/-- every node ever looked up is in range (the model's `getD` defaults are never used) -/
theorem C02_lookups_in_range (A : PAlg P) (g : Grid P) (hwf : WF A.toPOps g) (s : PQState)
    (h : Reach A.toPOps g (initNodes g) s) (v : Node) (hv : v ∈ s.queue) :
    v.b < g.length ∧ validIdx (g.struct v.b).cols v.idx = true :=
  (pq_exactly_once A g hwf s h).2.1 v (List.mem_append_right _ hv)

/-- the language: whatever each pre-terminal expands to (`f`), a completed run has emitted, as a multiset, exactly the
expansions of all (structure, one group per variable) combinations — with C04 (`f` = the product of the groups) this is "the
set of emitted guesses is the language of the grammar, every derivation once" -/
theorem C02_language {α : Type} (A : PAlg P) (g : Grid P) (hwf : WF A.toPOps g) (s : PQState)
    (h : Reach A.toPOps g (initNodes g) s) (hq : s.queue = []) (f : Node → List α) :
    (s.popped.flatMap f).Perm ((allNodes g).flatMap f) :=
  ((C02_exactly_once A g hwf s h).2.2 hq).flatMap_right f

/-- **binary64 instance** (see `C01_order_binary64`): exactly-once for IEEE-754 doubles, every tie,
rounding difference, denormal and underflow to zero included, with no floating-point hypothesis -/
theorem C02_exactly_once_binary64 (g : Grid Nat) (hwf : WF sfAlg.toPOps g) (s : PQState)
    (h : Reach sfAlg.toPOps g (initNodes g) s) :
    (s.popped ++ s.queue).Nodup ∧ (∀ v ∈ s.popped ++ s.queue, ValidNode g v) ∧
      (s.queue = [] → s.popped.Perm (allNodes g)) :=
  C02_exactly_once sfAlg g hwf s h

/-- non-vacuity: on the 2×2 grid whose two middle nodes tie exactly, both resolutions of the tie are
reachable and both emit the four nodes once -/
example : Pcfg.Example.final0.popped.Perm (allNodes Pcfg.Example.g0) :=
  (C02_exactly_once natAlg _ Pcfg.Example.wf0 _ Pcfg.Example.reach0).2.2 rfl

example : [(⟨0, [0, 0]⟩ : Node), ⟨0, [0, 1]⟩, ⟨0, [1, 0]⟩, ⟨0, [1, 1]⟩].Perm (allNodes Pcfg.Example.g0) :=
  (C02_exactly_once natAlg _ Pcfg.Example.wf0 _ Pcfg.Example.reach0').2.2 rfl

/-- **C02 for trained rulesets over binary64, without a well-formedness hypothesis** (`TrainedCols`: every column loaded from a list file
the trainer wrote, see `C01_trained_order`): every pre-terminal exactly once, none skipped, for every tie-breaking of the heap -/
theorem C02_trained_exactly_once (parseP : CPs → Option Nat) (showP : Nat → CPs) (neg1 : Nat)
    (hround : ∀ p, parseP (showP p) = some p) (hshow : ∀ p, CleanProb (showP p)) (g : Grid Nat)
    (hcols : TrainedCols parseP showP neg1 g) (s : PQState) (h : Reach sfAlg.toPOps g (initNodes g) s) :
    (s.popped ++ s.queue).Nodup ∧ (∀ v ∈ s.popped ++ s.queue, ValidNode g v) ∧
      (s.queue = [] → s.popped.Perm (allNodes g)) :=
  C02_exactly_once_binary64 g (trained_grid_wf parseP showP neg1 hround hshow g hcols) s h

end Pcfg.C02
