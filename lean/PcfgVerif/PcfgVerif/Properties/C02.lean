import PcfgVerif.Lemmas.Adopt
import PcfgVerif.Lemmas.AdoptOrder
import PcfgVerif.Lemmas.Best
import PcfgVerif.Model.GridSpec
/-! C02 — placeholder until the refinement proof lands: abstract core only. -/
namespace Pcfg.C02

theorem abstract_exhaustive {α : Type} [DecidableEq α] (S : Adopt.Sys α) (s : Adopt.St α)
    (h : Adopt.Inv S s) (hq : s.queue = []) : s.popped.Perm S.all := Adopt.exhausted_perm S s h hq

end Pcfg.C02
