import PcfgVerif.Model.GridSpec
import PcfgVerif.Lemmas.Adopt
import PcfgVerif.Lemmas.AdoptOrder
import PcfgVerif.Lemmas.Best
import PcfgVerif.Lemmas.GridAdopt
/-! Core theorems of the next function from the initial queue (shared by C01, C02, C17). -/
namespace Pcfg
variable {P : Type} [Inhabited P]

/-- C02 (+ the "every intermediate state" clause): in every reachable state no node is in
`popped ++ queue` twice, all are grid nodes, and once the queue is empty the popped list is a
permutation of the whole grid. -/
theorem pq_exactly_once (A : PAlg P) (g : Grid P) (hwf : WF A.toPOps g) (s : PQState)
    (h : Reach A.toPOps g (initNodes g) s) :
    (s.popped ++ s.queue).Nodup ∧ (∀ v ∈ s.popped ++ s.queue, ValidNode g v) ∧
      (s.queue = [] → s.popped.Perm (allNodes g)) := by
  have ⟨h1, _, h3, h4, _⟩ := reach_summary A g (gridSys A g) _ (initNodes_perm A g hwf)
    (gridSys_children_ok A g) (gridAdopter_le A g hwf) s h
  exact ⟨h1, fun v hv => (mem_allNodes g v).mp (h3 v hv), h4⟩

/-- progress: a non-empty queue always has an element `heappop` may return -/
theorem pq_progress (A : PAlg P) (g : Grid P) (q : List Node) (hq : q ≠ []) :
    ∃ x, isTop A.toPOps g q x = true :=
  exists_isTop A g q hq

/-- termination: at most one pop per grid node -/
theorem pq_terminates (A : PAlg P) (g : Grid P) (hwf : WF A.toPOps g) (s : PQState)
    (h : Reach A.toPOps g (initNodes g) s) : s.popped.length ≤ (allNodes g).length :=
  (reach_summary A g (gridSys A g) _ (initNodes_perm A g hwf)
    (gridSys_children_ok A g) (gridAdopter_le A g hwf) s h).2.2.2.2

/-- C01: the popped sequence is non-increasing, for every prefix and every tie-breaking -/
theorem pq_order (A : PAlg P) (g : Grid P) (hwf : WF A.toPOps g) (s : PQState)
    (h : Reach A.toPOps g (initNodes g) s) : NonIncreasing A.toPOps g s.popped :=
  (reach_summary A g (gridSys A g) _ (initNodes_perm A g hwf)
    (gridSys_children_ok A g) (gridAdopter_le A g hwf) s h).2.1

/-! ## Non-vacuity: a concrete 2×2 grid with an exact parent tie

`g0` has one base structure of probability 8 and two positions with group probabilities `[4, 2]`.
Node probabilities: `(0,0) ↦ 128`, `(1,0) ↦ 64`, `(0,1) ↦ 64`, `(1,1) ↦ 32`; both parents of `(1,1)`
have probability 64, so the position tie-break decides (`(0,1)` adopts it). -/
namespace Example

def g0 : Grid Nat := [⟨8, [[4, 2], [4, 2]]⟩]

theorem wf0 : WF natAlg.toPOps g0 := by
  intro s hs
  simp only [g0, List.mem_singleton] at hs
  subst hs
  intro c hc
  simp only [List.mem_cons, List.not_mem_nil, or_false, or_self] at hc
  subst hc
  exact ⟨by simp, by simp [natAlg]⟩

example : nodeProb natAlg.toPOps g0 ⟨0, [1, 0]⟩ = 64 ∧ nodeProb natAlg.toPOps g0 ⟨0, [0, 1]⟩ = 64 := by
  decide

def final0 : PQState := ⟨[], [⟨0, [0, 0]⟩, ⟨0, [1, 0]⟩, ⟨0, [0, 1]⟩, ⟨0, [1, 1]⟩]⟩

/-- a complete run from the initial queue (the tie `(1,0)` / `(0,1)` resolved one way) -/
theorem reach0 : Reach natAlg.toPOps g0 (initNodes g0) final0 := by
  have h0 : Reach natAlg.toPOps g0 (initNodes g0) ⟨initNodes g0, []⟩ := Reach.init
  have h1 := Reach.step (x := ⟨0, [0, 0]⟩) h0 (by decide)
  have h2 := Reach.step (x := ⟨0, [1, 0]⟩) h1 (by decide)
  have h3 := Reach.step (x := ⟨0, [0, 1]⟩) h2 (by decide)
  have h4 := Reach.step (x := ⟨0, [1, 1]⟩) h3 (by decide)
  exact h4

/-- the other resolution of the tie is reachable as well -/
theorem reach0' : Reach natAlg.toPOps g0 (initNodes g0)
    ⟨[], [⟨0, [0, 0]⟩, ⟨0, [0, 1]⟩, ⟨0, [1, 0]⟩, ⟨0, [1, 1]⟩]⟩ := by
  have h0 : Reach natAlg.toPOps g0 (initNodes g0) ⟨initNodes g0, []⟩ := Reach.init
  have h1 := Reach.step (x := ⟨0, [0, 0]⟩) h0 (by decide)
  have h2 := Reach.step (x := ⟨0, [0, 1]⟩) h1 (by decide)
  have h3 := Reach.step (x := ⟨0, [1, 0]⟩) h2 (by decide)
  have h4 := Reach.step (x := ⟨0, [1, 1]⟩) h3 (by decide)
  exact h4

/-- the hypotheses of C01/C02 are satisfiable and the conclusions hold on the run -/
example : final0.popped.Perm (allNodes g0) :=
  (pq_exactly_once natAlg g0 wf0 final0 reach0).2.2 rfl

example : NonIncreasing natAlg.toPOps g0 final0.popped := pq_order natAlg g0 wf0 final0 reach0

example : final0.popped.length = (allNodes g0).length := by decide

end Example

end Pcfg
