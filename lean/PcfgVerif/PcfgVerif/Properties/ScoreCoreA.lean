import PcfgVerif.Model.ScorerSpec
import PcfgVerif.Properties.DetectCoreA
import PcfgVerif.Properties.DetectCoreB
import PcfgVerif.Properties.DetectCoreC
import PcfgVerif.Lemmas.ScoreA1
import PcfgVerif.Lemmas.ScoreA2
import PcfgVerif.Lemmas.ScoreA3
import PcfgVerif.Lemmas.ScoreA4
/-! C13, part A: coherence of the parser's lists with its sections (proved) -/
namespace Pcfg.Detect

/-- the lists the parser produces are, category by category, the texts of the labelled sections -/
theorem parse_coherent (U : UEnv) (cfg : MWCfg) (t : MWTable) (pw : CPs) (hne : pw ≠ [])
    (hl : LenPres U pw) : Coherent U pw (parse U cfg t pw) := by
  -- the stages of the pipeline
  let s0 := (detectKeyboardWalk U pw).1
  let r1 := splitLoop (detectEmail U) .skipFirst (loopFuel s0) [] s0 []
  let r2 := splitLoop (detectWebsite U) .skipFirst (loopFuel r1.1) [] r1.1 []
  let r3 := splitLoop (detectYear U) .recheck (loopFuel r2.1) [] r2.1 []
  let r4 := splitLoop (detectContext U) .recheck (loopFuel r3.1) [] r3.1 []
  let r5 := splitLoop (detectAlphaR U cfg t) .skipFirst (loopFuel r4.1) [] r4.1 []
  let r6 := splitLoop (detectDigits U) .skipFirst (loopFuel r5.1) [] r5.1 []
  let r7 := otherDetection r6.1
  let a5 := splitLoop (detectAlpha U cfg t) .skipFirst (loopFuel r4.1) [] r4.1 []
  have h5eq : a5 = (r5.1, r5.2.map recsOut) := alpha_stage_eq U cfg t _ _
  -- the fields of the result
  have hsec : (parse U cfg t pw).sections = r7.1 := by
    show (otherDetection (splitLoop (detectDigits U) .skipFirst (loopFuel a5.1) [] a5.1 []).1).1 = r7.1
    rw [h5eq]
  have hwalks : (parse U cfg t pw).walks = (detectKeyboardWalk U pw).2 := rfl
  have hyears : (parse U cfg t pw).years = r3.2 := rfl
  have hctx : (parse U cfg t pw).contexts = r4.2 := rfl
  have halphas : (parse U cfg t pw).alphas = r5.2.flatten.map (·.word) := by
    show a5.2.flatMap (·.1) = _
    rw [h5eq]; exact flatMap_words _
  have hmasks : (parse U cfg t pw).masks = r5.2.flatten.map (·.mask) := by
    show a5.2.flatMap (·.2) = _
    rw [h5eq]; exact flatMap_masks _
  have hdigits : (parse U cfg t pw).digits = r6.2 := by
    show (splitLoop (detectDigits U) .skipFirst (loopFuel a5.1) [] a5.1 []).2 = r6.2
    rw [h5eq]
  have hothers : (parse U cfg t pw).others = r7.2 := by
    show (otherDetection (splitLoop (detectDigits U) .skipFirst (loopFuel a5.1) [] a5.1 []).1).2 = r7.2
    rw [h5eq]
  -- categories through the stages
  have hkw := detectKeyboardWalk_tiles U pw hne
  have T0 : ∀ c, textsOf s0 c = if c = 'K' then (detectKeyboardWalk U pw).2 else [] := by
    intro c
    rw [kw_textsOf s0 hkw.2 c, detectKeyboardWalk_found U pw hne]
  have T1 : ∀ c, c ≠ 'E' → textsOf r1.1 c = textsOf s0 c := fun c hc =>
    splitLoop_textsOf_other _ _ 'E' c hc (detectEmail_only U) _ _
  have T2 : ∀ c, c ≠ 'W' → textsOf r2.1 c = textsOf r1.1 c := fun c hc =>
    splitLoop_textsOf_other _ _ 'W' c hc (detectWebsite_only U) _ _
  have T3 : ∀ c, c ≠ 'Y' → textsOf r3.1 c = textsOf r2.1 c := fun c hc =>
    splitLoop_textsOf_other _ _ 'Y' c hc (detectYear_only U) _ _
  have T4 : ∀ c, c ≠ 'X' → textsOf r4.1 c = textsOf r3.1 c := fun c hc =>
    splitLoop_textsOf_other _ _ 'X' c hc (detectContext_only U) _ _
  have T5 : ∀ c, c ≠ 'A' → textsOf r5.1 c = textsOf r4.1 c := fun c hc =>
    splitLoop_textsOf_other _ _ 'A' c hc (detectAlphaR_only U cfg t) _ _
  have T6 : ∀ c, c ≠ 'D' → textsOf r6.1 c = textsOf r5.1 c := fun c hc =>
    splitLoop_textsOf_other _ _ 'D' c hc (detectDigits_only U) _ _
  have T7 : ∀ c, c ≠ 'O' → textsOf r7.1 c = textsOf r6.1 c := fun c hc =>
    otherDetection_textsOf _ c hc
  have P3 : (r3.2.flatMap (fun y => [y]) ++ textsOf r2.1 'Y').Perm (textsOf r3.1 'Y') :=
    splitLoop_perm _ _ 'Y' _ (detectYear_texts U) _ _
  have P4 : (r4.2.flatMap (fun y => [y]) ++ textsOf r3.1 'X').Perm (textsOf r4.1 'X') :=
    splitLoop_perm _ _ 'X' _ (detectContext_texts U) _ _
  have P5 : (r5.2.flatMap (fun recs => recs.map (·.orig)) ++ textsOf r4.1 'A').Perm
      (textsOf r5.1 'A') :=
    splitLoop_perm _ _ 'A' _ (detectAlphaR_texts U cfg t) _ _
  have P6 : (r6.2.flatMap (fun y => [y]) ++ textsOf r5.1 'D').Perm (textsOf r6.1 'D') :=
    splitLoop_perm _ _ 'D' _ (detectDigits_texts U) _ _
  have P7 : (r7.2 ++ textsOf r6.1 'O').Perm (textsOf r7.1 'O') := otherDetection_perm _
  -- tiling and labels through the stages
  have K0 : TilesFrom U pw 0 s0 ∧ ∀ x ∈ s0, SecOK x := ⟨hkw.1, kw_secOK s0 hkw.2⟩
  have K1 := stage_ok U pw hl (detectEmail U) .skipFirst (detectEmail_ok U)
    (fun text pieces f _ _ h => detectEmail_secOK U text pieces f h) (loopFuel s0) s0 K0.1 K0.2
  have K2 := stage_ok U pw hl (detectWebsite U) .skipFirst (detectWebsite_ok U)
    (fun text pieces f _ _ h => detectWebsite_secOK U text pieces f h) (loopFuel r1.1) r1.1 K1.1 K1.2
  have K3 := stage_ok U pw hl (detectYear U) .recheck (detectYear_ok U)
    (fun text pieces f _ _ h => detectYear_secOK U text pieces f h) (loopFuel r2.1) r2.1 K2.1 K2.2
  have K4 := stage_ok U pw hl (detectContext U) .recheck (detectContext_ok U)
    (fun text pieces f _ _ h => detectContext_secOK U text pieces f h) (loopFuel r3.1) r3.1 K3.1 K3.2
  have K5 := stage_ok U pw hl (detectAlphaR U cfg t) .skipFirst (detectAlphaR_ok U cfg t)
    (fun text pieces f hlt hsl h => (detectAlphaR_step U cfg t pw text pieces f hlt hsl h).1)
    (loopFuel r4.1) r4.1 K4.1 K4.2
  have Q5 : ∀ recs ∈ r5.2, ∀ r ∈ recs, RecOK U pw r :=
    (splitLoop_GQ U (detectAlphaR U cfg t) .skipFirst (detectAlphaR_ok U cfg t) pw hl SecOK
      (fun recs => ∀ r ∈ recs, RecOK U pw r)
      (fun text pieces f _ hlt hsl h => detectAlphaR_step U cfg t pw text pieces f hlt hsl h)
      (loopFuel r4.1) r4.1 K4.1 K4.2).2
  have K6 := stage_ok U pw hl (detectDigits U) .skipFirst (detectDigits_ok U)
    (fun text pieces f _ _ h => detectDigits_secOK U text pieces f h) (loopFuel r5.1) r5.1 K5.1 K5.2
  have K7 := otherDetection_secOK r6.1 K6.2
  refine ⟨?_, ?_, ?_, ?_, ?_, ?_, ?_, ?_⟩
  · -- walks
    rw [hsec, hwalks, T7 'K' (by decide), T6 'K' (by decide), T5 'K' (by decide), T4 'K' (by decide),
      T3 'K' (by decide), T2 'K' (by decide), T1 'K' (by decide), T0 'K']
    simp
  · -- years
    rw [hsec, hyears, T7 'Y' (by decide), T6 'Y' (by decide), T5 'Y' (by decide), T4 'Y' (by decide)]
    rw [T2 'Y' (by decide), T1 'Y' (by decide), T0 'Y', flatMap_single] at P3
    simpa using P3
  · -- contexts
    rw [hsec, hctx, T7 'X' (by decide), T6 'X' (by decide), T5 'X' (by decide)]
    rw [T3 'X' (by decide), T2 'X' (by decide), T1 'X' (by decide), T0 'X', flatMap_single] at P4
    simpa using P4
  · -- digits
    rw [hsec, hdigits, T7 'D' (by decide)]
    rw [T5 'D' (by decide), T4 'D' (by decide), T3 'D' (by decide), T2 'D' (by decide),
      T1 'D' (by decide), T0 'D', flatMap_single] at P6
    simpa using P6
  · -- others
    rw [hsec, hothers]
    rw [T6 'O' (by decide), T5 'O' (by decide), T4 'O' (by decide), T3 'O' (by decide),
      T2 'O' (by decide), T1 'O' (by decide), T0 'O'] at P7
    simpa using P7
  · -- alpha
    refine ⟨r5.2.flatten, halphas, hmasks, ?_, ?_⟩
    · rw [hsec, T7 'A' (by decide), T6 'A' (by decide)]
      rw [T4 'A' (by decide), T3 'A' (by decide), T2 'A' (by decide), T1 'A' (by decide), T0 'A',
        flatMap_origs] at P5
      simpa using P5
    · intro r hr
      obtain ⟨recs, hrecs, hr'⟩ := List.mem_flatten.mp hr
      exact Q5 recs hrecs r hr'
  · -- labels
    intro s hs
    rw [hsec] at hs
    obtain ⟨l, h1, h2, _⟩ := K7 s hs
    exact ⟨l, h1, h2⟩
  · -- year_len
    intro s hs hy
    rw [hsec] at hs
    obtain ⟨l, h1, _, h3⟩ := K7 s hs
    rw [h1] at hy
    exact h3 (Option.some.inj hy)

end Pcfg.Detect
