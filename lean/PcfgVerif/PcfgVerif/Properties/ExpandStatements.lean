import PcfgVerif.Model.ExpandSpec
/-! Statements to be proved (work file for the expansion core: C04, C09, C17). -/
namespace Pcfg

/-- the Markov loop prints the level's guesses in order; unlimited -/
theorem omenLoop_none (gs : List Str) :
    omenLoop gs none = ⟨gs, gs.length, false⟩ := by
  sorry

/-- with a limit `n ≥ 1` it prints exactly the first `n` and returns how many it printed -/
theorem omenLoop_limit (gs : List Str) (n : Nat) (hn : 1 ≤ n) :
    omenLoop gs (some (n : Int)) = ⟨gs.take n, min n gs.length, false⟩ := by
  sorry

/-- C04: an error-free non-Markov pre-terminal expands to exactly the product of its groups, and the
returned count is the number of lines written -/
theorem recGuesses_none (upper : Char → List Char) (g : EGrammar) (omen : Nat → Option (List Str))
    (cur : Str) (pt : PT) (hpt : pt ≠ []) (hok : okSpec upper g cur pt = true) :
    recGuesses upper g omen cur pt none =
      ⟨productSpec upper g cur pt, (productSpec upper g cur pt).length, false⟩ := by
  sorry

/-- C09: with `limit = n ≥ 1` the output is exactly the first `n` lines of the unlimited output, the
count is `min n total` — also when `n` falls inside a group or inside a mask loop -/
theorem recGuesses_limit (upper : Char → List Char) (g : EGrammar) (omen : Nat → Option (List Str))
    (cur : Str) (pt : PT) (hpt : pt ≠ []) (hok : okSpec upper g cur pt = true) (n : Nat) (hn : 1 ≤ n) :
    recGuesses upper g omen cur pt (some (n : Int)) =
      ⟨(productSpec upper g cur pt).take n, min n (productSpec upper g cur pt).length, false⟩ := by
  sorry

/-- every group of an error-free pre-terminal is non-empty, so it produces at least one guess -/
theorem productSpec_pos (upper : Char → List Char) (g : EGrammar) (cur : Str) (pt : PT)
    (hok : okSpec upper g cur pt = true) : 0 < (productSpec upper g cur pt).length := by
  sorry

/-- a generator that honours its limit exactly -/
def ExactLimit (gen : PT → Option Int → ERes) : Prop :=
  ∀ pt, (gen pt none).count = (gen pt none).out.length ∧
    ∀ n : Nat, 1 ≤ n → gen pt (some (n : Int)) = ⟨(gen pt none).out.take n, min n (gen pt none).out.length, false⟩

/-- C09 at session level: whatever the sequence of popped pre-terminals, `--limit N` yields the
first `N` lines of the unlimited run (all of them if there are fewer) -/
theorem sessionLoop_limit (gen : PT → Option Int → ERes) (hgen : ExactLimit gen)
    (pts : List PT) (n : Nat) (hn : 1 ≤ n) :
    sessionLoop gen pts (some (n : Int)) = (sessionLoop gen pts none).take n := by
  sorry

/-- the unlimited session output is the concatenation of the pre-terminals' outputs -/
theorem sessionLoop_none (gen : PT → Option Int → ERes) (pts : List PT) :
    sessionLoop gen pts none = pts.flatMap fun pt => (gen pt none).out := by
  sorry

end Pcfg
