import PcfgVerif.Generated.ProcessState
import PcfgVerif.Lemmas.DetectWebsiteSpec
import PcfgVerif.Model.Scorer
import PcfgVerif.Generated.CliOptions
import PcfgVerif.Properties.C03
import PcfgVerif.Properties.ScoreCoreA
import PcfgVerif.Properties.ScoreCoreB
import PcfgVerif.Properties.C13Witness
/-!
# C13 — a non-zero score is a promise the guesser keeps

`score` is the scorer (`PCFGPasswordScorer.parse` after the detectors), `parse` the detector pipeline
shared with the trainer (C05), `productSpec` the guesses of a pre-terminal (C04), `probFold` the
guesser's `_find_prob`.  `Agree` says that the guesser's grammar and the scorer's tables were loaded
from the same files (shown for the loader models by `C13_same_files`, from the C07 round trips).
`CaseInvAll` is the domain clause: the case mapping is one-to-one on the password's letters; where it
is not (title-case digraphs, U+0130 …) the promise fails on the real code — the recorded known
finding.  Probabilities are elements of a commutative monoid with absorbing zero (exact arithmetic);
over doubles the two products differ by rounding only (the harness allows 1e-12 relative).
-/
namespace Pcfg.C13
open Pcfg.Detect

/-- strings in which an e-mail address or a website is detected get probability zero -/
theorem C13_email_web_zero {P : Type} (mul : P → P → P) (gt : P → P → Bool) (one zero limit : P)
    (g : ScoreG P) (p : Parsed) (omenOk : Bool) (h : p.emails ≠ [] ∨ p.websites ≠ []) :
    (score mul gt one zero limit g p omenOk).prob = zero ∧
    ((score mul gt one zero limit g p omenOk).category = 'e' ∨
     (score mul gt one zero limit g p omenOk).category = 'w') := by
  unfold score
  rcases h with h | h
  · have : p.emails.isEmpty = false := by cases hh : p.emails <;> simp_all
    simp [this]
  · by_cases he : p.emails.isEmpty = true
    · have : p.websites.isEmpty = false := by cases hh : p.websites <;> simp_all
      simp [he, this]
    · simp [he]

/-- the lists the scorer multiplies over are, category by category, the texts of the labelled
sections of the parse (alpha words with their masks and their lower-casing in context) -/
theorem C13_coherent (U : UEnv) (cfg : MWCfg) (t : MWTable) (pw : CPs) (hne : pw ≠ [])
    (hl : LenPres U pw) : Coherent U pw (parse U cfg t pw) :=
  parse_coherent U cfg t pw hne hl

/-- **the promise**: a non-zero score is the probability (the guesser's own `_find_prob` product) of a
pre-terminal of the guesser's grammar — a base structure with one group per position — among whose
guesses is exactly the scored string -/
theorem C13_promise {P : Type} (M : CMon P) (le : P → P → Bool) (gt : P → P → Bool) (limit : P)
    (U : UEnv) (upper : Char → List Char) (cfg : MWCfg) (t : MWTable) (pw : CPs) (hne : pw ≠ [])
    (hl : LenPres U pw) (hsc : ScalarCPs pw) (hcase : CaseInvAll U upper pw)
    (g : ScoreG P) (V : GView P) (hag : Agree M.zero g V) (omenOk : Bool)
    (hnz : (score M.mul gt M.one M.zero limit g (parse U cfg t pw) omenOk).prob ≠ M.zero) :
    ∃ (reps : List String) (bp : P) (idx : List Nat), (reps, bp) ∈ V.bases ∧ idx.length = reps.length ∧
      toStr pw ∈ productSpec upper V.E [] (mkPT reps idx) ∧
      probFold ⟨le, M.mul⟩ bp (reps.map V.colP) idx =
        (score M.mul gt M.one M.zero limit g (parse U cfg t pw) omenOk).prob :=
  score_promise M le gt limit U upper cfg t pw hne hl hsc hcase g V hag omenOk
    (parse_coherent U cfg t pw hne hl) hnz

/-- the `Agree.term` link for the loader models: of one list file written by the trainer, the
scorer's loader returns the (value, probability) pairs and the guesser's loader groups in which every
value carries that same probability -/
theorem C13_same_files {P : Type} [DecidableEq P] (parseP : CPs → Option P) (neg1 : P)
    (items : List (CPs × CPs))
    (hc : ∀ it ∈ items, CleanValue it.1 ∧ CleanProb it.2)
    (hp : ∀ it ∈ items, ∃ p, parseP it.2 = some p ∧ p ≠ neg1)
    (hd : (items.map (·.1)).Nodup) :
    ∃ gs tbl, loadFromFile parseP (fun a b => decide (a = b)) neg1 (writeFile items) = some gs ∧
      scorerLoad parseP (writeFile items) = some tbl ∧
      ∀ v p, (tbl.find? (·.1 == v)).map (·.2) = some p →
        ∃ (j : Nat) (grp : LGroup P), gs[j]? = some grp ∧ v ∈ grp.values ∧ grp.prob = p :=
  agree_of_file parseP neg1 items hc hp hd

/-- the score depends only on the string and the ruleset: `score` and `parse` are functions (no state,
no randomness); recorded as the trivial statement it is -/
theorem C13_deterministic {P : Type} (mul : P → P → P) (gt : P → P → Bool) (one zero limit : P)
    (g : ScoreG P) (U : UEnv) (cfg : MWCfg) (t : MWTable) (pw pw' : CPs) (omenOk : Bool) (h : pw = pw') :
    score mul gt one zero limit g (parse U cfg t pw) omenOk =
    score mul gt one zero limit g (parse U cfg t pw') omenOk := by rw [h]

/-- outside the domain clause the promise fails (recorded known finding, replayed by the harness on the
real trainer, scorer and guesser): for `ǅabc1` (U+01C5, a letter that is neither upper nor lower case and
lower-cases to U+01C6) every factor is found, the score is 210 ≠ 0, the pre-terminal of those factors emits
`ǆabc1` only, and `CaseInvAll` is exactly the hypothesis that does not hold -/
theorem C13_outside_domain (gt : Nat → Nat → Bool) (limit : Nat) (omenOk : Bool) :
    (score (· * ·) gt 1 0 limit C13Witness.g (parse C13Witness.titleU {} [] C13Witness.pw) omenOk).prob = 210 ∧
    toStr C13Witness.pw ∉ productSpec C13Witness.up C13Witness.E [] [("A4", 0), ("C4", 0), ("D1", 0)] ∧
    ¬ CaseInvAll C13Witness.titleU C13Witness.up C13Witness.pw :=
  ⟨C13Witness.score_nonzero gt limit omenOk, C13Witness.guesser_emits_other.2, C13Witness.not_caseInv⟩

/-- **the promise for every trained ruleset, with no hypothesis about the ruleset**: train on any list (`Trainer.train`), write the
lists with any coverage; the scorer reads `scoreGOf`, the guesser `viewOf` (`Agree` between the two is `Trainer.trained_agree`).
Then for *every* candidate string — in the training list or not — and whatever multi-word table the scorer's own detector holds, a
non-zero score is the probability of a pre-terminal of the guesser's grammar that has the string among its guesses.  Remaining
hypotheses: the domain clause (`CaseInvAll`, `LenPres`) and the tokeniser's `isalpha` on `A`–`Z` / `0`–`9`. -/
theorem C13_trained_promise (U : UEnv) (upper : Char → List Char) (cfg : MWCfg) (pws : List CPs) (cov : Rat)
    (isAlpha : Nat → Bool) (hcap : ∀ c, 65 ≤ c → c ≤ 90 → isAlpha c = true) (hdig : ∀ c, 48 ≤ c → c ≤ 57 → isAlpha c = false)
    (le gt : Rat → Rat → Bool) (limit : Rat) (t : MWTable) (pw : CPs) (hne : pw ≠ [])
    (hl : LenPres U pw) (hsc : ScalarCPs pw) (hcase : CaseInvAll U upper pw) (omenOk : Bool)
    (hnz : (score (· * ·) gt 1 0 limit (Trainer.scoreGOf cov pws.length (Trainer.train U cfg pws)) (parse U cfg t pw) omenOk).prob ≠ 0) :
    ∃ (reps : List String) (bp : Rat) (idx : List Nat),
      (reps, bp) ∈ (Trainer.viewOf isAlpha cov pws.length (Trainer.train U cfg pws)).bases ∧ idx.length = reps.length ∧
      toStr pw ∈ productSpec upper (Trainer.viewOf isAlpha cov pws.length (Trainer.train U cfg pws)).E [] (mkPT reps idx) ∧
      probFold ⟨le, (· * ·)⟩ bp (reps.map (Trainer.viewOf isAlpha cov pws.length (Trainer.train U cfg pws)).colP) idx =
        (score (· * ·) gt 1 0 limit (Trainer.scoreGOf cov pws.length (Trainer.train U cfg pws)) (parse U cfg t pw) omenOk).prob :=
  C13_promise C03.ratCMon le gt limit U upper cfg t pw hne hl hsc hcase _ _
    (Trainer.trained_agree isAlpha hcap hdig cov pws.length _
      (Trainer.train_lenok U cfg (·.masks) (·.masks) (fun _ _ => rfl) rfl pws)) omenOk hnz

/-- the option glue of `password_scorer.py` (regenerated from the source): ruleset name, input, output, cut-off, OMEN level
cap and count-prefix flag reach the scorer as typed -/
theorem C13_cli_passes_options :
    Generated.CliOptions.scorerAssign =
      [("parse_command_line", "rule_name", "args.rule"),
       ("parse_command_line", "input_file", "args.input"),
       ("parse_command_line", "output_file", "args.output"),
       ("parse_command_line", "limit", "args.limit"),
       ("parse_command_line", "max_omen_level", "args.max_omen"),
       ("parse_command_line", "prefixcount", "args.prefixcount")] := by
  decide

/-- **every tool works on the same `Rules` folder** (regenerated from the five programs): the trainer, the guesser, `edit_rules.py`,
`prince_ling.py` and the scorer each build the ruleset directory from one and the same expression for their own location - so a ruleset
one tool wrote or edited under a name is the ruleset another tool reads under that name, from whatever directory or through whatever link
either was started -/
theorem C13_tools_share_the_rules_folder :
    (["trainer.py", "pcfg_guesser.py", "edit_rules.py", "prince_ling.py", "password_scorer.py"].all
      fun p => Generated.CliOptions.rulesDirRoots.any (·.1 == p)) = true ∧
    ∀ a ∈ Generated.CliOptions.rulesDirRoots, ∀ b ∈ Generated.CliOptions.rulesDirRoots, a.2 = b.2 := by
  decide

/-- **which occurrence of a top-level domain makes a string a website** (the search loop of `detect_website`, for every string, every
character classification and every domain of the source's table): the position the search returns is an occurrence of the domain that
ends a host name - it ends the string, or what follows is neither a letter nor a dot - and no occurrence further left does.  It is the
*first* such occurrence from the left: letters that merely look like the domain earlier in the string (`www.community.com`) are passed
over, and the same letters turning up again later as the start of a longer word (`site.com-my.company`) change nothing -/
theorem C13_website_first_host_end (U : Detect.UEnv) (w tld : CPs) (hm : tld ∈ Generated.Tables.tldList) (total : Nat)
    (h : Detect.tldOccurrence U w tld (w.length + 1) (Detect.findSub w tld) = some total) :
    Detect.OccursAt w tld total ∧ Detect.endsHost U w tld total = true ∧
      ∀ k, k < total → Detect.OccursAt w tld k → Detect.endsHost U w tld k = false :=
  Detect.tldSearch_first_host_end U w tld hm total h

/-- the two shapes named above, run through the model with ASCII letters: `.com` of `www.community.com` is found at 13 (not at 3),
`.com` of `site.com-my.company` at 4 (not at 11) -/
example :
    let U : Detect.UEnv := ⟨fun c => (97 ≤ c && c ≤ 122) || (65 ≤ c && c ≤ 90), fun c => 48 ≤ c && c ≤ 57, fun c => 65 ≤ c && c ≤ 90, id, id⟩
    let tld := ".com".toList.map Char.toNat
    let w1 := "www.community.com".toList.map Char.toNat
    let w2 := "site.com-my.company".toList.map Char.toNat
    Detect.tldOccurrence U w1 tld (w1.length + 1) (Detect.findSub w1 tld) = some 13 ∧
    Detect.tldOccurrence U w2 tld (w2.length + 1) (Detect.findSub w2 tld) = some 4 := by
  decide

/-- ... and it finds one **exactly when** there is one: for a domain of the table, the search comes back with a position if and only if
some occurrence of the domain in the string ends a host name (the loop runs out of neither candidates nor steps before it has seen them
all) -/
theorem C13_website_found_iff (U : Detect.UEnv) (w tld : CPs) (hm : tld ∈ Generated.Tables.tldList) :
    (Detect.tldOccurrence U w tld (w.length + 1) (Detect.findSub w tld)).isSome = true ↔
      ∃ k, Detect.OccursAt w tld k ∧ Detect.endsHost U w tld k = true :=
  Detect.tldSearch_finds_iff U w tld hm

/-- **`detect_website` as a whole**: a section is taken for a website exactly when, in its lower-cased working copy, some top-level domain
of the table has an occurrence that ends a host name - for every string and every character classification -/
theorem C13_website_detected_iff (U : Detect.UEnv) (text : CPs) :
    (Detect.detectWebsite U text).isSome = true ↔
      ∃ tld ∈ Generated.Tables.tldList, ∃ k, Detect.OccursAt (U.lowerS text) tld k ∧ Detect.endsHost U (U.lowerS text) tld k = true :=
  Detect.detectWebsite_isSome_iff U text

/-- **`detect_email` as a whole**: a section is taken for an e-mail address exactly when, in its lower-cased working copy, the *first*
occurrence of some top-level domain of the table has an `@` somewhere in front of its end (later occurrences of the domain are not
looked at - `bob@x.com` is one, `x.com@bob` is one as well, `a.com/b@c.com` is judged by the first `.com`) -/
theorem C13_email_detected_iff (U : Detect.UEnv) (text : CPs) :
    (Detect.detectEmail U text).isSome = true ↔
      ∃ tld ∈ Generated.Tables.tldList, ∃ e0, Detect.findSub (U.lowerS text) tld = some e0 ∧
        ∃ m, Detect.OccursAt ((U.lowerS text).take (e0 + tld.length)) [Detect.cpOf '@'] m :=
  Detect.detectEmail_isSome_iff U text

/-- **nothing outlives a call except the objects a caller holds** (regenerated from the four library packages): no module-level or
class-level mutable container, no cache decorator or cache call (`functools.lru_cache`, `cache`), no mutable or computed default
argument and no `global` statement anywhere in `lib_guesser`, `lib_trainer`, `lib_scorer`, `lib_princeling`.  The models of this file are
functions of the objects handed to the code (grammar, detector, tables, memo table); this is the fact that lets them be: an answer cannot
depend on what another object, an earlier ruleset in the same process or the other thread did -/
theorem C13_no_process_wide_state : Generated.ProcessState.processWideState = [] := by
  decide

end Pcfg.C13
