import PcfgVerif.Model.Scorer
/-! C13 — (theorems are added when proved) -/
namespace Pcfg.C13
open Pcfg.Detect

/-- strings in which an e-mail address or a website is detected get probability zero -/
theorem C13_email_web_zero {P : Type} (mul : P → P → P) (gt : P → P → Bool) (one zero limit : P)
    (g : ScoreG P) (p : Parsed) (omenOk : Bool) (h : p.emails ≠ [] ∨ p.websites ≠ []) :
    (score mul gt one zero limit g p omenOk).prob = zero ∧
    ((score mul gt one zero limit g p omenOk).category = 'e' ∨
     (score mul gt one zero limit g p omenOk).category = 'w') := by
  unfold score
  rcases h with h | h
  · have : p.emails.isEmpty = false := by cases hh : p.emails <;> simp_all
    simp [this]
  · by_cases he : p.emails.isEmpty = true
    · have : p.websites.isEmpty = false := by cases hh : p.websites <;> simp_all
      simp [he, this]
    · simp [he]

end Pcfg.C13
