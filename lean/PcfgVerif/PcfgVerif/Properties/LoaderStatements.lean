import PcfgVerif.Model.Loader
import PcfgVerif.Model.CheckValid
/-! Statements to be proved (work file for the loader core: C07, C14, C04's "same probability per group"). -/
namespace Pcfg
variable {P : Type}

/-- a value the line-oriented format can carry: no line boundary, no TAB, no lone surrogate -/
def CleanValue (v : CPs) : Prop := ∀ c ∈ v, isLineSep c = false ∧ c ≠ 0x09 ∧ isSurrogate c = false

/-- a probability text as `str(float)` produces it: non-empty, no whitespace, no line boundary -/
def CleanProb (p : CPs) : Prop :=
  p ≠ [] ∧ ∀ c ∈ p, isLineSep c = false ∧ c ≠ 0x09 ∧ isPySpace c = false ∧ isSurrogate c = false

/-- every accepted password consists of characters the format can carry (the table of rejected code
points is generated from `check_valid`'s source) -/
theorem checkValid_clean (v : CPs) (h : checkValid v = true) (hs : ∀ c ∈ v, isSurrogate c = false) :
    CleanValue v ∧ v ≠ [] := by
  sorry

/-- the codec reader sees the written file as exactly the written lines -/
theorem codecLines_writeFile (items : List (CPs × CPs))
    (hc : ∀ it ∈ items, CleanValue it.1 ∧ CleanProb it.2) :
    codecLines (writeFile items) = items.map fun it => writeLine it.1 it.2 := by
  sorry

/-- a written line splits back into its two fields -/
theorem split_writeLine (v p : CPs) (hv : CleanValue v) (hp : CleanProb p) :
    pySplit 0x09 (rstripWs (writeLine v p)) = [v, p] := by
  sorry

/-- C07 (scorer): the scorer's loader returns every (value, probability) pair that was written -/
theorem scorerLoad_writeFile (parseP : CPs → Option P) (items : List (CPs × CPs))
    (hc : ∀ it ∈ items, CleanValue it.1 ∧ CleanProb it.2)
    (hp : ∀ it ∈ items, (parseP it.2).isSome) :
    scorerLoad parseP (writeFile items) =
      some (items.filterMap fun it => (parseP it.2).map fun p => (it.1, p)) := by
  sorry

/-- C07 (guesser): the guesser's loader returns every written value, in order, in groups; each value
sits in a group whose probability equals the one written next to it; the error-recovery branch
(`error_flag`) is never taken; neighbouring groups have different probabilities (maximal runs) -/
theorem loadFromFile_writeFile (parseP : CPs → Option P) (eqv : P → P → Bool) (neg1 : P)
    (heq_refl : ∀ a, eqv a a = true)
    (heq_symm : ∀ a b, eqv a b = true → eqv b a = true)
    (heq_trans : ∀ a b c, eqv a b = true → eqv b c = true → eqv a c = true)
    (items : List (CPs × CPs))
    (hc : ∀ it ∈ items, CleanValue it.1 ∧ CleanProb it.2)
    (hp : ∀ it ∈ items, ∃ p, parseP it.2 = some p ∧ eqv p neg1 = false) :
    ∃ gs, loadFromFile parseP eqv neg1 (writeFile items) = some gs ∧
      gs.flatMap (·.values) = items.map (·.1) ∧
      (∀ g ∈ gs, g.values ≠ []) ∧
      (∀ (i : Nat) (a : CPs × P) (it : CPs × CPs),
        (gs.flatMap fun g => g.values.map fun v => (v, g.prob))[i]? = some a → items[i]? = some it →
          a.1 = it.1 ∧ ∃ p, parseP it.2 = some p ∧ eqv p a.2 = true) ∧
      (∀ (i : Nat), ∀ g1 g2, gs[i]? = some g1 → gs[i + 1]? = some g2 → eqv g2.prob g1.prob = false) := by
  sorry

/-- total used for renormalisation under `skip_brute`: 1 − P(first `M` line), or 1 when there is none -/
def skipTotal (parseP : CPs → Option P) (A : PArith P) (text : CPs) : Option P :=
  match findMarkovProb parseP (textModeLines text) with
  | none => none
  | some none => some A.one
  | some (some pm) => some (A.sub A.one pm)

/-- C14 (`skip_brute`): if the default load succeeds with structures `bs`, then the `skip_brute` load
yields exactly the structures of `bs` without an `M` replacement, in the same order, each with its
file probability divided by `1 − P(M)` — whether or not there is an `M` line at all (then the divisor
is 1) -/
theorem loadBase_skip (parseP : CPs → Option P) (A : PArith P) (isAlpha : Nat → Bool) (text : CPs)
    (hone : ∀ p, A.div p A.one = some p)
    (bs : List (BaseS P)) (hdef : loadBase parseP A isAlpha false text = some bs)
    (tot : P) (htot : skipTotal parseP A text = some tot)
    (hdiv : ∀ b ∈ bs, (A.div b.prob tot).isSome) :
    loadBase parseP A isAlpha true text =
      some ((bs.filter fun b => !(b.replacements.contains [0x4d])).filterMap fun b =>
        (A.div b.prob tot).map fun q => { b with prob := q }) := by
  sorry

/-- no `M` line ⇒ the divisor is 1 and `skip_brute` changes nothing (the case that used to load zero
structures) -/
theorem loadBase_skip_noM (parseP : CPs → Option P) (A : PArith P) (isAlpha : Nat → Bool) (text : CPs)
    (hone : ∀ p, A.div p A.one = some p)
    (bs : List (BaseS P)) (hdef : loadBase parseP A isAlpha false text = some bs)
    (hnoM : ∀ b ∈ bs, b.replacements.contains [0x4d] = false)
    (hscan : findMarkovProb parseP (textModeLines text) = some none) :
    loadBase parseP A isAlpha true text = some bs := by
  sorry

/-- every `A<n>` is directly followed by `C<n>`, and nothing else is inserted -/
theorem insertCase_spec (reps : List CPs) (h : ∀ r ∈ reps, r.head? ≠ some 0x43) :
    (insertCase reps).filter (fun r => r.head? != some 0x43) = reps ∧
    ∀ (i : Nat) r, (insertCase reps)[i]? = some r → r.head? = some 0x41 →
      (insertCase reps)[i + 1]? = some (0x43 :: r.tail) := by
  sorry

end Pcfg
