import PcfgVerif.Properties.OmenTrainCore
/-!
# C18 — the saved OMEN keyspace is the number of guesses a level really produces

`levelKeyspace` is what `calc_omen_keyspace` adds up for one level (`recKeyspace` = `_rec_calc_keyspace`
without its memo table; `ksRow` = the memoised form).  The saved probability `(count/N)/keyspace` is
arithmetic on these numbers (compared exactly by the harness).
-/
namespace Pcfg.C18
open Omen

/-- the recorded keyspace of a level = the number of guesses the generator emits at that level -/
theorem C18_keyspace (t : TTables) (hwf : t.WF) (level : Nat)
    (s0 : CState) (hs : t.toTables.start = some s0) :
    ∃ N, ∀ fuel, N ≤ fuel → (t.toTables.enumFrom level fuel s0).length = t.levelKeyspace level :=
  levelKeyspace_eq_emitted t hwf level s0 hs

/-- per (length, initial n-gram) block the recursion counts the parse trees -/
theorem C18_block (t : TTables) (hwf : t.WF) (len : Nat) (ip : Str) (level : Nat) :
    t.recKeyspace len ip level = (t.toTables.m.allTrees len ip level).length :=
  recKeyspace_eq_allTrees t hwf len ip level

/-- the memo table changes nothing -/
theorem C18_memo (t : TTables) (hwf : t.WF) (maxL len : Nat) (ip : Str) (level : Nat)
    (hl : level ≤ maxL) (hip : ip ∈ t.entries.map (·.key)) :
    lookupRow (t.ksRow maxL len) ip level = t.recKeyspace len ip level :=
  lookupRow_ksRow t hwf maxL len ip level hl hip

/-- every level `calc_omen_keyspace` lists carries its full keyspace (also the one at which the limit is
exceeded), levels are consecutive, and only the last one may exceed the limit -/
theorem C18_listing (t : TTables) (maxKeyspace fuel first : Nat) :
    (∀ p ∈ t.calcKeyspace maxKeyspace fuel first, p.2 = t.levelKeyspace p.1) ∧
    (t.calcKeyspace maxKeyspace fuel first).map (·.1) =
      (List.range (t.calcKeyspace maxKeyspace fuel first).length).map (· + first) ∧
    (∀ (i : Nat) p, (t.calcKeyspace maxKeyspace fuel first)[i]? = some p →
      i + 1 < (t.calcKeyspace maxKeyspace fuel first).length → p.2 ≤ maxKeyspace) :=
  calcKeyspace_spec t maxKeyspace fuel first

end Pcfg.C18
