import PcfgVerif.Generated.ProcessState
import PcfgVerif.Properties.OmenTrainCore
import PcfgVerif.Lemmas.OmenProbLemmas
import PcfgVerif.Lemmas.OmenFilesD
import PcfgVerif.Lemmas.OmenCountLemmas
import PcfgVerif.Lemmas.SoftFloatLemmas
import PcfgVerif.Properties.ProbsCore
/-!
# C18 — the saved OMEN keyspace is the number of guesses a level really produces

`levelKeyspace` is what `calc_omen_keyspace` adds up for one level (`recKeyspace` = `_rec_calc_keyspace`
without its memo table; `ksRow` = the memoised form).  The saved probability `(count/N)/keyspace` is
arithmetic on these numbers (compared exactly by the harness).
-/
namespace Pcfg.C18
open Omen

/-- the recorded keyspace of a level = the number of guesses the generator emits at that level -/
theorem C18_keyspace (t : TTables) (hwf : t.WF) (level : Nat)
    (s0 : CState) (hs : t.toTables.start = some s0) :
    ∃ N, ∀ fuel, N ≤ fuel → (t.toTables.enumFrom level fuel s0).length = t.levelKeyspace level :=
  levelKeyspace_eq_emitted t hwf level s0 hs

/-- the same over the files: the generator run over the tables the loader builds from `IP.level` / `CP.level` / `LN.level`
emits exactly `levelKeyspace level` strings at that level -/
theorem C18_keyspace_from_files (t : TTables) (hwf : t.WF) (level : Nat) :
    ∃ tb, t.loadTables = some tb ∧ ∀ s0, tb.start = some s0 →
      ∃ N, ∀ fuel, N ≤ fuel → (tb.enumFrom level fuel s0).length = t.levelKeyspace level := by
  obtain ⟨tb, hload, hsim⟩ := loadTables_sim t hwf.good
  refine ⟨tb, hload, fun s0 hs0 => ?_⟩
  have hs : t.toTables.start = some s0 := by rw [← hsim.start]; exact hs0
  obtain ⟨N, h⟩ := C18_keyspace t hwf level s0 hs
  exact ⟨N, fun fuel hf => by rw [hsim.enumFrom]; exact h fuel hf⟩

/-- per (length, initial n-gram) block the recursion counts the parse trees -/
theorem C18_block (t : TTables) (hwf : t.WF) (len : Nat) (ip : Str) (level : Nat) :
    t.recKeyspace len ip level = (t.toTables.m.allTrees len ip level).length :=
  recKeyspace_eq_allTrees t hwf len ip level

/-- the memo table changes nothing -/
theorem C18_memo (t : TTables) (hwf : t.WF) (maxL len : Nat) (ip : Str) (level : Nat)
    (hl : level ≤ maxL) (hip : ip ∈ t.entries.map (·.key)) :
    lookupRow (t.ksRow maxL len) ip level = t.recKeyspace len ip level :=
  lookupRow_ksRow t hwf maxL len ip level hl hip

/-- every level `calc_omen_keyspace` lists carries its full keyspace (also the one at which the limit is
exceeded), levels are consecutive, and only the last one may exceed the limit -/
theorem C18_listing (t : TTables) (maxKeyspace fuel first : Nat) :
    (∀ p ∈ t.calcKeyspace maxKeyspace fuel first, p.2 = t.levelKeyspace p.1) ∧
    (t.calcKeyspace maxKeyspace fuel first).map (·.1) =
      (List.range (t.calcKeyspace maxKeyspace fuel first).length).map (· + first) ∧
    (∀ (i : Nat) p, (t.calcKeyspace maxKeyspace fuel first)[i]? = some p →
      i + 1 < (t.calcKeyspace maxKeyspace fuel first).length → p.2 ≤ maxKeyspace) :=
  calcKeyspace_spec t maxKeyspace fuel first

/-- the third pass: the count filed under a level is the number of passwords of the list that
`find_omen_level` puts at that level; by `C11_guesser` these are the passwords the generator emits there -/
theorem C18_third_pass_counts (t : TTables) (pws : List Str) (k : Option Nat) :
    ctrGet (t.levelsCount pws) k = pws.countP (fun pw => t.trainerLevel pw == k) :=
  ctrGet_levelsCount t pws k

/-- ... and every password of the list is tallied exactly once: the counts of `omen_pws_per_level.txt` (the line for −1 included) add
up to the number of passwords read -/
theorem C18_third_pass_total (t : TTables) (pws : List Str) : ((t.levelsCount pws).map (·.2)).sum = pws.length :=
  levelsCount_total t pws

/-- **the saved probability.**  Every line `(level, p)` of `pcfg_omen_prob` (exact arithmetic; the list of the
training passwords is the one all three passes read, so `num_valid_passwords = pws.length`): the generator's
enumeration of that level is complete after some `N` steps, it is not empty, and `p` is the fraction of the
training passwords the generator emits at that level, divided by the number of strings it emits there. -/
theorem C18_saved_probability (t : TTables) (hwf : t.WF) (s0 : CState) (hs : t.toTables.start = some s0)
    (pws : List Str) (maxKeyspace fuel first : Nat) (level : Nat) (p : Rat)
    (h : (level, p) ∈ omenProbs ratNOps (t.calcKeyspace maxKeyspace fuel first) (t.levelsCount pws) pws.length) :
    ∃ N, (∀ fuel', N ≤ fuel' → t.toTables.enumFrom level fuel' s0 = t.toTables.enumFrom level N s0) ∧
      (t.toTables.enumFrom level N s0).length ≠ 0 ∧
      p = ((pws.countP (fun pw => decide (pw ∈ t.toTables.enumFrom level N s0)) : Nat) : Rat) / (pws.length : Rat)
            / ((t.toTables.enumFrom level N s0).length : Rat) := by
  obtain ⟨k, hk, hk0, hp⟩ := (omenProbs_mem ratNOps _ _ _ level p).1 h
  have hkv : k = t.levelKeyspace level := (calcKeyspace_spec t maxKeyspace fuel first).1 (level, k) hk
  obtain ⟨N, h1, h2, h3⟩ := countP_emitted t hwf s0 hs level pws
  refine ⟨N, h1, ?_, ?_⟩
  · rw [h2, ← hkv]; exact hk0
  · rw [hp, ctrGet_levelsCount, h3, h2, ← hkv]
    rfl

/-- **C18 from the training list to the generator**, no hypothesis about tables or files left: `trainTTables` is the OMEN
half of the trainer as a function of the password list (`Model/OmenCount.lean`; `lvl` = `_calc_level`, only its clamp is used),
`loadTables` the guesser's loader on the files written from it.  Every line `(level, p)` of `pcfg_omen_prob`: the files load, and
for the generator run over the loaded tables the level is enumerated completely after finitely many steps, is not empty, holds
exactly `levelKeyspace level` strings (the number the trainer saved), and `p` is the fraction of the training passwords among them
divided by their number. -/
theorem C18_trained (lvl : Nat → Nat → Nat → Nat) (alphabetSize ngram minLength maxLength maxLevel : Nat)
    (hn : 2 ≤ ngram) (hl : ∀ a b c, lvl a b c ≤ maxLevel) (pws : List Str) (maxKeyspace fuel first : Nat)
    (level : Nat) (p : Rat) :
    let t := trainTTables lvl alphabetSize ngram minLength maxLength maxLevel pws
    (level, p) ∈ omenProbs ratNOps (t.calcKeyspace maxKeyspace fuel first) (t.levelsCount pws) pws.length →
    ∃ tb, t.loadTables = some tb ∧ ∀ s0, tb.start = some s0 →
      ∃ N, (∀ fuel', N ≤ fuel' → tb.enumFrom level fuel' s0 = tb.enumFrom level N s0) ∧
        (tb.enumFrom level N s0).length = t.levelKeyspace level ∧ (tb.enumFrom level N s0).length ≠ 0 ∧
        p = ((pws.countP (fun pw => decide (pw ∈ tb.enumFrom level N s0)) : Nat) : Rat) / (pws.length : Rat)
              / ((tb.enumFrom level N s0).length : Rat) := by
  intro t h
  have hg := trainTTables_good lvl alphabetSize ngram minLength maxLength maxLevel hn hl pws
  have hwf : t.WF := ⟨hg.ngram_ge, hg.keys_nodup, hg.key_len, hg.letters_nodup, hg.ip_levels, hg.cp_levels, hg.ln_levels⟩
  obtain ⟨tb, hload, hsim⟩ := loadTables_sim t hg
  refine ⟨tb, hload, fun s0 hs0 => ?_⟩
  have hs : t.toTables.start = some s0 := by rw [← hsim.start]; exact hs0
  obtain ⟨N1, h1, h2, h3⟩ := C18_saved_probability t hwf s0 hs pws maxKeyspace fuel first level p h
  obtain ⟨N2, h4⟩ := C18_keyspace t hwf level s0 hs
  refine ⟨max N1 N2, fun fuel' hf => ?_, ?_, ?_, ?_⟩
  · rw [hsim.enumFrom, hsim.enumFrom, h1 fuel' (Nat.le_trans (Nat.le_max_left _ _) hf), h1 (max N1 N2) (Nat.le_max_left _ _)]
  · rw [hsim.enumFrom]; exact h4 _ (Nat.le_max_right _ _)
  · rw [hsim.enumFrom, h1 (max N1 N2) (Nat.le_max_left _ _)]; exact h2
  · rw [hsim.enumFrom, h1 (max N1 N2) (Nat.le_max_left _ _)]; exact h3

/-- `C18_trained` for every value the logarithm of the smoothing could return (`lvlOf raw 10`: only the clamp of `_calc_level`,
regenerated from the source in `C11_calc_level_clamps`, matters): no hypothesis besides the n-gram size ≥ 2 -/
theorem C18_trained_any_smoothing (raw : Nat → Nat → Nat → Int) (alphabetSize ngram minLength maxLength : Nat)
    (hn : 2 ≤ ngram) (pws : List Str) (maxKeyspace fuel first : Nat) (level : Nat) (p : Rat) :
    let t := trainTTables (lvlOf raw 10) alphabetSize ngram minLength maxLength 10 pws
    (level, p) ∈ omenProbs ratNOps (t.calcKeyspace maxKeyspace fuel first) (t.levelsCount pws) pws.length →
    ∃ tb, t.loadTables = some tb ∧ ∀ s0, tb.start = some s0 →
      ∃ N, (∀ fuel', N ≤ fuel' → tb.enumFrom level fuel' s0 = tb.enumFrom level N s0) ∧
        (tb.enumFrom level N s0).length = t.levelKeyspace level ∧ (tb.enumFrom level N s0).length ≠ 0 ∧
        p = ((pws.countP (fun pw => decide (pw ∈ tb.enumFrom level N s0)) : Nat) : Rat) / (pws.length : Rat)
              / ((tb.enumFrom level N s0).length : Rat) :=
  C18_trained (lvlOf raw 10) alphabetSize ngram minLength maxLength 10 hn (lvlOf_le raw 10) pws maxKeyspace fuel first level p

/-- no counted level is dropped for an empty keyspace: a level at which a training password lies has a
non-empty keyspace, so if `calc_omen_keyspace` lists it, it receives a probability -/
theorem C18_counted_level_listed (t : TTables) (hwf : t.WF) (s0 : CState) (hs : t.toTables.start = some s0)
    (pws : List Str) (maxKeyspace fuel first : Nat) (pw : Str) (hpw : pw ∈ pws) (level : Nat)
    (hl : t.trainerLevel pw = some level)
    (hlisted : level ∈ (t.calcKeyspace maxKeyspace fuel first).map (·.1)) :
    ∃ p : Rat, (level, p) ∈ omenProbs ratNOps (t.calcKeyspace maxKeyspace fuel first) (t.levelsCount pws) pws.length ∧ 0 < p := by
  obtain ⟨⟨l, k⟩, hmem, hl'⟩ := List.mem_map.mp hlisted
  simp only at hl'
  subst hl'
  have hkv : k = t.levelKeyspace l := (calcKeyspace_spec t maxKeyspace fuel first).1 (l, k) hmem
  have hpos := levelKeyspace_pos_of_counted t hwf s0 hs pw l hl
  have hk0 : k ≠ 0 := by omega
  refine ⟨_, (omenProbs_mem ratNOps _ _ _ l _).2 ⟨k, hmem, hk0, rfl⟩, ?_⟩
  have hc : 0 < ctrGet (t.levelsCount pws) (some l) := by
    rw [ctrGet_levelsCount]
    exact List.countP_pos_iff.mpr ⟨pw, hpw, by simp [hl]⟩
  have hn : 0 < pws.length := List.length_pos_of_mem hpw
  show (0 : Rat) < ((ctrGet (t.levelsCount pws) (some l) : Nat) : Rat) / ((pws.length : Nat) : Rat) / ((k : Nat) : Rat)
  rw [Rat.div_def, Rat.div_def]
  exact Rat.mul_pos (Rat.mul_pos (Rat.natCast_pos.mpr hc) (Rat.inv_pos.mpr (Rat.natCast_pos.mpr hn)))
    (Rat.inv_pos.mpr (Rat.natCast_pos.mpr (by omega)))

/-- **the Markov column is a (sub)probability distribution over Markov guesses**: every guess of a listed level
carries that level's probability, so the mass of the listed levels is `Σ p·keyspace`; it is the fraction of the
training passwords lying at those levels, hence at most 1. -/
theorem C18_mass_le_one (t : TTables) (pws : List Str) (hne : pws ≠ []) (maxKeyspace fuel first : Nat) :
    ((t.calcKeyspace maxKeyspace fuel first).filterMap fun lk => if lk.2 == 0 then none
      else some (ratNOps.divNat (ratNOps.ratio (ctrGet (t.levelsCount pws) (some lk.1)) pws.length) lk.2 * (lk.2 : Rat))).sum ≤ 1 := by
  rw [mass_eq]
  apply natCast_div_le_one _ _ _ (List.length_pos_iff.mpr hne)
  refine Nat.le_trans (countedOf_sum_le _ _) ?_
  have hlv := (calcKeyspace_spec t maxKeyspace fuel first).2.1
  have hnd : ((t.calcKeyspace maxKeyspace fuel first).map (·.1)).Nodup := by
    rw [hlv]
    exact List.Pairwise.map _ (fun a b h => by omega) List.nodup_range
  have := sum_counts_le t.trainerLevel _ hnd pws
  simp only [List.map_map] at this
  refine Nat.le_trans (Nat.le_of_eq ?_) this
  apply congrArg List.sum
  apply List.map_congr_left
  intro lk _
  simp [ctrGet_levelsCount]

/-- over binary64 the lines of `pcfg_omen_prob.txt` are written in non-increasing order (what the loader's
grouping and C01 need of the `M` column), whatever the level densities are -/
theorem C18_prob_file_sorted_binary64 (ks : List (Nat × Nat)) (c : LCtr) (n : Nat) :
    (omenProbFile sfNOps (fun a b => decide (a ≥ b)) ks c n).Pairwise fun a b => b.2 ≤ a.2 := by
  unfold omenProbFile
  have := Pcfg.mostCommon_sorted (α := Nat) ⟨0, (· + ·), SF.ratio, fun a b => decide (a ≥ b)⟩
    (by intro a b; simp; omega) (by intro a b c h1 h2; simp at *; omega) (omenProbs sfNOps ks c n)
  unfold Pcfg.mostCommon at this
  exact this.imp (fun {a b} h => by simpa using h)

/-- non-vacuity: a bigram model, a list with two passwords at level 0 and one the model cannot place; the
probability of level 0 is (2/3)/keyspace -/
example :
    let t : TTables := { ngram := 2, maxLevel := 3, entries := [⟨['a'], 0, [('a', 0), ('b', 1)]⟩, ⟨['b'], 1, [('a', 0)]⟩], lns := [0, 0, 1] }
    let pws : List Str := [['a', 'a'], ['a', 'a'], ['z', 'z']]
    t.levelsCount pws = [(some 0, 2), (none, 1)] ∧
    omenProbs ratNOps (t.calcKeyspace 100 3 0) (t.levelsCount pws) pws.length = [(0, 2 / 3), (1, 0), (2, 0)] := by
  decide +kernel

/-- **nothing outlives a call except the objects a caller holds** (regenerated from the four library packages): no module-level or
class-level mutable container, no cache decorator or cache call (`functools.lru_cache`, `cache`), no mutable or computed default
argument and no `global` statement anywhere in `lib_guesser`, `lib_trainer`, `lib_scorer`, `lib_princeling`.  The models of this file are
functions of the objects handed to the code (grammar, detector, tables, memo table); this is the fact that lets them be: an answer cannot
depend on what another object, an earlier ruleset in the same process or the other thread did -/
theorem C18_no_process_wide_state : Generated.ProcessState.processWideState = [] := by
  decide

end Pcfg.C18
