import PcfgVerif.Model.OmenTrainer
/-! C18 — (theorems relating trainer / scorer / guesser tables are added when proved) -/
namespace Pcfg.C18
open Omen

/-- strings shorter than the n-gram size or longer than the length table have no level -/
theorem C18_out_of_range (t : TTables) (s : Str) (h : s.length < t.ngram ∨ s.length > t.lns.length) :
    t.trainerLevel s = none ∧ t.scorerLevel s = none := by
  unfold TTables.trainerLevel TTables.scorerLevel
  rcases h with h | h <;> simp [h]

end Pcfg.C18
