import PcfgVerif.Generated.ProcessState
import PcfgVerif.Properties.OmenCore
import PcfgVerif.Properties.OmenCacheCore
import PcfgVerif.Generated.OmenFacts
/-!
# C10 — the OMEN generator enumerates each level exactly

`Tables` is what `load_rules` builds from `IP.level` / `CP.level` / `LN.level`; `Tables.WF` states that
every key is listed once and levels are in range (true of trainer output).  `levelOf` is the
specification: length cost + initial n-gram cost + transition costs.
-/
namespace Pcfg.C10
open Omen

/-- started from the beginning, `MarkovCracker.next_guess()` emits exactly the strings whose level is
`target`, each once, and then reports exhaustion (more calls produce nothing more) -/
theorem C10_exact (t : Tables) (ipLen : Nat) (hpos : 0 < ipLen) (hwf : t.WF ipLen) (target : Nat)
    (s0 : CState) (hs : t.start = some s0) :
    ∃ N, (∀ fuel, N ≤ fuel → t.enumFrom target fuel s0 = t.enumFrom target N s0) ∧
      (t.enumFrom target N s0).Nodup ∧
      ∀ s : Str, s ∈ t.enumFrom target N s0 ↔ t.levelOf ipLen s = some target :=
  level_exact t ipLen hpos hwf target s0 hs

/-- per (length, initial n-gram): `GuessStructure.next_guess` walks the specification list of parse
trees in order — first `fill`, then the successor, `none` after the last -/
theorem C10_tree_walk (m : Model) (hne : ∀ e ∈ m.cp, ∀ p ∈ e.2, p.2 ≠ [])
    (hcp : ∀ e ∈ m.cp, ∀ p ∈ e.2, p.1 ≤ m.maxLevel) (len : Nat) (ip : Str) (target : Nat) (fuel : Nat)
    (hf : (m.allTrees len ip target).length < fuel) :
    m.enumFrom fuel (m.fill len ip target) = m.allTrees len ip target :=
  enumAll_eq_allTrees m hcp hne len ip target fuel hf

/-- the strings of one (length, initial n-gram) block are exactly those whose transition costs sum
to the block's target, each once -/
theorem C10_block_strings (t : Tables) (ipLen : Nat) (hwf : t.WF ipLen) (len : Nat) (ip : Str)
    (hip : ip.length = ipLen) (target : Nat) :
    ((t.m.allTrees len ip target).map fun tr => tr.filterMap t.m.charAt).Nodup ∧
    ∀ body : List Char, body ∈ ((t.m.allTrees len ip target).map fun tr => tr.filterMap t.m.charAt) ↔
      (body.length = len ∧ 0 < len ∧ t.m.transCost ip body = some target) :=
  allTrees_strings t ipLen hwf len ip hip target

/-- the only other outcome: `_find_first_object` raises exactly when no initial n-gram or no length
has a level below `max_level` -/
theorem C10_raise_iff (t : Tables) (target limit : Nat) :
    t.enumLevel target limit = none ↔
      (findFirst t.m.maxLevel t.ipTbl = none ∨ findFirst t.m.maxLevel t.lnTbl = none) := by
  unfold Tables.enumLevel Tables.start
  cases h1 : findFirst t.m.maxLevel t.ipTbl <;> cases h2 : findFirst t.m.maxLevel t.lnTbl <;> simp

/-- the result does not depend on what the shared lookup cache already holds: with any table whose
entries are true results (`CacheOK` — in particular the table left by any earlier calls, for other
levels, lengths or guess structures) the memoised `_fill_out_parse_tree` returns what the table-free
function returns, and leaves such a table behind -/
theorem C10_cache_independent (m : Model) (maxLen len : Nat) (c : Cache) (ip : Str) (target : Nat)
    (h : CacheOK m c) :
    (m.fillC maxLen len c ip target).1 = m.fill len ip target ∧
    CacheOK m (m.fillC maxLen len c ip target).2 :=
  fillC_eq_fill m maxLen len c ip target h

/-- every history of calls from the empty table (a fresh `Optimizer`) agrees call by call with the
table-free function -/
theorem C10_cache_history (m : Model) (maxLen : Nat) (calls : List (Nat × Str × Nat)) :
    (calls.foldl (fun (acc : List (Option (List Item)) × Cache) k =>
        let r := m.fillC maxLen k.1 acc.2 k.2.1 k.2.2
        (acc.1 ++ [r.1], r.2)) ([], [])).1 =
    calls.map fun k => m.fill k.1 k.2.1 k.2.2 :=
  fillC_run m maxLen calls

/-- the table is read and written nowhere else: every call on `self.optimizer` in the guesser sits in
`_fill_out_parse_tree` and uses as key the function's own three arguments (ip, length, target level; names
normalised: parameter k is `argk`, a local assigned once from a parameter stands for it) — regenerated
from the source -/
theorem C10_cache_sites :
    Pcfg.Generated.OmenFacts.optimizerCalls.all (fun c =>
      c.1 == "guess_structure.py" && c.2.1 == "_fill_out_parse_tree" &&
      (c.2.2.1 == "lookup" || c.2.2.1 == "update") && c.2.2.2 == ["arg1", "arg2", "arg3"]) = true ∧
    Pcfg.Generated.OmenFacts.optimizerCalls.any (fun c => c.2.2.1 == "lookup") = true := by
  decide

/-- non-vacuity: a well-formed bigram table whose level 1 is `ab, aaa` -/
example : exT.WF 1 ∧ exT.enumLevel 1 10 = some [['a', 'b'], ['a', 'a', 'a']] := ⟨exT_wf, by decide⟩


/-- the memo table is one per grammar object: the only place that constructs an `Optimizer` is the body of a constructor
(a fresh table each time an object is built) — never a default argument or a module-level value, which would be one table for
every ruleset loaded in the process and break the hypothesis of `C10_cache_independent` (entries true *for this model*) -/
theorem C10_memo_table_per_object :
    Generated.OmenFacts.optimizerSites = [("pcfg_grammar.py", "body", "__init__")] := by decide

/-- **nothing outlives a call except the objects a caller holds** (regenerated from the four library packages): no module-level or
class-level mutable container, no cache decorator or cache call (`functools.lru_cache`, `cache`), no mutable or computed default
argument and no `global` statement anywhere in `lib_guesser`, `lib_trainer`, `lib_scorer`, `lib_princeling`.  The models of this file are
functions of the objects handed to the code (grammar, detector, tables, memo table); this is the fact that lets them be: an answer cannot
depend on what another object, an earlier ruleset in the same process or the other thread did -/
theorem C10_no_process_wide_state : Generated.ProcessState.processWideState = [] := by
  decide

end Pcfg.C10
