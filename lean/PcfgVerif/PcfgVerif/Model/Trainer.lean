import PcfgVerif.Model.Detect
import PcfgVerif.Model.Counters
import PcfgVerif.Model.Probs
/-!
# The PCFG half of the trainer as one function of the password list

Model of the first two passes of `lib_trainer/run_trainer.py` (the OMEN tables are a separate model, `OmenTrainer`):

* pass 1 trains the multi-word detector on every password (`MultiWordDetector.train`),
* pass 2 runs `PCFGPasswordParser.parse` on every password and updates the parser's counters in the order of the source
  (keyboard walks, e-mails, providers, URLs, hosts, prefixes, years, context strings, alpha words, masks, digits, other,
  PRINCE labels, base structures),
* every counter is then turned into a list by `calculate_probabilities` (`calcProbs`), the base-structure counter after the Markov
  pseudo-count has been added (`withMarkov`).

A Python `Counter` is an association list in insertion order (`MWTable`, `bump … none` = `+= 1`).
-/
namespace Pcfg.Trainer
open Pcfg.Detect

/-- a Counter keyed by strings (labels, base structures) -/
abbrev SCtr := List (String × Nat)

def SCtr.inc (c : SCtr) (k : String) : SCtr :=
  if c.any (·.1 == k) then c.map fun p => if p.1 == k then (p.1, p.2 + 1) else p else c ++ [(k, 1)]

def incAll (c : MWTable) (xs : List CPs) : MWTable := xs.foldl (fun c x => c.bump x none) c

def incOpt (c : List (Option CPs × Nat)) (k : Option CPs) : List (Option CPs × Nat) :=
  if c.any (·.1 == k) then c.map fun p => if p.1 == k then (p.1, p.2 + 1) else p else c ++ [(k, 1)]

structure Counters where
  keyboard : LenCtr := []
  emails : MWTable := []
  providers : MWTable := []
  urls : MWTable := []
  hosts : MWTable := []
  /-- keyed by the prefix or `None` (a website without a prefix counts under `None`) -/
  prefixes : List (Option CPs × Nat) := []
  years : MWTable := []
  context : MWTable := []
  alpha : LenCtr := []
  masks : LenCtr := []
  digits : LenCtr := []
  other : LenCtr := []
  prince : SCtr := []
  base : SCtr := []
  rawBase : SCtr := []

/-- the counter updates of one `parse(password)` call, in source order -/
def Counters.update (c : Counters) (p : Parsed) : Counters :=
  { keyboard := updateLenIndexed c.keyboard p.walks
    emails := incAll c.emails (p.emails.map (·.1))
    providers := incAll c.providers (p.emails.map (·.2))
    urls := incAll c.urls (p.websites.map (·.1))
    hosts := incAll c.hosts (p.websites.map (·.2.1))
    prefixes := (p.websites.map (·.2.2)).foldl incOpt c.prefixes
    years := incAll c.years p.years
    context := incAll c.context p.contexts
    alpha := updateLenIndexed c.alpha p.alphas
    masks := updateLenIndexed c.masks p.masks
    digits := updateLenIndexed c.digits p.digits
    other := updateLenIndexed c.other p.others
    prince := p.sections.foldl (fun pc s => pc.inc (s.2.getD "None")) c.prince
    base := if p.supported then c.base.inc p.structure' else c.base
    rawBase := c.rawBase.inc p.structure' }

/-- pass 1: the multi-word table after the whole list -/
def pass1 (U : UEnv) (cfg : MWCfg) (pws : List CPs) : MWTable :=
  pws.foldl (fun t pw => mwTrain U cfg t pw false) []

/-- pass 2: the counters after the whole list -/
def pass2 (U : UEnv) (cfg : MWCfg) (t : MWTable) (pws : List CPs) : Counters :=
  pws.foldl (fun c pw => c.update (parse U cfg t pw)) {}

/-- the PCFG counters of a training list -/
def train (U : UEnv) (cfg : MWCfg) (pws : List CPs) : Counters := pass2 U cfg (pass1 U cfg pws) pws

end Pcfg.Trainer
