import PcfgVerif.Model.OmenFiles
/-!
# The scorer's OMEN loader and level computation over the files

`loadScorer` mirrors `OmenScorer._load_omen` (`lib_scorer/omen_scorer.py`) on the records of `IP.level`, `CP.level`,
`LN.level`: `self.ip[ngram] = level`, `self.cp[ngram] = level` (dict assignment: a later line replaces an earlier one),
`self.ngram` = length of the first `CP.level` n-gram (−1, here `none`, when the file has no line), `self.ln` = the length
levels behind a placeholder.  `scorerParse` mirrors `OmenScorer.parse` on those dicts (`none` = −1).
-/
namespace Omen

/-- `d[k] = v` -/
def assocSet {κ β : Type} [BEq κ] (al : List (κ × β)) (k : κ) (v : β) : List (κ × β) := assocUpd al k fun _ => v

structure STabs where
  ip : List (Str × Nat) := []
  cp : List (Str × Nat) := []
  /-- level of length `i + 1` (the placeholder entry of `self.ln` is left out) -/
  ln : List Nat := []
  /-- `none` = −1 -/
  ngram : Option Nat := none

def loadScorer (ipL cpL : List NLine) (lnL : List Nat) : STabs :=
  { ip := ipL.foldl (fun d ln => assocSet d ln.2 ln.1) []
    cp := cpL.foldl (fun d ln => assocSet d ln.2 ln.1) []
    ln := lnL
    ngram := cpL.head?.map (·.2.length) }

/-- the `while end_pos <= pass_len` loop -/
def STabs.chain (st : STabs) (n : Nat) (s : Str) : Nat → Nat → Option Nat
  | 0, _ => some 0
  | fuel + 1, endPos =>
    if endPos ≤ s.length then
      match assocGet st.cp ((s.drop (endPos - n)).take n), st.chain n s fuel (endPos + 1) with
      | some l, some r => some (l + r)
      | _, _ => none
    else some 0

/-- `OmenScorer.parse(password)`; without a `CP.level` line (`ngram` −1) every dictionary look-up of the loop fails -/
def STabs.parse (st : STabs) (s : Str) : Option Nat :=
  match st.ngram with
  | none => none
  | some n =>
    if s.length < n || s.length > st.ln.length then none
    else
      match st.ln[s.length - 1]?, assocGet st.ip (s.take (n - 1)) with
      | some ln, some ipl =>
        match st.chain n s (s.length + 1) n with
        | some c => some (ln + ipl + c)
        | none => none
      | _, _ => none

end Omen
