import PcfgVerif.Model.Expand
/-!
# Specification of expansion (no proofs here)

`productSpec` is the list comprehension "one value from each chosen group, in structure order, each
capitalisation mask applied to the tail of what precedes it", in nested-loop order.  `okSpec` says
that no lookup on any path raises.  `sessionLoop` is the `--limit` bookkeeping of
`CrackingSession.run` over the sequence of popped pre-terminals.
-/
namespace Pcfg

/-- effect of choosing value `v` at a position of category `cat` (`first` = first value of the group,
whose length the code uses as the mask length); `none` = IndexError -/
def combine (upper : Char → List Char) (cat : Char) (first cur v : Str) : Option Str :=
  if Generated.Expand.isCase cat then
    let (startW, endW) := splitTail cur first.length
    (applyMask upper endW v Generated.Expand.maskStart).map (startW ++ ·)
  else some (cur ++ v)

/-- all guesses of a non-Markov pre-terminal, in emission order -/
def productSpec (upper : Char → List Char) (g : EGrammar) : Str → PT → List Str
  | cur, [] => [cur]
  | cur, (t, i) :: rest =>
    match t.toList.head?, g.values t i with
    | some cat, some vals =>
      vals.flatMap fun v =>
        match combine upper cat (vals.headD []) cur v with
        | some cur' => productSpec upper g cur' rest
        | none => []
    | _, _ => []

/-- every lookup on every path succeeds, no position is a Markov variable, groups are non-empty -/
def okSpec (upper : Char → List Char) (g : EGrammar) : Str → PT → Bool
  | _, [] => true
  | cur, (t, i) :: rest =>
    match t.toList.head?, g.values t i with
    | some cat, some vals =>
      !(Generated.Expand.isMarkov cat) && !vals.isEmpty &&
      vals.all fun v =>
        match combine upper cat (vals.headD []) cur v with
        | some cur' => okSpec upper g cur' rest
        | none => false
    | _, _ => false

/-- `CrackingSession.run`: generate pre-terminal after pre-terminal, subtracting from `--limit` -/
def sessionLoop (gen : PT → Option Int → ERes) : List PT → Option Int → List Str
  | [], _ => []
  | pt :: rest, limit =>
    let r := gen pt limit
    if limTruthy limit then
      let l' := limit.getD 0 - (r.count : Int)
      if Generated.Expand.sessionHit l' then r.out else r.out ++ sessionLoop gen rest (some l')
    else r.out ++ sessionLoop gen rest limit

end Pcfg
