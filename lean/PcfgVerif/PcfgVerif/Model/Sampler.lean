import PcfgVerif.Model.ExpandSpec
/-!
# Honeyword / random-walk sampling

Model of `PcfgGrammar.random_walk`, `_honeyword_recursive_guess` and `HoneywordSession.run`.
The uniform draws are inputs: `us` are the values `random.random()` returns in order, `ks` the
indices `random.choice` picks.  `Q` is the number type of the running sums (doubles in the executable
model; any ordered additive structure in the theorems).
-/
namespace Pcfg

structure SOps (Q : Type) where
  zero : Q
  add : Q → Q → Q
  /-- `a >= b` -/
  ge : Q → Q → Bool

variable {Q : Type}

/-- `cur = 0; for i, w in enumerate(ws): cur += w; if cur >= u: return i` — `none` = loop ran out -/
def pickGo (S : SOps Q) (u : Q) : List Q → Q → Nat → Option Nat
  | [], _, _ => none
  | w :: ws, cur, i =>
    let cur' := S.add cur w
    if S.ge cur' u then some i else pickGo S u ws cur' (i + 1)

def pick (S : SOps Q) (ws : List Q) (u : Q) : Option Nat := pickGo S u ws S.zero 0

/-- running sum after the first `k` weights -/
def runSum (S : SOps Q) (ws : List Q) (k : Nat) : Q := (ws.take k).foldl S.add S.zero

structure SBase (Q : Type) where
  prob : Q
  replacements : List String

/-- per variable: for each group its weight `prob * len(values)` -/
abbrev SWeights (Q : Type) := List (String × List Q)

def SWeights.of (w : SWeights Q) (t : String) : List Q := ((w.find? (·.1 == t)).map (·.2)).getD []

/-- `random_walk()`: first draw selects the base structure (the last one if the sums fall short of
the draw), then one draw per position selects the group (group 0 if the sums fall short) -/
def randomWalk (S : SOps Q) (base : List (SBase Q)) (w : SWeights Q) (us : List Q) : Option PT :=
  match us with
  | [] => none
  | u0 :: rest =>
    let sel : Option (SBase Q) :=
      match pick S (base.map (·.prob)) u0 with
      | some i => base[i]?
      | none => base.getLast?
    match sel with
    | none => some []
    | some b =>
      let rec go : List String → List Q → Option PT
        | [], _ => some []
        | _ :: _, [] => none
        | t :: ts, u :: us' =>
          match go ts us' with
          | none => none
          | some more => some ((t, (pick S (w.of t) u).getD 0) :: more)
      go b.replacements rest

/-- `_honeyword_recursive_guess`: one value per position, chosen by the index draws `ks`
(`random.choice(values)` = `values[k]`); `none` = no word (Markov structure) -/
def honeyWord (upper : Char → List Char) (g : EGrammar) : Str → PT → List Nat → Option Str
  | cur, [], _ => some cur
  | cur, (t, i) :: rest, ks =>
    match t.toList.head?, g.values t i, ks with
    | some cat, some vals, k :: ks' =>
      if Generated.Expand.isMarkov cat then none
      else
        match vals[k]? with
        | none => none
        | some v =>
          match combine upper cat (vals.headD []) cur v with
          | some cur' => honeyWord upper g cur' rest ks'
          | none => none
    | _, _, _ => none

/-- `HoneywordSession.run(limit)`: walk after walk (seeds `s, s+1, …`), each yielding one word or
none; stops when `limit` words have been written.  `word s` is the outcome of the walk with seed `s`;
`fuel` bounds the number of walks. -/
def honeyLoop (word : Nat → Option Str) : Nat → Nat → Option Int → List Str
  | 0, _, _ => []
  | fuel + 1, seed, limit =>
    match word seed with
    | some w =>
      if limTruthy limit then
        let l' := limit.getD 0 - 1
        if Generated.Expand.honeyHit l' then [w]
        else w :: honeyLoop word fuel (seed + Generated.Expand.honeySeedStep) (some l')
      else w :: honeyLoop word fuel (seed + Generated.Expand.honeySeedStep) limit
    | none =>
      if limTruthy limit then
        if Generated.Expand.honeyHit (limit.getD 0) then []
        else honeyLoop word fuel (seed + Generated.Expand.honeySeedStep) limit
      else honeyLoop word fuel (seed + Generated.Expand.honeySeedStep) limit

end Pcfg
