import PcfgVerif.Model.Text
import PcfgVerif.Generated.CheckValid
/-! `check_valid` of `lib_trainer/trainer_file_input.py`, over the rejected-code-point table the
translator extracts from its source. -/
namespace Pcfg

def checkValid (v : CPs) : Bool :=
  !(Generated.CheckValid.rejectEmpty && v.isEmpty) &&
    v.all fun c => !(Generated.CheckValid.rejected.contains c)

end Pcfg
