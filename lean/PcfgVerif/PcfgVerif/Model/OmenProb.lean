import PcfgVerif.Model.OmenTrainer
import PcfgVerif.Model.Probs
import PcfgVerif.Model.SoftFloat
/-!
# The third pass of the trainer and `Omen/pcfg_omen_prob.txt`

`levelsCount` mirrors the third loop of `run_trainer` (`lib_trainer/run_trainer.py`):
`omen_levels_count[find_omen_level(omen_trainer, password)] += 1` on a `Counter` (a dict: a new key goes
to the end; the key −1 of an unparseable password is `none`).  `omenProbs` mirrors the loop of
`save_omen_rules_to_disk` (`lib_trainer/omen/omen_file_output.py`) that fills `pcfg_omen_prob`:
for every `(level, keyspace)` of `omen_keyspace.items()` with a non-zero keyspace,
`(omen_levels_count[level] / num_valid_passwords) / keyspace`; `omenProbFile` is the order in which
`pcfg_omen_prob.most_common()` writes them.  Generic in the number type: `NOps` carries Python's
`int / int` and `float / int`.
-/
namespace Omen
open Pcfg

abbrev LCtr := List (Option Nat × Nat)

/-- `counter[k] += 1` -/
def bump (k : Option Nat) : LCtr → LCtr
  | [] => [(k, 1)]
  | (k', n) :: r => if k' == k then (k', n + 1) :: r else (k', n) :: bump k r

/-- third pass: one `find_omen_level` per password of the list, tallied -/
def TTables.levelsCount (t : TTables) (pws : List Str) : LCtr :=
  pws.foldl (fun c pw => bump (t.trainerLevel pw) c) []

/-- `counter[k]` (a `Counter` answers 0 for a missing key) -/
def ctrGet (c : LCtr) (k : Option Nat) : Nat :=
  match c.find? (·.1 == k) with
  | some e => e.2
  | none => 0

structure NOps (Q : Type) where
  /-- Python `int / int` -/
  ratio : Nat → Nat → Q
  /-- Python `float / int` -/
  divNat : Q → Nat → Q

/-- the loop that fills `pcfg_omen_prob` -/
def omenProbs {Q : Type} (O : NOps Q) (ks : List (Nat × Nat)) (c : LCtr) (n : Nat) : List (Nat × Q) :=
  ks.filterMap fun lk =>
    if lk.2 == 0 then none else some (lk.1, O.divNat (O.ratio (ctrGet c (some lk.1)) n) lk.2)

/-- exact arithmetic -/
def ratNOps : NOps Rat := ⟨fun a b => (a : Rat) / (b : Rat), fun q k => q / (k : Rat)⟩

/-- `float(k)` for a non-negative Python int: the nearest double (in units of 2⁻¹⁰⁷⁴) -/
def sfOfNat (k : Nat) : Nat := SF.roundQ (k * 2 ^ SF.unitExp) 1

/-- binary64: `int / int` is the correctly rounded quotient, `float / int` converts the int first -/
def sfNOps : NOps Nat := ⟨SF.ratio, fun q k => SF.ratio q (sfOfNat k)⟩

/-- what is written to `pcfg_omen_prob.txt`, line by line (`most_common()`: stable, by decreasing value) -/
def omenProbFile {Q : Type} (O : NOps Q) (ge : Q → Q → Bool) (ks : List (Nat × Nat)) (c : LCtr) (n : Nat) : List (Nat × Q) :=
  (omenProbs O ks c n).mergeSort fun a b => ge a.2 b.2

/-- what is written to `omen_keyspace.txt`: `reversed(omen_keyspace.most_common())` -/
def keyspaceFile (ks : List (Nat × Nat)) : List (Nat × Nat) :=
  (ks.mergeSort fun a b => decide (a.2 ≥ b.2)).reverse

end Omen
