import PcfgVerif.Model.Text
/-!
# The guesser's ruleset loader

Model of `lib_guesser/grammar_io.py`: `_load_from_file`, `_load_base_structures`, and the
`skip_case` branch of `_load_terminals`.  `parseP` is Python's `float()` on the probability text
(a parameter: the harness supplies it pointwise), `none` = `ValueError`.  A result of `none`
means the loader returned `False` (the guesser then refuses to start).
-/
namespace Pcfg

structure LGroup (P : Type) where
  values : List CPs
  prob : P
deriving Repr

variable {P : Type}

/-- `grammar_section[-1]['values'].append(value)`; `none` = IndexError on an empty section -/
def appendToLast (sec : List (LGroup P)) (v : CPs) : Option (List (LGroup P)) :=
  match sec.reverse with
  | [] => none
  | g :: r => some (({ g with values := g.values ++ [v] } :: r).reverse)

/-- the `for line in file` loop of `_load_from_file` -/
def loadLoop (parseP : CPs → Option P) (eqv : P → P → Bool) :
    List CPs → (errorFlag : Bool) → (prev : P) → List (LGroup P) → Option (List (LGroup P))
  | [], _, _, sec => some sec
  | line :: rest, errorFlag, prev, sec =>
    if errorFlag then loadLoop parseP eqv rest false prev sec
    else if line.any isSurrogate then none        -- `num_encoding_errors` is unbound: the function returns False
    else
      let split := pySplit 0x09 (rstripWs line)
      match split with
      | value :: probText :: _ =>
        match parseP probText with
        | none => loadLoop parseP eqv rest true prev sec        -- skip this and the next line
        | some prob =>
          if eqv prob prev then
            match appendToLast sec value with
            | none => none
            | some sec' => loadLoop parseP eqv rest false prev sec'
          else loadLoop parseP eqv rest false prob (sec ++ [⟨[value], prob⟩])
      | _ => loadLoop parseP eqv rest true prev sec

/-- `_load_from_file(grammar_section, filename, encoding)` on the decoded file text -/
def loadFromFile (parseP : CPs → Option P) (eqv : P → P → Bool) (neg1 : P) (text : CPs) :
    Option (List (LGroup P)) :=
  loadLoop parseP eqv (codecLines text) false neg1 []

structure BaseS (P : Type) where
  prob : P
  replacements : List CPs
deriving Repr

/-- the replacement list of one structure string: a letter starts a new replacement, anything else
is appended to the last one (`none` = IndexError: the string starts with a non-letter) -/
def splitStructure (isAlpha : Nat → Bool) : CPs → List CPs → Option (List CPs)
  | [], acc => some acc
  | c :: rest, acc =>
    if isAlpha c then splitStructure isAlpha rest (acc ++ [[c]])
    else
      match acc.reverse with
      | [] => none
      | l :: r => splitStructure isAlpha rest ((l ++ [c]) :: r).reverse

/-- first pass under `skip_brute`: probability of the first `M` line, if any (`some none` = no `M`
line; outer `none` = an exception escaped) -/
def findMarkovProb (parseP : CPs → Option P) : List CPs → Option (Option P)
  | [] => some none
  | line :: rest =>
    match pySplit 0x09 (rstripWs line) with
    | first :: more =>
      if first == [0x4d] then
        match more with
        | probText :: _ => (parseP probText).map some
        | [] => none
      else findMarkovProb parseP rest
    | [] => findMarkovProb parseP rest

/-- insert `C<n>` after every `A<n>` -/
def insertCase : List CPs → List CPs
  | [] => []
  | r :: rest =>
    match r with
    | 0x41 :: lenStr => r :: (0x43 :: lenStr) :: insertCase rest
    | _ => r :: insertCase rest

structure PArith (P : Type) where
  one : P
  sub : P → P → P
  /-- `none` = ZeroDivisionError -/
  div : P → P → Option P

/-- second pass of `_load_base_structures` -/
def baseLoop (parseP : CPs → Option P) (A : PArith P) (isAlpha : Nat → Bool) (skipBrute : Bool)
    (total : P) : List CPs → Option (List (BaseS P))
  | [] => some []
  | line :: rest =>
    match pySplit 0x09 (rstripWs line) with
    | value :: probText :: _ =>
      match parseP probText with
      | none => none
      | some p =>
        match A.div p total, splitStructure isAlpha value [] with
        | some prob, some reps =>
          match baseLoop parseP A isAlpha skipBrute total rest with
          | none => none
          | some more =>
            if !skipBrute || !(reps.contains [0x4d]) then some (⟨prob, reps⟩ :: more) else some more
        | _, _ => none
    | _ => none

/-- `_load_base_structures(base_structures, base_directory, skip_brute, folder)` on the file text -/
def loadBase (parseP : CPs → Option P) (A : PArith P) (isAlpha : Nat → Bool) (skipBrute : Bool)
    (text : CPs) : Option (List (BaseS P)) :=
  let lines := textModeLines text
  let total : Option P :=
    if skipBrute then
      match findMarkovProb parseP lines with
      | none => none
      | some none => some A.one
      | some (some pm) => some (A.sub A.one pm)
    else some A.one
  match total with
  | none => none
  | some total =>
    (baseLoop parseP A isAlpha skipBrute total lines).map fun bs =>
      bs.map fun b => { b with replacements := insertCase b.replacements }

/-- `--all_lower`: the mask list of length `n` becomes the single all-lower mask with probability 1 -/
def allLowerMasks (one : P) (n : Nat) : List (LGroup P) := [⟨[List.replicate n 0x4c], one⟩]

end Pcfg

namespace Pcfg
variable {P : Type}

/-- `lib_scorer/grammar_io._load_from_file`: a dict `value ↦ probability`, here as the list of
assignments in file order (a later assignment to the same key wins); `none` = returned False -/
def scorerLoop (parseP : CPs → Option P) : List CPs → Option (List (CPs × P))
  | [] => some []
  | line :: rest =>
    if line.any isSurrogate then none
    else
      match pySplit 0x09 (rstripWs line) with
      | value :: probText :: _ =>
        match parseP probText, scorerLoop parseP rest with
        | some p, some more => some ((value, p) :: more)
        | _, _ => none
      | _ => none

def scorerLoad (parseP : CPs → Option P) (text : CPs) : Option (List (CPs × P)) :=
  scorerLoop parseP (codecLines text)

/-- the trainer's writer `calculate_and_save_counter`: `str(value) + '\t' + str(prob) + '\n'` -/
def writeLine (v probText : CPs) : CPs := v ++ [0x09] ++ probText ++ [0x0a]

def writeFile (items : List (CPs × CPs)) : CPs := (items.map fun it => writeLine it.1 it.2).flatten

end Pcfg
