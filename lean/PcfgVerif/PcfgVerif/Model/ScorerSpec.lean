import PcfgVerif.Model.Scorer
import PcfgVerif.Model.DetectSpec
import PcfgVerif.Model.ExpandSpec
import PcfgVerif.Model.Grid
/-!
# Specification-side notions for the scorer's promise (no proofs here)

C13: "a non-zero score is a promise the guesser keeps".  Three ingredients:

* `Coherent`: the lists the parser hands to the scorer (`walks`, `years`, …, `alphas`/`masks`) are the
  texts of the labelled sections, category by category (as multisets), every alpha word is the
  lower-casing-in-context of its section and its mask is the mask of the section.
* `Agree`: the guesser's loaded grammar and the scorer's loaded tables come from the same files: a
  value the scorer finds with probability `p` lies in a group of the guesser's variable with
  probability `p` (C07 gives this for the loader models, see `agree_of_file`).
* `CaseInvAll`: the case mapping is one-to-one on the letters of the password (the domain clause of
  the property; it fails for title-case digraphs etc., which is the recorded known finding).
-/
namespace Pcfg.Detect
open Pcfg

/-- the category of a label: its first character -/
def labelCat (l : Option String) : Option Char := l.bind (·.toList.head?)

/-- texts of the sections of category `c`, in password order -/
def textsOf (secs : List Sec) (c : Char) : List CPs :=
  secs.filterMap fun s => if labelCat s.2 = some c then some s.1 else none

/-- the mask the alpha detector records for a section text -/
def maskOfCP (U : UEnv) (orig : CPs) : CPs :=
  orig.map fun c => if U.isUpper c then cpOf 'U' else cpOf 'L'

/-- bookkeeping of one detected word: the section text, the stored lower-cased word, the mask -/
structure AlphaRec where
  orig : CPs
  word : CPs
  mask : CPs

/-- `word` is the lower-casing *in context* of `orig`: some slice of the password containing `orig`
was lower-cased as a whole and cut at the same offsets -/
def LowerOf (U : UEnv) (pw orig word : CPs) : Prop :=
  ∃ a b off, orig = slice (slice pw a b) off (off + orig.length) ∧
    word = slice (U.lowerS (slice pw a b)) off (off + orig.length)

/-- the label of a section of a supported password names its category and (for the length-indexed
categories) its length -/
def LabelOK (text : CPs) (l : String) : Prop :=
  l = lbl 'K' text.length ∨ l = "Y1" ∨ l = "X1" ∨ l = lbl 'A' text.length ∨ l = lbl 'D' text.length ∨
  l = lbl 'O' text.length ∨ l = "E" ∨ l = "W"

structure Coherent (U : UEnv) (pw : CPs) (p : Parsed) : Prop where
  walks : p.walks.Perm (textsOf p.sections 'K')
  years : p.years.Perm (textsOf p.sections 'Y')
  contexts : p.contexts.Perm (textsOf p.sections 'X')
  digits : p.digits.Perm (textsOf p.sections 'D')
  others : p.others.Perm (textsOf p.sections 'O')
  alpha : ∃ recs : List AlphaRec, p.alphas = recs.map (·.word) ∧ p.masks = recs.map (·.mask) ∧
    (recs.map (·.orig)).Perm (textsOf p.sections 'A') ∧
    ∀ r ∈ recs, r.mask = maskOfCP U r.orig ∧ r.word.length = r.orig.length ∧ LowerOf U pw r.orig r.word
  labels : ∀ s ∈ p.sections, ∃ l, s.2 = some l ∧ LabelOK s.1 l
  year_len : ∀ s ∈ p.sections, s.2 = some "Y1" → s.1.length = 4

/-- the case mapping is one-to-one on the password: wherever a slice of the password is lower-cased as
a whole, an upper-case letter is recovered from its image by `upper`, any other character is unchanged -/
def CaseInvAll (U : UEnv) (upper : Char → List Char) (pw : CPs) : Prop :=
  ∀ (a b i c d : Nat), (slice pw a b)[i]? = some c → (U.lowerS (slice pw a b))[i]? = some d →
    (if U.isUpper c then upper (Char.ofNat d) = [Char.ofNat c] else d = c)

/-- code points → the guesser model's characters (faithful on scalar values) -/
def toStr (v : CPs) : Str := v.map Char.ofNat

def ScalarCPs (v : CPs) : Prop := ∀ c ∈ v, c.isValidChar

/-- what the guesser loaded from the same ruleset: group values, group probabilities per variable,
base structures (replacement list after case insertion, probability) -/
structure GView (P : Type) where
  E : EGrammar
  colP : String → List P
  bases : List (List String × P)

/-- the scorer's list name for the guesser's variable name -/
def scName (l : String) : String := if l = "Y1" then "Y" else if l = "X1" then "X" else l

/-- the guesser's variable names under which terminals are stored: the length-indexed lists and the
names `Y1`, `X1` of the year and context lists (`B`, `Y`, `X` are scorer-side list names only) -/
def TermLabel (l : String) : Prop :=
  (∃ (c : Char) (n : Nat), (c = 'K' ∨ c = 'A' ∨ c = 'C' ∨ c = 'D' ∨ c = 'O') ∧ l = lbl c n) ∨
  l = "Y1" ∨ l = "X1"

/-- both tools loaded the same files: whatever the scorer finds with a non-zero probability is in a
group of that probability of the guesser's variable; the base structure likewise (with the `C<n>`
inserted after every `A<n>` by the guesser's loader) -/
structure Agree {P : Type} (zero : P) (g : ScoreG P) (V : GView P) : Prop where
  term : ∀ (l : String) (v : CPs), TermLabel l → g.look zero (scName l) v ≠ zero →
    ∃ j vals, V.E.values l j = some vals ∧ toStr v ∈ vals ∧ (V.colP l)[j]? = some (g.look zero (scName l) v)
  base : ∀ (labels : List String), (∀ l ∈ labels, ∃ text, LabelOK text l) →
    g.look zero "B" (cpsOfString (String.join labels)) ≠ zero →
    ∃ reps, (reps, g.look zero "B" (cpsOfString (String.join labels))) ∈ V.bases ∧
      reps = labels.flatMap fun l =>
        match l.toList with
        | 'A' :: n => [l, String.ofList ('C' :: n)]
        | _ => [l]
  /-- every mask stored under `C<n>` has `n` letters (trainer output) -/
  masks : ∀ (n j : Nat) (vals : List Str), V.E.values (lbl 'C' n) j = some vals → ∀ m ∈ vals, m.length = n

/-- the pieces of a pre-terminal: variable names zipped with group indices -/
def mkPT (reps : List String) (idx : List Nat) : PT := reps.zip idx

end Pcfg.Detect
