import PcfgVerif.Model.Prob
import PcfgVerif.Generated.PQ
/-!
# The pre-terminal grid and the "deadbeat dad" next function

Model of `lib_guesser/pcfg_grammar.py` (`initalize_base_structures`, `_find_prob`, `find_children`,
`_are_you_my_child`, `restore_prob_order`, `_recursive_restore_prob_order`, `is_parent_around`) and
`lib_guesser/priority_queue.py` (`PcfgQueue.__init__`, `next`).

A base structure is reduced to what these functions read: its probability and, per position, the list
of group probabilities of the variable at that position (`[g['prob'] for g in grammar[type]]`).  A
repeated variable type is simply the same column twice.  The decision fragments (`Generated.PQ.*`) are
produced from the Python source by `harness/translate.py` on every run.
-/
namespace Pcfg

structure Struct (P : Type) where
  bp : P
  cols : List (List P)

abbrev Grid (P : Type) := List (Struct P)

structure Node where
  b : Nat
  idx : List Nat
deriving DecidableEq, Repr

variable {P : Type}

/-- `_find_prob`: left fold of the product over the chosen groups.  An out-of-range index (never
reached for valid nodes, see `Valid`) contributes nothing. -/
def probFold (O : POps P) : P → List (List P) → List Nat → P
  | acc, c :: cs, i :: is =>
    match c[i]? with
    | some p => probFold O (O.mul acc p) cs is
    | none => probFold O acc cs is
  | acc, _, _ => acc

def findProb (O : POps P) (s : Struct P) (idx : List Nat) : P := probFold O s.bp s.cols idx

/-- `child[pos] = (child[pos][0], child[pos][1]+1)` -/
def inc : List Nat → Nat → List Nat
  | [], _ => []
  | i :: is, 0 => (i + 1) :: is
  | i :: is, k + 1 => i :: inc is k

/-- `new_parent[pos] = (new_parent[pos][0], new_parent[pos][1]-1)` -/
def dec : List Nat → Nat → List Nat
  | [], _ => []
  | i :: is, 0 => (i - 1) :: is
  | i :: is, k + 1 => i :: dec is k

/-- a node of the grid: one in-range index per position -/
def validIdx : List (List P) → List Nat → Bool
  | [], [] => true
  | c :: cs, i :: is => decide (i < c.length) && validIdx cs is
  | _, _ => false

/-- a `for` loop over positions whose body may `return b` (`some b`) or go on (`none`);
`dflt` is the `return` after the loop -/
def loopRet (body : Nat → Option Bool) (dflt : Bool) : List Nat → Bool
  | [] => dflt
  | p :: ps =>
    match body p with
    | some r => r
    | none => loopRet body dflt ps

/-- `_are_you_my_child(child, base_prob, parent_pos, parent_prob)` -/
def areYouMyChild (O : POps P) (s : Struct P) (child : List Nat) (parentPos : Nat) (parentProb : P) :
    Bool :=
  loopRet (fun pos => Generated.PQ.aymcBody O pos parentPos (child.getD pos 0)
      (findProb O s (dec child pos)) parentProb) Generated.PQ.aymcDefault (List.range child.length)

/-- `find_children(pt_item)` (the item's stored probability is passed in, as in the code) -/
def findChildren (O : POps P) (s : Struct P) (idx : List Nat) (parentProb : P) : List (List Nat) :=
  (List.range idx.length).filterMap fun pos =>
    if Generated.PQ.fcSkip ((s.cols.getD pos []).length) (idx.getD pos 0) then none
    else
      let child := inc idx pos
      if areYouMyChild O s child pos parentProb then some child else none

/-- `is_parent_around(pt_item, max_prob)` -/
def isParentAround (O : POps P) (s : Struct P) (child : List Nat) (maxProb : P) : Bool :=
  loopRet (fun pos => Generated.PQ.ipaBody O (child.getD pos 0) (findProb O s (dec child pos)) maxProb)
    Generated.PQ.ipaDefault (List.range child.length)

/-- `_recursive_restore_prob_order`; `fuel` bounds the recursion depth (sum of column lengths
suffices, see `restore_fuel_ok`).  Returns the saved nodes in call order. -/
def restoreWalk (O : POps P) (s : Struct P) (maxProb minProb : P) :
    Nat → List Nat → Nat → List (List Nat)
  | 0, _, _ => []
  | fuel + 1, idx, leftIndex =>
    match Generated.PQ.restoreGuard O (findProb O s idx) maxProb minProb
        (isParentAround O s idx maxProb) with
    | .stop => []
    | .save => [idx]
    | .descend =>
      ((List.range idx.length).filter (fun pos => decide (leftIndex ≤ pos))).flatMap fun pos =>
        if Generated.PQ.rrSkip ((s.cols.getD pos []).length) (idx.getD pos 0) then []
        else restoreWalk O s maxProb minProb fuel (inc idx pos) pos

def restoreFuel (s : Struct P) : Nat := (s.cols.map List.length).sum + 1

/-- root of a structure: `(replacement, 0)` for every position -/
def rootIdx (s : Struct P) : List Nat := s.cols.map fun _ => Generated.PQ.rootIndex

section
variable [Inhabited P]

def Grid.struct (g : Grid P) (b : Nat) : Struct P := g.getD b ⟨default, []⟩

/-- `initalize_base_structures` -/
def initNodes (g : Grid P) : List Node :=
  (List.range g.length).map fun b => ⟨b, rootIdx (g.struct b)⟩

def nodeProb (O : POps P) (g : Grid P) (v : Node) : P := findProb O (g.struct v.b) v.idx

def nodeChildren (O : POps P) (g : Grid P) (v : Node) : List Node :=
  (findChildren O (g.struct v.b) v.idx (nodeProb O g v)).map fun i => ⟨v.b, i⟩

/-- queue contents after `PcfgQueue(pcfg, save_config)` -/
def restoreNodes (O : POps P) (g : Grid P) (maxProb minProb : P) : List Node :=
  (List.range g.length).flatMap fun b =>
    let s := g.struct b
    (restoreWalk O s maxProb minProb (restoreFuel s) (rootIdx s) 0).map fun i => ⟨b, i⟩

/-- is `x` a legal result of `heapq.heappop` for this queue: a member that no member precedes under
`QueueItem.__lt__` -/
def isTop (O : POps P) (g : Grid P) (queue : List Node) (x : Node) : Bool :=
  queue.contains x && queue.all fun y => !(Generated.PQ.queueLt O (nodeProb O g y) (nodeProb O g x))

structure PQState where
  queue : List Node
  popped : List Node
deriving Repr

/-- `PcfgQueue.next()` when `heappop` returned `x` -/
def pqStep (O : POps P) (g : Grid P) (s : PQState) (x : Node) : PQState :=
  ⟨s.queue.erase x ++ nodeChildren O g x, s.popped ++ [x]⟩

end
end Pcfg
