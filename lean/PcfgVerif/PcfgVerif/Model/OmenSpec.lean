import PcfgVerif.Model.Omen
/-!
# Specification of an OMEN level (no proofs here)

`levelOf t s` = length cost + initial n-gram cost + sum of transition costs of the string `s`, or
`none` when `s` cannot be generated (unknown initial n-gram, unknown transition, unknown length).
`Tables.WF` states what a trainer-written rule directory satisfies: every key occurs once.
-/
namespace Omen

/-- level of the transition `ip → c` (first level whose list contains `c`) -/
def Model.cpLevel (m : Model) (ip : Str) (c : Char) : Option Nat :=
  match m.cpOf ip with
  | none => none
  | some e => (e.find? fun p => p.2.contains c).map (·.1)

/-- sum of the transition levels of `body` read from state `ip` -/
def Model.transCost (m : Model) : Str → List Char → Option Nat
  | _, [] => some 0
  | ip, c :: cs =>
    match m.cpLevel ip c, m.transCost (nextIp ip c) cs with
    | some l, some r => some (l + r)
    | _, _ => none

/-- level at which a key is listed in a `level ↦ list` table -/
def tblLevel {α : Type} [BEq α] (tbl : List (List α)) (x : α) : Option Nat :=
  (List.range tbl.length).find? fun l => (tbl.getD l []).contains x

/-- `ipLen` = n-gram size − 1 -/
def Tables.levelOf (t : Tables) (ipLen : Nat) (s : Str) : Option Nat :=
  let ip := s.take ipLen
  let body := s.drop ipLen
  if s.length < ipLen + 1 then none else
  match tblLevel t.ipTbl ip, tblLevel t.lnTbl body.length, t.m.transCost ip body with
  | some a, some b, some c => some (a + b + c)
  | _, _, _ => none

/-- every key is listed once, levels are within `0..maxLevel`, initial n-grams have length `ipLen` -/
structure Tables.WF (t : Tables) (ipLen : Nat) : Prop where
  ip_len : ∀ l ∈ t.ipTbl, ∀ s ∈ l, s.length = ipLen
  ip_nodup : t.ipTbl.flatten.Nodup
  ln_nodup : t.lnTbl.flatten.Nodup
  ln_pos : ∀ l ∈ t.lnTbl, ∀ n ∈ l, 0 < n
  ip_levels : t.ipTbl.length = t.m.maxLevel + 1
  ln_levels : t.lnTbl.length = t.m.maxLevel + 1
  cp_keys : (t.m.cp.map (·.1)).Nodup
  cp_key_len : ∀ e ∈ t.m.cp, e.1.length = ipLen
  cp_levels : ∀ e ∈ t.m.cp, (e.2.map (·.1)).Nodup ∧ ∀ p ∈ e.2, p.1 ≤ t.m.maxLevel ∧ p.2 ≠ []
  cp_chars : ∀ e ∈ t.m.cp, (e.2.flatMap (·.2)).Nodup

end Omen
