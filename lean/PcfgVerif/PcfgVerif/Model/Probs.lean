/-!
# Relative-frequency lists

Model of `calculate_probabilities` (`lib_trainer/calculate_probabilities.py`): `Counter.most_common()`
is a stable sort by decreasing count (ties keep insertion order), each probability is
`count / total`.  `run_trainer`'s Markov pseudo-count `N/coverage − N` is `markovCount`.
Generic in the number type: doubles in the executable model, rationals in the theorems.
-/
namespace Pcfg

structure QOps (Q : Type) where
  zero : Q
  add : Q → Q → Q
  div : Q → Q → Q
  /-- `a >= b` -/
  ge : Q → Q → Bool

variable {Q α : Type}

/-- `sum(counter.values())` (left to right, starting from 0) -/
def totalCount (O : QOps Q) (items : List (α × Q)) : Q := items.foldl (fun acc it => O.add acc it.2) O.zero

/-- `counter.most_common()`: stable, by decreasing count -/
def mostCommon (O : QOps Q) (items : List (α × Q)) : List (α × Q) :=
  items.mergeSort fun a b => O.ge a.2 b.2

/-- `calculate_probabilities(counter)` -/
def calcProbs (O : QOps Q) (items : List (α × Q)) : List (α × Q) :=
  let total := totalCount O items
  (mostCommon O items).map fun it => (it.1, O.div it.2 total)

/-- what `run_trainer` does to the base-structure counter before saving:
coverage 1 → unchanged; coverage 0 → only `M` with count 1; otherwise `M` gets `N/coverage − N` -/
def withMarkov (O : QOps Q) (sub : Q → Q → Q) (one : Q) (isOne isZero : Q → Bool) (mKey : α)
    (coverage n : Q) (items : List (α × Q)) : List (α × Q) :=
  if isOne coverage then items
  else if isZero coverage then [(mKey, one)]
  else items ++ [(mKey, sub (O.div n coverage) n)]

end Pcfg
