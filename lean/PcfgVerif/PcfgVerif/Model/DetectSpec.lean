import PcfgVerif.Model.Detect
/-!
# Specification-side notions for the detectors (no proofs here)

`TilesFrom U pw off secs`: the sections tile `pw` from offset `off` to its end — each is non-empty,
labelled or not; every section except a website is the exact slice of `pw` at its offset; a website
section has the length of its slice and is the corresponding slice of the lower-casing of an
enclosing substring (websites are kept lower-cased).
-/
namespace Pcfg.Detect

/-- `str.lower()` preserves the length of every substring of `pw` (false e.g. for U+0130) -/
def LenPres (U : UEnv) (pw : CPs) : Prop :=
  ∀ a b, (U.lowerS (slice pw a b)).length = (slice pw a b).length

def pieceOK (U : UEnv) (pw : CPs) (off : Nat) (s : Sec) : Prop :=
  s.1 ≠ [] ∧ off + s.1.length ≤ pw.length ∧
  (s.2 ≠ some "W" → s.1 = slice pw off (off + s.1.length)) ∧
  (s.2 = some "W" → ∃ a b, a ≤ off ∧ off + s.1.length ≤ b ∧ b ≤ pw.length ∧
      s.1 = slice (U.lowerS (slice pw a b)) (off - a) (off - a + s.1.length))

def TilesFrom (U : UEnv) (pw : CPs) : Nat → List Sec → Prop
  | off, [] => off = pw.length
  | off, s :: rest => pieceOK U pw off s ∧ TilesFrom U pw (off + s.1.length) rest

/-- what a per-section detector must satisfy: on an unlabelled non-empty text it returns pieces that
tile that text (seen as a password of its own) -/
def DetectorOK {F : Type} (U : UEnv) (detect : CPs → Option (List Sec × F)) : Prop :=
  ∀ text pieces f, text ≠ [] → LenPres U text → detect text = some (pieces, f) →
    pieces ≠ [] ∧ TilesFrom U text 0 pieces

/-- every section carries a label -/
def AllLabelled (secs : List Sec) : Prop := ∀ s ∈ secs, s.2.isSome = true

/-- the number in a length-indexed label -/
def labelNumOK (s : Sec) : Prop :=
  ∀ c, c ∈ ['A', 'D', 'O', 'K'] → s.2 = some (lbl c s.1.length) ∨ ∀ n, s.2 ≠ some (lbl c n)

end Pcfg.Detect
