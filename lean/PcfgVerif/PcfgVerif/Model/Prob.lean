/-!
# Probability operations used by the models

`POps P` is just the two operations the guesser performs on probabilities: the comparison `≤`
(from which `<` and `==` are derived exactly the way they relate on non-NaN IEEE doubles) and the
product.  The executable model runs with `P = Float`; the theorems are proved for every `PAlg`
(total preorder, product monotone in both arguments – *no* associativity or commutativity, which is
exactly what survives IEEE rounding).
-/
namespace Pcfg

structure POps (P : Type) where
  le : P → P → Bool
  mul : P → P → P

namespace POps
variable {P : Type} (O : POps P)

/-- Python `a < b` on non-NaN floats -/
def lt (a b : P) : Bool := !(O.le b a)
/-- Python `a == b` on non-NaN floats -/
def eqv (a b : P) : Bool := O.le a b && O.le b a

end POps

/-- Laws: total preorder, monotone product. -/
structure PAlg (P : Type) extends POps P where
  le_refl : ∀ a, le a a = true
  le_trans : ∀ a b c, le a b = true → le b c = true → le a c = true
  le_total : ∀ a b, le a b = true ∨ le b a = true
  mul_mono_left : ∀ a a' b, le a a' = true → le (mul a b) (mul a' b) = true
  mul_mono_right : ∀ a b b', le b b' = true → le (mul a b) (mul a b') = true

/-- The executable instance: IEEE doubles (CPython `float`). -/
def floatOps : POps Float := ⟨fun a b => a ≤ b, fun a b => a * b⟩

/-- A law-abiding instance used for non-vacuity examples: naturals ("probabilities" scaled to
integers).  -/
def natAlg : PAlg Nat where
  le := fun a b => decide (a ≤ b)
  mul := fun a b => a * b
  le_refl := by intro a; simp
  le_trans := by intro a b c h1 h2; simp at *; omega
  le_total := by intro a b; simp; omega
  mul_mono_left := by intro a a' b h; simp at *; exact Nat.mul_le_mul_right b h
  mul_mono_right := by intro a b b' h; simp at *; exact Nat.mul_le_mul_left a h

end Pcfg

namespace Pcfg

/-- comparison operators as they appear in the Python source (filled in by the translator) -/
inductive CmpOp | lt | le | gt | ge | eq | ne
deriving DecidableEq, Repr

/-- comparison of probabilities (non-NaN doubles) -/
def POps.cmp {P : Type} (O : POps P) : CmpOp → P → P → Bool
  | .lt, a, b => O.lt a b
  | .le, a, b => O.le a b
  | .gt, a, b => O.lt b a
  | .ge, a, b => O.le b a
  | .eq, a, b => O.eqv a b
  | .ne, a, b => !(O.eqv a b)

/-- comparison of Python ints that are natural numbers -/
def CmpOp.nat : CmpOp → Nat → Nat → Bool
  | .lt, a, b => decide (a < b)
  | .le, a, b => decide (a ≤ b)
  | .gt, a, b => decide (b < a)
  | .ge, a, b => decide (b ≤ a)
  | .eq, a, b => a == b
  | .ne, a, b => a != b

/-- what `_recursive_restore_prob_order` does with a node -/
inductive RestoreAct | stop | save | descend
deriving DecidableEq, Repr

end Pcfg

namespace Pcfg

/-- comparison of Python ints -/
def CmpOp.int : CmpOp → Int → Int → Bool
  | .lt, a, b => decide (a < b)
  | .le, a, b => decide (a ≤ b)
  | .gt, a, b => decide (b < a)
  | .ge, a, b => decide (b ≤ a)
  | .eq, a, b => a == b
  | .ne, a, b => a != b

/-- `==` / `!=` on one-character strings -/
def CmpOp.chr : CmpOp → Char → Char → Bool
  | .eq, a, b => a == b
  | .ne, a, b => a != b
  | .lt, a, b => decide (a.toNat < b.toNat)
  | .le, a, b => decide (a.toNat ≤ b.toNat)
  | .gt, a, b => decide (b.toNat < a.toNat)
  | .ge, a, b => decide (b.toNat ≤ a.toNat)

end Pcfg
