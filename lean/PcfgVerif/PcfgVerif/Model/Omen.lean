/-! Prototype OMEN model: fill / nextTree vs. spec enumerator allTrees -/
namespace Omen

abbrev Str := List Char

structure Item where
  ip : Str
  lvl : Nat
  idx : Nat
deriving Repr, DecidableEq, BEq

structure Model where
  maxLevel : Nat := 10
  /-- cp[ip] = list of (level, chars) in *file order of first appearance* (dict semantics) -/
  cp : List (Str × List (Nat × List Char))

def Model.cpOf (m : Model) (ip : Str) : Option (List (Nat × List Char)) :=
  (m.cp.find? (·.1 == ip)).map (·.2)

def lvlChars (e : List (Nat × List Char)) (l : Nat) : Option (List Char) :=
  (e.find? (·.1 == l)).map (·.2)

/-- `_find_cp(ip, top, bottom)`: highest level in [bottom, min top maxLevel] present for ip -/
def Model.findCp (m : Model) (ip : Str) (top bottom : Nat) : Option (List Char × Nat) :=
  match m.cpOf ip with
  | none => none
  | some e =>
    let top := min top m.maxLevel
    -- descending search top, top-1, …, bottom
    let rec go (fuel : Nat) (t : Nat) : Option (List Char × Nat) :=
      match fuel with
      | 0 => none
      | fuel+1 =>
        if t < bottom then none else
        match lvlChars e t with
        | some cs => some (cs, t)
        | none => if t = 0 then none else go fuel (t-1)
    go (top+1) top

def nextIp (ip : Str) (c : Char) : Str := ip.drop 1 ++ [c]

/-- inner `while cur_index < top_index` loop: first char whose recursive completion exists -/
def fillIdxs (rec : Str → Option (List Item)) (ip : Str) (l : Nat) : Nat → List Char → Option (List Item)
  | _, [] => none
  | i, c :: rest =>
    match rec (nextIp ip c) with
    | some t => some (⟨ip, l, i⟩ :: t)
    | none => fillIdxs rec ip l (i+1) rest

/-- outer `while cur_level >= 0` loop -/
def Model.fillLevels (m : Model) (rec : Str → Nat → Option (List Item)) (ip : Str) (target : Nat) :
    (fuel : Nat) → (cur : Nat) → Option (List Item)
  | 0, _ => none
  | fuel+1, cur =>
    match m.findCp ip cur 0 with
    | none => none
    | some (cs, l) =>
      match fillIdxs (fun ip' => rec ip' (target - l)) ip l 0 cs with
      | some r => some r
      | none => if l = 0 then none else m.fillLevels rec ip target fuel (l-1)

/-- `_fill_out_parse_tree` without the memo table -/
def Model.fill (m : Model) : (len : Nat) → Str → Nat → Option (List Item)
  | 0, _, _ => none
  | 1, ip, target =>
    match m.findCp ip target target with
    | some (_, l) => some [⟨ip, l, 0⟩]
    | none => none
  | len+2, ip, target => m.fillLevels (m.fill (len+1)) ip target (target+1) target

/-- spec: all exact-level completions in DFS order (levels descending, indices ascending) -/
def Model.allTrees (m : Model) : (len : Nat) → Str → Nat → List (List Item)
  | 0, _, _ => []
  | 1, ip, target =>
    if target ≤ m.maxLevel then
      match (m.cpOf ip).bind (lvlChars · target) with
      | some cs => (List.range cs.length).map (fun i => [⟨ip, target, i⟩])
      | none => []
    else []
  | len+2, ip, target =>
    match m.cpOf ip with
    | none => []
    | some e =>
      let lv := (List.range (min target m.maxLevel + 1)).reverse
      lv.flatMap fun l =>
        match lvlChars e l with
        | none => []
        | some cs =>
          (List.zipIdx cs).flatMap fun (c, i) =>
            (m.allTrees (len+1) (nextIp ip c) (target - l)).map (⟨ip, l, i⟩ :: ·)

def Model.charAt (m : Model) (it : Item) : Option Char :=
  ((m.cpOf it.ip).bind (lvlChars · it.lvl)).bind (·[it.idx]?)

def Model.format (m : Model) (ip : Str) (t : List Item) : String :=
  String.ofList (ip ++ t.filterMap m.charAt)


def Model.chars (m : Model) (ip : Str) (l : Nat) : List Char :=
  ((m.cpOf ip).bind (lvlChars · l)).getD []

/-- inner `while last_item[2] < len(...)`: indices i, i+1, … of `cs` (the suffix still to try) -/
def Model.tryIdxs (m : Model) (elemIp : Str) (reqLen tgt : Nat) : Nat → List Char → Option (Nat × List Item)
  | _, [] => none
  | i, c :: rest =>
    match m.fill reqLen (elemIp.dropLast ++ [c]) tgt with
    | some t => some (i, t)
    | none => m.tryIdxs elemIp reqLen tgt (i+1) rest

/-- `while True:` level descent at one depth; returns (level, index, new tail) -/
def Model.descend (m : Model) (lastIp elemIp : Str) (reqLen reqLevel : Nat) :
    (fuel : Nat) → (dl i : Nat) → Option (Nat × Nat × List Item)
  | 0, _, _ => none
  | fuel+1, dl, i =>
    match m.tryIdxs elemIp reqLen (reqLevel - dl) i ((m.chars lastIp dl).drop i) with
    | some (i', t) => some (dl, i', t)
    | none =>
      if dl = 0 then none else
      match m.findCp lastIp (dl-1) 0 with
      | none => none
      | some (_, dl') => m.descend lastIp elemIp reqLen reqLevel fuel dl' 0

/-- `while self.parse_tree:` over the (reversed) remaining stack -/
def Model.outer (m : Model) : (stackRev : List Item) → (element : Item) → (reqLen reqLevel : Nat) → Option (List Item)
  | [], _, _, _ => none
  | last :: below, element, reqLen, reqLevel =>
    match m.descend last.ip element.ip reqLen reqLevel (last.lvl+1) last.lvl (last.idx+1) with
    | some (l, i, t) => some (below.reverse ++ [⟨last.ip, l, i⟩] ++ t)
    | none =>
      match below with
      | [] => none
      | b :: _ => m.outer below last (reqLen+1) (reqLevel + b.lvl)

/-- `GuessStructure.next_guess` for a non-empty parse tree -/
def Model.nextTree (m : Model) (t : List Item) : Option (List Item) :=
  match t.reverse with
  | [] => none
  | last :: restRev =>
    if last.idx + 1 < (m.chars last.ip last.lvl).length then
      some (restRev.reverse ++ [{ last with idx := last.idx + 1 }])
    else
      match restRev with
      | [] => none
      | l2 :: _ => m.outer restRev last 1 (last.lvl + l2.lvl)

/-- iterate: first = fill, then nextTree until none -/
def Model.enumFrom (m : Model) : Nat → Option (List Item) → List (List Item)
  | 0, _ => []
  | _, none => []
  | fuel+1, some t => t :: m.enumFrom fuel (m.nextTree t)

def Model.enumAll (m : Model) (len : Nat) (ip : Str) (target : Nat) (fuel := 100000) : List (List Item) :=
  m.enumFrom fuel (m.fill len ip target)

end Omen

/-!
## `MarkovCracker`: cursors over lengths and initial n-grams

`ipTbl[level]` / `lnTbl[level]` are the lists `grammar['ip'][level]` / `grammar['ln'][level]` (file
order); `lnTbl` holds `cp_length = password length − (ngram − 1)`.
-/
namespace Omen

structure Tables where
  m : Model
  ipTbl : List (List Str)
  lnTbl : List (List Nat)

/-- `_find_first_object`: scans `range(0, max_level)`; `none` = the code raises -/
def findFirst {α : Type} (maxLevel : Nat) (tbl : List (List α)) : Option Nat :=
  (List.range maxLevel).find? fun l => (tbl.getD l []).length != 0

/-- shared shape of `_increase_ip_for_target` / `_increase_len_for_target`:
`while level <= max_level: if size > index: return; level += 1; index = 0; if level > max_level: return False; elif level > bound: return False` -/
def advance (sizes : Nat → Nat) (maxLevel : Nat) (bound : Int) : Nat → Nat → Nat → Option (Nat × Nat)
  | 0, _, _ => none
  | fuel + 1, level, index =>
    if level ≤ maxLevel then
      if sizes level > index then some (level, index)
      else if level + 1 > maxLevel then none
      else if ((level + 1 : Nat) : Int) > bound then none
      else advance sizes maxLevel bound fuel (level + 1) 0
    else none

structure Cursor where
  lenLvl : Nat
  lenIdx : Nat
  ipLvl : Nat
  ipIdx : Nat
deriving Repr, DecidableEq

/-- state of a `MarkovCracker` after at least one call of `next_guess` -/
structure CState where
  cur : Cursor
  /-- `GuessStructure.parse_tree`; `[]` = nothing generated yet for this (length, ip) -/
  tree : List Item
deriving Repr

def Tables.curIp (t : Tables) (c : Cursor) : Str := (t.ipTbl.getD c.ipLvl []).getD c.ipIdx []
def Tables.curLen (t : Tables) (c : Cursor) : Nat := (t.lnTbl.getD c.lenLvl []).getD c.lenIdx 0

/-- `target_level - cur_len[0] - cur_ip[0]`, `none` when negative (then every lookup fails) -/
def Tables.gsTarget (_t : Tables) (target : Nat) (c : Cursor) : Option Nat :=
  if c.lenLvl + c.ipLvl ≤ target then some (target - c.lenLvl - c.ipLvl) else none

/-- `GuessStructure.next_guess` -/
def Tables.gsNext (t : Tables) (target : Nat) (s : CState) : Option (List Item) :=
  match s.tree with
  | [] =>
    match t.gsTarget target s.cur with
    | none => none
    | some tg => t.m.fill (t.curLen s.cur) (t.curIp s.cur) tg
  | tr => t.m.nextTree tr

def Tables.increaseIp (t : Tables) (target : Nat) (c : Cursor) : Option Cursor :=
  match advance (fun l => (t.ipTbl.getD l []).length) t.m.maxLevel ((target : Int) - c.lenLvl)
      (t.m.maxLevel + 2) c.ipLvl (c.ipIdx + 1) with
  | some (l, i) => some { c with ipLvl := l, ipIdx := i }
  | none => none

def Tables.increaseLen (t : Tables) (target : Nat) (startIp : Nat) (c : Cursor) : Option Cursor :=
  match advance (fun l => (t.lnTbl.getD l []).length) t.m.maxLevel (target : Int)
      (t.m.maxLevel + 2) c.lenLvl (c.lenIdx + 1) with
  | some (l, i) => some ⟨l, i, startIp, 0⟩
  | none => none

/-- the `while guess is None` loop of `MarkovCracker.next_guess`; fuel bounds the number of
(length, ip) pairs tried -/
def Tables.seek (t : Tables) (target startIp : Nat) : Nat → CState → Option (List Item × CState)
  | 0, _ => none
  | fuel + 1, s =>
    match t.gsNext target s with
    | some tr => some (tr, { s with tree := tr })
    | none =>
      match t.increaseIp target s.cur with
      | some c => t.seek target startIp fuel ⟨c, []⟩
      | none =>
        match t.increaseLen target startIp s.cur with
        | some c => t.seek target startIp fuel ⟨c, []⟩
        | none => none

def Tables.pairCount (t : Tables) : Nat :=
  ((t.ipTbl.map List.length).sum + 1) * ((t.lnTbl.map List.length).sum + 1) + 1

/-- initial state (`cur_guess is None` branch); `none` = `_find_first_object` raises -/
def Tables.start (t : Tables) : Option CState :=
  match findFirst t.m.maxLevel t.ipTbl, findFirst t.m.maxLevel t.lnTbl with
  | some si, some sl => some ⟨⟨sl, 0, si, 0⟩, []⟩
  | _, _ => none

/-- one `MarkovCracker.next_guess()`: the guess, and the state afterwards -/
def Tables.next (t : Tables) (target : Nat) (s : CState) : Option (Str × CState) :=
  match t.seek target ((findFirst t.m.maxLevel t.ipTbl).getD 0) t.pairCount s with
  | some (tr, s') => some (t.curIp s'.cur ++ tr.filterMap t.m.charAt, s')
  | none => none

/-- every guess of one level, in order; `limit` bounds the number of guesses -/
def Tables.enumFrom (t : Tables) (target : Nat) : Nat → CState → List Str
  | 0, _ => []
  | fuel + 1, s =>
    match t.next target s with
    | some (g, s') => g :: t.enumFrom target fuel s'
    | none => []

def Tables.enumLevel (t : Tables) (target : Nat) (limit : Nat) : Option (List Str) :=
  match t.start with
  | some s => some (t.enumFrom target limit s)
  | none => none

end Omen
