import PcfgVerif.Generated.Session
/-!
# The cracking session as a two-actor state machine

Model of `CrackingSession.run` (main actor) and `keypress` (keyboard actor) of
`lib_guesser/cracking_session.py`, together with the Markov loop of
`PcfgGrammar.omen_generate_guesses` and the session files.

The run is a list of *units* (what the priority queue pops, in order): a plain pre-terminal prints
its lines without looking at shared state; a Markov pre-terminal asks the OMEN generator for one guess
at a time, prints it and looks at `should_exit` after every guess; the level ends with one more call of
the generator that finds nothing.  The yield points of the main actor are: before `pqueue.next()`, before
every line of a plain pre-terminal, and before every call of the OMEN generator (so a quit request can
also arrive while the generator is searching in vain after the last string of a level).  The only shared variable is `shouldExit` (written by the keyboard actor, read by the main
actor); a schedule is a list of actor choices, each choice lets that actor run to its next yield
point.  Standard input is a script of events; an exhausted script is a pipe that stays open and silent.
-/
namespace Pcfg.Sess
open Pcfg.Generated.Session

abbrev Line := List Nat

inductive Unit' where
  | plain (lines : List Line)
  | markov (lines : List Line)
deriving Repr, DecidableEq

def Unit'.lines : Unit' → List Line
  | .plain l => l
  | .markov l => l

inductive Ev where
  /-- a line typed by the user; `statusFails` = printing the status report raises -/
  | line (text : String) (statusFails : Bool)
  | eof
  | err
deriving Repr, DecidableEq

inductive Kbd where
  | atInput            -- about to call `input()`
  | gotLine (text : String) (statusFails : Bool)   -- read a line, sleeping
  | dead
deriving Repr, DecidableEq

/-- contents of the `.sav` / `.omn` files that matter -/
structure Files where
  /-- index (into the unit list) of the pre-terminal whose probability was saved: the run resumes there -/
  savPos : Option Nat := none
  /-- `omen_guess_number` option present -/
  omenOpt : Bool := false
  /-- the `.omn` file: the guesses of the interrupted level that were not yet emitted -/
  omn : Option (List Line) := none
deriving Repr, DecidableEq

inductive Main where
  | loopHead (next : Nat)                           -- about to call `pqueue.next()`; `next` = index of the next unit
  | plain (next : Nat) (rest : List Line)           -- inside a plain pre-terminal, lines still to print
  | omen (next : Nat) (rest : List Line) (restored : Bool)  -- inside a Markov level
  | finished                                        -- queue empty
  | exited                                          -- quit request honoured: session saved
deriving Repr, DecidableEq

structure St where
  main : Main
  kbd : Kbd
  stdin : List Ev
  shouldExit : Bool := false
  omenExit : Bool := false
  out : List Line := []
  files : Files := {}
  /-- a `q` line has been read by the keyboard actor -/
  quitSeen : Bool := false
deriving Repr

/-- what the quit test of the main loop evaluates to -/
def quitTest (s : St) : Bool :=
  match quitSrc with
  | .shouldExit => s.shouldExit
  | .kbdDead => s.kbd == .dead
  | .other => false

/-- one step of the keyboard actor -/
def kbdStep (s : St) : St :=
  match s.kbd with
  | .dead => s
  | .atInput =>
    match s.stdin with
    | [] => s                                        -- blocked: the pipe stays open and silent
    | .line t f :: rest => { s with kbd := .gotLine t f, stdin := rest, quitSeen := s.quitSeen || t == "q" }
    | .eof :: rest => { s with kbd := .dead, stdin := rest }      -- EOFError kills the thread
    | .err :: rest => { s with kbd := .dead, stdin := rest }
  | .gotLine t fails =>
    match s.main with
    | .finished => { s with kbd := .dead }            -- `if not threading.main_thread().is_alive(): return`
    | .exited => { s with kbd := .dead }
    | _ =>
      if fails then
        { s with kbd := .dead, shouldExit := s.shouldExit || (keepsQuitOnStatusFailure && t == "q") }
      else if t == "q" then { s with kbd := .dead, shouldExit := true }
      else { s with kbd := .atInput }

/-- `_save_session()` when the main loop quits having popped unit `pos` -/
def saveOnQuit (s : St) (pos : Nat) : Files :=
  { s.files with savPos := some pos, omenOpt := s.files.omenOpt || s.omenExit }

/-- one step of the main actor (from one yield point to the next) over the unit list `us` -/
def mainStep (us : List Unit') (s : St) : St :=
  match s.main with
  | .finished => s
  | .exited => s
  | .loopHead i =>
    match us[i]? with
    | none => { s with main := .finished }
    | some u =>
      if quitTest s then { s with main := .exited, files := saveOnQuit s i }
      else
        match u with
        | .plain [] => { s with main := .loopHead (i + 1) }
        | .plain ls => { s with main := .plain (i + 1) ls }
        | .markov ls => { s with main := .omen (i + 1) ls false }
  | .plain i rest =>
    match rest with
    | [] => { s with main := .loopHead i }
    | [l] => { s with out := s.out ++ [l], main := .loopHead i }
    | l :: more => { s with out := s.out ++ [l], main := .plain i more }
  | .omen i rest restored =>
    match rest with
    | [] =>
      -- the generator finds nothing more: the level is finished; a restored level that was not quit again drops the option
      { s with main := .loopHead i,
               files := if restored && removesOmenOption && !s.omenExit
                        then { s.files with omenOpt := false } else s.files }
    | l :: more =>
      let s1 := { s with out := s.out ++ [l] }
      if s1.shouldExit then
        -- `omen_exit = True`, the cracker state is pickled, back to the main loop
        { s1 with omenExit := true, files := { s1.files with omn := some more }, main := .loopHead i }
      else { s1 with main := .omen i more restored }

inductive Actor | main | kbd
deriving Repr, DecidableEq

def step (us : List Unit') (s : St) : Actor → St
  | .main => mainStep us s
  | .kbd => kbdStep s

def run (us : List Unit') (s : St) (sched : List Actor) : St := sched.foldl (step us) s

/-- start of a new session -/
def initNew (stdin : List Ev) : St :=
  { main := .loopHead 0, kbd := .atInput, stdin := stdin, files := { savPos := some 0 } }

/-- start of a `--load` session from the files a previous session left -/
def initLoad (f : Files) (stdin : List Ev) : St :=
  let pos := f.savPos.getD 0
  match f.omenOpt, f.omn with
  | true, some rest => { main := .omen pos rest true, kbd := .atInput, stdin := stdin, files := f }
  | _, _ => { main := .loopHead pos, kbd := .atInput, stdin := stdin, files := f }

/-- everything the uninterrupted run prints -/
def fullStream (us : List Unit') : List Line := us.flatMap (·.lines)

end Pcfg.Sess
