import PcfgVerif.Model.Omen
/-!
# `_fill_out_parse_tree` with the shared memo table (`Optimizer`)

`lib_guesser/omen/optimizer.py` caches, per (start n-gram, length, target level), the first parse tree
found (or `None`).  One `Optimizer` object is shared by every `GuessStructure` and every level of a
run, so the table a call sees was filled by arbitrary earlier calls.  `fillC` threads the table
through the recursion exactly where the Python reads (`lookup`) and writes (`update`) it; lengths
above `maxLen` bypass the table.  The dictionary overwrite of `update` is modelled by consing (the
newest entry is found first).
-/
namespace Omen

abbrev CKey := Str × Nat × Nat          -- (ip, length, target level)
abbrev Cache := List (CKey × Option (List Item))

def Cache.lookup (c : Cache) (k : CKey) : Option (Option (List Item)) :=
  (c.find? (·.1 == k)).map (·.2)

def Cache.update (c : Cache) (k : CKey) (v : Option (List Item)) : Cache := (k, v) :: c

/-- inner `while cur_index < top_index` loop, cache threaded through the recursive calls -/
def fillIdxsC (rec : Cache → Str → Option (List Item) × Cache) (ip : Str) (l : Nat) :
    Cache → Nat → List Char → Option (List Item) × Cache
  | c, _, [] => (none, c)
  | c, i, ch :: rest =>
    match rec c (nextIp ip ch) with
    | (some t, c') => (some (⟨ip, l, i⟩ :: t), c')
    | (none, c') => fillIdxsC rec ip l c' (i+1) rest

/-- outer `while cur_level >= 0` loop -/
def Model.fillLevelsC (m : Model) (rec : Cache → Str → Nat → Option (List Item) × Cache) (ip : Str)
    (target : Nat) : (fuel : Nat) → Cache → (cur : Nat) → Option (List Item) × Cache
  | 0, c, _ => (none, c)
  | fuel+1, c, cur =>
    match m.findCp ip cur 0 with
    | none => (none, c)
    | some (cs, l) =>
      match fillIdxsC (fun c' ip' => rec c' ip' (target - l)) ip l c 0 cs with
      | (some r, c') => (some r, c')
      | (none, c') => if l = 0 then (none, c') else m.fillLevelsC rec ip target fuel c' (l-1)

/-- `_fill_out_parse_tree(ip, length, target_level)` with `self.optimizer` (max_length = `maxLen`) -/
def Model.fillC (m : Model) (maxLen : Nat) : (len : Nat) → Cache → Str → Nat → Option (List Item) × Cache
  | 0, c, _, _ => (none, c)
  | 1, c, ip, target =>
    match m.findCp ip target target with
    | some (_, l) => (some [⟨ip, l, 0⟩], c)
    | none => (none, c)
  | len+2, c, ip, target =>
    if len + 2 ≤ maxLen then
      match c.lookup (ip, len+2, target) with
      | some r => (r, c)
      | none =>
        let (r, c') := m.fillLevelsC (fun c' ip' t' => m.fillC maxLen (len+1) c' ip' t') ip target (target+1) c target
        (r, c'.update (ip, len+2, target) r)
    else
      m.fillLevelsC (fun c' ip' t' => m.fillC maxLen (len+1) c' ip' t') ip target (target+1) c target

/-- every entry of the table is the result of the table-free function for its key -/
def CacheOK (m : Model) (c : Cache) : Prop :=
  ∀ ip len target v, c.lookup (ip, len, target) = some v → v = m.fill len ip target

end Omen
