/-!
# Rule folders and the file lists of `config.ini`

Model of `save_indexed_counters` (`lib_trainer/save_pcfg_data.py`: unlink every file of the folder, then write
one file `str(key) + ".txt"` per key of the counter dict) and of `create_filename_list`
(`lib_trainer/config_file.py`: `str(key) + ".txt"` per key).  A folder is a list of (file name, content); `κ` is
the key type, `name` is `str`.
-/
namespace Pcfg.RuleDir
variable {κ γ : Type}

/-- `create_filename_list(counter)` -/
def filenameList (name : κ → String) (suffix : String) (counters : List (κ × γ)) : List String :=
  counters.map fun kc => name kc.1 ++ suffix

/-- writing a file replaces a file of the same name -/
def writeIn (dir : List (String × γ)) (fn : String) (c : γ) : List (String × γ) :=
  dir.filter (fun e => e.1 != fn) ++ [(fn, c)]

/-- `save_indexed_counters(folder, counters, encoding)` on a folder that already holds `old` -/
def saveIndexed (name : κ → String) (suffix : String) (_old : List (String × γ)) (counters : List (κ × γ)) :
    List (String × γ) :=
  counters.foldl (fun dir kc => writeIn dir (name kc.1 ++ suffix) kc.2) []

end Pcfg.RuleDir
