import PcfgVerif.Model.CheckValid
import PcfgVerif.Generated.Reader
/-!
# The trainer's password reader

Model of `TrainerFileInput.read_password`.  Parameters (runtime behaviour supplied pointwise by the
harness): `parseInt` = Python `int()` on the count token (`none` = ValueError), `hexDecode` =
`bytes.fromhex(s).decode(encoding)` (`none` = any exception), `encodable` = `s.encode(encoding)`
succeeds.
-/
namespace Pcfg

structure RParams where
  parseInt : CPs → Option Int
  hexDecode : CPs → Option CPs
  encodable : CPs → Bool

structure RRes where
  out : List CPs := []
  numPasswords : Int := 0
  numErrors : Int := 0
deriving Repr

def hexPrefix : CPs := [0x24, 0x48, 0x45, 0x58, 0x5b]      -- "$HEX["

def startsWith (s pre : CPs) : Bool := s.take pre.length == pre
def endsWith (s suf : CPs) : Bool := s.length ≥ suf.length && s.drop (s.length - suf.length) == suf

def joinSp : List CPs → CPs
  | [] => []
  | [a] => a
  | a :: rest => a ++ [0x20] ++ joinSp rest

/-- what one line contributes: (yielded passwords, added to num_passwords, added to num_encoding_errors) -/
def readLine (R : RParams) (prefixcount : Bool) (line : CPs) : List CPs × Int × Int :=
  let clean := rstripChars [0x0d, 0x0a] line
  let counted : Option (Int × CPs) :=
    if Generated.Reader.prefixOn prefixcount then
      let toks := pySplit 0x20 (lstripWs clean)
      match toks[Generated.Reader.countTok]? with
      | none => none
      | some t =>
        match R.parseInt t with
        | none => none
        | some n => some (n, joinSp (toks.drop Generated.Reader.restTok))
    else some (Generated.Reader.defaultCount, clean)
  match counted with
  | none => ([], 0, 0)
  | some (n, pw) =>
    let decoded : Option CPs :=
      if startsWith pw hexPrefix && endsWith pw [0x5d] then
        R.hexDecode ((pw.drop Generated.Reader.hexDropFront).take
          (pw.length - Generated.Reader.hexDropFront - Generated.Reader.hexDropBack))
      else some pw
    match decoded with
    | none => ([], 0, n)
    | some pw =>
      if !(R.encodable pw) then ([], 0, n)
      else if !(checkValid pw) then ([], 0, 0)
      else (List.replicate (n - Generated.Reader.yieldFrom).toNat pw, n, 0)

def readLines (R : RParams) (prefixcount : Bool) : List CPs → RRes
  | [] => {}
  | line :: rest =>
    let (o, p, e) := readLine R prefixcount line
    let r := readLines R prefixcount rest
    ⟨o ++ r.out, p + r.numPasswords, e + r.numErrors⟩

/-- all passwords `read_password()` yields for a file with this decoded text -/
def readPasswords (R : RParams) (prefixcount : Bool) (text : CPs) : RRes :=
  readLines R prefixcount (codecLines text)

end Pcfg
