import PcfgVerif.Model.OmenTrainer
import PcfgVerif.Model.OmenFiles
/-!
# The OMEN half of the trainer: alphabet, n-gram counts, smoothing into levels

`alphabetOf` mirrors `AlphabetGenerator` (`lib_trainer/omen/alphabet_generator.py`, first pass): letters of the passwords
that are at least `ngram` long are counted (TAB skipped), the `size` most frequent are kept, ties in first-seen order
(`sorted(..., key=count, reverse=True)` is stable).  `parse` mirrors `AlphabetLookup.parse`
(`lib_trainer/omen/alphabet_lookup.py`, second pass): per (n−1)-gram the counts of its occurrences as initial / end n-gram
and of every next letter, the dicts kept as association lists in insertion order.  `toTTables` mirrors `apply_smoothing`
(`smooth_grammar`, `smooth_length`): every count becomes a level through `lvl` (`_calc_level`: `floor(−log(count/total ·
factor + 1e−11))` clamped to `0..max_level` — `log` and `floor` are opaque to the kernel, so the theorems take `lvl` as a
parameter and use only the clamp; the executable model runs the same formula on hardware doubles).
-/
namespace Omen

/-- `dictionary[letter] += 1` in first-seen order -/
def bumpChar (d : List (Char × Nat)) (c : Char) : List (Char × Nat) :=
  assocUpd d c fun o => o.getD 0 + 1

def alphabetCounts (ngram : Nat) (pws : List Str) : List (Char × Nat) :=
  pws.foldl (fun d pw => if pw.length < ngram then d else
    pw.foldl (fun d c => if c == '\t' then d else bumpChar d c) d) []

/-- `get_alphabet()` -/
def alphabetOf (size ngram : Nat) (pws : List Str) : List Char :=
  (((alphabetCounts ngram pws).mergeSort fun a b => decide (a.2 ≥ b.2)).take size).map (·.1)

structure CEntry where
  key : Str
  ip : Nat := 0
  ep : Nat := 0
  cp : Nat := 0
  next : List (Char × Nat) := []
deriving Repr

structure CTables where
  entries : List CEntry := []
  ipTotal : Nat := 0
  epTotal : Nat := 0
  lnTotal : Nat := 0
  /-- `ln_lookup`: count of passwords of length `i + 1` -/
  lnCounts : List Nat
deriving Repr

def inAlphabet (alphabet : List Char) (s : Str) : Bool := s.all alphabet.contains

/-- what one iteration does to the entry of the current (n−1)-gram -/
def updEntry (alphabet : List Char) (isFirst isLast : Bool) (endChar : Option Char) (e : CEntry) : CEntry :=
  let e := if isFirst then { e with ip := e.ip + 1 } else e
  if isLast then { e with ep := e.ep + 1 }
  else
    match endChar with
    | some c =>
      if e.next.any (·.1 == c) then
        { e with next := e.next.map (fun p => if p.1 == c then (p.1, p.2 + 1) else p), cp := e.cp + 1 }
      else if alphabet.contains c then { e with next := e.next ++ [(c, 1)], cp := e.cp + 1 }
      else e
    | none => e

/-- one iteration of `for i in range(0, pw_len - self.ngram + 2)` -/
def parseStep (alphabet : List Char) (ngram : Nat) (pw : Str) (t : CTables) (i : Nat) : CTables :=
  let start := (pw.drop i).take (ngram - 1)
  let known := t.entries.any (·.key == start)
  if !known && !inAlphabet alphabet start then t
  else
    let entries := if known then t.entries else t.entries ++ [{ key := start }]
    let isFirst := i == 0
    let isLast := i == pw.length - (ngram - 1)
    { t with
      entries := entries.map fun e => if e.key == start then updEntry alphabet isFirst isLast pw[i + ngram - 1]? e else e
      ipTotal := if isFirst then t.ipTotal + 1 else t.ipTotal
      epTotal := if isLast then t.epTotal + 1 else t.epTotal }

/-- `AlphabetLookup.parse(password)` -/
def parse (alphabet : List Char) (ngram minLength maxLength : Nat) (t : CTables) (pw : Str) : CTables :=
  if pw.length < max minLength ngram || pw.length > maxLength then t
  else
    (List.range (pw.length - ngram + 2)).foldl (parseStep alphabet ngram pw)
      { t with lnCounts := t.lnCounts.modify (pw.length - 1) (· + 1), lnTotal := t.lnTotal + 1 }

def countTables (alphabet : List Char) (ngram minLength maxLength : Nat) (pws : List Str) : CTables :=
  pws.foldl (parse alphabet ngram minLength maxLength) { lnCounts := List.replicate maxLength 0 }

/-- `apply_smoothing()`: every count becomes a level (`lvl count total factor`); a length table without any password
gets the highest level everywhere (`except ZeroDivisionError`) -/
def CTables.toTTables (lvl : Nat → Nat → Nat → Nat) (ngram maxLevel : Nat) (t : CTables) : TTables :=
  { ngram := ngram, maxLevel := maxLevel
    entries := t.entries.map fun e => ⟨e.key, lvl e.ip t.ipTotal 250, e.next.map fun p => (p.1, lvl p.2 e.cp 2)⟩
    lns := t.lnCounts.map fun n => if t.lnTotal = 0 then maxLevel else lvl n t.lnTotal 1 }

/-- the end of `_calc_level`: `if level > max_level: level = max_level elif level < 0: level = 0` -/
def clampLevel (raw : Int) (maxLevel : Nat) : Nat :=
  if raw > (maxLevel : Int) then maxLevel else if raw < 0 then 0 else raw.toNat

/-- `_calc_level` with an arbitrary value for `floor(-log(...))` in front of the clamp -/
def lvlOf (raw : Nat → Nat → Nat → Int) (maxLevel : Nat) : Nat → Nat → Nat → Nat :=
  fun count total factor => clampLevel (raw count total factor) maxLevel

/-- the trainer's OMEN tables of a password list -/
def trainTTables (lvl : Nat → Nat → Nat → Nat) (alphabetSize ngram minLength maxLength maxLevel : Nat) (pws : List Str) : TTables :=
  (countTables (alphabetOf alphabetSize ngram pws) ngram minLength maxLength pws).toTTables lvl ngram maxLevel

end Omen
