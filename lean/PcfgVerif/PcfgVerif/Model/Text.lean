/-!
# Python text primitives on code-point lists

Strings that come out of a codec reader are modelled as lists of code points (`Nat`), because with
`errors='surrogateescape'` they may contain lone surrogates (which Lean's `Char` cannot hold).
The two tables below (`pyLineSeps`, `pySpaces`) are CPython's `str.splitlines` boundaries and
`str.isspace` set; the harness compares them with the running interpreter over all 1 114 112 code
points on every run (`harness/unicode_check.py`).
-/
namespace Pcfg

abbrev CPs := List Nat

/-- line boundaries of `str.splitlines` (also used by `codecs` stream readers) -/
def pyLineSeps : List Nat := [0x0a, 0x0b, 0x0c, 0x0d, 0x1c, 0x1d, 0x1e, 0x85, 0x2028, 0x2029]

/-- `str.isspace` / what `str.strip()` removes -/
def pySpaces : List Nat :=
  [0x09, 0x0a, 0x0b, 0x0c, 0x0d, 0x1c, 0x1d, 0x1e, 0x1f, 0x20, 0x85, 0xa0, 0x1680,
   0x2000, 0x2001, 0x2002, 0x2003, 0x2004, 0x2005, 0x2006, 0x2007, 0x2008, 0x2009, 0x200a,
   0x2028, 0x2029, 0x202f, 0x205f, 0x3000]

def isLineSep (c : Nat) : Bool := pyLineSeps.contains c
def isPySpace (c : Nat) : Bool := pySpaces.contains c
def isSurrogate (c : Nat) : Bool := decide (0xD800 ≤ c ∧ c ≤ 0xDFFF)

/-- `str.splitlines(keepends=True)` with a given boundary predicate; `\r\n` is one boundary -/
def splitLinesKeep (sep : Nat → Bool) : CPs → CPs → List CPs
  | [], cur => if cur.isEmpty then [] else [cur.reverse]
  | 0x0d :: 0x0a :: rest, cur =>
    if sep 0x0d then (0x0a :: 0x0d :: cur).reverse :: splitLinesKeep sep rest []
    else splitLinesKeep sep (0x0a :: rest) (0x0d :: cur)
  | c :: rest, cur =>
    if sep c then (c :: cur).reverse :: splitLinesKeep sep rest []
    else splitLinesKeep sep rest (c :: cur)

/-- lines as a `codecs` reader yields them -/
def codecLines (text : CPs) : List CPs := splitLinesKeep isLineSep text []

/-- lines as a text-mode `open()` yields them (universal newlines: `\r\n` and `\r` become `\n`) -/
def textModeLines (text : CPs) : List CPs :=
  (splitLinesKeep (fun c => c == 0x0a || c == 0x0d) text []).map fun l =>
    match l.reverse with
    | 0x0a :: 0x0d :: r => (0x0a :: r).reverse
    | 0x0d :: r => (0x0a :: r).reverse
    | _ => l

/-- `s.rstrip()` -/
def rstripWs (s : CPs) : CPs := (s.reverse.dropWhile isPySpace).reverse

/-- `s.rstrip(chars)` -/
def rstripChars (chars : List Nat) (s : CPs) : CPs := (s.reverse.dropWhile chars.contains).reverse

/-- `s.lstrip()` -/
def lstripWs (s : CPs) : CPs := s.dropWhile isPySpace

/-- `s.split(sep)` for a one-character separator: always at least one piece -/
def splitOnCp (sep : Nat) : CPs → CPs → List CPs
  | [], cur => [cur.reverse]
  | c :: rest, cur =>
    if c == sep then cur.reverse :: splitOnCp sep rest [] else splitOnCp sep rest (c :: cur)

def pySplit (sep : Nat) (s : CPs) : List CPs := splitOnCp sep s []

def cpsOfString (s : String) : CPs := s.toList.map Char.toNat

end Pcfg
