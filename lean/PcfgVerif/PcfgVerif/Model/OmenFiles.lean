import PcfgVerif.Model.OmenTrainer
/-!
# The OMEN files of a ruleset: what the trainer writes and what the guesser's loader builds from it

`ipLines` / `cpLines` / `lnLines` are the records of `Omen/IP.level`, `Omen/CP.level`, `Omen/LN.level` as
`save_omen_rules_to_disk` (`lib_trainer/omen/omen_file_output.py`) writes them: one `(level, n-gram)` per line, in the
iteration order of the trainer's dicts.  `loadIp` / `loadCp` / `loadLn` are `_load_ngrams(…, "ip")`,
`_load_ngrams(…, "cp")` and `_load_length` of `lib_guesser/omen/input_file_io.py` on the parsed records (the split
of a line at its TAB and `int()` of the level are the text layer of C07): `none` = the loader raises (level
outside `0..max_level`).  `loadTables` is the guesser's OMEN grammar after `load_rules`.
-/
namespace Omen

abbrev NLine := Nat × Str

def TTables.ipLines (t : TTables) : List NLine := t.entries.map fun e => (e.ipLevel, e.key)

def TTables.cpLines (t : TTables) : List NLine :=
  t.entries.flatMap fun e => e.next.map fun p => (p.2, e.key ++ [p.1])

def TTables.lnLines (t : TTables) : List Nat := t.lns

/-- `grammar[name][level].append(x)` on a table that holds a list for every level `0..max_level` -/
def appendAt {α : Type} (tbl : List (List α)) (level : Nat) (x : α) : List (List α) :=
  tbl.modify level (· ++ [x])

/-- `_load_ngrams(…, "ip")` -/
def loadIpGo (maxLevel : Nat) : List NLine → List (List Str) → Option (List (List Str))
  | [], tbl => some tbl
  | ln :: r, tbl => if ln.1 ≤ maxLevel then loadIpGo maxLevel r (appendAt tbl ln.1 ln.2) else none

def loadIp (maxLevel : Nat) (lines : List NLine) : Option (List (List Str)) :=
  loadIpGo maxLevel lines (List.replicate (maxLevel + 1) [])

/-- `if k not in d: d[k] = new; d[k] = f(d[k])` on a dict kept as an association list in insertion order -/
def assocUpd {κ β : Type} [BEq κ] (al : List (κ × β)) (k : κ) (f : Option β → β) : List (κ × β) :=
  if al.any (·.1 == k) then al.map (fun p => if p.1 == k then (p.1, f (some p.2)) else p)
  else al ++ [(k, f none)]

def assocGet {κ β : Type} [BEq κ] (al : List (κ × β)) (k : κ) : Option β := (al.find? (·.1 == k)).map (·.2)

/-- `grammar['cp'][prefix][level].append(char)` with the two `if … not in …: … = {}` / `[]` initialisations -/
def insertLvl (e : List (Nat × List Char)) (lvl : Nat) (c : Char) : List (Nat × List Char) :=
  assocUpd e lvl fun o => o.getD [] ++ [c]

def insertCp (cp : List (Str × List (Nat × List Char))) (pre : Str) (lvl : Nat) (c : Char) :
    List (Str × List (Nat × List Char)) :=
  assocUpd cp pre fun o => insertLvl (o.getD []) lvl c

/-- `_load_ngrams(…, "cp")`: `search_string = line[1][0:-1]`, the letter is `line[1][-1]`
(an empty n-gram makes `line[1][-1]` raise) -/
def loadCpGo (maxLevel : Nat) : List NLine → List (Str × List (Nat × List Char)) → Option (List (Str × List (Nat × List Char)))
  | [], cp => some cp
  | ln :: r, cp =>
    if ln.1 ≤ maxLevel then
      match ln.2.getLast? with
      | some c => loadCpGo maxLevel r (insertCp cp ln.2.dropLast ln.1 c)
      | none => none
    else none

def loadCp (maxLevel : Nat) (lines : List NLine) : Option (List (Str × List (Nat × List Char))) :=
  loadCpGo maxLevel lines []

/-- `_load_length`: line `i` (1-based) is the level of length `i`; lengths below `min_size` are not stored,
the others as `length − (min_size − 1)` -/
def loadLnGo (maxLevel minSize : Nat) : Nat → List Nat → List (List Nat) → Option (List (List Nat))
  | _, [], tbl => some tbl
  | cur, l :: r, tbl =>
    if l ≤ maxLevel then
      loadLnGo maxLevel minSize (cur + 1) r (if cur ≥ minSize then appendAt tbl l (cur - (minSize - 1)) else tbl)
    else none

def loadLn (maxLevel minSize : Nat) (lines : List Nat) : Option (List (List Nat)) :=
  loadLnGo maxLevel minSize 1 lines (List.replicate (maxLevel + 1) [])

/-- the guesser's OMEN grammar after `load_rules` on the files of `t` -/
def TTables.loadTables (t : TTables) : Option Tables :=
  match loadIp t.maxLevel t.ipLines, loadCp t.maxLevel t.cpLines, loadLn t.maxLevel t.ngram t.lnLines with
  | some ip, some cp, some ln => some { m := { maxLevel := t.maxLevel, cp := cp }, ipTbl := ip, lnTbl := ln }
  | _, _, _ => none

/-- the lookup every function of the generator model goes through: the letters listed for `ip` at level `l` -/
def Model.cpChars (m : Model) (ip : Str) (l : Nat) : Option (List Char) := (m.cpOf ip).bind (lvlChars · l)

end Omen
