import PcfgVerif.Model.Loader
/-!
# The text layer of an OMEN level file

`omenFileText` is what `save_omen_rules_to_disk` writes for `IP.level` / `EP.level` / `CP.level`:
`str(level) + "\t" + ngram + "\n"` per record.  `loadOmenText` is the front of `_load_ngrams` (guesser) and of
`OmenScorer._load_omen`: codec line iteration, `rstrip('\n\r')`, `split('\t')` into exactly two fields, `int()` of the first.
`digitsOf` / `parseDigits` stand for `str(int)` / `int(str)` on non-negative numbers written in ASCII digits.
-/
namespace Pcfg

/-- `str(n)` for a non-negative int, as code points -/
def digitsOf (n : Nat) : CPs :=
  if h : n < 10 then [48 + n] else digitsOf (n / 10) ++ [48 + n % 10]
termination_by n
decreasing_by omega

def digitStep (acc : Option Nat) (c : Nat) : Option Nat :=
  acc.bind fun a => if 48 ≤ c ∧ c ≤ 57 then some (a * 10 + (c - 48)) else none

/-- `int(text)` for a text of ASCII digits (`none` = `ValueError`; signs, blanks and other digits are not produced by the writer) -/
def parseDigits (s : CPs) : Option Nat := if s = [] then none else s.foldl digitStep (some 0)

def omenFileText (records : List (Nat × CPs)) : CPs := writeFile (records.map fun r => (digitsOf r.1, r.2))

/-- `line.rstrip('\n\r').split('\t')`, exactly two fields, `int(line[0])` -/
def parseOmenLine (line : CPs) : Option (Nat × CPs) :=
  match pySplit 9 (rstripChars [10, 13] line) with
  | [l, g] => (parseDigits l).map fun n => (n, g)
  | _ => none

def loadOmenText (text : CPs) : Option (List (Nat × CPs)) := (codecLines text).mapM parseOmenLine

end Pcfg

namespace Omen
open Pcfg

/-- `_save_alphabet`: one letter per line -/
def alphabetText (letters : CPs) : CPs := letters.flatMap fun c => [c, 10]

/-- `_load_alphabet`: codec line iteration, `rstrip('\n\r')` -/
def loadAlphabet (text : CPs) : List CPs := (codecLines text).map (rstripChars [10, 13])

end Omen
