import PcfgVerif.Model.OmenSpec
/-!
# The trainer's and the scorer's view of an OMEN model

`TTables` is what `AlphabetLookup` holds after smoothing, reduced to levels: per (n−1)-gram its
initial level and the level of each observed next letter, and the level of every length 1..max.
`trainerLevel` mirrors `find_omen_level` (`lib_trainer/omen/evaluate_password.py`), `scorerLevel`
mirrors `OmenScorer.parse` (`lib_scorer/omen_scorer.py`) on the files the trainer writes,
`toTables` is what the guesser's `load_rules` builds from those files, `recKeyspace` /
`calcKeyspace` mirror `_rec_calc_keyspace` / `calc_omen_keyspace` (memo table omitted: it stores the
function's own results).
-/
namespace Omen

structure TEntry where
  key : Str
  ipLevel : Nat
  next : List (Char × Nat)
deriving Repr

structure TTables where
  ngram : Nat
  maxLevel : Nat := 10
  entries : List TEntry
  /-- level of length `i+1` -/
  lns : List Nat

def TTables.entry (t : TTables) (k : Str) : Option TEntry := t.entries.find? (·.key == k)

def TEntry.letter (e : TEntry) (c : Char) : Option Nat := (e.next.find? (·.1 == c)).map (·.2)

/-- the `while end_pos <= pw_len` loop: sum of the transition levels, `none` = KeyError -/
def TTables.chain (t : TTables) : Str → List Char → Option Nat
  | _, [] => some 0
  | ip, c :: cs =>
    match t.entry ip with
    | none => none
    | some e =>
      match e.letter c, t.chain (nextIp ip c) cs with
      | some l, some r => some (l + r)
      | _, _ => none

/-- `find_omen_level(omen_trainer, password)`; `none` = the code returns −1 -/
def TTables.trainerLevel (t : TTables) (s : Str) : Option Nat :=
  if s.length < t.ngram || s.length > t.lns.length then none
  else
    match t.lns[s.length - 1]?, t.entry (s.take (t.ngram - 1)) with
    | some ln, some e =>
      match t.chain (s.take (t.ngram - 1)) (s.drop (t.ngram - 1)) with
      | some c => some (ln + e.ipLevel + c)
      | none => none
    | _, _ => none

/-- the scorer's dictionaries: `ip[key]`, `cp[key + letter]` (a later line overwrites an earlier one) -/
def TTables.scorerCp (t : TTables) (gram : Str) : Option Nat :=
  match t.entry gram.dropLast, gram.getLast? with
  | some e, some c => e.letter c
  | _, _ => none

def TTables.scorerChain (t : TTables) (s : Str) : Nat → Nat → Option Nat
  | 0, _ => some 0
  | fuel + 1, endPos =>
    if endPos ≤ s.length then
      match t.scorerCp ((s.drop (endPos - t.ngram)).take t.ngram), t.scorerChain s fuel (endPos + 1) with
      | some l, some r => some (l + r)
      | _, _ => none
    else some 0

/-- `OmenScorer.parse(password)`; `none` = −1 -/
def TTables.scorerLevel (t : TTables) (s : Str) : Option Nat :=
  if s.length < t.ngram || s.length > t.lns.length then none
  else
    match t.lns[s.length - 1]?, t.entry (s.take (t.ngram - 1)) with
    | some ln, some e =>
      match t.scorerChain s (s.length + 1) t.ngram with
      | some c => some (ln + e.ipLevel + c)
      | none => none
    | _, _ => none

/-- what the guesser's `load_rules` builds from the files the trainer writes -/
def TTables.toTables (t : TTables) : Tables :=
  let levels := List.range (t.maxLevel + 1)
  { m := { maxLevel := t.maxLevel,
           cp := t.entries.filterMap fun e =>
             let byLevel := levels.filterMap fun l =>
               let cs := (e.next.filter (·.2 == l)).map (·.1)
               if cs.isEmpty then none else some (l, cs)
             if byLevel.isEmpty then none else some (e.key, byLevel) }
    ipTbl := levels.map fun l => (t.entries.filter (·.ipLevel == l)).map (·.key)
    lnTbl := levels.map fun l =>
      (List.range t.lns.length).filterMap fun i =>
        if t.lns.getD i 0 == l && t.ngram ≤ i + 1 then some (i + 1 - (t.ngram - 1)) else none }

/-- `_rec_calc_keyspace(omen_trainer, level, length, ip)` -/
def TTables.recKeyspace (t : TTables) : Nat → Str → Nat → Nat
  | 0, _, _ => 0
  | 1, ip, level =>
    match t.entry ip with
    | none => 0
    | some e => (e.next.filter (·.2 == level)).length
  | len + 2, ip, level =>
    match t.entry ip with
    | none => 0
    | some e =>
      (e.next.map fun (c, l) => if l ≤ level then t.recKeyspace (len + 1) (nextIp ip c) (level - l) else 0).sum

/-- keyspace of one level as `calc_omen_keyspace` adds it up -/
def TTables.levelKeyspace (t : TTables) (level : Nat) : Nat :=
  (t.entries.map fun e =>
    if e.ipLevel ≤ level then
      ((List.range t.lns.length).map fun i =>
        let length := i + 1
        if length < t.ngram then 0
        else if t.lns.getD i 0 ≤ level - e.ipLevel then
          t.recKeyspace (length - t.ngram + 1) e.key (level - e.ipLevel - t.lns.getD i 0)
        else 0).sum
    else 0).sum

/-- `calc_omen_keyspace(omen_trainer, max_level, max_keyspace)`: levels 1..max_level, stopping after
the first level whose keyspace exceeds `maxKeyspace` -/
def TTables.calcKeyspace (t : TTables) (maxKeyspace : Nat) : Nat → Nat → List (Nat × Nat)
  | 0, _ => []
  | fuel + 1, level =>
    let k := t.levelKeyspace level
    if k > maxKeyspace then [(level, k)] else (level, k) :: t.calcKeyspace maxKeyspace fuel (level + 1)

end Omen

/-!
## Tabulated keyspace (what the memo table of `_rec_calc_keyspace` amounts to)

`ksRow t maxL len` lists, for every entry (in order), the counts for levels `0..maxL` of strings with
`len` more characters.  It is the executable form of `recKeyspace`.
-/
namespace Omen

def lookupRow (rows : List (Str × List Nat)) (k : Str) (level : Nat) : Nat :=
  match rows.find? (·.1 == k) with
  | some (_, cs) => cs.getD level 0
  | none => 0

def TTables.ksRow (t : TTables) (maxL : Nat) : Nat → List (Str × List Nat)
  | 0 => t.entries.map fun e => (e.key, List.replicate (maxL + 1) 0)
  | 1 => t.entries.map fun e =>
      (e.key, (List.range (maxL + 1)).map fun level => (e.next.filter (·.2 == level)).length)
  | len + 2 =>
    let prev := t.ksRow maxL (len + 1)
    t.entries.map fun e =>
      (e.key, (List.range (maxL + 1)).map fun level =>
        (e.next.map fun (c, l) => if l ≤ level then lookupRow prev (nextIp e.key c) (level - l) else 0).sum)

/-- all rows for lengths `0..maxLen`, built incrementally -/
def TTables.ksRows (t : TTables) (maxL : Nat) : Nat → List (List (Str × List Nat))
  | 0 => [t.ksRow maxL 0]
  | n + 1 =>
    let rows := t.ksRows maxL n
    let prev := rows.getLastD []
    let next : List (Str × List Nat) :=
      if n = 0 then t.ksRow maxL 1
      else t.entries.map fun e =>
        (e.key, (List.range (maxL + 1)).map fun level =>
          (e.next.map fun (c, l) => if l ≤ level then lookupRow prev (nextIp e.key c) (level - l) else 0).sum)
    rows ++ [next]

/-- `levelKeyspace` computed from the table -/
def TTables.levelKeyspaceFast (t : TTables) (rows : List (List (Str × List Nat))) (level : Nat) : Nat :=
  (t.entries.map fun e =>
    if e.ipLevel ≤ level then
      ((List.range t.lns.length).map fun i =>
        let length := i + 1
        if length < t.ngram then 0
        else if t.lns.getD i 0 ≤ level - e.ipLevel then
          lookupRow (rows.getD (length - t.ngram + 1) []) e.key (level - e.ipLevel - t.lns.getD i 0)
        else 0).sum
    else 0).sum

def TTables.calcKeyspaceFast (t : TTables) (rows : List (List (Str × List Nat))) (maxKeyspace : Nat) :
    Nat → Nat → List (Nat × Nat)
  | 0, _ => []
  | fuel + 1, level =>
    let k := t.levelKeyspaceFast rows level
    if k > maxKeyspace then [(level, k)] else (level, k) :: t.calcKeyspaceFast rows maxKeyspace fuel (level + 1)

end Omen
