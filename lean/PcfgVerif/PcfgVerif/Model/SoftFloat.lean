/-!
# A model of IEEE-754 binary64 multiplication and division on finite non-negative values

A finite non-negative double is an integer multiple of 2^-1074; it is represented by that integer
(`Nat`, "units").  `roundQ N D` rounds the rational number `N / D` to the nearest value with a 53-bit
significand, ties to even (no upper exponent limit: probabilities are ≤ 1, see `mul_le_one`).
`mul a b = roundQ (a * b) 2^1074` is therefore `fl(a·b)`, and `ratio c t = roundQ (c * 2^1074) t` is
`fl(c / t)` in units — CPython's `int / int` (correctly rounded) and `float / float`.
-/
namespace Pcfg.SF

def bitLen (n : Nat) : Nat := if n = 0 then 0 else n.log2 + 1

/-- number of low bits of the integer part that do not fit into a 53-bit significand -/
def shiftOf (q : Nat) : Nat := bitLen q - 53

/-- round-half-even decision: `n` = truncated significand, `r` = remainder, `T` = one unit -/
def roundUp (n r T : Nat) : Bool :=
  decide (T < 2 * r) || (decide (2 * r = T) && n % 2 == 1)

/-- `N / T` rounded to the nearest integer, ties to even -/
def roundAt (N T : Nat) : Nat :=
  if roundUp (N / T) (N % T) T then N / T + 1 else N / T

/-- `N / D` rounded to a 53-bit significand (result again in units of 1) -/
def roundQ (N D : Nat) : Nat :=
  let s := shiftOf (N / D)
  roundAt N (D * 2 ^ s) * 2 ^ s

/-- `N / 2^k` rounded to a 53-bit significand -/
def roundTo (N k : Nat) : Nat := roundQ N (2 ^ k)

def unitExp : Nat := 1074
/-- 1.0 -/
def one : Nat := 2 ^ unitExp
/-- `fl(a * b)` -/
def mul (a b : Nat) : Nat := roundTo (a * b) unitExp
/-- `fl(a / b)` for two doubles given in units, and equally `fl(c / t)` for two Python ints
(both are the rational `a / b`, expressed in units by the factor 2^1074); `b > 0` -/
def ratio (a b : Nat) : Nat := roundQ (a * 2 ^ unitExp) b

/-- bit pattern → units (`none` for negative, infinite, NaN) -/
def ofBits (b : Nat) : Option Nat :=
  let e := b / 2 ^ 52 % 2048
  let m := b % 2 ^ 52
  if b ≥ 2 ^ 63 ∨ e = 2047 then none
  else if e = 0 then some m else some ((2 ^ 52 + m) * 2 ^ (e - 1))

/-- units → bit pattern (for representable values below 2^1024) -/
def toBits (v : Nat) : Nat :=
  if v < 2 ^ 52 then v
  else
    let e := bitLen v - 52
    e * 2 ^ 52 + (v / 2 ^ (e - 1) - 2 ^ 52)

end Pcfg.SF
