/-!
# A model of IEEE-754 binary64 multiplication on finite non-negative values

A finite non-negative double is an integer multiple of 2^-1074; it is represented by that integer
(`Nat`, "units").  `roundTo N k` rounds the real number `N / 2^k` to the nearest value with a 53-bit
significand, ties to even (no upper exponent limit: probabilities are ≤ 1, see `mul_le_one`).
`mul a b = roundTo (a * b) 1074` is therefore `fl(a·b)`.
-/
namespace Pcfg.SF

def bitLen (n : Nat) : Nat := if n = 0 then 0 else n.log2 + 1

/-- number of low bits of the integer part that do not fit into a 53-bit significand -/
def shiftOf (q : Nat) : Nat := bitLen q - 53

/-- round-half-even decision: `n` = truncated significand, `r` = remainder, `2^t` = one unit -/
def roundUp (n r t : Nat) : Bool :=
  decide (2 ^ t < 2 * r) || (decide (2 * r = 2 ^ t) && n % 2 == 1)

/-- significand of `N / 2^t` rounded to nearest, ties to even -/
def roundAt (N t : Nat) : Nat :=
  if roundUp (N / 2 ^ t) (N % 2 ^ t) t then N / 2 ^ t + 1 else N / 2 ^ t

/-- `N / 2^k` rounded to a 53-bit significand (result again in units of 1) -/
def roundTo (N k : Nat) : Nat :=
  let s := shiftOf (N / 2 ^ k)
  roundAt N (k + s) * 2 ^ s

def unitExp : Nat := 1074
/-- 1.0 -/
def one : Nat := 2 ^ unitExp
/-- `fl(a * b)` -/
def mul (a b : Nat) : Nat := roundTo (a * b) unitExp

/-- bit pattern → units (`none` for negative, infinite, NaN) -/
def ofBits (b : Nat) : Option Nat :=
  let e := b / 2 ^ 52 % 2048
  let m := b % 2 ^ 52
  if b ≥ 2 ^ 63 ∨ e = 2047 then none
  else if e = 0 then some m else some ((2 ^ 52 + m) * 2 ^ (e - 1))

/-- units → bit pattern (for representable values below 2^1024) -/
def toBits (v : Nat) : Nat :=
  if v < 2 ^ 52 then v
  else
    let e := bitLen v - 52
    e * 2 ^ 52 + (v / 2 ^ (e - 1) - 2 ^ 52)

end Pcfg.SF
