import PcfgVerif.Model.Prob
import PcfgVerif.Generated.Expand
/-!
# Expansion of a pre-terminal into guesses

Model of `PcfgGrammar._recursive_guesses` and `omen_generate_guesses`
(`lib_guesser/pcfg_grammar.py`).  A grammar is reduced to what expansion reads: for every variable
name the list of groups, each a list of values.  `upper` is CPython's `str.upper` on one character
(a parameter: it belongs to the Unicode database).  The Markov branch gets the level's guess list as a
parameter (`omen`), which `Model/Omen.lean` supplies.  Results are the printed lines in order, the
returned count, and whether an `IndexError`/`ValueError` escaped.
-/
namespace Pcfg

abbrev Str := List Char
abbrev EGrammar := List (String × List (List Str))
abbrev PT := List (String × Nat)

structure ERes where
  out : List Str
  count : Nat
  err : Bool := false
deriving Repr

def EGrammar.groups (g : EGrammar) (t : String) : Option (List (List Str)) :=
  (g.find? (·.1 == t)).map (·.2)

/-- `self.grammar[pt_type][index]['values']`; `none` = KeyError / IndexError -/
def EGrammar.values (g : EGrammar) (t : String) (i : Nat) : Option (List Str) :=
  (g.groups t).bind (·[i]?)

/-- Python truthiness of `limit` (`None` or `0` are falsy) -/
def limTruthy : Option Int → Bool
  | some v => v != 0
  | none => false

/-- `cur_guess[:-k]`, `cur_guess[-k:]` -/
def splitTail (cur : Str) (k : Nat) : Str × Str :=
  if k == 0 then ([], cur) else (cur.take (cur.length - k), cur.drop (cur.length - k))

/-- the `for item in mask` loop; `none` = `end_word[index]` raised IndexError -/
def applyMask (upper : Char → List Char) (endW : Str) : Str → Nat → Option Str
  | [], _ => some []
  | m :: ms, i =>
    match endW[i]? with
    | none => none
    | some c =>
      match applyMask upper endW ms (i + Generated.Expand.maskStep) with
      | none => none
      | some r => some ((if Generated.Expand.maskKeeps m then [c] else upper c) ++ r)

/-- one `for ... in values` loop with the limit bookkeeping.  `body v limit` gives the lines printed,
the amount added to `num_guesses` and the amount subtracted from `limit` by one iteration. -/
def valuesLoop (body : Str → Option Int → ERes × Int) (hit : Int → Bool) :
    List Str → Option Int → ERes
  | [], _ => ⟨[], 0, false⟩
  | v :: vs, limit =>
    let (r, dec) := body v limit
    if r.err then r
    else if limTruthy limit then
      let l' := limit.getD 0 - dec
      if hit l' then r
      else
        let r2 := valuesLoop body hit vs (some l')
        ⟨r.out ++ r2.out, r.count + r2.count, r2.err⟩
    else
      let r2 := valuesLoop body hit vs limit
      ⟨r.out ++ r2.out, r.count + r2.count, r2.err⟩

/-- `omen_generate_guesses` without a quit request -/
def omenLoop : List Str → Option Int → ERes
  | [], _ => ⟨[], 0, false⟩
  | gs :: rest, limit =>
    if limTruthy limit then
      let l' := limit.getD 0 - Generated.Expand.omenDec
      if Generated.Expand.omenHit l' then ⟨[gs], Generated.Expand.omenCount, false⟩
      else
        let r := omenLoop rest (some l')
        ⟨gs :: r.out, Generated.Expand.omenCount + r.count, r.err⟩
    else
      let r := omenLoop rest limit
      ⟨gs :: r.out, Generated.Expand.omenCount + r.count, r.err⟩

def parseNat (s : Str) : Option Nat :=
  if s.isEmpty then none else
  s.foldl (fun acc c => match acc with
    | none => none
    | some a => if c.isDigit then some (a * 10 + (c.toNat - '0'.toNat)) else none) (some 0)

/-- `_recursive_guesses(cur_guess, pt, limit)` -/
def recGuesses (upper : Char → List Char) (g : EGrammar) (omen : Nat → Option (List Str)) :
    Str → PT → Option Int → ERes
  | _, [], _ => ⟨[], 0, true⟩                      -- `pt[0]` raises IndexError
  | cur, (t, i) :: rest, limit =>
    match t.toList.head?, g.values t i with
    | none, _ => ⟨[], 0, true⟩
    | _, none => ⟨[], 0, true⟩
    | some cat, some vals =>
      let leaf (isLeaf : Bool) (cnt : Nat) (dec : Int) (newGuess : Str) (lim : Option Int) : ERes × Int :=
        if isLeaf then (⟨[newGuess], cnt, false⟩, dec)
        else
          let r := recGuesses upper g omen newGuess rest lim
          (r, (r.count : Int))
      if Generated.Expand.isMarkov cat then
        match vals.head?.bind parseNat with
        | none => ⟨[], 0, true⟩
        | some level =>
          match omen level with
          | none => ⟨[], 0, true⟩
          | some gs => omenLoop gs limit
      else if Generated.Expand.isCase cat then
        match vals.head? with
        | none => ⟨[], 0, true⟩
        | some first =>
          let (startW, endW) := splitTail cur first.length
          valuesLoop (fun mask lim =>
              match applyMask upper endW mask Generated.Expand.maskStart with
              | none => (⟨[], 0, true⟩, 0)
              | some newEnd =>
                let r := leaf (Generated.Expand.cIsLeaf (rest.length + 1)) Generated.Expand.cLeafCount
                  Generated.Expand.cLeafDec (startW ++ newEnd) lim
                r)
            (fun l => if Generated.Expand.cIsLeaf (rest.length + 1) then Generated.Expand.cLeafHit l
                      else Generated.Expand.cRecHit l)
            vals limit
      else
        valuesLoop (fun item lim =>
            leaf (Generated.Expand.pIsLeaf (rest.length + 1)) Generated.Expand.pLeafCount
              Generated.Expand.pLeafDec (cur ++ item) lim)
          (fun l => if Generated.Expand.pIsLeaf (rest.length + 1) then Generated.Expand.pLeafHit l
                    else Generated.Expand.pRecHit l)
          vals limit

/-- `create_guesses(pt, limit=limit)` -/
def createGuesses (upper : Char → List Char) (g : EGrammar) (omen : Nat → Option (List Str))
    (pt : PT) (limit : Option Int) : ERes :=
  recGuesses upper g omen [] pt limit

end Pcfg
