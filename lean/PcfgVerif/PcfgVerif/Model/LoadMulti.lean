/-!
# `_load_from_multiple_files` (`lib_guesser/grammar_io.py`)

For every file listed in the section's `filenames`, in order: the variable `name + file.split('.')[0]` is reset to an empty list
and loaded from that file; the first file that fails to load makes the function return `False`.  The grammar is a Python dict:
an association list in which an assignment replaces the entry of the same key.  `read` is `_load_from_file` on the file's content
(`none` = the loader returned `False`), so the model is independent of what a column is.
-/
namespace Pcfg.LoadMulti
variable {β : Type}

/-- `file.split('.')[0]` -/
def stem (f : String) : String := String.ofList (f.toList.takeWhile (· != '.'))

/-- `grammar[k] = c` -/
def setVar (g : List (String × β)) (k : String) (c : β) : List (String × β) := g.filter (fun e => e.1 != k) ++ [(k, c)]

def lookup (g : List (String × β)) (k : String) : Option β := (g.find? (·.1 == k)).map (·.2)

/-- `_load_from_multiple_files(grammar, config, …)`; `none` = returned `False` -/
def loadMultiple (read : String → Option β) (cat : String) : List String → List (String × β) → Option (List (String × β))
  | [], g => some g
  | f :: rest, g =>
    match read f with
    | none => none
    | some c => loadMultiple read cat rest (setVar g (cat ++ stem f) c)

end Pcfg.LoadMulti
