import PcfgVerif.Model.Detect
/-!
# The trainer's length-indexed counters

Model of `PCFGPasswordParser._update_counter_len_indexed` (`lib_trainer/pcfg_password_parser.py`): the counter of a category
(alpha words, masks, digits, other, keyboard walks) is a dict *length ↦ Counter*; an item goes to the Counter of its own
length, which is created the first time that length is seen.  A Python `Counter` is an association list in insertion order
(`MWTable` with `bump … none` = `counter[item] += 1`).
-/
namespace Pcfg.Detect

abbrev LenCtr := List (Nat × MWTable)

/-- `input_counter[n]` (empty when the length was never seen) -/
def LenCtr.get (d : LenCtr) (n : Nat) : MWTable := ((d.find? (·.1 == n)).map (·.2)).getD []

/-- one iteration of the loop: `input_counter[len(item)][item] += 1`, creating the Counter of that length first if needed -/
def LenCtr.add (d : LenCtr) (x : CPs) : LenCtr :=
  if d.any (·.1 == x.length) then d.map fun e => if e.1 == x.length then (e.1, e.2.bump x none) else e
  else d ++ [(x.length, MWTable.bump [] x none)]

/-- `_update_counter_len_indexed(input_counter, input_list)` -/
def updateLenIndexed (d : LenCtr) (items : List CPs) : LenCtr := items.foldl LenCtr.add d

end Pcfg.Detect
