import PcfgVerif.Model.Text
import PcfgVerif.Generated.Tables
/-!
# The trainer's detectors and the parsing pipeline

Model of `lib_trainer/detection_rules/*.py`, `lib_trainer/base_structure.py` and
`PCFGPasswordParser.parse`.  A section is a piece of the password with an optional label.
CPython's Unicode database is a parameter (`UEnv`): per-code-point predicates and the string-level
`str.lower()` (string-level because of the final-sigma rule).  The literal tables (keyboard rows, TLDs,
context strings, year prefixes, false-positive words) are generated from the source.
-/
namespace Pcfg.Detect
open Pcfg

structure UEnv where
  isAlpha : Nat → Bool
  isDigit : Nat → Bool
  isUpper : Nat → Bool
  /-- the detectors' lower-casing (`lower_keep_length` of `case_util.py`): `str.lower()` of the whole
  string unless that changes its length -/
  lowerS : CPs → CPs
  /-- plain `str.lower()` of a whole string (used where no positions are carried back) -/
  lowerPy : CPs → CPs

abbrev Sec := CPs × Option String

def lbl (c : Char) (n : Nat) : String := String.ofList [c] ++ toString n

/-- `s.find(pat)`: index of the first occurrence -/
def findFrom (s pat : CPs) : Nat → Nat → Option Nat
  | 0, _ => none
  | fuel + 1, i =>
    if (s.drop i).take pat.length == pat && i + pat.length ≤ s.length then some i
    else findFrom s pat fuel (i + 1)

def findSub (s pat : CPs) : Option Nat := findFrom s pat (s.length + 1) 0

/-- `s.rfind(pat)`: index of the last occurrence -/
def rfindSub (s pat : CPs) : Option Nat :=
  ((List.range (s.length + 1)).reverse.find? fun i =>
    (s.drop i).take pat.length == pat && i + pat.length ≤ s.length)

def containsSub (s pat : CPs) : Bool := (findSub s pat).isSome

def slice (s : CPs) (a b : Nat) : CPs := (s.drop a).take (b - a)

/-! ## keyboard walks -/

structure KPos where
  board : Nat
  row : Nat
  pos : Nat
deriving Repr, DecidableEq

def indexOf (l : List Nat) (c : Nat) : Option Nat :=
  let i := l.findIdx (· == c)
  if i < l.length then some i else none

/-- `find_keyboard_row_column(char, keyboards)`: at most one position per board, first matching row -/
def findKey (c : Nat) : List KPos :=
  (List.zipIdx Generated.Tables.keyboards).filterMap fun (rows, b) =>
    -- rows = [row1, s_row1, row2, s_row2, row3, s_row3, row4, s_row4]
    ((List.zipIdx rows).findSome? fun (r, k) => (indexOf r c).map fun p => (⟨b, k / 2 + 1, p⟩ : KPos))

/-- `is_next_on_keyboard(past, current)`: the boards on which `current` is a neighbour of `past` -/
def nextOn (past cur : List KPos) : List Nat :=
  past.filterMap fun p =>
    match cur.find? (·.board == p.board) with
    | none => none
    | some c =>
      if c.row == p.row && c.pos == p.pos then none
      else if c.row == p.row then
        if c.pos + 1 == p.pos || c.pos == p.pos + 1 then some p.board else none
      else if c.row == p.row + 1 then
        if c.pos == p.pos || c.pos + 1 == p.pos then some p.board else none
      else if c.row + 1 == p.row then
        if c.pos == p.pos || c.pos == p.pos + 1 then some p.board else none
      else none

def cpOf (c : Char) : Nat := c.toNat

/-- `interesting_keyboard(combo)` -/
def interesting (U : UEnv) (combo : CPs) : Bool :=
  let g (i : Nat) : Nat := combo.getD i 0
  let n := combo.length
  let back (k : Nat) : Nat := combo.getD (n - k) 0     -- combo[-k]
  if g 0 == cpOf 'e' then false
  else if g 1 == cpOf 'e' && g 2 == cpOf 'r' then false
  else if g 0 == cpOf 't' && g 1 == cpOf 'y' then false
  else if g 0 == cpOf 't' && g 1 == cpOf 't' && g 2 == cpOf 'y' then false
  else if g 0 == cpOf 'y' then false
  else if g 0 == cpOf '1' && g 1 == cpOf '2' && g 2 == cpOf '3' then false
  else if back 1 == cpOf '3' && back 2 == cpOf '2' && back 3 == cpOf '1' &&
      !(back 4 == cpOf 'q' || back 4 == cpOf 'Q') then false
  else if Generated.Tables.falsePositiveWords.any (fun w => containsSub (U.lowerPy combo) w) then false
  else
    let alpha := if combo.any U.isAlpha then 1 else 0
    let digit := if combo.any (fun c => !U.isAlpha c && U.isDigit c) then 1 else 0
    let special := if combo.any (fun c => !U.isAlpha c && !U.isDigit c) then 1 else 0
    decide (alpha + special + digit ≥ 2)

structure KWState where
  past : List KPos := []
  combo : CPs := []
  runs : List Nat := []

/-- the scan of `detect_keyboard_walk`; `index` = number of characters consumed; returns the sections
and the walks found.  `fuel` bounds the recursion on the remainder. -/
def kwScan (U : UEnv) (minRun : Nat) : Nat → CPs → CPs → Nat → KWState → List Sec × List CPs
  | 0, password, _, _, _ => ([(password, none)], [])
  | fuel + 1, password, rest, index, st =>
    match rest with
    | [] =>
      if st.combo.length ≥ minRun && interesting U st.combo then
        let pre : List Sec :=
          if st.combo.length != password.length then [(password.take (password.length - st.combo.length), none)] else []
        (pre ++ [(st.combo, some (lbl 'K' st.combo.length))], [st.combo])
      else ([(password, none)], [])
    | value :: more =>
      let posList := findKey value
      let current := nextOn st.past posList
      let runs := if st.runs.isEmpty then current else st.runs.filter current.contains
      if !runs.isEmpty then
        kwScan U minRun fuel password more (index + 1) { past := posList, combo := st.combo ++ [value], runs := runs }
      else if st.combo.length ≥ minRun && interesting U st.combo then
        let pre : List Sec :=
          if st.combo.length != index then [(password.take (index - st.combo.length), none)] else []
        let (rs, rf) := kwScan U minRun fuel (password.drop index) (password.drop index) 0 {}
        (pre ++ [(st.combo, some (lbl 'K' st.combo.length))] ++ rs, st.combo :: rf)
      else
        kwScan U minRun fuel password more (index + 1) { past := posList, combo := [value], runs := runs }

/-- `detect_keyboard_walk(password)` -/
def detectKeyboardWalk (U : UEnv) (password : CPs) : List Sec × List CPs :=
  kwScan U Generated.Tables.minKeyboardRun (2 * password.length + 2) password password 0 {}

/-! ## the list-level loop shared by the detectors -/

/-- `index += 1` after a hit (`skipFirst`) or `continue` (re-examine the first new piece) -/
inductive Advance | skipFirst | recheck
deriving DecidableEq

/-- the `while index < len(section_list)` loop; `detect` returns the replacement pieces and the found
item(s) for an unlabelled section, `none` when nothing was found -/
def splitLoop {F : Type} (detect : CPs → Option (List Sec × F)) (adv : Advance) :
    Nat → List Sec → List Sec → List F → List Sec × List F
  | 0, done, todo, found => (done ++ todo, found)
  | fuel + 1, done, todo, found =>
    match todo with
    | [] => (done, found)
    | (text, some l) :: rest => splitLoop detect adv fuel (done ++ [(text, some l)]) rest found
    | (text, none) :: rest =>
      match detect text with
      | none => splitLoop detect adv fuel (done ++ [(text, none)]) rest found
      | some (pieces, f) =>
        match adv, pieces with
        | .skipFirst, p :: ps => splitLoop detect adv fuel (done ++ [p]) (ps ++ rest) (found ++ [f])
        | .skipFirst, [] => splitLoop detect adv fuel done rest (found ++ [f])
        | .recheck, _ => splitLoop detect adv fuel done (pieces ++ rest) (found ++ [f])

def loopFuel (secs : List Sec) : Nat := 4 * ((secs.map (·.1.length)).sum + secs.length) + 8

/-! ## e-mail -/

/-- `detect_email(section)`: pieces, (full e-mail, provider) -/
def detectEmail (U : UEnv) (text : CPs) : Option (List Sec × (CPs × CPs)) :=
  let w := U.lowerS text
  if !(w.contains (cpOf '.')) || !(w.contains (cpOf '@')) then none
  else
    Generated.Tables.tldList.findSome? fun tld =>
      match findSub w tld with
      | none => none
      | some e0 =>
        let endIndex := e0 + tld.length
        match findSub (w.take endIndex) [cpOf '@'] with
        | none => none
        | some marker =>
          let pieces : List Sec :=
            [(text.take endIndex, some "E")] ++
              (if endIndex != w.length then [(text.drop endIndex, none)] else [])
          some (pieces, (w.take endIndex, slice w (marker + 1) endIndex))

/-! ## websites -/

/-- the `while end_index != -1` loop for one TLD: position of an occurrence that is not followed by a
letter or a dot (`none` = no acceptable occurrence) -/
def tldOccurrence (U : UEnv) (w tld : CPs) : Nat → Option Nat → Option Nat
  | 0, _ => none
  | _, none => none
  | fuel + 1, some total =>
    if total != w.length - tld.length &&
        (U.isAlpha (w.getD (total + tld.length) 0) || w.getD (total + tld.length) 0 == cpOf '.') then
      let t' := total + tld.length
      match findSub (w.drop t') tld with
      | none => none
      | some e => tldOccurrence U w tld fuel (some (t' + e))
    else some total

/-- `detect_website(section)`: pieces, (url, host, prefix) -/
def detectWebsite (U : UEnv) (text : CPs) : Option (List Sec × (CPs × CPs × Option CPs)) :=
  let w := U.lowerS text
  if !(w.contains (cpOf '.')) then none
  else
    Generated.Tables.tldList.findSome? fun tld =>
      match tldOccurrence U w tld (w.length + 1) (findSub w tld) with
      | none => none
      | some total =>
        let endIndex := total + tld.length
        let endOfUrl :=
          if endIndex == w.length then endIndex
          else if w.getD endIndex 0 == cpOf '/' then w.length
          else endIndex
        -- `rfind('.') + 1` is never -1, so the later fall-backs of the source are dead code
        let startIndex := match rfindSub (w.take total) [cpOf '.'] with | some i => i + 1 | none => 0
        let host := slice w startIndex (total + tld.length)
        let tryPrefix (limit : Nat) (p : String) : Option (Nat × CPs) :=
          (rfindSub (w.take limit) (cpsOfString p)).map fun i => (i, cpsOfString p)
        let found : Option (Nat × CPs) :=
          match tryPrefix (startIndex + 1) "http://www." with
          | some r => some r
          | none =>
            match tryPrefix startIndex "http://" with
            | some r => some r
            | none => tryPrefix startIndex "www."
        let startOfUrl := match found with | some (i, _) => i | none => 0
        let pieces : List Sec :=
          (if startOfUrl != 0 then [(text.take startOfUrl, none)] else []) ++
          [(slice w startOfUrl endOfUrl, some "W")] ++
          (if endOfUrl != text.length then [(text.drop endOfUrl, none)] else [])
        some (pieces, (slice w startOfUrl endOfUrl, host, found.map (·.2)))

/-! ## years -/

/-- scan for one prefix (`while True` loop): first acceptable occurrence -/
def yearScan (U : UEnv) (w pre : CPs) : Nat → Nat → Option Nat
  | 0, _ => none
  | fuel + 1, start =>
    match findSub (w.drop start) pre with
    | none => none
    | some rel =>
      let si := rel + start
      if w.length < si + 4 then none
      else
        let start' := si + 2
        if si != 0 && U.isDigit (w.getD (si - 1) 0) then yearScan U w pre fuel start'
        else if si + 4 < w.length && U.isDigit (w.getD (si + 4) 0) then yearScan U w pre fuel start'
        else if U.isDigit (w.getD (si + 2) 0) && U.isDigit (w.getD (si + 3) 0) then some si
        else yearScan U w pre fuel start'

/-- `detect_year(section)` -/
def detectYear (U : UEnv) (text : CPs) : Option (List Sec × CPs) :=
  Generated.Tables.yearPrefixes.findSome? fun pre =>
    match yearScan U text pre (text.length + 1) 0 with
    | none => none
    | some si =>
      let pieces : List Sec :=
        (if si != 0 then [(text.take si, none)] else []) ++
        [(slice text si (si + 4), some "Y1")] ++
        (if si + 4 < text.length then [(text.drop (si + 4), none)] else [])
      some (pieces, slice text si (si + 4))

/-! ## context-sensitive strings -/

/-- `detect_context_sensitive(section)` -/
def detectContext (U : UEnv) (text : CPs) : Option (List Sec × CPs) :=
  Generated.Tables.contextList.findSome? fun rep =>
    match findSub text rep with
    | none => none
    | some si =>
      if rep == cpsOfString "#1" && si + 3 < text.length && U.isDigit (text.getD (si + 3) 0) then none
      else
        let pieces : List Sec :=
          (if si != 0 then [(text.take si, none)] else []) ++
          [(slice text si (si + rep.length), some "X1")] ++
          (if si + rep.length < text.length then [(text.drop (si + rep.length), none)] else [])
        some (pieces, rep)

/-! ## multi-word detector -/

/-- the trie as the abstract map it implements: lower-cased alpha run ↦ count -/
abbrev MWTable := List (CPs × Nat)

structure MWCfg where
  threshold : Nat := 5
  minLen : Nat := 4
  maxLen : Nat := 21

def MWTable.count (t : MWTable) (w : CPs) : Nat := ((t.find? (·.1 == w)).map (·.2)).getD 0

def MWTable.bump (t : MWTable) (w : CPs) (setThreshold : Option Nat) : MWTable :=
  if t.any (·.1 == w) then t.map fun p => if p.1 == w then (p.1, p.2 + 1) else p
  else t ++ [(w, setThreshold.getD 1)]

/-- maximal alpha runs of a string -/
def alphaRuns (U : UEnv) : CPs → CPs → List CPs
  | [], cur => if cur.isEmpty then [] else [cur.reverse]
  | c :: rest, cur =>
    if U.isAlpha c then alphaRuns U rest (c :: cur)
    else (if cur.isEmpty then [] else [cur.reverse]) ++ alphaRuns U rest []

/-- `MultiWordDetector.train(password)` -/
def mwTrain (U : UEnv) (cfg : MWCfg) (t : MWTable) (password : CPs) (setThreshold : Bool := false) : MWTable :=
  if password.length < cfg.minLen || password.length > cfg.maxLen then t
  else
    (alphaRuns U (U.lowerPy password) []).foldl (fun t run =>
      if run.length ≥ cfg.minLen then t.bump run (if setThreshold then some cfg.threshold else none) else t) t

/-- `_get_count(alpha_string)` on an already lower-cased string -/
def mwCount (t : MWTable) (w : CPs) : Nat := t.count w

/-- `_identify_multi(alpha_string)`: indices from `len - min_len` down to `min_len` -/
def identifyMulti (cfg : MWCfg) (t : MWTable) : Nat → CPs → Option (List CPs)
  | 0, _ => none
  | fuel + 1, s =>
    let maxIndex := s.length - cfg.minLen
    let idxs := (List.range (maxIndex + 1)).reverse.filter fun i => decide (cfg.minLen ≤ i)
    idxs.findSome? fun i =>
      if mwCount t (s.take i) ≥ cfg.threshold then
        if mwCount t (s.drop i) ≥ cfg.threshold then some [s.take i, s.drop i]
        else (identifyMulti cfg t fuel (s.drop i)).map fun r => s.take i :: r
      else none

/-- `MultiWordDetector.parse(alpha_string)` -/
def mwParse (cfg : MWCfg) (t : MWTable) (s : CPs) : Bool × List CPs :=
  if s.length < cfg.minLen then (false, [s])
  else if s.length ≥ cfg.maxLen then (false, [s])
  else if mwCount t s ≥ cfg.threshold then (true, [s])
  else if s.length < 2 * cfg.minLen then (false, [s])
  else
    match identifyMulti cfg t (s.length + 1) s with
    | none => (false, [s])
    | some r => (true, r)

/-! ## alpha, digits, other -/

/-- first maximal run of characters satisfying `p` in `w`: (start, end inclusive) -/
def firstRun (p : Nat → Bool) (w : CPs) : Option (Nat × Nat) :=
  match w.findIdx p with
  | s => if s < w.length then some (s, s + ((w.drop s).takeWhile p).length - 1) else none

/-- `detect_alpha(section, multiword_detector)`: pieces, (words, masks) -/
def detectAlpha (U : UEnv) (cfg : MWCfg) (t : MWTable) (text : CPs) : Option (List Sec × (List CPs × List CPs)) :=
  let w := U.lowerS text
  match firstRun U.isAlpha w with
  | none => none
  | some (startPos, endPos) =>
    let (_, words) := mwParse cfg t (slice w startPos (endPos + 1))
    let rec build : List CPs → Nat → List Sec × List CPs
      | [], _ => ([], [])
      | word :: ws, cur =>
        let orig := slice text cur (cur + word.length)
        let mask := orig.map fun c => if U.isUpper c then cpOf 'U' else cpOf 'L'
        let (ss, ms) := build ws (cur + word.length)
        ((orig, some (lbl 'A' word.length)) :: ss, mask :: ms)
    let (wordSecs, masks) := build words startPos
    let pieces : List Sec :=
      (if startPos != 0 then [(text.take startPos, none)] else []) ++ wordSecs ++
      (if endPos != text.length - 1 then [(text.drop (endPos + 1), none)] else [])
    some (pieces, (words, masks))

/-- `detect_digits(section)` -/
def detectDigits (U : UEnv) (text : CPs) : Option (List Sec × CPs) :=
  match firstRun U.isDigit text with
  | none => none
  | some (startPos, endPos) =>
    let found := slice text startPos (endPos + 1)
    let pieces : List Sec :=
      (if startPos != 0 then [(text.take startPos, none)] else []) ++
      [(found, some (lbl 'D' found.length))] ++
      (if endPos != text.length - 1 then [(text.drop (endPos + 1), none)] else [])
    some (pieces, found)

/-- `other_detection(section_list)` -/
def otherDetection (secs : List Sec) : List Sec × List CPs :=
  (secs.map fun s => match s.2 with | none => (s.1, some (lbl 'O' s.1.length)) | some _ => s,
   secs.filterMap fun s => match s.2 with | none => some s.1 | some _ => none)

/-! ## the pipeline -/

structure Parsed where
  sections : List Sec
  walks : List CPs
  emails : List (CPs × CPs)
  websites : List (CPs × CPs × Option CPs)
  years : List CPs
  contexts : List CPs
  alphas : List CPs
  masks : List CPs
  digits : List CPs
  others : List CPs
  supported : Bool
  structure' : String

/-- `base_structure_creation(section_list)` -/
def baseStructure (secs : List Sec) : Bool × String :=
  (secs.all fun s => match s.2 with
      | some l => !(l.startsWith "W" || l.startsWith "E")
      | none => true,
   String.join (secs.map fun s => s.2.getD "?"))

/-- `PCFGPasswordParser.parse(password)` (the detection part; the counters are tallies of these lists) -/
def parse (U : UEnv) (cfg : MWCfg) (t : MWTable) (password : CPs) : Parsed :=
  let (s0, walks) := detectKeyboardWalk U password
  let (s1, emails) := splitLoop (detectEmail U) .skipFirst (loopFuel s0) [] s0 []
  let (s2, webs) := splitLoop (detectWebsite U) .skipFirst (loopFuel s1) [] s1 []
  let (s3, years) := splitLoop (detectYear U) .recheck (loopFuel s2) [] s2 []
  let (s4, ctxs) := splitLoop (detectContext U) .recheck (loopFuel s3) [] s3 []
  let (s5, am) := splitLoop (detectAlpha U cfg t) .skipFirst (loopFuel s4) [] s4 []
  let (s6, digits) := splitLoop (detectDigits U) .skipFirst (loopFuel s5) [] s5 []
  let (s7, others) := otherDetection s6
  let (sup, st) := baseStructure s7
  { sections := s7, walks := walks, emails := emails, websites := webs, years := years, contexts := ctxs,
    alphas := am.flatMap (·.1), masks := am.flatMap (·.2), digits := digits, others := others,
    supported := sup, structure' := st }

end Pcfg.Detect
