import PcfgVerif.Model.Text
import PcfgVerif.Generated.EditRules
/-!
# edit_rules.py

Model of `edit_length`, `edit_terminal_set`, `check_regex` and their composition in `edit_rules`,
(`_context_value_lengths` enters as the pair `ctx`: shortest and longest value of `Context/1.txt`)
on the text of `Grammar/grammar.txt`.  The user's regexes are an abstract predicate on the structure
string.  `none` = an exception escapes (missing TAB, a letter without digits where `int()` is applied).
-/
namespace Pcfg

def isUpperAZ (c : Nat) : Bool := decide (65 ≤ c ∧ c ≤ 90)
def isDigit09 (c : Nat) : Bool := decide (48 ≤ c ∧ c ≤ 57)

/-- scanner behind `tokenize`: `cur` is the token being extended (reversed) -/
def tokGo : CPs → Option CPs → List CPs
  | [], none => []
  | [], some cur => [cur.reverse]
  | c :: rest, cur =>
    if isDigit09 c then
      match cur with
      | some t => tokGo rest (some (c :: t))
      | none => tokGo rest none
    else
      let done : List CPs := match cur with | some t => [t.reverse] | none => []
      if isUpperAZ c then done ++ tokGo rest (some [c]) else done ++ tokGo rest none

/-- `re.findall('[A-Z][0-9]*', line)` -/
def tokenize (line : CPs) : List CPs := tokGo line none

/-- `int(x[1:])` on ASCII digits; `none` = ValueError on the empty string -/
def digitsVal (ds : CPs) : Option Nat :=
  if ds.isEmpty then none else some (ds.foldl (fun a d => a * 10 + (d - 48)) 0)

/-- `context_lengths[i]` of the pair (shortest, longest) context-sensitive value -/
def ctxAt (ctx : Nat × Nat) (i : Nat) : Nat := if i = 0 then ctx.1 else ctx.2

/-- contribution of one token to (`shortest_length`, `longest_length`); `ctx` = `context_lengths` -/
def tokenLen (ctx : Nat × Nat) (tok : CPs) : Option (Nat × Nat) :=
  match tok with
  | [] => some (0, 0)
  | c :: ds =>
    let ch := Char.ofNat c
    let same : Option (Nat × Nat) := (digitsVal ds).map fun n => (n, n)
    if Generated.EditRules.isA ch then same
    else if Generated.EditRules.isD ch then same
    else if Generated.EditRules.isY ch then some (Generated.EditRules.yearLenLo, Generated.EditRules.yearLenHi)
    else if Generated.EditRules.isO ch then same
    else if Generated.EditRules.isK ch then same
    else if Generated.EditRules.isX ch then
      (digitsVal ds).map fun n => (n * ctxAt ctx Generated.EditRules.ctxLoIdx, n * ctxAt ctx Generated.EditRules.ctxHiIdx)
    else some (0, 0)

def totalLen (ctx : Nat × Nat) : List CPs → Option (Nat × Nat)
  | [] => some (Generated.EditRules.startLo, Generated.EditRules.startHi)
  | t :: ts =>
    match tokenLen ctx t, totalLen ctx ts with
    | some a, some b => some (a.1 + b.1, a.2 + b.2)
    | _, _ => none

/-- `prob = line.split('\t')[1].strip()` -/
def probField (line : CPs) : Option CPs :=
  match pySplit 0x09 line with
  | _ :: p :: _ => some (lstripWs (rstripWs p))
  | _ => none

def structField (line : CPs) : CPs := (pySplit 0x09 line).headD []

def rebuild (toks : List CPs) (prob : CPs) : CPs := toks.flatten ++ [0x09] ++ prob ++ [0x0a]

/-- `edit_length(grammar, min_length, max_length, context_lengths)` on the lines of the text -/
def editLengthLines (ctx : Nat × Nat) (mn mx : Nat) : List CPs → Option (List CPs)
  | [] => some []
  | line :: rest =>
    if line.isEmpty then editLengthLines ctx mn mx rest
    else
      match probField line with
      | none => none
      | some prob =>
        let toks := tokenize line
        if toks.isEmpty then editLengthLines ctx mn mx rest
        else
          match totalLen ctx toks, editLengthLines ctx mn mx rest with
          | some total, some more =>
            if Generated.EditRules.keepLen total.1 total.2 mn mx then some (rebuild toks prob :: more) else some more
          | _, _ => none

/-- `edit_terminal_set(grammar, terminal_set)`; `allowed` = first letters listed -/
def editTerminalLines (allowed : List Nat) : List CPs → Option (List CPs)
  | [] => some []
  | line :: rest =>
    if line.isEmpty then editTerminalLines allowed rest
    else
      match probField line with
      | none => none
      | some prob =>
        let toks := tokenize line
        if toks.isEmpty then editTerminalLines allowed rest
        else
          match editTerminalLines allowed rest with
          | none => none
          | some more =>
            if toks.all (fun t => allowed.contains (t.headD 0)) then some (rebuild toks prob :: more)
            else some more

/-- `check_regex(grammar, regexes)`; `ok structure` = every regex matches -/
def checkRegexLines (ok : CPs → Bool) : List CPs → Option (List CPs)
  | [] => some []
  | line :: rest =>
    if line.isEmpty then checkRegexLines ok rest
    else
      match probField line, checkRegexLines ok rest with
      | some _, some more => if ok (structField line) then some ((line ++ [0x0a]) :: more) else some more
      | _, _ => none

def textLines (text : CPs) : List CPs := pySplit 0x0a text

structure EditCfg where
  /-- `_context_value_lengths(rule)`: (shortest, longest) value of `Context/1.txt`, (1, 1) if there is none -/
  ctx : Nat × Nat := (1, 1)
  minLen : Nat := 0
  maxLen : Nat := 0
  terminalSet : Option (List Nat) := none
  regexOk : Option (CPs → Bool) := none

/-- `edit_rules(config)`: the new text of grammar.txt -/
def editRules (cfg : EditCfg) (text : CPs) : Option CPs :=
  let step1 : Option CPs :=
    if cfg.minLen != 0 || cfg.maxLen != 0 then (editLengthLines cfg.ctx cfg.minLen cfg.maxLen (textLines text)).map List.flatten
    else some text
  let step2 : Option CPs := step1.bind fun t =>
    match cfg.terminalSet with
    | some a => (editTerminalLines a (textLines t)).map List.flatten
    | none => some t
  step2.bind fun t =>
    match cfg.regexOk with
    | some ok => (checkRegexLines ok (textLines t)).map List.flatten
    | none => some t

end Pcfg
