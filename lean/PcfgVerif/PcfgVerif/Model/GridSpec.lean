import PcfgVerif.Model.Grid
/-!
# Specification-side notions for the next function (no proofs here)

Well-formedness of a grid, the set of all nodes, and the reachable states of the real next function:
`Reach` starts from a given queue and at every step pops *any* element that `heapq.heappop` may
return (`isTop`: a member that no member precedes under `QueueItem.__lt__`), so every statement over
`Reach` holds for every tie-breaking of the heap.
-/
namespace Pcfg
variable {P : Type} [Inhabited P]

/-- every column is non-empty and its group probabilities are non-increasing (file order) -/
def WFStruct (O : POps P) (s : Struct P) : Prop :=
  ∀ c ∈ s.cols, c ≠ [] ∧ c.Pairwise (fun a b => O.le b a = true)

def WF (O : POps P) (g : Grid P) : Prop := ∀ s ∈ g, WFStruct O s

/-- all index vectors of a column list: one in-range index per position -/
def allIdx : List (List P) → List (List Nat)
  | [] => [[]]
  | c :: cs => (List.range c.length).flatMap fun i => (allIdx cs).map (i :: ·)

/-- every (base structure, one group per variable) combination -/
def allNodes (g : Grid P) : List Node :=
  (List.range g.length).flatMap fun b => (allIdx (g.struct b).cols).map fun i => ⟨b, i⟩

def ValidNode (g : Grid P) (v : Node) : Prop :=
  v.b < g.length ∧ validIdx (g.struct v.b).cols v.idx = true

/-- states the real queue can be in, from a given initial content -/
inductive Reach (O : POps P) (g : Grid P) (start : List Node) : PQState → Prop
  | init : Reach O g start ⟨start, []⟩
  | step {s : PQState} {x : Node} : Reach O g start s → isTop O g s.queue x = true →
      Reach O g start (pqStep O g s x)

/-- the popped sequence is non-increasing in probability -/
def NonIncreasing (O : POps P) (g : Grid P) (l : List Node) : Prop :=
  l.Pairwise fun a b => O.le (nodeProb O g b) (nodeProb O g a) = true

end Pcfg
