import PcfgVerif.Model.Detect
import PcfgVerif.Model.Prob
/-!
# The password scorer

Model of `PCFGPasswordScorer.parse` (`lib_scorer/pcfg_password_scorer.py`): the trainer's detectors
(with the scorer's own multi-word table), then the product of the probabilities looked up in the
loaded ruleset, in the code's order.  A missing length class (`KeyError`) or a missing item
(`Counter` default 0) both give probability zero.
-/
namespace Pcfg.Detect
open Pcfg

/-- loaded ruleset as the scorer sees it: per list name (`K4`, `A3`, `C3`, `D2`, `O1`, `Y`, `X`, `B`)
the value ↦ probability pairs -/
abbrev ScoreG (P : Type) := List (String × List (CPs × P))

def ScoreG.look {P : Type} (g : ScoreG P) (zero : P) (name : String) (v : CPs) : P :=
  match g.find? (·.1 == name) with
  | none => zero
  | some (_, items) => ((items.find? (·.1 == v)).map (·.2)).getD zero

structure ScoreRes (P : Type) where
  category : Char
  prob : P

/-- `parse(password)`; `omenOk` = the OMEN score lies within 0..max_omen_level -/
def score {P : Type} (mul : P → P → P) (gt : P → P → Bool) (one zero limit : P) (g : ScoreG P)
    (p : Parsed) (omenOk : Bool) : ScoreRes P :=
  if !p.emails.isEmpty then ⟨'e', zero⟩
  else if !p.websites.isEmpty then ⟨'w', zero⟩
  else if !p.supported then ⟨'o', zero⟩
  else
    let f (acc : P) (name : Char) (indexed : Bool) (items : List CPs) : P :=
      items.foldl (fun a v => mul a (g.look zero (if indexed then lbl name v.length else String.ofList [name]) v)) acc
    let c0 := f one 'K' true p.walks
    let c1 := f c0 'Y' false p.years
    let c2 := f c1 'X' false p.contexts
    let c3 := f c2 'A' true p.alphas
    let c4 := f c3 'C' true p.masks
    let c5 := f c4 'D' true p.digits
    let c6 := f c5 'O' true p.others
    let c7 := mul c6 (g.look zero "B" (cpsOfString p.structure'))
    ⟨if gt c7 limit || omenOk then 'p' else 'o', c7⟩

end Pcfg.Detect
