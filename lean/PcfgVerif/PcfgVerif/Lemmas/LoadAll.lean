import PcfgVerif.Lemmas.TrainedFolder
/-! `_load_terminals`: the sections of `config.ini` loaded one after the other into one grammar dict. -/
namespace Pcfg.Trainer
open Pcfg Pcfg.Detect Pcfg.LoadMulti

/-- one section: its letter, the counter dict it was written from, how a listed file is read, what each file should give -/
structure Sect (β : Type) where
  ch : Char
  d : LenCtr
  read : String → Option β
  val : Nat × MWTable → Option β

/-- the sections in source order, each through `_load_from_multiple_files`; `none` = some section returned `False` -/
def loadAll {β : Type} : List (Sect β) → List (String × β) → Option (List (String × β))
  | [], g => some g
  | s :: rest, g =>
    match loadMultiple s.read (String.ofList [s.ch]) (s.d.map fun e => toString e.1 ++ ".txt") g with
    | none => none
    | some g1 => loadAll rest g1

structure Sect.Good {β : Type} (s : Sect β) : Prop where
  nodup : (s.d.map (·.1)).Nodup
  reads : ∀ e ∈ s.d, s.read (toString e.1 ++ ".txt") = s.val e
  parses : ∀ e ∈ s.d, (s.val e).isSome

/-- **every section ends up under its own variables, whatever was loaded before or after it**: with pairwise different section letters
all sections load, and the variable `<letter><n>` of each section holds what that section's file of length n gives; names that
belong to no section keep what the grammar held before -/
theorem loadAll_spec {β : Type} (secs : List (Sect β)) (hdist : (secs.map (·.ch)).Nodup) (hgood : ∀ s ∈ secs, s.Good)
    (g0 : List (String × β)) :
    ∃ g', loadAll secs g0 = some g' ∧
      (∀ s ∈ secs, ∀ e ∈ s.d, lookup g' (lbl s.ch e.1) = s.val e) ∧
      (∀ k, (∀ s ∈ secs, ∀ n, lbl s.ch n ≠ k) → lookup g' k = lookup g0 k) := by
  induction secs generalizing g0 with
  | nil => exact ⟨g0, rfl, by intro s hs; simp at hs, fun _ _ => rfl⟩
  | cons s rest ih =>
    rw [List.map_cons, List.nodup_cons] at hdist
    have hs := hgood s (by simp)
    obtain ⟨g1, h1, hown, hother⟩ := multi_generic s.ch s.d hs.nodup s.read s.val hs.reads hs.parses g0
    obtain ⟨g', h2, hrest, huntouched⟩ := ih hdist.2 (fun x hx => hgood x (List.mem_cons_of_mem _ hx)) g1
    refine ⟨g', ?_, ?_, ?_⟩
    · unfold loadAll; rw [h1]; exact h2
    · intro t ht e he
      rcases List.mem_cons.mp ht with rfl | ht
      · rw [huntouched, hown e he]
        intro s' hs' n
        have hne : s'.ch ≠ t.ch := by
          intro e'
          exact hdist.1 (List.mem_map.mpr ⟨s', hs', e'⟩)
        exact lbl_ne_of_char s'.ch t.ch n e.1 hne
      · exact hrest t ht e he
    · intro k hk
      rw [huntouched k (fun s' hs' n => hk s' (List.mem_cons_of_mem _ hs') n),
        hother k (fun n => hk s (by simp) n)]

end Pcfg.Trainer
