import PcfgVerif.Lemmas.ScoreB4
import PcfgVerif.Properties.DetectCoreA
/-! Helper lemmas for C13 (the scorer's promise), part 7: a concrete instance (ASCII environment, the
password `Ab1`, natural-number "probabilities") for which all hypotheses of the promise hold. -/
namespace Pcfg.ScoreB.Ex
open Pcfg Pcfg.Detect Pcfg.ScoreB

/-- decidable equality of parse results, local to this file (used to evaluate `parse` once) -/
@[instance_reducible] def decParsed : DecidableEq Parsed := fun a b =>
  match a, b with
  | ⟨a1, a2, a3, a4, a5, a6, a7, a8, a9, a10, a11, a12⟩, ⟨b1, b2, b3, b4, b5, b6, b7, b8, b9, b10, b11, b12⟩ =>
    decidable_of_iff (a1 = b1 ∧ a2 = b2 ∧ a3 = b3 ∧ a4 = b4 ∧ a5 = b5 ∧ a6 = b6 ∧ a7 = b7 ∧ a8 = b8 ∧
      a9 = b9 ∧ a10 = b10 ∧ a11 = b11 ∧ a12 = b12) (by simp only [Parsed.mk.injEq])

attribute [local instance] decParsed

/-- `Ab1` -/
def pwEx : CPs := [65, 98, 49]

def upEx (c : Char) : List Char := [c.toUpper]

/-- the scorer's tables: `A2`: ab ↦ 2, `C2`: UL ↦ 3, `D1`: 1 ↦ 5, base structures: A2D1 ↦ 7 -/
def gEx : ScoreG Nat :=
  [("A2", [([97, 98], 2)]), ("C2", [([85, 76], 3)]), ("D1", [([49], 5)]), ("B", [(cpsOfString "A2D1", 7)])]

/-- the guesser's view of the same ruleset (the entry `B` is there only because `Agree.term` as stated
also quantifies over the scorer-side list name `B`) -/
def VEx : GView Nat where
  E := [("A2", [[['a', 'b']]]), ("C2", [[['U', 'L']]]), ("D1", [[['1']]]), ("B", [[['A', '2', 'D', '1']]])]
  colP := fun l => if l = "A2" then [2] else if l = "C2" then [3] else if l = "D1" then [5]
    else if l = "B" then [7] else []
  bases := [(["A2", "C2", "D1"], 7)]

theorem parse_ex : parse asciiU {} [] pwEx =
    { sections := [([65, 98], some "A2"), ([49], some "D1")], walks := [], emails := [], websites := [],
      years := [], contexts := [], alphas := [[97, 98]], masks := [[85, 76]], digits := [[49]],
      others := [], supported := true, structure' := "A2D1" } := by decide +kernel

theorem score_ex (gt : Nat → Nat → Bool) (limit : Nat) (omenOk : Bool) :
    (score (· * ·) gt 1 0 limit gEx (parse asciiU {} [] pwEx) omenOk).prob = 210 := by
  rw [parse_ex]
  rfl

theorem scalar_ex : ScalarCPs pwEx := by
  intro c hc
  simp only [pwEx, List.mem_cons, List.not_mem_nil, or_false] at hc
  rcases hc with rfl | rfl | rfl <;> decide

theorem caseInv_ex : CaseInvAll asciiU upEx pwEx := by
  intro a b i c d h1 h2
  have hc : c ∈ pwEx := mem_slice pwEx a b c (List.mem_of_getElem? h1)
  have hd : d = if 65 ≤ c ∧ c ≤ 90 then c + 32 else c := by
    simp only [asciiU, List.getElem?_map, h1, Option.map_some, Option.some.injEq] at h2
    exact h2.symm
  subst hd
  simp only [pwEx, List.mem_cons, List.not_mem_nil, or_false] at hc
  rcases hc with rfl | rfl | rfl <;> decide

theorem coherent_ex : Coherent asciiU pwEx (parse asciiU {} [] pwEx) := by
  rw [parse_ex]
  refine ⟨?_, ?_, ?_, ?_, ?_, ?_, ?_, ?_⟩
  · exact List.Perm.refl _
  · exact List.Perm.refl _
  · exact List.Perm.refl _
  · have : textsOf [([65, 98], some "A2"), ([49], some "D1")] 'D' = [[49]] := by decide
    show List.Perm [[49]] _
    rw [this]
  · exact List.Perm.refl _
  · refine ⟨[⟨[65, 98], [97, 98], [85, 76]⟩], rfl, rfl, ?_, ?_⟩
    · have : textsOf [([65, 98], some "A2"), ([49], some "D1")] 'A' = [[65, 98]] := by decide
      show List.Perm [[65, 98]] _
      rw [this]
    · intro r hr
      simp only [List.mem_cons, List.not_mem_nil, or_false] at hr
      subst hr
      exact ⟨by decide, rfl, 0, 3, 0, by decide, by decide⟩
  · intro s hs
    simp only [List.mem_cons, List.not_mem_nil, or_false] at hs
    rcases hs with rfl | rfl
    · exact ⟨"A2", rfl, Or.inr (Or.inr (Or.inr (Or.inl (by decide))))⟩
    · exact ⟨"D1", rfl, Or.inr (Or.inr (Or.inr (Or.inr (Or.inl (by decide)))))⟩
  · intro s hs h
    simp only [List.mem_cons, List.not_mem_nil, or_false] at hs
    rcases hs with rfl | rfl <;> exact absurd h (by decide)


theorem look_cons_eq {P} (zero : P) (name : String) (items : List (CPs × P)) (rest : ScoreG P) (v : CPs) :
    ScoreG.look ((name, items) :: rest) zero name v = ((items.find? (·.1 == v)).map (·.2)).getD zero := by
  simp [ScoreG.look]

theorem look_cons_ne {P} (zero : P) (n name : String) (items : List (CPs × P)) (rest : ScoreG P) (v : CPs)
    (h : n ≠ name) : ScoreG.look ((n, items) :: rest) zero name v = ScoreG.look rest zero name v := by
  simp [ScoreG.look, h]

theorem look_nil {P} (zero : P) (name : String) (v : CPs) : ScoreG.look ([] : ScoreG P) zero name v = zero := rfl

theorem single_find {P} (zero : P) (w v : CPs) (p : P) (h : w ≠ v) :
    ((([(w, p)] : List (CPs × P)).find? (·.1 == v)).map (·.2)).getD zero = zero := by
  simp [h]

theorem look_ex (name : String) (v : CPs) (h : gEx.look 0 name v ≠ 0) :
    (name = "A2" ∧ v = [97, 98]) ∨ (name = "C2" ∧ v = [85, 76]) ∨ (name = "D1" ∧ v = [49]) ∨
    (name = "B" ∧ v = cpsOfString "A2D1") := by
  unfold gEx at h
  by_cases h1 : "A2" = name
  · subst h1
    rw [look_cons_eq] at h
    by_cases hv : [97, 98] = v
    · exact Or.inl ⟨rfl, hv.symm⟩
    · rw [single_find 0 _ _ _ hv] at h; exact absurd rfl h
  rw [look_cons_ne _ _ _ _ _ _ h1] at h
  by_cases h2 : "C2" = name
  · subst h2
    rw [look_cons_eq] at h
    by_cases hv : [85, 76] = v
    · exact Or.inr (Or.inl ⟨rfl, hv.symm⟩)
    · rw [single_find 0 _ _ _ hv] at h; exact absurd rfl h
  rw [look_cons_ne _ _ _ _ _ _ h2] at h
  by_cases h3 : "D1" = name
  · subst h3
    rw [look_cons_eq] at h
    by_cases hv : [49] = v
    · exact Or.inr (Or.inr (Or.inl ⟨rfl, hv.symm⟩))
    · rw [single_find 0 _ _ _ hv] at h; exact absurd rfl h
  rw [look_cons_ne _ _ _ _ _ _ h3] at h
  by_cases h4 : "B" = name
  · subst h4
    rw [look_cons_eq] at h
    by_cases hv : cpsOfString "A2D1" = v
    · exact Or.inr (Or.inr (Or.inr ⟨rfl, hv.symm⟩))
    · rw [single_find 0 _ _ _ hv] at h; exact absurd rfl h
  rw [look_cons_ne _ _ _ _ _ _ h4, look_nil] at h
  exact absurd rfl h

theorem scName_eq (l s : String) (h : scName l = s) (hY : s ≠ "Y") (hX : s ≠ "X") : l = s := by
  unfold scName at h
  split at h
  · exact absurd h.symm hY
  · split at h
    · exact absurd h.symm hX
    · exact h

theorem term_ex (l : String) (v : CPs) (h : gEx.look 0 (scName l) v ≠ 0) :
    ∃ j vals, VEx.E.values l j = some vals ∧ toStr v ∈ vals ∧
      (VEx.colP l)[j]? = some (gEx.look 0 (scName l) v) := by
  rcases look_ex _ _ h with ⟨h1, h2⟩ | ⟨h1, h2⟩ | ⟨h1, h2⟩ | ⟨h1, h2⟩
  · have := scName_eq l _ h1 (by decide) (by decide)
    subst this; subst h2
    exact ⟨0, [['a', 'b']], by decide, by decide, by decide⟩
  · have := scName_eq l _ h1 (by decide) (by decide)
    subst this; subst h2
    exact ⟨0, [['U', 'L']], by decide, by decide, by decide⟩
  · have := scName_eq l _ h1 (by decide) (by decide)
    subst this; subst h2
    exact ⟨0, [['1']], by decide, by decide, by decide⟩
  · have := scName_eq l _ h1 (by decide) (by decide)
    subst this; subst h2
    exact ⟨0, [['A', '2', 'D', '1']], by decide, by decide, by decide⟩

/-! ### the guesser's grammar of the instance -/

theorem groups_cons_eq (name : String) (gs : List (List Str)) (rest : EGrammar) :
    EGrammar.groups ((name, gs) :: rest) name = some gs := by
  simp [EGrammar.groups]

theorem groups_cons_ne (n name : String) (gs : List (List Str)) (rest : EGrammar) (h : n ≠ name) :
    EGrammar.groups ((n, gs) :: rest) name = EGrammar.groups rest name := by
  simp [EGrammar.groups, h]

theorem single_get (vals w : List Str) (j : Nat) (h : [vals][j]? = some w) : w = vals := by
  cases j with
  | zero => simpa using h.symm
  | succ j => simp at h

theorem values_ex (name : String) (j : Nat) (vals : List Str) (h : VEx.E.values name j = some vals) :
    (name = "A2" ∧ vals = [['a', 'b']]) ∨ (name = "C2" ∧ vals = [['U', 'L']]) ∨
    (name = "D1" ∧ vals = [['1']]) ∨ (name = "B" ∧ vals = [['A', '2', 'D', '1']]) := by
  unfold EGrammar.values VEx at h
  simp only at h
  by_cases h1 : "A2" = name
  · subst h1
    rw [groups_cons_eq] at h
    exact Or.inl ⟨rfl, single_get _ _ j h⟩
  rw [groups_cons_ne _ _ _ _ h1] at h
  by_cases h2 : "C2" = name
  · subst h2
    rw [groups_cons_eq] at h
    exact Or.inr (Or.inl ⟨rfl, single_get _ _ j h⟩)
  rw [groups_cons_ne _ _ _ _ h2] at h
  by_cases h3 : "D1" = name
  · subst h3
    rw [groups_cons_eq] at h
    exact Or.inr (Or.inr (Or.inl ⟨rfl, single_get _ _ j h⟩))
  rw [groups_cons_ne _ _ _ _ h3] at h
  by_cases h4 : "B" = name
  · subst h4
    rw [groups_cons_eq] at h
    exact Or.inr (Or.inr (Or.inr ⟨rfl, single_get _ _ j h⟩))
  rw [groups_cons_ne _ _ _ _ h4] at h
  cases h

theorem toString_toList (n : Nat) : (toString n).toList = Nat.toDigits 10 n := by simp

theorem nat_of_digits (n : Nat) (ds : List Char) (h : (toString n).toList = ds) :
    n = Nat.ofDigitChars 10 ds 0 := by
  have := @Nat.ofDigitChars_ten_toDigits n
  rw [toString_toList] at h
  rw [h] at this
  exact this.symm

theorem masks_ex (n j : Nat) (vals : List Str) (h : VEx.E.values (lbl 'C' n) j = some vals) :
    ∀ m ∈ vals, m.length = n := by
  have hne : ∀ (s : String) (d : Char), s.toList.head? = some d → 'C' ≠ d → lbl 'C' n ≠ s :=
    fun s d hs hd => lbl_ne_of_head 'C' n s d hs hd
  rcases values_ex _ _ _ h with ⟨h1, _⟩ | ⟨h1, h2⟩ | ⟨h1, _⟩ | ⟨h1, _⟩
  · exact absurd h1 (hne "A2" 'A' (by decide) (by decide))
  · have ht := congrArg String.toList h1
    rw [lbl_toList] at ht
    have hd : (toString n).toList = ['2'] := by
      have : ("C2" : String).toList = ['C', '2'] := by decide
      rw [this] at ht
      exact (List.cons.inj ht).2
    have hn : n = 2 := by rw [nat_of_digits n _ hd]; decide
    subst hn h2
    intro m hm
    simp only [List.mem_cons, List.not_mem_nil, or_false] at hm
    subst hm
    rfl
  · exact absurd h1 (hne "D1" 'D' (by decide) (by decide))
  · exact absurd h1 (hne "B" 'B' (by decide) (by decide))

/-! ### labels are a letter followed by digits: the structure string splits in one way only -/

theorem labelOK_shape (text : CPs) (l : String) (h : LabelOK text l) :
    ∃ c ds, l.toList = c :: ds ∧ (∀ d ∈ ds, d.isDigit = true) ∧ ((c = 'A' ∨ c = 'D') → ds ≠ []) := by
  have hl : ∀ (c : Char) (n : Nat), ∃ c' ds, (lbl c n).toList = c' :: ds ∧ (∀ d ∈ ds, d.isDigit = true) ∧
      ((c' = 'A' ∨ c' = 'D') → ds ≠ []) := by
    intro c n
    refine ⟨c, Nat.toDigits 10 n, by rw [lbl_toList, toString_toList], ?_, fun _ => Nat.toDigits_ne_nil⟩
    intro d hd
    exact Nat.isDigit_of_mem_toDigits (by decide) (by decide) hd
  rcases h with h | h | h | h | h | h | h | h
  · rw [h]; exact hl _ _
  · rw [h]; exact ⟨'Y', ['1'], by decide, by decide, by decide⟩
  · rw [h]; exact ⟨'X', ['1'], by decide, by decide, by decide⟩
  · rw [h]; exact hl _ _
  · rw [h]; exact hl _ _
  · rw [h]; exact hl _ _
  · rw [h]; exact ⟨'E', [], by decide, by decide, by decide⟩
  · rw [h]; exact ⟨'W', [], by decide, by decide, by decide⟩

theorem labels_ex (labels : List String) (hlab : ∀ l ∈ labels, ∃ text, LabelOK text l)
    (h : labels.flatMap String.toList = ['A', '2', 'D', '1']) : labels = ["A2", "D1"] := by
  match labels, hlab, h with
  | [], _, h => cases h
  | l1 :: r1, hlab, h =>
    obtain ⟨t1, ht1⟩ := hlab l1 (by simp)
    obtain ⟨c1, ds1, hl1, hd1, hn1⟩ := labelOK_shape t1 l1 ht1
    rw [List.flatMap_cons, hl1, List.cons_append, List.cons.injEq] at h
    obtain ⟨hc1, h⟩ := h
    subst hc1
    match ds1, hd1, hn1 (Or.inl rfl), h, hl1 with
    | d :: ds1', hd1, _, h, hl1 =>
      rw [List.cons_append, List.cons.injEq] at h
      obtain ⟨hd, h⟩ := h
      subst hd
      match ds1', hd1, h, hl1 with
      | e :: _, hd1, h, _ =>
        rw [List.cons_append, List.cons.injEq] at h
        have := hd1 e (by simp)
        rw [h.1] at this
        exact absurd this (by decide)
      | [], _, h, hl1 =>
        rw [List.nil_append] at h
        have e1 : l1 = "A2" := String.toList_injective (by rw [hl1]; decide)
        subst e1
        match r1, hlab, h with
        | [], _, h => cases h
        | l2 :: r2, hlab, h =>
          obtain ⟨t2, ht2⟩ := hlab l2 (by simp)
          obtain ⟨c2, ds2, hl2, hd2, hn2⟩ := labelOK_shape t2 l2 ht2
          rw [List.flatMap_cons, hl2, List.cons_append, List.cons.injEq] at h
          obtain ⟨hc2, h⟩ := h
          subst hc2
          match ds2, hn2 (Or.inr rfl), h, hl2 with
          | d2 :: ds2', _, h, hl2 =>
            rw [List.cons_append, List.cons.injEq] at h
            obtain ⟨hd, h⟩ := h
            subst hd
            obtain ⟨h3, h4⟩ := List.append_eq_nil_iff.mp h
            subst h3
            have e2 : l2 = "D1" := String.toList_injective (by rw [hl2]; decide)
            subst e2
            match r2, hlab, h4 with
            | [], _, _ => rfl
            | l3 :: r3, hlab, h4 =>
              obtain ⟨t3, ht3⟩ := hlab l3 (by simp)
              obtain ⟨c3, ds3, hl3, _, _⟩ := labelOK_shape t3 l3 ht3
              rw [List.flatMap_cons, hl3] at h4
              cases h4

theorem cpsOfString_inj (a b : String) (h : cpsOfString a = cpsOfString b) : a.toList = b.toList := by
  have := congrArg (List.map Char.ofNat) h
  simpa [cpsOfString, List.map_map, Function.comp_def, Char.ofNat_toNat] using this

theorem base_ex (labels : List String) (hlab : ∀ l ∈ labels, ∃ text, LabelOK text l)
    (h : gEx.look 0 "B" (cpsOfString (String.join labels)) ≠ 0) :
    ∃ reps, (reps, gEx.look 0 "B" (cpsOfString (String.join labels))) ∈ VEx.bases ∧
      reps = labels.flatMap fun l =>
        match l.toList with
        | 'A' :: n => [l, String.ofList ('C' :: n)]
        | _ => [l] := by
  have hs : (String.join labels).toList = ['A', '2', 'D', '1'] := by
    rcases look_ex _ _ h with ⟨h1, _⟩ | ⟨h1, _⟩ | ⟨h1, _⟩ | ⟨_, h2⟩
    · exact absurd h1 (by decide)
    · exact absurd h1 (by decide)
    · exact absurd h1 (by decide)
    · rw [cpsOfString_inj _ _ h2]; decide
  rw [String.toList_join] at hs
  have := labels_ex labels hlab hs
  subst this
  exact ⟨["A2", "C2", "D1"], by decide, by decide⟩

theorem agree_ex : Agree 0 gEx VEx := ⟨fun l v _ h => term_ex l v h, base_ex, masks_ex⟩

end Pcfg.ScoreB.Ex
