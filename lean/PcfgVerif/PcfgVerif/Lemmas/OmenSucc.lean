import PcfgVerif.Lemmas.OmenNext
/-! `specNext` (hence `nextTree`) is the successor in `allTrees`. -/
namespace Omen

/-! ### list splitting -/

theorem append_split {α : Type} {A B pre suf : List α} {t : α} (h : A ++ B = pre ++ t :: suf) :
    (∃ s1, A = pre ++ t :: s1 ∧ suf = s1 ++ B) ∨ (∃ p2, pre = A ++ p2 ∧ B = p2 ++ t :: suf) := by
  rcases List.append_eq_append_iff.mp h with ⟨a', h1, h2⟩ | ⟨c', h1, h2⟩
  · exact Or.inr ⟨a', h1, h2⟩
  · cases c' with
    | nil => exact Or.inr ⟨[], by simpa using h1.symm, by simpa using h2.symm⟩
    | cons x c'' =>
      simp at h2
      obtain ⟨rfl, rfl⟩ := h2
      exact Or.inl ⟨c'', h1, rfl⟩

theorem map_split {α β : Type} {g : α → β} {X : List α} {pre suf : List β} {t : β}
    (h : X.map g = pre ++ t :: suf) :
    ∃ p t' s, X = p ++ t' :: s ∧ g t' = t ∧ s.map g = suf ∧ p.map g = pre := by
  obtain ⟨l1, l2, rfl, h1, h2⟩ := List.map_eq_append_iff.mp h
  obtain ⟨a, l3, rfl, h3, h4⟩ := List.map_eq_cons_iff.mp h2
  exact ⟨l1, a, l3, rfl, h3, h4, h1⟩

theorem getElem?_split {α : Type} {L pre suf : List α} {t : α} (h : L = pre ++ t :: suf) :
    L[pre.length]? = some t ∧ L[pre.length + 1]? = suf.head? := by
  subst h
  constructor
  · simp
  · rw [List.getElem?_append_right (by omega)]
    cases suf <;> simp

/-! ### descending ranges, exclusive bound -/

def below {β : Type} (f : Nat → List β) (n : Nat) : List β := (List.range n).reverse.flatMap f

theorem downFlat_eq_below {β : Type} (f : Nat → List β) (n : Nat) : downFlat f n = below f (n + 1) := rfl

@[simp] theorem below_zero {β : Type} (f : Nat → List β) : below f 0 = [] := rfl

theorem below_succ {β : Type} (f : Nat → List β) (n : Nat) : below f (n + 1) = f n ++ below f n := by
  simp [below, List.range_succ]

theorem mem_below {β : Type} {f : Nat → List β} {n : Nat} {x : β} :
    x ∈ below f n ↔ ∃ l, l < n ∧ x ∈ f l := by
  simp [below]

theorem below_nil {β : Type} (f : Nat → List β) (n : Nat) (h : ∀ k, k < n → f k = []) :
    below f n = [] := by
  cases n with
  | zero => rfl
  | succ n => exact downFlat_nil f n (fun k hk => h k (by omega))

theorem below_skip {β : Type} (f : Nat → List β) (l n : Nat) (hl : l < n)
    (h : ∀ k, l < k → k < n → f k = []) : below f n = below f (l + 1) := by
  cases n with
  | zero => omega
  | succ n => exact downFlat_skip f l n (by omega) (fun k h1 h2 => h k h1 (by omega))

theorem below_split {β : Type} (f : Nat → List β) :
    ∀ n (pre suf : List β) (t : β), below f n = pre ++ t :: suf →
      ∃ l, l < n ∧ ∃ p s1, f l = p ++ t :: s1 ∧ suf = s1 ++ below f l := by
  intro n
  induction n with
  | zero => intro pre suf t h; simp at h
  | succ n ih =>
    intro pre suf t h
    rw [below_succ] at h
    rcases append_split h with ⟨s1, h1, h2⟩ | ⟨p2, _, h2⟩
    · exact ⟨n, Nat.lt_succ_self _, pre, s1, h1, h2⟩
    · obtain ⟨l, hl, p, s1, h3, h4⟩ := ih p2 suf t h2
      exact ⟨l, by omega, p, s1, h3, h4⟩

/-! ### structure of `allTrees` -/

theorem allTrees_succ_succ' (m : Model) (len : Nat) (ip : Str) (target : Nat) :
    m.allTrees (len + 2) ip target =
      match m.cpOf ip with
      | none => []
      | some e => below (m.lvlBlock (len + 1) ip target e) (min target m.maxLevel + 1) :=
  allTrees_succ_succ m len ip target

theorem idxBlock_split (m : Model) (len : Nat) (ip : Str) (rem l : Nat) :
    ∀ (cs : List Char) (i : Nat) (pre suf : List (List Item)) (t : List Item),
      m.idxBlock len ip rem l i cs = pre ++ t :: suf →
      ∃ cs1 c cs2 p t' s, cs = cs1 ++ c :: cs2 ∧
        m.allTrees len (nextIp ip c) rem = p ++ t' :: s ∧
        t = ⟨ip, l, i + cs1.length⟩ :: t' ∧
        suf = s.map (⟨ip, l, i + cs1.length⟩ :: ·) ++ m.idxBlock len ip rem l (i + cs1.length + 1) cs2 := by
  intro cs
  induction cs with
  | nil => intro i pre suf t h; simp [idxBlock_nil] at h
  | cons c cs ih =>
    intro i pre suf t h
    rw [idxBlock_cons] at h
    rcases append_split h with ⟨s1, h1, h2⟩ | ⟨p2, _, h2⟩
    · obtain ⟨p, t', s, h3, h4, h5, _⟩ := map_split h1
      exact ⟨[], c, cs, p, t', s, rfl, h3, by simpa using h4.symm, by simp [h2, h5]⟩
    · obtain ⟨cs1, c', cs2, p, t', s, h3, h4, h5, h6⟩ := ih (i + 1) p2 suf t h2
      refine ⟨c :: cs1, c', cs2, p, t', s, by simp [h3], h4, ?_, ?_⟩
      · rw [h5]; simp; omega
      · rw [h6]; simp only [List.length_cons]
        rw [show i + 1 + cs1.length = i + (cs1.length + 1) by omega]

theorem mem_idxBlock {m : Model} {len : Nat} {ip : Str} {rem l : Nat} {tr : List Item} :
    ∀ {cs : List Char} {i : Nat}, tr ∈ m.idxBlock len ip rem l i cs →
      ∃ c j t', c ∈ cs ∧ t' ∈ m.allTrees len (nextIp ip c) rem ∧ tr = ⟨ip, l, j⟩ :: t' := by
  intro cs
  induction cs with
  | nil => intro i h; simp [idxBlock_nil] at h
  | cons c cs ih =>
    intro i h
    rw [idxBlock_cons, List.mem_append] at h
    rcases h with h | h
    · obtain ⟨t', h1, h2⟩ := List.mem_map.mp h
      exact ⟨c, i, t', by simp, h1, h2.symm⟩
    · obtain ⟨c', j, t', h1, h2, h3⟩ := ih h
      exact ⟨c', j, t', by simp [h1], h2, h3⟩

/-- shape of the members of `allTrees` -/
theorem allTrees_props (m : Model) :
    ∀ (len : Nat) (ip : Str) (target : Nat) (tr : List Item), tr ∈ m.allTrees len ip target →
      tr.length = len ∧ lsum tr = target ∧ ∃ it rest, tr = it :: rest ∧ it.ip = ip := by
  intro len
  induction len using Nat.strongRecOn with
  | _ len ih =>
    intro ip target tr h
    match len with
    | 0 => simp [Model.allTrees] at h
    | 1 =>
      rw [Model.allTrees] at h
      by_cases hM : target ≤ m.maxLevel
      · simp only [hM, if_true] at h
        cases hc : (m.cpOf ip).bind (lvlChars · target) with
        | none => simp [hc] at h
        | some cs =>
          simp only [hc, List.mem_map] at h
          obtain ⟨i, _, rfl⟩ := h
          exact ⟨rfl, by simp, _, _, rfl, rfl⟩
      · simp [hM] at h
    | len + 2 =>
      rw [allTrees_succ_succ'] at h
      cases he : m.cpOf ip with
      | none => simp [he] at h
      | some e =>
        simp only [he] at h
        obtain ⟨l, hl, h⟩ := mem_below.mp h
        unfold Model.lvlBlock at h
        cases hcs : lvlChars e l with
        | none => simp [hcs] at h
        | some cs =>
          simp only [hcs] at h
          obtain ⟨c, j, t', _, h2, rfl⟩ := mem_idxBlock h
          obtain ⟨h3, h4, _⟩ := ih (len + 1) (by omega) _ _ _ h2
          refine ⟨by simp [h3], ?_, _, _, rfl, rfl⟩
          simp [h4]; omega

theorem allTrees_length (m : Model) (len : Nat) (ip : Str) (target : Nat) (tr : List Item)
    (h : tr ∈ m.allTrees len ip target) : tr.length = len ∧ 0 < len := by
  obtain ⟨h1, _, it, rest, h3, _⟩ := allTrees_props m len ip target tr h
  subst h3
  exact ⟨h1, by rw [← h1]; simp⟩

/-! ### `tryIdxs` / `descend` find the head of the remaining choices -/

theorem chars_eq {m : Model} {ip : Str} {e l cs} (he : m.cpOf ip = some e) (hcs : lvlChars e l = some cs) :
    m.chars ip l = cs := by
  simp [Model.chars, he, hcs]

theorem tryIdxs_eq (m : Model) (hne : m.NE) (lastIp elemIp : Str)
    (hd : elemIp.dropLast = lastIp.drop 1) (reqLen tgt l : Nat) :
    ∀ cs i, (m.tryIdxs elemIp reqLen tgt i cs).map (fun r => (⟨lastIp, l, r.1⟩ : Item) :: r.2) =
      (m.idxBlock reqLen lastIp tgt l i cs).head? := by
  intro cs
  induction cs with
  | nil => intro i; rfl
  | cons c cs ih =>
    intro i
    rw [idxBlock_cons, List.head?_append, Model.tryIdxs, hd, fill_head m hne]
    change (match (m.allTrees reqLen (nextIp lastIp c) tgt).head? with
      | some t => some (i, t)
      | none => m.tryIdxs elemIp reqLen tgt (i + 1) cs).map _ = _
    cases h : (m.allTrees reqLen (nextIp lastIp c) tgt).head? with
    | none => simp [h, ih]
    | some t => simp [h]

theorem descend_eq (m : Model) (hne : m.NE) (lastIp elemIp : Str)
    (hd : elemIp.dropLast = lastIp.drop 1) (reqLen reqLevel : Nat) (e : List (Nat × List Char))
    (he : m.cpOf lastIp = some e) :
    ∀ fuel dl i, dl < fuel → dl ≤ m.maxLevel →
      (m.descend lastIp elemIp reqLen reqLevel fuel dl i).map
          (fun r => (⟨lastIp, r.1, r.2.1⟩ : Item) :: r.2.2) =
        (m.idxBlock reqLen lastIp (reqLevel - dl) dl i ((m.chars lastIp dl).drop i) ++
          below (m.lvlBlock reqLen lastIp reqLevel e) dl).head? := by
  intro fuel
  induction fuel with
  | zero => intro dl i h; omega
  | succ fuel ih =>
    intro dl i hf hM
    rw [Model.descend, List.head?_append]
    have htry := tryIdxs_eq m hne lastIp elemIp hd reqLen (reqLevel - dl) dl ((m.chars lastIp dl).drop i) i
    cases ht : m.tryIdxs elemIp reqLen (reqLevel - dl) i ((m.chars lastIp dl).drop i) with
    | some r =>
      obtain ⟨i', t⟩ := r
      rw [ht] at htry
      rw [← htry]
      rfl
    | none =>
      rw [ht] at htry
      rw [← htry]
      simp only [Option.map_none, Option.none_or]
      by_cases h0 : dl = 0
      · subst h0; rfl
      · simp only [h0, if_false]
        cases hfc : m.findCp lastIp (dl - 1) 0 with
        | none =>
          have := findCp_none he hfc
          rw [below_nil]
          · rfl
          · intro k hk
            simp [Model.lvlBlock, this k (Nat.zero_le _) (by omega)]
        | some r =>
          obtain ⟨cs', dl'⟩ := r
          obtain ⟨e', he', _, hl, hcs, habove⟩ := findCp_some hfc
          rw [he] at he'; injection he' with he'; subst he'
          simp only []
          rw [ih dl' 0 (by omega) (by omega),
            below_skip _ dl' dl (by omega) (fun k h1 h2 => by
              simp [Model.lvlBlock, habove k h1 (by omega)]),
            below_succ, chars_eq he hcs]
          simp [Model.lvlBlock, hcs]

/-! ### main theorem -/

theorem specNext_split (m : Model) (hne : m.NE) :
    ∀ (len : Nat) (ip : Str) (target : Nat) (pre suf : List (List Item)) (t : List Item),
      m.allTrees len ip target = pre ++ t :: suf → m.specNext t = suf.head? := by
  intro len
  induction len using Nat.strongRecOn with
  | _ len ih =>
    intro ip target pre suf t h
    match len with
    | 0 => simp [Model.allTrees] at h
    | 1 =>
      rw [Model.allTrees] at h
      by_cases hM : target ≤ m.maxLevel
      · simp only [hM, if_true] at h
        cases he : m.cpOf ip with
        | none => simp [he] at h
        | some e =>
          cases hcs : lvlChars e target with
          | none => simp [he, hcs] at h
          | some cs =>
            simp only [he, hcs, Option.bind_some] at h
            obtain ⟨h1, h2⟩ := getElem?_split h
            rw [← h2]
            simp only [List.getElem?_map] at h1 h2 ⊢
            by_cases hp : pre.length < cs.length
            · rw [List.getElem?_range hp] at h1
              simp at h1
              subst h1
              rw [Model.specNext]
              simp only [chars_eq he hcs]
              by_cases hp' : pre.length + 1 < cs.length
              · simp [hp']
              · simp [hp']
            · have : (List.range cs.length)[pre.length]? = none := by simp; omega
              rw [this] at h1
              simp at h1
      · simp [hM] at h
    | len + 2 =>
      rw [allTrees_succ_succ'] at h
      cases he : m.cpOf ip with
      | none => simp [he] at h
      | some e =>
        simp only [he] at h
        obtain ⟨l, hl, p, s1, h1, h2⟩ := below_split _ _ _ _ _ h
        unfold Model.lvlBlock at h1
        cases hcs : lvlChars e l with
        | none => simp [hcs] at h1
        | some cs =>
          simp only [hcs] at h1
          obtain ⟨cs1, c, cs2, p', t', s, h3, h4, h5, h6⟩ := idxBlock_split _ _ _ _ _ _ _ _ _ _ h1
          have hIH := ih (len + 1) (by omega) _ _ _ _ _ h4
          have hmem : t' ∈ m.allTrees (len + 1) (nextIp ip c) (target - l) := by
            rw [h4]; simp
          obtain ⟨hlen, hsum, it, rest, hshape, hip⟩ := allTrees_props m _ _ _ _ hmem
          subst hshape
          subst h5
          rw [Model.specNext, hIH, h2, h6]
          cases s with
          | cons x s' => simp
          | nil =>
            simp only [List.head?_nil, List.map_nil, List.nil_append]
            have hdl : it.ip.dropLast = ip.drop 1 := by
              rw [hip, nextIp, List.dropLast_concat]
            have hreq : lsum (it :: rest) + l = target := by omega
            have hrl : rest.length + 1 = len + 1 := by simpa using hlen
            have hdesc := descend_eq m hne ip it.ip hdl (len + 1) target e he (l + 1) l
              (0 + cs1.length + 1) (by omega) (by omega)
            rw [chars_eq he hcs, h3] at hdesc
            rw [hreq, hrl]
            simp only [Nat.zero_add] at hdesc ⊢
            have hdrop : List.drop (cs1.length + 1) (cs1 ++ c :: cs2) = cs2 := by
              simp
            rw [hdrop] at hdesc
            rw [← hdesc]
            cases m.descend ip it.ip (len + 1) target (l + 1) l (cs1.length + 1) with
            | none => rfl
            | some r => obtain ⟨a, b, c⟩ := r; rfl

/-- `nextTree` computes the successor in the specification list (split form) -/
theorem nextTree_split' (m : Model) (hne : m.NE)
    (len : Nat) (ip : Str) (target : Nat) (pre suf : List (List Item)) (t : List Item)
    (h : m.allTrees len ip target = pre ++ t :: suf) : m.nextTree t = suf.head? := by
  rw [nextTree_eq_specNext]
  exact specNext_split m hne len ip target pre suf t h

/-- index form -/
theorem nextTree_index (m : Model) (hne : m.NE)
    (len : Nat) (ip : Str) (target : Nat) (i : Nat) (t : List Item)
    (ht : (m.allTrees len ip target)[i]? = some t) :
    m.nextTree t = (m.allTrees len ip target)[i + 1]? := by
  obtain ⟨hi, hti⟩ := List.getElem?_eq_some_iff.mp ht
  have hsplit : m.allTrees len ip target =
      (m.allTrees len ip target).take i ++ t :: (m.allTrees len ip target).drop (i + 1) := by
    rw [← hti]
    simp
  rw [nextTree_split' m hne len ip target _ _ t hsplit]
  simp [List.head?_drop]

/-- iterating from any point of the list enumerates the rest -/
theorem enumFrom_suffix (m : Model) (hne : m.NE) (len : Nat) (ip : Str) (target : Nat) :
    ∀ (suf pre : List (List Item)) (fuel : Nat), m.allTrees len ip target = pre ++ suf →
      suf.length < fuel → m.enumFrom fuel suf.head? = suf := by
  intro suf
  induction suf with
  | nil =>
    intro pre fuel _ hf
    cases fuel <;> rfl
  | cons t suf ih =>
    intro pre fuel h hf
    cases fuel with
    | zero => simp at hf
    | succ fuel =>
      simp only [List.head?_cons, Model.enumFrom]
      rw [nextTree_split' m hne len ip target pre suf t h,
        ih (pre ++ [t]) fuel (by simpa using h) (by simpa using hf)]

theorem enumFrom_fill (m : Model) (hne : m.NE) (len : Nat) (ip : Str) (target : Nat) (fuel : Nat)
    (hf : (m.allTrees len ip target).length < fuel) :
    m.enumFrom fuel (m.fill len ip target) = m.allTrees len ip target := by
  rw [fill_head m hne]
  exact enumFrom_suffix m hne len ip target _ [] fuel rfl hf

end Omen
