import PcfgVerif.Model.DetectSpec
/-! Lemmas for the keyboard-walk detector, part 1: tiling and the list of walks. -/
namespace Pcfg.Detect

theorem minKeyboardRun_eq : Generated.Tables.minKeyboardRun = 4 := rfl
theorem one_le_minKeyboardRun : 1 ≤ Generated.Tables.minKeyboardRun := by decide

theorem lblK_ne_W (n : Nat) : lbl 'K' n ≠ "W" := by
  intro h
  have := congrArg String.toList h
  simp [lbl] at this

theorem slice_prepend (a pw : CPs) (off n : Nat) :
    slice (a ++ pw) (a.length + off) (a.length + off + n) = slice pw off (off + n) := by
  simp [slice]

theorem pieceOK_prepend (U : UEnv) (a pw : CPs) (off : Nat) (s : Sec) (hW : s.2 ≠ some "W")
    (h : pieceOK U pw off s) : pieceOK U (a ++ pw) (a.length + off) s := by
  obtain ⟨h1, h2, h3, _⟩ := h
  refine ⟨h1, by simp; omega, fun _ => ?_, fun h => absurd h hW⟩
  rw [slice_prepend]; exact h3 hW

theorem tilesFrom_prepend (U : UEnv) (a pw : CPs) :
    ∀ (secs : List Sec) (off : Nat), (∀ s ∈ secs, s.2 ≠ some "W") → TilesFrom U pw off secs →
      TilesFrom U (a ++ pw) (a.length + off) secs := by
  intro secs
  induction secs with
  | nil => intro off _ h; simp [TilesFrom] at *; omega
  | cons s rest ih =>
    intro off hW h
    obtain ⟨h1, h2⟩ := h
    refine ⟨pieceOK_prepend U a pw off s (hW s (by simp)) h1, ?_⟩
    have := ih (off + s.1.length) (fun t ht => hW t (by simp [ht])) h2
    rw [Nat.add_assoc]; exact this

/-- one more (non-website) section in front -/
theorem tilesFrom_cons (U : UEnv) (s : Sec) (pw : CPs) (rs : List Sec) (hne : s.1 ≠ [])
    (hs : s.2 ≠ some "W") (hW : ∀ t ∈ rs, t.2 ≠ some "W") (h : TilesFrom U pw 0 rs) :
    TilesFrom U (s.1 ++ pw) 0 (s :: rs) := by
  refine ⟨⟨hne, by simp, fun _ => ?_, fun h => absurd h hs⟩, ?_⟩
  · simp [slice]
  · have := tilesFrom_prepend U s.1 pw rs 0 hW h
    simpa using this

theorem tilesFrom_single (U : UEnv) (pw : CPs) (hne : pw ≠ []) : TilesFrom U pw 0 [(pw, none)] := by
  have := tilesFrom_cons U (pw, none) [] [] hne (by simp) (by simp) (by simp [TilesFrom])
  simpa using this

/-- the shape of everything `kwScan` returns -/
def KWOut (U : UEnv) (P : CPs) (r : List Sec × List CPs) : Prop :=
  TilesFrom U P 0 r.1 ∧ (∀ s ∈ r.1, s.2 = none ∨ s.2 = some (lbl 'K' s.1.length)) ∧
    r.2 = (r.1.filter (fun s => s.2.isSome)).map (·.1)

theorem KWOut.noW {U : UEnv} {P : CPs} {r : List Sec × List CPs} (h : KWOut U P r) :
    ∀ t ∈ r.1, t.2 ≠ some "W" := by
  intro t ht
  rcases h.2.1 t ht with h' | h'
  · simp [h']
  · rw [h']; intro h''; exact lblK_ne_W _ (Option.some.inj h'')

theorem KWOut_single (U : UEnv) (P : CPs) (hne : P ≠ []) : KWOut U P ([(P, none)], []) :=
  ⟨tilesFrom_single U P hne, by simp, by simp⟩

/-- emission of a walk `combo` after the prefix `pre`, followed by what is found in `rest` -/
theorem KWOut_emit (U : UEnv) (pre combo rest : CPs) (r : List Sec × List CPs) (hc : combo ≠ [])
    (hr : KWOut U rest r ∨ (rest = [] ∧ r = ([], []))) :
    KWOut U (pre ++ combo ++ rest)
      ((if pre ≠ [] then [(pre, none)] else []) ++ [(combo, some (lbl 'K' combo.length))] ++ r.1,
        combo :: r.2) := by
  have hr' : TilesFrom U rest 0 r.1 ∧ (∀ s ∈ r.1, s.2 = none ∨ s.2 = some (lbl 'K' s.1.length)) ∧
      r.2 = (r.1.filter (fun s => s.2.isSome)).map (·.1) ∧ ∀ t ∈ r.1, t.2 ≠ some "W" := by
    rcases hr with hr | ⟨h1, h2⟩
    · exact ⟨hr.1, hr.2.1, hr.2.2, hr.noW⟩
    · subst h1 h2; simp [TilesFrom]
  obtain ⟨t1, t2, t3, t4⟩ := hr'
  have hK : TilesFrom U (combo ++ rest) 0 ((combo, some (lbl 'K' combo.length)) :: r.1) :=
    tilesFrom_cons U (combo, some (lbl 'K' combo.length)) rest r.1 hc
      (fun h => lblK_ne_W _ (Option.some.inj h)) t4 t1
  by_cases hp : pre = []
  · subst hp
    refine ⟨by simpa using hK, ?_, ?_⟩
    · intro s hs; simp at hs; rcases hs with rfl | hs
      · simp
      · exact t2 s hs
    · simp [t3]
  · refine ⟨?_, ?_, ?_⟩
    · have := tilesFrom_cons U (pre, none) (combo ++ rest) _ hp (by simp) ?_ hK
      · simpa [hp] using this
      · intro t ht; simp at ht; rcases ht with rfl | ht
        · exact fun h => lblK_ne_W _ (Option.some.inj h)
        · exact t4 t ht
    · intro s hs; simp [hp] at hs; rcases hs with rfl | rfl | hs
      · simp
      · simp
      · exact t2 s hs
    · simp [hp, t3]


theorem kwScan_out (U : UEnv) (m : Nat) (hm : 1 ≤ m) :
    ∀ (fuel : Nat) (P rest : CPs) (index : Nat) (st : KWState) (pre : CPs), P ≠ [] →
      P = pre ++ st.combo ++ rest → index = pre.length + st.combo.length →
      KWOut U P (kwScan U m fuel P rest index st) := by
  intro fuel
  induction fuel with
  | zero => intro P rest index st pre hP _ _; exact KWOut_single U P hP
  | succ fuel ih =>
    intro P rest index st pre hP hsplit hidx
    unfold kwScan
    cases rest with
    | nil =>
      simp only []
      split
      · rename_i hc
        simp only [Bool.and_eq_true, decide_eq_true_eq] at hc
        have hcne : st.combo ≠ [] := by
          intro h; rw [h] at hc; simp at hc; omega
        have := KWOut_emit U pre st.combo [] ([], []) hcne (Or.inr ⟨rfl, rfl⟩)
        have hlen : P.length = pre.length + st.combo.length := by rw [hsplit]; simp
        have htake : P.take (P.length - st.combo.length) = pre := by
          rw [hlen, hsplit]; simp
        rw [htake]
        rw [← hsplit] at this
        have hiff : (st.combo.length != P.length) = decide (pre ≠ []) := by
          rw [hlen]; cases pre <;> simp
        rw [hiff]
        simpa using this
      · exact KWOut_single U P hP
    | cons value more =>
      simp only []
      generalize (if st.runs.isEmpty = true then nextOn st.past (findKey value)
        else List.filter (nextOn st.past (findKey value)).contains st.runs) = runs
      split
      · exact ih P more (index + 1) ⟨_, st.combo ++ [value], _⟩ pre hP (by simp [hsplit])
          (by simp [hidx]; omega)
      · split
        · rename_i hc
          simp only [Bool.and_eq_true, decide_eq_true_eq] at hc
          have hcne : st.combo ≠ [] := by
            intro h; rw [h] at hc; simp at hc; omega
          have hdrop : P.drop index = value :: more := by
            rw [hsplit, hidx]; simp
          have htake : P.take (index - st.combo.length) = pre := by
            rw [hsplit, hidx]; simp
          have hrec := ih (value :: more) (value :: more) 0 {} [] (by simp) (by simp) (by simp)
          have := KWOut_emit U pre st.combo (value :: more) _ hcne (Or.inl hrec)
          rw [← hsplit] at this
          have hiff : (st.combo.length != index) = decide (pre ≠ []) := by
            rw [hidx]; cases pre <;> simp
          rw [hdrop, htake, hiff]
          simpa using this
        · exact ih P more (index + 1) ⟨_, [value], _⟩ (pre ++ st.combo) hP (by simp [hsplit])
            (by simp [hidx])

end Pcfg.Detect
