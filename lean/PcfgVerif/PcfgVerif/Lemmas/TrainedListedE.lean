import PcfgVerif.Lemmas.TrainedListedD
/-! `AllListed` for every password of the training list. -/
namespace Pcfg.Trainer
open Pcfg Pcfg.Detect

theorem skip_len (ch ch' : Char) (h : ch ≠ ch') (d : LenCtr) (g : ScoreG Rat) (n : Nat) (v : CPs) :
    ScoreG.look (lenLists ch d ++ g) 0 (lbl ch' n) v = ScoreG.look g 0 (lbl ch' n) v :=
  look_append_skip _ _ _ _ _ (find_lenLists_none ch d _ (fun m => lbl_ne_of_char ch ch' m n h))

theorem skip_single (ch : Char) (d : LenCtr) (g : ScoreG Rat) (s : String) (hs : s.toList.length = 1) (v : CPs) :
    ScoreG.look (lenLists ch d ++ g) 0 s v = ScoreG.look g 0 s v :=
  look_append_skip _ _ _ _ _ (find_lenLists_none ch d _ (fun m => lbl_ne_single ch m s hs))

theorem look_tail (cov : Rat) (n : Nat) (c : Counters) (s : String) (hs : s.toList.length = 1) (v : CPs) :
    ScoreG.look (scoreGOf cov n c) 0 s v =
      ScoreG.look [("Y", listOf c.years), ("X", listOf c.context), ("B", baseList cov n c.base)] 0 s v := by
  unfold scoreGOf
  rw [skip_single _ _ _ _ hs, skip_single _ _ _ _ hs, skip_single _ _ _ _ hs, skip_single _ _ _ _ hs,
    skip_single _ _ _ _ hs]

/-- the base-structure list: a counted structure is found with a non-zero probability -/
theorem baseList_ne_zero (cov : Rat) (h0 : 0 < cov) (h1 : cov ≤ 1) (n : Nat) (hn : 0 < n) (b : SCtr) (hb : SPos b)
    (s : String) (k : Nat) (hs : (s, k) ∈ b) :
    (((baseList cov n b).find? (·.1 == cpsOfString s)).map (·.2)).getD 0 ≠ 0 := by
  unfold baseList
  generalize hI : withMarkov ratOps (· - ·) 1 (· == 1) (· == 0) "M" cov (n : Rat) (toQ b) = items
  have hpos : ∀ p ∈ items, (0 : Rat) < p.2 := by
    rw [← hI]; unfold withMarkov
    by_cases hc1 : cov = 1
    · simp only [hc1, beq_self_eq_true, if_true]
      exact toQ_pos b hb
    · have e1 : (cov == 1) = false := beq_eq_false_iff_ne.mpr hc1
      have e0 : (cov == 0) = false := beq_eq_false_iff_ne.mpr (by grind)
      simp only [e1, e0, Bool.false_eq_true, if_false]
      intro p hp
      rcases List.mem_append.mp hp with hp | hp
      · exact toQ_pos b hb p hp
      · simp only [List.mem_singleton] at hp; subst hp
        exact rat_markov_pos _ _ (rat_cast_pos n hn) h0 (by grind)
  have hin : (s, (k : Rat)) ∈ items := by
    have hq : (s, (k : Rat)) ∈ toQ b := List.mem_map.mpr ⟨(s, k), hs, rfl⟩
    rw [← hI]; unfold withMarkov
    by_cases hc1 : cov = 1
    · simp only [hc1, beq_self_eq_true, if_true]; exact hq
    · have e1 : (cov == 1) = false := beq_eq_false_iff_ne.mpr hc1
      have e0 : (cov == 0) = false := beq_eq_false_iff_ne.mpr (by grind)
      simp only [e1, e0, Bool.false_eq_true, if_false]
      exact List.mem_append.mpr (Or.inl hq)
  have hfound : (cpsOfString s, ratOps.div (k : Rat) (totalCount ratOps items)) ∈
      (calcProbs ratOps items).map (fun p => (cpsOfString p.1, p.2)) :=
    List.mem_map.mpr ⟨(s, _), (calcProbs_mem ratOps items s _).mpr ⟨_, hin, rfl⟩, rfl⟩
  cases hf : ((calcProbs ratOps items).map (fun p => (cpsOfString p.1, p.2))).find? (·.1 == cpsOfString s) with
  | none =>
    have := List.find?_eq_none.mp hf _ hfound
    simp at this
  | some q =>
    obtain ⟨r, hr, hrq⟩ := List.mem_map.mp (List.mem_of_find?_eq_some hf)
    obtain ⟨c', hc', hq⟩ := (calcProbs_mem ratOps items r.1 r.2).mp hr
    simp only [Option.map_some, Option.getD_some]
    rw [← hrq]
    show r.2 ≠ 0
    rw [hq, totalCount_rat]
    have hc0 := hpos _ hc'
    have ht : 0 < (items.map (·.2)).sum := by
      refine rat_sum_pos _ ?_ ?_
      · intro x hx
        obtain ⟨p, hp, rfl⟩ := List.mem_map.mp hx
        exact hpos p hp
      · intro h
        have := List.map_eq_nil_iff.mp h
        rw [this] at hin; simp at hin
    have := rat_div_pos _ _ hc0 ht
    show c' / _ ≠ 0
    grind

/-- **every password of the training list is listed**: with the counters of the whole list (`train`), written out by
`calculate_probabilities` with coverage in (0, 1], each segment of the password's parse and — when the parse is supported —
its base structure are found by the scorer with a non-zero probability -/
theorem trained_all_listed (U : UEnv) (cfg : MWCfg) (pws : List CPs) (pw : CPs) (hmem : pw ∈ pws)
    (cov : Rat) (h0 : 0 < cov) (h1 : cov ≤ 1)
    (hs : (parse U cfg (pass1 U cfg pws) pw).supported = true) :
    AllListed 0 (scoreGOf cov pws.length (train U cfg pws)) (parse U cfg (pass1 U cfg pws) pw) := by
  have hn : 0 < pws.length := List.length_pos_of_mem hmem
  have hit := train_hit U cfg pws pw hmem
  have good := train_good U cfg pws
  refine ⟨?_, ?_, ?_, ?_, ?_, ?_, ?_, ?_⟩
  · intro v hv
    unfold scoreGOf
    exact look_lenLists_hit 'K' _ _ (train_lpos U cfg (·.keyboard) (·.walks) (fun _ _ => rfl) rfl pws) _ v
      (train_len_hit U cfg (·.keyboard) (·.walks) (fun _ _ => rfl) rfl pws pw hmem v hv)
  · intro v hv
    rw [look_tail _ _ _ "Y" (by decide)]
    exact listOf_ne_zero _ good.1 v (hit.1 v hv)
  · intro v hv
    rw [look_tail _ _ _ "X" (by decide)]
    exact listOf_ne_zero _ good.2.1 v (hit.2.1 v hv)
  · intro v hv
    unfold scoreGOf
    rw [skip_len 'K' 'A' (by decide)]
    exact look_lenLists_hit 'A' _ _ (train_lpos U cfg (·.alpha) (·.alphas) (fun _ _ => rfl) rfl pws) _ v
      (train_len_hit U cfg (·.alpha) (·.alphas) (fun _ _ => rfl) rfl pws pw hmem v hv)
  · intro v hv
    unfold scoreGOf
    rw [skip_len 'K' 'C' (by decide), skip_len 'A' 'C' (by decide)]
    exact look_lenLists_hit 'C' _ _ (train_lpos U cfg (·.masks) (·.masks) (fun _ _ => rfl) rfl pws) _ v
      (train_len_hit U cfg (·.masks) (·.masks) (fun _ _ => rfl) rfl pws pw hmem v hv)
  · intro v hv
    unfold scoreGOf
    rw [skip_len 'K' 'D' (by decide), skip_len 'A' 'D' (by decide), skip_len 'C' 'D' (by decide)]
    exact look_lenLists_hit 'D' _ _ (train_lpos U cfg (·.digits) (·.digits) (fun _ _ => rfl) rfl pws) _ v
      (train_len_hit U cfg (·.digits) (·.digits) (fun _ _ => rfl) rfl pws pw hmem v hv)
  · intro v hv
    unfold scoreGOf
    rw [skip_len 'K' 'O' (by decide), skip_len 'A' 'O' (by decide), skip_len 'C' 'O' (by decide),
      skip_len 'D' 'O' (by decide)]
    exact look_lenLists_hit 'O' _ _ (train_lpos U cfg (·.other) (·.others) (fun _ _ => rfl) rfl pws) _ v
      (train_len_hit U cfg (·.other) (·.others) (fun _ _ => rfl) rfl pws pw hmem v hv)
  · rw [look_tail _ _ _ "B" (by decide)]
    obtain ⟨k, hk⟩ := hit.2.2 hs
    exact baseList_ne_zero cov h0 h1 _ hn _ good.2.2 _ k hk

end Pcfg.Trainer
