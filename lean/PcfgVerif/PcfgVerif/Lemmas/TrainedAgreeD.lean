import PcfgVerif.Lemmas.TrainedAgreeC
/-! The mask clause of `Agree`: every value filed under length `n` has `n` characters. -/
namespace Pcfg.Trainer
open Pcfg Pcfg.Detect

def LenOK (d : LenCtr) : Prop := ∀ e ∈ d, ∀ p ∈ e.2, p.1.length = e.1

theorem bump_keys (t : MWTable) (w : CPs) (p : CPs × Nat) (hp : p ∈ t.bump w none) : p.1 = w ∨ ∃ q ∈ t, q.1 = p.1 := by
  unfold MWTable.bump at hp
  split at hp
  · obtain ⟨q, hq, rfl⟩ := List.mem_map.mp hp
    right; refine ⟨q, hq, ?_⟩; split <;> rfl
  · rcases List.mem_append.mp hp with hp | hp
    · exact Or.inr ⟨p, hp, rfl⟩
    · simp at hp; subst hp; exact Or.inl rfl

theorem lenok_add (d : LenCtr) (x : CPs) (h : LenOK d) : LenOK (d.add x) := by
  unfold LenCtr.add
  split
  · intro e he p hp
    obtain ⟨q, hq, rfl⟩ := List.mem_map.mp he
    by_cases hk : (q.1 == x.length) = true
    · simp only [hk, if_true] at hp ⊢
      rcases bump_keys _ _ _ hp with h1 | ⟨r, hr, h1⟩
      · rw [h1]; exact (beq_iff_eq.mp hk).symm
      · rw [← h1]; exact h q hq r hr
    · simp only [hk] at hp ⊢
      exact h q hq p hp
  · intro e he p hp
    rcases List.mem_append.mp he with he | he
    · exact h e he p hp
    · simp at he; subst he
      have hp' : p ∈ MWTable.bump [] x none := hp
      rcases bump_keys _ _ _ hp' with h1 | ⟨r, hr, _⟩
      · rw [h1]
      · simp at hr

theorem lenok_update (d : LenCtr) (items : List CPs) (h : LenOK d) : LenOK (updateLenIndexed d items) := by
  unfold updateLenIndexed
  induction items generalizing d with
  | nil => exact h
  | cons x rest ih => exact ih _ (lenok_add d x h)

theorem train_lenok (U : UEnv) (cfg : MWCfg) (field : Counters → LenCtr) (items : Parsed → List CPs)
    (hf : ∀ c p, field (c.update p) = updateLenIndexed (field c) (items p)) (h0 : field {} = [])
    (pws : List CPs) : LenOK (field (train U cfg pws)) := by
  unfold train pass2
  rw [pass2_field U cfg _ field items hf, h0, foldl_update_flatten]
  exact lenok_update _ _ (by intro e he; simp at he)

/-- the keys of a column are keys of the counter -/
theorem colOf_keys (t : MWTable) (g : List CPs × Rat) (hg : g ∈ colOf t) (v : CPs) (hv : v ∈ g.1) : ∃ k, (v, k) ∈ t := by
  obtain ⟨p, hp⟩ := runs_sub (listOf t) g hg v hv
  obtain ⟨c, hc, _⟩ := (calcProbs_mem ratOps (toQ t) v p).mp hp
  obtain ⟨q, hq, he⟩ := List.mem_map.mp hc
  cases he
  exact ⟨q.2, hq⟩

theorem toStr_length (v : CPs) : (toStr v).length = v.length := by simp [toStr]

/-- **the mask clause of `Agree`** -/
theorem agree_masks (c : Counters) (hok : LenOK c.masks) (n j : Nat) (vals : List Str)
    (h : (viewE c).values (lbl 'C' n) j = some vals) : ∀ m ∈ vals, m.length = n := by
  unfold EGrammar.values EGrammar.groups viewE at h
  rw [List.find?_map] at h
  have hp : ((fun x : String × List (List Str) => x.1 == lbl 'C' n) ∘
      fun e : String × List (List CPs × Rat) => (e.1, e.2.map fun g => g.1.map toStr)) = fun e => e.1 == lbl 'C' n := rfl
  rw [hp] at h
  unfold viewCols at h
  rw [find_append_none _ _ _ (nnM 'K' 'C' (by decide) _ n), find_append_none _ _ _ (nnM 'A' 'C' (by decide) _ n)] at h
  cases hf : c.masks.find? (·.1 == n) with
  | none =>
    exfalso
    rw [find_append_none _ _ _ (by rw [find_lenMap, hf]; rfl), find_append_none _ _ _ (nnM 'D' 'C' (by decide) _ n),
      find_append_none _ _ _ (nnM 'O' 'C' (by decide) _ n)] at h
    have h1 : ("Y1" == lbl 'C' n) = false := beq_eq_false_iff_ne.mpr (fun e => lbl_ne_lit 'C' n "Y1" (by decide) e.symm)
    have h2 : ("X1" == lbl 'C' n) = false := beq_eq_false_iff_ne.mpr (fun e => lbl_ne_lit 'C' n "X1" (by decide) e.symm)
    simp [h1, h2] at h
  | some e =>
    have hk : e.1 = n := by simpa using List.find?_some hf
    have hem := List.mem_of_find?_eq_some hf
    rw [find_append_some _ _ _ (lbl 'C' e.1, colOf e.2) (by rw [find_lenMap, hf]; rfl)] at h
    simp only [Option.map_some, Option.bind_some] at h
    intro m hm
    rw [List.getElem?_map] at h
    cases hg : (colOf e.2)[j]? with
    | none => rw [hg] at h; simp at h
    | some g =>
      rw [hg] at h
      simp only [Option.map_some, Option.some.injEq] at h
      subst h
      obtain ⟨v, hv, rfl⟩ := List.mem_map.mp hm
      obtain ⟨k, hkm⟩ := colOf_keys e.2 g (List.mem_of_getElem? hg) v hv
      rw [toStr_length, ← hk]
      exact hok e hem (v, k) hkm

end Pcfg.Trainer
