import PcfgVerif.Lemmas.OmenFilesA
/-!
# OMEN files, part B: `CP.level` loads into a dict that answers every look-up like the `cp` of `toTables`
-/
namespace Omen

section Assoc
variable {κ β : Type} [BEq κ] [LawfulBEq κ]

theorem assocGet_map_upd (al : List (κ × β)) (k k' : κ) (g : β → β) :
    assocGet (al.map fun p => if p.1 == k then (p.1, g p.2) else p) k' =
      if k' == k then (assocGet al k').map g else assocGet al k' := by
  induction al with
  | nil => simp [assocGet]
  | cons a r ih =>
    unfold assocGet at ih ⊢
    by_cases h1 : a.1 == k <;> by_cases h2 : a.1 == k'
    · have hak : a.1 = k := by simpa using h1
      have hk : k' = k := by rw [← hak]; exact (by simpa using h2 : a.1 = k').symm
      subst hk
      simp [h1]
    · have h2' : (a.1 == k') = false := by simpa using h2
      simp only [List.map_cons, h1, if_true, List.find?_cons, h2']
      exact ih
    · have h1' : (a.1 == k) = false := by simpa using h1
      have hk' : a.1 = k' := by simpa using h2
      have hkk : (k' == k) = false := by rw [← hk']; exact h1'
      simp [h1', h2, hkk]
    · have h1' : (a.1 == k) = false := by simpa using h1
      have h2' : (a.1 == k') = false := by simpa using h2
      simp only [List.map_cons, h1', Bool.false_eq_true, if_false, List.find?_cons, h2']
      exact ih

/-- the dict update, seen through look-ups -/
theorem assocGet_assocUpd (al : List (κ × β)) (k k' : κ) (f : Option β → β) :
    assocGet (assocUpd al k f) k' = if k' == k then some (f (assocGet al k)) else assocGet al k' := by
  unfold assocUpd
  by_cases hany : al.any (·.1 == k) = true
  · rw [if_pos hany]
    rw [assocGet_map_upd al k k' (fun v => f (some v))]
    by_cases hk : k' == k
    · have hkk : k' = k := by simpa using hk
      subst hkk
      simp only [hk, if_true]
      obtain ⟨p, hp, hpk⟩ := List.any_eq_true.mp hany
      unfold assocGet
      cases hf : al.find? (·.1 == k') with
      | none =>
        have := List.find?_eq_none.mp hf p hp
        exact absurd hpk this
      | some q => rfl
    · simp [hk]
  · rw [if_neg hany]
    have hnone : ∀ p ∈ al, (p.1 == k) = false := by
      intro p hp
      have := hany
      simp only [List.any_eq_true, not_exists, not_and, Bool.not_eq_true] at this
      exact this p hp
    unfold assocGet
    rw [List.find?_append]
    by_cases hk : k' == k
    · have hkk : k' = k := by simpa using hk
      subst hkk
      have : al.find? (·.1 == k') = none := List.find?_eq_none.mpr (fun p hp => by simp [hnone p hp])
      simp [this]
    · have hk' : (k == k') = false := by
        cases h : k == k'
        · rfl
        · have : k = k' := by simpa using h
          subst this
          simp at hk
      simp [hk, hk']

end Assoc

/-- `cp[ip][l]` as the generator reads it -/
def look (cp : List (Str × List (Nat × List Char))) (ip : Str) (l : Nat) : Option (List Char) :=
  (assocGet cp ip).bind fun e => assocGet e l

theorem cpChars_eq_look (m : Model) (ip : Str) (l : Nat) : m.cpChars ip l = look m.cp ip l := rfl

/-- `grammar['cp'][pre][lvl].append(c)` seen through look-ups: the list of `(pre, lvl)` grows by `c`,
everything else is untouched -/
theorem look_insertCp (cp : List (Str × List (Nat × List Char))) (pre : Str) (lvl : Nat) (c : Char)
    (ip : Str) (l : Nat) :
    look (insertCp cp pre lvl c) ip l =
      if ip == pre && l == lvl then some ((look cp ip l).getD [] ++ [c]) else look cp ip l := by
  unfold look insertCp
  rw [assocGet_assocUpd]
  by_cases h1 : ip == pre
  · have hp : ip = pre := by simpa using h1
    subst hp
    simp only [h1, if_true, Option.bind_some, Bool.true_and]
    unfold insertLvl
    rw [assocGet_assocUpd]
    by_cases h2 : l == lvl
    · have hl : l = lvl := by simpa using h2
      subst hl
      simp only [h2, if_true]
      cases assocGet cp ip with
      | none => simp [assocGet]
      | some e => simp
    · simp only [h2, Bool.false_eq_true, if_false]
      cases assocGet cp ip with
      | none => simp [assocGet]
      | some e => simp
  · simp [h1]

/-- what a run of appends does to one list -/
def extend (o : Option (List Char)) (cs : List Char) : Option (List Char) :=
  if cs.isEmpty then o else some (o.getD [] ++ cs)

theorem extend_extend (o : Option (List Char)) (a b : List Char) : extend (extend o a) b = extend o (a ++ b) := by
  unfold extend
  cases a with
  | nil => simp
  | cons x xs =>
    cases b with
    | nil => simp
    | cons y ys => simp

/-- the letters the lines of `CP.level` list for prefix `ip` at level `l`, in file order -/
def lineChars (lines : List NLine) (ip : Str) (l : Nat) : List Char :=
  (lines.filter fun ln => ln.2.dropLast == ip && ln.1 == l).filterMap (·.2.getLast?)

theorem loadCpGo_spec (maxLevel : Nat) (lines : List NLine) (cp : List (Str × List (Nat × List Char)))
    (hl : ∀ ln ∈ lines, ln.1 ≤ maxLevel) (hne : ∀ ln ∈ lines, ln.2 ≠ []) :
    ∃ cp', loadCpGo maxLevel lines cp = some cp' ∧
      ∀ ip l, look cp' ip l = extend (look cp ip l) (lineChars lines ip l) := by
  induction lines generalizing cp with
  | nil => exact ⟨cp, rfl, fun ip l => by simp [lineChars, extend]⟩
  | cons ln r ih =>
    have h1 : ln.1 ≤ maxLevel := hl ln (by simp)
    have h2 : ln.2 ≠ [] := hne ln (by simp)
    obtain ⟨c, hc⟩ : ∃ c, ln.2.getLast? = some c := by
      cases hg : ln.2.getLast? with
      | none => exact absurd (List.getLast?_eq_none_iff.mp hg) h2
      | some c => exact ⟨c, rfl⟩
    obtain ⟨cp', hcp', hlook⟩ := ih (insertCp cp ln.2.dropLast ln.1 c)
      (fun x hx => hl x (by simp [hx])) (fun x hx => hne x (by simp [hx]))
    refine ⟨cp', ?_, fun ip l => ?_⟩
    · simp only [loadCpGo, h1, if_true, hc]
      exact hcp'
    · rw [hlook ip l, look_insertCp]
      have hsplit : lineChars (ln :: r) ip l =
          (if ln.2.dropLast == ip && ln.1 == l then [c] else []) ++ lineChars r ip l := by
        unfold lineChars
        by_cases hm : (ln.2.dropLast == ip && ln.1 == l) = true
        · simp [hm, hc]
        · have hm' : (ln.2.dropLast == ip && ln.1 == l) = false := by simpa using hm
          simp [hm']
      rw [hsplit, ← extend_extend]
      congr 1
      by_cases hm : (ln.2.dropLast == ip && ln.1 == l) = true
      · have hm2 : (ip == ln.2.dropLast && l == ln.1) = true := by
          simp only [Bool.and_eq_true, beq_iff_eq] at hm ⊢
          exact ⟨hm.1.symm, hm.2.symm⟩
        simp [hm, hm2, extend]
      · have hm' : (ln.2.dropLast == ip && ln.1 == l) = false := by simpa using hm
        have hm2 : (ip == ln.2.dropLast && l == ln.1) = false := by
          cases h : (ip == ln.2.dropLast && l == ln.1)
          · rfl
          · simp only [Bool.and_eq_true, beq_iff_eq] at h
            simp [h.1, h.2] at hm'
        simp [hm', hm2, extend]

end Omen
