import PcfgVerif.Lemmas.DetectA2
/-! Helper lemmas for `DetectStatementsA`: three-piece tilings; year and context detectors. -/
namespace Pcfg.Detect
open Generated.Tables

theorem pieceOK_take (U : UEnv) (text : CPs) (a : Nat) (h0 : a ≠ 0) (ha : a ≤ text.length) :
    pieceOK U text 0 (text.take a, none) ∧ (text.take a).length = a := by
  have hl : (text.take a).length = a := by simp; omega
  refine ⟨⟨?_, ?_, ?_, ?_⟩, hl⟩
  · intro e; simp only at e; rw [e] at hl; simp at hl; omega
  · simp; omega
  · intro _; simp only [hl]; simp [slice]
  · intro h; simp at h

theorem pieceOK_drop (U : UEnv) (text : CPs) (b : Nat) (hb : b < text.length) :
    pieceOK U text b (text.drop b, none) ∧ b + (text.drop b).length = text.length := by
  have hl : (text.drop b).length = text.length - b := by simp
  refine ⟨⟨?_, ?_, ?_, ?_⟩, by omega⟩
  · intro e; simp only at e; rw [e] at hl; simp at hl; omega
  · simp only [hl]; omega
  · intro _
    simp only [hl, slice]
    rw [List.take_of_length_le (by simp)]
  · intro h; simp at h

theorem pieceOK_mid (U : UEnv) (text : CPs) (a b : Nat) (L : String) (hL : L ≠ "W")
    (hab : a < b) (hb : b ≤ text.length) :
    pieceOK U text a (slice text a b, some L) ∧ (slice text a b).length = b - a := by
  have hl : (slice text a b).length = b - a := by rw [slice_length]; omega
  refine ⟨⟨?_, ?_, ?_, ?_⟩, hl⟩
  · intro e; simp only at e; rw [e] at hl; simp at hl; omega
  · simp only [hl]; omega
  · intro _
    simp only [hl]
    congr 1; omega
  · intro h
    simp only [Option.some.injEq] at h
    exact absurd h hL

/-- optional unlabelled prefix, a middle section, optional unlabelled suffix -/
theorem tiles_three (U : UEnv) (text : CPs) (a b : Nat) (m : Sec) (p1 p2 : Prop)
    [Decidable p1] [Decidable p2] (hab : a < b) (hb : b ≤ text.length)
    (hm : pieceOK U text a m) (hlen : m.1.length = b - a)
    (h1 : p1 ↔ a ≠ 0) (h2 : p2 ↔ b ≠ text.length) :
    (if p1 then [((text.take a, none) : Sec)] else []) ++ [m] ++
        (if p2 then [((text.drop b, none) : Sec)] else []) ≠ [] ∧
    TilesFrom U text 0 ((if p1 then [((text.take a, none) : Sec)] else []) ++ [m] ++
        (if p2 then [((text.drop b, none) : Sec)] else [])) := by
  refine ⟨by simp, ?_⟩
  have hamb : a + m.1.length = b := by omega
  have tail : TilesFrom U text b (if p2 then [((text.drop b, none) : Sec)] else []) := by
    by_cases hbe : b = text.length
    · have : ¬ p2 := fun h => (h2.1 h) hbe
      simp [this, TilesFrom, hbe]
    · have hp : p2 := h2.2 hbe
      have := pieceOK_drop U text b (by omega)
      simp only [hp, if_true, TilesFrom]
      exact ⟨this.1, this.2⟩
  have mid : TilesFrom U text a ([m] ++ (if p2 then [((text.drop b, none) : Sec)] else [])) := by
    refine ⟨hm, ?_⟩
    rw [hamb]; exact tail
  by_cases ha : a = 0
  · have : ¬ p1 := fun h => (h1.1 h) ha
    subst ha
    simpa [this] using mid
  · have hp : p1 := h1.2 ha
    have := pieceOK_take U text a ha (by omega)
    simp only [hp, if_true, List.cons_append, List.nil_append]
    refine ⟨this.1, ?_⟩
    simp only [this.2, Nat.zero_add]
    exact mid

theorem mem_three (m : Sec) (l1 l2 : List Sec) : m ∈ l1 ++ [m] ++ l2 := by simp

/-! ## years -/

theorem detectYear_spec (U : UEnv) (text : CPs) (pieces : List Sec) (y : CPs)
    (h : detectYear U text = some (pieces, y)) :
    ∃ pre ∈ yearPrefixes, ∃ si, yearScan U text pre (text.length + 1) 0 = some si ∧
      y = slice text si (si + 4) ∧
      pieces = (if (si != 0) = true then [((text.take si, none) : Sec)] else []) ++
        [(slice text si (si + 4), some "Y1")] ++
        (if si + 4 < text.length then [((text.drop (si + 4), none) : Sec)] else []) := by
  unfold detectYear at h
  obtain ⟨pre, hpre, hf⟩ := List.exists_of_findSome?_eq_some h
  refine ⟨pre, hpre, ?_⟩
  split at hf
  · cases hf
  · next si hsi =>
    simp only [Option.some.injEq, Prod.mk.injEq] at hf
    exact ⟨si, hsi, hf.2.symm, hf.1.symm⟩

theorem detectYear_ok' (U : UEnv) : DetectorOK U (detectYear U) := by
  intro text pieces f _ _ h
  obtain ⟨pre, hpre, si, hsi, _, rfl⟩ := detectYear_spec U text pieces f h
  have hb := (yearScan_some U text pre _ _ si hsi).1
  have hm := pieceOK_mid U text si (si + 4) "Y1" (by decide) (by omega) hb
  exact tiles_three U text si (si + 4) _ _ _ (by omega) hb hm.1 hm.2 (by simp) (by omega)

theorem detectYear_sound' (U : UEnv) (text : CPs) (pieces : List Sec) (y : CPs)
    (h : detectYear U text = some (pieces, y)) :
    y.length = 4 ∧ (∃ pre ∈ yearPrefixes, y.take 2 = pre) ∧
    U.isDigit (y.getD 2 0) = true ∧ U.isDigit (y.getD 3 0) = true ∧ (y, some "Y1") ∈ pieces := by
  obtain ⟨pre, hpre, si, hsi, rfl, rfl⟩ := detectYear_spec U text pieces y h
  obtain ⟨hb, hp, hd2, hd3⟩ := yearScan_some U text pre _ _ si hsi
  have hlen := yearPrefix_length pre hpre
  rw [hlen] at hp
  have g : ∀ k, k < 4 → (slice text si (si + 4)).getD k 0 = text.getD (si + k) 0 := by
    intro k hk
    simp only [slice, List.getD_eq_getElem?_getD, List.getElem?_take, List.getElem?_drop]
    rw [if_pos (by omega)]
  refine ⟨by rw [slice_length]; omega, ⟨pre, hpre, ?_⟩, ?_, ?_, mem_three _ _ _⟩
  · rw [← hp]; simp [slice, List.take_take]
  · rw [g 2 (by omega)]; exact hd2
  · rw [g 3 (by omega)]; exact hd3

/-! ## context-sensitive strings -/

theorem detectContext_spec (U : UEnv) (text : CPs) (pieces : List Sec) (c : CPs)
    (h : detectContext U text = some (pieces, c)) :
    c ∈ contextList ∧ ∃ si, findSub text c = some si ∧
      pieces = (if (si != 0) = true then [((text.take si, none) : Sec)] else []) ++
        [(slice text si (si + c.length), some "X1")] ++
        (if si + c.length < text.length then [((text.drop (si + c.length), none) : Sec)] else []) := by
  unfold detectContext at h
  obtain ⟨rep, hrep, hf⟩ := List.exists_of_findSome?_eq_some h
  split at hf
  · cases hf
  · next si hsi =>
    split at hf
    · cases hf
    · simp only [Option.some.injEq, Prod.mk.injEq] at hf
      obtain ⟨hp, rfl⟩ := hf
      exact ⟨hrep, si, hsi, hp.symm⟩

theorem detectContext_ok' (U : UEnv) : DetectorOK U (detectContext U) := by
  intro text pieces f _ _ h
  obtain ⟨hc, si, hsi, rfl⟩ := detectContext_spec U text pieces f h
  have hb := (findSub_some text f si hsi).1
  have hpos := context_ne_nil f hc
  have hm := pieceOK_mid U text si (si + f.length) "X1" (by decide) (by omega) hb
  exact tiles_three U text si (si + f.length) _ _ _ (by omega) hb hm.1 hm.2 (by simp) (by omega)

theorem detectContext_sound' (U : UEnv) (text : CPs) (pieces : List Sec) (c : CPs)
    (h : detectContext U text = some (pieces, c)) :
    c ∈ contextList ∧ (c, some "X1") ∈ pieces := by
  obtain ⟨hc, si, hsi, rfl⟩ := detectContext_spec U text pieces c h
  refine ⟨hc, ?_⟩
  have := findSub_slice text c si hsi
  rw [this]
  exact mem_three _ _ _

end Pcfg.Detect
