/-! Abstract adoption system: C02 core, order-independent -/
namespace Adopt

variable {α : Type} [DecidableEq α]

structure Sys (α : Type) [DecidableEq α] where
  all : List α
  all_nodup : all.Nodup
  adopter : α → Option α           -- none = root
  rank : α → Nat
  adopter_mem : ∀ v p, v ∈ all → adopter v = some p → p ∈ all
  adopter_rank : ∀ v p, adopter v = some p → rank p < rank v

variable (S : Sys α)

def Sys.roots : List α := S.all.filter (fun v => (S.adopter v).isNone)
def Sys.children (x : α) : List α := S.all.filter (fun v => S.adopter v = some x)

structure St (α : Type) where
  queue : List α
  popped : List α

def Sys.init : St α := ⟨S.roots, []⟩

/-- pop any queued element x, push its children -/
def Sys.step (s : St α) (x : α) : St α :=
  ⟨s.queue.erase x ++ S.children x, s.popped ++ [x]⟩

/-- v is "due": it is a grid node whose adopter (if any) has been popped -/
def Sys.due (popped : List α) (v : α) : Bool :=
  decide (v ∈ S.all) && (match S.adopter v with | none => true | some p => decide (p ∈ popped))

def Inv (s : St α) : Prop :=
  ∀ v, (s.popped ++ s.queue).count v = if S.due s.popped v then 1 else 0

theorem count_all (v : α) : S.all.count v = if v ∈ S.all then 1 else 0 :=
  S.all_nodup.count

theorem count_filter_all (p : α → Bool) (v : α) :
    (S.all.filter p).count v = if v ∈ S.all ∧ p v = true then 1 else 0 := by
  by_cases hp : p v = true
  · rw [List.count_filter hp, count_all]; simp [hp]
  · have : v ∉ S.all.filter p := by simp [List.mem_filter, hp]
    rw [List.count_eq_zero_of_not_mem this]; simp [hp]

theorem inv_init : Inv S S.init := by
  intro v
  simp only [Sys.init, List.nil_append, Sys.roots]
  rw [count_filter_all]
  unfold Sys.due
  cases h : S.adopter v <;> simp

theorem inv_step (s : St α) (x : α) (h : Inv S s) (hx : x ∈ s.queue) : Inv S (S.step s x) := by
  intro v
  have hv := h v
  have hxx := h x
  have hxq : 0 < s.queue.count x := List.count_pos_iff.mpr hx
  have hxall : x ∈ S.all := by
    by_cases hn : x ∈ S.all
    · exact hn
    · simp only [List.count_append, Sys.due, hn, decide_false, Bool.false_and] at hxx
      simp at hxx; omega
  have hxnp : s.popped.count x = 0 := by
    simp only [List.count_append] at hxx
    split at hxx <;> omega
  have hrank : ∀ p, S.adopter x = some p → p ≠ x := by
    intro p hp hpx; have := S.adopter_rank x p hp; subst hpx; omega
  have hxnp' : x ∉ s.popped := fun hm => by
    have := List.count_pos_iff.mpr hm; omega
  simp only [Sys.step, Sys.children, List.count_append, count_filter_all, List.count_erase,
    List.count_singleton] at *
  unfold Sys.due at *
  cases ha : S.adopter v with
  | none =>
    simp only [ha] at hv ⊢
    simp at hv ⊢
    by_cases hvx : x = v
    · subst hvx; simp at hv ⊢; omega
    · simp [hvx]; exact hv
  | some p =>
    simp only [ha] at hv ⊢
    have hpv : p ≠ v := by
      intro e; have := S.adopter_rank v p ha; subst e; omega
    by_cases hpx : p = x
    · subst hpx
      have hvx : ¬ p = v := hpv
      simp [hxnp', hvx] at hv ⊢
      by_cases hva : v ∈ S.all <;> simp [hva, hv]
    · have hvx : (p ∈ s.popped ++ [x]) ↔ p ∈ s.popped := by simp [hpx]
      simp [hpx] at hv ⊢
      by_cases hvx : x = v
      · subst hvx; simp; omega
      · simp [hvx]; exact hv


theorem exhausted_perm (s : St α) (h : Inv S s) (hq : s.queue = []) : s.popped.Perm S.all := by
  have hc : ∀ v, s.popped.count v = if S.due s.popped v then 1 else 0 := by
    intro v; have := h v; simpa [hq] using this
  have hall : ∀ n, ∀ v, S.rank v < n → v ∈ S.all → v ∈ s.popped := by
    intro n
    induction n with
    | zero => intro v hv; omega
    | succ n ih =>
      intro v hr hv
      have hcv := hc v
      cases ha : S.adopter v with
      | none =>
        simp [Sys.due, ha, hv] at hcv
        exact List.count_pos_iff.mp (by omega)
      | some p =>
        have hp : p ∈ s.popped := ih p (by have := S.adopter_rank v p ha; omega) (S.adopter_mem v p hv ha)
        simp [Sys.due, ha, hv, hp] at hcv
        exact List.count_pos_iff.mp (by omega)
  rw [List.perm_iff_count]
  intro v
  rw [hc v, count_all]
  by_cases hv : v ∈ S.all
  · have hp := hall (S.rank v + 1) v (by omega) hv
    have h1 := hc v
    have : 0 < s.popped.count v := List.count_pos_iff.mpr hp
    simp [hv]
    split at h1 <;> simp_all
  · simp [Sys.due, hv]

end Adopt
