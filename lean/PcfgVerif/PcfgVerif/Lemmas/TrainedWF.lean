import PcfgVerif.Properties.C07
import PcfgVerif.Model.GridSpec
/-! A grid whose columns were loaded from trainer-written list files is well-formed (binary64). -/
namespace Pcfg

/-- every column of the grid is the list of group probabilities the loader model returns on a list file written for a counter -/
def TrainedCols (parseP : CPs → Option Nat) (showP : Nat → CPs) (neg1 : Nat) (g : Grid Nat) : Prop :=
  ∀ st ∈ g, ∀ c ∈ st.cols, ∃ (counter : List (CPs × Nat)) (gs : List (LGroup Nat)), counter ≠ [] ∧
    (∀ it ∈ counter, CleanValue it.1) ∧ (∀ it ∈ calcProbs C07.sfQ counter, it.2 ≠ neg1) ∧
    loadFromFile parseP (fun a b => a == b) neg1
      (writeFile ((calcProbs C07.sfQ counter).map fun it => (it.1, showP it.2))) = some gs ∧ c = gs.map (·.prob)

theorem trained_grid_wf (parseP : CPs → Option Nat) (showP : Nat → CPs) (neg1 : Nat)
    (hround : ∀ p, parseP (showP p) = some p) (hshow : ∀ p, CleanProb (showP p)) (g : Grid Nat)
    (hcols : TrainedCols parseP showP neg1 g) : WF sfAlg.toPOps g := by
  intro st hst c hc
  obtain ⟨counter, gs, hne, hclean, hsent, hload, rfl⟩ := hcols st hst c hc
  obtain ⟨gs', hload', hne', _, hsorted⟩ := C07.C07_trained_column_wf parseP showP neg1 hround counter hne hclean hshow hsent
  rw [hload] at hload'
  cases hload'
  exact ⟨by simpa using hne', hsorted⟩

end Pcfg
