import PcfgVerif.Lemmas.DetectD1
import PcfgVerif.Lemmas.DetectA1
/-!
# After `alpha_detection` no unlabelled section contains a letter

The alpha detector looks for letter runs in the lower-cased section.  `AlphaPosT U T`: lower-casing `T` changes the
alpha-ness of no position — a fact about CPython's Unicode tables (`c.lower().isalpha() == c.isalpha()` for every code
point whose lower-casing is one character; final sigma has two lower-case forms, both letters), validated exhaustively by the
harness on every run.  Under it the unlabelled sections left by `alpha_detection` contain no letter, and since later stages
only cut sections into sub-strings, the `other` strings contain none either.
-/
namespace Pcfg.Detect

def AlphaPosT (U : UEnv) (T : CPs) : Prop :=
  ∀ i : Nat, ((U.lowerS T)[i]?).map U.isAlpha = (T[i]?).map U.isAlpha

/-- the law holds for the text and all its substrings, and lower-casing keeps their lengths -/
def GoodA (U : UEnv) (T : CPs) : Prop := LenPres U T ∧ ∀ c d, AlphaPosT U (slice T c d)

def NoAlpha (U : UEnv) (text : CPs) : Prop := ∀ c ∈ text, U.isAlpha c = false

theorem goodA_slice (U : UEnv) (T : CPs) (a b : Nat) (h : GoodA U T) : GoodA U (slice T a b) := by
  refine ⟨lenPres_slice' U T a b h.1, ?_⟩
  intro c d
  rw [slice_slice]
  exact h.2 _ _

theorem goodA_self (U : UEnv) (T : CPs) (h : GoodA U T) : AlphaPosT U T := by
  have := h.2 0 T.length
  rwa [slice_zero_length] at this

theorem secMeasure_build (U : UEnv) (text : CPs) (words : List CPs) (cur : Nat) :
    secMeasure (detectAlpha.build U text words cur).1 = words.length := by
  induction words generalizing cur with
  | nil => simp [build_nil, secMeasure]
  | cons w ws ih => rw [build_cons]; simp [secMeasure, ih]; omega

theorem length_le_flatten (words : List CPs) (h : ∀ w ∈ words, w ≠ []) : words.length ≤ words.flatten.length := by
  induction words with
  | nil => simp
  | cons w ws ih =>
    have hw : 0 < w.length := List.length_pos_iff.mpr (h w (by simp))
    have := ih (fun x hx => h x (by simp [hx]))
    simp only [List.flatten_cons, List.length_append, List.length_cons]; omega

theorem detectAlpha_exhausts (U : UEnv) (cfg : MWCfg) (t : MWTable) :
    Exhausts (detectAlpha U cfg t) (GoodA U) (NoAlpha U) := by
  refine ⟨?_, ?_, ?_, ?_⟩
  · -- nothing found: no letter in the lower-cased text, hence none in the text
    intro text hg h
    have hfr : firstRun U.isAlpha (U.lowerS text) = none := by
      unfold detectAlpha at h
      simp only at h
      split at h
      · assumption
      · cases h
    have hno := firstRun_none _ _ hfr
    have hpos := goodA_self U text hg
    intro c hc
    obtain ⟨i, hi, rfl⟩ := List.mem_iff_getElem.mp hc
    have hlen := lenPres_lower U text hg.1
    have hi' : i < (U.lowerS text).length := by omega
    have := hpos i
    rw [List.getElem?_eq_getElem hi, List.getElem?_eq_getElem hi'] at this
    simp only [Option.map_some, Option.some.injEq] at this
    rw [← this]
    exact hno _ (List.getElem_mem hi')
  · -- the piece in front of the first run
    intro text p ps f hg h hn
    obtain ⟨words, masks⟩ := f
    obtain ⟨s, e, hfr, _, _, hp⟩ := detectAlpha_inv U cfg t text (p :: ps) words masks h
    obtain ⟨run, _, _, _, _, _, _, hpre, _, _⟩ := firstRun_spec _ _ _ _ hfr
    by_cases hs : s = 0
    · subst hs
      simp at hp
      -- the first piece is a word section: labelled
      obtain ⟨_, _, _, _, hwne, _, _, _⟩ := detectAlpha_geom U cfg t text hg.1 (p :: ps) words masks h
      cases words with
      | nil => exact absurd rfl hwne
      | cons w ws =>
        rw [build_cons] at hp
        simp at hp
        obtain ⟨rfl, _⟩ := hp
        simp at hn
    · have hs' : (s != 0) = true := by simpa using hs
      simp only [hs', if_true, List.cons_append, List.nil_append, List.cons.injEq] at hp
      obtain ⟨rfl, _⟩ := hp
      have hpos := goodA_self U text hg
      have hlen := lenPres_lower U text hg.1
      intro c hc
      obtain ⟨i, hi, rfl⟩ := List.mem_iff_getElem.mp hc
      simp only [List.length_take] at hi
      have hit : i < text.length := by omega
      have hi' : i < (U.lowerS text).length := by omega
      have := hpos i
      rw [List.getElem?_eq_getElem hit, List.getElem?_eq_getElem hi'] at this
      simp only [Option.map_some, Option.some.injEq] at this
      simp only [List.getElem_take]
      rw [← this]
      apply hpre
      exact List.mem_take_iff_getElem.mpr ⟨i, by omega, rfl⟩
  · -- the measure goes down
    intro text p ps f hg h
    obtain ⟨words, masks⟩ := f
    obtain ⟨s, e, he, hflat, hwne, hwords, _, hp⟩ := detectAlpha_geom U cfg t text hg.1 (p :: ps) words masks h
    have hwl := length_le_flatten words (fun w hw => (hwords w hw).1)
    have hm := secMeasure_build U text words s
    have hcnt : secMeasure ((if s != 0 then [(text.take s, none)] else []) ++
        ((detectAlpha.build U text words s).1 ++
        (if e != text.length - 1 then [(text.drop (e + 1), none)] else []))) ≤
          (if s = 0 then 0 else 1 + 2 * s) + words.length + (1 + 2 * (text.length - (e + 1))) := by
      rw [secMeasure_append, secMeasure_append, hm]
      by_cases hs : s = 0 <;> by_cases hend : e = text.length - 1 <;>
        simp [hs, hend, secMeasure] <;> omega
    rw [← hp] at hcnt
    -- the first piece contributes at least 1, and 1 + 2 s when it is the unlabelled prefix
    have hfirst : (if s = 0 then 1 else 1 + 2 * s) ≤ secMeasure [p] := by
      by_cases hs : s = 0
      · obtain ⟨pt, pl⟩ := p; cases pl <;> simp [hs, secMeasure] <;> omega
      · have hs' : (s != 0) = true := by simpa using hs
        simp only [hs', if_true, List.cons_append, List.nil_append, List.cons.injEq] at hp
        obtain ⟨rfl, _⟩ := hp
        have : s ≤ text.length := by omega
        simp [hs, secMeasure, List.length_take, Nat.min_eq_left this]
    have hsplit : secMeasure (p :: ps) = secMeasure [p] + secMeasure ps := by
      rw [show p :: ps = [p] ++ ps from rfl, secMeasure_append]
    rw [hsplit] at hcnt
    by_cases hs : s = 0 <;> simp [hs] at hcnt hfirst <;> omega
  · -- unlabelled pieces are substrings
    intro text pieces f hg h q hq hn
    obtain ⟨words, masks⟩ := f
    obtain ⟨s, e, _, _, _, hp⟩ := detectAlpha_inv U cfg t text pieces words masks h
    subst hp
    simp only [List.mem_append] at hq
    rcases hq with hq | hq | hq
    · split at hq
      · simp at hq; subst hq; simp only; rw [take_eq_slice]; exact goodA_slice U text _ _ hg
      · simp at hq
    · -- word sections are labelled
      exfalso
      have : ∀ (ws : List CPs) (cur : Nat), ∀ x ∈ (detectAlpha.build U text ws cur).1, x.2 ≠ none := by
        intro ws
        induction ws with
        | nil => intro cur x hx; simp [build_nil] at hx
        | cons w ws ih =>
          intro cur x hx
          rw [build_cons] at hx
          simp at hx
          rcases hx with rfl | hx
          · simp
          · exact ih _ x hx
      exact this _ _ q hq hn
    · split at hq
      · simp at hq; subst hq; simp only; rw [drop_eq_slice]; exact goodA_slice U text _ _ hg
      · simp at hq

end Pcfg.Detect

namespace Pcfg.Detect

/-- a property of unlabelled sections that every unlabelled piece inherits from its text survives a whole pass -/
theorem splitLoop_preserves {F : Type} (detect : CPs → Option (List Sec × F)) (adv : Advance) (Q : CPs → Prop)
    (hq : ∀ text pieces f, Q text → detect text = some (pieces, f) → ∀ p ∈ pieces, p.2 = none → Q p.1) (fuel : Nat) :
    ∀ (done todo : List Sec) (found : List F),
      (∀ s ∈ done ++ todo, s.2 = none → Q s.1) →
      ∀ s ∈ (splitLoop detect adv fuel done todo found).1, s.2 = none → Q s.1 := by
  induction fuel with
  | zero => intro done todo found h; simpa [splitLoop] using h
  | succ fuel ih =>
    intro done todo found h
    unfold splitLoop
    match todo with
    | [] => simpa using h
    | (text, some l) :: rest =>
      simp only
      apply ih
      simpa using h
    | (text, none) :: rest =>
      simp only
      have hqt : Q text := h (text, none) (by simp) rfl
      have hd : ∀ s ∈ done, s.2 = none → Q s.1 := fun s hs => h s (by simp [hs])
      have hr : ∀ s ∈ rest, s.2 = none → Q s.1 := fun s hs => h s (by simp [hs])
      match hdt : detect text with
      | none =>
        simp only
        apply ih
        simpa using h
      | some (pieces, f) =>
        have hp := hq text pieces f hqt hdt
        cases adv with
        | skipFirst =>
          cases pieces with
          | nil =>
            simp only
            apply ih
            intro s hs
            rcases List.mem_append.mp hs with h1 | h1
            · exact hd s h1
            · exact hr s h1
          | cons p ps =>
            simp only
            apply ih
            intro s hs hn
            simp only [List.mem_append, List.mem_singleton] at hs
            rcases hs with (h1 | h1) | h1 | h1
            · exact hd s h1 hn
            · subst h1; exact hp s (by simp) hn
            · exact hp s (by simp [h1]) hn
            · exact hr s h1 hn
        | recheck =>
          simp only
          apply ih
          intro s hs hn
          simp only [List.mem_append] at hs
          rcases hs with h1 | h1 | h1
          · exact hd s h1 hn
          · exact hp s h1 hn
          · exact hr s h1 hn

/-- unlabelled sections of a tiling are substrings of the password -/
theorem tilesFrom_unlabelled_slice (U : UEnv) (pw : CPs) (secs : List Sec) (off : Nat) (h : TilesFrom U pw off secs) :
    ∀ s ∈ secs, s.2 = none → ∃ a b, s.1 = slice pw a b := by
  induction secs generalizing off with
  | nil => intro s hs; simp at hs
  | cons x rest ih =>
    intro s hs hn
    obtain ⟨hx, hrest⟩ := h
    rcases List.mem_cons.mp hs with rfl | hs'
    · exact ⟨off, off + s.1.length, hx.2.2.1 (by rw [hn]; simp)⟩
    · exact ih _ hrest s hs' hn

/-- the digit detector's unlabelled pieces are substrings of its text -/
theorem detectDigits_pieces_sub (U : UEnv) (text : CPs) (pieces : List Sec) (d : CPs)
    (h : detectDigits U text = some (pieces, d)) : ∀ p ∈ pieces, p.2 = none → ∀ c ∈ p.1, c ∈ text := by
  unfold detectDigits at h
  split at h
  · cases h
  · rename_i s e _
    simp only [Option.some.injEq, Prod.mk.injEq] at h
    obtain ⟨hp, _⟩ := h
    subst hp
    intro p hp hn c hc
    simp only [List.mem_append, List.mem_singleton] at hp
    rcases hp with (hp | hp) | hp
    · split at hp
      · simp at hp; subst hp; exact List.mem_of_mem_take hc
      · simp at hp
    · subst hp; simp at hn
    · split at hp
      · simp at hp; subst hp; exact List.mem_of_mem_drop hc
      · simp at hp

end Pcfg.Detect
