import PcfgVerif.Model.RuleDir
namespace Pcfg.RuleDir
variable {κ γ : Type}

theorem mem_writeIn (dir : List (String × γ)) (fn : String) (c : γ) (f : String) :
    f ∈ (writeIn dir fn c).map (·.1) ↔ f = fn ∨ f ∈ dir.map (·.1) := by
  simp only [writeIn, List.map_append, List.mem_append, List.mem_map, List.mem_filter, List.map_cons,
    List.map_nil, List.mem_singleton]
  constructor
  · rintro (⟨e, ⟨he, _⟩, rfl⟩ | h)
    · exact Or.inr ⟨e, he, rfl⟩
    · exact Or.inl h
  · rintro (h | ⟨e, he, rfl⟩)
    · exact Or.inr h
    · by_cases hf : e.1 = fn
      · exact Or.inr hf
      · exact Or.inl ⟨e, ⟨he, by simpa using hf⟩, rfl⟩

theorem mem_fold (name : κ → String) (suffix : String) (counters : List (κ × γ)) (dir : List (String × γ)) (f : String) :
    f ∈ (counters.foldl (fun dir kc => writeIn dir (name kc.1 ++ suffix) kc.2) dir).map (·.1) ↔
      f ∈ dir.map (·.1) ∨ f ∈ filenameList name suffix counters := by
  induction counters generalizing dir with
  | nil => simp [filenameList]
  | cons kc rest ih =>
    simp only [List.foldl_cons]
    rw [ih, mem_writeIn]
    simp only [filenameList, List.map_cons, List.mem_cons]
    constructor
    · rintro ((h | h) | h)
      · exact Or.inr (Or.inl h)
      · exact Or.inl h
      · exact Or.inr (Or.inr h)
    · rintro (h | h | h)
      · exact Or.inl (Or.inr h)
      · exact Or.inl (Or.inl h)
      · exact Or.inr h

/-- after `save_indexed_counters` the folder holds exactly the files `create_filename_list` names for the same counter —
whatever the folder held before (a re-trained ruleset keeps nothing of the earlier one) -/
theorem saveIndexed_names (name : κ → String) (suffix : String) (old : List (String × γ)) (counters : List (κ × γ))
    (f : String) : f ∈ (saveIndexed name suffix old counters).map (·.1) ↔ f ∈ filenameList name suffix counters := by
  unfold saveIndexed
  rw [mem_fold]
  simp

theorem nodup_writeIn (dir : List (String × γ)) (fn : String) (c : γ) (h : (dir.map (·.1)).Nodup) :
    ((writeIn dir fn c).map (·.1)).Nodup := by
  simp only [writeIn, List.map_append, List.map_cons, List.map_nil]
  rw [List.nodup_append]
  refine ⟨?_, by simp, ?_⟩
  · exact (List.Nodup.sublist (List.Sublist.map _ List.filter_sublist) h)
  · intro a ha b hb
    simp only [List.mem_singleton] at hb
    subst hb
    obtain ⟨e, he, rfl⟩ := List.mem_map.mp ha
    have := (List.mem_filter.mp he).2
    simpa using this

/-- no file name occurs twice in the folder -/
theorem saveIndexed_nodup (name : κ → String) (suffix : String) (old : List (String × γ)) (counters : List (κ × γ)) :
    ((saveIndexed name suffix old counters).map (·.1)).Nodup := by
  unfold saveIndexed
  have : ∀ dir : List (String × γ), (dir.map (·.1)).Nodup →
      ((counters.foldl (fun dir kc => writeIn dir (name kc.1 ++ suffix) kc.2) dir).map (·.1)).Nodup := by
    induction counters with
    | nil => intro dir h; simpa using h
    | cons kc rest ih => intro dir h; exact ih _ (nodup_writeIn dir _ _ h)
  exact this [] (by simp)

end Pcfg.RuleDir
