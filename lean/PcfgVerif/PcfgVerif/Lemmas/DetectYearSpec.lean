import PcfgVerif.Lemmas.DetectWebsiteSpec
/-!
# What the year search of `detect_year` returns

`yearScan` mirrors the `while True` loop of `detect_year` (`lib_trainer/detection_rules/year_detection.py`) for one prefix (`19` / `20`):
find the prefix, give up when fewer than four characters are left, go on two characters further when the candidate is preceded or
followed by a digit or its last two characters are not digits.  Specification proved here: the position returned is an occurrence of
the prefix that *is a year* (`yearOk`), and no occurrence between the starting point and it is - the first one from the left.
-/
namespace Pcfg.Detect
open Generated.Tables

/-- the four characters at `si` are a year: they are there, no digit in front, no digit behind, two digits after the prefix -/
def yearOk (U : UEnv) (w : CPs) (si : Nat) : Bool :=
  !(decide (w.length < si + 4)) &&
  !(si != 0 && U.isDigit (w.getD (si - 1) 0)) &&
  !(decide (si + 4 < w.length) && U.isDigit (w.getD (si + 4) 0)) &&
  (U.isDigit (w.getD (si + 2) 0) && U.isDigit (w.getD (si + 3) 0))

theorem yearPrefix_border_free : ∀ p ∈ yearPrefixes, BorderFree p := by decide

theorem yearScan_spec (U : UEnv) (w pre : CPs) (hb : BorderFree pre) (hlen : pre.length = 2) :
    ∀ (fuel start si : Nat), yearScan U w pre fuel start = some si →
      start ≤ si ∧ OccursAt w pre si ∧ yearOk U w si = true ∧
        ∀ k, start ≤ k → k < si → OccursAt w pre k → yearOk U w k = false
  | 0, start, si, h => by simp [yearScan] at h
  | fuel + 1, start, si, h => by
    unfold yearScan at h
    split at h
    · cases h
    · next rel hrel =>
      have hf := findSub_first _ _ _ hrel
      have hst : start ≤ w.length := by
        have := hf.1.1
        simp only [List.length_drop] at this
        omega
      have hocc0 : OccursAt w pre (rel + start) := by
        rw [Nat.add_comm]
        exact (occursAt_drop w pre start rel hst).1 hf.1
      -- nothing between the starting point and the candidate
      have hgap : ∀ k, start ≤ k → k < rel + start → ¬ OccursAt w pre k := by
        intro k hk1 hk2 hko
        have : OccursAt (w.drop start) pre (k - start) := by
          apply (occursAt_drop w pre start _ hst).2
          have : start + (k - start) = k := by omega
          rw [this]
          exact hko
        exact hf.2 _ (by omega) this
      -- the recursive case: the candidate is not a year, the search goes on two characters further
      have hrec : yearOk U w (rel + start) = false →
          yearScan U w pre fuel (rel + start + 2) = some si →
          start ≤ si ∧ OccursAt w pre si ∧ yearOk U w si = true ∧
            ∀ k, start ≤ k → k < si → OccursAt w pre k → yearOk U w k = false := by
        intro hbad hr
        have ⟨h1, h2, h3, h4⟩ := yearScan_spec U w pre hb hlen fuel _ si hr
        refine ⟨by omega, h2, h3, fun k hk1 hk2 hko => ?_⟩
        by_cases c1 : k < rel + start
        · exact (hgap k hk1 c1 hko).elim
        · by_cases c2 : k = rel + start
          · subst c2; exact hbad
          · by_cases c3 : k < rel + start + 2
            · exact (no_self_overlap w pre hb (rel + start) k hocc0 hko (by omega) (by omega)).elim
            · exact h4 k (by omega) hk2 hko
      simp only at h
      split at h
      · cases h
      · next hroom =>
        split at h
        · next hpre =>
          refine hrec ?_ h
          unfold yearOk
          simp only [hpre, Bool.not_true, Bool.and_false, Bool.false_and]
        · next hpre =>
          split at h
          · next hpost =>
            refine hrec ?_ h
            unfold yearOk
            simp only [Bool.and_eq_true, decide_eq_true_eq] at hpost
            simp only [hpost.1, hpost.2, decide_true, Bool.and_self, Bool.not_true, Bool.and_false, Bool.false_and]
          · next hpost =>
            split at h
            · next hdig =>
              cases h
              refine ⟨by omega, hocc0, ?_, fun k hk1 hk2 hko => (hgap k hk1 hk2 hko).elim⟩
              unfold yearOk
              simp only [Bool.not_eq_true] at hpre hpost
              have hroom' : decide (w.length < rel + start + 4) = false := by
                simp only [decide_eq_false_iff_not]; exact hroom
              rw [hroom', hpre, hdig]
              have : (decide (rel + start + 4 < w.length) && U.isDigit (w.getD (rel + start + 4) 0)) = false := by
                simpa using hpost
              rw [this]
              rfl
            · next hdig =>
              refine hrec ?_ h
              unfold yearOk
              simp only [Bool.not_eq_true] at hdig
              rw [hdig]
              simp only [Bool.and_false]

/-- **the search of `detect_year` for one prefix**: what it returns is the first occurrence of the prefix, from the left, whose four
characters are a year -/
theorem yearSearch_first_year (U : UEnv) (w pre : CPs) (hm : pre ∈ yearPrefixes) (si : Nat)
    (h : yearScan U w pre (w.length + 1) 0 = some si) :
    OccursAt w pre si ∧ yearOk U w si = true ∧ ∀ k, k < si → OccursAt w pre k → yearOk U w k = false := by
  have ⟨_, h2, h3, h4⟩ := yearScan_spec U w pre (yearPrefix_border_free pre hm) (yearPrefix_length pre hm) _ 0 si h
  exact ⟨h2, h3, fun k hk hko => h4 k (Nat.zero_le _) hk hko⟩

end Pcfg.Detect

namespace Pcfg.Detect
open Generated.Tables

/-- **`detect_context_sensitive` as a whole**: a context-sensitive string is detected in a section exactly when some string of the
table occurs in it - for `#1` only when its *first* occurrence is not the start of a longer number (`#12`: the character two places
behind the end of `#1`... i.e. at offset 3, is a digit) -/
theorem detectContext_isSome_iff (U : UEnv) (text : CPs) :
    (detectContext U text).isSome = true ↔
      ∃ rep ∈ contextList, ∃ si, findSub text rep = some si ∧
        (rep == cpsOfString "#1" && decide (si + 3 < text.length) && U.isDigit (text.getD (si + 3) 0)) = false := by
  unfold detectContext
  rw [List.findSome?_isSome_iff]
  constructor
  · rintro ⟨rep, hm, hs⟩
    refine ⟨rep, hm, ?_⟩
    cases hf : findSub text rep with
    | none => rw [hf] at hs; cases hs
    | some si =>
      rw [hf] at hs
      simp only at hs
      refine ⟨si, rfl, ?_⟩
      cases hc : (rep == cpsOfString "#1" && decide (si + 3 < text.length) && U.isDigit (text.getD (si + 3) 0)) with
      | false => rfl
      | true => rw [if_pos hc] at hs; cases hs
  · rintro ⟨rep, hm, si, hf, hc⟩
    refine ⟨rep, hm, ?_⟩
    rw [hf]
    simp only
    rw [if_neg (by rw [hc]; simp)]
    rfl

end Pcfg.Detect
