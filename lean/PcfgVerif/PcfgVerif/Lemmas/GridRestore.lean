import PcfgVerif.Lemmas.GridAdopt
import PcfgVerif.Lemmas.GridFragRestore
/-! `restoreWalk` / `restoreNodes`: the rebuilt queue is (a permutation of) the roots of the
sub-system of the nodes of probability ≤ m. -/
namespace Pcfg
variable {P : Type}

/-! ### list helpers -/

theorem sum_le_of_getD_le : ∀ (a b : List Nat), a.length = b.length →
    (∀ j, a.getD j 0 ≤ b.getD j 0) → a.sum ≤ b.sum
  | [], [], _, _ => by simp
  | [], _ :: _, h, _ => by simp at h
  | _ :: _, [], h, _ => by simp at h
  | x :: a, y :: b, hl, h => by
    have h0 : x ≤ y := by simpa using h 0
    have := sum_le_of_getD_le a b (by simpa using hl) (fun j => by simpa using h (j + 1))
    simp only [List.sum_cons]; omega

theorem first_diff : ∀ (a b : List Nat), a.length = b.length → a ≠ b →
    ∃ pos, pos < a.length ∧ a.getD pos 0 ≠ b.getD pos 0 ∧ ∀ j, j < pos → a.getD j 0 = b.getD j 0
  | [], [], _, h => absurd rfl h
  | [], _ :: _, h, _ => by simp at h
  | _ :: _, [], h, _ => by simp at h
  | x :: a, y :: b, hl, hne => by
    by_cases hxy : x = y
    · subst hxy
      have hne' : a ≠ b := fun e => hne (by rw [e])
      obtain ⟨pos, hp, hd, hj⟩ := first_diff a b (by simpa using hl) hne'
      refine ⟨pos + 1, by simpa using hp, by simpa using hd, ?_⟩
      intro j hjp
      cases j with
      | zero => simp
      | succ j => simpa using hj j (by omega)
    · exact ⟨0, by simp, by simpa using hxy, fun j hj => by omega⟩

/-! ### `isParentAround` -/

theorem isParentAround_false_iff (O : POps P) (s : Struct P) (w : List Nat) (m : P) :
    isParentAround O s w m = false ↔
      ∀ pos, 0 < w.getD pos 0 → O.le (findProb O s (dec w pos)) m = false := by
  rw [isParentAround_eq, List.any_eq_false]
  constructor
  · intro h pos hpos
    have := h (findProb O s (dec w pos), pos) ((mem_cands O s w _).mpr ⟨hpos, rfl⟩)
    simpa using this
  · intro h y hy
    have ⟨h1, h2⟩ := (mem_cands O s w y).mp hy
    rw [h2]; simp [h y.2 h1]

/-! ### the walk on one structure -/

section walk
variable (A : PAlg P) (s : Struct P) (m mn : P)

/-- what the walk does at a valid node, in terms of the three outcomes -/
theorem restoreWalk_succ (hmn : ∀ i, validIdx s.cols i = true → A.lt (findProb A.toPOps s i) mn = false)
    (fuel : Nat) (idx : List Nat) (left : Nat) (hv : validIdx s.cols idx = true) :
    restoreWalk A.toPOps s m mn (fuel + 1) idx left =
      if A.le (findProb A.toPOps s idx) m = true then
        (if isParentAround A.toPOps s idx m = true then [] else [idx])
      else
        ((List.range idx.length).filter (fun pos => decide (left ≤ pos))).flatMap fun pos =>
          if (((s.cols.getD pos []).length == idx.getD pos 0 + 1) = true) then []
          else restoreWalk A.toPOps s m mn fuel (inc idx pos) pos := by
  rw [restoreWalk, restoreGuard_eq _ _ _ _ _ (hmn idx hv)]
  by_cases h1 : A.le (findProb A.toPOps s idx) m = true
  · rw [if_pos h1, if_pos h1]
    by_cases h2 : isParentAround A.toPOps s idx m = true
    · rw [if_pos h2, if_pos h2]
    · rw [if_neg h2, if_neg h2]
  · rw [if_neg h1, if_neg h1]
    simp only [rrSkip_eq]

theorem walk_sound (hmn : ∀ i, validIdx s.cols i = true → A.lt (findProb A.toPOps s i) mn = false) :
    ∀ (fuel : Nat) (idx : List Nat) (left : Nat) (w : List Nat), validIdx s.cols idx = true →
      w ∈ restoreWalk A.toPOps s m mn fuel idx left →
      validIdx s.cols w = true ∧ (∀ j, idx.getD j 0 ≤ w.getD j 0) ∧
        (∀ j, j < left → w.getD j 0 = idx.getD j 0) ∧
        A.le (findProb A.toPOps s w) m = true ∧ isParentAround A.toPOps s w m = false
  | 0, _, _, _, _, hw => by simp [restoreWalk] at hw
  | fuel + 1, idx, left, w, hv, hw => by
    rw [restoreWalk_succ A s m mn hmn fuel idx left hv] at hw
    by_cases h1 : A.le (findProb A.toPOps s idx) m = true
    · rw [if_pos h1] at hw
      by_cases h2 : isParentAround A.toPOps s idx m = true
      · rw [if_pos h2] at hw; cases hw
      · rw [if_neg h2] at hw
        have : w = idx := by simpa using hw
        subst this
        exact ⟨hv, fun _ => Nat.le_refl _, fun _ _ => rfl, h1, by simpa using h2⟩
    · rw [if_neg h1, List.mem_flatMap] at hw
      obtain ⟨pos, hpos, hw⟩ := hw
      simp only [List.mem_filter, List.mem_range, decide_eq_true_eq] at hpos
      split at hw
      · cases hw
      · rename_i hs
        have hvl := (validIdx_iff _ _).mp hv
        have hlt := hvl.2 pos (by omega)
        have hs' : (s.cols.getD pos []).length ≠ idx.getD pos 0 + 1 := by simpa using hs
        have hvi : validIdx s.cols (inc idx pos) = true := validIdx_inc hv pos (by omega)
        have ⟨r1, r2, r3, r4, r5⟩ := walk_sound hmn fuel (inc idx pos) pos w hvi hw
        refine ⟨r1, ?_, ?_, r4, r5⟩
        · intro j
          have := r2 j
          rw [getD_inc] at this
          split at this <;> omega
        · intro j hj
          have := r3 j (by omega)
          rw [getD_inc] at this
          rw [this, if_neg (by omega)]

/-- nodes found in the branch of position `pos` have a strictly larger index there -/
theorem walk_branch_gt (hmn : ∀ i, validIdx s.cols i = true → A.lt (findProb A.toPOps s i) mn = false)
    (fuel : Nat) (idx : List Nat) (pos : Nat) (w : List Nat) (hpos : pos < idx.length)
    (hvi : validIdx s.cols (inc idx pos) = true)
    (hw : w ∈ restoreWalk A.toPOps s m mn fuel (inc idx pos) pos) :
    idx.getD pos 0 < w.getD pos 0 ∧ ∀ j, j < pos → w.getD j 0 = idx.getD j 0 := by
  have ⟨_, r2, r3, _, _⟩ := walk_sound A s m mn hmn fuel (inc idx pos) pos w hvi hw
  constructor
  · have := r2 pos
    rw [getD_inc, if_pos ⟨rfl, hpos⟩] at this
    omega
  · intro j hj
    have := r3 j hj
    rw [getD_inc, if_neg (by omega)] at this
    exact this

theorem walk_nodup (hmn : ∀ i, validIdx s.cols i = true → A.lt (findProb A.toPOps s i) mn = false) :
    ∀ (fuel : Nat) (idx : List Nat) (left : Nat), validIdx s.cols idx = true →
      (restoreWalk A.toPOps s m mn fuel idx left).Nodup
  | 0, _, _, _ => by simp [restoreWalk]
  | fuel + 1, idx, left, hv => by
    rw [restoreWalk_succ A s m mn hmn fuel idx left hv]
    have hvl := (validIdx_iff _ _).mp hv
    split
    · split <;> simp
    · simp only [List.Nodup]
      rw [List.pairwise_flatMap]
      constructor
      · intro pos hpos
        simp only [List.mem_filter, List.mem_range, decide_eq_true_eq] at hpos
        split
        · simp
        · rename_i hs
          have hlt := hvl.2 pos (by omega)
          have hs' : (s.cols.getD pos []).length ≠ idx.getD pos 0 + 1 := by simpa using hs
          exact walk_nodup hmn fuel (inc idx pos) pos (validIdx_inc hv pos (by omega))
      · have hr : (List.range idx.length).Pairwise (fun a b => b < idx.length ∧ a < b) :=
          (List.pairwise_lt_range (n := idx.length)).imp_of_mem (by
            intro a b _ hb hab; exact ⟨List.mem_range.mp hb, hab⟩)
        refine (hr.filter _).imp ?_
        intro a b hab x hx y hy
        split at hx
        · cases hx
        · rename_i hsa
          split at hy
          · cases hy
          · rename_i hsb
            have hlta := hvl.2 a (by omega)
            have hltb := hvl.2 b (by omega)
            have hsa' : (s.cols.getD a []).length ≠ idx.getD a 0 + 1 := by simpa using hsa
            have hsb' : (s.cols.getD b []).length ≠ idx.getD b 0 + 1 := by simpa using hsb
            have ha := walk_branch_gt A s m mn hmn fuel idx a x (by omega)
              (validIdx_inc hv a (by omega)) hx
            have hb := walk_branch_gt A s m mn hmn fuel idx b y (by omega)
              (validIdx_inc hv b (by omega)) hy
            intro e
            subst e
            have := hb.2 a hab.2
            omega

theorem walk_complete
    (hmn : ∀ i, validIdx s.cols i = true → A.lt (findProb A.toPOps s i) mn = false)
    (w : List Nat) (hw : validIdx s.cols w = true)
    (hsave : A.le (findProb A.toPOps s w) m = true ∧ isParentAround A.toPOps s w m = false)
    (hanc : ∀ u, validIdx s.cols u = true → (∀ j, u.getD j 0 ≤ w.getD j 0) → u ≠ w →
      A.le (findProb A.toPOps s u) m = false) :
    ∀ (fuel : Nat) (idx : List Nat) (left : Nat), validIdx s.cols idx = true →
      (∀ j, idx.getD j 0 ≤ w.getD j 0) → (∀ j, j < left → w.getD j 0 = idx.getD j 0) →
      w.sum < idx.sum + fuel → w ∈ restoreWalk A.toPOps s m mn fuel idx left
  | 0, idx, _, hv, hle, _, hf => by
    have := sum_le_of_getD_le idx w (by rw [validIdx_length hv, validIdx_length hw]) hle
    omega
  | fuel + 1, idx, left, hv, hle, hleft, hf => by
    rw [restoreWalk_succ A s m mn hmn fuel idx left hv]
    have hlen : idx.length = w.length := by rw [validIdx_length hv, validIdx_length hw]
    by_cases he : idx = w
    · subst he
      rw [if_pos hsave.1, if_neg (by simp [hsave.2])]
      simp
    · have hnle := hanc idx hv hle he
      rw [if_neg (by simp [hnle])]
      obtain ⟨pos, hpos, hd, hbelow⟩ := first_diff idx w hlen he
      have hlp : left ≤ pos := by
        by_cases h : left ≤ pos
        · exact h
        · exact absurd (hleft pos (by omega)).symm hd
      have hlt : idx.getD pos 0 < w.getD pos 0 := by have := hle pos; omega
      have hwl := (validIdx_iff _ _).mp hw
      have hwlt := hwl.2 pos (by omega)
      rw [List.mem_flatMap]
      refine ⟨pos, by simp [hpos, hlp], ?_⟩
      have hs : ¬ (((s.cols.getD pos []).length == idx.getD pos 0 + 1) = true) := by
        rw [beq_iff_eq]; omega
      rw [if_neg hs]
      apply walk_complete hmn w hw hsave hanc fuel (inc idx pos) pos
        (validIdx_inc hv pos (by omega))
      · intro j
        rw [getD_inc]
        split
        · rename_i hj; rw [hj.1]; omega
        · exact hle j
      · intro j hj
        rw [getD_inc, if_neg (by omega)]
        exact (hbelow j hj).symm
      · rw [sum_inc idx pos hpos]; omega

/-- the nodes saved by the walk from the root -/
theorem mem_restoreWalk_root
    (hcols : ∀ c ∈ s.cols, c.Pairwise (fun a b => A.le b a = true))
    (hne : ∀ c ∈ s.cols, c ≠ [])
    (hmn : ∀ i, validIdx s.cols i = true → A.lt (findProb A.toPOps s i) mn = false)
    (w : List Nat) :
    w ∈ restoreWalk A.toPOps s m mn (restoreFuel s) (rootIdx s) 0 ↔
      validIdx s.cols w = true ∧ A.le (findProb A.toPOps s w) m = true ∧
        isParentAround A.toPOps s w m = false := by
  have hroot := validIdx_rootIdx s hne
  constructor
  · intro h
    have ⟨r1, _, _, r4, r5⟩ := walk_sound A s m mn hmn _ _ _ w hroot h
    exact ⟨r1, r4, r5⟩
  · rintro ⟨hw, h1, h2⟩
    apply walk_complete A s m mn hmn w hw ⟨h1, h2⟩ _ _ _ _ hroot
    · intro j; rw [rootIdx_getD]; exact Nat.zero_le _
    · intro j hj; omega
    · have := validIdx_sum_le s.cols w hw
      simp only [restoreFuel]; omega
    · intro u hu hle hne'
      obtain ⟨pos, hpos, hd, _⟩ := first_diff u w
        (by rw [validIdx_length hu, validIdx_length hw]) hne'
      have hlt : u.getD pos 0 < w.getD pos 0 := by have := hle pos; omega
      have hpar := (isParentAround_false_iff _ _ _ _).mp h2 pos (by omega)
      have hmono : A.le (findProb A.toPOps s (dec w pos)) (findProb A.toPOps s u) = true := by
        apply findProb_mono A s hcols _ _ (validIdx_dec hw pos) hu
        intro j; rw [getD_dec]
        split
        · rename_i hj; rw [hj]; omega
        · exact hle j
      rcases Bool.eq_false_or_eq_true (A.le (findProb A.toPOps s u) m) with h | h
      · have := A.le_trans _ _ _ hmono h
        rw [hpar] at this; cases this
      · exact h

end walk

/-! ### the restricted system and `restoreNodes` -/

section
variable [Inhabited P]

def aliveB (A : PAlg P) (g : Grid P) (m : P) : Node → Bool :=
  fun v => A.le (nodeProb A.toPOps g v) m

def restoreSys (A : PAlg P) (g : Grid P) (m : P) : Adopt.Sys Node :=
  (gridSys A g).restrict (aliveB A g m)

theorem mem_restoreSys_all (A : PAlg P) (g : Grid P) (m : P) (v : Node) :
    v ∈ (restoreSys A g m).all ↔ ValidNode g v ∧ A.le (nodeProb A.toPOps g v) m = true := by
  show v ∈ (allNodes g).filter (aliveB A g m) ↔ _
  rw [List.mem_filter, mem_allNodes]; rfl

theorem restoreSys_adopter (A : PAlg P) (g : Grid P) (m : P) (v : Node) :
    (restoreSys A g m).adopter v = (gridAdopter A g v).filter (aliveB A g m) := rfl

theorem mem_restoreSys_roots (A : PAlg P) (g : Grid P) (m : P) (v : Node) :
    v ∈ (restoreSys A g m).roots ↔ ValidNode g v ∧ A.le (nodeProb A.toPOps g v) m = true ∧
      isParentAround A.toPOps (g.struct v.b) v.idx m = false := by
  unfold Adopt.Sys.roots
  rw [List.mem_filter, mem_restoreSys_all, Option.isNone_iff_eq_none, restoreSys_adopter,
    Option.filter_eq_none_iff, isParentAround_false_iff, and_assoc]
  apply and_congr_right; intro hv
  apply and_congr_right; intro _
  constructor
  · intro h pos hpos
    have hmem : (findProb A.toPOps (g.struct v.b) (dec v.idx pos), pos) ∈
        cands A.toPOps (g.struct v.b) v.idx := (mem_cands _ _ _ _).mpr ⟨hpos, rfl⟩
    obtain ⟨y, hy⟩ := Best.argmin_isSome A.ord _ _ hmem
    have hsp := (Best.argmin_spec A.ord _ (cands_pairwise _ _ _) y hy).1 _ hmem
    have hle : A.le y.1 (findProb A.toPOps (g.struct v.b) (dec v.idx pos)) = true :=
      Best.le_of_not_lt A.ord _ _ hsp
    have hp := h ⟨v.b, dec v.idx y.2⟩ ((gridAdopter_eq_some A g v _).mpr ⟨hv, y, hy, rfl⟩)
    have hy1 := (argmin_cands A _ _ y hy).2
    have hna : A.le y.1 m = false := by
      rw [hy1]; simpa [aliveB, nodeProb] using hp
    rcases Bool.eq_false_or_eq_true
      (A.le (findProb A.toPOps (g.struct v.b) (dec v.idx pos)) m) with h' | h'
    · have := A.le_trans _ _ _ hle h'
      rw [hna] at this; cases this
    · exact h'
  · intro h p hp
    rw [gridAdopter_eq_some] at hp
    obtain ⟨_, y, hy, rfl⟩ := hp
    have := h y.2 (argmin_cands A _ _ y hy).1
    simpa [aliveB, nodeProb] using this

theorem mem_restoreNodes (O : POps P) (g : Grid P) (m mn : P) (v : Node) :
    v ∈ restoreNodes O g m mn ↔ v.b < g.length ∧
      v.idx ∈ restoreWalk O (g.struct v.b) m mn (restoreFuel (g.struct v.b))
        (rootIdx (g.struct v.b)) 0 := by
  simp only [restoreNodes, List.mem_flatMap, List.mem_range, List.mem_map]
  constructor
  · rintro ⟨b, hb, i, hi, rfl⟩; exact ⟨hb, hi⟩
  · rintro ⟨hb, hi⟩; exact ⟨v.b, hb, v.idx, hi, rfl⟩

theorem nodup_restoreNodes (A : PAlg P) (g : Grid P) (hwf : WF A.toPOps g) (m mn : P)
    (hmin : ∀ v, ValidNode g v → A.lt (nodeProb A.toPOps g v) mn = false) :
    (restoreNodes A.toPOps g m mn).Nodup := by
  simp only [restoreNodes, List.Nodup]
  rw [List.pairwise_flatMap]
  constructor
  · intro b hb
    rw [List.mem_range] at hb
    rw [List.pairwise_map]
    have := walk_nodup A (g.struct b) m mn (fun i hi => hmin ⟨b, i⟩ ⟨hb, hi⟩)
      (restoreFuel (g.struct b)) (rootIdx (g.struct b)) 0
      (validIdx_rootIdx _ (wf_cols_ne A g hwf b hb))
    exact this.imp (by intro x y hxy e; exact hxy (by simpa using e))
  · exact List.nodup_range.imp (by
      intro a b hab x hx y hy e
      simp only [List.mem_map] at hx hy
      obtain ⟨x', _, rfl⟩ := hx
      obtain ⟨y', _, rfl⟩ := hy
      simp at e
      exact hab e.1)

theorem restoreNodes_perm (A : PAlg P) (g : Grid P) (hwf : WF A.toPOps g) (m mn : P)
    (hmin : ∀ v, ValidNode g v → A.lt (nodeProb A.toPOps g v) mn = false) :
    (restoreNodes A.toPOps g m mn).Perm (restoreSys A g m).roots := by
  have hnd2 : (restoreSys A g m).roots.Nodup :=
    (restoreSys A g m).all_nodup.sublist List.filter_sublist
  rw [List.perm_ext_iff_of_nodup (nodup_restoreNodes A g hwf m mn hmin) hnd2]
  intro v
  rw [mem_restoreNodes, mem_restoreSys_roots]
  constructor
  · rintro ⟨hb, hw⟩
    rw [mem_restoreWalk_root A _ m mn (wf_cols A g hwf v.b hb) (wf_cols_ne A g hwf v.b hb)
      (fun i hi => hmin ⟨v.b, i⟩ ⟨hb, hi⟩)] at hw
    exact ⟨⟨hb, hw.1⟩, hw.2.1, hw.2.2⟩
  · rintro ⟨hv, h1, h2⟩
    refine ⟨hv.1, ?_⟩
    rw [mem_restoreWalk_root A _ m mn (wf_cols A g hwf v.b hv.1) (wf_cols_ne A g hwf v.b hv.1)
      (fun i hi => hmin ⟨v.b, i⟩ ⟨hv.1, hi⟩)]
    exact ⟨hv.2, h1, h2⟩

theorem restoreSys_children_ok (A : PAlg P) (g : Grid P) (hwf : WF A.toPOps g) (m : P) :
    ∀ x ∈ (restoreSys A g m).all,
      (nodeChildren A.toPOps g x).Perm ((restoreSys A g m).children x) := by
  intro x hx
  rw [mem_restoreSys_all] at hx
  have : (restoreSys A g m).children x = (gridSys A g).children x := by
    apply Adopt.restrict_children
    · intro v p hvp hp
      exact A.le_trans _ _ _ (gridAdopter_le A g hwf v p hvp) hp
    · exact hx.2
  rw [this]
  exact nodeChildren_perm A g x hx.1

theorem restoreSys_le (A : PAlg P) (g : Grid P) (hwf : WF A.toPOps g) (m : P) :
    ∀ v p, (restoreSys A g m).adopter v = some p →
      A.le (nodeProb A.toPOps g v) (nodeProb A.toPOps g p) = true := by
  intro v p h
  rw [restoreSys_adopter, Option.filter_eq_some_iff] at h
  exact gridAdopter_le A g hwf v p h.1

end
end Pcfg
