import PcfgVerif.Lemmas.ScoreB1
import PcfgVerif.Lemmas.ScoreB2
/-! Helper lemmas for C13 (the scorer's promise), part 3: section by section, the pieces of the
pre-terminal, their membership in the guesser's grammar and the product of their probabilities. -/
namespace Pcfg.ScoreB
open Pcfg Pcfg.Detect

/-- factor the scorer looks up for an item of a length-indexed list -/
def fI {P : Type} (zero : P) (g : ScoreG P) (c : Char) (v : CPs) : P := g.look zero (lbl c v.length) v
/-- factor the scorer looks up for an item of a list without length index (`Y`, `X`) -/
def fN {P : Type} (zero : P) (g : ScoreG P) (c : Char) (v : CPs) : P := g.look zero (String.ofList [c]) v

def lab (s : Sec) : String := s.2.getD "?"

/-- the score's factors grouped by category, over the section texts and the matched alpha records -/
def Q {P : Type} (mul : P → P → P) (one zero : P) (g : ScoreG P) (secs : List Sec)
    (recs : List AlphaRec) : P :=
  mul (prodL mul one ((textsOf secs 'K').map (fI zero g 'K')))
  (mul (prodL mul one ((textsOf secs 'Y').map (fN zero g 'Y')))
  (mul (prodL mul one ((textsOf secs 'X').map (fN zero g 'X')))
  (mul (prodL mul one (recs.map fun r => fI zero g 'A' r.word))
  (mul (prodL mul one (recs.map fun r => fI zero g 'C' r.mask))
  (mul (prodL mul one ((textsOf secs 'D').map (fI zero g 'D')))
       (prodL mul one ((textsOf secs 'O').map (fI zero g 'O'))))))))

/-- what is built for a list of sections: pieces in the grammar whose texts are the section texts,
whose variables are the case-inserted labels, and whose `_find_prob` product is `Q` -/
def Built {P : Type} (mul : P → P → P) (one zero : P) (le : P → P → Bool) (U : UEnv)
    (upper : Char → List Char) (g : ScoreG P) (V : GView P) (secs : List Sec) (recs : List AlphaRec) :
    Prop :=
  ∃ (pieces : List Piece) (idx : List Nat),
    (∀ p ∈ pieces, p.InGrammar upper (isUp U) V.E ∧ p.WordNonEmpty) ∧
    pieces.flatMap Piece.text = toStr (secs.flatMap (·.1)) ∧
    pieces.flatMap Piece.pt = mkPT ((secs.map lab).flatMap insC) idx ∧
    idx.length = ((secs.map lab).flatMap insC).length ∧
    ∀ acc, probFold ⟨le, mul⟩ acc (((secs.map lab).flatMap insC).map V.colP) idx =
      mul acc (Q mul one zero g secs recs)

def SecOK (s : Sec) : Prop := s.1 ≠ [] ∧ ∃ l, s.2 = some l ∧ GoodLabel s.1 l

def SecNZ {P : Type} (zero : P) (g : ScoreG P) (s : Sec) : Prop :=
  (s.2 = some (lbl 'K' s.1.length) → fI zero g 'K' s.1 ≠ zero) ∧
  (s.2 = some "Y1" → fN zero g 'Y' s.1 ≠ zero) ∧
  (s.2 = some "X1" → fN zero g 'X' s.1 ≠ zero) ∧
  (s.2 = some (lbl 'D' s.1.length) → fI zero g 'D' s.1 ≠ zero) ∧
  (s.2 = some (lbl 'O' s.1.length) → fI zero g 'O' s.1 ≠ zero)

def RecOK {P : Type} (zero : P) (U : UEnv) (upper : Char → List Char) (g : ScoreG P) (r : AlphaRec) :
    Prop :=
  fI zero g 'A' r.word ≠ zero ∧ fI zero g 'C' r.mask ≠ zero ∧ r.mask = maskOfCP U r.orig ∧
  r.word.length = r.orig.length ∧ TamePair upper (isUp U) (toStr r.orig) (toStr r.word) ∧
  ScalarCPs r.orig

/-- `Agree` with `term` restricted to the guesser's variable names: all the promise needs -/
structure AgreeW {P : Type} (zero : P) (g : ScoreG P) (V : GView P) : Prop where
  term : ∀ (l : String) (v : CPs), TermLabel l → g.look zero (scName l) v ≠ zero →
    ∃ j vals, V.E.values l j = some vals ∧ toStr v ∈ vals ∧ (V.colP l)[j]? = some (g.look zero (scName l) v)
  base : ∀ (labels : List String), (∀ l ∈ labels, ∃ text, LabelOK text l) →
    g.look zero "B" (cpsOfString (String.join labels)) ≠ zero →
    ∃ reps, (reps, g.look zero "B" (cpsOfString (String.join labels))) ∈ V.bases ∧
      reps = labels.flatMap fun l =>
        match l.toList with
        | 'A' :: n => [l, String.ofList ('C' :: n)]
        | _ => [l]
  masks : ∀ (n j : Nat) (vals : List Str), V.E.values (lbl 'C' n) j = some vals → ∀ m ∈ vals, m.length = n

theorem AgreeW.of_agree {P : Type} {zero : P} {g : ScoreG P} {V : GView P} (h : Agree zero g V) :
    AgreeW zero g V :=
  ⟨h.term, h.base, h.masks⟩

theorem termLabel_lbl (c : Char) (n : Nat) (h : c = 'K' ∨ c = 'A' ∨ c = 'C' ∨ c = 'D' ∨ c = 'O') :
    TermLabel (lbl c n) := Or.inl ⟨c, n, h, rfl⟩

section
variable {P : Type} {mul : P → P → P} {one zero : P} (L : Laws mul one zero) (le : P → P → Bool)
  (U : UEnv) (upper : Char → List Char) {g : ScoreG P} {V : GView P} (hag : AgreeW zero g V)
include L hag

theorem plain_step (text : CPs) (l : String) (rest : List Sec) (recs : List AlphaRec) (cat : Char)
    (hcat : l.toList.head? = some cat) (hM : Generated.Expand.isMarkov cat = false)
    (hC : Generated.Expand.isCase cat = false) (hins : insC l = [l]) (htl : TermLabel l)
    (hnz : g.look zero (scName l) text ≠ zero)
    (hQ : Q mul one zero g ((text, some l) :: rest) recs =
      mul (g.look zero (scName l) text) (Q mul one zero g rest recs))
    (ih : Built mul one zero le U upper g V rest recs) :
    Built mul one zero le U upper g V ((text, some l) :: rest) recs := by
  obtain ⟨j, vals, hv, hmem, hcol⟩ := hag.term l text htl hnz
  obtain ⟨pieces, idx, hin, htext, hpt, hlen, hprob⟩ := ih
  have hl : lab (text, some l) = l := rfl
  refine ⟨.plain l j (toStr text) :: pieces, j :: idx, ?_, ?_, ?_, ?_, ?_⟩
  · intro p hp
    rcases List.mem_cons.mp hp with rfl | hp
    · exact ⟨⟨cat, vals, hcat, hM, hC, hv, hmem⟩, trivial⟩
    · exact hin p hp
  · rw [List.flatMap_cons, List.flatMap_cons, htext, toStr_append]
    rfl
  · rw [List.flatMap_cons, List.map_cons, List.flatMap_cons, hpt, hl, hins]
    rfl
  · rw [List.map_cons, List.flatMap_cons, hl, hins]
    simp [hlen]
  · intro acc
    rw [List.map_cons, List.flatMap_cons, hl, hins, List.singleton_append, List.map_cons,
      probFold_cons_some le acc _ _ _ _ _ hcol, hprob, hQ, L.mul_assoc]

theorem alpha_step (text : CPs) (rest : List Sec) (r : AlphaRec) (recs : List AlphaRec)
    (hne : text ≠ []) (ho : r.orig = text) (hr : RecOK zero U upper g r)
    (ih : Built mul one zero le U upper g V rest recs) :
    Built mul one zero le U upper g V ((text, some (lbl 'A' text.length)) :: rest) (r :: recs) := by
  obtain ⟨hzA, hzC, hmask, hwl, htame, hsc⟩ := hr
  have hml : r.mask.length = text.length := by rw [hmask, maskOfCP_length, ho]
  have hwl' : r.word.length = text.length := by rw [hwl, ho]
  unfold fI at hzA hzC
  rw [hwl'] at hzA
  rw [hml] at hzC
  have hsA : scName (lbl 'A' text.length) = lbl 'A' text.length :=
    scName_lbl 'A' _ (by decide) (by decide)
  have hsC : scName (lbl 'C' text.length) = lbl 'C' text.length :=
    scName_lbl 'C' _ (by decide) (by decide)
  obtain ⟨i, valsA, hvA, hmemA, hcolA⟩ := hag.term (lbl 'A' text.length) r.word
    (termLabel_lbl _ _ (by simp)) (by rw [hsA]; exact hzA)
  obtain ⟨j, valsC, hvC, hmemC, hcolC⟩ := hag.term (lbl 'C' text.length) r.mask
    (termLabel_lbl _ _ (by simp)) (by rw [hsC]; exact hzC)
  rw [hsA] at hcolA
  rw [hsC] at hcolC
  obtain ⟨pieces, idx, hin, htext, hpt, hlen, hprob⟩ := ih
  have hl : lab (text, some (lbl 'A' text.length)) = lbl 'A' text.length := rfl
  have hwne : toStr r.word ≠ [] := by
    intro h
    have h1 : (toStr r.word).length = 0 := by rw [h]; rfl
    rw [toStr_length, hwl'] at h1
    exact hne (List.length_eq_zero_iff.mp h1)
  refine ⟨.alpha (lbl 'A' text.length) i (lbl 'C' text.length) j (toStr text) (toStr r.word) :: pieces,
    i :: j :: idx, ?_, ?_, ?_, ?_, ?_⟩
  · intro p hp
    rcases List.mem_cons.mp hp with rfl | hp
    · refine ⟨⟨⟨'A', valsA, head_lbl 'A' _, by decide, by decide, hvA, hmemA⟩, ⟨valsC, head_lbl 'C' _, hvC, ?_, ?_⟩, ?_⟩, hwne⟩
      · rw [← ho, maskOf_toStr U r.orig hsc, ← hmask]
        exact hmemC
      · have hh : valsC.headD [] ∈ valsC := by
          cases valsC with
          | nil => cases hmemC
          | cons a as => simp
        rw [hag.masks text.length j valsC hvC _ hh, toStr_length, hwl']
      · rw [← ho]; exact htame
    · exact hin p hp
  · rw [List.flatMap_cons, List.flatMap_cons, htext, toStr_append]
    rfl
  · rw [List.flatMap_cons, List.map_cons, List.flatMap_cons, hpt, hl, insC_lblA]
    rfl
  · rw [List.map_cons, List.flatMap_cons, hl, insC_lblA]
    simp [hlen]
  · intro acc
    have hQ : Q mul one zero g ((text, some (lbl 'A' text.length)) :: rest) (r :: recs) =
        mul (mul (g.look zero (lbl 'A' text.length) r.word) (g.look zero (lbl 'C' text.length) r.mask))
          (Q mul one zero g rest recs) := by
      unfold Q
      simp (config := { decide := true }) only [textsOf_cons, labelCat_lbl, Option.some.injEq,
        if_false, List.map_cons, prodL_cons L]
      unfold fI
      rw [hwl', hml]
      haveI : Std.Associative mul := ⟨L.mul_assoc⟩
      haveI : Std.Commutative mul := ⟨L.mul_comm⟩
      ac_rfl
    rw [List.map_cons, List.flatMap_cons, hl, insC_lblA]
    show probFold ⟨le, mul⟩ acc (V.colP (lbl 'A' text.length) :: V.colP (lbl 'C' text.length) ::
      (((rest.map lab).flatMap insC).map V.colP)) (i :: j :: idx) = _
    rw [probFold_cons_some le acc _ _ _ _ _ hcolA, probFold_cons_some le _ _ _ _ _ _ hcolC, hprob, hQ,
      L.mul_assoc, L.mul_assoc, L.mul_assoc]

omit hag in
theorem built_nil : Built mul one zero le U upper g V [] [] := by
  refine ⟨[], [], ?_, rfl, rfl, rfl, ?_⟩
  · intro p hp; cases hp
  · intro acc
    simp [Q, textsOf_nil, prodL_nil, L.one_mul, L.mul_one, probFold]

theorem built_all : ∀ (secs : List Sec) (recs : List AlphaRec),
    (∀ s ∈ secs, SecOK s) → (∀ s ∈ secs, SecNZ zero g s) →
    recs.map (·.orig) = textsOf secs 'A' → (∀ r ∈ recs, RecOK zero U upper g r) →
    Built mul one zero le U upper g V secs recs
  | [], recs, _, _, hA, _ => by
    have : recs = [] := by simpa [textsOf_nil] using hA
    subst this
    exact built_nil L le U upper
  | (text, lo) :: rest, recs, hok, hnz, hA, hrec => by
    obtain ⟨hne, l, hl, hgood⟩ := hok (text, lo) (by simp)
    have hl' : lo = some l := hl
    subst hl'
    obtain ⟨nK, nY, nX, nD, nO⟩ := hnz (text, some l) (by simp)
    have hgood : GoodLabel text l := hgood
    have hne : text ≠ [] := hne
    have nK : some l = some (lbl 'K' text.length) → fI zero g 'K' text ≠ zero := nK
    have nY : some l = some "Y1" → fN zero g 'Y' text ≠ zero := nY
    have nX : some l = some "X1" → fN zero g 'X' text ≠ zero := nX
    have nD : some l = some (lbl 'D' text.length) → fI zero g 'D' text ≠ zero := nD
    have nO : some l = some (lbl 'O' text.length) → fI zero g 'O' text ≠ zero := nO
    clear hl
    have hok' : ∀ s ∈ rest, SecOK s := fun s hs => hok s (by simp [hs])
    have hnz' : ∀ s ∈ rest, SecNZ zero g s := fun s hs => hnz s (by simp [hs])
    haveI : Std.Associative mul := ⟨L.mul_assoc⟩
    haveI : Std.Commutative mul := ⟨L.mul_comm⟩
    rcases hgood with h | h | h | h | h | h
    · -- keyboard walk
      subst h
      have hA' : recs.map (·.orig) = textsOf rest 'A' := by
        rw [hA, textsOf_cons, labelCat_lbl]; simp (config := { decide := true })
      have ih := built_all rest recs hok' hnz' hA' hrec
      have hs := scName_lbl 'K' text.length (by decide) (by decide)
      refine plain_step L le U upper hag text _ rest recs 'K' (head_lbl _ _) (by decide) (by decide)
        (insC_lbl _ _ (by decide)) (termLabel_lbl _ _ (by simp)) (by rw [hs]; exact nK rfl) ?_ ih
      rw [hs]
      unfold Q
      simp (config := { decide := true }) only [textsOf_cons, labelCat_lbl, Option.some.injEq,
        if_false, if_true, List.map_cons, prodL_cons L]
      unfold fI
      ac_rfl
    · -- year
      subst h
      have hA' : recs.map (·.orig) = textsOf rest 'A' := by
        rw [hA, textsOf_cons, labelCat_Y1]; simp (config := { decide := true })
      have ih := built_all rest recs hok' hnz' hA' hrec
      refine plain_step L le U upper hag text _ rest recs 'Y' (by decide) (by decide) (by decide)
        insC_Y1 (Or.inr (Or.inl rfl)) (by rw [scName_Y1]; exact nY rfl) ?_ ih
      rw [scName_Y1]
      unfold Q
      simp (config := { decide := true }) only [textsOf_cons, if_false, if_true, List.map_cons,
        prodL_cons L]
      unfold fN
      ac_rfl
    · -- context-sensitive string
      subst h
      have hA' : recs.map (·.orig) = textsOf rest 'A' := by
        rw [hA, textsOf_cons, labelCat_X1]; simp (config := { decide := true })
      have ih := built_all rest recs hok' hnz' hA' hrec
      refine plain_step L le U upper hag text _ rest recs 'X' (by decide) (by decide) (by decide)
        insC_X1 (Or.inr (Or.inr rfl)) (by rw [scName_X1]; exact nX rfl) ?_ ih
      rw [scName_X1]
      unfold Q
      simp (config := { decide := true }) only [textsOf_cons, if_false, if_true, List.map_cons,
        prodL_cons L]
      unfold fN
      ac_rfl
    · -- alpha
      subst h
      rw [textsOf_cons, labelCat_lbl, if_pos rfl] at hA
      match recs, hA, hrec with
      | r :: recs', hA, hrec =>
        simp only [List.map_cons, List.cons.injEq] at hA
        have ih := built_all rest recs' hok' hnz' hA.2 (fun r hr => hrec r (by simp [hr]))
        exact alpha_step L le U upper hag text rest r recs' hne hA.1 (hrec r (by simp)) ih
    · -- digits
      subst h
      have hA' : recs.map (·.orig) = textsOf rest 'A' := by
        rw [hA, textsOf_cons, labelCat_lbl]; simp (config := { decide := true })
      have ih := built_all rest recs hok' hnz' hA' hrec
      have hs := scName_lbl 'D' text.length (by decide) (by decide)
      refine plain_step L le U upper hag text _ rest recs 'D' (head_lbl _ _) (by decide) (by decide)
        (insC_lbl _ _ (by decide)) (termLabel_lbl _ _ (by simp)) (by rw [hs]; exact nD rfl) ?_ ih
      rw [hs]
      unfold Q
      simp (config := { decide := true }) only [textsOf_cons, labelCat_lbl, Option.some.injEq,
        if_false, if_true, List.map_cons, prodL_cons L]
      unfold fI
      ac_rfl
    · -- other
      subst h
      have hA' : recs.map (·.orig) = textsOf rest 'A' := by
        rw [hA, textsOf_cons, labelCat_lbl]; simp (config := { decide := true })
      have ih := built_all rest recs hok' hnz' hA' hrec
      have hs := scName_lbl 'O' text.length (by decide) (by decide)
      refine plain_step L le U upper hag text _ rest recs 'O' (head_lbl _ _) (by decide) (by decide)
        (insC_lbl _ _ (by decide)) (termLabel_lbl _ _ (by simp)) (by rw [hs]; exact nO rfl) ?_ ih
      rw [hs]
      unfold Q
      simp (config := { decide := true }) only [textsOf_cons, labelCat_lbl, Option.some.injEq,
        if_false, if_true, List.map_cons, prodL_cons L]
      unfold fI
      ac_rfl
  termination_by secs => secs.length

end

end Pcfg.ScoreB
