import PcfgVerif.Lemmas.OmenTrainD
/-!
# OMEN trainer, part E: `levelKeyspace` is the number of strings of that level

An explicit duplicate-free list of all strings of trainer level `level`, whose length is visibly
`levelKeyspace level`; any other duplicate-free list with the same members has the same length.
-/
namespace Omen

theorem length_eq_of_nodup_of_mem_iff {α : Type} [DecidableEq α] {l1 l2 : List α}
    (h1 : l1.Nodup) (h2 : l2.Nodup) (h : ∀ x, x ∈ l1 ↔ x ∈ l2) : l1.length = l2.length := by
  apply List.Perm.length_eq
  rw [List.perm_iff_count]
  intro a
  rw [h1.count, h2.count]
  simp only [h a]

/-- the strings with initial n-gram `e.key`, length `i + 1` and level `level` -/
def TTables.block (t : TTables) (level : Nat) (e : TEntry) (i : Nat) : List Str :=
  if i + 1 < t.ngram then []
  else if t.lns.getD i 0 ≤ level - e.ipLevel then
    ((t.toTables.m.allTrees (i + 1 - t.ngram + 1) e.key (level - e.ipLevel - t.lns.getD i 0)).map
      fun tr => tr.filterMap t.toTables.m.charAt).map (e.key ++ ·)
  else []

def TTables.entryBlocks (t : TTables) (level : Nat) (e : TEntry) : List Str :=
  if e.ipLevel ≤ level then (List.range t.lns.length).flatMap (t.block level e) else []

def TTables.levelList (t : TTables) (level : Nat) : List Str :=
  t.entries.flatMap (t.entryBlocks level)

theorem length_levelList (t : TTables) (hg : t.Good) (level : Nat) :
    (t.levelList level).length = t.levelKeyspace level := by
  unfold TTables.levelList TTables.levelKeyspace TTables.entryBlocks
  rw [List.length_flatMap]
  apply sum_map_congr'
  intro e _
  by_cases h1 : e.ipLevel ≤ level
  · rw [if_pos h1, if_pos h1, List.length_flatMap]
    apply sum_map_congr'
    intro i _
    unfold TTables.block
    simp only []
    by_cases h2 : i + 1 < t.ngram
    · rw [if_pos h2, if_pos h2]; rfl
    · rw [if_neg h2, if_neg h2]
      by_cases h3 : t.lns.getD i 0 ≤ level - e.ipLevel
      · rw [if_pos h3, if_pos h3, List.length_map, List.length_map,
          recKeyspace_eq_allTrees_core t hg]
      · rw [if_neg h3, if_neg h3]; rfl
  · rw [if_neg h1, if_neg h1]; rfl

theorem mem_block_iff (t : TTables) (hg : t.Good) (level : Nat) (e : TEntry) (i : Nat) (y : Str) :
    y ∈ t.block level e i ↔
      t.ngram ≤ i + 1 ∧ t.lns.getD i 0 ≤ level - e.ipLevel ∧
      ∃ body, y = e.key ++ body ∧ body.length = i + 1 - t.ngram + 1 ∧
        t.chain e.key body = some (level - e.ipLevel - t.lns.getD i 0) := by
  unfold TTables.block
  by_cases h2 : i + 1 < t.ngram
  · rw [if_pos h2]
    simp only [List.not_mem_nil, false_iff]
    rintro ⟨h, _⟩; omega
  · rw [if_neg h2]
    by_cases h3 : t.lns.getD i 0 ≤ level - e.ipLevel
    · rw [if_pos h3, List.mem_map]
      have hcore := (allTrees_strings_core t.toTables (t.ngram - 1) (toTables_WF_core t hg)
        (i + 1 - t.ngram + 1) e.key (level - e.ipLevel - t.lns.getD i 0)).2
      constructor
      · rintro ⟨body, hb, rfl⟩
        obtain ⟨h4, _, h5⟩ := (hcore body).1 hb
        rw [toTables_transCost t hg] at h5
        exact ⟨by omega, h3, body, rfl, h4, h5⟩
      · rintro ⟨_, _, body, rfl, h4, h5⟩
        refine ⟨body, (hcore body).2 ⟨h4, by omega, ?_⟩, rfl⟩
        rw [toTables_transCost t hg]; exact h5
    · rw [if_neg h3]
      simp only [List.not_mem_nil, false_iff]
      rintro ⟨_, h, _⟩; exact h3 h

theorem nodup_block (t : TTables) (hg : t.Good) (level : Nat) (e : TEntry) (i : Nat) :
    (t.block level e i).Nodup := by
  unfold TTables.block
  split
  · exact List.nodup_nil
  · split
    · apply nodup_map_of_injective
      · intro a b h; exact List.append_cancel_left h
      · exact (allTrees_strings_core t.toTables (t.ngram - 1) (toTables_WF_core t hg) _ _ _).1
    · exact List.nodup_nil

theorem mem_entryBlocks_iff (t : TTables) (_hg : t.Good) (level : Nat) (e : TEntry) (y : Str) :
    y ∈ t.entryBlocks level e ↔
      e.ipLevel ≤ level ∧ ∃ i, i < t.lns.length ∧ y ∈ t.block level e i := by
  unfold TTables.entryBlocks
  by_cases h1 : e.ipLevel ≤ level
  · rw [if_pos h1]
    simp only [List.mem_flatMap, List.mem_range, h1, true_and]
  · rw [if_neg h1]
    simp [h1]

theorem nodup_entryBlocks (t : TTables) (hg : t.Good) (level : Nat) (e : TEntry) (_he : e ∈ t.entries) :
    (t.entryBlocks level e).Nodup := by
  unfold TTables.entryBlocks
  split
  · apply nodup_flatMap List.nodup_range
    · intro i _; exact nodup_block t hg level e i
    · intro a _ b _ hab y hy hy'
      obtain ⟨h1, _, body, rfl, hl, _⟩ := (mem_block_iff t hg level e a y).1 hy
      obtain ⟨h1', _, body', hb, hl', _⟩ := (mem_block_iff t hg level e b _).1 hy'
      have := List.append_cancel_left hb
      subst this
      omega
  · exact List.nodup_nil

theorem nodup_levelList (t : TTables) (hg : t.Good) (level : Nat) : (t.levelList level).Nodup := by
  unfold TTables.levelList
  apply nodup_flatMap (nodup_of_nodup_map hg.keys_nodup)
  · intro e he; exact nodup_entryBlocks t hg level e he
  · intro a ha b hb hab y hy hy'
    obtain ⟨_, i, _, hy⟩ := (mem_entryBlocks_iff t hg level a y).1 hy
    obtain ⟨_, j, _, hy'⟩ := (mem_entryBlocks_iff t hg level b y).1 hy'
    obtain ⟨_, _, body, rfl, _, _⟩ := (mem_block_iff t hg level a i y).1 hy
    obtain ⟨_, _, body', hb', _, _⟩ := (mem_block_iff t hg level b j _).1 hy'
    have hl : a.key.length = b.key.length := by rw [hg.key_len a ha, hg.key_len b hb]
    exact hab (eq_of_nodup_map hg.keys_nodup ha hb (List.append_inj hb' hl).1)

theorem mem_levelList_iff (t : TTables) (hg : t.Good) (level : Nat) (s : Str) :
    s ∈ t.levelList level ↔ t.trainerLevel s = some level := by
  have hn := hg.ngram_ge
  unfold TTables.levelList
  rw [List.mem_flatMap]
  constructor
  · rintro ⟨e, he, hs⟩
    obtain ⟨h1, i, hi, hs⟩ := (mem_entryBlocks_iff t hg level e s).1 hs
    obtain ⟨h2, h3, body, rfl, h4, h5⟩ := (mem_block_iff t hg level e i s).1 hs
    have hk := hg.key_len e he
    have hlen : (e.key ++ body).length = i + 1 := by rw [List.length_append, hk, h4]; omega
    unfold TTables.trainerLevel
    rw [if_neg (by simp only [hlen, Bool.or_eq_true, decide_eq_true_eq]; omega)]
    rw [hlen, Nat.add_sub_cancel, ← hk, List.take_left, List.drop_left, entry_of_mem hg.keys_nodup he,
      List.getElem?_eq_getElem hi, h5]
    simp only [Option.some.injEq]
    have : t.lns.getD i 0 = t.lns[i] := getD_eq_getElem' _ _ _ hi
    omega
  · intro h
    unfold TTables.trainerLevel at h
    split at h
    · cases h
    · rename_i hc
      simp only [Bool.or_eq_true, decide_eq_true_eq, not_or, Nat.not_lt] at hc
      split at h
      · rename_i ln e hln he
        split at h
        · rename_i c hch
          simp only [Option.some.injEq] at h
          obtain ⟨hem, hek⟩ := entry_some he
          have hi : s.length - 1 < t.lns.length := by omega
          rw [List.getElem?_eq_getElem hi, Option.some.injEq] at hln
          have hgd : t.lns.getD (s.length - 1) 0 = ln := by rw [getD_eq_getElem' _ _ _ hi, hln]
          refine ⟨e, hem, (mem_entryBlocks_iff t hg level e s).2 ⟨by omega, s.length - 1, hi, ?_⟩⟩
          rw [mem_block_iff t hg]
          refine ⟨by omega, by omega, s.drop (t.ngram - 1), ?_, ?_, ?_⟩
          · rw [hek, List.take_append_drop]
          · rw [List.length_drop]; omega
          · rw [hek, hch, hgd]
            simp only [Option.some.injEq]
            omega
        · cases h
      · cases h

theorem levelKeyspace_eq_of_exact (t : TTables) (hg : t.Good) (level : Nat) (l : List Str)
    (hnd : l.Nodup) (hmem : ∀ s, s ∈ l ↔ t.trainerLevel s = some level) :
    l.length = t.levelKeyspace level := by
  rw [← length_levelList t hg level]
  apply length_eq_of_nodup_of_mem_iff hnd (nodup_levelList t hg level)
  intro s
  rw [hmem, mem_levelList_iff t hg]

end Omen
