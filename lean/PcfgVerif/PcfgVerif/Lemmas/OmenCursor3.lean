import PcfgVerif.Lemmas.OmenCursor2
/-!
# OMEN cursors, part 3: what `seek` / `next` / `enumFrom` emit along an orbit
-/
namespace Omen

/-- the trees the generator emits while the cursor is `c` -/
def Tables.outTrees (t : Tables) (target : Nat) (c : Cursor) : List (List Item) :=
  match t.gsTarget target c with
  | none => []
  | some tg => t.m.allTrees (t.curLen c) (t.curIp c) tg

/-- `sufT` = the trees still to be emitted for the current cursor -/
def Inv (t : Tables) (target : Nat) (s : CState) (sufT : List (List Item)) : Prop :=
  (s.tree = [] ∧ sufT = t.outTrees target s.cur) ∨
    (∃ pre, t.outTrees target s.cur = pre ++ s.tree :: sufT)

theorem gsNext_eq (t : Tables) (hne : ∀ e ∈ t.m.cp, ∀ p ∈ e.2, p.2 ≠ []) (target : Nat)
    (s : CState) (sufT : List (List Item)) (h : Inv t target s sufT) :
    t.gsNext target s = sufT.head? := by
  rcases h with ⟨h1, h2⟩ | ⟨pre, h⟩
  · unfold Tables.gsNext
    rw [h1, h2]
    unfold Tables.outTrees
    cases t.gsTarget target s.cur with
    | none => simp
    | some tg => simp only []; exact fill_head t.m hne _ _ _
  · unfold Tables.outTrees at h
    cases hg : t.gsTarget target s.cur with
    | none => rw [hg] at h; simp at h
    | some tg =>
      rw [hg] at h
      simp only [] at h
      have hmem : s.tree ∈ t.m.allTrees (t.curLen s.cur) (t.curIp s.cur) tg := by
        rw [h]; simp
      have hlen := allTrees_length t.m _ _ _ _ hmem
      have hnx := nextTree_split t.m hne _ _ _ pre sufT s.tree h
      unfold Tables.gsNext
      cases htr : s.tree with
      | nil => rw [htr] at hlen; simp at hlen; omega
      | cons a b => rw [htr] at hnx; simpa using hnx

theorem Inv_advance (t : Tables) (target : Nat) (s : CState) (tr : List Item)
    (suf : List (List Item)) (h : Inv t target s (tr :: suf)) :
    Inv t target ⟨s.cur, tr⟩ suf := by
  rcases h with ⟨_, h2⟩ | ⟨pre, h⟩
  · exact Or.inr ⟨[], by simp [← h2]⟩
  · exact Or.inr ⟨pre ++ [s.tree], by simp [h]⟩

theorem Inv_fresh (t : Tables) (target : Nat) (c : Cursor) :
    Inv t target ⟨c, []⟩ (t.outTrees target c) := Or.inl ⟨rfl, rfl⟩

def Tables.blocks (t : Tables) (target : Nat) (cs : List Cursor) : List (Cursor × List Item) :=
  cs.flatMap fun c => (t.outTrees target c).map fun tr => (c, tr)

def Tables.rem (t : Tables) (target : Nat) (c : Cursor) (sufT : List (List Item))
    (rest : List Cursor) : List (Cursor × List Item) :=
  sufT.map (fun tr => (c, tr)) ++ t.blocks target rest

theorem rem_fresh (t : Tables) (target : Nat) (c c' : Cursor) (rest : List Cursor) :
    t.rem target c [] (c' :: rest) = t.rem target c' (t.outTrees target c') rest := by
  simp [Tables.rem, Tables.blocks]

theorem rem_all (t : Tables) (target : Nat) (c : Cursor) (rest : List Cursor) :
    t.rem target c (t.outTrees target c) rest = t.blocks target (c :: rest) := by
  simp [Tables.rem, Tables.blocks]

theorem seek_miss (t : Tables) (target fuel : Nat) (s : CState)
    (h : t.gsNext target s = none) :
    t.seek target t.startIp (fuel + 1) s =
      match t.step target s.cur with
      | some c => t.seek target t.startIp fuel ⟨c, []⟩
      | none => none := by
  rw [Tables.seek, h]
  simp only [Tables.step]
  cases t.increaseIp target s.cur with
  | some c => rfl
  | none =>
    simp only []
    cases t.increaseLen target t.startIp s.cur with
    | some c => rfl
    | none => rfl

theorem seek_spec (t : Tables) (hne : ∀ e ∈ t.m.cp, ∀ p ∈ e.2, p.2 ≠ []) (target : Nat) :
    ∀ (fuel : Nat) (s : CState) (sufT : List (List Item)) (rest : List Cursor),
      Inv t target s sufT → Orbit (t.step target) s.cur rest → rest.length + 1 ≤ fuel →
      (t.rem target s.cur sufT rest = [] → t.seek target t.startIp fuel s = none) ∧
      (∀ c tr tl, t.rem target s.cur sufT rest = (c, tr) :: tl →
        t.seek target t.startIp fuel s = some (tr, ⟨c, tr⟩) ∧
        ∃ sufT' rest', Inv t target ⟨c, tr⟩ sufT' ∧ Orbit (t.step target) c rest' ∧
          tl = t.rem target c sufT' rest' ∧ rest'.length ≤ rest.length) := by
  intro fuel
  induction fuel with
  | zero => intro s sufT rest _ _ hf; omega
  | succ fuel ih =>
    intro s sufT rest hinv ho hf
    have hgs := gsNext_eq t hne target s sufT hinv
    cases sufT with
    | cons tr suf =>
      refine ⟨by simp [Tables.rem], ?_⟩
      intro c tr' tl hrem
      simp only [Tables.rem, List.map_cons, List.cons_append, List.cons.injEq, Prod.mk.injEq] at hrem
      obtain ⟨⟨rfl, rfl⟩, rfl⟩ := hrem
      refine ⟨?_, suf, rest, Inv_advance t target s tr suf hinv, ho, rfl, Nat.le_refl _⟩
      rw [Tables.seek, hgs]
      simp
    | nil =>
      simp only [List.head?_nil] at hgs
      rw [seek_miss t target fuel s hgs]
      cases ho with
      | last hstep =>
        rw [hstep]
        simp [Tables.rem, Tables.blocks]
      | @cons _ c' rest' hstep ho' =>
        rw [hstep, rem_fresh]
        simp only []
        have := ih ⟨c', []⟩ (t.outTrees target c') rest' (Inv_fresh t target c') ho'
          (by simp only [List.length_cons] at hf; omega)
        refine ⟨this.1, ?_⟩
        intro c tr tl hrem
        obtain ⟨h1, sufT', rest'', h2, h3, h4, h5⟩ := this.2 c tr tl hrem
        exact ⟨h1, sufT', rest'', h2, h3, h4, by simp only [List.length_cons]; omega⟩

/-- the string emitted for a (cursor, tree) pair -/
def Tables.render (t : Tables) (p : Cursor × List Item) : Str :=
  t.curIp p.1 ++ p.2.filterMap t.m.charAt

theorem enum_spec (t : Tables) (hne : ∀ e ∈ t.m.cp, ∀ p ∈ e.2, p.2 ≠ []) (target : Nat) :
    ∀ (fuel : Nat) (s : CState) (sufT : List (List Item)) (rest : List Cursor),
      Inv t target s sufT → Orbit (t.step target) s.cur rest → rest.length + 1 ≤ t.pairCount →
      t.enumFrom target fuel s = ((t.rem target s.cur sufT rest).take fuel).map t.render := by
  intro fuel
  induction fuel with
  | zero => intro s sufT rest _ _ _; simp [Tables.enumFrom]
  | succ fuel ih =>
    intro s sufT rest hinv ho hf
    have hsk := seek_spec t hne target t.pairCount s sufT rest hinv ho hf
    have hnext : t.next target s =
        match t.seek target t.startIp t.pairCount s with
        | some (tr, s') => some (t.curIp s'.cur ++ tr.filterMap t.m.charAt, s')
        | none => none := rfl
    rw [Tables.enumFrom, hnext]
    cases hrem : t.rem target s.cur sufT rest with
    | nil =>
      rw [hsk.1 hrem]
      simp
    | cons p tl =>
      obtain ⟨c, tr⟩ := p
      obtain ⟨h1, sufT', rest', h2, h3, h4, h5⟩ := hsk.2 c tr tl hrem
      rw [h1]
      simp only [List.take_succ_cons, List.map_cons]
      rw [ih ⟨c, tr⟩ sufT' rest' h2 h3 (by omega), ← h4]
      rfl

end Omen
