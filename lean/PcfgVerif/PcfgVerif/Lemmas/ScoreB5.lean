import PcfgVerif.Properties.C05
/-! Helper lemmas for C13 (the scorer's promise), part 5: the tiling of `parse` without the side
condition `0 < cfg.minLen` (the multi-word parser never returns an empty word, whatever `minLen`). -/
namespace Pcfg.ScoreB
open Pcfg Pcfg.Detect

/-- `detectAlpha_ok` without the (unused) hypothesis on `minLen` -/
theorem detectAlpha_ok_any (U : UEnv) (cfg : MWCfg) (t : MWTable) :
    DetectorOK U (detectAlpha U cfg t) := by
  intro text pieces f _ hl h
  obtain ⟨words, masks⟩ := f
  obtain ⟨s, e, he, hlen, hwne, hw, _, hp⟩ := detectAlpha_geom U cfg t text hl pieces words masks h
  subst hp
  refine ⟨?_, ?_⟩
  · intro h0
    have h1 := congrArg List.length h0
    simp only [List.length_append, (build_length U text words s).1, List.length_nil] at h1
    have := List.length_pos_iff.mpr hwne
    omega
  · apply tiles_prefix U text s (by omega)
    apply build_tiles U text words s _ (fun w hw' => (hw w hw').1) (by omega)
    rw [hlen]
    exact tiles_suffix U text e he

/-- the sections of `parse` tile the password, for every multi-word configuration -/
theorem parse_tiles (U : UEnv) (cfg : MWCfg) (t : MWTable) (pw : CPs) (hne : pw ≠ [])
    (hl : LenPres U pw) : TilesFrom U pw 0 (parse U cfg t pw).sections := by
  let s0 := (detectKeyboardWalk U pw).1
  let s1 := (splitLoop (detectEmail U) .skipFirst (loopFuel s0) [] s0 []).1
  let s2 := (splitLoop (detectWebsite U) .skipFirst (loopFuel s1) [] s1 []).1
  let s3 := (splitLoop (detectYear U) .recheck (loopFuel s2) [] s2 []).1
  let s4 := (splitLoop (detectContext U) .recheck (loopFuel s3) [] s3 []).1
  let s5 := (splitLoop (detectAlpha U cfg t) .skipFirst (loopFuel s4) [] s4 []).1
  let s6 := (splitLoop (detectDigits U) .skipFirst (loopFuel s5) [] s5 []).1
  have h0 : TilesFrom U pw 0 s0 := (detectKeyboardWalk_tiles U pw hne).1
  have h1 : TilesFrom U pw 0 s1 := C05.stage_tiles U pw hl _ _ (detectEmail_ok U) s0 h0
  have h2 : TilesFrom U pw 0 s2 := C05.stage_tiles U pw hl _ _ (detectWebsite_ok U) s1 h1
  have h3 : TilesFrom U pw 0 s3 := C05.stage_tiles U pw hl _ _ (detectYear_ok U) s2 h2
  have h4 : TilesFrom U pw 0 s4 := C05.stage_tiles U pw hl _ _ (detectContext_ok U) s3 h3
  have h5 : TilesFrom U pw 0 s5 := C05.stage_tiles U pw hl _ _ (detectAlpha_ok_any U cfg t) s4 h4
  have h6 : TilesFrom U pw 0 s6 := C05.stage_tiles U pw hl _ _ (detectDigits_ok U) s5 h5
  have hs : (parse U cfg t pw).sections = (otherDetection s6).1 := rfl
  rw [hs]
  exact otherDetection_tiles U pw s6 h6

end Pcfg.ScoreB
