import PcfgVerif.Model.OmenScorerFiles
import PcfgVerif.Lemmas.OmenFilesB
/-!
# The scorer's dictionaries, loaded from the trainer's files, give the trainer's level
-/
namespace Omen

section Assoc
variable {κ β : Type} [BEq κ] [LawfulBEq κ]

theorem assocGet_assocSet (al : List (κ × β)) (k k' : κ) (v : β) :
    assocGet (assocSet al k v) k' = if k' == k then some v else assocGet al k' := by
  unfold assocSet
  rw [assocGet_assocUpd]

/-- a dict filled by assignments answers with the value of the last assignment to the key -/
theorem assocGet_foldl_set {γ : Type} (f : γ → κ) (g : γ → β) (lines : List γ) (d0 : List (κ × β)) (k : κ) :
    assocGet (lines.foldl (fun d ln => assocSet d (f ln) (g ln)) d0) k =
      match lines.reverse.find? (fun ln => f ln == k) with
      | some ln => some (g ln)
      | none => assocGet d0 k := by
  induction lines generalizing d0 with
  | nil => simp
  | cons x r ih =>
    rw [List.foldl_cons, ih, List.reverse_cons, List.find?_append]
    cases hr : r.reverse.find? (fun ln => f ln == k) with
    | some ln => simp
    | none =>
      simp only [Option.none_or, List.find?_cons, List.find?_nil]
      rw [assocGet_assocSet]
      by_cases hx : f x == k
      · have : (k == f x) = true := by
          have : f x = k := by simpa using hx
          simp [this]
        simp [hx, this]
      · have hx' : (f x == k) = false := by simpa using hx
        have : (k == f x) = false := by
          cases h : k == f x
          · rfl
          · have : k = f x := by simpa using h
            simp [this] at hx'
        simp [hx', this]

end Assoc

theorem find_reverse_some {γ : Type} (p : γ → Bool) (l : List γ) (x : γ) (h : l.reverse.find? p = some x) :
    x ∈ l ∧ p x = true :=
  ⟨List.mem_reverse.mp (List.mem_of_find?_eq_some h), List.find?_some h⟩

theorem find_reverse_none {γ : Type} (p : γ → Bool) (l : List γ) (h : l.reverse.find? p = none) :
    ∀ x ∈ l, p x = false := by
  intro x hx
  have := List.find?_eq_none.mp h x (List.mem_reverse.mpr hx)
  simpa using this

/-- `self.ip[key]` of the loaded scorer -/
theorem scorer_ip (t : TTables) (hk : (t.entries.map (·.key)).Nodup) (k : Str) :
    assocGet (loadScorer t.ipLines t.cpLines t.lnLines).ip k = (t.entry k).map (·.ipLevel) := by
  unfold loadScorer
  simp only []
  rw [assocGet_foldl_set (fun ln : NLine => ln.2) (fun ln : NLine => ln.1)]
  cases hf : t.ipLines.reverse.find? (fun ln => ln.2 == k) with
  | some ln =>
    obtain ⟨hmem, hp⟩ := find_reverse_some _ _ _ hf
    unfold TTables.ipLines at hmem
    obtain ⟨e, he, rfl⟩ := List.mem_map.mp hmem
    have hek : e.key = k := by simpa using hp
    rw [← hek, entry_of_mem hk he]
    rfl
  | none =>
    have hall := find_reverse_none _ _ hf
    simp only []
    cases he : t.entry k with
    | none => rfl
    | some e =>
      obtain ⟨hmem, hek⟩ := entry_some he
      have := hall (e.ipLevel, e.key) (by unfold TTables.ipLines; exact List.mem_map.mpr ⟨e, hmem, rfl⟩)
      simp [hek] at this

/-- `self.cp[ngram]` of the loaded scorer is the trainer's level of that transition -/
theorem scorer_cp (t : TTables) (hg : t.Good) (gram : Str) :
    assocGet (loadScorer t.ipLines t.cpLines t.lnLines).cp gram = t.scorerCp gram := by
  unfold loadScorer
  simp only []
  rw [assocGet_foldl_set (fun ln : NLine => ln.2) (fun ln : NLine => ln.1)]
  cases hf : t.cpLines.reverse.find? (fun ln => ln.2 == gram) with
  | some ln =>
    obtain ⟨hmem, hp⟩ := find_reverse_some _ _ _ hf
    unfold TTables.cpLines at hmem
    obtain ⟨e, he, hq⟩ := List.mem_flatMap.mp hmem
    obtain ⟨p, hp', rfl⟩ := List.mem_map.mp hq
    have hgram : e.key ++ [p.1] = gram := by simpa using hp
    simp only []
    unfold TTables.scorerCp
    rw [← hgram, List.dropLast_concat, List.getLast?_concat, entry_of_mem hg.keys_nodup he]
    simp only []
    exact ((letter_iff (hg.letters_nodup e he) p.1 p.2).2 hp').symm
  | none =>
    have hall := find_reverse_none _ _ hf
    simp only [assocGet, List.find?_nil, Option.map_none]
    unfold TTables.scorerCp
    cases he : t.entry gram.dropLast with
    | none => rfl
    | some e =>
      cases hc : gram.getLast? with
      | none => rfl
      | some c =>
        simp only []
        cases hl : e.letter c with
        | none => rfl
        | some l =>
          exfalso
          obtain ⟨hmem, hek⟩ := entry_some he
          have hin : (c, l) ∈ e.next := (letter_iff (hg.letters_nodup e hmem) c l).1 hl
          have hne : gram ≠ [] := by
            intro h0
            rw [h0] at hc
            simp at hc
          have hgram : e.key ++ [c] = gram := by
            have h1 := List.dropLast_concat_getLast hne
            have h2 : gram.getLast hne = c := by
              have := List.getLast?_eq_some_getLast hne
              rw [hc] at this
              exact (Option.some.inj this).symm
            rw [hek, ← h2]
            exact h1
          have := hall (l, e.key ++ [c]) (by
            unfold TTables.cpLines
            exact List.mem_flatMap.mpr ⟨e, hmem, List.mem_map.mpr ⟨(c, l), hin, rfl⟩⟩)
          simp [hgram] at this

theorem scorer_chain (t : TTables) (hg : t.Good) (s : Str) (fuel endPos : Nat) :
    (loadScorer t.ipLines t.cpLines t.lnLines).chain t.ngram s fuel endPos = t.scorerChain s fuel endPos := by
  induction fuel generalizing endPos with
  | zero => rfl
  | succ n ih =>
    unfold STabs.chain TTables.scorerChain
    rw [scorer_cp t hg, ih]
    by_cases hle : endPos ≤ s.length
    · simp only [hle, if_true]
      cases t.scorerCp ((s.drop (endPos - t.ngram)).take t.ngram) <;> cases t.scorerChain s n (endPos + 1) <;> rfl
    · simp only [hle, if_false]

/-- the `ngram` the scorer reads off the first `CP.level` line -/
theorem scorer_ngram (t : TTables) (hg : t.Good) :
    (loadScorer t.ipLines t.cpLines t.lnLines).ngram = if t.cpLines = [] then none else some t.ngram := by
  unfold loadScorer
  simp only []
  cases hc : t.cpLines with
  | nil => rfl
  | cons ln r =>
    simp only [List.head?_cons, Option.map_some, List.cons_ne_nil, if_false]
    have hmem : ln ∈ t.cpLines := by rw [hc]; simp
    unfold TTables.cpLines at hmem
    obtain ⟨e, he, hq⟩ := List.mem_flatMap.mp hmem
    obtain ⟨p, _, rfl⟩ := List.mem_map.mp hq
    have := hg.key_len e he
    have hn := hg.ngram_ge
    simp only [List.length_append, List.length_cons, List.length_nil]
    congr 1
    omega

/-- without any transition nothing of length ≥ n-gram size has a level -/
theorem scorerLevel_none_of_no_cp (t : TTables) (_hn : 2 ≤ t.ngram) (h : t.cpLines = []) (s : Str) : t.scorerLevel s = none := by
  have hnext : ∀ e ∈ t.entries, e.next = [] := by
    intro e he
    cases hx : e.next with
    | nil => rfl
    | cons p r =>
      exfalso
      have : (p.2, e.key ++ [p.1]) ∈ t.cpLines := by
        unfold TTables.cpLines
        exact List.mem_flatMap.mpr ⟨e, he, List.mem_map.mpr ⟨p, by rw [hx]; simp, rfl⟩⟩
      rw [h] at this
      simp at this
  have hcp : ∀ gram, t.scorerCp gram = none := by
    intro gram
    unfold TTables.scorerCp
    cases he : t.entry gram.dropLast with
    | none => rfl
    | some e =>
      cases gram.getLast? with
      | none => rfl
      | some c =>
        simp only []
        obtain ⟨hmem, _⟩ := entry_some he
        unfold TEntry.letter
        rw [hnext e hmem]
        rfl
  unfold TTables.scorerLevel
  by_cases hb : (decide (s.length < t.ngram) || decide (s.length > t.lns.length)) = true
  · rw [if_pos hb]
  · rw [if_neg hb]
    have hlen : t.ngram ≤ s.length := by
      simp only [Bool.or_eq_true, decide_eq_true_eq, not_or, Nat.not_lt] at hb
      exact hb.1
    have hchain : t.scorerChain s (s.length + 1) t.ngram = none := by
      unfold TTables.scorerChain
      simp [hlen, hcp]
    rw [hchain]
    cases t.lns[s.length - 1]? <;> cases t.entry (s.take (t.ngram - 1)) <;> rfl

/-- **scorer over the files = trainer**: `OmenScorer.parse` on the dictionaries `_load_omen` builds from the trainer's files
returns the trainer's level for every string -/
theorem scorer_from_files (t : TTables) (hg : t.Good) (s : Str) :
    (loadScorer t.ipLines t.cpLines t.lnLines).parse s = t.scorerLevel s := by
  unfold STabs.parse
  rw [scorer_ngram t hg]
  by_cases hc : t.cpLines = []
  · rw [if_pos hc]
    exact (scorerLevel_none_of_no_cp t hg.ngram_ge hc s).symm
  · rw [if_neg hc]
    simp only []
    unfold TTables.scorerLevel
    have hln : (loadScorer t.ipLines t.cpLines t.lnLines).ln = t.lns := rfl
    rw [hln, scorer_ip t hg.keys_nodup, scorer_chain t hg]
    by_cases hb : (decide (s.length < t.ngram) || decide (s.length > t.lns.length)) = true
    · rw [if_pos hb, if_pos hb]
    · rw [if_neg hb, if_neg hb]
      cases t.lns[s.length - 1]? with
      | none => rfl
      | some ln =>
        cases t.entry (s.take (t.ngram - 1)) with
        | none => rfl
        | some e => rfl

end Omen
