import PcfgVerif.Properties.LoaderCore
/-!
# From a sorted list file to a well-formed column

A list file whose probabilities are non-increasing in file order (what `calculate_probabilities` writes:
`C06_sorted_binary64`) is loaded by `_load_from_file` into groups whose probabilities are non-increasing
and non-empty — the two facts `WFStruct` (C01/C02/C08) asks of every column.
-/
namespace Pcfg
variable {P : Type}

/-- order of the (value, probability) pairs ⇒ order of the groups -/
theorem pairs_pairwise_groups (R : P → P → Prop) (gs : List (LGroup P))
    (hne : ∀ g ∈ gs, g.values ≠ [])
    (h : (pairs gs).Pairwise fun a b => R a.2 b.2) : (gs.map (·.prob)).Pairwise R := by
  induction gs with
  | nil => simp
  | cons g gs ih =>
    have hsplit : pairs (g :: gs) = (g.values.map fun v => (v, g.prob)) ++ pairs gs := by simp [pairs]
    rw [hsplit, List.pairwise_append] at h
    obtain ⟨_, h2, h3⟩ := h
    simp only [List.map_cons, List.pairwise_cons]
    refine ⟨?_, ih (fun x hx => hne x (by simp [hx])) h2⟩
    intro p hp
    obtain ⟨g', hg', rfl⟩ := List.mem_map.mp hp
    obtain ⟨v0, hv0⟩ := List.exists_mem_of_ne_nil _ (hne g (by simp))
    obtain ⟨v1, hv1⟩ := List.exists_mem_of_ne_nil _ (hne g' (by simp [hg']))
    have ha : (v0, g.prob) ∈ g.values.map fun v => (v, g.prob) := List.mem_map.mpr ⟨v0, hv0, rfl⟩
    have hb : (v1, g'.prob) ∈ pairs gs := by
      simp only [pairs, List.mem_flatMap, List.mem_map]
      exact ⟨g', hg', v1, hv1, rfl⟩
    exact h3 _ ha _ hb

/-- the item-wise relation carries an order of the written probabilities over to the loaded pairs -/
theorem RelL_pairwise (parseP : CPs → Option P) (eqv : P → P → Bool) (R : P → P → Prop)
    (hcompat : ∀ p q a b, eqv p a = true → eqv q b = true → R p q → R a b)
    (ps : List (CPs × P)) (items : List (CPs × CPs)) (h : RelL parseP eqv ps items)
    (hs : (items.filterMap fun it => parseP it.2).Pairwise R) :
    ps.Pairwise fun a b => R a.2 b.2 := by
  induction ps generalizing items with
  | nil => simp
  | cons x ps ih =>
    cases items with
    | nil => simp [RelL] at h
    | cons y items =>
      simp only [RelL] at h
      obtain ⟨⟨_, p, hp, hpx⟩, hrest⟩ := h
      rw [List.filterMap_cons, hp, List.pairwise_cons] at hs
      rw [List.pairwise_cons]
      refine ⟨?_, ih items hrest hs.2⟩
      -- every later pair relates to a later parsed item
      intro b hb
      have : ∀ (qs : List (CPs × P)) (its : List (CPs × CPs)), RelL parseP eqv qs its →
          ∀ b ∈ qs, ∃ q, q ∈ (its.filterMap fun it => parseP it.2) ∧ eqv q b.2 = true := by
        intro qs
        induction qs with
        | nil => intro its _ b hb; simp at hb
        | cons z qs ihq =>
          intro its hr b hb
          cases its with
          | nil => simp [RelL] at hr
          | cons w its =>
            simp only [RelL] at hr
            obtain ⟨⟨_, q, hq, hqz⟩, hr'⟩ := hr
            rcases List.mem_cons.mp hb with rfl | hb'
            · exact ⟨q, by simp [hq], hqz⟩
            · obtain ⟨q', hq', he⟩ := ihq its hr' b hb'
              refine ⟨q', ?_, he⟩
              rw [List.filterMap_cons]
              cases parseP w.2 <;> simp [hq']
      obtain ⟨q, hq, hqb⟩ := this ps items hrest b hb
      exact hcompat p q x.2 b.2 hpx hqb (hs.1 q hq)

/-- **a sorted, clean list file loads into a well-formed column** -/
theorem loadFromFile_sorted (parseP : CPs → Option P) (eqv : P → P → Bool) (neg1 : P)
    (heq_refl : ∀ a, eqv a a = true)
    (R : P → P → Prop)
    (hcompat : ∀ p q a b, eqv p a = true → eqv q b = true → R p q → R a b)
    (items : List (CPs × CPs)) (hitems : items ≠ [])
    (hc : ∀ it ∈ items, CleanValue it.1 ∧ CleanProb it.2)
    (hp : ∀ it ∈ items, ∃ p, parseP it.2 = some p ∧ eqv p neg1 = false)
    (hs : (items.filterMap fun it => parseP it.2).Pairwise R) :
    ∃ gs, loadFromFile parseP eqv neg1 (writeFile items) = some gs ∧ gs ≠ [] ∧
      (∀ g ∈ gs, g.values ≠ []) ∧ (gs.map (·.prob)).Pairwise R := by
  unfold loadFromFile
  rw [codecLines_writeFile items hc]
  have hp' : ∀ it ∈ items, (parseP it.2).isSome := by
    intro it hit
    obtain ⟨p, hq, _⟩ := hp it hit
    simp [hq]
  have hinv : LoadInv parseP eqv items neg1 [] := by
    refine Or.inl ⟨rfl, ?_⟩
    intro it hit p hq
    have hmem : it ∈ items := List.mem_of_mem_head? hit
    obtain ⟨p', hq', hne⟩ := hp it hmem
    rw [hq] at hq'
    cases hq'
    exact hne
  obtain ⟨gs, ps, hload, hpairs, hrel, hne, _⟩ :=
    loadLoop_spec parseP eqv heq_refl items hc hp' neg1 [] hinv
  have hps : pairs gs = ps := by simpa [pairs] using hpairs
  have hne' := hne (by simp)
  refine ⟨gs, hload, ?_, hne', ?_⟩
  · intro hnil
    subst hnil
    have hlen := congrArg List.length (RelL_map_fst parseP eqv ps items hrel)
    rw [← hps] at hlen
    simp [pairs] at hlen
    exact hitems (List.eq_nil_of_length_eq_zero hlen.symm)
  · apply pairs_pairwise_groups R gs hne'
    rw [hps]
    exact RelL_pairwise parseP eqv R hcompat ps items hrel hs

end Pcfg
