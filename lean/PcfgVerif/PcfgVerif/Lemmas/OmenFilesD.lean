import PcfgVerif.Lemmas.OmenFilesC
/-!
# OMEN files, part D: the generator cannot tell two `cp` dicts apart that answer every look-up alike

Every function of the generator model reads `cp` through `cpChars` (`cp[prefix][level]`) only.  Hence what is proved about
`toTables` (C10, C11, C18) holds for the tables the loader model builds from the files.
-/
namespace Omen

/-- same `max_level`, same answer to every `cp[prefix][level]` look-up -/
structure Model.Sim (m1 m2 : Model) : Prop where
  maxLevel : m1.maxLevel = m2.maxLevel
  chars : ∀ ip l, m1.cpChars ip l = m2.cpChars ip l

variable {m1 m2 : Model}

theorem Model.Sim.findCp (h : m1.Sim m2) (ip : Str) (top bottom : Nat) :
    m1.findCp ip top bottom = m2.findCp ip top bottom :=
  findCp_congr m1 m2 h.maxLevel h.chars ip top bottom

theorem Model.Sim.chars_eq (h : m1.Sim m2) (ip : Str) (l : Nat) : m1.chars ip l = m2.chars ip l := by
  have := h.chars ip l
  unfold Model.cpChars at this
  unfold Model.chars
  rw [this]

theorem Model.Sim.charAt (h : m1.Sim m2) (it : Item) : m1.charAt it = m2.charAt it := by
  have := h.chars it.ip it.lvl
  unfold Model.cpChars at this
  unfold Model.charAt
  rw [this]

theorem Model.Sim.fillLevels (h : m1.Sim m2) (rec : Str → Nat → Option (List Item)) (ip : Str) (target : Nat)
    (fuel cur : Nat) : m1.fillLevels rec ip target fuel cur = m2.fillLevels rec ip target fuel cur := by
  induction fuel generalizing cur with
  | zero => rfl
  | succ n ih =>
    unfold Model.fillLevels
    rw [h.findCp]
    cases m2.findCp ip cur 0 with
    | none => rfl
    | some p =>
      obtain ⟨cs, l⟩ := p
      simp only []
      cases fillIdxs (fun ip' => rec ip' (target - l)) ip l 0 cs with
      | some r => rfl
      | none =>
        simp only []
        by_cases h0 : l = 0
        · simp [h0]
        · simp only [h0, if_false]
          exact ih (l - 1)

theorem Model.Sim.fill (h : m1.Sim m2) : ∀ (len : Nat) (ip : Str) (target : Nat),
    m1.fill len ip target = m2.fill len ip target
  | 0, _, _ => rfl
  | 1, ip, target => by
    unfold Model.fill
    rw [h.findCp]
  | len + 2, ip, target => by
    unfold Model.fill
    have hrec : m1.fill (len + 1) = m2.fill (len + 1) := by
      funext ip' t'
      exact Model.Sim.fill h (len + 1) ip' t'
    rw [hrec]
    exact h.fillLevels _ ip target _ _

theorem Model.Sim.tryIdxs (h : m1.Sim m2) (elemIp : Str) (reqLen tgt : Nat) (i : Nat) (cs : List Char) :
    m1.tryIdxs elemIp reqLen tgt i cs = m2.tryIdxs elemIp reqLen tgt i cs := by
  induction cs generalizing i with
  | nil => rfl
  | cons c rest ih =>
    unfold Model.tryIdxs
    rw [h.fill]
    cases m2.fill reqLen (elemIp.dropLast ++ [c]) tgt with
    | some t => rfl
    | none => exact ih (i + 1)

theorem Model.Sim.descend (h : m1.Sim m2) (lastIp elemIp : Str) (reqLen reqLevel : Nat) (fuel dl i : Nat) :
    m1.descend lastIp elemIp reqLen reqLevel fuel dl i = m2.descend lastIp elemIp reqLen reqLevel fuel dl i := by
  induction fuel generalizing dl i with
  | zero => rfl
  | succ n ih =>
    unfold Model.descend
    rw [h.tryIdxs, h.chars_eq]
    cases m2.tryIdxs elemIp reqLen (reqLevel - dl) i ((m2.chars lastIp dl).drop i) with
    | some p => rfl
    | none =>
      simp only []
      by_cases h0 : dl = 0
      · simp [h0]
      · simp only [h0, if_false]
        rw [h.findCp]
        cases m2.findCp lastIp (dl - 1) 0 with
        | none => rfl
        | some p => exact ih p.2 0

theorem Model.Sim.outer (h : m1.Sim m2) (stackRev : List Item) (element : Item) (reqLen reqLevel : Nat) :
    m1.outer stackRev element reqLen reqLevel = m2.outer stackRev element reqLen reqLevel := by
  induction stackRev generalizing element reqLen reqLevel with
  | nil => rfl
  | cons last below ih =>
    unfold Model.outer
    rw [h.descend]
    cases m2.descend last.ip element.ip reqLen reqLevel (last.lvl + 1) last.lvl (last.idx + 1) with
    | some p => rfl
    | none =>
      simp only []
      cases below with
      | nil => rfl
      | cons b bs => exact ih last (reqLen + 1) (reqLevel + b.lvl)

theorem Model.Sim.nextTree (h : m1.Sim m2) (t : List Item) : m1.nextTree t = m2.nextTree t := by
  unfold Model.nextTree
  cases t.reverse with
  | nil => rfl
  | cons last restRev =>
    simp only []
    rw [h.chars_eq]
    by_cases hlt : last.idx + 1 < (m2.chars last.ip last.lvl).length
    · simp [hlt]
    · simp only [hlt, if_false]
      cases restRev with
      | nil => rfl
      | cons l2 r => exact h.outer _ _ _ _

/-! ## the cursor level -/

/-- two tables with the same `ip` / `ln` tables whose `cp` dicts answer alike -/
structure Tables.Sim (t1 t2 : Tables) : Prop where
  ip : t1.ipTbl = t2.ipTbl
  ln : t1.lnTbl = t2.lnTbl
  m : t1.m.Sim t2.m

variable {t1 t2 : Tables}

theorem Tables.Sim.gsNext (h : t1.Sim t2) (target : Nat) (s : CState) : t1.gsNext target s = t2.gsNext target s := by
  unfold Tables.gsNext Tables.gsTarget Tables.curLen Tables.curIp
  rw [h.ip, h.ln]
  cases s.tree with
  | nil =>
    simp only []
    split
    · rfl
    · exact h.m.fill _ _ _
  | cons a r => exact h.m.nextTree _

theorem Tables.Sim.increaseIp (h : t1.Sim t2) (target : Nat) (c : Cursor) :
    t1.increaseIp target c = t2.increaseIp target c := by
  unfold Tables.increaseIp
  rw [h.ip, h.m.maxLevel]

theorem Tables.Sim.increaseLen (h : t1.Sim t2) (target startIp : Nat) (c : Cursor) :
    t1.increaseLen target startIp c = t2.increaseLen target startIp c := by
  unfold Tables.increaseLen
  rw [h.ln, h.m.maxLevel]

theorem Tables.Sim.seek (h : t1.Sim t2) (target startIp fuel : Nat) (s : CState) :
    t1.seek target startIp fuel s = t2.seek target startIp fuel s := by
  induction fuel generalizing s with
  | zero => rfl
  | succ n ih =>
    unfold Tables.seek
    rw [h.gsNext, h.increaseIp, h.increaseLen]
    cases t2.gsNext target s with
    | some tr => rfl
    | none =>
      simp only []
      cases t2.increaseIp target s.cur with
      | some c => exact ih _
      | none =>
        simp only []
        cases t2.increaseLen target startIp s.cur with
        | some c => exact ih _
        | none => rfl

theorem Tables.Sim.start (h : t1.Sim t2) : t1.start = t2.start := by
  unfold Tables.start
  rw [h.ip, h.ln, h.m.maxLevel]

theorem Tables.Sim.pairCount (h : t1.Sim t2) : t1.pairCount = t2.pairCount := by
  unfold Tables.pairCount
  rw [h.ip, h.ln]

theorem Tables.Sim.next (h : t1.Sim t2) (target : Nat) (s : CState) : t1.next target s = t2.next target s := by
  unfold Tables.next
  rw [h.seek, h.pairCount, h.ip, h.m.maxLevel]
  cases t2.seek target ((findFirst t2.m.maxLevel t2.ipTbl).getD 0) t2.pairCount s with
  | none => rfl
  | some p =>
    simp only []
    have hc : t1.m.charAt = t2.m.charAt := funext h.m.charAt
    unfold Tables.curIp
    rw [hc, h.ip]

/-- **the generator's output does not depend on which of the two tables it runs over** -/
theorem Tables.Sim.enumFrom (h : t1.Sim t2) (target fuel : Nat) (s : CState) :
    t1.enumFrom target fuel s = t2.enumFrom target fuel s := by
  induction fuel generalizing s with
  | zero => rfl
  | succ n ih =>
    unfold Tables.enumFrom
    rw [h.next]
    cases t2.next target s with
    | none => rfl
    | some p => simp only [ih]

/-- the tables the loader builds from a trained ruleset's files are indistinguishable from `toTables` -/
theorem loadTables_sim (t : TTables) (hg : t.Good) : ∃ tb, t.loadTables = some tb ∧ tb.Sim t.toTables := by
  obtain ⟨tb, h1, h2, h3, h4, h5⟩ := loadTables_spec t hg
  exact ⟨tb, h1, ⟨h2, h3, ⟨h4, h5⟩⟩⟩

end Omen
