import PcfgVerif.Lemmas.TrainedAgreeA
/-! The guesser's view of a trained ruleset (columns = runs of equal probability of each written list) and the terminal clause of
`Agree`: whatever the scorer finds with a non-zero probability sits in a group of that probability. -/
namespace Pcfg.Trainer
open Pcfg Pcfg.Detect

def colOf (t : MWTable) : List (List CPs × Rat) := runs (listOf t)

/-- every terminal column the guesser loads, under the guesser's variable names -/
def viewCols (c : Counters) : List (String × List (List CPs × Rat)) :=
  lenMap 'K' c.keyboard colOf ++ (lenMap 'A' c.alpha colOf ++ (lenMap 'C' c.masks colOf ++ (lenMap 'D' c.digits colOf ++
    (lenMap 'O' c.other colOf ++ [("Y1", colOf c.years), ("X1", colOf c.context)]))))

def viewE (c : Counters) : EGrammar := (viewCols c).map fun e => (e.1, e.2.map fun g => g.1.map toStr)

def viewP (c : Counters) (l : String) : List Rat := (((viewCols c).find? (·.1 == l)).map fun e => e.2.map (·.2)).getD []

theorem view_lookup (c : Counters) (l : String) (cols : List (List CPs × Rat))
    (h : (viewCols c).find? (·.1 == l) = some (l, cols)) (j : Nat) (vs : List CPs) (p : Rat) (hj : cols[j]? = some (vs, p)) :
    (viewE c).values l j = some (vs.map toStr) ∧ (viewP c l)[j]? = some p := by
  constructor
  · unfold EGrammar.values EGrammar.groups viewE
    rw [List.find?_map]
    have : ((fun x : String × List (List Str) => x.1 == l) ∘ fun e : String × List (List CPs × Rat) => (e.1, e.2.map fun g => g.1.map toStr))
        = fun e => e.1 == l := rfl
    rw [this, h]
    simp [hj]
  · unfold viewP
    rw [h]
    simp [hj]

theorem find_append_none {α : Type} (l1 l2 : List α) (p : α → Bool) (h : l1.find? p = none) : (l1 ++ l2).find? p = l2.find? p := by
  rw [List.find?_append, h, Option.none_or]

theorem find_append_some {α : Type} (l1 l2 : List α) (p : α → Bool) (a : α) (h : l1.find? p = some a) :
    (l1 ++ l2).find? p = some a := by
  rw [List.find?_append, h, Option.some_or]

/-- generic step for a length-indexed category sitting between `pre` and `post` -/
theorem term_len (ch : Char) (d : LenCtr) (pre post : ScoreG Rat) (preV postV : List (String × List (List CPs × Rat)))
    (n : Nat) (v : CPs)
    (hpre : pre.find? (·.1 == lbl ch n) = none) (hpost : post.find? (·.1 == lbl ch n) = none)
    (hpreV : preV.find? (·.1 == lbl ch n) = none)
    (hne : ScoreG.look (pre ++ (lenLists ch d ++ post)) 0 (lbl ch n) v ≠ 0) :
    ∃ (cols : List (List CPs × Rat)) (j : Nat) (vs : List CPs), (preV ++ (lenMap ch d colOf ++ postV)).find? (·.1 == lbl ch n) = some (lbl ch n, cols) ∧
      cols[j]? = some (vs, ScoreG.look (pre ++ (lenLists ch d ++ post)) 0 (lbl ch n) v) ∧ v ∈ vs := by
  rw [look_append_skip _ _ _ _ _ hpre] at hne ⊢
  cases hf : d.find? (·.1 == n) with
  | none =>
    exfalso
    apply hne
    rw [look_append_skip _ _ _ _ _ (by rw [find_lenLists, hf]; rfl)]
    unfold ScoreG.look
    rw [hpost]
  | some e =>
    have hk : e.1 = n := by simpa using List.find?_some hf
    have hg : (lenLists ch d).find? (·.1 == lbl ch n) = some (lbl ch e.1, listOf e.2) := by rw [find_lenLists, hf]; rfl
    rw [look_append_hit _ _ _ _ _ _ hg] at hne ⊢
    have hmem := mem_of_look (listOf e.2) v hne
    obtain ⟨j, vs, hj, hv⟩ := runs_mem (listOf e.2) v _ hmem
    refine ⟨colOf e.2, j, vs, ?_, hj, hv⟩
    rw [find_append_none _ _ _ hpreV]
    apply find_append_some
    rw [find_lenMap, hf, ← hk]; rfl

theorem lbl_ne_lit (ch : Char) (m : Nat) (s : String) (hs : s.toList.head? ≠ some ch) : lbl ch m ≠ s := by
  intro e
  apply hs
  rw [← e, lbl_toList]; rfl

end Pcfg.Trainer
