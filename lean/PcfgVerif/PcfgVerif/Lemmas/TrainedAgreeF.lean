import PcfgVerif.Lemmas.TrainedAgreeE
/-! The base-structure clause of `Agree` and the whole `Agree` for the guesser's view of a trained ruleset. -/
namespace Pcfg.Trainer
open Pcfg Pcfg.Detect

theorem digit_codes (n : Nat) (d : Char) (h : d ∈ (toString n).toList) : 48 ≤ d.toNat ∧ d.toNat ≤ 57 := by
  rw [Nat.toString_eq_repr, Nat.toList_repr] at h
  have := Nat.isDigit_of_mem_toDigits (by decide) (by decide) h
  unfold Char.isDigit at this
  simp only [Bool.and_eq_true, decide_eq_true_eq] at this
  unfold Char.toNat
  have h1 : ('0' : Char).val ≤ d.val := this.1
  have h2 : d.val ≤ ('9' : Char).val := this.2
  rw [UInt32.le_iff_toNat_le] at h1 h2
  exact ⟨h1, h2⟩

section
variable (isAlpha : Nat → Bool) (hcap : ∀ c, 65 ≤ c → c ≤ 90 → isAlpha c = true) (hdig : ∀ c, 48 ≤ c → c ≤ 57 → isAlpha c = false)
include hcap hdig

theorem tok_lbl (ch : Char) (n : Nat) (h1 : 65 ≤ ch.toNat) (h2 : ch.toNat ≤ 90) : Tok isAlpha (cpsOfString (lbl ch n)) := by
  refine ⟨ch.toNat, (toString n).toList.map Char.toNat, ?_, hcap _ h1 h2, ?_⟩
  · unfold cpsOfString; rw [lbl_toList]; rfl
  · intro d hd
    obtain ⟨x, hx, rfl⟩ := List.mem_map.mp hd
    obtain ⟨a, b⟩ := digit_codes n x hx
    exact hdig _ a b

theorem tok_label (text : CPs) (l : String) (h : LabelOK text l) : Tok isAlpha (cpsOfString l) := by
  rcases h with rfl | rfl | rfl | rfl | rfl | rfl | rfl | rfl
  · exact tok_lbl isAlpha hcap hdig 'K' _ (by decide) (by decide)
  · exact ⟨89, [49], by decide, hcap _ (by decide) (by decide), by intro d hd; simp at hd; subst hd; exact hdig _ (by decide) (by decide)⟩
  · exact ⟨88, [49], by decide, hcap _ (by decide) (by decide), by intro d hd; simp at hd; subst hd; exact hdig _ (by decide) (by decide)⟩
  · exact tok_lbl isAlpha hcap hdig 'A' _ (by decide) (by decide)
  · exact tok_lbl isAlpha hcap hdig 'D' _ (by decide) (by decide)
  · exact tok_lbl isAlpha hcap hdig 'O' _ (by decide) (by decide)
  · exact ⟨69, [], by decide, hcap _ (by decide) (by decide), by intro d hd; simp at hd⟩
  · exact ⟨87, [], by decide, hcap _ (by decide) (by decide), by intro d hd; simp at hd⟩

/-- the tokeniser gives back the labels of a joined structure string -/
theorem split_labels (labels : List String) (h : ∀ l ∈ labels, ∃ text, LabelOK text l) :
    splitStructure isAlpha (cpsOfString (String.join labels)) [] = some (labels.map cpsOfString) := by
  have e : cpsOfString (String.join labels) = (labels.map cpsOfString).flatten := by
    unfold cpsOfString
    rw [String.toList_join, List.flatMap_def, List.map_flatten, List.map_map]
    rfl
  rw [e, split_tokens isAlpha _ ?_ []]
  · simp
  · intro t ht
    obtain ⟨l, hl, rfl⟩ := List.mem_map.mp ht
    obtain ⟨text, hok⟩ := h l hl
    exact tok_label isAlpha hcap hdig text l hok

end

/-- the base structures the guesser loads: each line of `grammar.txt` tokenised, `C<n>` inserted after every `A<n>` -/
def viewBases (isAlpha : Nat → Bool) (cov : Rat) (n0 : Nat) (c : Counters) : List (List String × Rat) :=
  (baseList cov n0 c.base).filterMap fun kp =>
    (splitStructure isAlpha kp.1 []).map fun reps => ((insertCase reps).map strOf, kp.2)

def viewOf (isAlpha : Nat → Bool) (cov : Rat) (n0 : Nat) (c : Counters) : GView Rat where
  E := viewE c
  colP := viewP c
  bases := viewBases isAlpha cov n0 c

/-- **`Agree` is a theorem for a trained ruleset**: the scorer's lists (`scoreGOf`) and the guesser's view of the same counters
(`viewOf`: columns = maximal runs of equal probability, base structures tokenised with the case masks inserted) agree. -/
theorem trained_agree (isAlpha : Nat → Bool) (hcap : ∀ c, 65 ≤ c → c ≤ 90 → isAlpha c = true)
    (hdig : ∀ c, 48 ≤ c → c ≤ 57 → isAlpha c = false) (cov : Rat) (n0 : Nat) (c : Counters) (hok : LenOK c.masks) :
    Agree 0 (scoreGOf cov n0 c) (viewOf isAlpha cov n0 c) := by
  refine ⟨?_, ?_, ?_⟩
  · intro l v hl hne
    exact agree_term cov n0 c l v hl hne
  · intro labels hlab hne
    rw [look_tail _ _ _ "B" (by decide)] at hne ⊢
    have hl : ∀ k, ScoreG.look [("Y", listOf c.years), ("X", listOf c.context), ("B", baseList cov n0 c.base)] 0 "B" k =
        (((baseList cov n0 c.base).find? (·.1 == k)).map (·.2)).getD 0 := by
      intro k; unfold ScoreG.look; simp
    rw [hl] at hne ⊢
    have hmem := mem_of_look (baseList cov n0 c.base) _ hne
    refine ⟨_, ?_, insertCase_labels labels⟩
    show _ ∈ viewBases isAlpha cov n0 c
    unfold viewBases
    refine List.mem_filterMap.mpr ⟨_, hmem, ?_⟩
    rw [split_labels isAlpha hcap hdig labels hlab]
    rfl
  · intro n j vals h
    exact agree_masks c hok n j vals h

end Pcfg.Trainer
