import PcfgVerif.Model.Counters
import PcfgVerif.Lemmas.DetectC3
namespace Pcfg.Detect

theorem get_nil (n : Nat) : LenCtr.get [] n = [] := rfl

theorem get_cons (a : Nat × MWTable) (r : LenCtr) (n : Nat) :
    LenCtr.get (a :: r) n = if a.1 = n then a.2 else LenCtr.get r n := by
  simp only [LenCtr.get, List.find?_cons]
  by_cases h : a.1 = n
  · simp [h]
  · have hb : (a.1 == n) = false := by simpa using h
    simp [hb, h]

theorem get_map_ne (d : LenCtr) (k n : Nat) (f : MWTable → MWTable) (hn : n ≠ k) :
    LenCtr.get (d.map fun e => if e.1 == k then (e.1, f e.2) else e) n = LenCtr.get d n := by
  induction d with
  | nil => rfl
  | cons a r ih =>
    rw [List.map_cons, get_cons, get_cons, ih]
    by_cases hak : a.1 = k
    · have : ¬ k = n := fun h => hn h.symm
      simp [hak, this]
    · simp [hak]

theorem get_map_eq (d : LenCtr) (k : Nat) (f : MWTable → MWTable) (h : d.any (·.1 == k) = true) :
    LenCtr.get (d.map fun e => if e.1 == k then (e.1, f e.2) else e) k = f (LenCtr.get d k) := by
  induction d with
  | nil => simp at h
  | cons a r ih =>
    rw [List.map_cons, get_cons, get_cons]
    by_cases hak : a.1 = k
    · simp [hak]
    · have hb : (a.1 == k) = false := by simpa using hak
      have hr : r.any (·.1 == k) = true := by simpa [hak] using h
      simp only [hb, Bool.false_eq_true, if_false, hak]
      exact ih hr

theorem get_append_single (d : LenCtr) (k n : Nat) (t : MWTable) (h : d.any (·.1 == k) = false) :
    LenCtr.get (d ++ [(k, t)]) n = if n = k then t else LenCtr.get d n := by
  induction d with
  | nil =>
    rw [List.nil_append, get_cons, get_nil]
    by_cases hn : n = k
    · simp [hn]
    · have : ¬ k = n := fun h => hn h.symm
      simp [hn, this]
  | cons a r ih =>
    have h' : ¬ a.1 = k ∧ r.any (·.1 == k) = false := by simpa using h
    rw [List.cons_append, get_cons, get_cons, ih h'.2]
    by_cases han : a.1 = n
    · have : ¬ n = k := fun h => h'.1 (han.trans h)
      simp [han, this]
    · simp [han]

theorem get_of_not_any (d : LenCtr) (k : Nat) (h : d.any (·.1 == k) = false) : LenCtr.get d k = [] := by
  induction d with
  | nil => rfl
  | cons a r ih =>
    have h' : ¬ a.1 = k ∧ r.any (·.1 == k) = false := by simpa using h
    rw [get_cons]; simp [h'.1, ih h'.2]

/-- one item: only the Counter of the item's own length changes, and it counts the item once more -/
theorem add_count (d : LenCtr) (x y : CPs) (n : Nat) :
    ((d.add x).get n).count y = (d.get n).count y + (if n = x.length ∧ y = x then 1 else 0) := by
  unfold LenCtr.add
  split
  · rename_i h
    by_cases hn : n = x.length
    · subst hn
      rw [get_map_eq d x.length (fun t => t.bump x none) h, count_bump]
      by_cases hy : y = x <;> simp [hy]
    · rw [get_map_ne d x.length n (fun t => t.bump x none) hn]; simp [hn]
  · rename_i h
    have h' : d.any (·.1 == x.length) = false := Bool.eq_false_iff.2 h
    rw [get_append_single _ _ _ _ h']
    by_cases hn : n = x.length
    · subst hn
      rw [if_pos rfl, get_of_not_any _ _ h', count_bump]
      by_cases hy : y = x <;> simp [hy, count_nil]
    · simp [hn]

/-- the whole list: the Counter of length `n` counts exactly the items of length `n` -/
theorem update_count (d : LenCtr) (items : List CPs) (y : CPs) (n : Nat) :
    ((updateLenIndexed d items).get n).count y = (d.get n).count y + (if y.length = n then items.count y else 0) := by
  unfold updateLenIndexed
  induction items generalizing d with
  | nil => simp
  | cons x rest ih =>
    rw [List.foldl_cons, ih, add_count, List.count_cons]
    by_cases hyn : y.length = n
    · by_cases hyx : y = x
      · subst hyx; simp [hyn]; omega
      · have : ¬ (x == y) = true := by simpa using fun h => hyx h.symm
        simp [hyn, hyx, this]
    · have : ¬ (n = x.length ∧ y = x) := fun h => hyn (by rw [h.2]; exact h.1.symm)
      simp [hyn, this]

/-- the keys of the dict are pairwise different (one Counter per length) -/
theorem add_keys_nodup (d : LenCtr) (x : CPs) (h : (d.map (·.1)).Nodup) : ((d.add x).map (·.1)).Nodup := by
  unfold LenCtr.add
  split
  · have : (d.map fun e => if e.1 == x.length then (e.1, e.2.bump x none) else e).map (·.1) = d.map (·.1) := by
      rw [List.map_map]
      apply List.map_congr_left
      intro e _
      simp only [Function.comp_apply]
      split <;> rfl
    rw [this]; exact h
  · rename_i hn
    rw [List.map_append, List.nodup_append]
    refine ⟨h, by simp, ?_⟩
    intro a ha b hb
    simp only [List.map_cons, List.map_nil, List.mem_singleton] at hb
    subst hb
    intro hab
    apply hn
    obtain ⟨e, he, rfl⟩ := List.mem_map.mp ha
    exact List.any_eq_true.mpr ⟨e, he, by simp [hab]⟩

theorem update_keys_nodup (d : LenCtr) (items : List CPs) (h : (d.map (·.1)).Nodup) :
    ((updateLenIndexed d items).map (·.1)).Nodup := by
  unfold updateLenIndexed
  induction items generalizing d with
  | nil => simpa using h
  | cons x rest ih => exact ih _ (add_keys_nodup d x h)

end Pcfg.Detect
