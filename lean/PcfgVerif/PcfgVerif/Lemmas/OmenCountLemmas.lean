import PcfgVerif.Model.OmenCount
import PcfgVerif.Lemmas.OmenTrainB
/-!
# The tables `AlphabetLookup` builds are well-formed, for every password list

`CInv`: every (n−1)-gram key once, keys of length n−1, every next letter once per key — an invariant of
`AlphabetLookup.parse`.  With the clamp of `_calc_level` (`lvl … ≤ maxLevel`) this is `TTables.Good` / `TTables.WF`
of the smoothed tables: the hypothesis of the C11 / C18 theorems is a theorem for trainer-built tables.
-/
namespace Omen

structure CInv (ngram : Nat) (t : CTables) : Prop where
  keys_nodup : (t.entries.map (·.key)).Nodup
  key_len : ∀ e ∈ t.entries, e.key.length = ngram - 1
  letters_nodup : ∀ e ∈ t.entries, (e.next.map (·.1)).Nodup

theorem updEntry_key (alphabet : List Char) (a b : Bool) (c : Option Char) (e : CEntry) :
    (updEntry alphabet a b c e).key = e.key := by
  unfold updEntry
  cases a <;> cases b <;> simp <;> (cases c <;> simp) <;> (split <;> try rfl) <;> (split <;> rfl)

theorem map_inc_fst (next : List (Char × Nat)) (c : Char) :
    (next.map fun p => if p.1 == c then (p.1, p.2 + 1) else p).map (·.1) = next.map (·.1) := by
  induction next with
  | nil => rfl
  | cons p r ih =>
    simp only [List.map_cons, ih]
    by_cases h : p.1 == c <;> simp [h]

theorem updEntry_next (alphabet : List Char) (a b : Bool) (c : Option Char) (e : CEntry) :
    (updEntry alphabet a b c e).next =
      if b then e.next else
      match c with
      | some c => if e.next.any (fun (p : Char × Nat) => p.1 == c) then e.next.map (fun (p : Char × Nat) => if p.1 == c then (p.1, p.2 + 1) else p)
                  else if alphabet.contains c then e.next ++ [(c, 1)] else e.next
      | none => e.next := by
  unfold updEntry
  cases a <;> cases b <;> cases c <;> simp <;> (split <;> (try rfl) <;> (split <;> rfl))

theorem updEntry_letters (alphabet : List Char) (a b : Bool) (c : Option Char) (e : CEntry)
    (h : (e.next.map (·.1)).Nodup) : ((updEntry alphabet a b c e).next.map (·.1)).Nodup := by
  rw [updEntry_next]
  cases b with
  | true => exact h
  | false =>
    simp only [Bool.false_eq_true, if_false]
    cases c with
    | none => exact h
    | some c =>
      simp only []
      by_cases hany : e.next.any (fun (p : Char × Nat) => p.1 == c) = true
      · rw [if_pos hany, map_inc_fst]
        exact h
      · rw [if_neg hany]
        by_cases hal : alphabet.contains c = true
        · rw [if_pos hal, List.map_append]
          refine List.nodup_append.mpr ⟨h, by simp, ?_⟩
          intro x hx y hy
          simp only [List.map_cons, List.map_nil, List.mem_singleton] at hy
          subst hy
          intro hxy
          subst hxy
          apply hany
          obtain ⟨p, hp, hpx⟩ := List.mem_map.mp hx
          exact List.any_eq_true.mpr ⟨p, hp, by simp [hpx]⟩
        · rw [if_neg hal]
          exact h

theorem parseStep_inv (alphabet : List Char) (ngram : Nat) (pw : Str) (t : CTables) (i : Nat)
    (hi : i + (ngram - 1) ≤ pw.length) (h : CInv ngram t) : CInv ngram (parseStep alphabet ngram pw t i) := by
  unfold parseStep
  simp only []
  by_cases hskip : (!t.entries.any (·.key == (pw.drop i).take (ngram - 1)) && !inAlphabet alphabet ((pw.drop i).take (ngram - 1))) = true
  · rw [if_pos hskip]; exact h
  · rw [if_neg hskip]
    have hlen : ((pw.drop i).take (ngram - 1)).length = ngram - 1 := by
      rw [List.length_take, List.length_drop]; omega
    -- the entry list before the update
    have hbase : ∀ base : List CEntry,
        (base.map (·.key)).Nodup → (∀ e ∈ base, e.key.length = ngram - 1) → (∀ e ∈ base, (e.next.map (·.1)).Nodup) →
        ∀ (f : CEntry → CEntry), (∀ e, (f e).key = e.key) → (∀ e, (e.next.map (·.1)).Nodup → ((f e).next.map (·.1)).Nodup) →
        ∀ (s : Str), CInv ngram { t with entries := base.map fun e => if e.key == s then f e else e,
                                           ipTotal := (if (i == 0) = true then t.ipTotal + 1 else t.ipTotal),
                                           epTotal := (if (i == pw.length - (ngram - 1)) = true then t.epTotal + 1 else t.epTotal) } := by
      intro base h1 h2 h3 f hf1 hf2 s
      have hkeys : (base.map fun e => if e.key == s then f e else e).map (·.key) = base.map (·.key) := by
        rw [List.map_map]
        apply List.map_congr_left
        intro e _
        by_cases hk : e.key == s <;> simp [Function.comp, hk, hf1]
      refine ⟨by show (List.map (·.key) (base.map fun e => if e.key == s then f e else e)).Nodup; rw [hkeys]; exact h1, ?_, ?_⟩
      · intro e he
        obtain ⟨e0, he0, rfl⟩ := List.mem_map.mp he
        by_cases hk : e0.key == s
        · simp only [hk, if_true, hf1]; exact h2 e0 he0
        · simp only [hk, Bool.false_eq_true, if_false]; exact h2 e0 he0
      · intro e he
        obtain ⟨e0, he0, rfl⟩ := List.mem_map.mp he
        by_cases hk : e0.key == s
        · simp only [hk, if_true]; exact hf2 e0 (h3 e0 he0)
        · simp only [hk, Bool.false_eq_true, if_false]; exact h3 e0 he0
    by_cases hknown : t.entries.any (·.key == (pw.drop i).take (ngram - 1)) = true
    · simp only [hknown, if_true]
      exact hbase t.entries h.keys_nodup h.key_len h.letters_nodup _ (updEntry_key alphabet _ _ _)
        (updEntry_letters alphabet _ _ _) _
    · simp only [hknown, Bool.false_eq_true, if_false]
      refine hbase _ ?_ ?_ ?_ _ (updEntry_key alphabet _ _ _) (updEntry_letters alphabet _ _ _) _
      · rw [List.map_append]
        refine List.nodup_append.mpr ⟨h.keys_nodup, by simp, ?_⟩
        intro x hx y hy
        simp only [List.map_cons, List.map_nil, List.mem_singleton] at hy
        subst hy
        intro hxy
        subst hxy
        apply hknown
        obtain ⟨e, he, hek⟩ := List.mem_map.mp hx
        exact List.any_eq_true.mpr ⟨e, he, by simp [hek]⟩
      · intro e he
        rcases List.mem_append.mp he with he | he
        · exact h.key_len e he
        · simp only [List.mem_singleton] at he
          subst he
          exact hlen
      · intro e he
        rcases List.mem_append.mp he with he | he
        · exact h.letters_nodup e he
        · simp only [List.mem_singleton] at he
          subst he
          simp

theorem parse_inv (alphabet : List Char) (ngram minLength maxLength : Nat) (hn : 1 ≤ ngram) (t : CTables) (pw : Str)
    (h : CInv ngram t) : CInv ngram (parse alphabet ngram minLength maxLength t pw) := by
  unfold parse
  by_cases hg : (decide (pw.length < max minLength ngram) || decide (pw.length > maxLength)) = true
  · rw [if_pos hg]; exact h
  · rw [if_neg hg]
    have hlen : ngram ≤ pw.length := by
      simp only [Bool.or_eq_true, decide_eq_true_eq, not_or, Nat.not_lt] at hg
      have := hg.1
      omega
    have hstart : CInv ngram { t with lnCounts := t.lnCounts.modify (pw.length - 1) (· + 1), lnTotal := t.lnTotal + 1 } :=
      ⟨h.keys_nodup, h.key_len, h.letters_nodup⟩
    have hfold : ∀ (is : List Nat) (t0 : CTables), (∀ i ∈ is, i + (ngram - 1) ≤ pw.length) → CInv ngram t0 →
        CInv ngram (is.foldl (parseStep alphabet ngram pw) t0) := by
      intro is
      induction is with
      | nil => intro t0 _ h0; exact h0
      | cons i r ih =>
        intro t0 hb h0
        exact ih _ (fun j hj => hb j (by simp [hj])) (parseStep_inv alphabet ngram pw t0 i (hb i (by simp)) h0)
    apply hfold _ _ _ hstart
    intro i hi
    have := List.mem_range.mp hi
    omega

theorem countTables_inv (alphabet : List Char) (ngram minLength maxLength : Nat) (hn : 1 ≤ ngram) (pws : List Str) :
    CInv ngram (countTables alphabet ngram minLength maxLength pws) := by
  unfold countTables
  have hfold : ∀ (ps : List Str) (t0 : CTables), CInv ngram t0 →
      CInv ngram (ps.foldl (parse alphabet ngram minLength maxLength) t0) := by
    intro ps
    induction ps with
    | nil => intro t0 h0; exact h0
    | cons p r ih => intro t0 h0; exact ih _ (parse_inv alphabet ngram minLength maxLength hn t0 p h0)
  exact hfold pws _ ⟨by simp, by simp, by simp⟩

/-- **the smoothed tables of any password list are well-formed** (`lvl` = `_calc_level`, of which only the clamp to
`0..maxLevel` is used) -/
theorem toTTables_good (lvl : Nat → Nat → Nat → Nat) (ngram maxLevel : Nat) (hn : 2 ≤ ngram)
    (hl : ∀ a b c, lvl a b c ≤ maxLevel) (t : CTables) (h : CInv ngram t) :
    (t.toTTables lvl ngram maxLevel).Good := by
  unfold CTables.toTTables
  refine ⟨hn, ?_, ?_, ?_, ?_, ?_, ?_⟩
  · simp only [List.map_map]
    exact h.keys_nodup
  · intro e he
    obtain ⟨e0, he0, rfl⟩ := List.mem_map.mp he
    exact h.key_len e0 he0
  · intro e he
    obtain ⟨e0, he0, rfl⟩ := List.mem_map.mp he
    simp only [List.map_map]
    exact h.letters_nodup e0 he0
  · intro e he
    obtain ⟨e0, he0, rfl⟩ := List.mem_map.mp he
    exact hl _ _ _
  · intro e he p hp
    obtain ⟨e0, he0, rfl⟩ := List.mem_map.mp he
    obtain ⟨p0, hp0, rfl⟩ := List.mem_map.mp hp
    exact hl _ _ _
  · intro l hlm
    obtain ⟨n, hn', rfl⟩ := List.mem_map.mp hlm
    by_cases h0 : t.lnTotal = 0
    · simp [h0]
    · simp only [h0, if_false]; exact hl _ _ _

theorem trainTTables_good (lvl : Nat → Nat → Nat → Nat) (alphabetSize ngram minLength maxLength maxLevel : Nat)
    (hn : 2 ≤ ngram) (hl : ∀ a b c, lvl a b c ≤ maxLevel) (pws : List Str) :
    (trainTTables lvl alphabetSize ngram minLength maxLength maxLevel pws).Good :=
  toTTables_good lvl ngram maxLevel hn hl _ (countTables_inv _ ngram minLength maxLength (by omega) pws)

theorem clampLevel_le (raw : Int) (maxLevel : Nat) : clampLevel raw maxLevel ≤ maxLevel := by
  unfold clampLevel
  split
  · exact Nat.le_refl _
  · split
    · exact Nat.zero_le _
    · omega

theorem lvlOf_le (raw : Nat → Nat → Nat → Int) (maxLevel : Nat) (a b c : Nat) : lvlOf raw maxLevel a b c ≤ maxLevel :=
  clampLevel_le _ _

end Omen
