import PcfgVerif.Lemmas.ScoreA3
/-! Lemmas for `ScoreStatementsA`, part 4: one pass of the pipeline (tiling and well-labelledness
together), and the flattening of the alpha records. -/
namespace Pcfg.Detect

/-- one list-level pass keeps the tiling and the consistency of labels with texts -/
theorem stage_ok {F : Type} (U : UEnv) (pw : CPs) (hl : LenPres U pw)
    (detect : CPs → Option (List Sec × F)) (adv : Advance) (hd : DetectorOK U detect)
    (hs : ∀ text pieces f, LenPres U text → (∃ a b, text = slice pw a b) →
      detect text = some (pieces, f) → ∀ p ∈ pieces, SecOK p)
    (fuel : Nat) (s : List Sec) (ht : TilesFrom U pw 0 s) (hG : ∀ x ∈ s, SecOK x) :
    TilesFrom U pw 0 (splitLoop detect adv fuel [] s []).1 ∧
    ∀ x ∈ (splitLoop detect adv fuel [] s []).1, SecOK x :=
  ⟨splitLoop_tiles' U detect adv hd pw hl fuel [] s [] (by simpa using ht),
   (splitLoop_GQ U detect adv hd pw hl SecOK (fun _ => True)
      (fun text pieces f _ hlt hsl hdt => ⟨hs text pieces f hlt hsl hdt, trivial⟩) fuel s ht hG).1⟩

theorem flatMap_words (L : List (List AlphaRec)) :
    (L.map recsOut).flatMap (·.1) = L.flatten.map (·.word) := by
  induction L with
  | nil => rfl
  | cons a r ih =>
    rw [List.map_cons, List.flatMap_cons, ih, List.flatten_cons, List.map_append]
    rfl

theorem flatMap_masks (L : List (List AlphaRec)) :
    (L.map recsOut).flatMap (·.2) = L.flatten.map (·.mask) := by
  induction L with
  | nil => rfl
  | cons a r ih =>
    rw [List.map_cons, List.flatMap_cons, ih, List.flatten_cons, List.map_append]
    rfl

theorem flatMap_origs (L : List (List AlphaRec)) :
    L.flatMap (fun recs => recs.map (·.orig)) = L.flatten.map (·.orig) := by
  induction L with
  | nil => rfl
  | cons a r ih =>
    rw [List.flatMap_cons, ih, List.flatten_cons, List.map_append]

theorem flatMap_single (l : List CPs) : l.flatMap (fun y => [y]) = l := by
  induction l with
  | nil => rfl
  | cons a r ih => rw [List.flatMap_cons, ih]; rfl

/-- the alpha pass through the record-reporting detector -/
theorem alpha_stage_eq (U : UEnv) (cfg : MWCfg) (t : MWTable) (fuel : Nat) (s : List Sec) :
    splitLoop (detectAlpha U cfg t) .skipFirst fuel [] s [] =
      ((splitLoop (detectAlphaR U cfg t) .skipFirst fuel [] s []).1,
       (splitLoop (detectAlphaR U cfg t) .skipFirst fuel [] s []).2.map recsOut) := by
  have := splitLoop_map (detectAlpha U cfg t) (detectAlphaR U cfg t) recsOut
    (detectAlpha_eq_map U cfg t) .skipFirst fuel [] s []
  simpa using this

end Pcfg.Detect
