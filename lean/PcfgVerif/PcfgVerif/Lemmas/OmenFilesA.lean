import PcfgVerif.Model.OmenFiles
import PcfgVerif.Lemmas.OmenTrainC
/-!
# OMEN files, part A: `IP.level` and `LN.level` load into the tables `toTables` describes
-/
namespace Omen

theorem getElem?_appendAt {α : Type} (tbl : List (List α)) (k : Nat) (x : α) (i : Nat) :
    (appendAt tbl k x)[i]? = if k = i then tbl[i]?.map (· ++ [x]) else tbl[i]? := by
  unfold appendAt
  rw [List.getElem?_modify]
  by_cases h : k = i <;> simp [h]

/-- `_load_ngrams(…, "ip")` appends every key to the row of its level, in file order -/
theorem loadIpGo_spec (maxLevel : Nat) (lines : List NLine) (tbl : List (List Str))
    (h : ∀ ln ∈ lines, ln.1 ≤ maxLevel) :
    loadIpGo maxLevel lines tbl =
      some (tbl.mapIdx fun l row => row ++ (lines.filter (·.1 == l)).map (·.2)) := by
  induction lines generalizing tbl with
  | nil =>
    simp only [loadIpGo, List.filter_nil, List.map_nil, List.append_nil]
    congr 1
    apply List.ext_getElem?
    intro i
    simp
  | cons ln r ih =>
    have h1 : ln.1 ≤ maxLevel := h ln (by simp)
    simp only [loadIpGo, h1, if_true]
    rw [ih _ (fun x hx => h x (by simp [hx]))]
    congr 1
    apply List.ext_getElem?
    intro i
    simp only [List.getElem?_mapIdx, getElem?_appendAt]
    by_cases hk : ln.1 = i
    · subst hk
      cases hrow : tbl[ln.1]? with
      | none => simp
      | some row => simp
    · have hne : (ln.1 == i) = false := by simpa using hk
      cases hrow : tbl[i]? with
      | none => simp [hk]
      | some row => simp [hk, hne]

theorem mapIdx_replicate_nil {α : Type} (n : Nat) (f : Nat → List α) :
    ((List.replicate n ([] : List α)).mapIdx fun l row => row ++ f l) = (List.range n).map f := by
  apply List.ext_getElem?
  intro i
  simp only [List.getElem?_mapIdx, List.getElem?_map, List.getElem?_replicate]
  by_cases hi : i < n
  · simp [hi]
  · simp [hi]

/-- **`IP.level`**: what the loader builds from the trainer's lines is the `ipTbl` of `toTables` -/
theorem loadIp_ipLines (t : TTables) (hip : ∀ e ∈ t.entries, e.ipLevel ≤ t.maxLevel) :
    loadIp t.maxLevel t.ipLines = some t.toTables.ipTbl := by
  unfold loadIp
  rw [loadIpGo_spec]
  · rw [mapIdx_replicate_nil, toTables_ipTbl]
    congr 1
    apply List.map_congr_left
    intro l _
    unfold TTables.ipLines TTables.ipRow
    rw [List.filter_map, List.map_map]
    rfl
  · intro ln hln
    unfold TTables.ipLines at hln
    obtain ⟨e, he, rfl⟩ := List.mem_map.mp hln
    exact hip e he

/-- `_load_length`: line `i` is the level of length `cur + i`; stored under its level as `length − (min_size − 1)`
when `length ≥ min_size` -/
theorem loadLnGo_spec (maxLevel minSize : Nat) (lines : List Nat) (cur : Nat) (tbl : List (List Nat))
    (h : ∀ l ∈ lines, l ≤ maxLevel) :
    loadLnGo maxLevel minSize cur lines tbl =
      some (tbl.mapIdx fun l row => row ++ (List.range lines.length).filterMap fun i =>
        if lines.getD i 0 == l && decide (minSize ≤ cur + i) then some (cur + i - (minSize - 1)) else none) := by
  induction lines generalizing cur tbl with
  | nil =>
    simp only [loadLnGo, List.length_nil, List.range_zero, List.filterMap_nil, List.append_nil]
    congr 1
    apply List.ext_getElem?
    intro i
    simp
  | cons a r ih =>
    have h1 : a ≤ maxLevel := h a (by simp)
    simp only [loadLnGo, h1, if_true]
    rw [ih _ _ (fun x hx => h x (by simp [hx]))]
    congr 1
    apply List.ext_getElem?
    intro i
    have hrange : ∀ (l : Nat), ((List.range (a :: r).length).filterMap fun j =>
          if (a :: r).getD j 0 == l && decide (minSize ≤ cur + j) then some (cur + j - (minSize - 1)) else none) =
        (if a == l && decide (minSize ≤ cur) then [cur - (minSize - 1)] else []) ++
          (List.range r.length).filterMap fun j =>
            if r.getD j 0 == l && decide (minSize ≤ cur + 1 + j) then some (cur + 1 + j - (minSize - 1)) else none := by
      intro l
      rw [List.length_cons, List.range_succ_eq_map, List.filterMap_cons, List.filterMap_map]
      have hfun : ((fun j => if (a :: r).getD j 0 == l && decide (minSize ≤ cur + j) then some (cur + j - (minSize - 1)) else none) ∘ Nat.succ) =
          fun j => if r.getD j 0 == l && decide (minSize ≤ cur + 1 + j) then some (cur + 1 + j - (minSize - 1)) else none := by
        funext j
        have e1 : cur + (j + 1) = cur + 1 + j := by omega
        simp [Function.comp, e1]
      rw [hfun]
      by_cases hc : (a == l && decide (minSize ≤ cur)) = true
      · simp only [List.getD_cons_zero, Nat.add_zero, hc, if_true]
        rfl
      · have hc' : (a == l && decide (minSize ≤ cur)) = false := by simpa using hc
        simp only [List.getD_cons_zero, Nat.add_zero, hc', Bool.false_eq_true, if_false, List.nil_append]
    simp only [List.getElem?_mapIdx, hrange]
    by_cases hm : cur ≥ minSize
    · simp only [hm, if_true, getElem?_appendAt]
      by_cases hk : a = i
      · subst hk
        cases hrow : tbl[a]? with
        | none => simp
        | some row => simp
      · have hne : (a == i) = false := by simpa using hk
        cases hrow : tbl[i]? with
        | none => simp [hk]
        | some row => simp [hk, hne]
    · have hm' : ¬ minSize ≤ cur := by omega
      simp only [hm, if_false]
      cases hrow : tbl[i]? with
      | none => simp
      | some row => simp

/-- **`LN.level`**: what the loader builds from the trainer's lines is the `lnTbl` of `toTables` -/
theorem loadLn_lnLines (t : TTables) (hln : ∀ l ∈ t.lns, l ≤ t.maxLevel) :
    loadLn t.maxLevel t.ngram t.lnLines = some t.toTables.lnTbl := by
  unfold loadLn TTables.lnLines
  rw [loadLnGo_spec _ _ _ _ _ hln]
  rw [mapIdx_replicate_nil, toTables_lnTbl]
  congr 1
  apply List.map_congr_left
  intro l _
  unfold TTables.lnRow
  congr 1
  funext i
  have e1 : 1 + i = i + 1 := by omega
  simp [e1]

end Omen
