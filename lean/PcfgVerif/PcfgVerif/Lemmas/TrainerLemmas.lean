import PcfgVerif.Model.Trainer
import PcfgVerif.Lemmas.CountersLemmas
namespace Pcfg.Trainer
open Pcfg.Detect

/-- a length-indexed field of the counters after pass 2 is the fold of `_update_counter_len_indexed` over the corresponding
lists of the individual parses -/
theorem pass2_field (U : UEnv) (cfg : MWCfg) (t : MWTable) (field : Counters → LenCtr) (items : Parsed → List CPs)
    (hf : ∀ c p, field (c.update p) = updateLenIndexed (field c) (items p)) (pws : List CPs) (c0 : Counters) :
    field (pws.foldl (fun c pw => c.update (parse U cfg t pw)) c0) =
      (pws.map fun pw => items (parse U cfg t pw)).foldl updateLenIndexed (field c0) := by
  induction pws generalizing c0 with
  | nil => rfl
  | cons pw rest ih => rw [List.foldl_cons, ih, List.map_cons, List.foldl_cons, hf]

theorem foldl_update_flatten (calls : List (List CPs)) (d : LenCtr) :
    calls.foldl updateLenIndexed d = updateLenIndexed d calls.flatten := by
  induction calls generalizing d with
  | nil => rfl
  | cons c rest ih =>
    rw [List.foldl_cons, ih, List.flatten_cons]
    unfold updateLenIndexed
    rw [List.foldl_append]

/-- the tally statement for one length-indexed category of a whole training run -/
theorem train_len_indexed (U : UEnv) (cfg : MWCfg) (field : Counters → LenCtr) (items : Parsed → List CPs)
    (hf : ∀ c p, field (c.update p) = updateLenIndexed (field c) (items p)) (h0 : field {} = [])
    (pws : List CPs) (n : Nat) (y : CPs) :
    ((field (train U cfg pws)).get n).count y =
      if y.length = n then (pws.flatMap fun pw => items (parse U cfg (pass1 U cfg pws) pw)).count y else 0 := by
  unfold train pass2
  rw [pass2_field U cfg _ field items hf, h0, foldl_update_flatten, update_count]
  simp [get_nil, count_nil, List.flatMap]

end Pcfg.Trainer
