import PcfgVerif.Model.OmenSpec
/-! `findCp`, `fill` versus the specification list `allTrees`. -/
namespace Omen

/-- all char lists are non-empty (follows from `Tables.WF.cp_levels`) -/
def Model.NE (m : Model) : Prop := ∀ e ∈ m.cp, ∀ p ∈ e.2, p.2 ≠ []

theorem cpOf_mem {m : Model} {ip : Str} {e} (h : m.cpOf ip = some e) : (ip, e) ∈ m.cp := by
  unfold Model.cpOf at h
  cases hf : m.cp.find? (·.1 == ip) with
  | none => simp [hf] at h
  | some p =>
    simp [hf] at h
    have h1 := List.mem_of_find?_eq_some hf
    have h2 := List.find?_some hf
    simp at h2
    subst h h2
    exact h1

theorem lvlChars_mem {e : List (Nat × List Char)} {l : Nat} {cs} (h : lvlChars e l = some cs) :
    (l, cs) ∈ e := by
  unfold lvlChars at h
  cases hf : e.find? (·.1 == l) with
  | none => simp [hf] at h
  | some p =>
    simp [hf] at h
    have h1 := List.mem_of_find?_eq_some hf
    have h2 := List.find?_some hf
    simp at h2
    subst h h2
    exact h1

theorem Model.NE.chars_ne {m : Model} (hne : m.NE) {ip : Str} {e l cs}
    (h1 : m.cpOf ip = some e) (h2 : lvlChars e l = some cs) : cs ≠ [] :=
  hne _ (cpOf_mem h1) _ (lvlChars_mem h2)

/-! ### findCp -/

theorem findCp_go_some (bottom : Nat) (e : List (Nat × List Char)) :
    ∀ fuel t cs l, t < fuel → Model.findCp.go bottom e fuel t = some (cs, l) →
      bottom ≤ l ∧ l ≤ t ∧ lvlChars e l = some cs ∧ ∀ k, l < k → k ≤ t → lvlChars e k = none := by
  intro fuel
  induction fuel with
  | zero => intro t cs l h; omega
  | succ fuel ih =>
    intro t cs l hlt h
    unfold Model.findCp.go at h
    by_cases hb : t < bottom
    · simp [hb] at h
    · simp only [hb, if_false] at h
      cases hl : lvlChars e t with
      | some cs' =>
        simp only [hl] at h
        injection h with h; injection h with h1 h2
        subst h1 h2
        exact ⟨by omega, Nat.le_refl _, hl, fun k h1 h2 => by omega⟩
      | none =>
        simp only [hl] at h
        by_cases h0 : t = 0
        · simp [h0] at h
        · simp only [h0, if_false] at h
          obtain ⟨a, b, c, d⟩ := ih (t-1) cs l (by omega) h
          refine ⟨a, by omega, c, fun k h1 h2 => ?_⟩
          by_cases hk : k = t
          · subst hk; exact hl
          · exact d k h1 (by omega)

theorem findCp_go_none (bottom : Nat) (e : List (Nat × List Char)) :
    ∀ fuel t, t < fuel → Model.findCp.go bottom e fuel t = none →
      ∀ k, bottom ≤ k → k ≤ t → lvlChars e k = none := by
  intro fuel
  induction fuel with
  | zero => intro t h; omega
  | succ fuel ih =>
    intro t hlt h
    unfold Model.findCp.go at h
    by_cases hb : t < bottom
    · intro k h1 h2; omega
    · simp only [hb, if_false] at h
      cases hl : lvlChars e t with
      | some cs' => simp [hl] at h
      | none =>
        simp only [hl] at h
        by_cases h0 : t = 0
        · intro k h1 h2
          have : k = t := by omega
          subst this; exact hl
        · simp only [h0, if_false] at h
          intro k h1 h2
          by_cases hk : k = t
          · subst hk; exact hl
          · exact ih (t-1) (by omega) h k h1 (by omega)

theorem findCp_some {m : Model} {ip : Str} {top bottom : Nat} {cs l}
    (h : m.findCp ip top bottom = some (cs, l)) :
    ∃ e, m.cpOf ip = some e ∧ bottom ≤ l ∧ l ≤ min top m.maxLevel ∧ lvlChars e l = some cs ∧
      ∀ k, l < k → k ≤ min top m.maxLevel → lvlChars e k = none := by
  unfold Model.findCp at h
  cases he : m.cpOf ip with
  | none => simp [he] at h
  | some e =>
    simp only [he] at h
    exact ⟨e, rfl, findCp_go_some bottom e _ _ cs l (Nat.lt_succ_self _) h⟩

theorem findCp_none {m : Model} {ip : Str} {top bottom : Nat} {e}
    (he : m.cpOf ip = some e) (h : m.findCp ip top bottom = none) :
    ∀ k, bottom ≤ k → k ≤ min top m.maxLevel → lvlChars e k = none := by
  unfold Model.findCp at h
  simp only [he] at h
  exact findCp_go_none bottom e _ _ (Nat.lt_succ_self _) h

theorem findCp_none_of_cpOf {m : Model} {ip : Str} {top bottom : Nat}
    (he : m.cpOf ip = none) : m.findCp ip top bottom = none := by
  unfold Model.findCp; simp [he]

/-! ### descending ranges -/

/-- `f n ++ f (n-1) ++ … ++ f 0` -/
def downFlat {β : Type} (f : Nat → List β) (n : Nat) : List β :=
  (List.range (n + 1)).reverse.flatMap f

theorem downFlat_zero {β : Type} (f : Nat → List β) : downFlat f 0 = f 0 := by
  simp [downFlat]

theorem downFlat_succ {β : Type} (f : Nat → List β) (n : Nat) :
    downFlat f (n + 1) = f (n + 1) ++ downFlat f n := by
  simp [downFlat, List.range_succ (n := n + 1)]

theorem downFlat_skip {β : Type} (f : Nat → List β) (l : Nat) :
    ∀ n, l ≤ n → (∀ k, l < k → k ≤ n → f k = []) → downFlat f n = downFlat f l := by
  intro n
  induction n with
  | zero => intro h _; have : l = 0 := by omega
            subst this; rfl
  | succ n ih =>
    intro h hk
    by_cases hl : l = n + 1
    · subst hl; rfl
    · rw [downFlat_succ, hk (n+1) (by omega) (Nat.le_refl _), List.nil_append]
      exact ih (by omega) (fun k h1 h2 => hk k h1 (by omega))

theorem downFlat_nil {β : Type} (f : Nat → List β) :
    ∀ n, (∀ k, k ≤ n → f k = []) → downFlat f n = [] := by
  intro n
  induction n with
  | zero => intro h; rw [downFlat_zero]; exact h 0 (Nat.le_refl _)
  | succ n ih =>
    intro h
    rw [downFlat_succ, h (n+1) (Nat.le_refl _), ih (fun k hk => h k (by omega))]; rfl

theorem downFlat_pos {β : Type} (f : Nat → List β) (l : Nat) (h : l ≠ 0) :
    downFlat f l = f l ++ downFlat f (l - 1) := by
  obtain ⟨n, rfl⟩ : ∃ n, l = n + 1 := ⟨l - 1, by omega⟩
  exact downFlat_succ f n

/-! ### blocks of `allTrees` -/

/-- trees whose first item is `⟨ip, l, j⟩`, `j ≥ i`, chars `cs` being `chars[i:]` -/
def Model.idxBlock (m : Model) (len : Nat) (ip : Str) (rem l : Nat) (i : Nat) (cs : List Char) :
    List (List Item) :=
  (cs.zipIdx i).flatMap fun (c, j) => (m.allTrees len (nextIp ip c) rem).map (⟨ip, l, j⟩ :: ·)

/-- trees whose first item has level `l` -/
def Model.lvlBlock (m : Model) (len : Nat) (ip : Str) (target : Nat) (e : List (Nat × List Char))
    (l : Nat) : List (List Item) :=
  match lvlChars e l with
  | none => []
  | some cs => m.idxBlock len ip (target - l) l 0 cs

theorem allTrees_succ_succ (m : Model) (len : Nat) (ip : Str) (target : Nat) :
    m.allTrees (len + 2) ip target =
      match m.cpOf ip with
      | none => []
      | some e => downFlat (m.lvlBlock (len + 1) ip target e) (min target m.maxLevel) := by
  rw [Model.allTrees]
  cases m.cpOf ip with
  | none => rfl
  | some e =>
    simp only [downFlat]
    congr 1

theorem idxBlock_cons (m : Model) (len : Nat) (ip : Str) (rem l i : Nat) (c : Char) (cs : List Char) :
    m.idxBlock len ip rem l i (c :: cs) =
      (m.allTrees len (nextIp ip c) rem).map (⟨ip, l, i⟩ :: ·) ++ m.idxBlock len ip rem l (i + 1) cs := by
  simp [Model.idxBlock, List.zipIdx_cons]

theorem idxBlock_nil (m : Model) (len : Nat) (ip : Str) (rem l i : Nat) :
    m.idxBlock len ip rem l i [] = [] := rfl

/-! ### fill -/

theorem fillIdxs_eq (m : Model) (len : Nat) (ip : Str) (rem l : Nat) (rec : Str → Option (List Item))
    (hrec : ∀ ip', rec ip' = (m.allTrees len ip' rem).head?) :
    ∀ cs i, fillIdxs rec ip l i cs = (m.idxBlock len ip rem l i cs).head? := by
  intro cs
  induction cs with
  | nil => intro i; rfl
  | cons c cs ih =>
    intro i
    rw [idxBlock_cons, List.head?_append, fillIdxs, hrec]
    cases h : (m.allTrees len (nextIp ip c) rem).head? with
    | none => simp [h, ih]
    | some t => simp [h]

theorem fillLevels_eq (m : Model) (len : Nat) (ip : Str) (target : Nat) (e : List (Nat × List Char))
    (he : m.cpOf ip = some e) (rec : Str → Nat → Option (List Item))
    (hrec : ∀ ip' tg, rec ip' tg = (m.allTrees len ip' tg).head?) :
    ∀ fuel cur, min cur m.maxLevel < fuel →
      m.fillLevels rec ip target fuel cur = (downFlat (m.lvlBlock len ip target e) (min cur m.maxLevel)).head? := by
  intro fuel
  induction fuel with
  | zero => intro cur h; omega
  | succ fuel ih =>
    intro cur hf
    rw [Model.fillLevels]
    cases hfc : m.findCp ip cur 0 with
    | none =>
      have := findCp_none he hfc
      rw [downFlat_nil]
      · rfl
      · intro k hk
        simp [Model.lvlBlock, this k (Nat.zero_le _) hk]
    | some r =>
      obtain ⟨cs, l⟩ := r
      obtain ⟨e', he', _, hl, hcs, habove⟩ := findCp_some hfc
      rw [he] at he'; injection he' with he'; subst he'
      have hskip : downFlat (m.lvlBlock len ip target e) (min cur m.maxLevel)
          = downFlat (m.lvlBlock len ip target e) l :=
        downFlat_skip _ l _ hl (fun k h1 h2 => by simp [Model.lvlBlock, habove k h1 h2])
      have hblk : m.lvlBlock len ip target e l = m.idxBlock len ip (target - l) l 0 cs := by
        simp [Model.lvlBlock, hcs]
      simp only []
      rw [fillIdxs_eq m len ip (target - l) l _ (fun ip' => hrec ip' (target - l)), hskip]
      by_cases h0 : l = 0
      · subst h0
        rw [downFlat_zero, hblk]
        cases (m.idxBlock len ip (target - 0) 0 0 cs).head? <;> simp
      · rw [downFlat_pos _ _ h0, hblk, List.head?_append]
        cases (m.idxBlock len ip (target - l) l 0 cs).head? with
        | some r => simp
        | none =>
          simp only [h0, if_false, Option.none_or]
          have : min (l - 1) m.maxLevel = l - 1 := by omega
          rw [ih (l - 1) (by omega), this]

theorem fill_head (m : Model) (hne : m.NE) :
    ∀ (len : Nat) (ip : Str) (target : Nat), m.fill len ip target = (m.allTrees len ip target).head? := by
  intro len
  induction len using Nat.strongRecOn with
  | _ len ih =>
    intro ip target
    match len with
    | 0 => rfl
    | 1 =>
      rw [Model.fill, Model.allTrees]
      cases hfc : m.findCp ip target target with
      | some r =>
        obtain ⟨cs, l⟩ := r
        obtain ⟨e, he, h1, h2, hcs, _⟩ := findCp_some hfc
        have hl : l = target := by omega
        subst hl
        have hM : l ≤ m.maxLevel := by omega
        have hcne := hne.chars_ne he hcs
        simp only [hM, if_true, he, Option.bind_some, hcs]
        cases cs with
        | nil => exact absurd rfl hcne
        | cons c cs => simp [List.range_succ_eq_map]
      | none =>
        cases he : m.cpOf ip with
        | none => simp
        | some e =>
          by_cases hM : target ≤ m.maxLevel
          · have := findCp_none he hfc target (Nat.le_refl _) (by omega)
            simp [this]
          · simp [hM]
    | len + 2 =>
      rw [Model.fill, allTrees_succ_succ]
      cases he : m.cpOf ip with
      | none =>
        rw [Model.fillLevels, findCp_none_of_cpOf he]
        rfl
      | some e =>
        rw [fillLevels_eq m (len + 1) ip target e he _ (fun ip' tg => ih (len + 1) (by omega) ip' tg)
          (target + 1) target (by omega)]

end Omen
