import PcfgVerif.Lemmas.OmenCursor3
/-!
# OMEN cursors, part 4: the emitted list is duplicate-free and is exactly the level set
-/
namespace Omen

/-- the strings emitted while the cursor is `c` -/
def Tables.strBlock (t : Tables) (target : Nat) (c : Cursor) : List Str :=
  ((t.outTrees target c).map fun tr => tr.filterMap t.m.charAt).map fun b => t.curIp c ++ b

theorem blocks_render (t : Tables) (target : Nat) (cs : List Cursor) :
    (t.blocks target cs).map t.render = cs.flatMap (t.strBlock target) := by
  induction cs with
  | nil => simp [Tables.blocks]
  | cons c cs ih =>
    simp only [Tables.blocks, List.flatMap_cons, List.map_append] at ih ⊢
    rw [ih]
    simp [Tables.strBlock, Tables.render, List.map_map, Function.comp_def]

theorem mem_strBlock (t : Tables) (ipLen : Nat) (hwf : t.WF ipLen) (target : Nat) (c : Cursor)
    (y : Str) :
    y ∈ t.strBlock target c ↔
      ∃ body, y = t.curIp c ++ body ∧ c.lenLvl + c.ipLvl ≤ target ∧ body.length = t.curLen c ∧
        0 < t.curLen c ∧
        t.m.transCost (t.curIp c) body = some (target - c.lenLvl - c.ipLvl) := by
  unfold Tables.strBlock Tables.outTrees Tables.gsTarget
  by_cases hrel : c.lenLvl + c.ipLvl ≤ target
  · rw [if_pos hrel]
    simp only []
    have hcore := (allTrees_strings_core t ipLen hwf (t.curLen c) (t.curIp c)
      (target - c.lenLvl - c.ipLvl)).2
    rw [List.mem_map]
    constructor
    · rintro ⟨body, hb, rfl⟩
      obtain ⟨h1, h2, h3⟩ := (hcore body).1 hb
      exact ⟨body, rfl, hrel, h1, h2, h3⟩
    · rintro ⟨body, rfl, _, h1, h2, h3⟩
      exact ⟨body, (hcore body).2 ⟨h1, h2, h3⟩, rfl⟩
  · rw [if_neg hrel]
    simp only [List.map_nil, List.not_mem_nil, false_iff]
    rintro ⟨_, _, h, _⟩
    exact hrel h

theorem nodup_strBlock (t : Tables) (ipLen : Nat) (hwf : t.WF ipLen) (target : Nat) (c : Cursor) :
    (t.strBlock target c).Nodup := by
  unfold Tables.strBlock
  apply nodup_map_of_injective
  · intro a b h; exact List.append_cancel_left h
  · unfold Tables.outTrees
    cases t.gsTarget target c with
    | none => simp
    | some tg => exact (allTrees_strings_core t ipLen hwf _ _ tg).1

/-! ## valid cursors point at table entries -/

theorem curIp_mem (t : Tables) (c : Cursor) (hv : c.Valid t) :
    t.curIp c ∈ t.ipTbl.getD c.ipLvl [] := by
  unfold Tables.curIp
  rw [getD_eq_getElem' _ _ _ hv.ipIdx]
  exact List.getElem_mem _

theorem curLen_mem (t : Tables) (c : Cursor) (hv : c.Valid t) :
    t.curLen c ∈ t.lnTbl.getD c.lenLvl [] := by
  unfold Tables.curLen
  rw [getD_eq_getElem' _ _ _ hv.lenIdx]
  exact List.getElem_mem _

theorem curIp_length (t : Tables) (ipLen : Nat) (hwf : t.WF ipLen) (c : Cursor) (hv : c.Valid t) :
    (t.curIp c).length = ipLen :=
  hwf.ip_len _ (getD_mem_tbl t.ipTbl c.ipLvl (Nat.lt_of_le_of_lt (Nat.zero_le _) hv.ipIdx)) _ (curIp_mem t c hv)

theorem cursor_unique (t : Tables) (ipLen : Nat) (hwf : t.WF ipLen) (a b : Cursor)
    (ha : a.Valid t) (hb : b.Valid t) (h1 : t.curIp a = t.curIp b) (h2 : t.curLen a = t.curLen b) :
    a = b := by
  obtain ⟨e1, e2⟩ := pos_unique t.ipTbl hwf.ip_nodup [] _ _ _ _ ha.ipIdx hb.ipIdx h1
  obtain ⟨e3, e4⟩ := pos_unique t.lnTbl hwf.ln_nodup 0 _ _ _ _ ha.lenIdx hb.lenIdx h2
  cases a; cases b
  simp only [] at e1 e2 e3 e4
  simp [e1, e2, e3, e4]

theorem strBlock_disjoint (t : Tables) (ipLen : Nat) (hwf : t.WF ipLen) (target : Nat)
    (a b : Cursor) (ha : a.Valid t) (hb : b.Valid t) (hab : a ≠ b) (y : Str)
    (hya : y ∈ t.strBlock target a) : y ∉ t.strBlock target b := by
  intro hyb
  obtain ⟨ba, rfl, _, la, _, _⟩ := (mem_strBlock t ipLen hwf target a _).1 hya
  obtain ⟨bb, e, _, lb, _, _⟩ := (mem_strBlock t ipLen hwf target b _).1 hyb
  have hl : (t.curIp a).length = (t.curIp b).length := by
    rw [curIp_length t ipLen hwf a ha, curIp_length t ipLen hwf b hb]
  obtain ⟨e1, e2⟩ := List.append_inj e hl
  subst e2
  exact hab (cursor_unique t ipLen hwf a b ha hb e1 (by rw [← la, ← lb]))

/-! ## membership -/

theorem levelOf_of_cursor (t : Tables) (ipLen : Nat) (hwf : t.WF ipLen) (target : Nat) (c : Cursor)
    (hv : c.Valid t) (body : List Char) (hrel : c.lenLvl + c.ipLvl ≤ target)
    (hlen : body.length = t.curLen c) (hpos : 0 < t.curLen c)
    (hcost : t.m.transCost (t.curIp c) body = some (target - c.lenLvl - c.ipLvl)) :
    t.levelOf ipLen (t.curIp c ++ body) = some target := by
  have hipl := curIp_length t ipLen hwf c hv
  have h1 : tblLevel t.ipTbl (t.curIp c) = some c.ipLvl :=
    (tblLevel_iff t.ipTbl hwf.ip_nodup _ _).2
      ⟨by have := hv.ipLvl; have := hwf.ip_levels; omega, curIp_mem t c hv⟩
  have h2 : tblLevel t.lnTbl (t.curLen c) = some c.lenLvl :=
    (tblLevel_iff t.lnTbl hwf.ln_nodup _ _).2
      ⟨by have := hv.lenLvl; have := hwf.ln_levels; omega, curLen_mem t c hv⟩
  unfold Tables.levelOf
  simp only [List.take_left' hipl, List.drop_left' hipl, hlen, h1, h2, hcost, List.length_append]
  rw [if_neg (by omega)]
  simp only [Option.some.injEq]
  omega

theorem cursor_of_levelOf (t : Tables) (ipLen : Nat) (hwf : t.WF ipLen) (target : Nat) (s : Str)
    (h : t.levelOf ipLen s = some target) :
    ∃ x : Cursor, x.Valid t ∧ x.lenLvl + x.ipLvl ≤ target ∧ s ∈ t.strBlock target x := by
  unfold Tables.levelOf at h
  simp only [] at h
  split at h
  · simp at h
  · rename_i hslen
    split at h
    · rename_i a b cst h1 h2 h3
      simp only [Option.some.injEq] at h
      obtain ⟨ha, hipm⟩ := (tblLevel_iff t.ipTbl hwf.ip_nodup _ _).1 h1
      obtain ⟨hb, hlnm⟩ := (tblLevel_iff t.lnTbl hwf.ln_nodup _ _).1 h2
      obtain ⟨j, hj, ej⟩ := List.mem_iff_getElem.1 hipm
      obtain ⟨i, hi, ei⟩ := List.mem_iff_getElem.1 hlnm
      have hil := hwf.ip_levels
      have hll := hwf.ln_levels
      refine ⟨⟨b, i, a, j⟩, ⟨by simp only []; omega, hi, by simp only []; omega, hj⟩,
        by simp only []; omega, ?_⟩
      have cip : t.curIp ⟨b, i, a, j⟩ = s.take ipLen := by
        unfold Tables.curIp
        simp only []
        rw [getD_eq_getElem' _ _ _ hj, ej]
      have cln : t.curLen ⟨b, i, a, j⟩ = (s.drop ipLen).length := by
        unfold Tables.curLen
        simp only []
        rw [getD_eq_getElem' _ _ _ hi, ei]
      rw [mem_strBlock t ipLen hwf]
      refine ⟨s.drop ipLen, ?_, by simp only []; omega, cln.symm, ?_, ?_⟩
      · rw [cip, List.take_append_drop]
      · rw [cln, List.length_drop]; omega
      · rw [cip, h3]
        simp only [Option.some.injEq]
        omega
    · simp at h

/-! ## the main theorem -/

theorem pairCount_bound (t : Tables) (ipLen : Nat) (hwf : t.WF ipLen) :
    t.sLn * (t.sIp + 1) ≤ t.pairCount := by
  have h1 : t.sIp = (t.ipTbl.map List.length).sum := by
    unfold Tables.sIp; rw [← hwf.ip_levels]; exact psum_tbl t.ipTbl
  have h2 : t.sLn = (t.lnTbl.map List.length).sum := by
    unfold Tables.sLn; rw [← hwf.ln_levels]; exact psum_tbl t.lnTbl
  unfold Tables.pairCount
  rw [← h1, ← h2, Nat.mul_comm t.sLn, Nat.mul_succ]
  omega

set_option linter.unusedVariables false in
/-- `hpos` is not needed for the proof; it is kept so that the statement matches C10 -/
theorem level_exact_core (t : Tables) (ipLen : Nat) (hpos : 0 < ipLen) (hwf : t.WF ipLen)
    (target : Nat) (s0 : CState) (hs : t.start = some s0) :
    ∃ N, (∀ fuel, N ≤ fuel → t.enumFrom target fuel s0 = t.enumFrom target N s0) ∧
      (t.enumFrom target N s0).Nodup ∧
      ∀ s : Str, s ∈ t.enumFrom target N s0 ↔ t.levelOf ipLen s = some target := by
  have hne : ∀ e ∈ t.m.cp, ∀ p ∈ e.2, p.2 ≠ [] :=
    fun e he p hp => ((hwf.cp_levels e he).2 p hp).2
  unfold Tables.start at hs
  split at hs
  · rename_i si sl hsi hsl
    simp only [Option.some.injEq] at hs
    subst hs
    obtain ⟨esi, hst⟩ := startOK_of_findFirst t si hsi
    subst esi
    obtain ⟨l1, l2, l3⟩ := findFirst_some _ _ _ hsl
    have hv0 : Cursor.Valid t ⟨sl, 0, t.startIp, 0⟩ := ⟨by simp only []; omega, l2, hst.le, hst.pos⟩
    obtain ⟨rest, ho, hlen⟩ := orbit_exists t hst target _ _ hv0 (Nat.le_refl _)
    have hpc := pairCount_bound t ipLen hwf
    have henum : ∀ fuel, t.enumFrom target fuel ⟨⟨sl, 0, t.startIp, 0⟩, []⟩ =
        ((t.blocks target (⟨sl, 0, t.startIp, 0⟩ :: rest)).take fuel).map t.render := by
      intro fuel
      rw [enum_spec t hne target fuel ⟨⟨sl, 0, t.startIp, 0⟩, []⟩ _ rest (Inv_fresh t target _) ho
        (by omega), rem_all]
    have hvalid : ∀ c ∈ (⟨sl, 0, t.startIp, 0⟩ : Cursor) :: rest, c.Valid t := by
      intro c hc
      rcases List.mem_cons.1 hc with rfl | hc
      · exact hv0
      · exact (orbit_valid t hst target _ rest ho hv0 c hc).1
    refine ⟨(t.blocks target (⟨sl, 0, t.startIp, 0⟩ :: rest)).length, ?_, ?_, ?_⟩
    · intro fuel hf
      rw [henum, henum, List.take_of_length_le hf, List.take_of_length_le (Nat.le_refl _)]
    · rw [henum, List.take_of_length_le (Nat.le_refl _), blocks_render]
      apply nodup_flatMap
      · exact orbit_pairwise t hst target _ rest ho hv0
      · intro c _; exact nodup_strBlock t ipLen hwf target c
      · intro a ha b hb hab y hya
        exact strBlock_disjoint t ipLen hwf target a b (hvalid a ha) (hvalid b hb) hab y hya
    · intro s
      rw [henum, List.take_of_length_le (Nat.le_refl _), blocks_render, List.mem_flatMap]
      constructor
      · rintro ⟨c, hc, hsc⟩
        obtain ⟨body, rfl, h1, h2, h3, h4⟩ := (mem_strBlock t ipLen hwf target c s).1 hsc
        exact levelOf_of_cursor t ipLen hwf target c (hvalid c hc) body h1 h2 h3 h4
      · intro hlv
        obtain ⟨x, hx, hrel, hmem⟩ := cursor_of_levelOf t ipLen hwf target s hlv
        refine ⟨x, ?_, hmem⟩
        exact orbit_cover t hst target _ rest ho hv0 x hx hrel (start_le4 t hst sl l3 x hx)
  · simp at hs


end Omen
