import PcfgVerif.Model.ExpandSpec
/-! Helper lemmas for the expansion core (C04, C09, C17). -/
namespace Pcfg

/-! ## Characterisation of the generated fragments (the only place that looks at their form) -/
namespace Frag
open Generated.Expand

theorem isMarkov_eq (c : Char) : isMarkov c = (c == 'M') := rfl
theorem isCase_eq (c : Char) : isCase c = (c == 'C') := rfl
theorem maskStart_eq : maskStart = 0 := rfl
theorem maskStep_eq : maskStep = 1 := rfl
theorem cIsLeaf_eq (n : Nat) : cIsLeaf n = (n == 1) := rfl
theorem pIsLeaf_eq (n : Nat) : pIsLeaf n = (n == 1) := rfl
theorem cLeafCount_eq : cLeafCount = 1 := rfl
theorem pLeafCount_eq : pLeafCount = 1 := rfl
theorem cLeafDec_eq : cLeafDec = 1 := rfl
theorem pLeafDec_eq : pLeafDec = 1 := rfl
theorem omenCount_eq : omenCount = 1 := rfl
theorem omenDec_eq : omenDec = 1 := rfl
theorem cLeafHit_eq (l : Int) : cLeafHit l = decide (l ≤ 0) := rfl
theorem cRecHit_eq (l : Int) : cRecHit l = decide (l ≤ 0) := rfl
theorem pLeafHit_eq (l : Int) : pLeafHit l = (l == 0) := rfl
theorem pRecHit_eq (l : Int) : pRecHit l = decide (l ≤ 0) := rfl
theorem omenHit_eq (l : Int) : omenHit l = decide (l ≤ 0) := rfl
theorem sessionHit_eq (l : Int) : sessionHit l = decide (l ≤ 0) := rfl

end Frag

/-- a limit test that, on a non-negative remaining budget, fires exactly at `0` -/
def HitZero (hit : Int → Bool) : Prop := ∀ l : Int, 0 ≤ l → (hit l = true ↔ l = 0)

theorem hitZero_le : HitZero (fun l => decide (l ≤ 0)) := by
  intro l hl; simp; omega
theorem hitZero_eq : HitZero (fun l => l == 0) := by
  intro l hl; simp

theorem hitZero_c (b : Bool) :
    HitZero (fun l => if b then Generated.Expand.cLeafHit l else Generated.Expand.cRecHit l) := by
  intro l hl; cases b <;> simp [Frag.cLeafHit_eq, Frag.cRecHit_eq] <;> omega
theorem hitZero_p (b : Bool) :
    HitZero (fun l => if b then Generated.Expand.pLeafHit l else Generated.Expand.pRecHit l) := by
  intro l hl; cases b <;> simp [Frag.pLeafHit_eq, Frag.pRecHit_eq] <;> omega

theorem limTruthy_none : limTruthy none = false := rfl
theorem limTruthy_pos (n : Nat) (hn : 1 ≤ n) : limTruthy (some (n : Int)) = true := by
  simp [limTruthy]; omega

/-! ## The Markov loop -/

theorem omenLoop_none' (gs : List Str) : omenLoop gs none = ⟨gs, gs.length, false⟩ := by
  induction gs with
  | nil => rfl
  | cons a rest ih =>
    simp only [omenLoop, limTruthy_none, ih, Frag.omenCount_eq]
    simp [Nat.add_comm]

theorem omenLoop_limit' (gs : List Str) (n : Nat) (hn : 1 ≤ n) :
    omenLoop gs (some (n : Int)) = ⟨gs.take n, min n gs.length, false⟩ := by
  induction gs generalizing n with
  | nil => simp [omenLoop]
  | cons a rest ih =>
    simp only [omenLoop, limTruthy_pos n hn, Frag.omenCount_eq, Frag.omenDec_eq, Frag.omenHit_eq,
      Option.getD_some, if_true]
    by_cases h1 : n = 1
    · subst h1; simp
    · have hd : ¬ ((n : Int) - 1 ≤ 0) := by omega
      have hcast : ((n : Int) - 1) = ((n - 1 : Nat) : Int) := by omega
      simp only [decide_eq_false hd, Bool.false_eq_true, if_false]
      rw [hcast, ih (n - 1) (by omega)]
      obtain ⟨m, rfl⟩ : ∃ m, n = m + 2 := ⟨n - 2, by omega⟩
      simp; omega

/-! ## One `for ... in values` loop -/

theorem valuesLoop_spec (body : Str → Option Int → ERes × Int) (hit : Int → Bool)
    (spec : Str → List Str) (hhit : HitZero hit) (vals : List Str)
    (hnone : ∀ v ∈ vals, (body v none).1 = ⟨spec v, (spec v).length, false⟩)
    (hsome : ∀ v ∈ vals, ∀ n : Nat, 1 ≤ n → body v (some (n : Int)) =
      (⟨(spec v).take n, min n (spec v).length, false⟩, ((min n (spec v).length : Nat) : Int))) :
    valuesLoop body hit vals none = ⟨vals.flatMap spec, (vals.flatMap spec).length, false⟩ ∧
    ∀ n : Nat, 1 ≤ n → valuesLoop body hit vals (some (n : Int)) =
      ⟨(vals.flatMap spec).take n, min n (vals.flatMap spec).length, false⟩ := by
  induction vals with
  | nil => constructor <;> simp [valuesLoop]
  | cons v vs ih =>
    have ih' := ih (fun w hw => hnone w (List.mem_cons_of_mem _ hw))
      (fun w hw => hsome w (List.mem_cons_of_mem _ hw))
    constructor
    · have h := hnone v List.mem_cons_self
      unfold valuesLoop
      simp only [limTruthy_none]
      rw [ih'.1]
      generalize body v none = b at h
      obtain ⟨r, d⟩ := b
      simp at h
      subst h
      simp
    · intro n hn
      have h := hsome v List.mem_cons_self n hn
      unfold valuesLoop
      rw [h]
      simp only [limTruthy_pos n hn, Option.getD_some]
      by_cases hk : n ≤ (spec v).length
      · have h0 : ((n : Int) - ((min n (spec v).length : Nat) : Int)) = 0 := by omega
        rw [h0, (hhit 0 (by omega)).2 rfl]
        simp
        constructor
        · rw [List.take_append]
          simp [Nat.sub_eq_zero_of_le hk]
        · omega
      · have hcast : ((n : Int) - ((min n (spec v).length : Nat) : Int)) =
            ((n - (spec v).length : Nat) : Int) := by omega
        have hne : hit ((n - (spec v).length : Nat) : Int) = false := by
          cases hh : hit ((n - (spec v).length : Nat) : Int) with
          | false => rfl
          | true => have := (hhit _ (by omega)).1 hh; omega
        rw [hcast, hne, ih'.2 (n - (spec v).length) (by omega)]
        simp
        constructor
        · rw [List.take_append, List.take_of_length_le (by omega)]
        · omega

/-! ## The recursion -/

/-- what one iteration of a values loop does once the new guess `ng` is known -/
theorem leaf_step (upper : Char → List Char) (g : EGrammar) (omen : Nat → Option (List Str))
    (rest : PT) (isLeaf : Bool) (cnt : Nat) (dec : Int) (hleaf : isLeaf = (rest.length + 1 == 1))
    (hcnt : cnt = 1) (hdec : dec = 1) (ng : Str)
    (ih : rest ≠ [] →
      recGuesses upper g omen ng rest none =
        ⟨productSpec upper g ng rest, (productSpec upper g ng rest).length, false⟩ ∧
      ∀ n : Nat, 1 ≤ n → recGuesses upper g omen ng rest (some (n : Int)) =
        ⟨(productSpec upper g ng rest).take n, min n (productSpec upper g ng rest).length, false⟩)
    (body : Option Int → ERes × Int)
    (hbody : body = fun lim => if isLeaf = true then (⟨[ng], cnt, false⟩, dec)
      else (recGuesses upper g omen ng rest lim, ((recGuesses upper g omen ng rest lim).count : Int))) :
    (body none).1 = ⟨productSpec upper g ng rest, (productSpec upper g ng rest).length, false⟩ ∧
    ∀ n : Nat, 1 ≤ n → body (some (n : Int)) =
      (⟨(productSpec upper g ng rest).take n, min n (productSpec upper g ng rest).length, false⟩,
        ((min n (productSpec upper g ng rest).length : Nat) : Int)) := by
  subst hbody hcnt hdec
  cases rest with
  | nil =>
    subst hleaf
    simp [productSpec]
    intro n hn
    refine ⟨⟨?_, ?_⟩, ?_⟩
    · obtain ⟨m, rfl⟩ : ∃ m, n = m + 1 := ⟨n - 1, by omega⟩
      simp
    · omega
    · omega
  | cons p ps =>
    have hl : isLeaf = false := by subst hleaf; simp
    have ih' := ih (by simp)
    subst hl
    simp only [Bool.false_eq_true, if_false]
    refine ⟨ih'.1, ?_⟩
    intro n hn
    rw [ih'.2 n hn]

theorem recGuesses_spec (upper : Char → List Char) (g : EGrammar) (omen : Nat → Option (List Str))
    (pt : PT) : ∀ (cur : Str), pt ≠ [] → okSpec upper g cur pt = true →
    recGuesses upper g omen cur pt none =
      ⟨productSpec upper g cur pt, (productSpec upper g cur pt).length, false⟩ ∧
    ∀ n : Nat, 1 ≤ n → recGuesses upper g omen cur pt (some (n : Int)) =
      ⟨(productSpec upper g cur pt).take n, min n (productSpec upper g cur pt).length, false⟩ := by
  induction pt with
  | nil => intro cur h; exact absurd rfl h
  | cons hd rest ih =>
    obtain ⟨t, i⟩ := hd
    intro cur _ hok
    unfold okSpec at hok
    split at hok
    · rename_i cat vals hcat hvals
      unfold recGuesses productSpec
      simp only [hcat, hvals]
      simp only [Bool.and_eq_true, Bool.not_eq_true', List.all_eq_true] at hok
      obtain ⟨⟨hM, hne⟩, hall⟩ := hok
      simp only [hM, Bool.false_eq_true, if_false]
      -- per-value facts
      have hval : ∀ v ∈ vals, ∃ ng, combine upper cat (vals.headD []) cur v = some ng ∧
          okSpec upper g ng rest = true := by
        intro v hv
        have := hall v hv
        split at this
        · rename_i ng hng; exact ⟨ng, hng, this⟩
        · simp at this
      cases vals with
      | nil => simp at hne
      | cons first vs =>
      simp only [List.head?_cons, List.headD_cons] at *
      by_cases hC : Generated.Expand.isCase cat = true
      · simp only [hC, if_true]
        simp only [combine, hC, if_true] at hval
        have key := valuesLoop_spec
          (fun mask lim =>
                match applyMask upper (splitTail cur (List.length first)).snd mask Generated.Expand.maskStart with
                | none => ({ out := [], count := 0, err := true }, 0)
                | some newEnd =>
                  if Generated.Expand.cIsLeaf (rest.length + 1) = true then
                    ({ out := [(splitTail cur (List.length first)).fst ++ newEnd],
                        count := Generated.Expand.cLeafCount },
                      Generated.Expand.cLeafDec)
                  else
                    (recGuesses upper g omen ((splitTail cur (List.length first)).fst ++ newEnd) rest lim,
                      ↑(recGuesses upper g omen ((splitTail cur (List.length first)).fst ++ newEnd) rest lim).count))
          (fun l =>
                if Generated.Expand.cIsLeaf (rest.length + 1) = true then Generated.Expand.cLeafHit l
                else Generated.Expand.cRecHit l)
          (fun v =>
              match combine upper cat first cur v with
              | some cur' => productSpec upper g cur' rest
              | none => [])
          (hitZero_c _) (first :: vs) ?_ ?_
        · exact key
        · intro v hv
          obtain ⟨ng, hng, hokng⟩ := hval v hv
          simp only [combine, hC, if_true]
          cases hm : applyMask upper (splitTail cur (List.length first)).snd v Generated.Expand.maskStart with
          | none => simp [hm] at hng
          | some newEnd =>
            simp only [hm, Option.map_some, Option.some.injEq] at hng
            subst hng
            exact (leaf_step upper g omen rest _ _ _ (Frag.cIsLeaf_eq _) Frag.cLeafCount_eq
              Frag.cLeafDec_eq _ (fun h => ih _ h hokng) _ rfl).1
        · intro v hv
          obtain ⟨ng, hng, hokng⟩ := hval v hv
          simp only [combine, hC, if_true]
          cases hm : applyMask upper (splitTail cur (List.length first)).snd v Generated.Expand.maskStart with
          | none => simp [hm] at hng
          | some newEnd =>
            simp only [hm, Option.map_some, Option.some.injEq] at hng
            subst hng
            exact (leaf_step upper g omen rest _ _ _ (Frag.cIsLeaf_eq _) Frag.cLeafCount_eq
              Frag.cLeafDec_eq _ (fun h => ih _ h hokng) _ rfl).2
      · simp only [hC]
        have key := valuesLoop_spec
          (fun item lim =>
              if Generated.Expand.pIsLeaf (rest.length + 1) = true then
                ({ out := [cur ++ item], count := Generated.Expand.pLeafCount }, Generated.Expand.pLeafDec)
              else
                (recGuesses upper g omen (cur ++ item) rest lim,
                  ↑(recGuesses upper g omen (cur ++ item) rest lim).count))
          (fun l =>
              if Generated.Expand.pIsLeaf (rest.length + 1) = true then Generated.Expand.pLeafHit l
              else Generated.Expand.pRecHit l)
          (fun v =>
              match combine upper cat first cur v with
              | some cur' => productSpec upper g cur' rest
              | none => [])
          (hitZero_p _) (first :: vs) ?_ ?_
        · exact key
        · intro v hv
          obtain ⟨ng, hng, hokng⟩ := hval v hv
          simp only [hng]
          have hng' : cur ++ v = ng := by simpa [combine, hC] using hng
          subst hng'
          exact (leaf_step upper g omen rest _ _ _ (Frag.pIsLeaf_eq _) Frag.pLeafCount_eq
            Frag.pLeafDec_eq _ (fun h => ih _ h hokng) _ rfl).1
        · intro v hv
          obtain ⟨ng, hng, hokng⟩ := hval v hv
          simp only [hng]
          have hng' : cur ++ v = ng := by simpa [combine, hC] using hng
          subst hng'
          exact (leaf_step upper g omen rest _ _ _ (Frag.pIsLeaf_eq _) Frag.pLeafCount_eq
            Frag.pLeafDec_eq _ (fun h => ih _ h hokng) _ rfl).2
    · simp at hok

theorem productSpec_pos' (upper : Char → List Char) (g : EGrammar) (pt : PT) :
    ∀ cur : Str, okSpec upper g cur pt = true → 0 < (productSpec upper g cur pt).length := by
  induction pt with
  | nil => intro cur _; simp [productSpec]
  | cons hd rest ih =>
    obtain ⟨t, i⟩ := hd
    intro cur hok
    unfold okSpec at hok
    split at hok
    · rename_i cat vals hcat hvals
      unfold productSpec
      simp only [hcat, hvals]
      simp only [Bool.and_eq_true, Bool.not_eq_true', List.all_eq_true] at hok
      obtain ⟨⟨_, hne⟩, hall⟩ := hok
      cases vals with
      | nil => simp at hne
      | cons first vs =>
        have h1 := hall first List.mem_cons_self
        split at h1
        · rename_i ng hng
          have := ih ng h1
          simp only [List.flatMap_cons, List.length_append, hng]
          omega
        · simp at h1
    · simp at hok

end Pcfg
