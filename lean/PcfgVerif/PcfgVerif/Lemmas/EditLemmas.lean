import PcfgVerif.Model.EditRules
/-!
# Helper lemmas for `edit_rules` (C20)

1. characterisation of the generated fragments (`keepLen`, `isA` … `isX`, `yearLenLo/Hi`, `startLo/Hi`,
   `ctxLoIdx/HiIdx`) and of `totalLen` on a cons;
2. the scanner `tokGo` on a concatenation of labels;
3. `splitOnCp` on pieces that do not contain the separator;
4. one-step unfoldings of the three line filters on a well-formed line.
-/
namespace Pcfg

/-! ## 1. generated fragments -/

theorem gen_keepLen_iff (lo hi mn mx : Nat) :
    Generated.EditRules.keepLen lo hi mn mx = true ↔
      (hi = 0 ∨ (mn ≤ lo ∧ (mx = 0 ∨ hi ≤ mx))) := by
  simp only [Generated.EditRules.keepLen, CmpOp.nat]
  by_cases h0 : hi = 0
  · simp [h0]
  · by_cases h1 : mn ≤ lo <;> by_cases h2 : mx = 0 <;> simp [h0, h1, h2]

theorem gen_yearLenLo : Generated.EditRules.yearLenLo = 4 := rfl
theorem gen_yearLenHi : Generated.EditRules.yearLenHi = 4 := rfl
theorem gen_startLo : Generated.EditRules.startLo = 0 := rfl
theorem gen_startHi : Generated.EditRules.startHi = 0 := rfl
theorem gen_ctxLo (ctx : Nat × Nat) : ctxAt ctx Generated.EditRules.ctxLoIdx = ctx.1 := rfl
theorem gen_ctxHi (ctx : Nat × Nat) : ctxAt ctx Generated.EditRules.ctxHiIdx = ctx.2 := rfl

theorem toNat_ofNat_small (c : Nat) (h : c < 0xd800) : (Char.ofNat c).toNat = c := by
  have hv : c.isValidChar := Or.inl h
  simp [Char.ofNat, hv, Char.ofNatAux, Char.toNat]

theorem ofNat_eq_iff (c : Nat) (h : c < 0xd800) (k : Char) : Char.ofNat c = k ↔ c = k.toNat := by
  rw [← Char.toNat_inj, toNat_ofNat_small c h]

theorem ofNat_beq (c : Nat) (h : c < 0xd800) (k : Char) :
    (Char.ofNat c == k) = decide (c = k.toNat) := by
  rw [Bool.eq_iff_iff]
  simp only [beq_iff_eq, decide_eq_true_eq]
  exact ofNat_eq_iff c h k

theorem gen_isA (c : Nat) (h : c < 0xd800) : Generated.EditRules.isA (Char.ofNat c) = decide (c = 0x41) := by
  simp [Generated.EditRules.isA, CmpOp.chr, ofNat_beq c h]
theorem gen_isD (c : Nat) (h : c < 0xd800) : Generated.EditRules.isD (Char.ofNat c) = decide (c = 0x44) := by
  simp [Generated.EditRules.isD, CmpOp.chr, ofNat_beq c h]
theorem gen_isY (c : Nat) (h : c < 0xd800) : Generated.EditRules.isY (Char.ofNat c) = decide (c = 0x59) := by
  simp [Generated.EditRules.isY, CmpOp.chr, ofNat_beq c h]
theorem gen_isO (c : Nat) (h : c < 0xd800) : Generated.EditRules.isO (Char.ofNat c) = decide (c = 0x4f) := by
  simp [Generated.EditRules.isO, CmpOp.chr, ofNat_beq c h]
theorem gen_isK (c : Nat) (h : c < 0xd800) : Generated.EditRules.isK (Char.ofNat c) = decide (c = 0x4b) := by
  simp [Generated.EditRules.isK, CmpOp.chr, ofNat_beq c h]
theorem gen_isX (c : Nat) (h : c < 0xd800) : Generated.EditRules.isX (Char.ofNat c) = decide (c = 0x58) := by
  simp [Generated.EditRules.isX, CmpOp.chr, ofNat_beq c h]

/-- `tokenLen` with the generated fragments replaced by their meaning -/
theorem tokenLen_cons (ctx : Nat × Nat) (c : Nat) (ds : CPs) (h : c < 0xd800) :
    tokenLen ctx (c :: ds) =
      if c = 0x59 then some (4, 4)
      else if c = 0x41 ∨ c = 0x44 ∨ c = 0x4f ∨ c = 0x4b then (digitsVal ds).map fun n => (n, n)
      else if c = 0x58 then (digitsVal ds).map fun n => (n * ctx.1, n * ctx.2)
      else some (0, 0) := by
  simp only [tokenLen, gen_isA c h, gen_isD c h, gen_isY c h, gen_isO c h, gen_isK c h, gen_isX c h,
    gen_yearLenLo, gen_yearLenHi, gen_ctxLo, gen_ctxHi, decide_eq_true_eq]
  by_cases hA : c = 0x41
  · subst hA; simp
  by_cases hD : c = 0x44
  · subst hD; simp
  by_cases hY : c = 0x59
  · subst hY; simp
  by_cases hO : c = 0x4f
  · subst hO; simp
  by_cases hK : c = 0x4b
  · subst hK; simp
  by_cases hX : c = 0x58
  · subst hX; simp
  simp [hA, hD, hY, hO, hK, hX]

theorem totalLen_nil (ctx : Nat × Nat) : totalLen ctx [] = some (0, 0) := rfl

theorem totalLen_cons_some (ctx : Nat × Nat) (t : CPs) (ts : List CPs) (a b : Nat × Nat)
    (ha : tokenLen ctx t = some a) (hb : totalLen ctx ts = some b) :
    totalLen ctx (t :: ts) = some (a.1 + b.1, a.2 + b.2) := by
  simp [totalLen, ha, hb]

/-- `totalLen` succeeds on `t :: ts` exactly when both parts do -/
theorem totalLen_cons_eq_some (ctx : Nat × Nat) (t : CPs) (ts : List CPs) (r : Nat × Nat) :
    totalLen ctx (t :: ts) = some r ↔
      ∃ a b, tokenLen ctx t = some a ∧ totalLen ctx ts = some b ∧ r = (a.1 + b.1, a.2 + b.2) := by
  rw [totalLen]
  cases ha : tokenLen ctx t with
  | none => simp
  | some a =>
    cases hb : totalLen ctx ts with
    | none => simp
    | some b =>
      simp only [Option.some.injEq]
      constructor
      · intro h; exact ⟨a, b, rfl, rfl, h.symm⟩
      · rintro ⟨a', b', rfl, rfl, h⟩; exact h.symm

/-! ## 2. the scanner -/

theorem upper_not_digit {c : Nat} (h : isUpperAZ c = true) : isDigit09 c = false := by
  simp [isUpperAZ, isDigit09] at *; omega

theorem upper_ne_tab {c : Nat} (h : isUpperAZ c = true) : c ≠ 0x09 ∧ c ≠ 0x0a := by
  simp [isUpperAZ] at h; omega

theorem digit_ne_tab {c : Nat} (h : isDigit09 c = true) : c ≠ 0x09 ∧ c ≠ 0x0a := by
  simp [isDigit09] at h; omega

theorem upper_lt {c : Nat} (h : isUpperAZ c = true) : c < 0xd800 := by
  simp [isUpperAZ] at h; omega

theorem tokGo_digits (ds rest acc : CPs) (h : ∀ d ∈ ds, isDigit09 d = true) :
    tokGo (ds ++ rest) (some acc) = tokGo rest (some (ds.reverse ++ acc)) := by
  induction ds generalizing acc with
  | nil => simp
  | cons d ds ih =>
    have hd : isDigit09 d = true := h d (by simp)
    have := ih (d :: acc) (fun x hx => h x (by simp [hx]))
    simp [tokGo, hd, this]

theorem tokGo_noUpper_none (p : CPs) (h : ∀ c ∈ p, isUpperAZ c = false) : tokGo p none = [] := by
  induction p with
  | nil => simp [tokGo]
  | cons c p ih =>
    have hc : isUpperAZ c = false := h c (by simp)
    have := ih (fun x hx => h x (by simp [hx]))
    by_cases hd : isDigit09 c = true
    · simp [tokGo, hd, this]
    · simp [tokGo, hd, hc, this]

theorem tokGo_tab (p acc : CPs) : tokGo (0x09 :: p) (some acc) = acc.reverse :: tokGo p none := by
  simp [tokGo, isDigit09, isUpperAZ]

theorem tokGo_upper_some (c : Nat) (rest acc : CPs) (h : isUpperAZ c = true) :
    tokGo (c :: rest) (some acc) = acc.reverse :: tokGo rest (some [c]) := by
  simp [tokGo, upper_not_digit h, h]

theorem tokGo_upper_none (c : Nat) (rest : CPs) (h : isUpperAZ c = true) :
    tokGo (c :: rest) none = tokGo rest (some [c]) := by
  simp [tokGo, upper_not_digit h, h]

/-- a label as the trainer writes it (raw form of `IsLabel`) -/
def LabelRaw (t : CPs) : Prop :=
  ∃ c ds, t = c :: ds ∧ isUpperAZ c = true ∧ ∀ d ∈ ds, isDigit09 d = true

/-- scanning a sequence of labels followed by something that ends the running token -/
theorem tokGo_labels (labels : List CPs) (rest : CPs) (R : List CPs)
    (hl : ∀ t ∈ labels, LabelRaw t)
    (hsome : ∀ acc, tokGo rest (some acc) = acc.reverse :: R) (hnone : tokGo rest none = R) :
    tokGo (labels.flatten ++ rest) none = labels ++ R ∧
      ∀ acc, tokGo (labels.flatten ++ rest) (some acc) = acc.reverse :: (labels ++ R) := by
  induction labels with
  | nil => simp [hsome, hnone]
  | cons t ls ih =>
    obtain ⟨c, ds, rfl, hc, hds⟩ := hl t (by simp)
    have ih' := (ih (fun x hx => hl x (by simp [hx]))).2
    have key : tokGo (ds ++ (ls.flatten ++ rest)) (some [c]) = (c :: ds) :: (ls ++ R) := by
      rw [tokGo_digits _ _ _ hds, ih']
      simp
    constructor
    · simp only [List.flatten_cons, List.cons_append, List.append_assoc]
      rw [tokGo_upper_none _ _ hc, key]
    · intro acc
      simp only [List.flatten_cons, List.cons_append, List.append_assoc]
      rw [tokGo_upper_some _ _ _ hc, key]

theorem tokenize_labels_tab (labels : List CPs) (prob : CPs)
    (hl : ∀ t ∈ labels, LabelRaw t) (hp : ∀ c ∈ prob, isUpperAZ c = false) :
    tokenize (labels.flatten ++ [0x09] ++ prob) = labels := by
  have hn := tokGo_noUpper_none prob hp
  have := (tokGo_labels labels (0x09 :: prob) [] hl
    (fun acc => by rw [tokGo_tab, hn])
    (by
      have : tokGo (0x09 :: prob) none = tokGo prob none := by simp [tokGo, isDigit09, isUpperAZ]
      rw [this, hn])).1
  simpa [tokenize] using this

/-- labels contain neither TAB nor newline -/
theorem labels_flatten_ne (labels : List CPs) (hl : ∀ t ∈ labels, LabelRaw t) :
    ∀ c ∈ labels.flatten, c ≠ 0x09 ∧ c ≠ 0x0a := by
  intro c hc
  rw [List.mem_flatten] at hc
  obtain ⟨t, ht, hct⟩ := hc
  obtain ⟨c0, ds, rfl, hc0, hds⟩ := hl t ht
  rcases List.mem_cons.mp hct with h | h
  · subst h; exact upper_ne_tab hc0
  · exact digit_ne_tab (hds c h)

/-! ## 3. `str.split` -/

theorem splitOnCp_noSep (sep : Nat) (l cur : CPs) (h : ∀ c ∈ l, c ≠ sep) :
    splitOnCp sep l cur = [cur.reverse ++ l] := by
  induction l generalizing cur with
  | nil => simp [splitOnCp]
  | cons c l ih =>
    have hc : c ≠ sep := h c (by simp)
    have := ih (c :: cur) (fun x hx => h x (by simp [hx]))
    simp [splitOnCp, hc, this]

theorem splitOnCp_append_sep (sep : Nat) (l rest cur : CPs) (h : ∀ c ∈ l, c ≠ sep) :
    splitOnCp sep (l ++ sep :: rest) cur = (cur.reverse ++ l) :: splitOnCp sep rest [] := by
  induction l generalizing cur with
  | nil => simp [splitOnCp]
  | cons c l ih =>
    have hc : c ≠ sep := h c (by simp)
    have := ih (c :: cur) (fun x hx => h x (by simp [hx]))
    simp [splitOnCp, hc, this]

theorem pySplit_two (sep : Nat) (a b : CPs) (ha : ∀ c ∈ a, c ≠ sep) (hb : ∀ c ∈ b, c ≠ sep) :
    pySplit sep (a ++ [sep] ++ b) = [a, b] := by
  have : a ++ [sep] ++ b = a ++ sep :: b := by simp
  rw [pySplit, this, splitOnCp_append_sep _ _ _ _ ha, splitOnCp_noSep _ _ _ hb]
  simp

/-- lines of a text made of newline-terminated blocks -/
theorem textLines_blocks (ls : List CPs) (h : ∀ l ∈ ls, ∀ c ∈ l, c ≠ 0x0a) :
    textLines ((ls.map fun l => l ++ [0x0a]).flatten) = ls ++ [[]] := by
  unfold textLines pySplit
  induction ls with
  | nil => simp [splitOnCp]
  | cons l ls ih =>
    have h1 : ∀ c ∈ l, c ≠ 0x0a := h l (by simp)
    have := ih (fun x hx => h x (by simp [hx]))
    simp only [List.map_cons, List.flatten_cons, List.append_assoc, List.cons_append]
    rw [splitOnCp_append_sep _ _ _ _ h1]
    simp [this]

/-! ## 4. one step of each filter on a well-formed line -/

theorem editLengthLines_step (ctx : Nat × Nat) (mn mx : Nat) (line prob : CPs) (toks : List CPs)
    (total : Nat × Nat)
    (rest : List CPs) (hne : line ≠ []) (hprob : probField line = some prob)
    (htok : tokenize line = toks) (htne : toks ≠ []) (htot : totalLen ctx toks = some total) :
    editLengthLines ctx mn mx (line :: rest) =
      (editLengthLines ctx mn mx rest).map fun more =>
        if Generated.EditRules.keepLen total.1 total.2 mn mx then rebuild toks prob :: more
        else more := by
  have h1 : line.isEmpty = false := by cases line <;> simp_all
  have h2 : toks.isEmpty = false := by cases toks <;> simp_all
  rw [editLengthLines]
  simp only [h1, hprob, htok, h2, htot]
  cases editLengthLines ctx mn mx rest with
  | none => simp
  | some more =>
    by_cases hk : Generated.EditRules.keepLen total.1 total.2 mn mx = true <;> simp [hk]

theorem editTerminalLines_step (allowed : List Nat) (line prob : CPs) (toks : List CPs)
    (rest : List CPs) (hne : line ≠ []) (hprob : probField line = some prob)
    (htok : tokenize line = toks) (htne : toks ≠ []) :
    editTerminalLines allowed (line :: rest) =
      (editTerminalLines allowed rest).map fun more =>
        if toks.all (fun t => allowed.contains (t.headD 0)) then rebuild toks prob :: more
        else more := by
  have h1 : line.isEmpty = false := by cases line <;> simp_all
  have h2 : toks.isEmpty = false := by cases toks <;> simp_all
  rw [editTerminalLines]
  simp only [h1, hprob, htok, h2]
  cases editTerminalLines allowed rest with
  | none => simp
  | some more =>
    cases toks.all (fun t => allowed.contains (t.headD 0)) <;> simp

theorem checkRegexLines_step (ok : CPs → Bool) (line prob : CPs) (rest : List CPs)
    (hne : line ≠ []) (hprob : probField line = some prob) :
    checkRegexLines ok (line :: rest) =
      (checkRegexLines ok rest).map fun more =>
        if ok (structField line) then (line ++ [0x0a]) :: more else more := by
  have h1 : line.isEmpty = false := by cases line <;> simp_all
  rw [checkRegexLines]
  simp only [h1, hprob]
  cases checkRegexLines ok rest with
  | none => simp
  | some more => by_cases hk : ok (structField line) = true <;> simp [hk]

theorem editLengthLines_last (ctx : Nat × Nat) (mn mx : Nat) :
    editLengthLines ctx mn mx [[]] = some [] := by
  simp [editLengthLines]
theorem editTerminalLines_last (allowed : List Nat) : editTerminalLines allowed [[]] = some [] := by
  simp [editTerminalLines]
theorem checkRegexLines_last (ok : CPs → Bool) : checkRegexLines ok [[]] = some [] := by
  simp [checkRegexLines]

/-! ## 5. well-formed lines and files (raw forms of `gLine`, `gText`) -/

/-- raw form of `IsProbText` -/
def ProbRaw (p : CPs) : Prop :=
  (∀ c ∈ p, isUpperAZ c = false ∧ c ≠ 0x09 ∧ c ≠ 0x0a) ∧ lstripWs (rstripWs p) = p

/-- raw form of `gLine` -/
def lineRaw (labels : List CPs) (prob : CPs) : CPs := labels.flatten ++ [0x09] ++ prob

theorem lineRaw_ne_nil (labels : List CPs) (prob : CPs) : lineRaw labels prob ≠ [] := by
  simp [lineRaw]

theorem rebuild_eq (labels : List CPs) (prob : CPs) :
    rebuild labels prob = lineRaw labels prob ++ [0x0a] := rfl

theorem tokenize_lineRaw (labels : List CPs) (prob : CPs) (hl : ∀ t ∈ labels, LabelRaw t)
    (hp : ProbRaw prob) : tokenize (lineRaw labels prob) = labels :=
  tokenize_labels_tab labels prob hl (fun c hc => (hp.1 c hc).1)

theorem pySplit_lineRaw (labels : List CPs) (prob : CPs) (hl : ∀ t ∈ labels, LabelRaw t)
    (hp : ProbRaw prob) : pySplit 0x09 (lineRaw labels prob) = [labels.flatten, prob] :=
  pySplit_two 0x09 labels.flatten prob (fun c hc => (labels_flatten_ne labels hl c hc).1)
    (fun c hc => (hp.1 c hc).2.1)

theorem probField_lineRaw (labels : List CPs) (prob : CPs) (hl : ∀ t ∈ labels, LabelRaw t)
    (hp : ProbRaw prob) : probField (lineRaw labels prob) = some prob := by
  simp [probField, pySplit_lineRaw labels prob hl hp, hp.2]

theorem structField_lineRaw (labels : List CPs) (prob : CPs) (hl : ∀ t ∈ labels, LabelRaw t)
    (hp : ProbRaw prob) : structField (lineRaw labels prob) = labels.flatten := by
  simp [structField, pySplit_lineRaw labels prob hl hp]

theorem lineRaw_no_newline (labels : List CPs) (prob : CPs) (hl : ∀ t ∈ labels, LabelRaw t)
    (hp : ProbRaw prob) : ∀ c ∈ lineRaw labels prob, c ≠ 0x0a := by
  intro c hc
  simp only [lineRaw, List.mem_append, List.mem_singleton] at hc
  rcases hc with (hc | hc) | hc
  · exact (labels_flatten_ne labels hl c hc).2
  · omega
  · exact (hp.1 c hc).2.2

/-- raw form of `gText` -/
def textRaw (rows : List (List CPs × CPs)) : CPs :=
  (rows.map fun r => lineRaw r.1 r.2 ++ [0x0a]).flatten

theorem textLines_textRaw (rows : List (List CPs × CPs))
    (h : ∀ r ∈ rows, (∀ t ∈ r.1, LabelRaw t) ∧ ProbRaw r.2) :
    textLines (textRaw rows) = (rows.map fun r => lineRaw r.1 r.2) ++ [[]] := by
  have := textLines_blocks (rows.map fun r => lineRaw r.1 r.2) (by
    intro l hl
    obtain ⟨r, hr, rfl⟩ := List.mem_map.mp hl
    exact lineRaw_no_newline r.1 r.2 (h r hr).1 (h r hr).2)
  simpa [textRaw, List.map_map, Function.comp_def] using this

theorem textRaw_filter_cons (keep : List CPs × CPs → Bool) (r : List CPs × CPs)
    (rows : List (List CPs × CPs)) :
    textRaw ((r :: rows).filter keep) =
      if keep r then lineRaw r.1 r.2 ++ [0x0a] ++ textRaw (rows.filter keep)
      else textRaw (rows.filter keep) := by
  cases hk : keep r <;> simp [hk, textRaw]

theorem editLength_filter_gen (ctx : Nat × Nat) (mn mx : Nat) (keep : List CPs × CPs → Bool)
    (rows : List (List CPs × CPs))
    (hkeep : ∀ r, keep r = Generated.EditRules.keepLen ((totalLen ctx r.1).getD (0, 0)).1
      ((totalLen ctx r.1).getD (0, 0)).2 mn mx)
    (h : ∀ r ∈ rows,
      r.1 ≠ [] ∧ (∀ t ∈ r.1, LabelRaw t) ∧ ProbRaw r.2 ∧ (totalLen ctx r.1).isSome) :
    (editLengthLines ctx mn mx ((rows.map fun r => lineRaw r.1 r.2) ++ [[]])).map List.flatten =
      some (textRaw (rows.filter keep)) := by
  induction rows with
  | nil => simp [editLengthLines_last, textRaw]
  | cons r rows ih =>
    obtain ⟨hne, hl, hp, hs⟩ := h r (by simp)
    obtain ⟨total, htot⟩ := Option.isSome_iff_exists.mp hs
    have ih' := ih (fun x hx => h x (by simp [hx]))
    have hk : Generated.EditRules.keepLen total.1 total.2 mn mx = keep r := by
      rw [hkeep, htot]; rfl
    simp only [List.map_cons, List.cons_append]
    rw [editLengthLines_step ctx mn mx _ r.2 r.1 total _ (lineRaw_ne_nil _ _)
      (probField_lineRaw _ _ hl hp) (tokenize_lineRaw _ _ hl hp) hne htot, textRaw_filter_cons, hk]
    cases hrest : editLengthLines ctx mn mx ((rows.map fun r => lineRaw r.1 r.2) ++ [[]]) with
    | none => simp [hrest] at ih'
    | some more =>
      simp only [hrest, Option.map_some, Option.some.injEq] at ih' ⊢
      cases keep r <;> simp [ih', rebuild_eq]

theorem editLength_filter_raw (ctx : Nat × Nat) (mn mx : Nat) (rows : List (List CPs × CPs))
    (h : ∀ r ∈ rows,
      r.1 ≠ [] ∧ (∀ t ∈ r.1, LabelRaw t) ∧ ProbRaw r.2 ∧ (totalLen ctx r.1).isSome) :
    (editLengthLines ctx mn mx ((rows.map fun r => lineRaw r.1 r.2) ++ [[]])).map List.flatten =
      some (textRaw (rows.filter fun r =>
        Generated.EditRules.keepLen ((totalLen ctx r.1).getD (0, 0)).1
          ((totalLen ctx r.1).getD (0, 0)).2 mn mx)) :=
  editLength_filter_gen ctx mn mx _ rows (fun _ => rfl) h

theorem editTerminal_filter_gen (allowed : List Nat) (keep : List CPs × CPs → Bool)
    (rows : List (List CPs × CPs))
    (hkeep : ∀ r, keep r = r.1.all fun t => allowed.contains (t.headD 0))
    (h : ∀ r ∈ rows, r.1 ≠ [] ∧ (∀ t ∈ r.1, LabelRaw t) ∧ ProbRaw r.2) :
    (editTerminalLines allowed ((rows.map fun r => lineRaw r.1 r.2) ++ [[]])).map List.flatten =
      some (textRaw (rows.filter keep)) := by
  induction rows with
  | nil => simp [editTerminalLines_last, textRaw]
  | cons r rows ih =>
    obtain ⟨hne, hl, hp⟩ := h r (by simp)
    have ih' := ih (fun x hx => h x (by simp [hx]))
    simp only [List.map_cons, List.cons_append]
    rw [editTerminalLines_step allowed _ r.2 r.1 _ (lineRaw_ne_nil _ _)
      (probField_lineRaw _ _ hl hp) (tokenize_lineRaw _ _ hl hp) hne, textRaw_filter_cons,
      ← hkeep r]
    cases hrest : editTerminalLines allowed ((rows.map fun r => lineRaw r.1 r.2) ++ [[]]) with
    | none => simp [hrest] at ih'
    | some more =>
      simp only [hrest, Option.map_some, Option.some.injEq] at ih' ⊢
      cases keep r <;> simp [ih', rebuild_eq]

theorem editTerminal_filter_raw (allowed : List Nat) (rows : List (List CPs × CPs))
    (h : ∀ r ∈ rows, r.1 ≠ [] ∧ (∀ t ∈ r.1, LabelRaw t) ∧ ProbRaw r.2) :
    (editTerminalLines allowed ((rows.map fun r => lineRaw r.1 r.2) ++ [[]])).map List.flatten =
      some (textRaw (rows.filter fun r => r.1.all fun t => allowed.contains (t.headD 0))) :=
  editTerminal_filter_gen allowed _ rows (fun _ => rfl) h

theorem checkRegex_filter_gen (ok : CPs → Bool) (keep : List CPs × CPs → Bool)
    (rows : List (List CPs × CPs)) (hkeep : ∀ r, keep r = ok r.1.flatten)
    (h : ∀ r ∈ rows, r.1 ≠ [] ∧ (∀ t ∈ r.1, LabelRaw t) ∧ ProbRaw r.2) :
    (checkRegexLines ok ((rows.map fun r => lineRaw r.1 r.2) ++ [[]])).map List.flatten =
      some (textRaw (rows.filter keep)) := by
  induction rows with
  | nil => simp [checkRegexLines_last, textRaw]
  | cons r rows ih =>
    obtain ⟨hne, hl, hp⟩ := h r (by simp)
    have ih' := ih (fun x hx => h x (by simp [hx]))
    simp only [List.map_cons, List.cons_append]
    rw [checkRegexLines_step ok _ r.2 _ (lineRaw_ne_nil _ _) (probField_lineRaw _ _ hl hp),
      structField_lineRaw _ _ hl hp, textRaw_filter_cons, ← hkeep r]
    cases hrest : checkRegexLines ok ((rows.map fun r => lineRaw r.1 r.2) ++ [[]]) with
    | none => simp [hrest] at ih'
    | some more =>
      simp only [hrest, Option.map_some, Option.some.injEq] at ih' ⊢
      cases keep r <;> simp [ih']

theorem checkRegex_filter_raw (ok : CPs → Bool) (rows : List (List CPs × CPs))
    (h : ∀ r ∈ rows, r.1 ≠ [] ∧ (∀ t ∈ r.1, LabelRaw t) ∧ ProbRaw r.2) :
    (checkRegexLines ok ((rows.map fun r => lineRaw r.1 r.2) ++ [[]])).map List.flatten =
      some (textRaw (rows.filter fun r => ok r.1.flatten)) :=
  checkRegex_filter_gen ok _ rows (fun _ => rfl) h

end Pcfg
