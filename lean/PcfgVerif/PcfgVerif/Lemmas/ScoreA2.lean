import PcfgVerif.Lemmas.ScoreA1
import PcfgVerif.Lemmas.DetectA4
import PcfgVerif.Lemmas.DetectB1
/-! Lemmas for `ScoreStatementsA`, part 2: the per-call obligations of the keyboard, e-mail, website,
year, context, digit and "other" detectors. -/
namespace Pcfg.Detect
open Generated.Tables

/-- what a finished section looks like: unlabelled, or labelled consistently with its text -/
def SecOK (s : Sec) : Prop :=
  s.2 = none ∨ ∃ l, s.2 = some l ∧ LabelOK s.1 l ∧ (l = "Y1" → s.1.length = 4)

theorem secOK_none (t : CPs) : SecOK (t, none) := Or.inl rfl

theorem labelCat_Y1 : labelCat (some "Y1") = some 'Y' := by decide
theorem labelCat_X1 : labelCat (some "X1") = some 'X' := by decide
theorem labelCat_E : labelCat (some "E") = some 'E' := by decide
theorem labelCat_W : labelCat (some "W") = some 'W' := by decide

/-! ## the common shape: optional unlabelled prefix, one labelled piece, optional unlabelled suffix -/

theorem forall_three (P : Sec → Prop) (hnone : ∀ t, P (t, none)) (m : Sec) (hm : P m)
    (c1 c2 : Prop) [Decidable c1] [Decidable c2] (a b : CPs) :
    ∀ p ∈ (if c1 then [((a, none) : Sec)] else []) ++ [m] ++ (if c2 then [((b, none) : Sec)] else []),
      P p := by
  intro p hp
  simp only [List.mem_append, List.mem_singleton] at hp
  rcases hp with (hp | rfl) | hp
  · split at hp
    · simp only [List.mem_singleton] at hp; subst hp; exact hnone _
    · cases hp
  · exact hm
  · split at hp
    · simp only [List.mem_singleton] at hp; subst hp; exact hnone _
    · cases hp

theorem textsOf_three (m : Sec) (c1 c2 : Prop) [Decidable c1] [Decidable c2] (a b : CPs) (c : Char) :
    textsOf ((if c1 then [((a, none) : Sec)] else []) ++ [m] ++
      (if c2 then [((b, none) : Sec)] else [])) c = if labelCat m.2 = some c then [m.1] else [] := by
  have e1 : textsOf (if c1 then [((a, none) : Sec)] else []) c = [] := by
    split
    · rw [textsOf_cons_none]; rfl
    · rfl
  have e2 : textsOf (if c2 then [((b, none) : Sec)] else []) c = [] := by
    split
    · rw [textsOf_cons_none]; rfl
    · rfl
  rw [textsOf_append, textsOf_append, e1, e2, textsOf_cons, textsOf_nil]
  simp

/-! ## years -/

theorem detectYear_only (U : UEnv) : ProducesOnly (detectYear U) 'Y' := by
  intro text pieces f h
  obtain ⟨pre, _, si, _, _, rfl⟩ := detectYear_spec U text pieces f h
  exact forall_three _ (fun _ => Or.inl rfl) _ (Or.inr labelCat_Y1) _ _ _ _

theorem detectYear_texts (U : UEnv) (text : CPs) (pieces : List Sec) (y : CPs)
    (h : detectYear U text = some (pieces, y)) : [y].Perm (textsOf pieces 'Y') := by
  obtain ⟨pre, _, si, _, rfl, rfl⟩ := detectYear_spec U text pieces y h
  rw [textsOf_three]
  simp [labelCat_Y1]

theorem detectYear_secOK (U : UEnv) (text : CPs) (pieces : List Sec) (y : CPs)
    (h : detectYear U text = some (pieces, y)) : ∀ p ∈ pieces, SecOK p := by
  obtain ⟨pre, _, si, hsi, _, rfl⟩ := detectYear_spec U text pieces y h
  have hb := (yearScan_some U text pre _ _ si hsi).1
  refine forall_three _ secOK_none _ (Or.inr ⟨"Y1", rfl, Or.inr (Or.inl rfl), fun _ => ?_⟩) _ _ _ _
  show (slice text si (si + 4)).length = 4
  rw [slice_length]; omega

/-! ## context-sensitive strings -/

theorem detectContext_only (U : UEnv) : ProducesOnly (detectContext U) 'X' := by
  intro text pieces f h
  obtain ⟨_, si, _, rfl⟩ := detectContext_spec U text pieces f h
  exact forall_three _ (fun _ => Or.inl rfl) _ (Or.inr labelCat_X1) _ _ _ _

theorem detectContext_texts (U : UEnv) (text : CPs) (pieces : List Sec) (x : CPs)
    (h : detectContext U text = some (pieces, x)) : [x].Perm (textsOf pieces 'X') := by
  obtain ⟨_, si, hsi, rfl⟩ := detectContext_spec U text pieces x h
  rw [textsOf_three, findSub_slice text x si hsi]
  simp [labelCat_X1]

theorem detectContext_secOK (U : UEnv) (text : CPs) (pieces : List Sec) (x : CPs)
    (h : detectContext U text = some (pieces, x)) : ∀ p ∈ pieces, SecOK p := by
  obtain ⟨_, si, _, rfl⟩ := detectContext_spec U text pieces x h
  exact forall_three _ secOK_none _
    (Or.inr ⟨"X1", rfl, Or.inr (Or.inr (Or.inl rfl)), fun h => absurd h (by decide)⟩) _ _ _ _

/-! ## digits -/

theorem detectDigits_shape (U : UEnv) (text : CPs) (pieces : List Sec) (d : CPs)
    (h : detectDigits U text = some (pieces, d)) :
    ∃ s e, pieces = (if s != 0 then [((text.take s, none) : Sec)] else []) ++
        [(d, some (lbl 'D' d.length))] ++
        (if e != text.length - 1 then [((text.drop (e + 1), none) : Sec)] else []) := by
  unfold detectDigits at h
  split at h
  · cases h
  · rename_i s e _
    simp only [Option.some.injEq, Prod.mk.injEq] at h
    obtain ⟨hp, hd⟩ := h
    subst hd
    exact ⟨s, e, hp.symm⟩

theorem detectDigits_only (U : UEnv) : ProducesOnly (detectDigits U) 'D' := by
  intro text pieces f h
  obtain ⟨s, e, rfl⟩ := detectDigits_shape U text pieces f h
  exact forall_three _ (fun _ => Or.inl rfl) _ (Or.inr (labelCat_lbl _ _)) _ _ _ _

theorem detectDigits_texts (U : UEnv) (text : CPs) (pieces : List Sec) (d : CPs)
    (h : detectDigits U text = some (pieces, d)) : [d].Perm (textsOf pieces 'D') := by
  obtain ⟨s, e, rfl⟩ := detectDigits_shape U text pieces d h
  rw [textsOf_three]
  simp [labelCat_lbl]

theorem detectDigits_secOK (U : UEnv) (text : CPs) (pieces : List Sec) (d : CPs)
    (h : detectDigits U text = some (pieces, d)) : ∀ p ∈ pieces, SecOK p := by
  obtain ⟨s, e, rfl⟩ := detectDigits_shape U text pieces d h
  exact forall_three _ secOK_none _
    (Or.inr ⟨_, rfl, Or.inr (Or.inr (Or.inr (Or.inr (Or.inl rfl)))),
      fun h => absurd h (lbl_ne_Y1 _ _ (by decide))⟩) _ _ _ _

/-! ## e-mail -/

theorem detectEmail_only (U : UEnv) : ProducesOnly (detectEmail U) 'E' := by
  intro text pieces f h
  obtain ⟨e, _, _, rfl⟩ := detectEmail_spec U text pieces f h
  have := forall_three (fun p => p.2 = none ∨ labelCat p.2 = some 'E') (fun _ => Or.inl rfl)
    (text.take e, some "E") (Or.inr labelCat_E) False
    ((e != (U.lowerS text).length) = true) [] (text.drop e)
  simpa using this

theorem detectEmail_secOK (U : UEnv) (text : CPs) (pieces : List Sec) (f : CPs × CPs)
    (h : detectEmail U text = some (pieces, f)) : ∀ p ∈ pieces, SecOK p := by
  obtain ⟨e, _, _, rfl⟩ := detectEmail_spec U text pieces f h
  have := forall_three SecOK secOK_none (text.take e, some "E")
    (Or.inr ⟨"E", rfl, by simp [LabelOK], fun h => absurd h (by decide)⟩) False
    ((e != (U.lowerS text).length) = true) [] (text.drop e)
  simpa using this

/-! ## websites -/

theorem detectWebsite_only (U : UEnv) : ProducesOnly (detectWebsite U) 'W' := by
  intro text pieces f h
  obtain ⟨s, e, _, _, rfl⟩ := detectWebsite_spec U text pieces f h
  exact forall_three _ (fun _ => Or.inl rfl) _ (Or.inr labelCat_W) _ _ _ _

theorem detectWebsite_secOK (U : UEnv) (text : CPs) (pieces : List Sec) (f : CPs × CPs × Option CPs)
    (h : detectWebsite U text = some (pieces, f)) : ∀ p ∈ pieces, SecOK p := by
  obtain ⟨s, e, _, _, rfl⟩ := detectWebsite_spec U text pieces f h
  exact forall_three _ secOK_none _
    (Or.inr ⟨"W", rfl, by simp [LabelOK], fun h => absurd h (by decide)⟩) _ _ _ _

/-! ## keyboard walks -/

theorem kw_textsOf (secs : List Sec)
    (h : ∀ s ∈ secs, s.2 = none ∨ s.2 = some (lbl 'K' s.1.length)) (c : Char) :
    textsOf secs c = if c = 'K' then (secs.filter (fun s => s.2.isSome)).map (·.1) else [] := by
  induction secs with
  | nil => simp [textsOf_nil]
  | cons a r ih =>
    rw [textsOf_cons, ih (fun s hs => h s (by simp [hs]))]
    rcases h a (by simp) with h' | h'
    · simp [h', labelCat]
    · rw [h', labelCat_lbl]
      by_cases hc : c = 'K'
      · subst hc; simp [h']
      · have : ¬ 'K' = c := fun e => hc e.symm
        simp [hc, this]

theorem kw_secOK (secs : List Sec)
    (h : ∀ s ∈ secs, s.2 = none ∨ s.2 = some (lbl 'K' s.1.length)) : ∀ s ∈ secs, SecOK s := by
  intro s hs
  rcases h s hs with h' | h'
  · exact Or.inl h'
  · exact Or.inr ⟨_, h', Or.inl rfl, fun e => absurd e (lbl_ne_Y1 _ _ (by decide))⟩

/-! ## other -/

theorem otherDetection_textsOf (secs : List Sec) (c : Char) (hc : c ≠ 'O') :
    textsOf (otherDetection secs).1 c = textsOf secs c := by
  induction secs with
  | nil => rfl
  | cons a r ih =>
    have e : (otherDetection (a :: r)).1 =
        (match a.2 with | none => (a.1, some (lbl 'O' a.1.length)) | some _ => a) ::
          (otherDetection r).1 := rfl
    rw [e, textsOf_cons, textsOf_cons, ih]
    rcases a with ⟨x, _ | l⟩
    · have : ¬ 'O' = c := fun e => hc e.symm
      simp [labelCat_lbl, labelCat_none, this]
    · rfl

theorem otherDetection_perm (secs : List Sec) :
    ((otherDetection secs).2 ++ textsOf secs 'O').Perm (textsOf (otherDetection secs).1 'O') := by
  induction secs with
  | nil => exact List.Perm.refl _
  | cons a r ih =>
    have e1 : (otherDetection (a :: r)).1 =
        (match a.2 with | none => (a.1, some (lbl 'O' a.1.length)) | some _ => a) ::
          (otherDetection r).1 := rfl
    have e2 : (otherDetection (a :: r)).2 =
        (match a.2 with | none => [a.1] | some _ => []) ++ (otherDetection r).2 := by
      rcases a with ⟨x, _ | l⟩ <;> rfl
    rw [e1, e2, textsOf_cons, textsOf_cons]
    rw [List.perm_iff_count] at ih ⊢
    intro y
    have := ih y
    rcases a with ⟨x, _ | l⟩
    · simp only [labelCat_lbl, labelCat_none, List.count_append, if_true] at this ⊢
      simp only [reduceCtorEq, if_false, List.count_nil]
      omega
    · simp only [List.count_append, List.count_nil] at this ⊢
      omega

theorem otherDetection_secOK (secs : List Sec) (h : ∀ s ∈ secs, SecOK s) :
    ∀ s ∈ (otherDetection secs).1, ∃ l, s.2 = some l ∧ LabelOK s.1 l ∧ (l = "Y1" → s.1.length = 4) := by
  intro s hs
  simp only [otherDetection, List.mem_map] at hs
  obtain ⟨a, ha, rfl⟩ := hs
  rcases a with ⟨x, _ | l⟩
  · exact ⟨_, rfl, by simp [LabelOK], fun e => absurd e (lbl_ne_Y1 _ _ (by decide))⟩
  · rcases h _ ha with h' | h'
    · cases h'
    · exact h'

end Pcfg.Detect
