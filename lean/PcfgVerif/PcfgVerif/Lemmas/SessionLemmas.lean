import PcfgVerif.Model.Session
/-!
# Lemmas about the session state machine (C12 / C15)

One invariant `Inv us f s` over the states reachable from `initLoad f stdin`, proved preserved by
both actors, a second small invariant `NQ` for scripts without a `q` line, and a step-counting
measure `cost` for termination of the main actor.
-/
namespace Pcfg.Sess
open Pcfg.Generated.Session

/-! ## The facts of the generated source; only these lemmas look at the generated constants -/

theorem srcFacts : quitSrc = .shouldExit ∧ removesOmenOption = true ∧ keepsQuitOnStatusFailure = true := by
  decide

theorem quitSrc_eq : quitSrc = .shouldExit := srcFacts.1
theorem removesOmenOption_eq : removesOmenOption = true := srcFacts.2.1
theorem keepsQuit_eq : keepsQuitOnStatusFailure = true := srcFacts.2.2

theorem quitTest_eq (s : St) : quitTest s = s.shouldExit := by
  simp only [quitTest, quitSrc_eq]

/-! ## `run` -/

theorem run_nil (us : List Unit') (s : St) : run us s [] = s := rfl
theorem run_cons (us : List Unit') (s : St) (a : Actor) (σ : List Actor) :
    run us s (a :: σ) = run us (step us s a) σ := rfl

/-- induction principle: a property preserved by both actors holds after every schedule -/
theorem run_induct (us : List Unit') (P : St → Prop)
    (hm : ∀ s, P s → P (mainStep us s)) (hk : ∀ s, P s → P (kbdStep s)) :
    ∀ (σ : List Actor) (s : St), P s → P (run us s σ) := by
  intro σ
  induction σ with
  | nil => intro s h; exact h
  | cons a σ ih =>
    intro s h
    rw [run_cons]
    apply ih
    cases a
    · exact hm s h
    · exact hk s h

/-! ## `fullStream` -/

theorem fullStream_drop_none (us : List Unit') (i : Nat) (h : us[i]? = none) :
    fullStream (us.drop i) = [] := by
  have : us.length ≤ i := by simpa using h
  simp [fullStream, List.drop_eq_nil_of_le this]

theorem fullStream_drop_some (us : List Unit') (i : Nat) (u : Unit') (h : us[i]? = some u) :
    fullStream (us.drop i) = u.lines ++ fullStream (us.drop (i + 1)) := by
  obtain ⟨hi, rfl⟩ := List.getElem?_eq_some_iff.mp h
  unfold fullStream
  rw [List.drop_eq_getElem_cons hi, List.flatMap_cons]

theorem fullStream_drop_length (us : List Unit') (i : Nat) (u : Unit') (h : us[i]? = some u) :
    i < us.length := (List.getElem?_eq_some_iff.mp h).1

/-! ## The invariant -/

/-- what a session started from the files `f` still has to print (`remaining` of the statements) -/
def remainingL (us : List Unit') (f : Files) : List Line :=
  (if f.omenOpt then f.omn.getD [] else []) ++ fullStream (us.drop (f.savPos.getD 0))

/-- the pickled rest of a Markov level that was quit in this session -/
def omenRest (s : St) : List Line := if s.omenExit then s.files.omn.getD [] else []

/-- what is still owed in state `s`: printed by this session if it is not quit, or by the session
resumed from the files it leaves -/
def pending (us : List Unit') (s : St) : List Line :=
  match s.main with
  | .loopHead i => omenRest s ++ fullStream (us.drop i)
  | .plain i rest => rest ++ fullStream (us.drop i)
  | .omen i rest _ => rest ++ fullStream (us.drop i)
  | .finished => omenRest s
  | .exited => remainingL us s.files

structure Inv (us : List Unit') (f : Files) (s : St) : Prop where
  outp : s.out ++ pending us s = remainingL us f
  oe_se : s.omenExit = true → s.shouldExit = true
  se_qs : s.shouldExit = true → s.quitSeen = true
  got_qs : ∀ t b, s.kbd = .gotLine t b → t = "q" → s.quitSeen = true
  plain_ne : ∀ i rest, s.main = .plain i rest → rest ≠ [] ∧ s.omenExit = false
  omen_ne : ∀ i rest r, s.main = .omen i rest r → s.omenExit = false
  opt : s.omenExit = false → s.files.omenOpt = true →
      (∃ i rest, s.main = .omen i rest true) ∨ (s.files.omn = none ∧ f.omenOpt = true ∧ f.omn = none)
  exited : s.main = .exited → s.quitSeen = true ∧ s.files.savPos.isSome = true

theorem Inv.init (us : List Unit') (f : Files) (stdin : List Ev) : Inv us f (initLoad f stdin) := by
  obtain ⟨pos, opt, omn⟩ := f
  cases opt <;> cases omn with
  | none => constructor <;> simp [initLoad, pending, remainingL, omenRest]
  | some rest =>
    constructor <;> simp [initLoad, pending, remainingL, omenRest]

/-! the keyboard actor only touches `kbd`, `stdin`, `shouldExit`, `quitSeen` -/

theorem kbdStep_main (s : St) : (kbdStep s).main = s.main := by
  unfold kbdStep; repeat' split
  all_goals rfl
theorem kbdStep_out (s : St) : (kbdStep s).out = s.out := by
  unfold kbdStep; repeat' split
  all_goals rfl
theorem kbdStep_files (s : St) : (kbdStep s).files = s.files := by
  unfold kbdStep; repeat' split
  all_goals rfl
theorem kbdStep_omenExit (s : St) : (kbdStep s).omenExit = s.omenExit := by
  unfold kbdStep; repeat' split
  all_goals rfl

theorem kbdStep_pending (us : List Unit') (s : St) : pending us (kbdStep s) = pending us s := by
  simp only [pending, omenRest, kbdStep_main, kbdStep_files, kbdStep_omenExit]

theorem kbdStep_shouldExit_mono (s : St) (h : s.shouldExit = true) : (kbdStep s).shouldExit = true := by
  unfold kbdStep; repeat' split
  all_goals simp [h]

theorem kbdStep_quitSeen_mono (s : St) (h : s.quitSeen = true) : (kbdStep s).quitSeen = true := by
  unfold kbdStep; repeat' split
  all_goals simp [h]

theorem kbdStep_shouldExit_src (s : St) (h : (kbdStep s).shouldExit = true) :
    s.shouldExit = true ∨ ∃ b, s.kbd = .gotLine "q" b := by
  unfold kbdStep at h
  repeat' split at h
  all_goals simp_all
  rcases h with h | h
  · exact .inl h
  · exact .inr h.2

theorem kbdStep_gotLine_src (s : St) (t : String) (b : Bool) (h : (kbdStep s).kbd = .gotLine t b) :
    s.kbd = .gotLine t b ∨ (t = "q" → (kbdStep s).quitSeen = true) := by
  unfold kbdStep at h ⊢
  repeat' split at h
  all_goals simp_all

theorem Inv.kbd {us : List Unit'} {f : Files} {s : St} (h : Inv us f s) : Inv us f (kbdStep s) := by
  obtain ⟨h1, h2, h3, h4, h5, h6, h7, h8⟩ := h
  constructor
  · rw [kbdStep_out, kbdStep_pending]; exact h1
  · rw [kbdStep_omenExit]; exact fun h => kbdStep_shouldExit_mono s (h2 h)
  · intro h
    rcases kbdStep_shouldExit_src s h with h | ⟨b, h⟩
    · exact kbdStep_quitSeen_mono s (h3 h)
    · exact kbdStep_quitSeen_mono s (h4 _ _ h rfl)
  · intro t b h ht
    rcases kbdStep_gotLine_src s t b h with h' | h'
    · exact kbdStep_quitSeen_mono s (h4 _ _ h' ht)
    · exact h' ht
  · simpa only [kbdStep_main, kbdStep_omenExit] using h5
  · simpa only [kbdStep_main, kbdStep_omenExit] using h6
  · simpa only [kbdStep_main, kbdStep_omenExit, kbdStep_files] using h7
  · rw [kbdStep_main, kbdStep_files]
    exact fun h => ⟨kbdStep_quitSeen_mono s (h8 h).1, (h8 h).2⟩

theorem Inv.main {us : List Unit'} {f : Files} {s : St} (h : Inv us f s) : Inv us f (mainStep us s) := by
  obtain ⟨h1, h2, h3, h4, h5, h6, h7, h8⟩ := h
  obtain ⟨main, kbd, stdin, se, oe, out, files, qs⟩ := s
  simp only at h1 h2 h3 h4 h5 h6 h7 h8
  cases main with
  | finished => constructor <;> simp_all [mainStep]
  | exited => constructor <;> simp_all [mainStep]
  | loopHead i =>
    cases hu : us[i]? with
    | none =>
      have := fullStream_drop_none us i hu
      constructor <;> simp_all [mainStep, pending, omenRest]
    | some u =>
      have hfs := fullStream_drop_some us i u hu
      cases se with
      | true =>
        constructor <;> simp_all [mainStep, pending, omenRest, quitTest_eq, saveOnQuit, remainingL]
        rw [← h1]
        cases oe <;> cases ho : files.omenOpt <;> simp_all
      | false =>
        have : oe = false := by cases oe <;> simp_all
        subst this
        rcases u with (_ | ⟨l, ls⟩) | (_ | ⟨l, ls⟩) <;>
        constructor <;> simp_all [mainStep, pending, omenRest, quitTest_eq, Unit'.lines]
  | plain i rest =>
    have := h5 i rest rfl
    rcases rest with _ | ⟨l, _ | ⟨l2, more⟩⟩ <;>
    constructor <;> simp_all [mainStep, pending, omenRest]
  | omen i rest r =>
    have := h6 i rest r rfl
    rcases rest with _ | ⟨l, _ | ⟨l2, more⟩⟩ <;> cases se <;> cases r <;>
    constructor <;> simp_all [mainStep, pending, omenRest, removesOmenOption_eq]

theorem Inv.run {us : List Unit'} {f : Files} {s : St} (h : Inv us f s) (σ : List Actor) :
    Inv us f (run us s σ) :=
  run_induct us (Inv us f) (fun _ h => h.main) (fun _ h => h.kbd) σ s h

theorem inv_run (us : List Unit') (f : Files) (stdin : List Ev) (σ : List Actor) :
    Inv us f (run us (initLoad f stdin) σ) := (Inv.init us f stdin).run σ

/-! ## Scripts without a `q` line -/

structure NQ (s : St) : Prop where
  stdin : ∀ t b, Ev.line t b ∈ s.stdin → t ≠ "q"
  got : ∀ t b, s.kbd = .gotLine t b → t ≠ "q"
  se : s.shouldExit = false
  ne : s.main ≠ .exited
  oe : s.omenExit = false

theorem NQ.init (f : Files) (stdin : List Ev) (hq : ∀ t b, Ev.line t b ∈ stdin → t ≠ "q") :
    NQ (initLoad f stdin) := by
  obtain ⟨pos, opt, omn⟩ := f
  cases opt <;> cases omn with
  | none => constructor <;> simp_all [initLoad]
  | some rest => constructor <;> simp_all [initLoad]

theorem kbdStep_stdin_sub (s : St) (e : Ev) (h : e ∈ (kbdStep s).stdin) : e ∈ s.stdin := by
  unfold kbdStep at h
  repeat' split at h
  all_goals first | exact h | (rename_i heq; rw [heq]; exact List.mem_cons_of_mem _ h)

theorem kbdStep_gotLine_src' (s : St) (t : String) (b : Bool) (h : (kbdStep s).kbd = .gotLine t b) :
    s.kbd = .gotLine t b ∨ Ev.line t b ∈ s.stdin := by
  unfold kbdStep at h
  repeat' split at h
  all_goals simp_all

theorem NQ.kbd {s : St} (h : NQ s) : NQ (kbdStep s) := by
  obtain ⟨h1, h2, h3, h4, h5⟩ := h
  constructor
  · exact fun t b hm => h1 t b (kbdStep_stdin_sub s _ hm)
  · intro t b hk
    rcases kbdStep_gotLine_src' s t b hk with h | h
    · exact h2 t b h
    · exact h1 t b h
  · cases hse : (kbdStep s).shouldExit with
    | false => rfl
    | true =>
      rcases kbdStep_shouldExit_src s hse with h | ⟨b, h⟩
      · rw [h3] at h; exact absurd h (by decide)
      · exact absurd rfl (h2 _ _ h)
  · rw [kbdStep_main]; exact h4
  · rw [kbdStep_omenExit]; exact h5

theorem NQ.main {us : List Unit'} {s : St} (h : NQ s) : NQ (mainStep us s) := by
  obtain ⟨h1, h2, h3, h4, h5⟩ := h
  obtain ⟨main, kbd, stdin, se, oe, out, files, qs⟩ := s
  simp only at h1 h2 h3 h4 h5
  subst h3 h5
  cases main with
  | finished => constructor <;> simp_all [mainStep]
  | exited => exact absurd rfl h4
  | loopHead i =>
    cases hu : us[i]? with
    | none => constructor <;> simp_all [mainStep]
    | some u =>
      rcases u with (_ | ⟨l, ls⟩) | (_ | ⟨l, ls⟩) <;>
      constructor <;> simp_all [mainStep, quitTest_eq]
  | plain i rest =>
    rcases rest with _ | ⟨l, _ | ⟨l2, more⟩⟩ <;>
    constructor <;> simp_all [mainStep]
  | omen i rest r =>
    rcases rest with _ | ⟨l, _ | ⟨l2, more⟩⟩ <;>
    constructor <;> simp_all [mainStep] <;> split <;> simp_all


theorem NQ.run {us : List Unit'} {s : St} (h : NQ s) (σ : List Actor) : NQ (run us s σ) :=
  run_induct us NQ (fun _ h => h.main) (fun _ h => h.kbd) σ s h

/-! ## Termination of the main actor -/


/-- main steps needed from the loop head before unit `i`: one per line, two per unit (the pop, and for a
Markov level the last call of the generator that finds nothing), one to find the queue empty -/
def headCost (us : List Unit') (i : Nat) : Nat :=
  (fullStream (us.drop i)).length + 2 * (us.length - i) + 1

/-- upper bound on the number of main steps until the main actor has terminated -/
def cost (us : List Unit') (s : St) : Nat :=
  match s.main with
  | .finished => 0
  | .exited => 0
  | .loopHead i => headCost us i
  | .plain i rest => rest.length + headCost us i
  | .omen i rest _ => rest.length + 1 + headCost us i

theorem headCost_some (us : List Unit') (i : Nat) (u : Unit') (h : us[i]? = some u) :
    headCost us i = u.lines.length + headCost us (i + 1) + 2 := by
  have := fullStream_drop_length us i u h
  simp only [headCost, fullStream_drop_some us i u h, List.length_append]
  omega

theorem cost_kbd (us : List Unit') (s : St) : cost us (kbdStep s) = cost us s := by
  simp only [cost, kbdStep_main]

theorem cost_zero (us : List Unit') (s : St) (h : cost us s = 0) :
    s.main = .finished ∨ s.main = .exited := by
  unfold cost at h
  split at h <;> simp_all [headCost]

theorem cost_main {us : List Unit'} {f : Files} {s : St} (h : Inv us f s) :
    cost us (mainStep us s) ≤ cost us s - 1 := by
  obtain ⟨h1, h2, h3, h4, h5, h6, h7, h8⟩ := h
  obtain ⟨main, kbd, stdin, se, oe, out, files, qs⟩ := s
  simp only at h1 h2 h3 h4 h5 h6 h7 h8
  cases main with
  | finished => simp [mainStep, cost]
  | exited => simp [mainStep, cost]
  | loopHead i =>
    cases hu : us[i]? with
    | none => simp [mainStep, cost, hu]
    | some u =>
      have hc := headCost_some us i u hu
      cases se with
      | true => simp [mainStep, cost, hu, quitTest_eq]
      | false =>
        rcases u with (_ | ⟨l, ls⟩) | (_ | ⟨l, ls⟩) <;>
        simp_all [mainStep, cost, quitTest_eq, Unit'.lines] <;> omega
  | plain i rest =>
    have := h5 i rest rfl
    rcases rest with _ | ⟨l, _ | ⟨l2, more⟩⟩ <;>
    simp_all [mainStep, cost] <;> omega
  | omen i rest r =>
    have := h6 i rest r rfl
    rcases rest with _ | ⟨l, _ | ⟨l2, more⟩⟩ <;> cases se <;>
    simp_all [mainStep, cost] <;> omega

theorem cost_run {us : List Unit'} {f : Files} (σ : List Actor) :
    ∀ {s : St}, Inv us f s → cost us (run us s σ) ≤ cost us s - σ.count .main := by
  induction σ with
  | nil => intro s _; simp [run_nil]
  | cons a σ ih =>
    intro s h
    rw [run_cons]
    cases a with
    | main =>
      have h1 := ih h.main
      have h2 := cost_main h
      simp only [step, List.count_cons_self] at h1 ⊢
      omega
    | kbd =>
      have h1 := ih h.kbd
      have h2 := cost_kbd us s
      simp only [step] at h1 ⊢
      rw [List.count_cons_of_ne (by decide)]
      omega

theorem cost_init (us : List Unit') (f : Files) (stdin : List Ev) :
    cost us (initLoad f stdin) ≤ (remainingL us f).length + 2 * us.length + 2 := by
  obtain ⟨pos, opt, omn⟩ := f
  cases opt <;> cases omn with
  | none => simp [initLoad, cost, remainingL, headCost] <;> omega
  | some rest =>
    simp [initLoad, cost, remainingL, headCost] <;> omega

theorem terminates_of_steps (us : List Unit') (f : Files) (stdin : List Ev) (σ : List Actor)
    (hn : (remainingL us f).length + 2 * us.length + 2 ≤ σ.count .main) :
    (run us (initLoad f stdin) σ).main = .finished ∨ (run us (initLoad f stdin) σ).main = .exited := by
  apply cost_zero us
  have h1 := cost_run σ (Inv.init us f stdin)
  have h2 := cost_init us f stdin
  omega

end Pcfg.Sess
