import PcfgVerif.Properties.LoaderCore
/-! Helper lemmas for C13 (the scorer's promise), part 6: the `Agree.term` link from the two loader
round-trip theorems. -/
namespace Pcfg.ScoreB
open Pcfg

theorem agree_core {P : Type} [DecidableEq P] (parseP : CPs → Option P) (neg1 : P)
    (items : List (CPs × CPs))
    (hc : ∀ it ∈ items, CleanValue it.1 ∧ CleanProb it.2)
    (hp : ∀ it ∈ items, ∃ p, parseP it.2 = some p ∧ p ≠ neg1) :
    ∃ gs tbl, loadFromFile parseP (fun a b => decide (a = b)) neg1 (writeFile items) = some gs ∧
      scorerLoad parseP (writeFile items) = some tbl ∧
      ∀ v p, (tbl.find? (·.1 == v)).map (·.2) = some p →
        ∃ (j : Nat) (grp : LGroup P), gs[j]? = some grp ∧ v ∈ grp.values ∧ grp.prob = p := by
  obtain ⟨gs, hload, hvals, _, hidx, _⟩ :=
    loadFromFile_writeFile parseP (fun a b => decide (a = b)) neg1 (by simp)
      (by intro a b h; simpa [eq_comm] using h)
      (by intro a b c h1 h2; simp at h1 h2 ⊢; exact h1.trans h2)
      items hc (by
        intro it hit
        obtain ⟨p, h1, h2⟩ := hp it hit
        exact ⟨p, h1, by simpa using h2⟩)
  have hsome : ∀ it ∈ items, (parseP it.2).isSome := by
    intro it hit
    obtain ⟨p, h1, _⟩ := hp it hit
    simp [h1]
  refine ⟨gs, _, hload, scorerLoad_writeFile parseP items hc hsome, ?_⟩
  intro v p hfind
  cases hf : List.find? (fun x => x.1 == v)
      (items.filterMap fun it => (parseP it.2).map fun p => (it.1, p)) with
  | none => rw [hf] at hfind; cases hfind
  | some a =>
    rw [hf] at hfind
    simp only [Option.map_some, Option.some.injEq] at hfind
    have hq := List.find?_some hf
    have hav : a.1 = v := by simpa using hq
    have hmem := List.mem_of_find?_eq_some hf
    obtain ⟨it, hit, hita⟩ := List.mem_filterMap.mp hmem
    obtain ⟨i, hi⟩ := List.getElem?_of_mem hit
    -- `it` is the i-th item; the i-th flattened pair of the guesser view matches it
    let F := gs.flatMap fun g => g.values.map fun v => (v, g.prob)
    have hFlen : F.length = items.length := by
      have h1 : F.map (·.1) = gs.flatMap (·.values) := by
        simp only [F, List.map_flatMap, List.map_map]
        congr 1
        funext g
        simp [Function.comp_def]
      have := congrArg List.length (h1.trans hvals)
      simpa using this
    have hilt : i < items.length := by
      rcases Nat.lt_or_ge i items.length with h | h
      · exact h
      · rw [List.getElem?_eq_none h] at hi; cases hi
    have hFi : F[i]? = some (F[i]'(by rw [hFlen]; exact hilt)) :=
      List.getElem?_eq_getElem _
    obtain ⟨h1, q, hq1, hq2⟩ := hidx i _ it hFi hi
    have hq2' : q = (F[i]'(by rw [hFlen]; exact hilt)).2 := by simpa using hq2
    rw [hq1] at hita
    simp only [Option.map_some, Option.some.injEq] at hita
    have hFmem : F[i]'(by rw [hFlen]; exact hilt) ∈ F := List.getElem_mem _
    obtain ⟨grp, hgrp, hin⟩ := List.mem_flatMap.mp hFmem
    obtain ⟨w, hw, hweq⟩ := List.mem_map.mp hin
    obtain ⟨j, hj⟩ := List.getElem?_of_mem hgrp
    refine ⟨j, grp, hj, ?_, ?_⟩
    · have : w = v := by
        have := congrArg Prod.fst hweq
        simp only at this
        rw [this, h1, ← hav, ← hita]
      rw [← this]; exact hw
    · have := congrArg Prod.snd hweq
      simp only at this
      rw [this, ← hq2', ← hfind, ← hita]

end Pcfg.ScoreB
