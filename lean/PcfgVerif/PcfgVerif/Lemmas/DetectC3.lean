import PcfgVerif.Model.DetectSpec
/-! Lemmas for DetectStatementsC, part 3: the multi-word table (`bump`, `count`, `mwTrain`). -/
namespace Pcfg.Detect

theorem count_nil (x : CPs) : MWTable.count [] x = 0 := rfl

theorem count_cons (a : CPs × Nat) (r : MWTable) (x : CPs) :
    MWTable.count (a :: r) x = if a.1 = x then a.2 else MWTable.count r x := by
  simp only [MWTable.count, List.find?_cons]
  by_cases h : a.1 = x
  · simp [h]
  · have hb : (a.1 == x) = false := by simpa using h
    simp [hb, h]

theorem count_map_inc_ne (t : MWTable) (w x : CPs) (hx : x ≠ w) :
    MWTable.count (t.map fun p => if p.1 == w then (p.1, p.2 + 1) else p) x = MWTable.count t x := by
  induction t with
  | nil => rfl
  | cons a r ih =>
    rw [List.map_cons, count_cons, count_cons, ih]
    by_cases haw : a.1 = w
    · have : ¬ w = x := fun h => hx h.symm
      simp [haw, this]
    · simp [haw]

theorem count_map_inc_eq (t : MWTable) (w : CPs) (h : t.any (·.1 == w) = true) :
    MWTable.count (t.map fun p => if p.1 == w then (p.1, p.2 + 1) else p) w = MWTable.count t w + 1 := by
  induction t with
  | nil => simp at h
  | cons a r ih =>
    rw [List.map_cons, count_cons, count_cons]
    by_cases haw : a.1 = w
    · simp [haw]
    · have : r.any (·.1 == w) = true := by simpa [haw] using h
      have e := ih this
      simp only [beq_iff_eq] at e ⊢
      simp [haw, e]

theorem count_append_single (t : MWTable) (w x : CPs) (n : Nat) (h : t.any (·.1 == w) = false) :
    MWTable.count (t ++ [(w, n)]) x = MWTable.count t x + (if x = w then n else 0) := by
  induction t with
  | nil =>
    rw [List.nil_append, count_cons, count_nil]
    by_cases hx : x = w
    · simp [hx]
    · have : ¬ w = x := fun h => hx h.symm
      simp [hx, this]
  | cons a r ih =>
    have h' : ¬ a.1 = w ∧ r.any (·.1 == w) = false := by simpa using h
    rw [List.cons_append, count_cons, count_cons, ih h'.2]
    by_cases hax : a.1 = x
    · have : ¬ x = w := fun h => h'.1 (hax.trans h)
      simp [hax, this]
    · simp [hax]

theorem count_bump (t : MWTable) (w x : CPs) :
    (t.bump w none).count x = t.count x + (if x = w then 1 else 0) := by
  unfold MWTable.bump
  split
  · rename_i h
    by_cases hx : x = w
    · subst hx; rw [count_map_inc_eq _ _ h]; simp
    · rw [count_map_inc_ne _ _ _ hx]; simp [hx]
  · rename_i h
    simpa using count_append_single t w x 1 (Bool.eq_false_iff.2 h)

theorem count_foldl_runs (cfg : MWCfg) (runs : List CPs) (t : MWTable) (x : CPs) :
    (runs.foldl (fun t run => if run.length ≥ cfg.minLen then t.bump run none else t) t).count x =
      t.count x + (runs.filter fun r => decide (cfg.minLen ≤ r.length)).count x := by
  induction runs generalizing t with
  | nil => simp
  | cons a r ih =>
    rw [List.foldl_cons, ih]
    by_cases h : cfg.minLen ≤ a.length
    · have h' : a.length ≥ cfg.minLen := h
      rw [if_pos h', count_bump, List.filter_cons_of_pos (by simpa using h), List.count_cons]
      by_cases hx : x = a
      · subst hx; simp; omega
      · have : ¬ a = x := fun h => hx h.symm
        simp [hx, this]
    · have h' : ¬ a.length ≥ cfg.minLen := h
      rw [if_neg h', List.filter_cons_of_neg (by simpa using h)]

theorem mwTrain_count_step (U : UEnv) (cfg : MWCfg) (t : MWTable) (p x : CPs) :
    mwCount (mwTrain U cfg t p) x = mwCount t x +
      (if p.length < cfg.minLen || p.length > cfg.maxLen then []
        else (alphaRuns U (U.lowerPy p) []).filter fun r => decide (cfg.minLen ≤ r.length)).count x := by
  unfold mwTrain mwCount
  split
  · simp
  · simpa using count_foldl_runs cfg _ t x

theorem mwTrain_count_gen (U : UEnv) (cfg : MWCfg) (history : List CPs) (t : MWTable) (w : CPs) :
    mwCount (history.foldl (fun t p => mwTrain U cfg t p) t) w = mwCount t w +
      (history.flatMap fun p =>
        if p.length < cfg.minLen || p.length > cfg.maxLen then []
        else (alphaRuns U (U.lowerPy p) []).filter fun r => decide (cfg.minLen ≤ r.length)).count w := by
  induction history generalizing t with
  | nil => simp
  | cons p r ih =>
    rw [List.foldl_cons, ih, mwTrain_count_step, List.flatMap_cons, List.count_append]
    omega

theorem mwTrain_count' (U : UEnv) (cfg : MWCfg) (history : List CPs) (w : CPs) :
    mwCount (history.foldl (fun t p => mwTrain U cfg t p) []) w =
      (history.flatMap fun p =>
        if p.length < cfg.minLen || p.length > cfg.maxLen then []
        else (alphaRuns U (U.lowerPy p) []).filter fun r => decide (cfg.minLen ≤ r.length)).count w := by
  rw [mwTrain_count_gen]
  simp [mwCount, count_nil]

end Pcfg.Detect
