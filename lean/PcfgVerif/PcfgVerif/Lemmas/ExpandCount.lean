import PcfgVerif.Lemmas.ExpandLemmas
/-!
# How many guesses a pre-terminal has

`productSpec` is "one value from each chosen group"; here: its length is the product of the group sizes - each combination of one
value (one mask) per position stands in the list exactly one time, none is dropped on the way (under `okSpec`: no lookup raises).
-/
namespace Pcfg

/-- the sizes of the chosen groups, in structure order -/
def groupSizes (g : EGrammar) (pt : PT) : List Nat :=
  pt.map fun p => ((g.values p.1 p.2).getD []).length

theorem sum_map_const {α : Type} (h : α → Nat) (c : Nat) : ∀ l : List α, (∀ a ∈ l, h a = c) → (l.map h).sum = l.length * c
  | [], _ => by simp
  | a :: l, hall => by
    have ha := hall a List.mem_cons_self
    have ih := sum_map_const h c l (fun b hb => hall b (List.mem_cons_of_mem _ hb))
    simp only [List.map_cons, List.sum_cons, List.length_cons, ha, ih]
    rw [Nat.add_mul]
    omega

theorem length_flatMap_const {α β : Type} (f : α → List β) (c : Nat) (l : List α) (h : ∀ a ∈ l, (f a).length = c) :
    (l.flatMap f).length = l.length * c := by
  rw [List.length_flatMap]
  exact sum_map_const _ c l h

theorem productSpec_length (upper : Char → List Char) (g : EGrammar) (pt : PT) :
    ∀ cur : Str, okSpec upper g cur pt = true →
      (productSpec upper g cur pt).length = (groupSizes g pt).foldr (· * ·) 1 := by
  induction pt with
  | nil => intro cur _; simp [productSpec, groupSizes]
  | cons hd rest ih =>
    obtain ⟨t, i⟩ := hd
    intro cur hok
    unfold okSpec at hok
    split at hok
    · rename_i cat vals hcat hvals
      unfold productSpec
      simp only [hcat, hvals]
      simp only [Bool.and_eq_true, Bool.not_eq_true', List.all_eq_true] at hok
      obtain ⟨_, hall⟩ := hok
      rw [length_flatMap_const _ ((groupSizes g rest).foldr (· * ·) 1) vals]
      · unfold groupSizes
        rw [List.map_cons, List.foldr_cons]
        show _ = ((g.values t i).getD []).length * _
        rw [hvals]
        rfl
      · intro v hv
        have h1 := hall v hv
        split at h1
        · rename_i ng hng
          first
            | exact ih ng h1
            | (rw [hng]; exact ih ng h1)
        · simp at h1
    · simp at hok

end Pcfg
