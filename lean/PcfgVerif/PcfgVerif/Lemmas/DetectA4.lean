import PcfgVerif.Lemmas.DetectA3
/-! Helper lemmas for `DetectStatementsA`: website and e-mail detectors. -/
namespace Pcfg.Detect
open Generated.Tables

theorem startIndex_le (w : CPs) (total : Nat) :
    (match rfindSub (w.take total) [cpOf '.'] with | some i => i + 1 | none => 0) ≤ total := by
  split
  · next i hi =>
    have := rfindSub_some _ _ _ hi
    simp only [List.length_take, List.length_cons, List.length_nil] at this
    show i + 1 ≤ total
    omega
  · omega

theorem tryPrefix_le (w p : CPs) (limit : Nat) (r : Nat × CPs)
    (h : (rfindSub (w.take limit) p).map (fun i => (i, p)) = some r) : r.1 + p.length ≤ limit := by
  simp only [Option.map_eq_some_iff] at h
  obtain ⟨i, hi, rfl⟩ := h
  have := rfindSub_some _ _ _ hi
  simp only [List.length_take] at this
  omega

theorem found_le (w p1 p2 p3 : CPs) (sI : Nat) (hp1 : 0 < p1.length) (r : Nat × CPs)
    (h : (match (rfindSub (w.take (sI + 1)) p1).map (fun i => (i, p1)) with
          | some r => some r
          | none =>
            match (rfindSub (w.take sI) p2).map (fun i => (i, p2)) with
            | some r => some r
            | none => (rfindSub (w.take sI) p3).map (fun i => (i, p3))) = some r) : r.1 ≤ sI := by
  split at h
  · next r' h1 =>
    cases h
    have := tryPrefix_le _ _ _ _ h1
    omega
  · split at h
    · next r' h2 =>
      cases h
      have := tryPrefix_le _ _ _ _ h2
      omega
    · have := tryPrefix_le _ _ _ _ h
      omega

theorem startOfUrl_le (w p1 p2 p3 : CPs) (sI : Nat) (hp1 : 0 < p1.length) :
    (match (match (rfindSub (w.take (sI + 1)) p1).map (fun i => (i, p1)) with
          | some r => some r
          | none =>
            match (rfindSub (w.take sI) p2).map (fun i => (i, p2)) with
            | some r => some r
            | none => (rfindSub (w.take sI) p3).map (fun i => (i, p3))) with
      | some (i, _) => i
      | none => 0) ≤ sI := by
  split
  · next i _ h => exact found_le w p1 p2 p3 sI hp1 _ h
  · omega

theorem httpwww_pos : 0 < (cpsOfString "http://www.").length := by decide

theorem detectWebsite_spec (U : UEnv) (text : CPs) (pieces : List Sec) (f : CPs × CPs × Option CPs)
    (h : detectWebsite U text = some (pieces, f)) :
    ∃ s e, s < e ∧ e ≤ (U.lowerS text).length ∧
      pieces = (if (s != 0) = true then [((text.take s, none) : Sec)] else []) ++
        [(slice (U.lowerS text) s e, some "W")] ++
        (if (e != text.length) = true then [((text.drop e, none) : Sec)] else []) := by
  unfold detectWebsite at h
  simp only at h
  split at h
  · cases h
  · obtain ⟨tld, htld, hf⟩ := List.exists_of_findSome?_eq_some h
    split at hf
    · cases hf
    · next total htot =>
      simp only [Option.some.injEq, Prod.mk.injEq] at hf
      obtain ⟨hp, _⟩ := hf
      refine ⟨_, _, ?_, ?_, hp.symm⟩
      · have hT := tldOccurrence_some U _ tld _ _ total (fun t ht => (findSub_some _ _ _ ht).1) htot
        have hpos := tld_ne_nil tld htld
        refine Nat.lt_of_le_of_lt (startOfUrl_le _ _ _ _ _ httpwww_pos) ?_
        refine Nat.lt_of_le_of_lt (startIndex_le _ _) ?_
        split
        · omega
        · split <;> omega
      · have hT := tldOccurrence_some U _ tld _ _ total (fun t ht => (findSub_some _ _ _ ht).1) htot
        split
        · omega
        · split <;> omega

theorem lenPres_length (U : UEnv) (text : CPs) (hl : LenPres U text) :
    (U.lowerS text).length = text.length := by
  have := hl 0 text.length
  rwa [slice_zero_length] at this

theorem pieceOK_web (U : UEnv) (text : CPs) (s e : Nat) (hl : LenPres U text)
    (hse : s < e) (he : e ≤ text.length) :
    pieceOK U text s (slice (U.lowerS text) s e, some "W") ∧
      (slice (U.lowerS text) s e).length = e - s := by
  have hw := lenPres_length U text hl
  have hlen : (slice (U.lowerS text) s e).length = e - s := by rw [slice_length]; omega
  refine ⟨⟨?_, ?_, ?_, ?_⟩, hlen⟩
  · intro h; simp only at h; rw [h] at hlen; simp at hlen; omega
  · simp only [hlen]; omega
  · intro h; exact absurd rfl h
  · intro _
    refine ⟨0, text.length, by omega, by simp only [hlen]; omega, by omega, ?_⟩
    simp only [hlen, slice_zero_length, Nat.sub_zero]
    congr 1; omega

theorem detectWebsite_ok' (U : UEnv) : DetectorOK U (detectWebsite U) := by
  intro text pieces f _ hl h
  obtain ⟨s, e, hse, he, rfl⟩ := detectWebsite_spec U text pieces f h
  rw [lenPres_length U text hl] at he
  have hm := pieceOK_web U text s e hl hse he
  exact tiles_three U text s e _ _ _ hse he hm.1 hm.2 (by simp) (by simp)

/-! ## e-mail -/

theorem detectEmail_spec (U : UEnv) (text : CPs) (pieces : List Sec) (f : CPs × CPs)
    (h : detectEmail U text = some (pieces, f)) :
    ∃ e, 0 < e ∧ e ≤ (U.lowerS text).length ∧
      pieces = [((text.take e, some "E") : Sec)] ++
        (if (e != (U.lowerS text).length) = true then [((text.drop e, none) : Sec)] else []) := by
  unfold detectEmail at h
  simp only at h
  split at h
  · cases h
  · obtain ⟨tld, htld, hf⟩ := List.exists_of_findSome?_eq_some h
    split at hf
    · cases hf
    · next e0 he0 =>
      split at hf
      · cases hf
      · simp only [Option.some.injEq, Prod.mk.injEq] at hf
        have hpos := tld_ne_nil tld htld
        have hb := (findSub_some _ _ _ he0).1
        exact ⟨e0 + tld.length, by omega, hb, hf.1.symm⟩

theorem detectEmail_ok' (U : UEnv) : DetectorOK U (detectEmail U) := by
  intro text pieces f _ hl h
  obtain ⟨e, h0, he, rfl⟩ := detectEmail_spec U text pieces f h
  rw [lenPres_length U text hl] at he ⊢
  have hm := pieceOK_mid U text 0 e "E" (by decide) h0 he
  have := tiles_three U text 0 e _ False ((e != text.length) = true) h0 he hm.1 hm.2 (by simp) (by simp)
  simpa [slice] using this

end Pcfg.Detect
