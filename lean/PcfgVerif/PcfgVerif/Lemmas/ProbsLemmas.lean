import PcfgVerif.Model.Probs
/-! Helper lemmas for `Properties/ProbsStatements.lean` (C06).  Core-only (no Mathlib). -/
namespace Pcfg
namespace ProbsLemmas
variable {Q α : Type}

/-- the comparison `mostCommon` sorts by -/
abbrev cmp (O : QOps Q) : (α × Q) → (α × Q) → Bool := fun a b => O.ge a.2 b.2

theorem cmp_trans (O : QOps Q)
    (htrans : ∀ a b c, O.ge a b = true → O.ge b c = true → O.ge a c = true) :
    ∀ (a b c : α × Q), cmp O a b = true → cmp O b c = true → cmp O a c = true :=
  fun a b c => htrans a.2 b.2 c.2

theorem cmp_total (O : QOps Q) (htot : ∀ a b, O.ge a b = true ∨ O.ge b a = true) :
    ∀ (a b : α × Q), (cmp O a b || cmp O b a) = true := by
  intro a b
  rcases htot a.2 b.2 with h | h <;> simp [cmp, h]

theorem mostCommon_perm (O : QOps Q) (items : List (α × Q)) : (mostCommon O items).Perm items :=
  List.mergeSort_perm _ _

theorem mem_mostCommon (O : QOps Q) (items : List (α × Q)) (x : α × Q) :
    x ∈ mostCommon O items ↔ x ∈ items :=
  (mostCommon_perm O items).mem_iff

/-- a sublist that is at least as long as the list is the list -/
theorem filter_eq_of_sublist_of_perm {β : Type} (p : β → Bool) {l out : List β}
    (hperm : out.Perm l) (hsub : (l.filter p).Sublist out) : out.filter p = l.filter p := by
  have h1 : ((l.filter p).filter p).Sublist (out.filter p) := hsub.filter p
  rw [List.filter_filter] at h1
  simp only [Bool.and_self] at h1
  have hlen : (out.filter p).length = (l.filter p).length := (hperm.filter p).length_eq
  exact (h1.eq_of_length hlen.symm).symm

/-! ### rationals -/

theorem foldl_add_rat (l : List Rat) (acc : Rat) :
    l.foldl (fun a x => a + x) acc = acc + l.sum := by
  induction l generalizing acc with
  | nil => simp [Rat.add_zero]
  | cons x xs ih => simp only [List.foldl_cons, List.sum_cons, ih]; exact Rat.add_assoc _ _ _

theorem foldl_snd_rat (l : List (α × Rat)) (acc : Rat) :
    l.foldl (fun a it => a + it.2) acc = acc + (l.map (·.2)).sum := by
  induction l generalizing acc with
  | nil => simp [Rat.add_zero]
  | cons x xs ih => simp only [List.foldl_cons, List.map_cons, List.sum_cons, ih]; exact Rat.add_assoc _ _ _

theorem sum_perm_rat {l₁ l₂ : List Rat} (h : l₁.Perm l₂) : l₁.sum = l₂.sum := by
  induction h with
  | nil => rfl
  | cons x _ ih => simp [ih]
  | swap x y l => simp only [List.sum_cons]; grind
  | trans _ _ ih₁ ih₂ => exact ih₁.trans ih₂

theorem sum_map_div_rat (l : List (α × Rat)) (t : Rat) :
    (l.map fun it => it.2 / t).sum = (l.map (·.2)).sum / t := by
  induction l with
  | nil => simp [Rat.div_def, Rat.zero_mul]
  | cons x xs ih => simp only [List.map_cons, List.sum_cons, ih]; grind

theorem div_le_div_right_rat {a b t : Rat} (h : b ≤ a) (ht : 0 < t) : b / t ≤ a / t := by
  rw [Rat.div_def, Rat.div_def]
  exact Rat.mul_le_mul_of_nonneg_right h (Rat.le_of_lt (Rat.inv_pos.mpr ht))

end ProbsLemmas
end Pcfg
