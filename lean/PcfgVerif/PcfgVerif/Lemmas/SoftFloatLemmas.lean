import PcfgVerif.Model.SoftFloat
import PcfgVerif.Model.Prob
/-! Proofs about the binary64 model: monotone rounding, correct rounding (half-ulp bound), 53-bit
significands, closure of [0, 1], and the resulting `PAlg` instance (`sfAlg`).  Core Lean only. -/
namespace Pcfg.SF

theorem lt_two_pow_bitLen (n : Nat) : n < 2 ^ bitLen n := by
  unfold bitLen; split
  · subst_vars; simp
  · exact Nat.lt_log2_self

theorem two_pow_le_of_bitLen {n : Nat} (h : n ≠ 0) : 2 ^ (bitLen n - 1) ≤ n := by
  unfold bitLen; simp [h]; exact Nat.log2_self_le h

theorem bitLen_mono {a b : Nat} (h : a ≤ b) : bitLen a ≤ bitLen b := by
  unfold bitLen
  by_cases ha : a = 0
  · simp [ha]
  · have hb : b ≠ 0 := by omega
    simp [ha, hb]
    exact (Nat.le_log2 hb).2 (Nat.le_trans (Nat.log2_self_le ha) h)

theorem shiftOf_mono {a b : Nat} (h : a ≤ b) : shiftOf a ≤ shiftOf b := by
  have := bitLen_mono h; unfold shiftOf; omega

theorem roundAt_le (N T : Nat) : roundAt N T ≤ N / T + 1 := by
  unfold roundAt; split <;> omega

theorem le_roundAt (N T : Nat) : N / T ≤ roundAt N T := by
  unfold roundAt; split <;> omega

/-- same scale: rounding to the nearest integer multiple is monotone -/
theorem roundAt_mono (T : Nat) {N1 N2 : Nat} (h : N1 ≤ N2) : roundAt N1 T ≤ roundAt N2 T := by
  have hn : N1 / T ≤ N2 / T := Nat.div_le_div_right h
  by_cases he : N1 / T = N2 / T
  · have h1 := Nat.div_add_mod N1 T
    have h2 := Nat.div_add_mod N2 T
    have hr : N1 % T ≤ N2 % T := by rw [he] at h1; omega
    unfold roundAt roundUp
    rw [he]
    generalize N2 / T = n at *
    generalize N1 % T = r1 at *
    generalize N2 % T = r2 at *
    by_cases c1 : T < 2 * r1 <;> by_cases c2 : T < 2 * r2 <;> by_cases c3 : 2 * r1 = T <;>
      by_cases c4 : 2 * r2 = T <;> by_cases c5 : n % 2 = 1 <;> simp [c1, c2, c3, c4, c5] <;> omega
  · have : N1 / T + 1 ≤ N2 / T := by omega
    exact Nat.le_trans (roundAt_le N1 T) (Nat.le_trans this (le_roundAt N2 T))

theorem div_shift (N D s : Nat) : N / (D * 2 ^ s) = N / D / 2 ^ s := by
  rw [Nat.div_div_eq_div_mul]

/-- rounding a quotient to a 53-bit significand is monotone in the numerator -/
theorem roundQ_mono (D : Nat) {N1 N2 : Nat} (h : N1 ≤ N2) : roundQ N1 D ≤ roundQ N2 D := by
  have hq : N1 / D ≤ N2 / D := Nat.div_le_div_right h
  have hs := shiftOf_mono hq
  unfold roundQ
  simp only
  generalize hs1 : shiftOf (N1 / D) = s1 at *
  generalize hs2 : shiftOf (N2 / D) = s2 at *
  by_cases he : s1 = s2
  · subst he
    exact Nat.mul_le_mul_right _ (roundAt_mono _ h)
  · have hlt : s1 < s2 := by omega
    have hl : roundAt N1 (D * 2 ^ s1) * 2 ^ s1 ≤ 2 ^ (53 + s1) := by
      have hb : N1 / D < 2 ^ (53 + s1) := by
        have h1 := lt_two_pow_bitLen (N1 / D)
        have : bitLen (N1 / D) ≤ 53 + s1 := by unfold shiftOf at hs1; omega
        exact Nat.lt_of_lt_of_le h1 (Nat.pow_le_pow_right (by decide) this)
      have hn : N1 / (D * 2 ^ s1) < 2 ^ 53 := by
        rw [div_shift, Nat.div_lt_iff_lt_mul (Nat.two_pow_pos _), ← Nat.pow_add]; exact hb
      have := roundAt_le N1 (D * 2 ^ s1)
      have h53 : roundAt N1 (D * 2 ^ s1) ≤ 2 ^ 53 := by omega
      rw [Nat.pow_add]
      exact Nat.mul_le_mul_right _ h53
    have hr : 2 ^ (52 + s2) ≤ roundAt N2 (D * 2 ^ s2) * 2 ^ s2 := by
      have hbl : bitLen (N2 / D) = 53 + s2 := by unfold shiftOf at hs2; omega
      have hne : N2 / D ≠ 0 := by
        intro h0; rw [h0] at hbl; simp [bitLen] at hbl; omega
      have hb := two_pow_le_of_bitLen hne
      rw [hbl] at hb
      have hn : 2 ^ 52 ≤ N2 / (D * 2 ^ s2) := by
        rw [div_shift, Nat.le_div_iff_mul_le (Nat.two_pow_pos _), ← Nat.pow_add]
        have : 53 + s2 - 1 = 52 + s2 := by omega
        rw [this] at hb; exact hb
      have := le_roundAt N2 (D * 2 ^ s2)
      rw [Nat.pow_add]
      exact Nat.mul_le_mul_right _ (Nat.le_trans hn this)
    have : 2 ^ (53 + s1) ≤ 2 ^ (52 + s2) := Nat.pow_le_pow_right (by decide) (by omega)
    omega

/-- rounding to a 53-bit significand is monotone -/
theorem roundTo_mono (k : Nat) {N1 N2 : Nat} (h : N1 ≤ N2) : roundTo N1 k ≤ roundTo N2 k :=
  roundQ_mono _ h

theorem mul_mono_left (a a' b : Nat) (h : a ≤ a') : mul a b ≤ mul a' b :=
  roundTo_mono _ (Nat.mul_le_mul_right b h)

theorem mul_mono_right (a b b' : Nat) (h : b ≤ b') : mul a b ≤ mul a b' :=
  roundTo_mono _ (Nat.mul_le_mul_left a h)

/-- `fl(c / t)` is monotone in the numerator: a larger count never gets a smaller probability -/
theorem ratio_mono (t : Nat) {c1 c2 : Nat} (h : c1 ≤ c2) : ratio c1 t ≤ ratio c2 t :=
  roundQ_mono _ (Nat.mul_le_mul_right _ h)

/-- the result has a significand of at most 53 bits (2^53 itself = 2^52 · 2) -/
theorem roundQ_significand (N D : Nat) :
    ∃ m, roundQ N D = m * 2 ^ shiftOf (N / D) ∧ m ≤ 2 ^ 53 := by
  refine ⟨roundAt N (D * 2 ^ shiftOf (N / D)), rfl, ?_⟩
  have hb : N / D < 2 ^ (53 + shiftOf (N / D)) := by
    have h1 := lt_two_pow_bitLen (N / D)
    have : bitLen (N / D) ≤ 53 + shiftOf (N / D) := by unfold shiftOf; omega
    exact Nat.lt_of_lt_of_le h1 (Nat.pow_le_pow_right (by decide) this)
  have hn : N / (D * 2 ^ shiftOf (N / D)) < 2 ^ 53 := by
    rw [div_shift, Nat.div_lt_iff_lt_mul (Nat.two_pow_pos _), ← Nat.pow_add]; exact hb
  have := roundAt_le N (D * 2 ^ shiftOf (N / D))
  omega

/-- correctly rounded: the error is at most half a unit in the last place -/
theorem roundAt_half (N T : Nat) (hT : 0 < T) :
    2 * (N - roundAt N T * T) ≤ T ∧ 2 * (roundAt N T * T - N) ≤ T := by
  have h1 := Nat.div_add_mod N T
  have hr := Nat.mod_lt N hT
  unfold roundAt roundUp
  generalize N / T = n at *
  generalize N % T = r at *
  by_cases c1 : T < 2 * r <;> by_cases c3 : 2 * r = T <;> by_cases c5 : n % 2 = 1 <;>
    simp [c1, c3, c5, Nat.add_mul, Nat.mul_comm n T] <;> omega

/-- a value that already has the format is returned unchanged -/
theorem roundAt_exact (N T : Nat) (hT : 0 < T) (h : N % T = 0) : roundAt N T * T = N := by
  have h1 := Nat.div_add_mod N T
  unfold roundAt roundUp
  rw [h] at h1 ⊢
  have h2 : ¬ (2 * 0 = T) := by omega
  simp [h2]
  rw [Nat.mul_comm]; omega

/-- powers of two are fixed points: rounding never crosses one -/
theorem roundTo_pow (k j : Nat) : roundTo (2 ^ (k + j)) k = 2 ^ j := by
  unfold roundTo roundQ
  simp only
  have hq : 2 ^ (k + j) / 2 ^ k = 2 ^ j := by
    rw [Nat.pow_add, Nat.mul_div_cancel_left _ (Nat.two_pow_pos k)]
  rw [hq]
  have hbl : bitLen (2 ^ j) = j + 1 := by
    unfold bitLen
    simp
  have hs : shiftOf (2 ^ j) ≤ j := by unfold shiftOf; omega
  generalize shiftOf (2 ^ j) = s at *
  rw [← Nat.pow_add]
  have hsplit : 2 ^ (k + j) = 2 ^ (j - s) * 2 ^ (k + s) := by
    rw [← Nat.pow_add]; congr 1; omega
  have hmod : 2 ^ (k + j) % 2 ^ (k + s) = 0 := by rw [hsplit]; exact Nat.mul_mod_left _ _
  have hex := roundAt_exact _ _ (Nat.two_pow_pos (k + s)) hmod
  have : roundAt (2 ^ (k + j)) (2 ^ (k + s)) * 2 ^ s * 2 ^ k = 2 ^ j * 2 ^ k := by
    rw [Nat.mul_assoc, ← Nat.pow_add, Nat.add_comm s k, hex, Nat.pow_add, Nat.mul_comm]
  exact Nat.eq_of_mul_eq_mul_right (Nat.two_pow_pos k) this

/-- probabilities stay probabilities: the product of two values ≤ 1.0 is ≤ 1.0 (no overflow) -/
theorem mul_le_one (a b : Nat) (ha : a ≤ one) (hb : b ≤ one) : mul a b ≤ one := by
  have h : a * b ≤ 2 ^ (unitExp + unitExp) := by
    rw [Nat.pow_add]; exact Nat.mul_le_mul ha hb
  have := roundTo_mono unitExp h
  rw [roundTo_pow] at this
  exact this

/-- zero is absorbing -/
theorem mul_zero (b : Nat) : mul 0 b = 0 := by
  simp [mul, roundTo, roundQ, roundAt, roundUp, shiftOf, bitLen]

end Pcfg.SF

namespace Pcfg

/-- **IEEE-754 binary64 on finite non-negative values is a `PAlg`**: `≤` is a total order on the units and the
correctly rounded product is monotone in both arguments.  This discharges, for the model `SF.mul`, the one
floating-point fact the queue theorems need; that `SF.mul` *is* CPython's `*` on such doubles is checked
bit-for-bit by the correspondence (`fp.mul`). -/
def sfAlg : PAlg Nat where
  le := fun a b => decide (a ≤ b)
  mul := SF.mul
  le_refl := by intro a; simp
  le_trans := by intro a b c h1 h2; simp at *; omega
  le_total := by intro a b; simp; omega
  mul_mono_left := by intro a a' b h; simp at *; exact SF.mul_mono_left a a' b h
  mul_mono_right := by intro a b b' h; simp at *; exact SF.mul_mono_right a b b' h

end Pcfg
