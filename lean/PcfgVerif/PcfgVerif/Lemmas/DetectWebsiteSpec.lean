import PcfgVerif.Lemmas.DetectA2
/-!
# What the top-level-domain search of `detect_website` returns

`tldOccurrence` mirrors the loop of `detect_website` (`lib_trainer/detection_rules/website_detection.py`):
`start_index = section.find(tld)`, and while the character behind the occurrence is a letter or a dot (and the occurrence
does not end the string) the search goes on behind it.  Specification proved here: the position returned is an occurrence of
the domain that *ends a host name* (it ends the string, or is followed by neither a letter nor a dot), and **no earlier
occurrence does** - the first one from the left, wherever the same letters turn up again later in the string.
-/
namespace Pcfg.Detect
open Generated.Tables

/-- `pat` stands in `s` at index `i` -/
def OccursAt (s pat : CPs) (i : Nat) : Prop := i + pat.length ≤ s.length ∧ (s.drop i).take pat.length = pat

/-- the occurrence at `t` ends a host name: nothing follows, or what follows is neither a letter nor a dot -/
def endsHost (U : UEnv) (w tld : CPs) (t : Nat) : Bool :=
  !(t != w.length - tld.length &&
      (U.isAlpha (w.getD (t + tld.length) 0) || w.getD (t + tld.length) 0 == cpOf '.'))

theorem findFrom_first (s pat : CPs) : ∀ (fuel i j : Nat), findFrom s pat fuel i = some j →
    i ≤ j ∧ ∀ k, i ≤ k → k < j → ¬ OccursAt s pat k
  | 0, i, j, h => by simp [findFrom] at h
  | fuel + 1, i, j, h => by
    unfold findFrom at h
    split at h
    · cases h
      exact ⟨Nat.le_refl _, fun k h1 h2 => by omega⟩
    · next hc =>
      have ⟨h1, h2⟩ := findFrom_first s pat fuel (i + 1) j h
      refine ⟨by omega, fun k hk hkj hocc => ?_⟩
      by_cases hki : k = i
      · subst hki
        apply hc
        simp only [Bool.and_eq_true, beq_iff_eq, decide_eq_true_eq]
        exact ⟨hocc.2, hocc.1⟩
      · exact h2 k (by omega) hkj hocc

theorem findSub_first (s pat : CPs) (j : Nat) (h : findSub s pat = some j) :
    OccursAt s pat j ∧ ∀ k, k < j → ¬ OccursAt s pat k :=
  ⟨findSub_some s pat j h, fun k hk => (findFrom_first s pat _ 0 j h).2 k (Nat.zero_le _) hk⟩

theorem occursAt_drop (w pat : CPs) (t e : Nat) (ht : t ≤ w.length) :
    OccursAt (w.drop t) pat e ↔ OccursAt w pat (t + e) := by
  unfold OccursAt
  simp only [List.length_drop, List.drop_drop]
  constructor
  · rintro ⟨h1, h2⟩
    exact ⟨by omega, h2⟩
  · rintro ⟨h1, h2⟩
    exact ⟨by omega, h2⟩

theorem occursAt_get (s pat : CPs) (i : Nat) (h : OccursAt s pat i) (d : Nat) (hd : d < pat.length) :
    s[i + d]? = pat[d]? := by
  have h2 := h.2
  have : ((s.drop i).take pat.length)[d]? = pat[d]? := by rw [h2]
  rw [List.getElem?_take_of_lt hd, List.getElem?_drop] at this
  exact this

/-- no proper suffix of `pat` is a prefix of it (pointwise: shifted by any `d`, some position differs) -/
def BorderFree (pat : CPs) : Prop :=
  ∀ d, d < pat.length → 0 < d → ∃ j, j < pat.length ∧ d + j < pat.length ∧ pat[d + j]? ≠ pat[j]?

instance (pat : CPs) : Decidable (BorderFree pat) := by unfold BorderFree; infer_instance

/-- a border-free pattern cannot overlap itself -/
theorem no_self_overlap (s pat : CPs) (hb : BorderFree pat) (t k : Nat)
    (h1 : OccursAt s pat t) (h2 : OccursAt s pat k) (hlt : t < k) (hov : k < t + pat.length) : False := by
  obtain ⟨j, hj, hdj, hne⟩ := hb (k - t) (by omega) (by omega)
  have e1 := occursAt_get s pat k h2 j hj
  have e2 := occursAt_get s pat t h1 (k - t + j) hdj
  have hk : t + (k - t + j) = k + j := by omega
  rw [hk, e1] at e2
  exact hne e2.symm

theorem tldOccurrence_spec (U : UEnv) (w tld : CPs) (hb : BorderFree tld) :
    ∀ (fuel : Nat) (o : Option Nat) (total : Nat),
    (∀ t, o = some t → OccursAt w tld t ∧ ∀ k, k < t → OccursAt w tld k → endsHost U w tld k = false) →
    tldOccurrence U w tld fuel o = some total →
    OccursAt w tld total ∧ endsHost U w tld total = true ∧
      ∀ k, k < total → OccursAt w tld k → endsHost U w tld k = false
  | 0, o, total, _, h => by simp [tldOccurrence] at h
  | fuel + 1, none, total, _, h => by simp [tldOccurrence] at h
  | fuel + 1, some t, total, hinv, h => by
    have ⟨hocc, hbefore⟩ := hinv t rfl
    unfold tldOccurrence at h
    split at h
    · next hc =>
      simp only at h
      split at h
      · cases h
      · next e he =>
        refine tldOccurrence_spec U w tld hb fuel _ total ?_ h
        intro t' ht'
        cases ht'
        have hle : t + tld.length ≤ w.length := hocc.1
        have hf := findSub_first _ _ _ he
        refine ⟨(occursAt_drop w tld _ e hle).1 hf.1, fun k hk hko => ?_⟩
        by_cases h1 : k < t
        · exact hbefore k h1 hko
        · by_cases h2 : k = t
          · subst h2
            unfold endsHost
            rw [hc]
            rfl
          · by_cases h3 : k < t + tld.length
            · exact (no_self_overlap w tld hb t k hocc hko (by omega) h3).elim
            · exfalso
              have : OccursAt (w.drop (t + tld.length)) tld (k - (t + tld.length)) := by
                apply (occursAt_drop w tld _ _ hle).2
                have : t + tld.length + (k - (t + tld.length)) = k := by omega
                rw [this]
                exact hko
              exact hf.2 _ (by omega) this
    · next hc =>
      cases h
      refine ⟨hocc, ?_, hbefore⟩
      unfold endsHost
      simp only [Bool.not_eq_true] at hc
      rw [hc]
      rfl

/-- no top-level domain of the table can overlap itself (also not `.nl.se`, the entry the source's list really has) -/
theorem tld_border_free : ∀ t ∈ tldList, BorderFree t := by decide

/-- **the search of `detect_website` for one top-level domain**: what it returns is the first occurrence of the domain, from the
left, that ends a host name -/
theorem tldSearch_first_host_end (U : UEnv) (w tld : CPs) (hm : tld ∈ tldList) (total : Nat)
    (h : tldOccurrence U w tld (w.length + 1) (findSub w tld) = some total) :
    OccursAt w tld total ∧ endsHost U w tld total = true ∧
      ∀ k, k < total → OccursAt w tld k → endsHost U w tld k = false := by
  refine tldOccurrence_spec U w tld (tld_border_free tld hm) _ _ total ?_ h
  intro t ht
  have hf := findSub_first w tld t ht
  exact ⟨hf.1, fun k hk hko => (hf.2 k hk hko).elim⟩

end Pcfg.Detect

namespace Pcfg.Detect
open Generated.Tables

/-! ## completeness: when the search finds nothing, no occurrence ends a host name -/

theorem findFrom_none (s pat : CPs) : ∀ (fuel i : Nat), findFrom s pat fuel i = none →
    ∀ k, i ≤ k → k < i + fuel → ¬ OccursAt s pat k
  | 0, i, _, k, h1, h2 => by omega
  | fuel + 1, i, h, k, h1, h2 => by
    unfold findFrom at h
    split at h
    · cases h
    · next hc =>
      intro hocc
      by_cases hki : k = i
      · subst hki
        apply hc
        simp only [Bool.and_eq_true, beq_iff_eq, decide_eq_true_eq]
        exact ⟨hocc.2, hocc.1⟩
      · exact findFrom_none s pat fuel (i + 1) h k (by omega) (by omega) hocc

theorem findSub_none (s pat : CPs) (h : findSub s pat = none) (k : Nat) : ¬ OccursAt s pat k := by
  intro hocc
  have hk : k ≤ s.length := by have := hocc.1; omega
  exact findFrom_none s pat (s.length + 1) 0 h k (Nat.zero_le _) (by omega) hocc

theorem tldOccurrence_none (U : UEnv) (w tld : CPs) (hb : BorderFree tld) (hpos : 0 < tld.length) :
    ∀ (fuel : Nat) (o : Option Nat),
    (∀ t, o = some t → OccursAt w tld t ∧ w.length + 1 ≤ fuel + t ∧
        ∀ k, k < t → OccursAt w tld k → endsHost U w tld k = false) →
    (o = none → ∀ k, ¬ OccursAt w tld k) →
    tldOccurrence U w tld fuel o = none →
    ∀ k, OccursAt w tld k → endsHost U w tld k = false
  | 0, none, _, hn, _ => fun k hk => ((hn rfl) k hk).elim
  | 0, some t, hinv, _, _ => by
    have ⟨hocc, hf, _⟩ := hinv t rfl
    have := hocc.1
    omega
  | fuel + 1, none, _, hn, _ => fun k hk => ((hn rfl) k hk).elim
  | fuel + 1, some t, hinv, _, h => by
    have ⟨hocc, hf, hbefore⟩ := hinv t rfl
    have hle : t + tld.length ≤ w.length := hocc.1
    unfold tldOccurrence at h
    split at h
    · next hc =>
      simp only at h
      have hrej : endsHost U w tld t = false := by
        unfold endsHost
        rw [hc]
        rfl
      -- occurrences up to the end of the rejected one
      have hupto : ∀ k, k < t + tld.length → OccursAt w tld k → endsHost U w tld k = false := by
        intro k hk hko
        by_cases h1 : k < t
        · exact hbefore k h1 hko
        · by_cases h2 : k = t
          · subst h2; exact hrej
          · exact (no_self_overlap w tld hb t k hocc hko (by omega) hk).elim
      split at h
      · next hnone =>
        intro k hko
        by_cases h3 : k < t + tld.length
        · exact hupto k h3 hko
        · exfalso
          have : OccursAt (w.drop (t + tld.length)) tld (k - (t + tld.length)) := by
            apply (occursAt_drop w tld _ _ hle).2
            have : t + tld.length + (k - (t + tld.length)) = k := by omega
            rw [this]
            exact hko
          exact findSub_none _ _ hnone _ this
      · next e he =>
        have hfs := findSub_first _ _ _ he
        refine tldOccurrence_none U w tld hb hpos fuel _ ?_ (by intro hh; cases hh) h
        intro t' ht'
        cases ht'
        refine ⟨(occursAt_drop w tld _ e hle).1 hfs.1, by omega, fun k hk hko => ?_⟩
        by_cases h3 : k < t + tld.length
        · exact hupto k h3 hko
        · exfalso
          have : OccursAt (w.drop (t + tld.length)) tld (k - (t + tld.length)) := by
            apply (occursAt_drop w tld _ _ hle).2
            have : t + tld.length + (k - (t + tld.length)) = k := by omega
            rw [this]
            exact hko
          exact hfs.2 _ (by omega) this
    · cases h

/-- **a top-level domain makes the string a website exactly when one of its occurrences ends a host name** -/
theorem tldSearch_finds_iff (U : UEnv) (w tld : CPs) (hm : tld ∈ tldList) :
    (tldOccurrence U w tld (w.length + 1) (findSub w tld)).isSome = true ↔
      ∃ k, OccursAt w tld k ∧ endsHost U w tld k = true := by
  constructor
  · intro h
    cases hr : tldOccurrence U w tld (w.length + 1) (findSub w tld) with
    | none => rw [hr] at h; cases h
    | some total =>
      have := tldSearch_first_host_end U w tld hm total hr
      exact ⟨total, this.1, this.2.1⟩
  · rintro ⟨k, hk, he⟩
    cases hr : tldOccurrence U w tld (w.length + 1) (findSub w tld) with
    | some total => rfl
    | none =>
      exfalso
      have hall := tldOccurrence_none U w tld (tld_border_free tld hm) (tld_ne_nil tld hm) (w.length + 1) (findSub w tld)
        (by
          intro t ht
          have hf := findSub_first w tld t ht
          exact ⟨hf.1, by omega, fun k hk hko => (hf.2 k hk hko).elim⟩)
        (by intro hn k; exact findSub_none w tld hn k) hr k hk
      rw [hall] at he
      cases he

end Pcfg.Detect

namespace Pcfg.Detect
open Generated.Tables

/-- every top-level domain of the table starts with a dot -/
theorem tld_head_dot : ∀ t ∈ tldList, t[0]? = some (cpOf '.') := by decide

/-- **`detect_website` as a whole**: a website is detected in a string exactly when, in its lower-cased working copy, some top-level
domain of the table has an occurrence that ends a host name -/
theorem detectWebsite_isSome_iff (U : UEnv) (text : CPs) :
    (detectWebsite U text).isSome = true ↔
      ∃ tld ∈ tldList, ∃ k, OccursAt (U.lowerS text) tld k ∧ endsHost U (U.lowerS text) tld k = true := by
  unfold detectWebsite
  simp only
  split
  · next hdot =>
    constructor
    · intro h; cases h
    · rintro ⟨tld, hm, k, hocc, _⟩
      exfalso
      have h0 := occursAt_get _ tld k hocc 0 (tld_ne_nil tld hm)
      rw [tld_head_dot tld hm, Nat.add_zero] at h0
      have hmem : cpOf '.' ∈ U.lowerS text := List.mem_of_getElem? h0
      simp only [Bool.not_eq_true', List.contains_eq_mem, decide_eq_false_iff_not] at hdot
      exact hdot hmem
  · rw [List.findSome?_isSome_iff]
    constructor
    · rintro ⟨tld, hm, hs⟩
      refine ⟨tld, hm, ?_⟩
      apply (tldSearch_finds_iff U (U.lowerS text) tld hm).1
      cases hr : tldOccurrence U (U.lowerS text) tld ((U.lowerS text).length + 1) (findSub (U.lowerS text) tld) with
      | none => rw [hr] at hs; cases hs
      | some t => rfl
    · rintro ⟨tld, hm, hk⟩
      refine ⟨tld, hm, ?_⟩
      have := (tldSearch_finds_iff U (U.lowerS text) tld hm).2 hk
      cases hr : tldOccurrence U (U.lowerS text) tld ((U.lowerS text).length + 1) (findSub (U.lowerS text) tld) with
      | none => rw [hr] at this; cases this
      | some t => rfl

end Pcfg.Detect

namespace Pcfg.Detect
open Generated.Tables

theorem findSub_isSome_iff (s pat : CPs) : (findSub s pat).isSome = true ↔ ∃ k, OccursAt s pat k := by
  constructor
  · intro h
    cases hr : findSub s pat with
    | none => rw [hr] at h; cases h
    | some j => exact ⟨j, (findSub_first s pat j hr).1⟩
  · rintro ⟨k, hk⟩
    cases hr : findSub s pat with
    | none => exact (findSub_none s pat hr k hk).elim
    | some j => rfl

/-- **`detect_email` as a whole**: an e-mail address is detected in a string exactly when, in its lower-cased working copy, the *first*
occurrence of some top-level domain of the table has an `@` somewhere in front of its end -/
theorem detectEmail_isSome_iff (U : UEnv) (text : CPs) :
    (detectEmail U text).isSome = true ↔
      ∃ tld ∈ tldList, ∃ e0, findSub (U.lowerS text) tld = some e0 ∧
        ∃ m, OccursAt ((U.lowerS text).take (e0 + tld.length)) [cpOf '@'] m := by
  unfold detectEmail
  simp only
  split
  · next hpre =>
    constructor
    · intro h; cases h
    · rintro ⟨tld, hm, e0, he0, m, hocc⟩
      exfalso
      have hdot : cpOf '.' ∈ U.lowerS text := by
        have h0 := occursAt_get _ tld e0 (findSub_first _ _ _ he0).1 0 (tld_ne_nil tld hm)
        rw [tld_head_dot tld hm, Nat.add_zero] at h0
        exact List.mem_of_getElem? h0
      have hat : cpOf '@' ∈ U.lowerS text := by
        have h0 := occursAt_get _ [cpOf '@'] m hocc 0 (by simp)
        simp only [Nat.add_zero, List.getElem?_cons_zero] at h0
        exact List.mem_of_mem_take (List.mem_of_getElem? h0)
      simp only [Bool.or_eq_true, Bool.not_eq_true', List.contains_eq_mem, decide_eq_false_iff_not] at hpre
      cases hpre with
      | inl h => exact h hdot
      | inr h => exact h hat
  · rw [List.findSome?_isSome_iff]
    constructor
    · rintro ⟨tld, hm, hs⟩
      refine ⟨tld, hm, ?_⟩
      cases he : findSub (U.lowerS text) tld with
      | none => rw [he] at hs; cases hs
      | some e0 =>
        rw [he] at hs
        simp only at hs
        refine ⟨e0, rfl, ?_⟩
        apply (findSub_isSome_iff _ _).1
        cases hm2 : findSub ((U.lowerS text).take (e0 + tld.length)) [cpOf '@'] with
        | none => rw [hm2] at hs; cases hs
        | some m => rfl
    · rintro ⟨tld, hm, e0, he0, hex⟩
      refine ⟨tld, hm, ?_⟩
      rw [he0]
      simp only
      have := (findSub_isSome_iff _ _).2 hex
      cases hm2 : findSub ((U.lowerS text).take (e0 + tld.length)) [cpOf '@'] with
      | none => rw [hm2] at this; cases this
      | some m => rfl

end Pcfg.Detect
