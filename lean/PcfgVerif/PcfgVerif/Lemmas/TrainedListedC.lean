import PcfgVerif.Lemmas.TrainedListedB
/-! Looking a counted item up in the grammar the trainer wrote gives a non-zero probability. -/
namespace Pcfg.Trainer
open Pcfg Pcfg.Detect

theorem look_append_skip {P : Type} (g1 g2 : ScoreG P) (zero : P) (name : String) (v : CPs)
    (h : g1.find? (·.1 == name) = none) : ScoreG.look (g1 ++ g2) zero name v = ScoreG.look g2 zero name v := by
  unfold ScoreG.look
  rw [List.find?_append, h, Option.none_or]

theorem look_append_hit {P : Type} (g1 g2 : ScoreG P) (zero : P) (name : String) (v : CPs) (e : String × List (CPs × P))
    (h : g1.find? (·.1 == name) = some e) :
    ScoreG.look (g1 ++ g2) zero name v = ((e.2.find? (·.1 == v)).map (·.2)).getD zero := by
  unfold ScoreG.look
  rw [List.find?_append, h, Option.some_or]

theorem find_lenLists (ch : Char) (d : LenCtr) (n : Nat) :
    (lenLists ch d).find? (·.1 == lbl ch n) = (d.find? (·.1 == n)).map fun e => (lbl ch e.1, listOf e.2) := by
  unfold lenLists
  induction d with
  | nil => rfl
  | cons e rest ih =>
    rw [List.map_cons, List.find?_cons, List.find?_cons]
    by_cases hk : e.1 = n
    · have h1 : (lbl ch e.1 == lbl ch n) = true := by rw [hk]; exact beq_self_eq_true _
      have h2 : (e.1 == n) = true := by rw [hk]; exact beq_self_eq_true _
      simp only [h1, h2, Option.map_some]
    · have h1 : (lbl ch e.1 == lbl ch n) = false := by
        apply beq_eq_false_iff_ne.mpr
        intro h; exact hk (lbl_inj ch _ _ h)
      have h2 : (e.1 == n) = false := beq_eq_false_iff_ne.mpr hk
      simp only [h1, h2]
      exact ih

theorem find_lenLists_none (ch : Char) (d : LenCtr) (name : String) (h : ∀ m, lbl ch m ≠ name) :
    (lenLists ch d).find? (·.1 == name) = none := by
  apply List.find?_eq_none.mpr
  intro e he
  obtain ⟨q, _, rfl⟩ := List.mem_map.mp he
  simpa using h q.1

/-- a counted item of a length-indexed category is found with a non-zero probability, whatever follows in the grammar -/
theorem look_lenLists_hit (ch : Char) (d : LenCtr) (g : ScoreG Rat) (hp : LPos d) (n : Nat) (v : CPs)
    (hv : 0 < (d.get n).count v) : ScoreG.look (lenLists ch d ++ g) 0 (lbl ch n) v ≠ 0 := by
  have hne : d.get n ≠ [] := by
    intro h; rw [h] at hv; simp [MWTable.count] at hv
  have hmem := get_mem d n hne
  cases hf : d.find? (·.1 == n) with
  | none =>
    have := List.find?_eq_none.mp hf _ hmem
    simp at this
  | some e =>
    have hget : d.get n = e.2 := by
      unfold LenCtr.get; rw [hf]; rfl
    have hem := List.mem_of_find?_eq_some hf
    rw [look_append_hit _ _ _ _ _ (lbl ch e.1, listOf e.2) (by rw [find_lenLists, hf]; rfl)]
    exact listOf_ne_zero e.2 (hp e hem) v (by rw [← hget]; exact hv)

end Pcfg.Trainer
