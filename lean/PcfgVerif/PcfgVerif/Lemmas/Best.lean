/-! Generic tie-break lemma: among candidates (key, position) with strictly increasing positions,
    exactly one is "not beaten" in the sense of `_are_you_my_child`. -/
namespace Best

structure Ord (P : Type) where
  le : P → P → Bool
  refl : ∀ a, le a a = true
  trans : ∀ a b c, le a b = true → le b c = true → le a c = true
  total : ∀ a b, le a b = true ∨ le b a = true

variable {P : Type} (O : Ord P)

def Ord.lt (a b : P) : Bool := !(O.le b a)
def Ord.eqv (a b : P) : Bool := O.le a b && O.le b a

/-- x = (key, pos) survives against y : the code's two `return False` tests do not fire -/
def survives (x y : P × Nat) : Bool :=
  !(O.lt y.1 x.1) && !(O.eqv y.1 x.1 && decide (y.2 < x.2))

/-- `_are_you_my_child` seen from candidate x: it survives against every other candidate -/
def unbeaten (xs : List (P × Nat)) (x : P × Nat) : Bool :=
  xs.all fun y => y.2 == x.2 || survives O x y

/-- scan keeping the first strict minimum -/
def argmin : List (P × Nat) → Option (P × Nat)
  | [] => none
  | x :: rest =>
    match argmin rest with
    | none => some x
    | some b => if O.lt b.1 x.1 then some b else some x

theorem argmin_mem : ∀ (xs : List (P × Nat)) b, argmin O xs = some b → b ∈ xs := by
  intro xs
  induction xs with
  | nil => intro b h; simp [argmin] at h
  | cons x rest ih =>
    intro b h
    simp only [argmin] at h
    cases hr : argmin O rest with
    | none => simp [hr] at h; simp [h]
    | some c =>
      simp only [hr] at h
      split at h
      · simp at h; subst h; exact List.mem_cons_of_mem _ (ih c hr)
      · simp at h; simp [h]


theorem lt_iff (a b : P) : O.lt a b = true ↔ O.le b a = false := by simp [Ord.lt]

theorem not_lt_of_le (a b : P) (h : O.le a b = true) : O.lt b a = false := by simp [Ord.lt, h]

theorem le_of_not_lt (a b : P) (h : O.lt a b = false) : O.le b a = true := by
  simpa [Ord.lt] using h

theorem lt_trans_le (a b c : P) (h1 : O.lt a b = true) (h2 : O.le b c = true) : O.lt a c = true := by
  simp only [Ord.lt, Bool.not_eq_eq_eq_not, Bool.not_true] at *
  cases h : O.le c a with
  | false => rfl
  | true => have := O.trans b c a h2 h; simp [this] at h1

/-- the scan result is a minimum, and the first one among equals -/
theorem argmin_spec : ∀ (xs : List (P × Nat)), xs.Pairwise (fun a b => a.2 < b.2) →
    ∀ m, argmin O xs = some m →
      (∀ y ∈ xs, O.lt y.1 m.1 = false) ∧ (∀ y ∈ xs, O.eqv y.1 m.1 = true → m.2 ≤ y.2) := by
  intro xs
  induction xs with
  | nil => intro _ m h; simp [argmin] at h
  | cons x rest ih =>
    intro hp m h
    rw [List.pairwise_cons] at hp
    simp only [argmin] at h
    cases hr : argmin O rest with
    | none =>
      have hrest : rest = [] := by
        cases rest with
        | nil => rfl
        | cons r rs => simp only [argmin] at hr; split at hr <;> (try split at hr) <;> simp at hr
      simp [hr] at h; subst h; subst hrest
      constructor
      · intro y hy; simp at hy; subst hy; exact not_lt_of_le O _ _ (O.refl _)
      · intro y hy _; simp at hy; subst hy; exact Nat.le_refl _
    | some b =>
      have ⟨hb1, hb2⟩ := ih hp.2 b hr
      have hbmem := argmin_mem O rest b hr
      simp only [hr] at h
      split at h
      · -- b strictly smaller than x: result b
        rename_i hlt
        simp at h; subst h
        constructor
        · intro y hy
          rcases List.mem_cons.mp hy with rfl | hy
          · -- y = x: need ¬ x < b ; we have b < x
            have : O.le y.1 b.1 = false := (lt_iff O _ _).mp hlt
            cases hyb : O.lt y.1 b.1 with
            | false => rfl
            | true =>
              have h2 := (lt_iff O _ _).mp hyb
              rcases O.total y.1 b.1 with h3 | h3 <;> simp_all
          · exact hb1 y hy
        · intro y hy he
          rcases List.mem_cons.mp hy with rfl | hy
          · -- y = x ≈ b impossible since b < x
            have : O.le y.1 b.1 = false := (lt_iff O _ _).mp hlt
            simp [Ord.eqv, this] at he
          · exact hb2 y hy he
      · -- result x
        rename_i hnlt
        simp at h; subst h
        have hxb : O.le x.1 b.1 = true := le_of_not_lt O _ _ (by simpa using hnlt)
        constructor
        · intro y hy
          rcases List.mem_cons.mp hy with rfl | hy
          · exact not_lt_of_le O _ _ (O.refl _)
          · -- ¬ y < x : else y < x ≤ b → y < b contradiction
            cases hyx : O.lt y.1 x.1 with
            | false => rfl
            | true =>
              have := lt_trans_le O _ _ _ hyx hxb
              have := hb1 y hy; simp_all
        · intro y hy _
          rcases List.mem_cons.mp hy with rfl | hy
          · exact Nat.le_refl _
          · exact Nat.le_of_lt (hp.1 y hy)


theorem argmin_isSome (xs : List (P × Nat)) (x : P × Nat) (hx : x ∈ xs) : ∃ m, argmin O xs = some m := by
  cases xs with
  | nil => simp at hx
  | cons a rest =>
    simp only [argmin]
    cases argmin O rest with
    | none => exact ⟨a, rfl⟩
    | some b => by_cases h : O.lt b.1 a.1 = true <;> simp [h]

theorem pos_inj (xs : List (P × Nat)) (hp : xs.Pairwise (fun a b => a.2 < b.2))
    (a b : P × Nat) (ha : a ∈ xs) (hb : b ∈ xs) (h : a.2 = b.2) : a = b := by
  induction xs with
  | nil => simp at ha
  | cons x rest ih =>
    rw [List.pairwise_cons] at hp
    rcases List.mem_cons.mp ha with ha' | ha' <;> rcases List.mem_cons.mp hb with hb' | hb'
    · rw [ha', hb']
    · have := hp.1 b hb'; rw [ha'] at h; omega
    · have := hp.1 a ha'; rw [hb'] at h; omega
    · exact ih hp.2 ha' hb'

theorem survives_iff (x y : P × Nat) :
    survives O x y = true ↔ (O.lt y.1 x.1 = false ∧ (O.eqv y.1 x.1 = true → ¬ y.2 < x.2)) := by
  simp only [survives]
  cases O.lt y.1 x.1 <;> cases O.eqv y.1 x.1 <;> simp

theorem unbeaten_iff (xs : List (P × Nat)) (x : P × Nat) :
    unbeaten O xs x = true ↔ ∀ y ∈ xs, y.2 ≠ x.2 → survives O x y = true := by
  simp only [unbeaten, List.all_eq_true, Bool.or_eq_true, beq_iff_eq]
  constructor
  · intro h y hy hne; rcases h y hy with h | h
    · exact absurd h hne
    · exact h
  · intro h y hy
    by_cases hne : y.2 = x.2
    · exact Or.inl hne
    · exact Or.inr (h y hy hne)

/-- the code's test accepts exactly one candidate: the first strict minimum -/
theorem unbeaten_iff_argmin (xs : List (P × Nat)) (hp : xs.Pairwise (fun a b => a.2 < b.2))
    (x : P × Nat) (hx : x ∈ xs) : unbeaten O xs x = true ↔ argmin O xs = some x := by
  obtain ⟨m, hm⟩ := argmin_isSome O xs x hx
  have ⟨h1, h2⟩ := argmin_spec O xs hp m hm
  have hmem := argmin_mem O xs m hm
  rw [unbeaten_iff]
  constructor
  · intro hu
    by_cases hpos : m.2 = x.2
    · rw [hm, pos_inj xs hp m x hmem hx hpos]
    · have hs := (survives_iff O x m).mp (hu m hmem hpos)
      have hxm := h1 x hx
      have e : O.eqv x.1 m.1 = true := by
        simp only [Ord.eqv, Bool.and_eq_true]
        exact ⟨le_of_not_lt O _ _ hs.1, le_of_not_lt O _ _ hxm⟩
      have hle := h2 x hx e
      have e' : O.eqv m.1 x.1 = true := by
        simp only [Ord.eqv, Bool.and_eq_true] at e ⊢; exact ⟨e.2, e.1⟩
      have := hs.2 e'
      omega
  · intro hx'
    rw [hm] at hx'
    have hmx : m = x := by simpa using hx'
    subst hmx
    intro y hy hne
    rw [survives_iff]
    refine ⟨h1 y hy, ?_⟩
    intro e
    have := h2 y hy e
    omega

end Best
