import PcfgVerif.Model.OmenProb
import PcfgVerif.Properties.OmenTrainCore
/-!
# Lemmas for the third pass and the saved level probabilities (C18, second half)
-/
namespace Omen
open Pcfg

theorem ctrGet_bump (k k' : Option Nat) (c : LCtr) :
    ctrGet (bump k c) k' = ctrGet c k' + (if k == k' then 1 else 0) := by
  induction c with
  | nil =>
    by_cases h : k == k' <;> simp [bump, ctrGet, List.find?, h]
  | cons e r ih =>
    obtain ⟨a, n⟩ := e
    unfold bump
    by_cases h1 : a == k
    · have hak : a = k := by simpa using h1
      subst hak
      by_cases h2 : a == k'
      · simp [ctrGet, List.find?, h2]
      · have h2' : (a == k') = false := by simpa using h2
        simp [ctrGet, List.find?, h2']
    · have h1' : (a == k) = false := by simpa using h1
      simp only [h1', Bool.false_eq_true, if_false]
      by_cases h2 : a == k'
      · have hak' : a = k' := by simpa using h2
        have hne : (k == k') = false := by
          subst hak'
          cases hk : k == a
          · rfl
          · have : k = a := by simpa using hk
            subst this
            simp at h1'
        simp [ctrGet, List.find?, h2, hne]
      · have h2' : (a == k') = false := by simpa using h2
        have := ih
        simp only [ctrGet, List.find?, h2'] at this ⊢
        exact this

theorem ctrGet_foldl_bump (f : Str → Option Nat) (pws : List Str) (c : LCtr) (k : Option Nat) :
    ctrGet (pws.foldl (fun c pw => bump (f pw) c) c) k = ctrGet c k + pws.countP (fun pw => f pw == k) := by
  induction pws generalizing c with
  | nil => simp
  | cons pw r ih =>
    simp only [List.foldl_cons, List.countP_cons]
    rw [ih, ctrGet_bump]
    omega

/-- the tally of the third pass: the count filed under a level is the number of passwords of the list that
`find_omen_level` puts there (and the count under −1 the number it cannot place) -/
theorem ctrGet_levelsCount (t : TTables) (pws : List Str) (k : Option Nat) :
    ctrGet (t.levelsCount pws) k = pws.countP (fun pw => t.trainerLevel pw == k) := by
  unfold TTables.levelsCount
  rw [ctrGet_foldl_bump]
  simp [ctrGet]

theorem omenProbs_mem {Q : Type} (O : NOps Q) (ks : List (Nat × Nat)) (c : LCtr) (n : Nat) (level : Nat) (p : Q) :
    (level, p) ∈ omenProbs O ks c n ↔
      ∃ k, (level, k) ∈ ks ∧ k ≠ 0 ∧ p = O.divNat (O.ratio (ctrGet c (some level)) n) k := by
  unfold omenProbs
  simp only [List.mem_filterMap]
  constructor
  · rintro ⟨⟨l, k⟩, hmem, h⟩
    by_cases hk : k == 0
    · simp [hk] at h
    · have hk' : (k == 0) = false := by simpa using hk
      simp only [hk', Bool.false_eq_true, if_false, Option.some.injEq, Prod.mk.injEq] at h
      obtain ⟨h1, h2⟩ := h
      subst h1
      exact ⟨k, hmem, by simpa using hk, h2.symm⟩
  · rintro ⟨k, hmem, hk, hp⟩
    refine ⟨(level, k), hmem, ?_⟩
    have hk' : (k == 0) = false := by simpa using hk
    simp [hk', hp]

/-- the levels of `pcfg_omen_prob` are levels of the keyspace list, in its order -/
theorem omenProbs_levels_sublist {Q : Type} (O : NOps Q) (ks : List (Nat × Nat)) (c : LCtr) (n : Nat) :
    ((omenProbs O ks c n).map (·.1)).Sublist (ks.map (·.1)) := by
  unfold omenProbs
  induction ks with
  | nil => simp
  | cons a r ih =>
    by_cases h : a.2 == 0
    · simp only [List.filterMap_cons, h, if_true, List.map_cons]
      exact ih.trans (List.sublist_cons_self _ _)
    · have h' : (a.2 == 0) = false := by simpa using h
      simp only [List.filterMap_cons, h', Bool.false_eq_true, if_false, List.map_cons]
      exact ih.cons_cons _

/-- a counted level has a non-empty keyspace: a training password that `find_omen_level` puts at level `L`
is one of the strings the generator emits at `L` -/
theorem levelKeyspace_pos_of_counted (t : TTables) (hwf : t.WF) (s0 : CState) (hs : t.toTables.start = some s0)
    (pw : Str) (L : Nat) (h : t.trainerLevel pw = some L) : 0 < t.levelKeyspace L := by
  obtain ⟨N1, h1, _, h3⟩ := guesser_emits_iff_trainerLevel t hwf L s0 hs
  obtain ⟨N2, h4⟩ := levelKeyspace_eq_emitted t hwf L s0 hs
  have hmem : pw ∈ t.toTables.enumFrom L N1 s0 := (h3 pw).2 h
  have hlen := h4 (max N1 N2) (Nat.le_max_right _ _)
  rw [h1 (max N1 N2) (Nat.le_max_left _ _)] at hlen
  rw [← hlen]
  exact List.length_pos_of_mem hmem

/-- the number of passwords of the list that the generator emits at level `L` -/
theorem countP_emitted (t : TTables) (hwf : t.WF) (s0 : CState) (hs : t.toTables.start = some s0) (L : Nat)
    (pws : List Str) :
    ∃ N, (∀ fuel, N ≤ fuel → t.toTables.enumFrom L fuel s0 = t.toTables.enumFrom L N s0) ∧
      (t.toTables.enumFrom L N s0).length = t.levelKeyspace L ∧
      pws.countP (fun pw => t.trainerLevel pw == some L) = pws.countP (fun pw => decide (pw ∈ t.toTables.enumFrom L N s0)) := by
  obtain ⟨N1, h1, _, h3⟩ := guesser_emits_iff_trainerLevel t hwf L s0 hs
  obtain ⟨N2, h4⟩ := levelKeyspace_eq_emitted t hwf L s0 hs
  refine ⟨max N1 N2, fun fuel hf => ?_, h4 _ (Nat.le_max_right _ _), ?_⟩
  · rw [h1 fuel (Nat.le_trans (Nat.le_max_left _ _) hf), h1 (max N1 N2) (Nat.le_max_left _ _)]
  · rw [h1 (max N1 N2) (Nat.le_max_left _ _)]
    apply List.countP_congr
    intro pw _
    simp [h3 pw]

end Omen

/-! ## The mass of the listed levels -/
namespace Omen
open Pcfg

theorem sum_indicator_le_one (Ls : List Nat) (hnd : Ls.Nodup) (x : Option Nat) :
    (Ls.map fun l => if x == some l then 1 else 0).sum ≤ 1 := by
  induction Ls with
  | nil => simp
  | cons a r ih =>
    have hnd' := List.nodup_cons.mp hnd
    simp only [List.map_cons, List.sum_cons]
    by_cases h : x == some a
    · have hx : x = some a := by simpa using h
      have hz : (r.map fun l => if x == some l then 1 else 0).sum = 0 := by
        have hall : ∀ l ∈ r, (if x == some l then 1 else 0) = 0 := by
          intro l hl
          have : a ≠ l := fun e => hnd'.1 (e ▸ hl)
          simp [hx, this]
        rw [List.map_congr_left hall]
        clear hall ih hnd hnd'
        induction r with
        | nil => rfl
        | cons _ _ ihr => simp [ihr]
      rw [hz]
      simp [h]
    · have h' : (x == some a) = false := by simpa using h
      simp only [h', Bool.false_eq_true, if_false, Nat.zero_add]
      exact ih hnd'.2

/-- over distinct levels the per-level tallies add up to at most the length of the list -/
theorem sum_counts_le (f : Str → Option Nat) (Ls : List Nat) (hnd : Ls.Nodup) (pws : List Str) :
    (Ls.map fun l => pws.countP (fun pw => f pw == some l)).sum ≤ pws.length := by
  induction pws with
  | nil =>
    simp only [List.countP_nil, List.length_nil, Nat.le_zero_eq]
    clear hnd
    induction Ls with
    | nil => rfl
    | cons _ _ ihr => simp [ihr]
  | cons pw r ih =>
    have hsplit : (Ls.map fun l => (pw :: r).countP (fun pw => f pw == some l)).sum =
        (Ls.map fun l => r.countP (fun pw => f pw == some l)).sum + (Ls.map fun l => if f pw == some l then 1 else 0).sum := by
      clear ih hnd
      induction Ls with
      | nil => simp
      | cons a t iht =>
        simp only [List.map_cons, List.sum_cons, List.countP_cons] at iht ⊢
        omega
    rw [hsplit]
    have := sum_indicator_le_one Ls hnd (f pw)
    simp only [List.length_cons]
    omega

theorem sum_natCast_div (xs : List Nat) (n : Rat) :
    (xs.map fun (x : Nat) => (x : Rat) / n).sum = ((xs.sum : Nat) : Rat) / n := by
  induction xs with
  | nil => simp [Rat.div_def]
  | cons a r ih =>
    simp only [List.map_cons, List.sum_cons]
    rw [ih, Rat.natCast_add]
    simp only [Rat.div_def, Rat.add_mul]

/-- the counts of the levels that receive a probability -/
def countedOf (ks : List (Nat × Nat)) (c : LCtr) : List Nat :=
  ks.filterMap fun lk => if lk.2 == 0 then none else some (ctrGet c (some lk.1))

/-- `Σ p·keyspace` over the levels that receive a probability = (sum of their tallies) / n -/
theorem mass_eq (ks : List (Nat × Nat)) (c : LCtr) (n : Nat) :
    (ks.filterMap fun lk => if lk.2 == 0 then none
      else some (ratNOps.divNat (ratNOps.ratio (ctrGet c (some lk.1)) n) lk.2 * (lk.2 : Rat))).sum =
      (((countedOf ks c).sum : Nat) : Rat) / (n : Rat) := by
  rw [← sum_natCast_div]
  unfold countedOf
  induction ks with
  | nil => simp
  | cons a r ih =>
    by_cases h : a.2 == 0
    · simp only [List.filterMap_cons, h, if_true, ih]
    · have h' : (a.2 == 0) = false := by simpa using h
      have hne : ((a.2 : Nat) : Rat) ≠ 0 := by
        intro e
        have := Rat.natCast_eq_zero_iff.mp e
        simp [this] at h
      simp only [List.filterMap_cons, h', Bool.false_eq_true, if_false, List.sum_cons, List.map_cons, ih]
      congr 1
      exact Rat.div_mul_cancel hne

theorem countedOf_sum_le (ks : List (Nat × Nat)) (c : LCtr) :
    (countedOf ks c).sum ≤ (ks.map fun lk => ctrGet c (some lk.1)).sum := by
  unfold countedOf
  induction ks with
  | nil => simp
  | cons a r ih =>
    by_cases h : a.2 == 0
    · simp only [List.filterMap_cons, h, if_true, List.map_cons, List.sum_cons]
      omega
    · have h' : (a.2 == 0) = false := by simpa using h
      simp only [List.filterMap_cons, h', Bool.false_eq_true, if_false, List.map_cons, List.sum_cons]
      omega

theorem natCast_div_le_one (a n : Nat) (h : a ≤ n) (hn : 0 < n) : ((a : Nat) : Rat) / (n : Rat) ≤ 1 := by
  have hnpos : (0 : Rat) < (n : Rat) := Rat.natCast_pos.mpr hn
  have hle : ((a : Nat) : Rat) ≤ (n : Rat) := Rat.natCast_le_natCast.mpr h
  have hinv : (0 : Rat) ≤ (n : Rat)⁻¹ := Rat.le_of_lt (Rat.inv_pos.mpr hnpos)
  have := Rat.mul_le_mul_of_nonneg_right hle hinv
  rw [Rat.mul_inv_cancel _ (Rat.ne_of_gt hnpos)] at this
  rw [Rat.div_def]
  exact this

end Omen

namespace Omen

theorem bump_total (k : Option Nat) (c : LCtr) : ((bump k c).map (·.2)).sum = (c.map (·.2)).sum + 1 := by
  induction c with
  | nil => simp [bump]
  | cons e r ih =>
    obtain ⟨a, n⟩ := e
    unfold bump
    by_cases h : a == k
    · simp only [h, if_true, List.map_cons, List.sum_cons]; omega
    · have h' : (a == k) = false := by simpa using h
      simp only [h', Bool.false_eq_true, if_false, List.map_cons, List.sum_cons, ih]; omega

/-- every password of the list is tallied exactly once in the third pass (under its level, or under −1) -/
theorem levelsCount_total (t : TTables) (pws : List Str) : ((t.levelsCount pws).map (·.2)).sum = pws.length := by
  unfold TTables.levelsCount
  have h : ∀ (ps : List Str) (c : LCtr),
      ((ps.foldl (fun c pw => bump (t.trainerLevel pw) c) c).map (·.2)).sum = (c.map (·.2)).sum + ps.length := by
    intro ps
    induction ps with
    | nil => intro c; simp
    | cons p r ih =>
      intro c
      simp only [List.foldl_cons, List.length_cons]
      rw [ih, bump_total]
      omega
  rw [h pws []]
  simp

end Omen

namespace Omen

/-- the keyspace file lists every level of the keyspace counter once -/
theorem keyspaceFile_perm (ks : List (Nat × Nat)) : (keyspaceFile ks).Perm ks := by
  unfold keyspaceFile
  exact (List.reverse_perm _).trans (List.mergeSort_perm ks _)

/-- every level that receives a probability (hence every level the guesser can be inside) has its line in the keyspace file -/
theorem prob_level_in_keyspaceFile {Q : Type} (O : NOps Q) (ks : List (Nat × Nat)) (c : LCtr) (n : Nat) (level : Nat) (p : Q)
    (h : (level, p) ∈ omenProbs O ks c n) : ∃ k, (level, k) ∈ keyspaceFile ks := by
  obtain ⟨k, hk, _, _⟩ := (omenProbs_mem O ks c n level p).1 h
  exact ⟨k, (keyspaceFile_perm ks).mem_iff.mpr hk⟩

end Omen
