import PcfgVerif.Model.Grid
/-! Helper lemmas for C13 (the scorer's promise), part 1: products in a commutative monoid with an
absorbing zero, as left folds over lists. -/
namespace Pcfg.ScoreB

/-- the laws of `CMon` on raw operations (the structure `CMon` lives in the statements file) -/
structure Laws {P : Type} (mul : P → P → P) (one zero : P) : Prop where
  mul_comm : ∀ a b, mul a b = mul b a
  mul_assoc : ∀ a b c, mul (mul a b) c = mul a (mul b c)
  one_mul : ∀ a, mul one a = a
  zero_mul : ∀ a, mul zero a = zero

/-- product of a list as the left fold the Python code performs -/
def prodL {P : Type} (mul : P → P → P) (one : P) (l : List P) : P := l.foldl mul one

section
variable {P : Type} {mul : P → P → P} {one zero : P} (L : Laws mul one zero)
include L

theorem Laws.mul_one (a : P) : mul a one = a := by rw [L.mul_comm, L.one_mul]

theorem Laws.mul_zero (a : P) : mul a zero = zero := by rw [L.mul_comm, L.zero_mul]

theorem Laws.mul_ne_zero {a b : P} (h : mul a b ≠ zero) : a ≠ zero ∧ b ≠ zero := by
  constructor
  · intro ha; exact h (by rw [ha, L.zero_mul])
  · intro hb; exact h (by rw [hb, L.mul_zero])

theorem foldl_mul (l : List P) (a : P) : l.foldl mul a = mul a (prodL mul one l) := by
  unfold prodL
  induction l generalizing a with
  | nil => simp [L.mul_one]
  | cons x xs ih =>
    simp only [List.foldl_cons]
    rw [ih (mul a x), ih (mul one x), L.one_mul, L.mul_assoc]

omit L in
theorem prodL_nil : prodL mul one [] = one := rfl

theorem prodL_cons (x : P) (xs : List P) : prodL mul one (x :: xs) = mul x (prodL mul one xs) := by
  show (x :: xs).foldl mul one = _
  rw [List.foldl_cons, foldl_mul L, L.one_mul]

theorem prodL_perm {l1 l2 : List P} (h : l1.Perm l2) : prodL mul one l1 = prodL mul one l2 := by
  unfold prodL
  refine h.foldl_eq' ?_ one
  intro x _ y _ z
  rw [L.mul_assoc, L.mul_assoc, L.mul_comm x y]

theorem prodL_ne_zero {l : List P} (h : prodL mul one l ≠ zero) : ∀ x ∈ l, x ≠ zero := by
  induction l with
  | nil => intro x hx; cases hx
  | cons y ys ih =>
    rw [prodL_cons L] at h
    have h2 := L.mul_ne_zero h
    intro x hx
    rcases List.mem_cons.mp hx with rfl | hx
    · exact h2.1
    · exact ih h2.2 x hx

/-- the scorer's per-category loop is a product of looked-up factors -/
theorem foldl_look {α : Type} (f : α → P) (items : List α) (acc : P) :
    items.foldl (fun a v => mul a (f v)) acc = mul acc (prodL mul one (items.map f)) := by
  rw [← foldl_mul L, List.foldl_map]

omit L in
/-- `_find_prob` when every chosen index is in range: one step of the fold -/
theorem probFold_cons_some (le : P → P → Bool) (acc p : P) (c : List P) (cs : List (List P)) (i : Nat)
    (is : List Nat) (h : c[i]? = some p) :
    probFold ⟨le, mul⟩ acc (c :: cs) (i :: is) = probFold ⟨le, mul⟩ (mul acc p) cs is := by
  rw [probFold, h]

end

end Pcfg.ScoreB
