import PcfgVerif.Lemmas.ScoreA2
import PcfgVerif.Lemmas.DetectC4
/-! Lemmas for `ScoreStatementsA`, part 3: the alpha detector.  The detector reports (words, masks);
`detectAlphaR` is the same detector reporting one record (section text, word, mask) per word, from
which the reported lists are recovered by projection. -/
namespace Pcfg.Detect

/-- the records behind `detectAlpha.build` -/
def buildRecs (U : UEnv) (text : CPs) : List CPs → Nat → List AlphaRec
  | [], _ => []
  | w :: ws, cur =>
    ⟨slice text cur (cur + w.length), w, maskOfCP U (slice text cur (cur + w.length))⟩ ::
      buildRecs U text ws (cur + w.length)

/-- the section an alpha record stands for -/
def recSec (r : AlphaRec) : Sec := (r.orig, some (lbl 'A' r.word.length))

theorem build_eq_recs (U : UEnv) (text : CPs) (words : List CPs) (cur : Nat) :
    detectAlpha.build U text words cur =
      ((buildRecs U text words cur).map recSec, (buildRecs U text words cur).map (·.mask)) := by
  induction words generalizing cur with
  | nil => rfl
  | cons w ws ih =>
    rw [build_cons, ih]
    simp [buildRecs, recSec, maskOfCP]

theorem buildRecs_words (U : UEnv) (text : CPs) (words : List CPs) (cur : Nat) :
    (buildRecs U text words cur).map (·.word) = words := by
  induction words generalizing cur with
  | nil => rfl
  | cons w ws ih => simp [buildRecs, ih]

/-- `detectAlpha` reporting records -/
def detectAlphaR (U : UEnv) (cfg : MWCfg) (t : MWTable) (text : CPs) :
    Option (List Sec × List AlphaRec) :=
  match firstRun U.isAlpha (U.lowerS text) with
  | none => none
  | some (s, _) => (detectAlpha U cfg t text).map fun x => (x.1, buildRecs U text x.2.1 s)

/-- what the real detector reports, from the records -/
def recsOut (recs : List AlphaRec) : List CPs × List CPs := (recs.map (·.word), recs.map (·.mask))

theorem detectAlpha_eq_map (U : UEnv) (cfg : MWCfg) (t : MWTable) (text : CPs) :
    detectAlpha U cfg t text = (detectAlphaR U cfg t text).map fun x => (x.1, recsOut x.2) := by
  unfold detectAlphaR
  cases hda : detectAlpha U cfg t text with
  | none => split <;> rfl
  | some x =>
    obtain ⟨pieces, words, masks⟩ := x
    obtain ⟨s, e, hfr, _, hm, _⟩ := detectAlpha_inv U cfg t text pieces words masks hda
    rw [hfr]
    simp only [Option.map_some, recsOut, buildRecs_words]
    rw [hm, build_eq_recs]

theorem detectAlphaR_spec (U : UEnv) (cfg : MWCfg) (t : MWTable) (text : CPs)
    (pieces : List Sec) (recs : List AlphaRec) (h : detectAlphaR U cfg t text = some (pieces, recs)) :
    ∃ s e words, detectAlpha U cfg t text = some (pieces, (words, recs.map (·.mask))) ∧
      recs = buildRecs U text words s ∧
      firstRun U.isAlpha (U.lowerS text) = some (s, e) ∧
      words = (mwParse cfg t (slice (U.lowerS text) s (e + 1))).2 ∧
      pieces = (if s != 0 then [((text.take s, none) : Sec)] else []) ++
        (recs.map recSec ++
        (if e != text.length - 1 then [((text.drop (e + 1), none) : Sec)] else [])) := by
  have hmap := detectAlpha_eq_map U cfg t text
  rw [h] at hmap
  simp only [Option.map_some, recsOut] at hmap
  obtain ⟨s, e, hfr, hw, hm, hp⟩ := detectAlpha_inv U cfg t text pieces _ _ hmap
  unfold detectAlphaR at h
  rw [hfr, hmap] at h
  simp only [Option.map_some, Option.some.injEq, Prod.mk.injEq, true_and] at h
  refine ⟨s, e, recs.map (·.word), hmap, h.symm, hfr, hw, ?_⟩
  rw [hp, build_eq_recs, h]

/-! ## category bookkeeping -/

theorem textsOf_recSec (recs : List AlphaRec) (c : Char) :
    textsOf (recs.map recSec) c = if c = 'A' then recs.map (·.orig) else [] := by
  induction recs with
  | nil => simp [textsOf_nil]
  | cons r rs ih =>
    rw [List.map_cons, textsOf_cons, ih]
    simp only [recSec, labelCat_lbl]
    by_cases hc : c = 'A'
    · subst hc; simp
    · have : ¬ 'A' = c := fun e => hc e.symm
      simp [hc, this]

theorem textsOf_ite_none (c1 : Prop) [Decidable c1] (a : CPs) (c : Char) :
    textsOf (if c1 then [((a, none) : Sec)] else []) c = [] := by
  split
  · rw [textsOf_cons_none]; rfl
  · rfl

theorem detectAlphaR_only (U : UEnv) (cfg : MWCfg) (t : MWTable) :
    ProducesOnly (detectAlphaR U cfg t) 'A' := by
  intro text pieces recs h
  obtain ⟨s, e, words, _, _, _, _, rfl⟩ := detectAlphaR_spec U cfg t text pieces recs h
  intro p hp
  simp only [List.mem_append, List.mem_map] at hp
  rcases hp with hp | ⟨r, _, rfl⟩ | hp
  · split at hp
    · simp only [List.mem_singleton] at hp; subst hp; exact Or.inl rfl
    · cases hp
  · exact Or.inr (labelCat_lbl _ _)
  · split at hp
    · simp only [List.mem_singleton] at hp; subst hp; exact Or.inl rfl
    · cases hp

theorem detectAlphaR_texts (U : UEnv) (cfg : MWCfg) (t : MWTable) (text : CPs)
    (pieces : List Sec) (recs : List AlphaRec) (h : detectAlphaR U cfg t text = some (pieces, recs)) :
    (recs.map (·.orig)).Perm (textsOf pieces 'A') := by
  obtain ⟨s, e, words, _, _, _, _, rfl⟩ := detectAlphaR_spec U cfg t text pieces recs h
  rw [textsOf_append, textsOf_append, textsOf_ite_none, textsOf_ite_none, textsOf_recSec]
  simp

/-! ## tiling -/

theorem detectAlphaR_ok (U : UEnv) (cfg : MWCfg) (t : MWTable) : DetectorOK U (detectAlphaR U cfg t) := by
  intro text pieces recs _ hl h
  obtain ⟨_, _, words, hda, _, _, _, _⟩ := detectAlphaR_spec U cfg t text pieces recs h
  obtain ⟨s, e, he, hlen, hwne, hw, _, hp⟩ := detectAlpha_geom U cfg t text hl pieces words _ hda
  subst hp
  refine ⟨?_, ?_⟩
  · intro h0
    have h1 := congrArg List.length h0
    simp only [List.length_append, (build_length U text words s).1, List.length_nil] at h1
    have := List.length_pos_iff.mpr hwne
    omega
  · apply tiles_prefix U text s (by omega)
    apply build_tiles U text words s _ (fun w hw' => (hw w hw').1) (by omega)
    rw [hlen]
    exact tiles_suffix U text e he

/-! ## the records -/

theorem slice_split (w : CPs) (cur n m : Nat) :
    slice w cur (cur + (n + m)) = slice w cur (cur + n) ++ slice w (cur + n) (cur + n + m) := by
  simp only [slice, Nat.add_sub_cancel_left]
  rw [List.take_add, List.drop_drop]

/-- per record: the mask is the mask of the section text, the word has the length of the section
text and is the slice of the lower-cased enclosing text at the same offsets -/
theorem buildRecs_spec (U : UEnv) (text w : CPs) (hwl : w.length = text.length) :
    ∀ (words : List CPs) (cur : Nat), cur + words.flatten.length ≤ text.length →
      slice w cur (cur + words.flatten.length) = words.flatten →
      ∀ r ∈ buildRecs U text words cur,
        r.mask = maskOfCP U r.orig ∧ r.word.length = r.orig.length ∧
        ∃ off, r.orig = slice text off (off + r.orig.length) ∧
          r.word = slice w off (off + r.orig.length)
  | [], _, _, _, r, hr => by simp [buildRecs] at hr
  | a :: ws, cur, hle, heq, r, hr => by
    simp only [List.flatten_cons, List.length_append] at hle heq
    rw [slice_split] at heq
    have hl1 : (slice w cur (cur + a.length)).length = a.length := by
      rw [slice_length_of_le _ _ _ (by omega) (by omega)]; omega
    obtain ⟨e1, e2⟩ := List.append_inj heq hl1
    have hol : (slice text cur (cur + a.length)).length = a.length := by
      rw [slice_length_of_le _ _ _ (by omega) (by omega)]; omega
    simp only [buildRecs, List.mem_cons] at hr
    rcases hr with rfl | hr
    · refine ⟨rfl, hol.symm, cur, ?_, ?_⟩
      · simp only [hol]
      · simp only [hol]; exact e1.symm
    · exact buildRecs_spec U text w hwl ws (cur + a.length) (by omega) e2 r hr

/-- what is known of a record -/
def RecOK (U : UEnv) (pw : CPs) (r : AlphaRec) : Prop :=
  r.mask = maskOfCP U r.orig ∧ r.word.length = r.orig.length ∧ LowerOf U pw r.orig r.word

theorem detectAlphaR_step (U : UEnv) (cfg : MWCfg) (t : MWTable) (pw text : CPs)
    (pieces : List Sec) (recs : List AlphaRec) (hl : LenPres U text)
    (hs : ∃ a b, text = slice pw a b) (h : detectAlphaR U cfg t text = some (pieces, recs)) :
    (∀ p ∈ pieces, SecOK p) ∧ ∀ r ∈ recs, RecOK U pw r := by
  obtain ⟨s, e, words, hda, hrecs, hfr, hw, hp⟩ := detectAlphaR_spec U cfg t text pieces recs h
  obtain ⟨run, _, hlen, he, hsl, _, _, _, _, _⟩ := firstRun_spec _ _ _ _ hfr
  have hwl := lenPres_lower U text hl
  rw [hsl] at hw
  have hflat : words.flatten = run := by rw [hw]; exact mwParse_flatten cfg t run
  have hspec := buildRecs_spec U text (U.lowerS text) hwl words s (by rw [hflat]; omega)
    (by rw [hflat, hlen]; exact hsl)
  rw [← hrecs] at hspec
  have hrec : ∀ r ∈ recs, RecOK U pw r := by
    intro r hr
    obtain ⟨h1, h2, off, h3, h4⟩ := hspec r hr
    obtain ⟨a, b, hab⟩ := hs
    refine ⟨h1, h2, a, b, off, ?_, ?_⟩
    · rw [← hab]; exact h3
    · rw [← hab]; exact h4
  refine ⟨?_, hrec⟩
  subst hp
  intro p hp
  simp only [List.mem_append, List.mem_map] at hp
  rcases hp with hp | ⟨r, hr, rfl⟩ | hp
  · split at hp
    · simp only [List.mem_singleton] at hp; subst hp; exact secOK_none _
    · cases hp
  · refine Or.inr ⟨_, rfl, ?_, fun e => absurd e (lbl_ne_Y1 _ _ (by decide))⟩
    have := (hrec r hr).2.1
    simp only [recSec, this]
    simp [LabelOK]
  · split at hp
    · simp only [List.mem_singleton] at hp; subst hp; exact secOK_none _
    · cases hp

end Pcfg.Detect
