import PcfgVerif.Lemmas.ExpandLemmas
import PcfgVerif.Model.GridSpec
/-! Helper lemmas for the end-to-end links of C03 (`Properties/ReproStatements.lean`). -/
namespace Pcfg

namespace Frag
open Generated.Expand
theorem maskKeeps_eq (c : Char) : maskKeeps c = (c == 'L') := rfl
theorem maskKeeps_L : maskKeeps 'L' = true := by rw [maskKeeps_eq]; decide
theorem maskKeeps_U : maskKeeps 'U' = false := by rw [maskKeeps_eq]; decide
theorem isMarkov_C : isMarkov 'C' = false := by rw [isMarkov_eq]; decide
theorem isCase_C : isCase 'C' = true := by rw [isCase_eq]; decide
end Frag

/-! ## Splitting off the word that was just appended -/

theorem splitTail_append (cur lw : Str) (h : lw ≠ []) :
    splitTail (cur ++ lw) lw.length = (cur, lw) := by
  have hl : lw.length ≠ 0 := by
    intro h0; exact h (List.length_eq_zero_iff.mp h0)
  unfold splitTail
  have : (lw.length == 0) = false := by simpa using hl
  rw [this]
  simp

/-! ## One step of `productSpec` -/

theorem combine_plain (upper : Char → List Char) (cat : Char) (first cur v : Str)
    (hc : Generated.Expand.isCase cat = false) :
    combine upper cat first cur v = some (cur ++ v) := by
  simp [combine, hc]

theorem combine_case (upper : Char → List Char) (first cur lw v r : Str)
    (hlen : first.length = lw.length) (hne : lw ≠ [])
    (hm : applyMask upper lw v Generated.Expand.maskStart = some r) :
    combine upper 'C' first (cur ++ lw) v = some (cur ++ r) := by
  simp [combine, Frag.isCase_C, hlen, splitTail_append cur lw hne, hm]

theorem mem_productSpec_cons (upper : Char → List Char) (g : EGrammar) (cur cur' v x : Str)
    (t : String) (i : Nat) (rest : PT) (cat : Char) (vals : List Str)
    (hcat : t.toList.head? = some cat) (hv : g.values t i = some vals) (hmem : v ∈ vals)
    (hcomb : combine upper cat (vals.headD []) cur v = some cur')
    (hx : x ∈ productSpec upper g cur' rest) :
    x ∈ productSpec upper g cur ((t, i) :: rest) := by
  rw [productSpec, hcat, hv]
  simp only [List.mem_flatMap]
  exact ⟨v, hmem, by rw [hcomb]; exact hx⟩

/-! ## Sums over `Rat` -/

theorem sum_map_mul_left {α : Type} (l : List α) (f : α → Rat) (a : Rat) :
    (l.map fun x => a * f x).sum = a * (l.map f).sum := by
  induction l with
  | nil => simp
  | cons x xs ih => simp only [List.map_cons, List.sum_cons, ih, Rat.mul_add]

theorem sum_map_mul_right {α : Type} (l : List α) (f : α → Rat) (a : Rat) :
    (l.map fun x => f x * a).sum = (l.map f).sum * a := by
  induction l with
  | nil => simp
  | cons x xs ih => simp only [List.map_cons, List.sum_cons, ih, Rat.add_mul]

theorem sum_append_rat (l₁ l₂ : List Rat) : (l₁ ++ l₂).sum = l₁.sum + l₂.sum := by
  induction l₁ with
  | nil => simp [Rat.zero_add]
  | cons x xs ih => simp only [List.cons_append, List.sum_cons, ih, Rat.add_assoc]

theorem sum_map_flatMap {α β : Type} (l : List α) (k : α → List β) (f : β → Rat) :
    ((l.flatMap k).map f).sum = (l.map fun a => ((k a).map f).sum).sum := by
  induction l with
  | nil => simp
  | cons x xs ih =>
    simp only [List.flatMap_cons, List.map_append, sum_append_rat, ih, List.map_cons, List.sum_cons]

/-- summing over the indices of a list is summing over the list -/
theorem sum_range_getElem? {α : Type} (l : List α) (f : Option α → Rat) :
    ((List.range l.length).map fun i => f l[i]?).sum = (l.map fun x => f (some x)).sum := by
  induction l with
  | nil => simp
  | cons x xs ih =>
    rw [List.length_cons, List.range_succ_eq_map]
    simp only [List.map_cons, List.sum_cons, List.map_map, List.getElem?_cons_zero]
    rw [← ih]
    rfl

theorem prod_ones (l : List Rat) (h : ∀ x ∈ l, x = 1) : l.prod = 1 := by
  induction l with
  | nil => simp
  | cons x xs ih =>
    rw [List.prod_cons, h x (by simp), ih (fun y hy => h y (by simp [hy])), Rat.mul_one]

end Pcfg
