import PcfgVerif.Model.OmenTrainer
/-!
# OMEN trainer, part A: `calcKeyspace` and the scorer's walk
-/
namespace Omen

theorem calcKeyspace_spec_core (t : TTables) (maxKeyspace : Nat) : ∀ (fuel first : Nat),
    (∀ p ∈ t.calcKeyspace maxKeyspace fuel first, p.2 = t.levelKeyspace p.1) ∧
    (t.calcKeyspace maxKeyspace fuel first).map (·.1) =
      (List.range (t.calcKeyspace maxKeyspace fuel first).length).map (· + first) ∧
    (∀ (i : Nat) p, (t.calcKeyspace maxKeyspace fuel first)[i]? = some p →
      i + 1 < (t.calcKeyspace maxKeyspace fuel first).length → p.2 ≤ maxKeyspace) := by
  intro fuel
  induction fuel with
  | zero => intro first; simp [TTables.calcKeyspace]
  | succ fuel ih =>
    intro first
    obtain ⟨h1, h2, h3⟩ := ih (first + 1)
    unfold TTables.calcKeyspace
    simp only []
    by_cases hk : t.levelKeyspace first > maxKeyspace
    · rw [if_pos hk]
      simp
    · rw [if_neg hk]
      refine ⟨?_, ?_, ?_⟩
      · intro p hp
        rcases List.mem_cons.1 hp with rfl | hp
        · rfl
        · exact h1 p hp
      · simp only [List.map_cons, List.length_cons, List.range_succ_eq_map, List.map_map, h2,
          Nat.zero_add, List.cons.injEq, true_and]
        apply List.map_congr_left
        intro a _
        simp only [Function.comp_apply]
        omega
      · intro i p hp hi
        cases i with
        | zero =>
          simp only [List.getElem?_cons_zero, Option.some.injEq] at hp
          subst hp
          simp only []
          omega
        | succ j =>
          simp only [List.getElem?_cons_succ] at hp
          simp only [List.length_cons] at hi
          exact h3 j p hp (by omega)

end Omen

namespace Omen

theorem scorerCp_snoc (t : TTables) (ip : Str) (c : Char) :
    t.scorerCp (ip ++ [c]) = match t.entry ip with
      | none => none
      | some e => e.letter c := by
  unfold TTables.scorerCp
  simp only [List.dropLast_concat, List.getLast?_concat]
  cases t.entry ip <;> rfl

theorem scorerChain_eq_chain (t : TTables) (hn : 2 ≤ t.ngram) (s : Str) :
    ∀ (body : List Char) (fuel : Nat) (pre ip : Str), ip.length = t.ngram - 1 →
      s = pre ++ ip ++ body → body.length ≤ fuel →
      t.scorerChain s fuel (pre.length + t.ngram) = t.chain ip body := by
  intro body
  induction body with
  | nil =>
    intro fuel pre ip hip hs _
    have hlen : s.length = pre.length + (t.ngram - 1) := by simp [hs, hip]
    cases fuel with
    | zero => simp [TTables.scorerChain, TTables.chain]
    | succ f =>
      rw [TTables.scorerChain, if_neg (by omega)]
      simp [TTables.chain]
  | cons c cs ih =>
    intro fuel pre ip hip hs hf
    have hlen : s.length = pre.length + (t.ngram - 1) + (cs.length + 1) := by simp [hs, hip]; omega
    cases fuel with
    | zero => simp at hf
    | succ f =>
      have hip1 : ip = ip.take 1 ++ ip.drop 1 := (List.take_append_drop 1 ip).symm
      have hnext := ih f (pre ++ ip.take 1) (nextIp ip c)
        (by simp [nextIp, hip]; omega)
        (by rw [hs]; simp only [nextIp, List.append_assoc, List.cons_append, List.nil_append,
              List.append_cancel_left_eq]
            rw [← List.append_assoc, List.take_append_drop])
        (by simp only [List.length_cons] at hf; omega)
      have hpl : (pre ++ ip.take 1).length + t.ngram = pre.length + t.ngram + 1 := by
        simp only [List.length_append, List.length_take, hip]; omega
      rw [hpl] at hnext
      have hgram : (s.drop (pre.length + t.ngram - t.ngram)).take t.ngram = ip ++ [c] := by
        rw [Nat.add_sub_cancel, hs, List.append_assoc, List.drop_left]
        have : t.ngram = ip.length + 1 := by omega
        rw [this, List.take_append, List.take_of_length_le (Nat.le_succ _)]
        simp
      rw [TTables.scorerChain, if_pos (by omega), hgram, hnext, scorerCp_snoc, TTables.chain]
      cases t.entry ip <;> rfl

theorem scorerLevel_eq_trainerLevel_core (t : TTables) (hn : 2 ≤ t.ngram) (s : Str) :
    t.scorerLevel s = t.trainerLevel s := by
  unfold TTables.scorerLevel TTables.trainerLevel
  by_cases hc : (s.length < t.ngram || s.length > t.lns.length) = true
  · rw [if_pos hc, if_pos hc]
  · rw [if_neg hc, if_neg hc]
    simp only [Bool.or_eq_true, decide_eq_true_eq, not_or, Nat.not_lt] at hc
    have := scorerChain_eq_chain t hn s (s.drop (t.ngram - 1)) (s.length + 1) [] (s.take (t.ngram - 1))
      (by simp; omega) (by simp) (by simp; omega)
    simp only [List.length_nil, Nat.zero_add] at this
    rw [this]

end Omen
