import PcfgVerif.Lemmas.DetectC1
/-! Lemmas for DetectStatementsC, part 2: `identifyMulti`, `mwParse`. -/

namespace Pcfg.Detect


/-- one step of `identifyMulti` -/
def imStep (cfg : MWCfg) (t : MWTable) (s : CPs) (rec : CPs → Option (List CPs)) (i : Nat) :
    Option (List CPs) :=
  if mwCount t (s.take i) ≥ cfg.threshold then
    if mwCount t (s.drop i) ≥ cfg.threshold then some [s.take i, s.drop i]
    else (rec (s.drop i)).map fun r => s.take i :: r
  else none

def imIdxs (cfg : MWCfg) (s : CPs) : List Nat :=
  (List.range (s.length - cfg.minLen + 1)).reverse.filter fun i => decide (cfg.minLen ≤ i)

theorem identifyMulti_succ (cfg : MWCfg) (t : MWTable) (fuel : Nat) (s : CPs) :
    identifyMulti cfg t (fuel + 1) s =
      (imIdxs cfg s).findSome? (imStep cfg t s (identifyMulti cfg t fuel)) := rfl

theorem mem_imIdxs (cfg : MWCfg) (s : CPs) (i : Nat) :
    i ∈ imIdxs cfg s ↔ cfg.minLen ≤ i ∧ i ≤ s.length - cfg.minLen := by
  simp [imIdxs]; omega

theorem identifyMulti_spec (cfg : MWCfg) (t : MWTable) (fuel : Nat) :
    ∀ (s : CPs) (r : List CPs), identifyMulti cfg t fuel s = some r →
      r.flatten = s ∧ 2 ≤ r.length ∧
      (∀ w ∈ r, cfg.threshold ≤ mwCount t w ∧ cfg.minLen ≤ w.length) := by
  induction fuel with
  | zero => intro s r h; cases h
  | succ n ih =>
    intro s r h
    rw [identifyMulti_succ] at h
    obtain ⟨i, hi, hfi⟩ := List.exists_of_findSome?_eq_some h
    rw [mem_imIdxs] at hi
    unfold imStep at hfi
    split at hfi
    · rename_i h1
      split at hfi
      · rename_i h2
        cases hfi
        refine ⟨by simp, by simp, ?_⟩
        intro w hw
        simp only [List.mem_cons, List.not_mem_nil, or_false] at hw
        rcases hw with rfl | rfl
        · exact ⟨h1, by simp; omega⟩
        · exact ⟨h2, by simp; omega⟩
      · cases hrec : identifyMulti cfg t n (s.drop i) with
        | none => rw [hrec] at hfi; cases hfi
        | some r' =>
          rw [hrec] at hfi
          cases hfi
          obtain ⟨a, b, c⟩ := ih _ _ hrec
          refine ⟨by simp [a], by simp; omega, ?_⟩
          intro w hw
          rcases List.mem_cons.mp hw with rfl | hw
          · exact ⟨h1, by simp; omega⟩
          · exact c w hw
    · cases hfi


theorem mwParse_cases (cfg : MWCfg) (t : MWTable) (s : CPs) :
    (mwParse cfg t s).2 = [s] ∨
    (mwCount t s < cfg.threshold ∧ ∃ r, identifyMulti cfg t (s.length + 1) s = some r ∧
      (mwParse cfg t s).2 = r) := by
  unfold mwParse
  split
  · exact .inl rfl
  · split
    · exact .inl rfl
    · split
      · exact .inl rfl
      · split
        · exact .inl rfl
        · rename_i h _
          split
          · exact .inl rfl
          · rename_i r hr
            exact .inr ⟨by omega, r, hr, rfl⟩

theorem mwParse_flatten (cfg : MWCfg) (t : MWTable) (s : CPs) : (mwParse cfg t s).2.flatten = s := by
  rcases mwParse_cases cfg t s with h | ⟨_, r, hr, h⟩
  · rw [h]; simp
  · rw [h]; exact (identifyMulti_spec cfg t _ s r hr).1

theorem mwParse_ne_nil (cfg : MWCfg) (t : MWTable) (s : CPs) : (mwParse cfg t s).2 ≠ [] := by
  rcases mwParse_cases cfg t s with h | ⟨_, r, hr, h⟩
  · rw [h]; simp
  · rw [h]; intro h0
    have := (identifyMulti_spec cfg t _ s r hr).2.1
    rw [h0] at this; simp at this

theorem mwParse_concat' (cfg : MWCfg) (t : MWTable) (s : CPs) (hs : s ≠ []) (hmin : 0 < cfg.minLen) :
    (mwParse cfg t s).2.flatten = s ∧ ∀ w ∈ (mwParse cfg t s).2, w ≠ [] := by
  refine ⟨mwParse_flatten cfg t s, ?_⟩
  rcases mwParse_cases cfg t s with h | ⟨_, r, hr, h⟩
  · rw [h]; simpa using hs
  · rw [h]
    intro w hw h0
    have := ((identifyMulti_spec cfg t _ s r hr).2.2 w hw).2
    rw [h0] at this; simp at this; omega

theorem mwParse_sound' (cfg : MWCfg) (t : MWTable) (s : CPs) (h : 1 < (mwParse cfg t s).2.length) :
    mwCount t s < cfg.threshold ∧
    ∀ w ∈ (mwParse cfg t s).2, cfg.threshold ≤ mwCount t w ∧ cfg.minLen ≤ w.length := by
  rcases mwParse_cases cfg t s with h' | ⟨hc, r, hr, h'⟩
  · rw [h'] at h; simp at h
  · rw [h']
    exact ⟨hc, (identifyMulti_spec cfg t _ s r hr).2.2⟩



theorem imStep_isSome_mono (cfg : MWCfg) (t : MWTable) (s : CPs) (f g : CPs → Option (List CPs))
    (hfg : ∀ x, (f x).isSome = true → (g x).isSome = true) (i : Nat)
    (h : (imStep cfg t s f i).isSome = true) : (imStep cfg t s g i).isSome = true := by
  unfold imStep at h ⊢
  split
  · rename_i h1
    rw [if_pos h1] at h
    split
    · rfl
    · rename_i h2
      rw [if_neg h2] at h
      simp only [Option.isSome_map] at h ⊢
      exact hfg _ h
  · rename_i h1
    rw [if_neg h1] at h; cases h

theorem identifyMulti_mono (cfg : MWCfg) (t : MWTable) (n : Nat) :
    ∀ s, (identifyMulti cfg t n s).isSome = true → (identifyMulti cfg t (n + 1) s).isSome = true := by
  induction n with
  | zero => intro s h; cases h
  | succ n ih =>
    intro s h
    rw [identifyMulti_succ] at h ⊢
    rw [List.findSome?_isSome_iff] at h ⊢
    obtain ⟨i, hi, hs⟩ := h
    exact ⟨i, hi, imStep_isSome_mono cfg t s _ _ ih i hs⟩

theorem imIdxs_pairwise (cfg : MWCfg) (s : CPs) : (imIdxs cfg s).Pairwise (· > ·) := by
  unfold imIdxs
  apply List.Pairwise.filter
  rw [List.pairwise_reverse]
  exact List.pairwise_lt_range

/-- with `mwCount t s < threshold`, a successful `identifyMulti` never yields an empty word,
and the successful split index is strictly inside -/
theorem identifyMulti_nonempty (cfg : MWCfg) (t : MWTable) (n : Nat) :
    ∀ (s : CPs) (r : List CPs), mwCount t s < cfg.threshold →
      identifyMulti cfg t (n + 1) s = some r →
      (∀ w ∈ r, w ≠ []) ∧
      ∃ i ∈ imIdxs cfg s, 0 < i ∧ (imStep cfg t s (identifyMulti cfg t n) i).isSome = true := by
  induction n with
  | zero =>
    intro s r hc h
    rw [identifyMulti_succ] at h
    obtain ⟨i, hi, hfi⟩ := List.exists_of_findSome?_eq_some h
    have hi' := (mem_imIdxs cfg s i).mp hi
    unfold imStep at hfi
    split at hfi
    · rename_i h1
      split at hfi
      · rename_i h2
        cases hfi
        have hi0 : i ≠ 0 := by
          intro h0; subst h0; simp at h2; omega
        have hil : i ≠ s.length := by
          intro h0; subst h0; simp at h1; omega
        have hil' : i ≤ s.length := by omega
        refine ⟨?_, i, hi, by omega, ?_⟩
        · intro w hw
          simp only [List.mem_cons, List.not_mem_nil, or_false] at hw
          rcases hw with rfl | rfl
          · intro h0; have := congrArg List.length h0
            rw [List.length_take, List.length_nil] at this; omega
          · intro h0; have := congrArg List.length h0
            rw [List.length_drop, List.length_nil] at this; omega
        · unfold imStep; rw [if_pos h1, if_pos h2]; rfl
      · simp [identifyMulti] at hfi
    · cases hfi
  | succ n ih =>
    intro s r hc h
    rw [identifyMulti_succ] at h
    obtain ⟨l₁, i, l₂, hl, hfi, hbefore⟩ := List.findSome?_eq_some_iff.mp h
    have hi : i ∈ imIdxs cfg s := by rw [hl]; simp
    have hi' := (mem_imIdxs cfg s i).mp hi
    have hsome : (imStep cfg t s (identifyMulti cfg t (n + 1)) i).isSome = true := by rw [hfi]; rfl
    unfold imStep at hfi
    split at hfi
    · rename_i h1
      have hil : i ≠ s.length := by
        intro h0; subst h0; simp at h1; omega
      have hil' : i ≤ s.length := by omega
      have hi0 : i ≠ 0 := by
        intro h0
        subst h0
        -- then the recursive call on `s` itself succeeded, so an earlier index succeeds too
        have h2 : ¬ mwCount t (s.drop 0) ≥ cfg.threshold := by simp; omega
        rw [if_neg h2] at hfi
        cases hrec : identifyMulti cfg t (n + 1) (s.drop 0) with
        | none => rw [hrec] at hfi; cases hfi
        | some r' =>
          rw [List.drop_zero] at hrec
          obtain ⟨_, j, hj, hj0, hjs⟩ := ih s r' hc hrec
          have hjs' := imStep_isSome_mono cfg t s _ _ (identifyMulti_mono cfg t n) j hjs
          have hjl : j ∈ l₁ := by
            rw [hl] at hj
            rcases List.mem_append.mp hj with h | h
            · exact h
            · rcases List.mem_cons.mp h with h | h
              · omega
              · have hp := imIdxs_pairwise cfg s
                rw [hl, List.pairwise_append] at hp
                have := (List.pairwise_cons.mp hp.2.1).1 j h
                omega
          rw [hbefore j hjl] at hjs'
          cases hjs'
      have hne1 : s.take i ≠ [] := by
        intro h0; have := congrArg List.length h0
        rw [List.length_take, List.length_nil] at this; omega
      have hne2 : s.drop i ≠ [] := by
        intro h0; have := congrArg List.length h0
        rw [List.length_drop, List.length_nil] at this; omega
      refine ⟨?_, i, hi, by omega, hsome⟩
      split at hfi
      · cases hfi
        intro w hw
        simp only [List.mem_cons, List.not_mem_nil, or_false] at hw
        rcases hw with rfl | rfl
        · exact hne1
        · exact hne2
      · rename_i h2
        cases hrec : identifyMulti cfg t (n + 1) (s.drop i) with
        | none => rw [hrec] at hfi; cases hfi
        | some r' =>
          rw [hrec] at hfi
          cases hfi
          intro w hw
          rcases List.mem_cons.mp hw with rfl | hw
          · exact hne1
          · exact (ih _ r' (by omega) hrec).1 w hw
    · cases hfi

theorem mwParse_nonempty (cfg : MWCfg) (t : MWTable) (s : CPs) (hs : s ≠ []) :
    ∀ w ∈ (mwParse cfg t s).2, w ≠ [] := by
  rcases mwParse_cases cfg t s with h | ⟨hc, r, hr, h⟩
  · rw [h]; simpa using hs
  · rw [h]; exact (identifyMulti_nonempty cfg t _ s r hc hr).1


end Pcfg.Detect
