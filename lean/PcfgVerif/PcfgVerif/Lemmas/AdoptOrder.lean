import PcfgVerif.Lemmas.Adopt
/-! C01 core on the abstract adoption system: popping a maximal element yields a non-increasing trace -/
namespace Adopt
variable {α : Type} [DecidableEq α] (S : Sys α)

structure Weight (S : Sys α) (P : Type) where
  w : α → P
  le : P → P → Prop
  le_refl : ∀ a, le a a
  le_trans : ∀ a b c, le a b → le b c → le a c
  child_le : ∀ v p, S.adopter v = some p → le (w v) (w p)

variable {P : Type} (W : Weight S P)

/-- every queued item is ≤ every popped item, and the popped trace is non-increasing -/
structure OrdInv (s : St α) : Prop where
  q_le_p : ∀ q ∈ s.queue, ∀ p ∈ s.popped, W.le (W.w q) (W.w p)
  sorted : s.popped.Pairwise (fun a b => W.le (W.w b) (W.w a))

theorem ord_init : OrdInv S W S.init := ⟨by simp [Sys.init], by simp [Sys.init]⟩

theorem ord_step (s : St α) (x : α) (h : OrdInv S W s) (hx : x ∈ s.queue)
    (hmax : ∀ y ∈ s.queue, W.le (W.w y) (W.w x)) : OrdInv S W (S.step s x) := by
  refine ⟨?_, ?_⟩
  · intro q hq p hp
    simp only [Sys.step, List.mem_append, List.mem_singleton] at hq hp
    have hqx : W.le (W.w q) (W.w x) := by
      rcases hq with hq | hq
      · exact hmax q (List.mem_of_mem_erase hq)
      · simp only [Sys.children, List.mem_filter, decide_eq_true_eq] at hq
        exact W.child_le q x hq.2
    rcases hp with hp | hp
    · exact W.le_trans _ _ _ hqx (h.q_le_p x hx p hp)
    · subst hp; exact hqx
  · simp only [Sys.step]
    rw [List.pairwise_append]
    refine ⟨h.sorted, by simp, ?_⟩
    intro a ha b hb
    simp only [List.mem_singleton] at hb; subst hb
    exact h.q_le_p b hx a ha

end Adopt
