import PcfgVerif.Model.Trainer
/-!
# The PRINCE label counter of a training run is the tally of the section labels
-/
namespace Pcfg.Trainer
open Pcfg.Detect

/-- `counter[k]` (0 for a missing key) -/
def sget (c : SCtr) (k : String) : Nat :=
  match c.find? (·.1 == k) with
  | some e => e.2
  | none => 0

theorem sget_map_other (c : SCtr) (k k' : String) (h : (k == k') = false) :
    sget (c.map fun p => if p.1 == k then (p.1, p.2 + 1) else p) k' = sget c k' := by
  induction c with
  | nil => rfl
  | cons a r ih =>
    unfold sget at ih ⊢
    simp only [List.map_cons, List.find?_cons]
    by_cases h1 : a.1 == k
    · have hak : a.1 = k := by simpa using h1
      have h2 : (a.1 == k') = false := by rw [hak]; exact h
      simp only [h1, if_true, h2]
      exact ih
    · have h1' : (a.1 == k) = false := by simpa using h1
      simp only [h1', Bool.false_eq_true, if_false]
      by_cases h2 : a.1 == k'
      · simp [h2]
      · have h2' : (a.1 == k') = false := by simpa using h2
        simp only [h2']
        exact ih

theorem sget_map_same (c : SCtr) (k : String) (hany : c.any (·.1 == k) = true) :
    sget (c.map fun p => if p.1 == k then (p.1, p.2 + 1) else p) k = sget c k + 1 := by
  induction c with
  | nil => simp at hany
  | cons a r ih =>
    unfold sget at ih ⊢
    simp only [List.map_cons, List.find?_cons]
    by_cases h1 : a.1 == k
    · simp [h1]
    · have h1' : (a.1 == k) = false := by simpa using h1
      simp only [h1', Bool.false_eq_true, if_false]
      apply ih
      simpa [List.any_cons, h1'] using hany

theorem sget_inc (c : SCtr) (k k' : String) : sget (c.inc k) k' = sget c k' + (if k == k' then 1 else 0) := by
  unfold SCtr.inc
  by_cases hany : c.any (·.1 == k) = true
  · rw [if_pos hany]
    by_cases hk : k == k'
    · have hkk : k = k' := by simpa using hk
      subst hkk
      simp only [hk, if_true]
      exact sget_map_same c k hany
    · have hk' : (k == k') = false := by simpa using hk
      simp only [hk', Bool.false_eq_true, if_false, Nat.add_zero]
      exact sget_map_other c k k' hk'
  · rw [if_neg hany]
    have hnone : ∀ p ∈ c, (p.1 == k) = false := by
      intro p hp
      have := hany
      simp only [List.any_eq_true, not_exists, not_and, Bool.not_eq_true] at this
      exact this p hp
    unfold sget
    rw [List.find?_append]
    by_cases hk : k == k'
    · have hkk : k = k' := by simpa using hk
      subst hkk
      have : c.find? (·.1 == k) = none := List.find?_eq_none.mpr (fun p hp => by simp [hnone p hp])
      simp [this]
    · have hk' : (k == k') = false := by simpa using hk
      cases hf : c.find? (·.1 == k') with
      | none => simp [hk']
      | some e => simp [hk']

theorem sget_foldl_inc (labels : List String) (c : SCtr) (l : String) :
    sget (labels.foldl SCtr.inc c) l = sget c l + labels.countP (· == l) := by
  induction labels generalizing c with
  | nil => simp
  | cons a r ih =>
    simp only [List.foldl_cons, List.countP_cons]
    rw [ih, sget_inc]
    omega

/-- the labels `prince_evaluation` counts for one parse: one per section -/
def _root_.Pcfg.Detect.Parsed.labels (p : Parsed) : List String := p.sections.map fun s => s.2.getD "None"

theorem update_prince (c : Counters) (p : Parsed) (l : String) :
    sget (c.update p).prince l = sget c.prince l + p.labels.countP (· == l) := by
  unfold Counters.update Parsed.labels
  simp only []
  have : p.sections.foldl (fun pc s => pc.inc (s.2.getD "None")) c.prince =
      (p.sections.map fun s => s.2.getD "None").foldl SCtr.inc c.prince := by
    rw [List.foldl_map]
  rw [this, sget_foldl_inc]

/-- **the PRINCE counter of a training run**: the count filed under a label is the number of sections carrying that label over
the parses of all passwords of the list - one count per section, also when a password holds the same text twice -/
theorem train_prince (U : UEnv) (cfg : MWCfg) (pws : List CPs) (l : String) :
    sget (train U cfg pws).prince l =
      (pws.map fun pw => (parse U cfg (pass1 U cfg pws) pw).labels.countP (· == l)).sum := by
  unfold train pass2
  have h : ∀ (ps : List CPs) (c : Counters),
      sget (ps.foldl (fun c pw => c.update (parse U cfg (pass1 U cfg pws) pw)) c).prince l =
        sget c.prince l + (ps.map fun pw => (parse U cfg (pass1 U cfg pws) pw).labels.countP (· == l)).sum := by
    intro ps
    induction ps with
    | nil => intro c; simp
    | cons p r ih =>
      intro c
      simp only [List.foldl_cons, List.map_cons, List.sum_cons]
      rw [ih, update_prince]
      omega
  rw [h pws {}]
  simp [sget]

end Pcfg.Trainer
