import PcfgVerif.Model.OmenText
import PcfgVerif.Lemmas.LoaderLemmas
/-!
# The text of an OMEN level file reads back as the records that were written
-/
namespace Pcfg

theorem digitsOf_ne_nil (n : Nat) : digitsOf n ≠ [] := by
  unfold digitsOf
  split <;> simp

theorem digitsOf_digits (n : Nat) : ∀ c ∈ digitsOf n, 48 ≤ c ∧ c ≤ 57 := by
  induction n using Nat.strongRecOn with
  | _ n ih =>
    unfold digitsOf
    split
    · intro c hc
      simp only [List.mem_singleton] at hc
      omega
    · intro c hc
      rcases List.mem_append.mp hc with hc | hc
      · exact ih (n / 10) (by omega) c hc
      · simp only [List.mem_singleton] at hc
        omega

theorem foldl_digitStep_digitsOf (n : Nat) : (digitsOf n).foldl digitStep (some 0) = some n := by
  induction n using Nat.strongRecOn with
  | _ n ih =>
    unfold digitsOf
    split
    · rename_i h
      simp only [List.foldl_cons, List.foldl_nil, digitStep, Option.bind_some]
      have : 48 ≤ 48 + n ∧ 48 + n ≤ 57 := by omega
      simp only [this, and_self, if_true]
      congr 1
      omega
    · rename_i h
      rw [List.foldl_append, ih (n / 10) (by omega)]
      simp only [List.foldl_cons, List.foldl_nil, digitStep, Option.bind_some]
      have : 48 ≤ 48 + n % 10 ∧ 48 + n % 10 ≤ 57 := by omega
      simp only [this, and_self, if_true]
      congr 1
      omega

theorem parseDigits_digitsOf (n : Nat) : parseDigits (digitsOf n) = some n := by
  unfold parseDigits
  rw [if_neg (digitsOf_ne_nil n)]
  exact foldl_digitStep_digitsOf n

theorem rstripChars_writeLine (v p : CPs) (hp : ∀ c ∈ p, c ≠ 10 ∧ c ≠ 13) :
    rstripChars [10, 13] (writeLine v p) = v ++ 9 :: p := by
  unfold rstripChars
  rw [writeLine_eq, List.reverse_append]
  simp only [List.reverse_cons, List.reverse_nil, List.nil_append, List.singleton_append]
  have h10 : ([10, 13] : List Nat).contains 10 = true := by decide
  rw [List.dropWhile_cons_of_pos h10]
  have hstop : ((v ++ 9 :: p).reverse).dropWhile ([10, 13] : List Nat).contains = (v ++ 9 :: p).reverse := by
    cases hr : (v ++ 9 :: p).reverse with
    | nil => rfl
    | cons a r =>
      have ha : a ∈ 9 :: p := by
        have hlast : (v ++ 9 :: p).getLast? = some a := by
          rw [← List.head?_reverse, hr]; rfl
        rw [List.getLast?_append] at hlast
        have : (9 :: p).getLast? = some a := by
          cases h9 : (9 :: p).getLast? with
          | none => simp at h9
          | some b => rw [h9] at hlast; simpa using hlast
        exact List.mem_of_getLast? this
      have hna : ([10, 13] : List Nat).contains a = false := by
        cases hc : ([10, 13] : List Nat).contains a with
        | false => rfl
        | true =>
          exfalso
          have hmem : a = 10 ∨ a = 13 := by simpa using hc
          rcases List.mem_cons.mp ha with ha | ha
          · subst ha; omega
          · have := hp a ha
            omega
      rw [List.dropWhile_cons_of_neg (by rw [hna]; exact Bool.false_ne_true)]
  rw [hstop, List.reverse_reverse]

theorem parseOmenLine_writeLine (n : Nat) (g : CPs) (hg : ∀ c ∈ g, isLineSep c = false ∧ c ≠ 9) :
    parseOmenLine (writeLine (digitsOf n) g) = some (n, g) := by
  unfold parseOmenLine
  have hg2 : ∀ c ∈ g, c ≠ 10 ∧ c ≠ 13 := by
    intro c hc
    have := (hg c hc).1
    constructor
    · intro h; subst h; simp [isLineSep_10] at this
    · intro h; subst h; simp [isLineSep_13] at this
  rw [rstripChars_writeLine _ _ hg2]
  have hv : ∀ c ∈ digitsOf n, c ≠ 9 := by
    intro c hc
    have := digitsOf_digits n c hc
    omega
  unfold pySplit
  rw [splitOnCp_field 9 (digitsOf n) g [] hv, splitOnCp_no_sep 9 g [] (fun c hc => (hg c hc).2)]
  simp [parseDigits_digitsOf]

/-- **an OMEN level file reads back as the records written**, for every list of records whose n-grams contain neither a
line boundary nor a TAB (what `check_valid` guarantees of training passwords) -/
theorem loadOmenText_omenFileText (records : List (Nat × CPs))
    (h : ∀ r ∈ records, ∀ c ∈ r.2, isLineSep c = false ∧ c ≠ 9) :
    loadOmenText (omenFileText records) = some records := by
  unfold loadOmenText omenFileText
  rw [codecLines_writeFile']
  · rw [List.map_map]
    induction records with
    | nil => rfl
    | cons r rs ih =>
      simp only [List.map_cons, List.mapM_cons, Function.comp]
      rw [parseOmenLine_writeLine r.1 r.2 (h r (by simp))]
      have := ih (fun x hx => h x (by simp [hx]))
      rw [this]
      rfl
  · intro it hit
    obtain ⟨r, hr, rfl⟩ := List.mem_map.mp hit
    refine ⟨fun c hc => ?_, fun c hc => (h r hr c hc).1⟩
    have hd := digitsOf_digits r.1 c hc
    cases hsep : isLineSep c with
    | false => rfl
    | true =>
      exfalso
      have hmem : c ∈ pyLineSeps := by simpa [isLineSep] using hsep
      simp [pyLineSeps] at hmem
      omega

end Pcfg
