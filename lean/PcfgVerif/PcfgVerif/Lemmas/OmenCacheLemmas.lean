import PcfgVerif.Model.OmenCache
/-! Helper lemmas for the memo-table independence proof (`fillC` vs. `fill`). -/
namespace Omen

theorem Cache.lookup_nil (k : CKey) : Cache.lookup [] k = none := rfl

theorem Cache.lookup_update (c : Cache) (k k' : CKey) (v : Option (List Item)) :
    (c.update k v).lookup k' = if k = k' then some v else c.lookup k' := by
  unfold Cache.lookup Cache.update
  by_cases h : k = k'
  · subst h; simp
  · have : (k == k') = false := by simpa using h
    simp [this, h]

theorem CacheOK.update {m : Model} {c : Cache} (h : CacheOK m c) (ip : Str) (len target : Nat)
    (v : Option (List Item)) (hv : v = m.fill len ip target) :
    CacheOK m (c.update (ip, len, target) v) := by
  intro ip' len' target' v' hl
  rw [Cache.lookup_update] at hl
  split at hl
  · next heq =>
    cases heq
    cases hl
    exact hv
  · exact h _ _ _ _ hl

/-- invariant of the inner index loop -/
theorem fillIdxsC_inv (m : Model) (rec : Cache → Str → Option (List Item) × Cache)
    (rec0 : Str → Option (List Item))
    (hrec : ∀ c ip, CacheOK m c → (rec c ip).1 = rec0 ip ∧ CacheOK m (rec c ip).2)
    (ip : Str) (l : Nat) (cs : List Char) :
    ∀ (c : Cache) (i : Nat), CacheOK m c →
      (fillIdxsC rec ip l c i cs).1 = fillIdxs rec0 ip l i cs ∧
      CacheOK m (fillIdxsC rec ip l c i cs).2 := by
  induction cs with
  | nil => intro c i h; exact ⟨rfl, h⟩
  | cons ch rest ih =>
    intro c i h
    have hr := hrec c (nextIp ip ch) h
    unfold fillIdxsC fillIdxs
    rw [← hr.1]
    rcases hrc : rec c (nextIp ip ch) with ⟨r, c'⟩
    rw [hrc] at hr
    cases r with
    | some t => exact ⟨rfl, hr.2⟩
    | none => exact ih c' (i+1) hr.2

/-- invariant of the outer level loop -/
theorem fillLevelsC_inv (m : Model) (rec : Cache → Str → Nat → Option (List Item) × Cache)
    (rec0 : Str → Nat → Option (List Item))
    (hrec : ∀ c ip t, CacheOK m c → (rec c ip t).1 = rec0 ip t ∧ CacheOK m (rec c ip t).2)
    (ip : Str) (target : Nat) (fuel : Nat) :
    ∀ (c : Cache) (cur : Nat), CacheOK m c →
      (m.fillLevelsC rec ip target fuel c cur).1 = m.fillLevels rec0 ip target fuel cur ∧
      CacheOK m (m.fillLevelsC rec ip target fuel c cur).2 := by
  induction fuel with
  | zero => intro c cur h; exact ⟨rfl, h⟩
  | succ fuel ih =>
    intro c cur h
    unfold Model.fillLevelsC Model.fillLevels
    cases hf : m.findCp ip cur 0 with
    | none => exact ⟨rfl, h⟩
    | some p =>
      obtain ⟨cs, l⟩ := p
      have hi := fillIdxsC_inv m (fun c' ip' => rec c' ip' (target - l))
        (fun ip' => rec0 ip' (target - l)) (fun c ip h => hrec c ip (target - l) h) ip l cs c 0 h
      simp only
      rw [← hi.1]
      rcases hrc : fillIdxsC (fun c' ip' => rec c' ip' (target - l)) ip l c 0 cs with ⟨r, c'⟩
      rw [hrc] at hi
      cases r with
      | some t => exact ⟨rfl, hi.2⟩
      | none =>
        simp only
        by_cases hl : l = 0
        · rw [if_pos hl, if_pos hl]; exact ⟨rfl, hi.2⟩
        · rw [if_neg hl, if_neg hl]; exact ih c' (l-1) hi.2

end Omen
