import PcfgVerif.Model.OmenTrainer
import PcfgVerif.Lemmas.OmenCursor
/-!
# OMEN trainer, part B: what `toTables` contains
-/
namespace Omen

/-! ## generic list facts -/

theorem find?_unique {α : Type} {l : List α} {p : α → Bool} {x : α} (hx : x ∈ l) (hp : p x = true)
    (hu : ∀ y ∈ l, p y = true → y = x) : l.find? p = some x := by
  cases h : l.find? p with
  | none => rw [List.find?_eq_none] at h; exact absurd hp (h x hx)
  | some y => rw [hu y (List.mem_of_find?_eq_some h) (List.find?_some h)]

theorem eq_of_nodup_map {α β : Type} {f : α → β} {l : List α} (h : (l.map f).Nodup) {a b : α}
    (ha : a ∈ l) (hb : b ∈ l) (e : f a = f b) : a = b := by
  induction l with
  | nil => cases ha
  | cons x l ih =>
    simp only [List.map_cons, List.nodup_cons, List.mem_map, not_exists, not_and] at h
    rcases List.mem_cons.1 ha with ha' | ha' <;> rcases List.mem_cons.1 hb with hb' | hb'
    · rw [ha', hb']
    · subst ha'; exact absurd e.symm (h.1 b hb')
    · subst hb'; exact absurd e (h.1 a ha')
    · exact ih h.2 ha' hb'

theorem nodup_of_nodup_map {α β : Type} {f : α → β} {l : List α} (h : (l.map f).Nodup) : l.Nodup := by
  induction l with
  | nil => simp
  | cons x l ih =>
    simp only [List.map_cons, List.nodup_cons, List.mem_map, not_exists, not_and] at h
    rw [List.nodup_cons]
    exact ⟨fun hx => h.1 x hx rfl, ih h.2⟩

theorem nodup_filterMap {α β : Type} {f : α → Option β} {l : List α}
    (hf : ∀ a ∈ l, ∀ b ∈ l, ∀ c, f a = some c → f b = some c → a = b) (hl : l.Nodup) :
    (l.filterMap f).Nodup := by
  induction l with
  | nil => simp
  | cons x l ih =>
    have ih' := ih (fun a ha b hb => hf a (List.mem_cons_of_mem _ ha) b (List.mem_cons_of_mem _ hb))
      (List.nodup_cons.1 hl).2
    cases hx : f x with
    | none => rw [List.filterMap_cons_none hx]; exact ih'
    | some c =>
      rw [List.filterMap_cons_some hx, List.nodup_cons]
      refine ⟨?_, ih'⟩
      intro hc
      obtain ⟨b, hb, hfb⟩ := List.mem_filterMap.1 hc
      have := hf x (List.mem_cons_self ..) b (List.mem_cons_of_mem _ hb) c hx hfb
      subst this
      exact (List.nodup_cons.1 hl).1 hb

theorem getD_map_range {β : Type} (n : Nat) (f : Nat → List β) (a : Nat) :
    ((List.range n).map f).getD a [] = if a < n then f a else [] := by
  by_cases h : a < n
  · simp [List.getD_eq_getElem?_getD, h]
  · simp [List.getD_eq_getElem?_getD, h]

/-! ## entries -/

theorem entry_some {t : TTables} {k : Str} {e : TEntry} (h : t.entry k = some e) :
    e ∈ t.entries ∧ e.key = k := by
  unfold TTables.entry at h
  exact ⟨List.mem_of_find?_eq_some h, by simpa using List.find?_some h⟩

theorem entry_of_mem {t : TTables} (hk : (t.entries.map (·.key)).Nodup) {e : TEntry}
    (he : e ∈ t.entries) : t.entry e.key = some e := by
  unfold TTables.entry
  apply find?_unique he (by simp)
  intro y hy hyk
  exact eq_of_nodup_map hk hy he (by simpa using hyk)

theorem entry_none {t : TTables} {k : Str} (h : t.entry k = none) :
    ∀ e ∈ t.entries, e.key ≠ k := by
  unfold TTables.entry at h
  rw [List.find?_eq_none] at h
  intro e he hk
  exact h e he (by simpa using hk)

theorem letter_iff {next : List (Char × Nat)} (hn : (next.map (·.1)).Nodup) (c : Char) (l : Nat) :
    (next.find? (·.1 == c)).map (·.2) = some l ↔ (c, l) ∈ next := by
  constructor
  · intro h
    rw [Option.map_eq_some_iff] at h
    obtain ⟨p, hp, rfl⟩ := h
    have h1 := List.mem_of_find?_eq_some hp
    have h2 : p.1 = c := by simpa using List.find?_some hp
    rw [← h2]; exact h1
  · intro h
    rw [find?_unique (x := (c, l)) h (by simp)]
    · rfl
    · intro y hy hyc
      exact eq_of_nodup_map hn hy h (by simpa using hyc)

/-! ## the per-key level groups -/

def byLevel (M : Nat) (next : List (Char × Nat)) : List (Nat × List Char) :=
  (List.range (M + 1)).filterMap fun l =>
    let cs := (next.filter (·.2 == l)).map (·.1)
    if cs.isEmpty then none else some (l, cs)

theorem toTables_cp (t : TTables) : t.toTables.m.cp = t.entries.filterMap fun e =>
    if (byLevel t.maxLevel e.next).isEmpty then none else some (e.key, byLevel t.maxLevel e.next) := rfl

theorem mem_byLevel (M : Nat) (next : List (Char × Nat)) (l : Nat) (cs : List Char) :
    (l, cs) ∈ byLevel M next ↔
      l ≤ M ∧ cs = (next.filter (·.2 == l)).map (·.1) ∧ cs ≠ [] := by
  unfold byLevel
  simp only [List.mem_filterMap, List.mem_range]
  constructor
  · rintro ⟨a, ha, h⟩
    split at h
    · cases h
    · rename_i hne
      simp only [Option.some.injEq, Prod.mk.injEq] at h
      obtain ⟨rfl, rfl⟩ := h
      exact ⟨by omega, rfl, by simpa using hne⟩
  · rintro ⟨hl, rfl, hne⟩
    refine ⟨l, by omega, ?_⟩
    rw [if_neg (by simpa using hne)]

theorem mem_levelChars (next : List (Char × Nat)) (l : Nat) (c : Char) :
    c ∈ (next.filter (·.2 == l)).map (·.1) ↔ (c, l) ∈ next := by
  simp only [List.mem_map, List.mem_filter, beq_iff_eq]
  constructor
  · rintro ⟨p, ⟨hp, rfl⟩, rfl⟩; exact hp
  · intro h; exact ⟨(c, l), ⟨h, rfl⟩, rfl⟩

theorem byLevel_levels (M : Nat) (next : List (Char × Nat)) :
    ((byLevel M next).map (·.1)).Nodup := by
  unfold byLevel
  rw [List.map_filterMap]
  apply nodup_filterMap _ List.nodup_range
  intro a _ b _ c ha hb
  simp only [] at ha hb
  split at ha
  · cases ha
  · split at hb
    · cases hb
    · simp only [Option.map_some, Option.some.injEq] at ha hb
      omega

theorem byLevel_chars (M : Nat) (next : List (Char × Nat)) (hn : (next.map (·.1)).Nodup) :
    ((byLevel M next).flatMap (·.2)).Nodup := by
  apply nodup_flatMap
  · exact nodup_of_nodup_map (byLevel_levels M next)
  · rintro ⟨l, cs⟩ hp
    obtain ⟨_, rfl, _⟩ := (mem_byLevel M next l cs).1 hp
    exact List.Nodup.sublist (List.Sublist.map _ List.filter_sublist) hn
  · rintro ⟨l, cs⟩ hp ⟨l', cs'⟩ hp' hne c hc hc'
    obtain ⟨_, rfl, _⟩ := (mem_byLevel M next l cs).1 hp
    obtain ⟨_, rfl, _⟩ := (mem_byLevel M next l' cs').1 hp'
    simp only [] at hc hc'
    rw [mem_levelChars] at hc hc'
    have := eq_of_nodup_map hn hc hc' rfl
    simp only [Prod.mk.injEq, true_and] at this
    subst this
    exact hne rfl

theorem byLevel_find (M : Nat) (next : List (Char × Nat)) (hn : (next.map (·.1)).Nodup)
    (hM : ∀ p ∈ next, p.2 ≤ M) (c : Char) :
    ((byLevel M next).find? fun p => p.2.contains c).map (·.1) =
      (next.find? (·.1 == c)).map (·.2) := by
  apply Option.ext
  intro l
  rw [find_contains_iff _ (byLevel_chars M next hn), letter_iff hn]
  constructor
  · rintro ⟨cs, hm, hc⟩
    obtain ⟨_, rfl, _⟩ := (mem_byLevel M next l cs).1 hm
    exact (mem_levelChars next l c).1 hc
  · intro h
    refine ⟨_, (mem_byLevel M next l _).2 ⟨hM _ h, rfl, ?_⟩, (mem_levelChars next l c).2 h⟩
    exact List.ne_nil_of_mem ((mem_levelChars next l c).2 h)

end Omen

namespace Omen

/-- the well-formedness hypotheses (same fields as `TTables.WF` of the statements file) -/
structure TTables.Good (t : TTables) : Prop where
  ngram_ge : 2 ≤ t.ngram
  keys_nodup : (t.entries.map (·.key)).Nodup
  key_len : ∀ e ∈ t.entries, e.key.length = t.ngram - 1
  letters_nodup : ∀ e ∈ t.entries, (e.next.map (·.1)).Nodup
  ip_levels : ∀ e ∈ t.entries, e.ipLevel ≤ t.maxLevel
  cp_levels : ∀ e ∈ t.entries, ∀ p ∈ e.next, p.2 ≤ t.maxLevel
  ln_levels : ∀ l ∈ t.lns, l ≤ t.maxLevel

theorem mem_toTables_cp (t : TTables) (k : Str) (v : List (Nat × List Char)) :
    (k, v) ∈ t.toTables.m.cp ↔
      ∃ e ∈ t.entries, e.key = k ∧ v = byLevel t.maxLevel e.next ∧ v ≠ [] := by
  rw [toTables_cp]
  simp only [List.mem_filterMap]
  constructor
  · rintro ⟨e, he, h⟩
    split at h
    · cases h
    · rename_i hne
      simp only [Option.some.injEq, Prod.mk.injEq] at h
      obtain ⟨rfl, rfl⟩ := h
      exact ⟨e, he, rfl, rfl, by simpa using hne⟩
  · rintro ⟨e, he, rfl, rfl, hne⟩
    refine ⟨e, he, ?_⟩
    rw [if_neg (by simpa using hne)]

theorem toTables_cpOf (t : TTables) (hk : (t.entries.map (·.key)).Nodup) (ip : Str) :
    t.toTables.m.cpOf ip =
      match t.entry ip with
      | none => none
      | some e => if byLevel t.maxLevel e.next = [] then none else some (byLevel t.maxLevel e.next) := by
  have hsome : ∀ p, t.toTables.m.cp.find? (·.1 == ip) = some p →
      ∃ e ∈ t.entries, e.key = ip ∧ p = (ip, byLevel t.maxLevel e.next) ∧ byLevel t.maxLevel e.next ≠ [] := by
    intro p hp
    have h1 := List.mem_of_find?_eq_some hp
    have h2 : p.1 = ip := by simpa using List.find?_some hp
    obtain ⟨k, v⟩ := p
    simp only [] at h2
    subst h2
    obtain ⟨e, he, hek, rfl, hne⟩ := (mem_toTables_cp t k v).1 h1
    exact ⟨e, he, hek, rfl, hne⟩
  unfold Model.cpOf
  cases h : t.entry ip with
  | none =>
    simp only []
    cases hf : t.toTables.m.cp.find? (·.1 == ip) with
    | none => rfl
    | some p =>
      obtain ⟨e, he, hek, _⟩ := hsome p hf
      exact absurd hek (entry_none h e he)
  | some e =>
    obtain ⟨he, hek⟩ := entry_some h
    simp only []
    by_cases hb : byLevel t.maxLevel e.next = []
    · rw [if_pos hb]
      cases hf : t.toTables.m.cp.find? (·.1 == ip) with
      | none => rfl
      | some p =>
        obtain ⟨e', he', hek', _, hne⟩ := hsome p hf
        have : e' = e := eq_of_nodup_map hk he' he (by rw [hek, hek'])
        subst this
        exact absurd hb hne
    · rw [if_neg hb]
      have hm : (ip, byLevel t.maxLevel e.next) ∈ t.toTables.m.cp :=
        (mem_toTables_cp t _ _).2 ⟨e, he, hek, rfl, hb⟩
      rw [find?_unique hm (by simp)]
      · rfl
      · rintro ⟨k, v⟩ hy hyk
        have hyk' : k = ip := by simpa using hyk
        subst hyk'
        obtain ⟨e', he', hek', rfl, _⟩ := (mem_toTables_cp t k v).1 hy
        have : e' = e := eq_of_nodup_map hk he' he (by rw [hek, hek'])
        subst this
        rfl

theorem toTables_cpLevel (t : TTables) (hg : t.Good) (ip : Str) (c : Char) :
    t.toTables.m.cpLevel ip c = (t.entry ip).bind (·.letter c) := by
  unfold Model.cpLevel
  rw [toTables_cpOf t hg.keys_nodup]
  cases h : t.entry ip with
  | none => rfl
  | some e =>
    obtain ⟨he, _⟩ := entry_some h
    have hf := byLevel_find t.maxLevel e.next (hg.letters_nodup e he) (hg.cp_levels e he) c
    simp only [Option.bind_some, TEntry.letter]
    by_cases hb : byLevel t.maxLevel e.next = []
    · rw [if_pos hb]
      rw [hb] at hf
      simpa using hf
    · rw [if_neg hb]
      exact hf

theorem toTables_transCost (t : TTables) (hg : t.Good) :
    ∀ (body : List Char) (ip : Str), t.toTables.m.transCost ip body = t.chain ip body := by
  intro body
  induction body with
  | nil => intro ip; simp [Model.transCost, TTables.chain]
  | cons c cs ih =>
    intro ip
    rw [Model.transCost, TTables.chain, toTables_cpLevel t hg, ih]
    cases t.entry ip with
    | none => rfl
    | some e => rfl

end Omen
