import PcfgVerif.Model.Reader
/-! Helper lemmas for the reader (C19). -/
namespace Pcfg
open Generated.Reader

/-! ### characterisation of the generated constants -/
theorem defaultCount_eq : defaultCount = 1 := rfl
theorem hexDropFront_eq : hexDropFront = 5 := rfl
theorem hexDropBack_eq : hexDropBack = 1 := rfl
theorem countTok_eq : countTok = 0 := rfl
theorem restTok_eq : restTok = 1 := rfl
theorem yieldFrom_eq : yieldFrom = 0 := rfl
theorem prefixOn_eq (b : Bool) : prefixOn b = b := by cases b <;> rfl

/-! ### rstrip -/
theorem rstripChars_append (cs : List Nat) (q tail : CPs)
    (htail : ∀ c ∈ tail, cs.contains c = true)
    (hq : ∀ c, q.getLast? = some c → cs.contains c = false) :
    rstripChars cs (q ++ tail) = q := by
  unfold rstripChars
  rw [List.reverse_append, List.dropWhile_append_of_pos (by simpa using htail)]
  cases hr : q.reverse with
  | nil => simp [List.reverse_eq_nil_iff.mp hr]
  | cons a r =>
    have h1 : q.getLast? = some a := by rw [List.getLast?_eq_head?_reverse, hr]; rfl
    have h2 := hq a h1
    rw [List.dropWhile_cons, h2]
    simp [← hr]

/-! ### startsWith / endsWith / hex slicing -/
theorem hexPrefix_length : hexPrefix.length = 5 := rfl

theorem startsWith_append (pre s : CPs) : startsWith (pre ++ s) pre = true := by
  simp [startsWith]

theorem endsWith_append (s suf : CPs) : endsWith (s ++ suf) suf = true := by
  simp [endsWith]

theorem hex_slice (h : CPs) :
    ((hexPrefix ++ h ++ [0x5d]).drop 5).take ((hexPrefix ++ h ++ [0x5d]).length - 5 - 1) = h := by
  simp [hexPrefix]

/-! ### lstrip -/
theorem lstripWs_append (lead s : CPs) (hlead : ∀ c ∈ lead, isPySpace c = true)
    (hs : ∀ c, s.head? = some c → isPySpace c = false) :
    lstripWs (lead ++ s) = s := by
  unfold lstripWs
  rw [List.dropWhile_append_of_pos hlead]
  cases s with
  | nil => rfl
  | cons a r => rw [List.dropWhile_cons, hs a rfl]; simp

/-! ### split / join -/
theorem splitOnCp_ne_nil (sep : Nat) (p cur : CPs) : splitOnCp sep p cur ≠ [] := by
  induction p generalizing cur with
  | nil => simp [splitOnCp]
  | cons c rest ih =>
    unfold splitOnCp
    split
    · simp
    · exact ih _

theorem splitOnCp_tok (sep : Nat) (tok rest cur : CPs) (htok : ∀ c ∈ tok, c ≠ sep) :
    splitOnCp sep (tok ++ sep :: rest) cur = (cur.reverse ++ tok) :: splitOnCp sep rest [] := by
  induction tok generalizing cur with
  | nil => simp [splitOnCp]
  | cons c t ih =>
    have hc : c ≠ sep := htok c (by simp)
    have : (c == sep) = false := by simpa using hc
    have ih' := ih (c :: cur) (fun d hd => htok d (by simp [hd]))
    simp only [List.cons_append, splitOnCp, this]
    simp [ih']

theorem pySplit_tok (sep : Nat) (tok rest : CPs) (htok : ∀ c ∈ tok, c ≠ sep) :
    pySplit sep (tok ++ sep :: rest) = tok :: pySplit sep rest := by
  simp [pySplit, splitOnCp_tok sep tok rest [] htok]

theorem joinSp_cons_cons (a b : CPs) (rest : List CPs) :
    joinSp (a :: b :: rest) = a ++ [0x20] ++ joinSp (b :: rest) := by
  simp [joinSp]

theorem joinSp_cons_of_ne_nil (a : CPs) (l : List CPs) (hl : l ≠ []) :
    joinSp (a :: l) = a ++ [0x20] ++ joinSp l := by
  cases l with
  | nil => exact absurd rfl hl
  | cons b rest => exact joinSp_cons_cons a b rest

theorem joinSp_splitOnCp (p cur : CPs) : joinSp (splitOnCp 0x20 p cur) = cur.reverse ++ p := by
  induction p generalizing cur with
  | nil => simp [splitOnCp, joinSp]
  | cons c rest ih =>
    unfold splitOnCp
    split
    · rename_i hc
      have : c = 0x20 := by simpa using hc
      subst this
      rw [joinSp_cons_of_ne_nil _ _ (splitOnCp_ne_nil _ _ _), ih]
      simp
    · rw [ih]; simp

theorem joinSp_pySplit' (p : CPs) : joinSp (pySplit 0x20 p) = p := by
  simp [pySplit, joinSp_splitOnCp]

end Pcfg
