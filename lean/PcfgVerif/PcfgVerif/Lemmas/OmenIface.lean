import PcfgVerif.Lemmas.OmenSucc
import PcfgVerif.Lemmas.OmenStrings
/-! Interface used by the cursor lemmas (all facts are now proved). -/
namespace Omen

theorem nextTree_split (m : Model) (hne : ∀ e ∈ m.cp, ∀ p ∈ e.2, p.2 ≠ [])
    (len : Nat) (ip : Str) (target : Nat) (pre suf : List (List Item)) (t : List Item)
    (h : m.allTrees len ip target = pre ++ t :: suf) :
    m.nextTree t = suf.head? :=
  nextTree_split' m hne len ip target pre suf t h

end Omen
