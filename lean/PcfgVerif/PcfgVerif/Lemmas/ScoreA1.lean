import PcfgVerif.Model.ScorerSpec
import PcfgVerif.Lemmas.DetectA1
import PcfgVerif.Lemmas.DetectC1
/-! Lemmas for `ScoreStatementsA`, part 1: categories, `textsOf`, and generic facts about the
list-level loop (`splitLoop`): an invariant principle, the bookkeeping of found items against the
sections of one category, preservation of the other categories, mapping of the found items. -/
namespace Pcfg.Detect

/-! ## labels and categories -/

theorem labelCat_none : labelCat none = none := rfl

theorem labelCat_lbl (c : Char) (n : Nat) : labelCat (some (lbl c n)) = some c := by
  simp [labelCat, lbl_toList]

theorem lbl_ne_of_head (c : Char) (n : Nat) (s : String) (d : Char) (r : List Char)
    (hs : s.toList = d :: r) (hd : c ≠ d) : lbl c n ≠ s := by
  intro h
  have := congrArg String.toList h
  rw [lbl_toList, hs] at this
  simp only [List.cons.injEq] at this
  exact hd this.1

theorem lbl_ne_Y1 (c : Char) (n : Nat) (hc : c ≠ 'Y') : lbl c n ≠ "Y1" :=
  lbl_ne_of_head c n "Y1" 'Y' ['1'] (by decide) hc

/-! ## `textsOf` -/

theorem textsOf_nil (c : Char) : textsOf [] c = [] := rfl

theorem textsOf_append (a b : List Sec) (c : Char) :
    textsOf (a ++ b) c = textsOf a c ++ textsOf b c := by
  simp [textsOf, List.filterMap_append]

theorem textsOf_cons (s : Sec) (r : List Sec) (c : Char) :
    textsOf (s :: r) c = (if labelCat s.2 = some c then [s.1] else []) ++ textsOf r c := by
  simp only [textsOf, List.filterMap_cons]
  split <;> simp_all

theorem textsOf_cons_none (t : CPs) (r : List Sec) (c : Char) :
    textsOf ((t, none) :: r) c = textsOf r c := by
  rw [textsOf_cons]; simp [labelCat]

theorem textsOf_eq_nil (pieces : List Sec) (c ck : Char) (hc : c ≠ ck)
    (h : ∀ p ∈ pieces, p.2 = none ∨ labelCat p.2 = some ck) : textsOf pieces c = [] := by
  induction pieces with
  | nil => rfl
  | cons p ps ih =>
    rw [textsOf_cons, ih (fun q hq => h q (by simp [hq]))]
    rcases h p (by simp) with h' | h'
    · simp [h', labelCat]
    · have : ¬ ck = c := fun e => hc e.symm
      simp [h', this]

/-! ## the loop: invariant principle -/

/-- every step of the loop either moves a section from `todo` to `done` or replaces an unlabelled
section by the detector's pieces and records the found item; so any property of
(`done ++ todo`, `found`) stable under the latter is an invariant -/
theorem splitLoop_inv {F : Type} (detect : CPs → Option (List Sec × F)) (adv : Advance)
    (Inv : List Sec → List F → Prop)
    (hstep : ∀ (done : List Sec) (text : CPs) (rest pieces : List Sec) (f : F) (found : List F),
      Inv (done ++ (text, none) :: rest) found → detect text = some (pieces, f) →
      Inv (done ++ (pieces ++ rest)) (found ++ [f])) (fuel : Nat) :
    ∀ (done todo : List Sec) (found : List F), Inv (done ++ todo) found →
      Inv (splitLoop detect adv fuel done todo found).1 (splitLoop detect adv fuel done todo found).2 := by
  induction fuel with
  | zero => intro done todo found h; simpa [splitLoop] using h
  | succ fuel ih =>
    intro done todo found h
    unfold splitLoop
    match todo with
    | [] => simpa using h
    | (text, some l) :: rest =>
      simp only
      apply ih
      simpa using h
    | (text, none) :: rest =>
      simp only
      match hdt : detect text with
      | none =>
        simp only
        apply ih
        simpa using h
      | some (pieces, f) =>
        have hs := hstep done text rest pieces f found h hdt
        cases adv with
        | skipFirst =>
          cases pieces with
          | nil =>
            simp only
            apply ih
            simpa using hs
          | cons p ps =>
            simp only
            apply ih
            simpa using hs
        | recheck =>
          simp only
          apply ih
          exact hs

/-! ## found items versus the sections of the detector's category -/

/-- if each call reports (via `φ`) exactly the texts of the pieces it labels with category `c`, then
after the loop the reported texts together with the `c`-sections already present are the
`c`-sections of the result (as multisets: the `recheck` rule reports out of order) -/
theorem splitLoop_perm {F : Type} (detect : CPs → Option (List Sec × F)) (adv : Advance)
    (c : Char) (φ : F → List CPs)
    (hd : ∀ text pieces f, detect text = some (pieces, f) → (φ f).Perm (textsOf pieces c))
    (fuel : Nat) (s : List Sec) :
    ((splitLoop detect adv fuel [] s []).2.flatMap φ ++ textsOf s c).Perm
      (textsOf (splitLoop detect adv fuel [] s []).1 c) := by
  refine splitLoop_inv detect adv
    (fun secs found => (found.flatMap φ ++ textsOf s c).Perm (textsOf secs c)) ?_ fuel [] s [] ?_
  · intro done text rest pieces f found h hdt
    have hp := hd text pieces f hdt
    rw [List.perm_iff_count] at h hp ⊢
    intro a
    have h1 := h a
    have h2 := hp a
    simp only [textsOf_append, textsOf_cons_none, List.count_append, List.flatMap_append,
      List.flatMap_cons, List.flatMap_nil, List.append_nil] at h1 ⊢
    omega
  · simp

/-! ## the other categories are untouched -/

/-- the detector labels only with category `ck` -/
def ProducesOnly {F : Type} (detect : CPs → Option (List Sec × F)) (ck : Char) : Prop :=
  ∀ text pieces f, detect text = some (pieces, f) → ∀ p ∈ pieces, p.2 = none ∨ labelCat p.2 = some ck

theorem splitLoop_textsOf_other {F : Type} (detect : CPs → Option (List Sec × F)) (adv : Advance)
    (ck c : Char) (hc : c ≠ ck) (hd : ProducesOnly detect ck) (fuel : Nat) (s : List Sec) :
    textsOf (splitLoop detect adv fuel [] s []).1 c = textsOf s c := by
  refine splitLoop_inv detect adv (fun secs _ => textsOf secs c = textsOf s c) ?_ fuel [] s [] ?_
  · intro done text rest pieces f found h hdt
    have hp := textsOf_eq_nil pieces c ck hc (hd text pieces f hdt)
    simp only [textsOf_append, textsOf_cons_none] at h ⊢
    rw [hp, List.nil_append]
    exact h
  · simp

/-! ## mapping the found items -/

theorem splitLoop_map {F F' : Type} (detect : CPs → Option (List Sec × F))
    (detect' : CPs → Option (List Sec × F')) (π : F' → F)
    (h : ∀ text, detect text = (detect' text).map fun x => (x.1, π x.2)) (adv : Advance) (fuel : Nat) :
    ∀ (done todo : List Sec) (found' : List F'),
      splitLoop detect adv fuel done todo (found'.map π) =
        ((splitLoop detect' adv fuel done todo found').1,
         (splitLoop detect' adv fuel done todo found').2.map π) := by
  induction fuel with
  | zero => intro done todo found'; simp [splitLoop]
  | succ fuel ih =>
    intro done todo found'
    unfold splitLoop
    match todo with
    | [] => simp
    | (text, some l) :: rest =>
      simp only
      exact ih _ _ _
    | (text, none) :: rest =>
      simp only
      rw [h text]
      match hdt : detect' text with
      | none =>
        simp only [Option.map_none]
        exact ih _ _ _
      | some (pieces, f) =>
        simp only [Option.map_some]
        have e : found'.map π ++ [π f] = (found' ++ [f]).map π := by simp
        cases adv with
        | skipFirst =>
          cases pieces with
          | nil =>
            simp only
            rw [e]
            exact ih _ _ _
          | cons p ps =>
            simp only
            rw [e]
            exact ih _ _ _
        | recheck =>
          simp only
          rw [e]
          exact ih _ _ _

/-! ## properties of sections and found items that need the tiling -/

/-- a property `G` of sections and a property `Q` of found items, established by each call on a
non-empty, length-preserving slice of the password, hold after the loop -/
theorem splitLoop_GQ {F : Type} (U : UEnv) (detect : CPs → Option (List Sec × F)) (adv : Advance)
    (hd : DetectorOK U detect) (pw : CPs) (hl : LenPres U pw) (G : Sec → Prop) (Q : F → Prop)
    (hstep : ∀ text pieces f, text ≠ [] → LenPres U text → (∃ a b, text = slice pw a b) →
      detect text = some (pieces, f) → (∀ p ∈ pieces, G p) ∧ Q f)
    (fuel : Nat) (s : List Sec) (ht : TilesFrom U pw 0 s) (hG : ∀ x ∈ s, G x) :
    (∀ x ∈ (splitLoop detect adv fuel [] s []).1, G x) ∧
    (∀ f ∈ (splitLoop detect adv fuel [] s []).2, Q f) := by
  have := splitLoop_inv detect adv
    (fun secs found => TilesFrom U pw 0 secs ∧ (∀ x ∈ secs, G x) ∧ (∀ f ∈ found, Q f)) ?_
    fuel [] s [] ?_
  · exact this.2
  · intro done text rest pieces f found ⟨h, hG', hQ'⟩ hdt
    have hsuf := tilesFrom_suffix U pw done _ 0 h
    have hpo := hsuf.1
    have htext : text = slice pw (0 + secsLen done) (0 + secsLen done + text.length) :=
      hpo.2.2.1 (by simp)
    have hlp : LenPres U text := by
      rw [htext]; exact lenPres_slice' U pw _ _ hl
    obtain ⟨_, htl⟩ := hd text pieces f hpo.1 hlp hdt
    have hrep := tiles_replace' U pw _ text pieces rest hsuf htl
    have hall := tilesFrom_replace_suffix U pw done _ _ 0 h hrep
    obtain ⟨hg, hq⟩ := hstep text pieces f hpo.1 hlp ⟨_, _, htext⟩ hdt
    refine ⟨hall, ?_, ?_⟩
    · intro x hx
      simp only [List.mem_append, List.mem_cons] at hx hG'
      rcases hx with hx | hx | hx
      · exact hG' x (Or.inl hx)
      · exact hg x hx
      · exact hG' x (Or.inr (Or.inr hx))
    · intro g hg'
      simp only [List.mem_append, List.mem_singleton] at hg'
      rcases hg' with hg' | rfl
      · exact hQ' g hg'
      · exact hq
  · exact ⟨by simpa using ht, by simpa using hG, by simp⟩

end Pcfg.Detect
