import PcfgVerif.Model.DetectSpec
/-! Lemmas for the keyboard-walk detector, part 2: every reported walk is a walk. -/
namespace Pcfg.Detect

/-- same body as `adjacentOn` of the statements file -/
def AdjOn (b : Nat) (c d : Nat) : Prop :=
  ∃ p q, p ∈ findKey c ∧ q ∈ findKey d ∧ p.board = b ∧ q.board = b ∧ b ∈ nextOn [p] [q]

theorem nextOn_mem {past cur : List KPos} {b : Nat} (h : b ∈ nextOn past cur) :
    ∃ p q, p ∈ past ∧ q ∈ cur ∧ p.board = b ∧ q.board = b ∧ b ∈ nextOn [p] [q] := by
  unfold nextOn at h
  rw [List.mem_filterMap] at h
  obtain ⟨p, hp, hf⟩ := h
  split at hf
  · simp at hf
  · rename_i q hq
    have hqm : q ∈ cur := List.mem_of_find?_eq_some hq
    have hqb := List.find?_some hq
    simp only [beq_iff_eq] at hqb
    have hb : p.board = b := by
      repeat' split at hf
      all_goals first | (exact Option.some.inj hf) | (exact absurd hf (by simp))
    refine ⟨p, q, hp, hqm, hb, hqb.trans hb, ?_⟩
    simp only [nextOn, List.filterMap_cons, List.filterMap_nil, List.find?_cons, hqb, beq_self_eq_true]
    rw [hf]; simp

theorem nextOn_adj {c d b : Nat} (h : b ∈ nextOn (findKey c) (findKey d)) : AdjOn b c d := by
  obtain ⟨p, q, h1, h2, h3, h4, h5⟩ := nextOn_mem h
  exact ⟨p, q, h1, h2, h3, h4, h5⟩

theorem nextOn_nil (cur : List KPos) : nextOn [] cur = [] := rfl

def Walk (b : Nat) (w : CPs) : Prop :=
  ∀ i, i + 1 < w.length → AdjOn b (w.getD i 0) (w.getD (i + 1) 0)

theorem walk_short (b : Nat) (w : CPs) (h : w.length ≤ 1) : Walk b w := by
  intro i hi; omega

theorem walk_snoc {b : Nat} {w : CPs} {v : Nat} (hw : Walk b w)
    (hl : ∀ c, w.getLast? = some c → AdjOn b c v) : Walk b (w ++ [v]) := by
  intro i hi
  simp only [List.length_append, List.length_cons, List.length_nil] at hi
  by_cases h : i + 1 < w.length
  · have := hw i h
    have e1 : (w ++ [v]).getD i 0 = w.getD i 0 := by
      simp only [List.getD_eq_getElem?_getD]; rw [List.getElem?_append_left (by omega)]
    have e2 : (w ++ [v]).getD (i + 1) 0 = w.getD (i + 1) 0 := by
      simp only [List.getD_eq_getElem?_getD]; rw [List.getElem?_append_left h]
    rw [e1, e2]; exact this
  · have hi' : i + 1 = w.length := by omega
    have h1 : w.getLast? = some (w.getD i 0) := by
      rw [List.getLast?_eq_getElem?, List.getD_eq_getElem?_getD]
      have : w.length - 1 = i := by omega
      rw [this]
      have : i < w.length := by omega
      simp [this]
    have := hl _ h1
    have e1 : (w ++ [v]).getD i 0 = w.getD i 0 := by
      simp only [List.getD_eq_getElem?_getD]; rw [List.getElem?_append_left (by omega)]
    have e2 : (w ++ [v]).getD (i + 1) 0 = v := by
      simp only [List.getD_eq_getElem?_getD]; rw [List.getElem?_append_right (by omega)]
      simp [hi']
    rw [e1, e2]; exact this

structure KWInv (st : KWState) : Prop where
  past_nil : st.combo = [] → st.past = []
  past_last : ∀ c, st.combo.getLast? = some c → st.past = findKey c
  runs_nil : st.runs = [] → st.combo.length ≤ 1
  walk : ∀ b ∈ st.runs, Walk b st.combo

theorem KWInv.init : KWInv {} := ⟨fun _ => rfl, by simp, by simp, by simp⟩

theorem KWInv.exists_walk {st : KWState} (h : KWInv st) : ∃ b, Walk b st.combo := by
  cases hr : st.runs with
  | nil => exact ⟨0, walk_short _ _ (h.runs_nil hr)⟩
  | cons b _ => exact ⟨b, h.walk b (by simp [hr])⟩

theorem KWInv.reset (value : Nat) : KWInv ⟨findKey value, [value], []⟩ :=
  ⟨by simp, by simp, by simp, by simp⟩

theorem KWInv.extend {st : KWState} (h : KWInv st) (value : Nat) (runs : List Nat)
    (hruns : runs = if st.runs.isEmpty then nextOn st.past (findKey value)
      else st.runs.filter (nextOn st.past (findKey value)).contains)
    (hne : runs ≠ []) : KWInv ⟨findKey value, st.combo ++ [value], runs⟩ := by
  refine ⟨by simp, by simp, fun h' => absurd h' hne, ?_⟩
  intro b hb
  have hb' : b ∈ nextOn st.past (findKey value) ∧ Walk b st.combo := by
    by_cases he : st.runs.isEmpty
    · rw [if_pos he] at hruns
      rw [hruns] at hb
      exact ⟨hb, walk_short _ _ (h.runs_nil (by simpa using he))⟩
    · rw [if_neg he] at hruns
      rw [hruns, List.mem_filter] at hb
      exact ⟨by simpa using hb.2, h.walk b hb.1⟩
  refine walk_snoc hb'.2 ?_
  intro c hc
  have := h.past_last c hc
  rw [this] at hb'
  exact nextOn_adj hb'.1

theorem kwScan_sound (U : UEnv) (m : Nat) :
    ∀ (fuel : Nat) (P rest : CPs) (index : Nat) (st : KWState), KWInv st →
      ∀ w ∈ (kwScan U m fuel P rest index st).2,
        m ≤ w.length ∧ interesting U w = true ∧ ∃ b, Walk b w := by
  intro fuel
  induction fuel with
  | zero => intro P rest index st _ w hw; simp [kwScan] at hw
  | succ fuel ih =>
    intro P rest index st hinv w hw
    unfold kwScan at hw
    cases rest with
    | nil =>
      simp only [] at hw
      split at hw
      · rename_i hc
        simp only [Bool.and_eq_true, decide_eq_true_eq] at hc
        simp only [List.mem_singleton] at hw
        subst hw
        exact ⟨hc.1, hc.2, hinv.exists_walk⟩
      · simp at hw
    | cons value more =>
      simp only [] at hw
      generalize hruns : (if st.runs.isEmpty = true then nextOn st.past (findKey value)
        else List.filter (nextOn st.past (findKey value)).contains st.runs) = runs at hw
      split at hw
      · rename_i hne
        exact ih _ _ _ _ (hinv.extend value runs hruns.symm (by simpa using hne)) w hw
      · split at hw
        · rename_i hc
          simp only [Bool.and_eq_true, decide_eq_true_eq] at hc
          simp only [List.mem_cons] at hw
          rcases hw with rfl | hw
          · exact ⟨hc.1, hc.2, hinv.exists_walk⟩
          · exact ih _ _ _ _ KWInv.init w hw
        · rename_i hne _
          have : runs = [] := by simpa using hne
          subst this
          exact ih _ _ _ _ (KWInv.reset value) w hw

end Pcfg.Detect
