import PcfgVerif.Lemmas.DetectA1
/-! Helper lemmas for `DetectStatementsA`: substring search, table facts, the inner scans. -/
namespace Pcfg.Detect
open Generated.Tables

/-! ## table facts -/

theorem tld_ne_nil : ∀ t ∈ tldList, 0 < t.length := by decide
theorem context_ne_nil : ∀ t ∈ contextList, 0 < t.length := by decide
theorem yearPrefix_length : ∀ t ∈ yearPrefixes, t.length = 2 := by decide

/-! ## substring search -/

theorem findFrom_some (s pat : CPs) : ∀ (fuel i j : Nat), findFrom s pat fuel i = some j →
    j + pat.length ≤ s.length ∧ (s.drop j).take pat.length = pat
  | 0, i, j, h => by simp [findFrom] at h
  | fuel + 1, i, j, h => by
    unfold findFrom at h
    split at h
    · next hc =>
      simp only [Bool.and_eq_true, beq_iff_eq, decide_eq_true_eq] at hc
      cases h
      exact ⟨hc.2, hc.1⟩
    · exact findFrom_some s pat fuel _ j h

theorem findSub_some (s pat : CPs) (j : Nat) (h : findSub s pat = some j) :
    j + pat.length ≤ s.length ∧ (s.drop j).take pat.length = pat :=
  findFrom_some s pat _ _ j h

theorem findSub_slice (s pat : CPs) (j : Nat) (h : findSub s pat = some j) :
    slice s j (j + pat.length) = pat := by
  have := (findSub_some s pat j h).2
  simpa [slice] using this

theorem rfindSub_some (s pat : CPs) (j : Nat) (h : rfindSub s pat = some j) :
    j + pat.length ≤ s.length := by
  unfold rfindSub at h
  have := List.find?_some h
  simp only [Bool.and_eq_true, beq_iff_eq, decide_eq_true_eq] at this
  exact this.2

/-! ## TLD occurrences -/

theorem tldOccurrence_some (U : UEnv) (w tld : CPs) : ∀ (fuel : Nat) (o : Option Nat) (total : Nat),
    (∀ t, o = some t → t + tld.length ≤ w.length) →
    tldOccurrence U w tld fuel o = some total → total + tld.length ≤ w.length
  | 0, o, total, _, h => by simp [tldOccurrence] at h
  | fuel + 1, none, total, _, h => by simp [tldOccurrence] at h
  | fuel + 1, some t, total, hinv, h => by
    have ht := hinv t rfl
    unfold tldOccurrence at h
    split at h
    · simp only at h
      split at h
      · cases h
      · next e he =>
        refine tldOccurrence_some U w tld fuel _ total ?_ h
        intro t' ht'
        cases ht'
        have := (findSub_some _ _ _ he).1
        simp only [List.length_drop] at this
        omega
    · cases h; exact ht

/-! ## year scan -/

theorem yearScan_some (U : UEnv) (w pre : CPs) : ∀ (fuel start si : Nat),
    yearScan U w pre fuel start = some si →
    si + 4 ≤ w.length ∧ (w.drop si).take pre.length = pre ∧
    U.isDigit (w.getD (si + 2) 0) = true ∧ U.isDigit (w.getD (si + 3) 0) = true
  | 0, start, si, h => by simp [yearScan] at h
  | fuel + 1, start, si, h => by
    unfold yearScan at h
    split at h
    · cases h
    · next rel hrel =>
      simp only at h
      split at h
      · cases h
      · next hlen =>
        split at h
        · exact yearScan_some U w pre fuel _ si h
        · split at h
          · exact yearScan_some U w pre fuel _ si h
          · split at h
            · next hd =>
              cases h
              simp only [Bool.and_eq_true] at hd
              refine ⟨by omega, ?_, hd.1, hd.2⟩
              have := (findSub_some _ _ _ hrel).2
              simpa [List.drop_drop, Nat.add_comm] using this
            · exact yearScan_some U w pre fuel _ si h

end Pcfg.Detect
