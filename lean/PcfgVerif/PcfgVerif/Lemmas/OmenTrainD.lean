import PcfgVerif.Lemmas.OmenTrainC
/-!
# OMEN trainer, part D: `recKeyspace` counts the parse trees; the tabulated form
-/
namespace Omen

/-! ## sums -/

theorem sum_map_add' {α : Type} (l : List α) (f g : α → Nat) :
    (l.map fun a => f a + g a).sum = (l.map f).sum + (l.map g).sum := by
  induction l with
  | nil => rfl
  | cons a l ih => simp only [List.map_cons, List.sum_cons, ih]; omega

theorem sum_map_zero' {α : Type} (l : List α) (f : α → Nat) (h : ∀ a ∈ l, f a = 0) :
    (l.map f).sum = 0 := by
  induction l with
  | nil => rfl
  | cons a l ih =>
    simp only [List.map_cons, List.sum_cons, h a (List.mem_cons_self ..),
      ih fun b hb => h b (List.mem_cons_of_mem _ hb)]

@[simp] theorem sum_map_const_zero {α : Type} (l : List α) : (l.map fun _ => 0).sum = 0 :=
  sum_map_zero' l _ (fun _ _ => rfl)

theorem sum_map_congr' {α : Type} (l : List α) (f g : α → Nat) (h : ∀ a ∈ l, f a = g a) :
    (l.map f).sum = (l.map g).sum := by
  rw [List.map_congr_left h]

theorem sum_indicator (lv : List Nat) (hlv : lv.Nodup) (x v : Nat) :
    (lv.map fun l => if x = l then v else 0).sum = if x ∈ lv then v else 0 := by
  induction lv with
  | nil => rfl
  | cons a lv ih =>
    obtain ⟨ha, hlv⟩ := List.nodup_cons.1 hlv
    simp only [List.map_cons, List.sum_cons, ih hlv, List.mem_cons]
    by_cases h1 : x = a
    · subst h1
      simp [ha]
    · simp [h1]

/-- regrouping a sum over `(letter, level)` pairs by level -/
theorem sum_by_level (next : List (Char × Nat)) (lv : List Nat) (hlv : lv.Nodup) (G : Char → Nat → Nat) :
    (lv.map fun l => (((next.filter (·.2 == l)).map (·.1)).map fun c => G c l).sum).sum =
      (next.map fun p => if p.2 ∈ lv then G p.1 p.2 else 0).sum := by
  induction next with
  | nil => simp
  | cons p rest ih =>
    rw [List.map_cons, List.sum_cons, ← ih, ← sum_indicator lv hlv p.2 (G p.1 p.2), ← sum_map_add']
    apply sum_map_congr'
    intro l _
    by_cases h : p.2 = l
    · subst h
      simp
    · have : (p.2 == l) = false := by simpa using h
      rw [List.filter_cons_of_neg (by simp [this]), if_neg h]
      simp

/-! ## length of `allTrees` -/

theorem length_allTrees_succ_succ (m : Model) (len : Nat) (ip : Str) (target : Nat) :
    (m.allTrees (len + 2) ip target).length =
      ((List.range (min target m.maxLevel + 1)).reverse.map fun l =>
        ((m.chars ip l).map fun c => (m.allTrees (len + 1) (nextIp ip c) (target - l)).length).sum).sum := by
  rw [Model.allTrees]
  unfold Model.chars
  cases h : m.cpOf ip with
  | none =>
    simp
  | some e =>
    simp only [List.length_flatMap, Option.bind_some]
    apply sum_map_congr'
    intro l _
    cases h2 : lvlChars e l with
    | none => simp
    | some cs =>
      simp only [List.length_flatMap, List.length_map, Option.getD_some]
      have : cs.map (fun c => (m.allTrees (len + 1) (nextIp ip c) (target - l)).length) =
          (cs.zipIdx.map (·.1)).map (fun c => (m.allTrees (len + 1) (nextIp ip c) (target - l)).length) := by
        rw [List.zipIdx_map_fst]
      rw [this, List.map_map]
      rfl

theorem length_allTrees_one (m : Model) (ip : Str) (target : Nat) :
    (m.allTrees 1 ip target).length = if target ≤ m.maxLevel then (m.chars ip target).length else 0 := by
  rw [Model.allTrees]
  unfold Model.chars
  split
  · cases (m.cpOf ip).bind (lvlChars · target) with
    | none => rfl
    | some cs => simp
  · rfl

/-! ## the characters of a level in the loaded tables -/

def TTables.charsAt (t : TTables) (ip : Str) (l : Nat) : List Char :=
  match t.entry ip with
  | none => []
  | some e => (e.next.filter (·.2 == l)).map (·.1)

theorem lvlChars_byLevel (M : Nat) (next : List (Char × Nat)) (l : Nat) :
    (lvlChars (byLevel M next) l).getD [] =
      if l ≤ M then (next.filter (·.2 == l)).map (·.1) else [] := by
  cases h : lvlChars (byLevel M next) l with
  | some cs =>
    rw [lvlChars_eq_some_iff _ (byLevel_levels M next), mem_byLevel] at h
    obtain ⟨h1, rfl, _⟩ := h
    rw [if_pos h1]; rfl
  | none =>
    simp only [Option.getD_none]
    by_cases h1 : l ≤ M
    · rw [if_pos h1]
      by_cases h2 : (next.filter (·.2 == l)).map (·.1) = []
      · rw [h2]
      · have := (lvlChars_eq_some_iff _ (byLevel_levels M next) l _).2
          ((mem_byLevel M next l _).2 ⟨h1, rfl, h2⟩)
        rw [h] at this; cases this
    · rw [if_neg h1]

theorem toTables_chars (t : TTables) (hg : t.Good) (ip : Str) (l : Nat) :
    t.toTables.m.chars ip l = t.charsAt ip l := by
  unfold Model.chars TTables.charsAt
  rw [toTables_cpOf t hg.keys_nodup]
  cases h : t.entry ip with
  | none => rfl
  | some e =>
    obtain ⟨he, _⟩ := entry_some h
    simp only []
    have hbig : ¬ l ≤ t.maxLevel → (e.next.filter (·.2 == l)).map (·.1) = [] := by
      intro hl
      rw [List.map_eq_nil_iff, List.filter_eq_nil_iff]
      intro p hp hpl
      have := hg.cp_levels e he p hp
      have : p.2 = l := by simpa using hpl
      omega
    have hL := lvlChars_byLevel t.maxLevel e.next l
    by_cases hb : byLevel t.maxLevel e.next = []
    · rw [if_pos hb]
      rw [hb] at hL
      simp only [lvlChars, List.find?_nil, Option.map_none, Option.getD_none] at hL
      simp only [Option.bind_none, Option.getD_none]
      by_cases h1 : l ≤ t.maxLevel
      · rw [if_pos h1] at hL; exact hL
      · exact (hbig h1).symm
    · rw [if_neg hb, Option.bind_some, hL]
      by_cases h1 : l ≤ t.maxLevel
      · rw [if_pos h1]
      · rw [if_neg h1]; exact (hbig h1).symm

/-! ## `recKeyspace` -/

theorem recKeyspace_eq_allTrees_core (t : TTables) (hg : t.Good) :
    ∀ (len : Nat) (ip : Str) (level : Nat),
      t.recKeyspace len ip level = (t.toTables.m.allTrees len ip level).length := by
  intro len
  induction len using Nat.strongRecOn with
  | _ len ih =>
    intro ip level
    match len, ih with
    | 0, _ => simp [TTables.recKeyspace, Model.allTrees]
    | 1, _ =>
      rw [length_allTrees_one, toTables_chars t hg, TTables.recKeyspace, TTables.charsAt, toTables_maxLevel]
      cases h : t.entry ip with
      | none => simp
      | some e =>
        obtain ⟨he, _⟩ := entry_some h
        simp only [List.length_map]
        by_cases h1 : level ≤ t.maxLevel
        · rw [if_pos h1]
        · rw [if_neg h1, List.length_eq_zero_iff, List.filter_eq_nil_iff]
          intro p hp hpl
          have := hg.cp_levels e he p hp
          have : p.2 = level := by simpa using hpl
          omega
    | len + 2, ih =>
      rw [length_allTrees_succ_succ, TTables.recKeyspace, toTables_maxLevel]
      simp only [toTables_chars t hg, ← ih (len + 1) (by omega)]
      unfold TTables.charsAt
      cases h : t.entry ip with
      | none => simp
      | some e =>
        obtain ⟨he, _⟩ := entry_some h
        simp only []
        rw [sum_by_level e.next _ (nodup_reverse_range _)
          (fun c l => t.recKeyspace (len + 1) (nextIp ip c) (level - l))]
        apply sum_map_congr'
        rintro ⟨c, l⟩ hp
        have := hg.cp_levels e he _ hp
        simp only [List.mem_reverse, List.mem_range] at this ⊢
        by_cases h1 : l ≤ level
        · rw [if_pos h1, if_pos (by omega)]
        · rw [if_neg h1, if_neg (by omega)]

/-! ## the tabulated form -/

theorem lookupRow_map (t : TTables) (r : TEntry → List Nat) (ip : Str) (level : Nat) :
    lookupRow (t.entries.map fun e => (e.key, r e)) ip level =
      match t.entry ip with
      | none => 0
      | some e => (r e).getD level 0 := by
  unfold lookupRow TTables.entry
  rw [List.find?_map]
  have : ((fun x : Str × List Nat => x.1 == ip) ∘ fun e : TEntry => (e.key, r e)) = fun e => e.key == ip := rfl
  rw [this]
  cases List.find? (fun e => e.key == ip) t.entries <;> rfl

theorem getD_map_range_nat (n : Nat) (f : Nat → Nat) (a : Nat) (h : a < n) :
    ((List.range n).map f).getD a 0 = f a := by
  simp [List.getD_eq_getElem?_getD, h]

theorem lookupRow_ksRow_core (t : TTables) (maxL : Nat) :
    ∀ (len : Nat) (ip : Str) (level : Nat), level ≤ maxL →
      lookupRow (t.ksRow maxL len) ip level = t.recKeyspace len ip level := by
  intro len
  induction len using Nat.strongRecOn with
  | _ len ih =>
    intro ip level hl
    match len, ih with
    | 0, _ =>
      rw [TTables.ksRow, lookupRow_map, TTables.recKeyspace]
      cases t.entry ip with
      | none => rfl
      | some e =>
        simp only [List.getD_eq_getElem?_getD, List.getElem?_replicate]
        split <;> rfl
    | 1, _ =>
      rw [TTables.ksRow, lookupRow_map, TTables.recKeyspace]
      cases t.entry ip with
      | none => rfl
      | some e => simp only []; rw [getD_map_range_nat _ _ _ (by omega)]
    | len + 2, ih =>
      rw [TTables.ksRow, lookupRow_map, TTables.recKeyspace]
      cases h : t.entry ip with
      | none => rfl
      | some e =>
        obtain ⟨_, hek⟩ := entry_some h
        simp only []
        rw [getD_map_range_nat _ _ _ (by omega), hek]
        apply sum_map_congr'
        rintro ⟨c, l⟩ _
        simp only []
        by_cases h1 : l ≤ level
        · rw [if_pos h1, if_pos h1, ih (len + 1) (by omega) _ _ (by omega)]
        · rw [if_neg h1, if_neg h1]

end Omen
